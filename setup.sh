#!/bin/bash
# Offline setup: syntax-check every TLA+ module, warm the numba caches used by the checks.
cd "$(dirname "$0")"
ROOT="$PWD"
export ROOT
export PYTHONPATH="$ROOT/harness:/repo"
sany_one() {
  f="$1"; d=$(dirname "$f"); b=$(basename "$f")
  out=$(cd "$d" && java -DTLA-Library="$ROOT/spec/lib" -cp /opt/veriftools/tla/tla2tools.jar:/opt/veriftools/tla/CommunityModules-deps.jar tla2sany.SANY "$b" 2>&1)
  if echo "$out" | grep -q -E "Parse Error|Semantic errors|Fatal errors|Could not|Cannot find"; then echo "SANY FAILED: $f"; echo "$out" | tail -20; return 1; fi
  return 0
}
export -f sany_one
# modules of registered checks (and the shared library users) must parse; others only warn
REG=$(python3 -c "import json;print(' '.join(c['property_id'] for c in json.load(open('MANIFEST.json'))['checks']))")
for pid in $REG; do
  ls spec/$pid/*.tla 2>/dev/null
done | xargs -P 8 -I{} bash -c 'sany_one {}' || { echo "setup: SANY failed"; exit 1; }
# optional pure-python dependency used by the MPO builders (C19); /venv stays untouched
if [ ! -d .deps/networkx ]; then
  /venv/bin/pip install --quiet --no-index --find-links /opt/veriftools/wheels --target .deps networkx >/dev/null 2>&1 || echo "note: networkx wheel not installable; MPO builder paths will be skipped"
fi
NUMBA_CACHE_DIR="$ROOT/.numba_cache" QUIMB_NUM_THREAD_WORKERS=1 /venv/bin/python -c "import quimb, quimb.tensor" >/dev/null || { echo "setup: cannot import quimb"; exit 1; }
echo setup ok
