SPECIFICATION TSpec
INVARIANT Done
CHECK_DEADLOCK FALSE
