SPECIFICATION Spec
CONSTANTS
  Elems = {1, 2, 3}
  Objs = {"a", "b", "c"}
  Cap = 2
  MaxSteps = 5
  Shared = TRUE
INVARIANT TypeOK
INVARIANT IsSet
INVARIANT LruBounded
PROPERTY OrderStable
PROPERTY Independent
PROPERTY PlainPure
PROPERTY LruRecent
CHECK_DEADLOCK FALSE
