------------------------------ MODULE X03_Defs ------------------------------
(***************************************************************************)
(* EXTENSION X03 (not a listed property): the containers everything else    *)
(* stands on - quimb.utils.oset (insertion-ordered set: the tag sets of     *)
(* every tensor, ind_map / tag_map values of every network, hence the       *)
(* iteration order that makes contraction deterministic) and quimb.utils.   *)
(* LRU (bounded least-recently-used dict: the contraction-path caches).     *)
(* Reference meaning: an oset is a duplicate-free sequence; pure operators  *)
(* below give the sequence after each method.                               *)
(***************************************************************************)
EXTENDS Naturals, Sequences, FiniteSets

Range(s) == {s[i] : i \in DOMAIN s}
NoDup(s) == \A i, j \in DOMAIN s : s[i] = s[j] => i = j
Without(s, S) == SelectSeq(s, LAMBDA x : x \notin S)
Within(s, S)  == SelectSeq(s, LAMBDA x : x \in S)

\* a present element keeps its place, a new one goes to the end
AddTo(s, k) == IF k \in Range(s) THEN s ELSE Append(s, k)
\* update(*others): every other is consumed left to right
RECURSIVE Extend(_, _)
Extend(s, ks) == IF ks = <<>> THEN s ELSE Extend(AddTo(s, Head(ks)), Tail(ks))
RECURSIVE ExtendAll(_, _)
ExtendAll(s, others) == IF others = <<>> THEN s ELSE ExtendAll(Extend(s, Head(others)), Tail(others))

UnionRange(others) == UNION {Range(others[i]) : i \in DOMAIN others}
InterRange(others) == {x \in UnionRange(others) : \A i \in DOMAIN others : x \in Range(others[i])}

Discard(s, k)  == Without(s, {k})
Inter(s, others) == IF others = <<>> THEN s ELSE Within(s, InterRange(others))
Diff(s, others)  == Without(s, UnionRange(others))
DropFirst(s) == Tail(s)
DropLast(s)  == SubSeq(s, 1, Len(s) - 1)

\* relative order of the elements two sequences share is the same
SameOrder(s, t) == Within(s, Range(t)) = Within(t, Range(s))
\* t is s with elements removed and new elements added at the end only
GrowsAtEnd(s, t) == /\ SameOrder(s, t)
                    /\ \A i, j \in DOMAIN t : (t[i] \in Range(s) /\ t[j] \notin Range(s)) => i < j

(* LRU: a duplicate-free sequence of keys, least recently used first, plus the value of every key *)
Touch(q, k) == Append(Without(q, {k}), k)
LruSet(q, k, cap) == LET t == Touch(q, k) IN IF Len(t) > cap THEN Tail(t) ELSE t
=============================================================================
