----------------------------- MODULE X03_Trace -----------------------------
(***************************************************************************)
(* One line per public call on a real quimb.utils.oset / LRU object:       *)
(*   [tid, ev, o, ks (element arguments), ps (argument objects, by name),  *)
(*    lists (plain-iterable arguments), new (name of the returned object or *)
(*    ""), res (int result or -1), exc, obs (name -> list(oset) of EVERY    *)
(*    live object after the call), cap, lru (keys, oldest first)]           *)
(* The model heap is advanced with the operators of X03_Defs; the clauses   *)
(* compare what the code shows with what the model says.                    *)
(***************************************************************************)
EXTENDS X03_Defs, Integers, TLC, TraceIO

VARIABLES l, fails, heap, lru, tid
tvars == <<l, fails, heap, lru, tid>>

ValOf(h, o) == IF o \in DOMAIN h THEN h[o] ELSE <<>>
Put(h, o, s) == [x \in DOMAIN h \cup {o} |-> IF x = o THEN s ELSE h[x]]
Others(h, ln) == [i \in DOMAIN ln.ps |-> ValOf(h, ln.ps[i])] \o ln.lists
InPlace == {"add", "discard", "remove", "clear", "update", "intersection_update", "difference_update",
            "popleft", "popright", "ior", "iand", "isub"}
Plain == {"copy", "deepcopy", "from_dict", "union", "intersection", "difference", "or", "and", "sub", "new"}
Raises(ln, s, q) == \/ (ln.ev = "remove" /\ ln.ks[1] \notin Range(s))
                    \/ (ln.ev \in {"popleft", "popright"} /\ s = <<>>)
                    \/ (ln.ev = "lget" /\ ln.ks[1] \notin Range(q))

\* the receiver (or the new object) after the call, according to the reference
After(ln, s, oth) ==
  CASE ln.ev = "add" -> AddTo(s, ln.ks[1])
    [] ln.ev = "discard" -> Discard(s, ln.ks[1])
    [] ln.ev = "remove" -> Discard(s, ln.ks[1])
    [] ln.ev = "clear" -> <<>>
    [] ln.ev \in {"update", "ior", "union", "or"} -> ExtendAll(s, oth)
    [] ln.ev \in {"intersection_update", "iand", "intersection", "and"} -> Inter(s, oth)
    [] ln.ev \in {"difference_update", "isub", "difference", "sub"} -> Diff(s, oth)
    [] ln.ev = "popleft" -> IF s = <<>> THEN s ELSE DropFirst(s)
    [] ln.ev = "popright" -> IF s = <<>> THEN s ELSE DropLast(s)
    [] ln.ev = "new" -> Extend(<<>>, ln.lists[1])
    [] OTHER -> s

Res(ln, s, oth) ==
  CASE ln.ev = "popleft" /\ s # <<>> -> s[1]
    [] ln.ev = "popright" /\ s # <<>> -> s[Len(s)]
    [] ln.ev = "len" -> Len(s)
    [] ln.ev = "contains" -> IF ln.ks[1] \in Range(s) THEN 1 ELSE 0
    [] ln.ev = "eq" -> IF Range(s) = Range(oth[1]) THEN 1 ELSE 0
    [] OTHER -> 0 - 1

NextHeap(ln, h) ==
  LET s == ValOf(h, ln.o) oth == Others(h, ln) IN
  IF ln.ev \in InPlace THEN Put(h, ln.o, After(ln, s, oth))
  ELSE IF ln.ev \in Plain /\ ln.new # "" THEN Put(h, ln.new, After(ln, s, oth))
  ELSE h
NextLru(ln, q) ==
  CASE ln.ev = "lget" /\ ln.ks[1] \in Range(q) -> Touch(q, ln.ks[1])
    [] ln.ev = "lset" -> LruSet(q, ln.ks[1], ln.cap)
    [] OTHER -> q

Clauses(ln, h0, h1, q0, q1) ==
  LET s == ValOf(h0, ln.o) oth == Others(h0, ln) raises == Raises(ln, s, q0) IN
  << <<"ErrorIffReference", (ln.exc # "") <=> raises>>,
     \* every live object shows the reference sequence (receiver changed as specified, every other object untouched)
     <<"StateIsReference", \A o \in DOMAIN ln.obs : ln.obs[o] = ValOf(h1, o)>>,
     <<"IsSet", \A o \in DOMAIN ln.obs : NoDup(ln.obs[o])>>,
     <<"OrderStable", \A o \in DOMAIN ln.obs : o \in DOMAIN h0 => GrowsAtEnd(h0[o], ln.obs[o])>>,
     <<"OthersUntouched", \A o \in DOMAIN ln.obs : (o \in DOMAIN h0 /\ ~(o = ln.o /\ ln.ev \in InPlace)) => ln.obs[o] = h0[o]>>,
     <<"ResultIsReference", ln.exc = "" => ln.res = Res(ln, s, oth)>>,
     <<"LruIsReference", ln.lru = q1>>,
     <<"LruBounded", Len(ln.lru) <= ln.cap /\ NoDup(ln.lru)>>,
     <<"LruRecent", (ln.ev \in {"lget", "lset"} /\ ln.exc = "") => (ln.lru # <<>> /\ ln.lru[Len(ln.lru)] = ln.ks[1])>> >>

TInit == l = 1 /\ fails = <<>> /\ heap = <<>> /\ lru = <<>> /\ tid = 0 - 1
TNext == /\ l <= NLines
         /\ LET ln == TraceLog[l]
                fresh == ln.tid # tid
                h0 == IF fresh THEN <<>> ELSE heap
                q0 == IF fresh THEN <<>> ELSE lru
                h1 == NextHeap(ln, h0)
                q1 == NextLru(ln, q0) IN
            /\ fails' = AddFails(fails, l, Clauses(ln, h0, h1, q0, q1))
            \* resynchronise on the observation so that one failure is reported once
            /\ heap' = [o \in DOMAIN ln.obs |-> ln.obs[o]] /\ lru' = ln.lru /\ tid' = ln.tid
         /\ l' = l + 1
TSpec == TInit /\ [][TNext]_tvars
Done == l = NLines + 1 => WriteVerdict(l - 1, fails)
=============================================================================
