------------------------------ MODULE X03_OSet ------------------------------
(***************************************************************************)
(* State machine of a small heap of osets and one LRU, one action per      *)
(* public method (in-place methods change exactly the receiver, the plain  *)
(* ones allocate a new object and change nothing else).  `Shared = TRUE`   *)
(* is the must-fail variant in which copy() hands out an alias of the      *)
(* receiver's storage (what oset._from_dict does without the .copy()).     *)
(***************************************************************************)
EXTENDS X03_Defs, TLC

CONSTANTS Elems, Objs, Cap, MaxSteps, Shared

VARIABLES heap,      \* Objs -> duplicate-free sequence (allocated objects only)
          store,     \* Objs -> storage cell of the object (aliasing: two objects may share a cell)
          lru,       \* sequence of keys, least recently used first
          steps, last
vars == <<heap, store, lru, steps, last>>

Live == DOMAIN store
Val(o) == heap[store[o]]
Set(o, s) == heap' = [heap EXCEPT ![store[o]] = s]
Free == Objs \ Live
Alloc(p, s) == /\ store' = [x \in Live \cup {p} |-> IF x = p THEN p ELSE store[x]]
               /\ heap' = [x \in DOMAIN heap \cup {p} |-> IF x = p THEN s ELSE heap[x]]
Step(a) == steps < MaxSteps /\ steps' = steps + 1 /\ last' = a

Init == /\ \E o \in Objs : store = [x \in {o} |-> o] /\ heap = [x \in {o} |-> <<>>]
        /\ lru = <<>> /\ steps = 0 /\ last = "init"

Add(o, k)      == Step("Add") /\ Set(o, AddTo(Val(o), k)) /\ UNCHANGED <<store, lru>>
DiscardA(o, k) == Step("Discard") /\ Set(o, Discard(Val(o), k)) /\ UNCHANGED <<store, lru>>
PopLeft(o)     == Step("PopLeft") /\ Val(o) # <<>> /\ Set(o, DropFirst(Val(o))) /\ UNCHANGED <<store, lru>>
PopRight(o)    == Step("PopRight") /\ Val(o) # <<>> /\ Set(o, DropLast(Val(o))) /\ UNCHANGED <<store, lru>>
Update(o, p)   == Step("Update") /\ Set(o, Extend(Val(o), Val(p))) /\ UNCHANGED <<store, lru>>
InterUpd(o, p) == Step("InterUpd") /\ Set(o, Inter(Val(o), <<Val(p)>>)) /\ UNCHANGED <<store, lru>>
DiffUpd(o, p)  == Step("DiffUpd") /\ Set(o, Diff(Val(o), <<Val(p)>>)) /\ UNCHANGED <<store, lru>>
Copy(o) == /\ Step("Copy") /\ UNCHANGED lru
           /\ \E p \in Free :
                IF Shared THEN store' = [x \in Live \cup {p} |-> IF x = p THEN store[o] ELSE store[x]] /\ UNCHANGED heap
                ELSE Alloc(p, Val(o))
Union(o, p) == Step("Union") /\ UNCHANGED lru /\ \E q \in Free : Alloc(q, Extend(Val(o), Val(p)))
Intersect(o, p) == Step("Intersect") /\ UNCHANGED lru /\ \E q \in Free : Alloc(q, Inter(Val(o), <<Val(p)>>))
Difference(o, p) == Step("Difference") /\ UNCHANGED lru /\ \E q \in Free : Alloc(q, Diff(Val(o), <<Val(p)>>))
Drop(o) == /\ Step("Drop") /\ Cardinality(Live) > 1 /\ UNCHANGED <<heap, lru>>
           /\ store' = [x \in Live \ {o} |-> store[x]]
LGet(k) == Step("LGet") /\ k \in Range(lru) /\ lru' = Touch(lru, k) /\ UNCHANGED <<heap, store>>
LSet(k) == Step("LSet") /\ lru' = LruSet(lru, k, Cap) /\ UNCHANGED <<heap, store>>

AAdd == \E o \in Live, k \in Elems : Add(o, k)
ADiscardA == \E o \in Live, k \in Elems : DiscardA(o, k)
APopLeft == \E o \in Live : PopLeft(o)
APopRight == \E o \in Live : PopRight(o)
ACopy == \E o \in Live : Copy(o)
ADrop == \E o \in Live : Drop(o)
AUpdate == \E o \in Live, p \in Live : Update(o, p)
AInterUpd == \E o \in Live, p \in Live : InterUpd(o, p)
ADiffUpd == \E o \in Live, p \in Live : DiffUpd(o, p)
AUnion == \E o \in Live, p \in Live : Union(o, p)
AIntersect == \E o \in Live, p \in Live : Intersect(o, p)
ADifference == \E o \in Live, p \in Live : Difference(o, p)
ALGet == \E k \in Elems : LGet(k)
ALSet == \E k \in Elems : LSet(k)
Next == AAdd \/ ADiscardA \/ APopLeft \/ APopRight \/ ACopy \/ ADrop \/ AUpdate
        \/ AInterUpd \/ ADiffUpd \/ AUnion \/ AIntersect \/ ADifference \/ ALGet \/ ALSet
Spec == Init /\ [][Next]_vars

(* ---- what users rely on ---- *)
TypeOK == /\ \A o \in Live : store[o] \in DOMAIN heap /\ Range(Val(o)) \subseteq Elems
          /\ Range(lru) \subseteq Elems
IsSet == \A o \in Live : NoDup(Val(o))
\* insertion order is never rearranged: an in-place method removes elements and/or appends new ones
OrderStable == [][\A o \in Live \cap DOMAIN store' : GrowsAtEnd(Val(o), heap'[store'[o]])]_vars
\* objects are independent: a step changes at most one live object
Independent == [][Cardinality({o \in Live \cap DOMAIN store' : Val(o) # heap'[store'[o]]}) <= 1]_vars
\* plain methods leave every existing object alone
PlainPure == [][last' \in {"Copy", "Union", "Intersect", "Difference", "Drop", "LGet", "LSet"} =>
                  \A o \in Live \cap DOMAIN store' : Val(o) = heap'[store'[o]]]_vars
LruBounded == Len(lru) <= Cap /\ NoDup(lru)
\* the key just used is the last to be evicted
LruRecent == [][last' \in {"LGet", "LSet"} => (lru' # <<>> /\ SameOrder(Without(lru, {lru'[Len(lru')]}), lru'))]_vars
=============================================================================
