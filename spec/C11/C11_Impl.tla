------------------------------ MODULE C11_Impl ------------------------------
(***************************************************************************)
(* C11 - implementation-shaped part: a functional transcription of the     *)
(* time / queue bookkeeping of quimb.tensor.tn1d.tebd.TEBD at the pinned   *)
(* commit (sweep's queue merging, step, update_to's loop and final partial *)
(* step, at_times, the bonds visited by a sweep, the site renormalised in  *)
(* imaginary time) and of tnag.tebd.trotter_schedule(2, order).            *)
(* No variables: used by the state machine C11_TEBD (explored by TLC) and  *)
(* by C11_Trace (NOTE:ModelDrift against recorded gate sequences).         *)
(*                                                                         *)
(* state record  st = [t, sdt, dt0, queue, layers, br]                     *)
(*   t      current time (grains)          sdt  self._dt (DtNone = None)   *)
(*   dt0    self.dt, the constructor default                               *)
(*   queue  <<>> or <<dir, c>>: self._queued_sweep; the code stores the    *)
(*          fraction relative to _dt, here c = fraction * _dt (absolute)   *)
(*   layers sweeps really performed so far (in the current public call)    *)
(*   br     which branches of the queue logic were taken (vacuity check)   *)
(***************************************************************************)
EXTENDS C11_Defs

DtNone == -1

(* trotter_schedule(2, order): pairs <<k, frac>>, frac = (p + q s)/2 as <<p, q>> *)
Order2Sched == << <<0, <<1, 0>> >>, <<1, <<2, 0>> >>, <<0, <<1, 0>> >> >>
\* frac * f for frac = p/2 (p in {1,2}) and f = a + b s given as <<a, b>>
FMul(frac, f) == <<(frac[1] * f[1]), (frac[1] * f[2])>>
SuzukiF == << <<0, 1>>, <<0, 1>>, <<1, -4>>, <<0, 1>>, <<0, 1>> >>      \* (s, s, 1-4s, s, s)
TrotterSchedule(order) ==
  CASE order = 1 -> << <<0, <<2, 0>> >>, <<1, <<2, 0>> >> >>
    [] order = 2 -> Order2Sched
    [] order = 4 -> [i \in 1..15 |->
                       LET f == SuzukiF[((i - 1) \div 3) + 1]
                           e == Order2Sched[((i - 1) % 3) + 1]
                       IN  <<e[1], FMul(e[2], f)>>]
Directions == <<"R", "L">>          \* directions = ("right", "left"): layer 0 swept right, layer 1 left

Perform(st, d, c) == [st EXCEPT !.layers = Append(@, Lay(d, c))]
Took(st, b) == [st EXCEPT !.br = @ \cup {b}]

\* TEBD.sweep(direction, dt_frac, dt, queue) with c = dt_frac * (dt or _dt)
RECURSIVE ISweep(_, _, _, _)
ISweep(st, d, c, q) ==
  IF q
  THEN IF st.queue # <<>>
       THEN IF d = st.queue[1]
            THEN Took([st EXCEPT !.queue = <<d, CAdd(st.queue[2], c)>>], "merge")          \* combine and return
            ELSE Perform(Took([st EXCEPT !.queue = <<d, c>>], "swap"), st.queue[1], st.queue[2])  \* perform the old, queue the new
       ELSE Took([st EXCEPT !.queue = <<d, c>>], "queue")                                  \* just queue
  ELSE IF st.queue # <<>>
       THEN Perform(ISweep(Took([st EXCEPT !.queue = <<>>], "drain"), st.queue[1], st.queue[2], FALSE), d, c)
       ELSE Perform(Took(st, "plain"), d, c)

\* TEBD.step(order, dt, queue=q): dtc = DtNone means dt=None
RECURSIVE IStepLoop(_, _, _, _, _)
IStepLoop(st, sched, k, dteff, q) ==
  IF k > Len(sched) THEN st
  ELSE IStepLoop(ISweep(st, Directions[sched[k][1] + 1], CMulInt(sched[k][2], dteff), q), sched, k + 1, dteff, q)
IStep(st, order, dtc, q) ==
  LET dteff == IF dtc = DtNone THEN st.sdt ELSE dtc
      s1 == IStepLoop(st, TrotterSchedule(order), 1, dteff, q)
  IN  [s1 EXCEPT !.t = @ + dteff]

\* _compute_sweep_dt_tol with a given dt (the tolerance route only chooses another number for dt).
\* A queued fraction is relative to _dt: changing _dt rescales what it will apply.
\* (FixQ = TRUE models the repair that rescales the stored fraction so that the queued duration is kept)
SetDtQ(st, dtc, fixq) ==
  LET new == IF dtc = DtNone THEN st.dt0 ELSE dtc IN
  IF fixq THEN [st EXCEPT !.sdt = new] ELSE
  [st EXCEPT !.sdt = new,
             !.queue = IF @ = <<>> \/ st.sdt = DtNone \/ st.sdt = new THEN @
                       ELSE <<@[1], <<(@[2][1] * new) \div st.sdt, (@[2][2] * new) \div st.sdt>> >>]
SetDt(st, dtc) == SetDtQ(st, dtc, FALSE)
RescaleExact(st, dtc) ==
  LET new == IF dtc = DtNone THEN st.dt0 ELSE dtc IN
  IF st.queue = <<>> \/ st.sdt = DtNone \/ st.sdt = new THEN TRUE
  ELSE ((st.queue[2][1] * new) % st.sdt = 0 /\ (st.queue[2][2] * new) % st.sdt = 0)

\* TEBD.update_to(T, dt, order)   (caller guarantees T >= t: otherwise NotImplementedError)
RECURSIVE IUpdLoop(_, _, _)
IUpdLoop(st, T, order) ==
  IF st.t < T - st.sdt THEN IUpdLoop(IStep(st, order, DtNone, TRUE), T, order) ELSE st
IUpdateToQ(st, T, dtc, order, fixq) ==
  LET s1 == IUpdLoop(SetDtQ(st, dtc, fixq), T, order)
  IN  IStep(s1, order, T - s1.t, FALSE)
IUpdateTo(st, T, dtc, order) == IUpdateToQ(st, T, dtc, order, FALSE)

\* TEBD.at_times(ts, dt, order): ts sorted, dt fixed once, update_to for each
SortTs(s) ==
  LET n == Len(s)
      rank(i) == Cardinality({j \in 1..n : s[j] < s[i] \/ (s[j] = s[i] /\ j < i)}) + 1
  IN  [k \in 1..n |-> s[CHOOSE i \in 1..n : rank(i) = k]]
RECURSIVE IAtLoop(_, _, _, _)
IAtLoop(st, ts, dt, order) ==
  IF ts = <<>> THEN st ELSE IAtLoop(IUpdateTo(st, Head(ts), dt, order), Tail(ts), dt, order)
IAtTimesQ(st, ts, dtc, order, fixq) ==
  LET s1 == SetDtQ(st, dtc, fixq) IN IAtLoop(s1, SortTs(ts), s1.sdt, order)
IAtTimes(st, ts, dtc, order) == IAtTimesQ(st, ts, dtc, order, FALSE)

\* a direct public TEBD.sweep(direction, dt_frac, dt, queue): frac in halves (1 = 0.5, 2 = 1.0); time is not advanced
IPubSweep(st, d, fp, dtc, q) ==
  ISweep(st, d, CMulInt(<<fp, 0>>, IF dtc = DtNone THEN st.sdt ELSE dtc), q)

(* ------------------- what a sweep does to the chain --------------------- *)
\* the `where` pairs gated by one sweep, in order (first entry = site passed first to gate_split_)
Evens(L) == {i \in 0..(L - 2) : i % 2 = 0}
Odds(L)  == {i \in 1..(L - 2) : i % 2 = 1}
RECURSIVE Asc(_)
Asc(S) == IF S = {} THEN <<>> ELSE LET m == CHOOSE x \in S : \A y \in S : x <= y IN <<m>> \o Asc(S \ {m})
SweepWheres(d, L, cyc) ==
  IF d = "R"
  THEN [k \in 1..Len(Asc(Evens(L))) |-> <<Asc(Evens(L))[k], Asc(Evens(L))[k] + 1>>]
       \o (IF L % 2 = 1 /\ cyc /\ L > 2 THEN << <<L - 1, 0>> >> ELSE <<>>)
  ELSE (IF cyc /\ L % 2 = 0 /\ L > 2 THEN << <<L - 1, 0>> >> ELSE <<>>)
       \o Reverse([k \in 1..Len(Asc(Odds(L))) |-> <<Asc(Odds(L))[k], Asc(Odds(L))[k] + 1>>])
\* gate sequence (bond, coefficient) of a layer sequence
RECURSIVE GatesOfLayers(_, _, _)
GatesOfLayers(ls, L, cyc) ==
  IF ls = <<>> THEN <<>>
  ELSE LET w == SweepWheres(Head(ls).d, L, cyc) IN
       [k \in 1..Len(w) |-> [b |-> BondOfSites(w[k][1], w[k][2], L, cyc), c |-> Head(ls).c]]
       \o GatesOfLayers(Tail(ls), L, cyc)
\* every bond of the chain is gated by exactly one of the two sweeps, and by the sweep of its class
SweepsCoverBonds(L, cyc) ==
  \A d \in {"R", "L"} :
     LET w == SweepWheres(d, L, cyc)
         bs == [k \in 1..Len(w) |-> BondOfSites(w[k][1], w[k][2], L, cyc)]
     IN  /\ {bs[k] : k \in 1..Len(w)} = ClassBonds(L, cyc, d)
         /\ \A j, k \in 1..Len(w) : bs[j] = bs[k] => j = k
\* the gate fetched for `where` is the stored term of sorted(where), first factor on the smaller site;
\* it is applied with its first factor on where[1]
GateOriented(w, flipWrap) == w[1] < w[2] \/ flipWrap

\* imaginary time: site whose tensor is divided by its norm after a sweep, and where the canonical centre is
RenormSite(d, L, leftSite) == IF d = "R" THEN L - 1 ELSE leftSite
CentreAfter(d, L) == IF d = "R" THEN L - 1 ELSE 0
\* the state is normalised after a sweep iff the renormalised tensor is the centre
NormalisedAfter(ls, L, leftSite) ==
  ls = <<>> \/ RenormSite(ls[Len(ls)].d, L, leftSite) = CentreAfter(ls[Len(ls)].d, L)
=============================================================================
