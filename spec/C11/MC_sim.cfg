SPECIFICATION Spec
CONSTANTS
  Orders <- OrdersAll
  Dts <- DtsS
  Targets <- TargS
  TsTargets <- TargS
  MaxTs = 3
  MaxSweeps = 2
  MaxQueued = 3
  PublicQueue = TRUE
  DtChangeQueued = FALSE
  FixQ = FALSE
  LeftRenormSite = 0
  FlipWrap = TRUE
  Ls <- LsAll
  Record = TRUE
  SimLen = 4
INVARIANT TimeExact
INVARIANT ProductFormula
INVARIANT EmitJson
CHECK_DEADLOCK FALSE
