SPECIFICATION Spec
CONSTANTS
  Orders <- OrdersAll
  Dts <- DtsS
  Targets <- TargS
  TsTargets <- TargS
  MaxTs = 3
  PublicQueue = FALSE
  LeftRenormSite = 0
  FlipWrap = TRUE
  Ls <- LsAll
  Record = TRUE
  SimLen = 3
INVARIANT TimeExact
INVARIANT ProductFormula
INVARIANT EmitJson
CHECK_DEADLOCK FALSE
