SPECIFICATION Spec
CONSTANTS
  Orders <- OrdersAll
  Dts <- DtsQ
  Targets <- TargQ
  TsTargets <- TargQ
  MaxTs = 1
  PublicQueue = FALSE
  LeftRenormSite = 1
  FlipWrap = TRUE
  Ls <- LsAll
  Record = FALSE
  SimLen = 3
INVARIANT ImagNormalised
CHECK_DEADLOCK FALSE
