SPECIFICATION Spec
CONSTANTS
  Orders <- OrdersAll
  Dts <- DtsQ
  Targets <- TargQ
  TsTargets <- TargV
  MaxTs = 1
  MaxSweeps = 0
  MaxQueued = 2
  PublicQueue = FALSE
  DtChangeQueued = FALSE
  FixQ = FALSE
  LeftRenormSite = 0
  FlipWrap = TRUE
  Ls <- LsAll
  Record = FALSE
  SimLen = 4
INVARIANT NotAllBranches
CHECK_DEADLOCK FALSE
