SPECIFICATION Spec
CONSTANTS
  Orders <- OrdersAll
  Dts <- DtsQ
  Targets <- TargQ
  TsTargets <- TargQ
  MaxTs = 1
  PublicQueue = FALSE
  LeftRenormSite = 0
  FlipWrap = TRUE
  Ls <- LsAll
  Record = FALSE
  SimLen = 3
INVARIANT NotAllBranches
CHECK_DEADLOCK FALSE
