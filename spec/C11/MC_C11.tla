------------------------------ MODULE MC_C11 ------------------------------
EXTENDS C11_TEBD
OrdersAll == {1, 2, 4}
DtsQ  == {2, 3}
DtsT  == {1, 2, 3}
DtsS  == {1, 2, 3, 4}
DtsP  == {2, 4}
TargQ == {0, 3, 4, 7}
TargB == {0, 3, 4, 7, 8}
TargT == {0, 1, 3, 4, 7, 8}
TargU == {0, 3, 4}
TargV == {3, 7}
TargW == {0, 3}
TargX == {3}
TargS == {0, 1, 2, 3, 4, 5, 6, 7, 8, 10, 12}
LsAll == {2, 3, 4, 5, 6}
\* constant-level statements about chains, checked once by TLC
ASSUME ChainFacts == ChainOK /\ GatesRoundTrip
=============================================================================
