SPECIFICATION Spec
CONSTANTS
  Orders <- OrdersAll
  Dts <- DtsQ
  Targets <- TargQ
  TsTargets <- TargV
  MaxTs = 2
  PublicQueue = FALSE
  LeftRenormSite = 0
  FlipWrap = TRUE
  Ls <- LsAll
  Record = FALSE
  SimLen = 3
INVARIANT TimeExact
INVARIANT QueueDrained
INVARIANT ProductFormula
INVARIANT ClassSumsOK
INVARIANT StepsWithinDt
INVARIANT Symmetric
INVARIANT ImagNormalised
INVARIANT WrapOriented
INVARIANT TotalSums
CHECK_DEADLOCK FALSE
