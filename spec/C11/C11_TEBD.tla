------------------------------ MODULE C11_TEBD ------------------------------
(***************************************************************************)
(* C11 - state machine of one TEBD object driven through its public calls  *)
(* (update_to, at_times, step).  Each action runs the implementation-      *)
(* shaped transcription of C11_Impl; the invariants are the property-level *)
(* statements of C11_Defs evaluated on the layers the call applied:        *)
(* TLC checks "what the code does" implies "what must be true" for every   *)
(* history over the small constants (no depth bound: time only grows, so   *)
(* the state graph is finite).                                             *)
(***************************************************************************)
EXTENDS C11_Impl, TLC, Json

CONSTANTS Orders,        \* subset of {1, 2, 4}
          Dts,           \* time steps (grains)
          Targets,       \* target times (grains)
          TsTargets,     \* times that may appear in the argument of at_times
          MaxTs,         \* longest argument of at_times
          PublicQueue,   \* TRUE: step(queue=True) is also a public call (undocumented parameter; self-test)
          LeftRenormSite,\* site renormalised after a left sweep in imaginary time (0 since fix 7f3de1c3; 1 before)
          FlipWrap,      \* TRUE: the wrap-around gate is flipped before it is applied (since fix b5edf86a; FALSE before)
          Ls,            \* chain lengths for the derived chain-level invariants
          Record,        \* TRUE: keep the history `hist` (simulation for replay)
          SimLen         \* number of calls of a printed behaviour

VARIABLES st,     \* [t, sdt, dt0, queue]
          cur,    \* layers applied by the last public call
          last,   \* the last public call [op, order, t0, T, dt]   (dt = step in force during the call)
          br,     \* branches of the queue logic taken so far (ghost)
          tot,    \* <<sum of R coefficients, sum of L coefficients>> of every sweep performed since t = 0 (ghost)
          hist

vars == <<st, cur, last, br, tot, hist>>

Blank(s) == [t |-> s.t, sdt |-> s.sdt, dt0 |-> s.dt0, queue |-> s.queue, layers |-> <<>>, br |-> {}]
Keep(r) == [t |-> r.t, sdt |-> r.sdt, dt0 |-> r.dt0, queue |-> r.queue]

Commit(r, call) ==
  /\ st' = Keep(r)
  /\ cur' = r.layers
  /\ last' = call
  /\ br' = br \cup r.br
  /\ tot' = <<CAdd(tot[1], SumClass(r.layers, "R")), CAdd(tot[2], SumClass(r.layers, "L"))>>
  /\ hist' = IF Record THEN Append(hist, [call |-> call, t |-> r.t, dt0 |-> r.dt0, nlayers |-> Len(r.layers)]) ELSE hist

Init ==
  /\ \E d0 \in Dts \cup {DtNone} : st = [t |-> 0, sdt |-> d0, dt0 |-> d0, queue |-> <<>>]
  /\ cur = <<>>
  /\ last = [op |-> "init", order |-> 0, t0 |-> 0, T |-> 0, dt |-> 0, q |-> FALSE]
  /\ br = {}
  /\ tot = <<CZero, CZero>>
  /\ hist = <<>>

MaxT == CHOOSE m \in Targets : \A x \in Targets : x <= m
DtOK(dtc) == dtc # DtNone \/ st.dt0 # DtNone

UpdateTo(T, dtc, order) ==
  /\ T >= st.t /\ DtOK(dtc) /\ RescaleExact(Blank(st), dtc)
  /\ \E r \in {IUpdateTo(Blank(st), T, dtc, order)} :
     Commit(r, [op |-> "update_to", order |-> order, t0 |-> st.t, T |-> T, dt |-> r.sdt, q |-> FALSE,
                args |-> [T |-> T, dt |-> dtc, order |-> order]])

AtTimes(ts, dtc, order) ==
  /\ \A k \in 1..Len(ts) : ts[k] >= st.t
  /\ DtOK(dtc) /\ RescaleExact(Blank(st), dtc)
  /\ \E r \in {IAtTimes(Blank(st), ts, dtc, order)} :
     Commit(r, [op |-> "at_times", order |-> order, t0 |-> st.t, T |-> SortTs(ts)[Len(ts)], dt |-> r.sdt, q |-> FALSE,
                args |-> [ts |-> ts, dt |-> dtc, order |-> order]])

Step(order, dtc, q) ==
  /\ st.sdt # DtNone
  /\ q => PublicQueue
  /\ \E r \in {IStep(Blank(st), order, dtc, q)}, dteff \in {IF dtc = DtNone THEN st.sdt ELSE dtc} :
     /\ r.t <= MaxT                    \* keep the graph finite: steps are not bounded by a target
     /\ Commit(r, [op |-> "step", order |-> order, t0 |-> st.t, T |-> st.t + dteff, dt |-> dteff, q |-> q,
                   args |-> [dt |-> dtc, order |-> order]])

TsArgs == UNION {[1..n -> TsTargets] : n \in 1..MaxTs}

UpdateToA == \E T \in Targets, dtc \in Dts \cup {DtNone}, order \in Orders : UpdateTo(T, dtc, order)
AtTimesA  == \E ts \in TsArgs, dtc \in Dts \cup {DtNone}, order \in Orders : AtTimes(ts, dtc, order)
StepA     == \E order \in Orders, dtc \in Dts \cup {DtNone}, q \in BOOLEAN : Step(order, dtc, q)

Next == UpdateToA \/ AtTimesA \/ StepA
Spec == Init /\ [][Next]_vars

(* --------------------- property-level invariants ------------------------ *)
Called == last.op # "init"
Drains == Called /\ ~last.q            \* every documented public call drains the queue

\* t = T after update_to(T) / at_times(ts) (T = max ts) / step
TimeExact == Called => st.t = last.T

QueueDrained == Drains => st.queue = <<>>

\* what the call applied is a product of steps of the requested order adding up to the elapsed time
ProductFormula == Drains => IsProductFormula(last.order, cur, last.t0, last.T)
ClassSumsOK    == Drains => ClassSums(cur, last.t0, last.T)
StepsWithinDt  == Drains => StepsWithin(last.order, cur, last.dt)
Symmetric      == Drains => SymmetricProduct(last.order, cur)

\* over the whole history: what was performed, plus what is still queued, adds up to the current time in
\* each class.  Holds for the documented calls; with the undocumented public queue=True it is VIOLATED when
\* the step is changed while a sweep is queued (the queued fraction is relative to _dt): self-test MC_pubqueue
TotalSums ==
  LET qd(d) == IF st.queue # <<>> /\ st.queue[1] = d THEN st.queue[2] ELSE CZero IN
  CAdd(tot[1], qd("R")) = CRat(st.t) /\ CAdd(tot[2], qd("L")) = CRat(st.t)

\* imaginary time: after the call the state has norm one (every sweep renormalises the centre tensor)
ImagNormalised == Drains => \A L \in Ls : NormalisedAfter(cur, L, LeftRenormSite)

\* chain level (constant): the two sweeps gate every bond once, in the class the documentation gives it,
\* and (open chains) every gate is applied in the orientation of its stored term
ChainOK ==
  \A L \in Ls, cyc \in BOOLEAN :
     /\ SweepsCoverBonds(L, cyc)
     /\ \A d \in {"R", "L"} : \A k \in 1..Len(SweepWheres(d, L, cyc)) :
           (~cyc) => GateOriented(SweepWheres(d, L, cyc)[k], FlipWrap)
WrapOriented ==        \* (mentions a variable so that TLC reports it as an ordinary invariant)
  st.t >= 0 =>
  \A L \in Ls : \A d \in {"R", "L"} : \A k \in 1..Len(SweepWheres(d, L, TRUE)) :
     GateOriented(SweepWheres(d, L, TRUE)[k], FlipWrap)
\* expanding layers into gates (as the sweeps visit the bonds) and grouping the gates again gives the layers
\* back, every group complete (constant level: checked on sample layer sequences for every chain)
SampleLayers ==
  { << Lay("R", <<1, 0>>), Lay("L", <<2, 0>>), Lay("R", <<1, 0>>), Lay("R", <<1, 0>>), Lay("L", <<2, 0>>), Lay("R", <<1, 0>>) >>,
    << Lay("R", <<0, 2>>), Lay("L", <<0, 4>>), Lay("R", <<2, -6>>), Lay("L", <<4, -16>>), Lay("L", <<0, 0>>), Lay("R", <<0, 0>>) >>,
    << Lay("L", <<4, 0>>), Lay("L", <<4, 0>>), Lay("R", <<4, 0>>), Lay("R", <<6, 0>>) >> }
GatesRoundTrip ==
  \A ls \in SampleLayers : \A L \in Ls, cyc \in BOOLEAN :
     LET gs == GroupGates(GatesOfLayers(ls, L, cyc)) IN
     (L > 2) =>
       /\ GroupsComplete(gs, L, cyc)
       /\ LayersOfGroups(gs) = ls

\* vacuity self-test: expected to be VIOLATED (all five branches of the queue logic are reachable)
NotAllBranches == br # {"merge", "swap", "queue", "drain", "plain"}

\* a complete behaviour is printed when it is long enough (simulation, Record = TRUE)
EmitJson == (Record /\ Len(hist) = SimLen) => PrintT(<<"QVJSON", ToJson(hist)>>)
=============================================================================
