------------------------------ MODULE C11_TEBD ------------------------------
(***************************************************************************)
(* C11 - state machine of one TEBD object driven through its public calls  *)
(* update_to, at_times, step(order, dt, queue) and sweep(direction, frac,  *)
(* dt, queue).  Each action runs the implementation-shaped transcription   *)
(* of C11_Impl; the invariants are the property-level statements of        *)
(* C11_Defs.  Because queue=True leaves a half sweep pending, the product  *)
(* formula is judged on *segments*: everything performed since the queue   *)
(* was last empty (`seg`) against the formulas of the step / sweep calls   *)
(* of the segment (`known`); a closing update_to / at_times contributes a  *)
(* product X of steps of its order, X = known^-1 * seg.                    *)
(* TLC checks "what the code does" implies "what must be true" for every   *)
(* history over the small constants (time only grows and the number of     *)
(* direct sweeps is bounded, so the state graph is finite).                *)
(***************************************************************************)
EXTENDS C11_Impl, TLC, Json

CONSTANTS Orders,        \* subset of {1, 2, 4}
          Dts,           \* time steps (grains)
          Targets,       \* target times (grains)
          TsTargets,     \* times that may appear in the argument of at_times
          MaxTs,         \* longest argument of at_times
          MaxSweeps,     \* number of direct sweep() calls in a history
          MaxQueued,     \* number of calls with queue=True in a history
          PublicQueue,   \* TRUE: queue=True may be passed to step / sweep
          DtChangeQueued,\* TRUE: update_to / at_times may change the step while a sweep is queued
          FixQ,          \* TRUE: a change of _dt keeps the duration of the queued sweep (since fix, see report)
          LeftRenormSite,\* site renormalised after a left sweep in imaginary time (0 since fix 7f3de1c3; 1 before)
          FlipWrap,      \* TRUE: the wrap-around gate is flipped before it is applied (since fix b5edf86a; FALSE before)
          Ls,            \* chain lengths for the derived chain-level invariants
          Record,        \* TRUE: keep the history `hist` (simulation for replay)
          SimLen         \* number of calls of a printed behaviour

VARIABLES st,     \* [t, sdt, dt0, queue]
          seg,    \* layers performed since the queue was last empty (including the last call)
          known,  \* formulas of the step / sweep calls of the segment (for a closing update_to: before it)
          cur,    \* layers performed by the last call alone
          last,   \* the last public call [op, order, t0, T, dt, q]
          br,     \* branches of the queue logic taken so far (ghost)
          tot,    \* <<sum of R coefficients, sum of L coefficients>> of every sweep performed (ghost)
          sw,     \* the same sums over what direct sweep() calls asked for (they do not advance t) (ghost)
          nsw,    \* number of direct sweep() calls so far
          nqd,    \* number of calls with queue=True so far
          hist

vars == <<st, seg, known, cur, last, br, tot, sw, nsw, nqd, hist>>

Blank(s) == [t |-> s.t, sdt |-> s.sdt, dt0 |-> s.dt0, queue |-> s.queue, layers |-> <<>>, br |-> {}]
Keep(r) == [t |-> r.t, sdt |-> r.sdt, dt0 |-> r.dt0, queue |-> r.queue]
Fresh == st.queue = <<>>          \* the queue is empty: a new segment starts with the next call

Commit(r, call, add) ==
  /\ st' = Keep(r)
  /\ cur' = r.layers
  /\ seg' = (IF Fresh THEN <<>> ELSE seg) \o r.layers
  /\ known' = (IF Fresh THEN <<>> ELSE known) \o add
  /\ last' = call
  /\ nqd' = IF call.q THEN nqd + 1 ELSE nqd
  /\ br' = br \cup r.br
  /\ tot' = <<CAdd(tot[1], SumClass(r.layers, "R")), CAdd(tot[2], SumClass(r.layers, "L"))>>
  /\ hist' = IF Record THEN Append(hist, [call |-> call, t |-> r.t, dt0 |-> r.dt0, nlayers |-> Len(r.layers)]) ELSE hist

Init ==
  /\ \E d0 \in Dts \cup {DtNone} : st = [t |-> 0, sdt |-> d0, dt0 |-> d0, queue |-> <<>>]
  /\ cur = <<>> /\ seg = <<>> /\ known = <<>>
  /\ last = [op |-> "init", order |-> 0, t0 |-> 0, T |-> 0, dt |-> 0, q |-> FALSE]
  /\ br = {}
  /\ tot = <<CZero, CZero>> /\ sw = <<CZero, CZero>> /\ nsw = 0 /\ nqd = 0
  /\ hist = <<>>

MaxT == CHOOSE m \in Targets : \A x \in Targets : x <= m
DtOK(dtc) == dtc # DtNone \/ st.dt0 # DtNone
NewDt(dtc) == IF dtc = DtNone THEN st.dt0 ELSE dtc
\* the step may only be changed with an empty queue unless the configuration explores that too
ChangeOK(dtc) == IF st.queue = <<>> \/ st.sdt = NewDt(dtc) THEN TRUE
                 ELSE DtChangeQueued /\ (FixQ \/ RescaleExact(Blank(st), dtc))

UpdateTo(T, dtc, order) ==
  /\ T >= st.t /\ DtOK(dtc) /\ ChangeOK(dtc)
  /\ \E r \in {IUpdateToQ(Blank(st), T, dtc, order, FixQ)} :
     /\ Commit(r, [op |-> "update_to", order |-> order, t0 |-> st.t, T |-> T, dt |-> r.sdt, q |-> FALSE,
                   args |-> [T |-> T, dt |-> dtc, order |-> order]], <<>>)
     /\ UNCHANGED <<sw, nsw>>

AtTimes(ts, dtc, order) ==
  /\ \A k \in 1..Len(ts) : ts[k] >= st.t
  /\ DtOK(dtc) /\ ChangeOK(dtc)
  /\ \E r \in {IAtTimesQ(Blank(st), ts, dtc, order, FixQ)} :
     /\ Commit(r, [op |-> "at_times", order |-> order, t0 |-> st.t, T |-> SortTs(ts)[Len(ts)], dt |-> r.sdt, q |-> FALSE,
                   args |-> [ts |-> ts, dt |-> dtc, order |-> order]], <<>>)
     /\ UNCHANGED <<sw, nsw>>

Step(order, dtc, q) ==
  /\ st.sdt # DtNone
  /\ q => (PublicQueue /\ nqd < MaxQueued)
  /\ \E r \in {IStep(Blank(st), order, dtc, q)}, dteff \in {IF dtc = DtNone THEN st.sdt ELSE dtc} :
     /\ r.t <= MaxT                    \* keep the graph finite: steps are not bounded by a target
     /\ Commit(r, [op |-> "step", order |-> order, t0 |-> st.t, T |-> st.t + dteff, dt |-> dteff, q |-> q,
                   args |-> [dt |-> dtc, order |-> order, q |-> q]], StepFormula(order, dteff))
     /\ UNCHANGED <<sw, nsw>>

Sweep(d, fp, dtc, q) ==
  /\ st.sdt # DtNone /\ nsw < MaxSweeps
  /\ q => (PublicQueue /\ nqd < MaxQueued)
  /\ \E r \in {IPubSweep(Blank(st), d, fp, dtc, q)}, c \in {CMulInt(<<fp, 0>>, IF dtc = DtNone THEN st.sdt ELSE dtc)} :
     /\ Commit(r, [op |-> "sweep", order |-> 0, t0 |-> st.t, T |-> st.t, dt |-> 0, q |-> q,
                   args |-> [d |-> d, fp |-> fp, dt |-> dtc, q |-> q]], <<Lay(d, c)>>)
     /\ sw' = IF d = "R" THEN <<CAdd(sw[1], c), sw[2]>> ELSE <<sw[1], CAdd(sw[2], c)>>
     /\ nsw' = nsw + 1

TsArgs == UNION {[1..n -> TsTargets] : n \in 1..MaxTs}

UpdateToA == \E T \in Targets, dtc \in Dts \cup {DtNone}, order \in Orders : UpdateTo(T, dtc, order)
AtTimesA  == \E ts \in TsArgs, dtc \in Dts \cup {DtNone}, order \in Orders : AtTimes(ts, dtc, order)
StepA     == \E order \in Orders, dtc \in Dts \cup {DtNone}, q \in BOOLEAN : Step(order, dtc, q)
SweepA    == \E d \in {"R", "L"}, fp \in {1, 2}, dtc \in Dts \cup {DtNone}, q \in BOOLEAN : Sweep(d, fp, dtc, q)

Next == UpdateToA \/ AtTimesA \/ StepA \/ SweepA
Spec == Init /\ [][Next]_vars

(* --------------------- property-level invariants ------------------------ *)
Called == last.op # "init"
Closing == Called /\ last.op \in {"update_to", "at_times"}
Direct == Called /\ last.op \in {"step", "sweep"}
\* what the closing update_to / at_times contributed to the segment
X == LeftDivide(known, seg)

\* t = T after update_to(T) / at_times(ts) (T = max ts) / step; a direct sweep leaves t alone
TimeExact == Called => st.t = last.T

\* every call without queue=True leaves nothing pending
QueueDrained == (Called /\ ~last.q) => st.queue = <<>>

\* direct calls: what was performed so far is the requested formulas, up to the one pending (queued) layer
\* closing calls: after the requested formulas, a product of steps of the requested order up to the target
ProductFormula ==
  /\ Direct => LET rest == LeftDivide(seg, known) IN
               IF last.q THEN Len(rest) <= 1 ELSE rest = <<>>
  /\ Closing => IsProductFormula(last.order, X, last.t0, last.T)
ClassSumsOK   == Closing => ClassSums(X, last.t0, last.T)
StepsWithinDt == Closing => StepsWithin(last.order, X, last.dt)
Symmetric     == Closing => SymmetricProduct(last.order, X)

\* over the whole history: performed + queued = elapsed time + what direct sweeps asked for, per class
TotalSums ==
  LET qd(d) == IF st.queue # <<>> /\ st.queue[1] = d THEN st.queue[2] ELSE CZero IN
  /\ CAdd(tot[1], qd("R")) = CAdd(CRat(st.t), sw[1])
  /\ CAdd(tot[2], qd("L")) = CAdd(CRat(st.t), sw[2])

\* imaginary time: after a call that performed sweeps the state has norm one (every sweep renormalises the centre)
ImagNormalised == Called => \A L \in Ls : NormalisedAfter(cur, L, LeftRenormSite)

\* chain level (constant): the two sweeps gate every bond once, in the class the documentation gives it,
\* and (open chains) every gate is applied in the orientation of its stored term
ChainOK ==
  \A L \in Ls, cyc \in BOOLEAN :
     /\ SweepsCoverBonds(L, cyc)
     /\ \A d \in {"R", "L"} : \A k \in 1..Len(SweepWheres(d, L, cyc)) :
           (~cyc) => GateOriented(SweepWheres(d, L, cyc)[k], FlipWrap)
WrapOriented ==        \* (mentions a variable so that TLC reports it as an ordinary invariant)
  st.t >= 0 =>
  \A L \in Ls : \A d \in {"R", "L"} : \A k \in 1..Len(SweepWheres(d, L, TRUE)) :
     GateOriented(SweepWheres(d, L, TRUE)[k], FlipWrap)
\* expanding layers into gates (as the sweeps visit the bonds) and grouping the gates again gives the layers
\* back, every group complete (constant level: checked on sample layer sequences for every chain)
SampleLayers ==
  { << Lay("R", <<1, 0>>), Lay("L", <<2, 0>>), Lay("R", <<1, 0>>), Lay("R", <<1, 0>>), Lay("L", <<2, 0>>), Lay("R", <<1, 0>>) >>,
    << Lay("R", <<0, 2>>), Lay("L", <<0, 4>>), Lay("R", <<2, -6>>), Lay("L", <<4, -16>>), Lay("L", <<0, 0>>), Lay("R", <<0, 0>>) >>,
    << Lay("L", <<4, 0>>), Lay("L", <<4, 0>>), Lay("R", <<4, 0>>), Lay("R", <<6, 0>>) >> }
GatesRoundTrip ==
  \A ls \in SampleLayers : \A L \in Ls, cyc \in BOOLEAN :
     LET gs == GroupGates(GatesOfLayers(ls, L, cyc)) IN
     (L > 2) =>
       /\ GroupsComplete(gs, L, cyc)
       /\ LayersOfGroups(gs) = ls

\* vacuity self-test: expected to be VIOLATED (all five branches of the queue logic are reachable)
NotAllBranches == br # {"merge", "swap", "queue", "drain", "plain"}

\* a complete behaviour is printed when it is long enough (simulation, Record = TRUE)
EmitJson == (Record /\ Len(hist) = SimLen) => PrintT(<<"QVJSON", ToJson(hist)>>)
=============================================================================
