----------------------------- MODULE C11_Trace -----------------------------
(***************************************************************************)
(* Trace spec for C11.  The driver records, for real quimb objects:        *)
(*  init  a TEBD object was built (chain, imaginary?, default step)        *)
(*  call  one public call (update_to / at_times / step) together with      *)
(*        every gate the call applied: where = (i, j) as passed to         *)
(*        MatrixProductState.gate_split_, the exponent handed to           *)
(*        LocalHam1D.get_gate_expm snapped to a coefficient <<p, q>>       *)
(*        ((p + q s)/2 grains), and quantised numpy relations (the gate    *)
(*        is the exponential of the current term in the orientation of     *)
(*        `where`; the final state is the product of those exponentials    *)
(*        applied to the initial state; norms)                             *)
(*  ham   a LocalHam1D / LocalHamGen / LocalHam2D built from small integer *)
(*        matrices: supplied operators and resulting `terms`, exact        *)
(*  hamq  the same for random float matrices (quantised relation)          *)
(*  expm  get_gate_expm against scipy's expm of the *current* term, also   *)
(*        after apply_to_arrays                                            *)
(*  conv  error against exact evolution at dt, dt/2, dt/4                  *)
(*  trot  LocalHamGen.get_trotter_gates on an arbitrary graph              *)
(*  tgen  TEBDGen.evolve against the product of exponentials               *)
(* State carried along a trace: the abstract TEBD object (time, step) of   *)
(* the trace id, advanced by the *specification* (target times), not by    *)
(* what quimb reported.                                                    *)
(***************************************************************************)
EXTENDS C11_Impl, TraceIO

VARIABLES l, fails, ob
tvars == <<l, fails, ob>>

NoOb == [tid |-> -1]

(* ------------------------------- call ----------------------------------- *)
GateOK(g, L, cyc) == g.ok /\ BondOfSites(g.i, g.j, L, cyc) # -1
GatesOf(ln, L, cyc) ==
  [k \in 1..Len(ln.gates) |-> [b |-> BondOfSites(ln.gates[k].i, ln.gates[k].j, L, cyc),
                               c |-> <<ln.gates[k].p, ln.gates[k].q>>]]

\* the target time the specification assigns to the call (a direct sweep does not advance time)
TargetOf(ln, o) ==
  CASE ln.op = "update_to" -> ln.T
    [] ln.op = "at_times"  -> SortTs(ln.ts)[Len(ln.ts)]
    [] ln.op = "step"      -> o.t + (IF ln.dt = DtNone THEN o.sdt ELSE ln.dt)
    [] ln.op = "sweep"     -> o.t

IsDirect(ln) == ln.op \in {"step", "sweep"}

\* the step in force during the call (tolerance route: whatever quimb chose, observed)
StepOf(ln, o) ==
  IF IsDirect(ln) THEN (IF ln.dt = DtNone THEN o.sdt ELSE ln.dt)
  ELSE IF ln.tolmode THEN ln.dtused
  ELSE IF ln.dt = DtNone THEN o.dt0 ELSE ln.dt

Backwards(ln, o) == ln.op = "update_to" /\ ln.T < o.t

\* the formula a direct call asks for
AskedOf(ln, o) ==
  IF ln.op = "step" THEN StepFormula(ln.order, StepOf(ln, o))
  ELSE << Lay(ln.d, CMulInt(<<ln.fp, 0>>, StepOf(ln, o))) >>

ModelAfter(ln, o) ==
  LET b == [t |-> o.t, sdt |-> o.sdt, dt0 |-> o.dt0, queue |-> o.mq, layers |-> <<>>, br |-> {}]
      dtc == IF ~IsDirect(ln) /\ ln.tolmode THEN ln.dtused ELSE ln.dt
  IN  CASE ln.op = "update_to" -> IUpdateTo(b, ln.T, dtc, ln.order)
        [] ln.op = "at_times"  -> IAtTimes(b, ln.ts, dtc, ln.order)
        [] ln.op = "step"      -> IStep(b, ln.order, ln.dt, ln.q)
        [] ln.op = "sweep"     -> IPubSweep(b, ln.d, ln.fp, ln.dt, ln.q)

\* layers the call performed, read back from its gates (<<>> if a gate is off the grid)
LayersOf(ln, o) ==
  IF \A k \in 1..Len(ln.gates) : GateOK(ln.gates[k], o.L, o.cyc)
  THEN LayersOfGroups(GroupGates(GatesOf(ln, o.L, o.cyc))) ELSE <<>>

\* segments: everything performed / asked for since the queue was last empty (C11_TEBD)
SegOf(ln, o)   == (IF o.pending THEN o.seg ELSE <<>>) \o LayersOf(ln, o)
BaseKnown(o)   == IF o.pending THEN o.known ELSE <<>>
KnownOf(ln, o) == BaseKnown(o) \o (IF IsDirect(ln) THEN AskedOf(ln, o) ELSE <<>>)

CallClauses(ln, o) ==
  LET L == o.L
      cyc == o.cyc
      back == Backwards(ln, o)
      allok == \A k \in 1..Len(ln.gates) : GateOK(ln.gates[k], L, cyc)
      gs == IF allok THEN GatesOf(ln, L, cyc) ELSE <<>>
      groups == GroupGates(gs)
      T == TargetOf(ln, o)
      seg == SegOf(ln, o)
      known == KnownOf(ln, o)
      X == LeftDivide(BaseKnown(o), seg)            \* what a closing update_to / at_times contributed
      rest == LeftDivide(seg, known)                \* what a direct call still owes
      run == ln.exc = "" /\ ~back /\ allok /\ ln.tgrid /\ ln.dtgrid
      direct == IsDirect(ln)
  IN
  << <<"Returns", ~back => ln.exc = "">>,
     \* going backwards is documented as not implemented: it must be refused without touching the state
     <<"BackwardsRejectedCleanly", back => (ln.exc # "" /\ Len(ln.gates) = 0 /\ ln.tgrid /\ ln.t = o.t)>>,
     <<"GatesOnGrid", (ln.exc = "" /\ ~back) => (allok /\ ln.dtgrid)>>,
     <<"LayersComplete", run => GroupsComplete(groups, L, cyc)>>,
     \* (a chain of two sites has no odd bond: the left sweeps are empty and only the even class can be read back)
     <<"ProductFormula", run =>
          IF L = 2
          THEN (ln.q \/ SumClass(seg, "R") = CAdd(SumClass(known, "R"), IF direct THEN CZero ELSE CRat(T - o.t)))
          ELSE IF direct THEN (IF ln.q THEN Len(rest) <= 1 ELSE rest = <<>>)
          ELSE IsProductFormula(ln.order, X, o.t, T)>>,
     <<"ClassSums", (run /\ ~direct /\ L > 2) => ClassSums(X, o.t, T)>>,
     <<"StepsWithinDt", (run /\ ~direct /\ L > 2) => StepsWithin(ln.order, X, StepOf(ln, o))>>,
     <<"Symmetric", (run /\ ~direct /\ L > 2) => SymmetricProduct(ln.order, X)>>,
     <<"TimeExact", (ln.exc = "" /\ ~back) => (ln.tgrid /\ ln.t = T)>>,
     <<"QueueDrained", (ln.exc = "" /\ ~back /\ ~ln.q) => ~ln.queued>>,
     <<"NOTE:TolStepFormula", (ln.exc = "" /\ ~back /\ ~direct /\ ln.tolmode) => (ln.dtgrid /\ ln.dtused = ln.dtwant)>>,
     <<"AtTimesYields", (ln.exc = "" /\ ln.op = "at_times") => ln.yields = SortTs(ln.ts)>>,
     <<"GateIsExpmOfTerm", \A k \in 1..Len(ln.gates) : ln.gates[k].dg = 0>>,
     <<"DenseEqualsProduct", (ln.exc = "" /\ ln.dense) => ln.dq = 0>>,
     <<"NormPreserved", (ln.exc = "" /\ ln.dense /\ ~o.imag) => ln.nq = 0>>,
     <<"ImagNormalised", (ln.exc = "" /\ ln.dense /\ o.imag) => ln.nq = 0>>,
     \* the recorded gate sequence is the one the implementation-shaped model predicts
     <<"NOTE:ModelDrift", (run /\ L > 2 /\ StepOf(ln, o) > 0) => gs = GatesOfLayers(ModelAfter(ln, o).layers, L, cyc)>> >>

CallNext(ln, o) ==
  IF ln.exc # "" \/ Backwards(ln, o) THEN o
  ELSE [o EXCEPT !.t = TargetOf(ln, o),
                 !.sdt = IF IsDirect(ln) THEN @ ELSE StepOf(ln, o),
                 !.pending = ln.q,
                 !.seg = IF ln.q THEN SegOf(ln, o) ELSE <<>>,
                 !.known = IF ln.q THEN KnownOf(ln, o) ELSE <<>>,
                 \* (the model is only run on sane observations: a step of zero or off the grid would not terminate)
                 !.mq = IF ln.dtgrid /\ ln.tgrid /\ StepOf(ln, o) > 0 THEN ModelAfter(ln, o).queue ELSE <<>>]

(* ------------------------------- others --------------------------------- *)
OpsOf(s) == [k \in 1..Len(s) |-> [sites |-> s[k].sites, m |-> [e \in 1..Len(s[k].m) |-> <<s[k].m[e][1], s[k].m[e][2]>>]]]

HamClauses(ln) ==
  << <<"Returns", ln.exc = "">>,
     \* (an uneven but sum-preserving sharing of the one-site parts would leave the integer grid: a note, and
     \*  the quantised numpy relation below still judges the sum)
     <<"NOTE:TermsOnGrid", ln.exc = "" => ln.ongrid>>,
     <<"HamSum", ln.exc = "" => ln.dqsum = 0>>,
     \* the terms represent exactly the sum of the supplied one- and two-site operators
     <<"HamSumExact", (ln.exc = "" /\ ln.ongrid) => SameOperator(OpsOf(ln.terms), OpsOf(ln.supplied), ln.n)>>,
     \* one term per pair, stored with the smaller site first
     <<"TermKeysSorted", ln.exc = "" => \A k \in 1..Len(ln.terms) : ln.terms[k].sites[1] < ln.terms[k].sites[2]>> >>

ConvClauses(ln) ==
  LET p == IF ln.symmetric_splitting THEN ln.order ELSE 1
      need == 70 * (IF p = 1 THEN 2 ELSE IF p = 2 THEN 4 ELSE 16)
  IN << <<"Returns", ln.exc = "">>,
        <<"ConvergenceMeasurable", ln.exc = "" => ln.above_floor>>,
        <<"ConvergenceOrder", (ln.exc = "" /\ ln.above_floor) => (ln.r1 >= need /\ ln.r2 >= need)>> >>

\* arbitrary geometry: ln.pairs = the pairs of `terms`; ln.gates = <<layer, index of the pair, p, q>>, the
\* fraction of the exponent being (p + q s)/2
TrotClauses(ln) ==
  LET G == ln.gates
      n == Len(G)
      lay(k) == G[k][1]
      pr(k) == ln.pairs[G[k][2] + 1]
      cf(k) == <<G[k][3], G[k][4]>>
      RECURSIVE Tot(_, _)
      Tot(w, k) == IF k > n THEN CZero ELSE CAdd(IF G[k][2] = w THEN cf(k) ELSE CZero, Tot(w, k + 1))
      Layers == {lay(k) : k \in 1..n}
      LayerOf(x) == [ws |-> {G[k][2] : k \in {j \in 1..n : lay(j) = x}},
                     cs |-> {cf(k) : k \in {j \in 1..n : lay(j) = x}}]
      nl == Cardinality(Layers)
  IN
  << <<"Returns", ln.exc = "">>,
     <<"GatesOnGrid", ln.exc = "" => ln.ongrid>>,
     \* every term is exponentiated for a total fraction of one per step
     <<"TermFractions", (ln.exc = "" /\ ln.ongrid) =>
          \A w \in 0..(Len(ln.pairs) - 1) : Tot(w, 1) = <<2 * ln.steps, 0>>>>,
     \* the gates of one layer act on disjoint sites (they commute) and share one fraction
     <<"LayersCommute", ln.exc = "" =>
          \A j, k \in 1..n : (j # k /\ lay(j) = lay(k)) =>
               {pr(j)[1], pr(j)[2]} \cap {pr(k)[1], pr(k)[2]} = {}>>,
     <<"LayerUniform", (ln.exc = "" /\ ln.ongrid) => \A x \in Layers : Cardinality(LayerOf(x).cs) = 1>>,
     \* even orders: the sequence of layers (set of pairs, fraction) reads the same backwards
     <<"Symmetric", (ln.exc = "" /\ ln.ongrid /\ ln.order \in {2, 4} /\ Layers = 0..(nl - 1)) =>
          \A x \in Layers : LayerOf(x) = LayerOf(nl - 1 - x)>>,
     <<"GateIsExpmOfTerm", ln.exc = "" => ln.dg = 0>> >>

\* simple update / TEBDGen sweeps: ln.gates = <<layer, index of the pair, site a, site b>> in the order applied,
\* `layer` counting the postlayer() calls before the gate
SuClauses(ln) ==
  LET G == ln.gates
      n == Len(G)
  IN
  << <<"Returns", ln.exc = "">>,
     \* every sweep exponentiates every term once
     <<"SweepAppliesEveryTerm", ln.exc = "" =>
          \A w \in 0..(ln.npairs - 1) : Cardinality({k \in 1..n : G[k][2] = w}) = ln.nsweeps>>,
     \* parallel update applies the gates of a layer to the same pre-layer state: they must not share a site
     <<"ParallelLayerDisjoint", (ln.exc = "" /\ ln.update = "parallel") =>
          \A j, k \in 1..n : (j # k /\ G[j][1] = G[k][1]) => {G[j][3], G[j][4]} \cap {G[k][3], G[k][4]} = {}>>,
     <<"GateIsExpmOfTerm", ln.exc = "" => ln.dg = 0>>,
     \* untruncated, the state is (up to normalisation) the product of the applied gates on the initial state
     <<"DenseEqualsProduct", ln.exc = "" => ln.dq = 0>> >>

Clauses(ln, o) ==
  CASE ln.ev = "init" -> << <<"Returns", ln.exc = "">> >>
    [] ln.ev = "call" -> IF o.tid = ln.tid THEN CallClauses(ln, o) ELSE << <<"TraceWellFormed", FALSE>> >>
    [] ln.ev = "ham"  -> HamClauses(ln)
    [] ln.ev = "hamq" -> << <<"Returns", ln.exc = "">>, <<"HamSum", ln.exc = "" => ln.dq = 0>> >>
    [] ln.ev = "expm" -> << <<"Returns", ln.exc = "">>,
                            <<"ExpmOfCurrentTerm", ln.exc = "" => \A k \in 1..Len(ln.dqs) : ln.dqs[k] = 0>> >>
    [] ln.ev = "conv" -> ConvClauses(ln)
    [] ln.ev = "trot" -> TrotClauses(ln)
    [] ln.ev = "su"   -> SuClauses(ln)
    [] ln.ev = "tgen" -> << <<"Returns", ln.exc = "">>, <<"DenseEqualsProduct", ln.exc = "" => ln.dq = 0>> >>
    [] OTHER -> << <<"UnknownEvent", FALSE>> >>

ObNext(ln, o) ==
  CASE ln.ev = "init" -> [tid |-> ln.tid, L |-> ln.L, cyc |-> ln.cyc, imag |-> ln.imag,
                          t |-> ln.t0, sdt |-> ln.dt0, dt0 |-> ln.dt0,
                          pending |-> FALSE, seg |-> <<>>, known |-> <<>>, mq |-> <<>>]
    [] ln.ev = "call" -> IF o.tid = ln.tid THEN CallNext(ln, o) ELSE o
    [] OTHER -> o

TInit == l = 1 /\ fails = <<>> /\ ob = NoOb
TNext == /\ l <= NLines
         /\ LET ln == TraceLog[l] IN
            /\ fails' = AddFails(fails, l, Clauses(ln, ob))
            /\ ob' = ObNext(ln, ob)
         /\ l' = l + 1
TSpec == TInit /\ [][TNext]_tvars
Done == l = NLines + 1 => WriteVerdict(l - 1, fails)
=============================================================================
