SPECIFICATION Spec
CONSTANTS
  Orders <- OrdersAll
  Dts <- DtsP
  Targets <- TargQ
  TsTargets <- TargV
  MaxTs = 1
  MaxSweeps = 0
  MaxQueued = 3
  PublicQueue = TRUE
  DtChangeQueued = TRUE
  FixQ = TRUE
  LeftRenormSite = 0
  FlipWrap = TRUE
  Ls <- LsAll
  Record = FALSE
  SimLen = 4
INVARIANT TimeExact
INVARIANT QueueDrained
INVARIANT ProductFormula
INVARIANT ClassSumsOK
INVARIANT StepsWithinDt
INVARIANT Symmetric
INVARIANT ImagNormalised
INVARIANT WrapOriented
INVARIANT TotalSums
CHECK_DEADLOCK FALSE
