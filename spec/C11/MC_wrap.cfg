SPECIFICATION Spec
CONSTANTS
  Orders <- OrdersAll
  Dts <- DtsQ
  Targets <- TargQ
  TsTargets <- TargQ
  MaxTs = 1
  PublicQueue = FALSE
  LeftRenormSite = 0
  FlipWrap = FALSE
  Ls <- LsAll
  Record = FALSE
  SimLen = 3
INVARIANT WrapOriented
CHECK_DEADLOCK FALSE
