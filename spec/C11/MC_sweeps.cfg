SPECIFICATION Spec
CONSTANTS
  Orders <- OrdersAll
  Dts <- DtsQ
  Targets <- TargW
  TsTargets <- TargX
  MaxTs = 1
  MaxSweeps = 1
  MaxQueued = 2
  PublicQueue = TRUE
  DtChangeQueued = FALSE
  FixQ = FALSE
  LeftRenormSite = 0
  FlipWrap = TRUE
  Ls <- LsAll
  Record = FALSE
  SimLen = 4
INVARIANT TimeExact
INVARIANT QueueDrained
INVARIANT ProductFormula
INVARIANT ClassSumsOK
INVARIANT StepsWithinDt
INVARIANT Symmetric
INVARIANT ImagNormalised
INVARIANT WrapOriented
INVARIANT TotalSums
CHECK_DEADLOCK FALSE
