SPECIFICATION Spec
CONSTANTS
  Orders <- OrdersAll
  Dts <- DtsP
  Targets <- TargQ
  TsTargets <- TargV
  MaxTs = 1
  MaxSweeps = 0
  MaxQueued = 3
  PublicQueue = TRUE
  DtChangeQueued = TRUE
  FixQ = FALSE
  LeftRenormSite = 0
  FlipWrap = TRUE
  Ls <- LsAll
  Record = FALSE
  SimLen = 4
INVARIANT ProductFormula
CHECK_DEADLOCK FALSE
