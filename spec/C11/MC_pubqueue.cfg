SPECIFICATION Spec
CONSTANTS
  Orders <- OrdersAll
  Dts <- DtsP
  Targets <- TargQ
  TsTargets <- TargQ
  MaxTs = 1
  PublicQueue = TRUE
  LeftRenormSite = 0
  FlipWrap = TRUE
  Ls <- LsAll
  Record = FALSE
  SimLen = 3
INVARIANT TimeExact
INVARIANT TotalSums
CHECK_DEADLOCK FALSE
