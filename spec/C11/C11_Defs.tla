------------------------------ MODULE C11_Defs ------------------------------
(***************************************************************************)
(* C11 - reference definitions, written from the property statement and    *)
(* the documentation (docstrings of TEBD, trotter_schedule, LocalHamGen),  *)
(* not from the code.                                                      *)
(*                                                                         *)
(* Exact domain.  Times are integers in units of a grain (the driver uses  *)
(* 1/64).  A coefficient of a layer of gates is an element of Q(s),        *)
(* s = 1/(4 - 4^(1/3)) (irrational), written as a pair of integers         *)
(* <<p, q>> meaning (p + q*s) * grain / 2.  All schedule coefficients of   *)
(* orders 1, 2, 4 for steps that are whole grains are such pairs, sums of  *)
(* them (merged sweeps) too, and because s is irrational two pairs denote  *)
(* the same number iff they are equal.                                     *)
(*                                                                         *)
(* A layer is [d |-> "R" | "L", c |-> coefficient]: exp(-i c A_d) (real    *)
(* time) or exp(-c A_d) (imaginary time), A_R = sum of the terms on even   *)
(* bonds, A_L = sum of the terms on odd bonds ("Right is even bonds, left  *)
(* is odd", TEBD.sweep); the wrap-around bond (L-1, 0) of a periodic chain *)
(* is bond number L-1.                                                     *)
(***************************************************************************)
EXTENDS Integers, Sequences, FiniteSets

(* ----------------------------- coefficients ----------------------------- *)
CZero == <<0, 0>>
CAdd(a, b) == <<a[1] + b[1], a[2] + b[2]>>
CMulInt(a, k) == <<a[1] * k, a[2] * k>>
CEven(a) == a[1] % 2 = 0 /\ a[2] % 2 = 0
CHalf(a) == <<a[1] \div 2, a[2] \div 2>>
CRat(h) == <<2 * h, 0>>                 \* h grains as a coefficient
IsRat(a) == a[2] = 0

Lay(d, c) == [d |-> d, c |-> c]
Other(d) == IF d = "R" THEN "L" ELSE "R"

(* ------------- the documented product formulas (one step) --------------- *)
\* order 2, step g (a coefficient with even entries): half step of the even bonds,
\* full step of the odd bonds, half step of the even bonds  (palindromic)
S2(g) == << Lay("R", CHalf(g)), Lay("L", g), Lay("R", CHalf(g)) >>

\* order 1: each class once.  order 4: S4(x) = S2(sx)^2 S2((1-4s)x) S2(sx)^2
StepFormula(order, h) ==
  CASE order = 1 -> << Lay("R", CRat(h)), Lay("L", CRat(h)) >>
    [] order = 2 -> S2(CRat(h))
    [] order = 4 -> S2(<<0, 2*h>>) \o S2(<<0, 2*h>>) \o S2(<<2*h, -8*h>>) \o S2(<<0, 2*h>>) \o S2(<<0, 2*h>>)

RECURSIVE FormulaOfSteps(_, _)
FormulaOfSteps(order, hs) ==
  IF hs = <<>> THEN <<>> ELSE StepFormula(order, Head(hs)) \o FormulaOfSteps(order, Tail(hs))

Reverse(s) == [k \in 1..Len(s) |-> s[Len(s) + 1 - k]]
Palindrome(s) == s = Reverse(s)

(* --------- equality of products: consecutive layers of one class -------- *)
(* commute (same generator), a zero coefficient is the identity.           *)
RECURSIVE NormAcc(_, _)
NormAcc(acc, rest) ==
  IF rest = <<>> THEN acc
  ELSE LET x == Head(rest) IN
       IF x.c = CZero THEN NormAcc(acc, Tail(rest))
       ELSE IF acc # <<>> /\ acc[Len(acc)].d = x.d
            THEN LET sum == CAdd(acc[Len(acc)].c, x.c) IN
                 IF sum = CZero THEN NormAcc(SubSeq(acc, 1, Len(acc) - 1), Tail(rest))
                 ELSE NormAcc([acc EXCEPT ![Len(acc)] = Lay(x.d, sum)], Tail(rest))
            ELSE NormAcc(Append(acc, x), Tail(rest))
Normalise(ls) == NormAcc(<<>>, ls)

\* layer sequences modulo Normalise form a group under concatenation: the inverse undoes the layers last to first
CNeg(a) == <<-a[1], -a[2]>>
Inverse(ls) == [k \in 1..Len(ls) |-> Lay(ls[Len(ls) + 1 - k].d, CNeg(ls[Len(ls) + 1 - k].c))]
\* the (normalised) X with  known \o X = whole  as products
LeftDivide(known, whole) == Normalise(Inverse(known) \o whole)

RECURSIVE SumClass(_, _)
SumClass(ls, d) ==
  IF ls = <<>> THEN CZero
  ELSE CAdd(IF Head(ls).d = d THEN Head(ls).c ELSE CZero, SumClass(Tail(ls), d))

(* ------ reading the steps back out of a normalised layer sequence ------- *)
(* N is a product of steps of the requested order iff the parse succeeds;  *)
(* the parse is deterministic, so the steps (if any) are unique.           *)
Alternates(N, first) == \A k \in 1..Len(N) : N[k].d = (IF k % 2 = 1 THEN first ELSE Other(first))

\* order 1: R(h1) L(h1) R(h2) L(h2) ...
Parse1(N) ==
  LET ok == /\ Len(N) % 2 = 0 /\ Alternates(N, "R")
            /\ \A k \in 1..(Len(N) \div 2) : N[2*k - 1].c = N[2*k].c
  IN  [ok |-> ok, g |-> IF ok THEN [k \in 1..(Len(N) \div 2) |-> N[2*k].c] ELSE <<>>]

\* a product of S2 sub-steps g_1..g_m:  R(g1/2) L(g1) R(g1/2+g2/2) L(g2) ... L(gm) R(gm/2)
ParseS2(N) ==
  LET m == (Len(N) - 1) \div 2
      g == [k \in 1..m |-> N[2*k].c]
      ok == /\ Len(N) = 0 \/ (Len(N) % 2 = 1 /\ Len(N) >= 3)
            /\ Alternates(N, "R")
            /\ Len(N) > 0 =>
                 /\ CMulInt(N[1].c, 2) = g[1]
                 /\ CMulInt(N[Len(N)].c, 2) = g[m]
                 /\ \A k \in 1..(m - 1) : CMulInt(N[2*k + 1].c, 2) = CAdd(g[k], g[k + 1])
  IN  [ok |-> ok, g |-> IF ok /\ Len(N) > 0 THEN g ELSE <<>>]

\* order 4: the S2 sub-steps come in fives (s x, s x, (1-4s) x, s x, s x), x a positive rational
Parse4(N) ==
  LET p2 == ParseS2(N)
      g  == p2.g
      n  == Len(g) \div 5
      x(k) == g[5*k - 4][2]                    \* g = <<0, x>> : s*x/2 grains, i.e. a step of x/2 grains
      ok == /\ p2.ok /\ Len(g) % 5 = 0
            /\ \A k \in 1..n :
                 /\ \A j \in {5*k - 4, 5*k - 3, 5*k - 1, 5*k} : g[j] = <<0, x(k)>>
                 /\ g[5*k - 2] = <<x(k), -4 * x(k)>>
  IN  [ok |-> ok, g |-> IF ok THEN [k \in 1..n |-> <<x(k), 0>>] ELSE <<>>]

\* the steps of a product of `order` formulas, as coefficients <<2h, 0>> (h grains, possibly half integral)
ParseSteps(order, N) ==
  CASE order = 1 -> Parse1(N)
    [] order = 2 -> ParseS2(N)
    [] order = 4 -> Parse4(N)
    [] OTHER -> [ok |-> FALSE, g |-> <<>>]

RECURSIVE SumSeq(_)
SumSeq(g) == IF g = <<>> THEN CZero ELSE CAdd(Head(g), SumSeq(Tail(g)))

\* "without truncation, applies precisely the symmetric product formula of the requested order":
\* the layers applied while going from time t0 to time T are a product of steps of that order,
\* every step positive and rational, the steps add up to T - t0
IsProductFormula(order, ls, t0, T) ==
  LET p == ParseSteps(order, Normalise(ls)) IN
  /\ p.ok
  /\ \A k \in 1..Len(p.g) : IsRat(p.g[k]) /\ p.g[k][1] > 0
  /\ SumSeq(p.g) = CRat(T - t0)

\* no step is longer than the requested time step
StepsWithin(order, ls, dt) ==
  LET p == ParseSteps(order, Normalise(ls)) IN
  p.ok => \A k \in 1..Len(p.g) : p.g[k][1] <= 2 * dt

\* per class the exponents add up to the elapsed time
ClassSums(ls, t0, T) == SumClass(ls, "R") = CRat(T - t0) /\ SumClass(ls, "L") = CRat(T - t0)

\* even orders are symmetric: when all steps are equal the whole product reads the same backwards
SymmetricProduct(order, ls) ==
  LET p == ParseSteps(order, Normalise(ls)) IN
  (order \in {2, 4} /\ p.ok /\ \A j, k \in 1..Len(p.g) : p.g[j] = p.g[k]) => Palindrome(Normalise(ls))

(* -------------------- chains, bonds and their classes ------------------- *)
\* bond number b joins sites b and (b+1) mod L; a periodic chain has the extra bond L-1
NBonds(L, cyc) == IF cyc /\ L > 2 THEN L ELSE L - 1
BondsOf(L, cyc) == 0..(NBonds(L, cyc) - 1)
ClassOfBond(b) == IF b % 2 = 0 THEN "R" ELSE "L"
ClassBonds(L, cyc, d) == {b \in BondsOf(L, cyc) : ClassOfBond(b) = d}
\* the bond a gate on sites (i, j) (in either order) acts on; -1 if the sites are not neighbours
BondOfSites(i, j, L, cyc) ==
  IF j = i + 1 THEN i ELSE IF i = j + 1 THEN j
  ELSE IF cyc /\ L > 2 /\ ((i = L - 1 /\ j = 0) \/ (i = 0 /\ j = L - 1)) THEN L - 1 ELSE -1
\* the colouring is a symmetric splitting (each class commutes internally) unless the chain is periodic of odd length
ClassesCommute(L, cyc) == ~(cyc /\ L > 2 /\ L % 2 = 1)

(* -------- grouping an observed gate sequence into layers of gates ------- *)
(* gate = [b |-> bond number, c |-> coefficient]; a layer is a maximal run *)
(* of gates of one class with one coefficient in which no bond repeats.    *)
RECURSIVE GroupAcc(_, _, _)
GroupAcc(done, cur, rest) ==     \* done: finished groups; cur: current group (seq of gates)
  IF rest = <<>> THEN (IF cur = <<>> THEN done ELSE Append(done, cur))
  ELSE LET x == Head(rest) IN
       IF cur # <<>> /\ ClassOfBond(x.b) = ClassOfBond(cur[1].b) /\ x.c = cur[1].c
          /\ \A k \in 1..Len(cur) : cur[k].b # x.b
       THEN GroupAcc(done, Append(cur, x), Tail(rest))
       ELSE GroupAcc(IF cur = <<>> THEN done ELSE Append(done, cur), <<x>>, Tail(rest))
GroupGates(gs) == GroupAcc(<<>>, <<>>, gs)

\* every group applies each bond of its class exactly once (nothing dropped, nothing doubled)
GroupsComplete(groups, L, cyc) ==
  \A k \in 1..Len(groups) :
     LET grp == groups[k] IN
     /\ {grp[j].b : j \in 1..Len(grp)} = ClassBonds(L, cyc, ClassOfBond(grp[1].b))
     /\ Len(grp) = Cardinality(ClassBonds(L, cyc, ClassOfBond(grp[1].b)))
LayersOfGroups(groups) == [k \in 1..Len(groups) |-> Lay(ClassOfBond(groups[k][1].b), groups[k][1].c)]

(* ----------- Hamiltonian = sum of embedded terms (exact part) ----------- *)
(* Gaussian integers <<re, im>>; a k-site operator on sites of dimension 2 *)
(* is a flat row-major sequence of 4^k entries, first site most significant*)
GAdd(a, b) == <<a[1] + b[1], a[2] + b[2]>>
Pow2(n) == IF n = 0 THEN 1 ELSE IF n = 1 THEN 2 ELSE IF n = 2 THEN 4 ELSE IF n = 3 THEN 8 ELSE IF n = 4 THEN 16 ELSE 32
Bit(x, site, L) == (x \div Pow2(L - 1 - site)) % 2
\* entry (r, c) of the operator `m` acting on `sites` (sequence, first factor on sites[1]) of an L site chain
EmbedEntry(m, sites, L, r, c) ==
  LET k == Len(sites)
      S == {sites[j] : j \in 1..k}
      RECURSIVE Idx(_, _)
      Idx(x, j) == IF j > k THEN 0 ELSE Bit(x, sites[j], L) * Pow2(k - j) + Idx(x, j + 1)
  IN  IF \A q \in (0..(L - 1)) \ S : Bit(r, q, L) = Bit(c, q, L)
      THEN m[Idx(r, 1) * Pow2(k) + Idx(c, 1) + 1]
      ELSE <<0, 0>>
\* entry (r, c) of the sum of a sequence of [sites, m] records
RECURSIVE SumEntry(_, _, _, _)
SumEntry(ops, L, r, c) ==
  IF ops = <<>> THEN <<0, 0>>
  ELSE GAdd(EmbedEntry(Head(ops).m, Head(ops).sites, L, r, c), SumEntry(Tail(ops), L, r, c))
SameOperator(opsA, opsB, L) ==
  \A r \in 0..(Pow2(L) - 1), c \in 0..(Pow2(L) - 1) : SumEntry(opsA, L, r, c) = SumEntry(opsB, L, r, c)
=============================================================================
