----------------------------- MODULE C10_Trace -----------------------------
(***************************************************************************)
(* Trace spec for C10.  One trace (tid) = one DMRG run recorded from the   *)
(* real class:                                                             *)
(*   run          configuration, Hamiltonian (exact domain: the integer    *)
(*                tables f, g of a classical energy function), reference   *)
(*                ground energy from numpy, convention probes              *)
(*   solve_start  one DMRG.solve() call begins: its sweep sequence, bond /  *)
(*                cut-off schedules, max_sweeps, tol (several calls may     *)
(*                follow each other on ONE object: restart histories)       *)
(*   solve_end    what the call returned, how many sweeps it made           *)
(*   sweep_start  direction / canonize / cap / cutoff handed to DMRG.sweep *)
(*   update       after every DMRG._update_local_state(i): local and total *)
(*                energy, full contraction of TN_energy, measured energies *)
(*                (library route psi.H @ ham.apply(psi) and dense numpy),  *)
(*                norm, bond sizes                                         *)
(*   sweep_end    the value DMRG.sweep returned + measurements of the state*)
(*   final        dmrg.energy / dmrg.energies / dmrg.state after solve     *)
(* The spec carries the protocol state along the trace (expected sites of  *)
(* the sweep from C10_Defs!SweepSites, schedules, the previous untruncated *)
(* energy, the sweep-end energies, whether the state is provably exact).   *)
(* Energies are integers in units of 1e-7; all tolerances are CONSTANTS.   *)
(***************************************************************************)
EXTENDS C10_Defs, TraceIO

CONSTANTS TolE,      \* reported = measured (1e-7 units)
          TolVar,    \* variational bound
          TolMono,   \* energy increase allowed between untruncated updates (solver / float noise)
          TolMonoSolverPct, \* runs with the iterative local solver (tol 1e-3): allowed increase in % of (1 + |E|)
          TolMonoX,  \* the same across the bond expansion of one-site DMRG (random noise 1e-6 is injected)
          TolN,      \* |<psi|psi> - 1| (1e-7 units)
          TolW,      \* discarded weight of a split up to which an update counts as untruncated (1e-9 units)
          TolWExact, \* discarded weight that ends a provably-exact streak (1e-9 units)
          TolConv,   \* |E - E0| when ConvergedExact applies
          TolState,  \* 1 - overlap with the exact ground space (1e-7 units)
          TolPeriodicPct, \* periodic chains: |reported - measured| <= pct % of |E| (documented approximation)
          TolCanon   \* isometry defect of the environment blocks (1e-9 units), NOTE only

VARIABLES l, fails, st
tvars == <<l, fails, st>>

E7 == 10000000
NoRun == [tid |-> -1]

SeqLE(s, b) == \A j \in DOMAIN s : s[j] <= b
SeqGE(s, b) == \A j \in DOMAIN s : s[j] >= b

\* slack granted for a cut-off c (unit 1e-12): discarded weight <= c changes norm and energy by <= c (1 + |E|)
Slack(cut12, e) == 2 * (cut12 \div 100000) * (1 + Abs(e) \div E7)

(* ------------------------------ run ------------------------------------ *)
Classical(ln) == ln.fam = "classical"
RefE0(ln) == IF Classical(ln) THEN E0(ln.f, ln.g, ln.L, ln.d) * E7 ELSE ln.e0q

\* the wiring the model (C10_DMRG!Align for k.align_(ham, b)) predicts: ket on the operator's upper leg
ModelKetLeg == "upper"

RunClauses(ln) ==
  << <<"Returns", ln.exc = "">>,
     <<"InputIsHermitian", ln.herm = 0>>,
     \* the library's own convention: MPO.to_dense() has the upper indices as rows, MPO.apply contracts the
     \* lower indices with the ket; both denote the same operator-on-state action
     <<"ConventionPinned", ln.dmpo = 0 /\ ln.dapply = 0>>,
     \* TLC's minimum over configurations is the ground energy of the operator handed to quimb
     <<"OracleAgrees", Classical(ln) => Close(E0(ln.f, ln.g, ln.L, ln.d) * E7, ln.e0q, TolE)>>,
     <<"NOTE:WiringModelDrift", ln.ketleg = ModelKetLeg>> >>

RunState(ln) ==
  [tid |-> ln.tid, cfg |-> ln, e0 |-> RefE0(ln),
   G |-> IF Classical(ln) THEN GroundSet(ln.f, ln.g, ln.L, ln.d) ELSE {},
   k |-> 0, prevdir |-> "0", dir |-> "0", canon |-> TRUE, cap |-> 0, capmax |-> 0, cut12 |-> 0,
   pend |-> <<>>, visited |-> <<>>, live |-> FALSE,
   lastE |-> [has |-> ln.ep0 < 2147483647, e |-> ln.ep0], lastTot |-> 0,
   sweepE |-> <<>>, exactSince |-> FALSE,
   call |-> [c |-> 0, k0 |-> 0, seq |-> <<"R">>, caps |-> <<0>>, cuts12 |-> <<0>>, maxsw |-> 0, tol7 |-> 0], incall |-> FALSE]

(* ------------------------ solve_start / solve_end ----------------------- *)
SolveStartClauses(ln, s) ==
  << <<"TraceWellFormed", s.tid = ln.tid /\ ~s.live /\ ~s.incall /\ ln.c = s.call.c + 1 /\ s.cfg.mode = "solve">> >>
SolveStartState(ln, s) ==
  [s EXCEPT !.incall = TRUE,
            !.call = [c |-> ln.c, k0 |-> s.k, seq |-> ln.seq, caps |-> ln.caps, cuts12 |-> ln.cuts12,
                      maxsw |-> ln.maxsw, tol7 |-> ln.tol7]]

SolveEndClauses(ln, s) ==
  LET n == Len(s.sweepE)
      made == s.k - s.call.k0
  IN
  << <<"TraceWellFormed", s.tid = ln.tid /\ ~s.live /\ s.incall /\ ln.c = s.call.c /\ ln.nsw = made>>,
     \* documented stopping rule: a call returns True as soon as the last two sweep energies (of the object) differ
     \* by less than tol, otherwise it makes max_sweeps sweeps and returns False
     <<"StopsWhenConverged",
          IF ln.conv THEN made >= 1 /\ made <= s.call.maxsw /\ n >= 2 /\ Abs(s.sweepE[n] - s.sweepE[n - 1]) <= s.call.tol7 + 1
          ELSE made = s.call.maxsw /\ (n >= 2 => Abs(s.sweepE[n] - s.sweepE[n - 1]) >= s.call.tol7 - 1)>> >>
SolveEndState(ln, s) == [s EXCEPT !.incall = FALSE]

(* --------------------------- sweep_start -------------------------------- *)
StartClauses(ln, s) ==
  LET c == s.cfg
      kk == ln.k - s.call.k0          \* number of this sweep inside its solve() call
  IN
  << <<"TraceWellFormed", s.tid = ln.tid /\ ~s.live /\ ln.k = s.k + 1 /\ (c.mode = "solve" => s.incall)>>,
     <<"ScheduleFollowed",
        c.mode = "solve" =>
          /\ kk <= s.call.maxsw
          /\ ln.dir = SeqDir(s.call.seq, kk)
          /\ ln.cap = Sched(s.call.caps, kk)
          /\ ln.cut12 = Sched(s.call.cuts12, kk)>>,
     \* "Canonize the state first, not needed if doing alternate sweeps": whenever the previous sweep OF THIS
     \* OBJECT (whichever solve() call or manual sweep made it) did not go the opposite way, the sweep must
     \* canonize first; it may canonize more often
     <<"CanonizedWhenNeeded", NeedCanonize(ln.dir, s.prevdir) => ln.canon>> >>

StartState(ln, s) ==
  [s EXCEPT !.k = ln.k, !.dir = ln.dir, !.canon = ln.canon, !.cap = ln.cap, !.capmax = Max2(@, ln.cap), !.cut12 = ln.cut12,
            !.pend = SweepSites(ln.dir, s.cfg.L, s.cfg.bsz), !.visited = <<>>, !.live = TRUE]

(* ------------------------------ update ---------------------------------- *)
\* the state after the update is normalised (a valid reference energy for the next update)
Normed(ln) == Close(ln.n7, E7, TolN)
\* nothing was cut by this update: one-site updates never truncate; for a two-site split dw9 is the discarded
\* weight (unit 1e-9) recomputed from the singular values of the tensor that was split
Untrunc(ln, c) == c.bsz = 1 \/ ln.dw9 <= TolW

UpdateClauses(ln, s) ==
  LET c == s.cfg
      first == s.visited = <<>>
      \* the eigensolver's accuracy is a tolerance, not a decided fact: the exact dense solver gets the tight
      \* bound, the iterative one (ARPACK, tol 1e-3, ncv 4) a bound relative to the size of the energy
      solvertol == IF c.exact THEN 0 ELSE TolMonoSolverPct * ((E7 + Abs(s.lastE.e)) \div 100)
      monotol == (IF c.bsz = 1 /\ first THEN TolMonoX ELSE TolMono) + solvertol
      mono == (ln.eloc <= s.lastE.e + monotol) /\ (Untrunc(ln, c) => ln.etot <= s.lastE.e + monotol)
  IN
  << <<"TraceWellFormed", s.tid = ln.tid /\ s.live>>,
     \* each block of sites is updated once per sweep, in the documented order
     <<"SweepOrder", s.pend # <<>> /\ ln.i = Head(s.pend) /\ ln.dir = s.dir>>,
     \* the environment-derived total energy is the contraction of the full energy network as it is NOW
     <<"NoStaleEnv", Close(ln.etot, ln.efull, TolE)>>,
     \* ... and that number is <psi|H|psi> of the current tensors (before any normalisation)
     <<"TotalEnergyIsExpectation", Close(ln.etot, ln.eud, TolE) /\ ln.eim <= TolE>>,
     \* inside a sweep the reported total energy is the normalised expectation value of the current state
     \* (hasema: the library route psi.H @ ham.apply(psi) was evaluated for this update; the S->C replays evaluate
     \*  it at sweep ends and on the final state only, the dense measurement is always there)
     \* (a truncating two-site split rescales what it keeps: the total energy is the normalised expectation value
     \*  after EVERY update)
     <<"ReportedEqualsMeasured", (ln.hasema => Close(ln.etot, ln.ema, TolE)) /\ Close(ln.etot, ln.emd, TolE)>>,
     <<"RoutesAgree", ln.hasema => Close(ln.ema, ln.emd, TolE)>>,
     <<"Variational", (ln.emd >= s.e0 - TolVar) /\ (ln.hasema => ln.ema >= s.e0 - TolVar)
                      /\ ln.etot >= s.e0 - TolVar /\ ln.eloc >= s.e0 - TolVar>>,
     \* from one untruncated update to the next neither the local optimum nor the total energy goes up
     \* (ARPACK with 4 Lanczos vectors on the exactly degenerate integer spectra of the classical family, started
     \*  from an exact eigenvector, breaks down and may return an excited level: with the iterative solver the
     \*  clause is asserted for the generic families only, and reported as a note for the classical one)
     <<"Monotone", (s.lastE.has /\ (c.exact \/ ~Classical(c))) => mono>>,
     <<"NOTE:MonotoneIterativeSolverOnDegenerateSpectrum", (s.lastE.has /\ ~c.exact /\ Classical(c)) => mono>>,
     <<"BondCap", SeqGE(ln.bonds, 1) /\ (c.bsz = 2 => ln.nb <= s.cap)>>,
     \* every local update leaves the state normalised (a truncating split renormalises)
     <<"UpdateKeepsNorm", Normed(ln)>>,
     \* what the protocol model predicts: the blocks are isometric, except in one-site sweeps that were not
     \* re-canonized after the bond expansion (model deviation KF-C10-3)
     <<"NOTE:CanonicalBlocks", ln.pre9 <= TolCanon \/ (c.bsz = 1 /\ ~s.canon)>> >>

UpdateState(ln, s) ==
  [s EXCEPT !.pend = IF @ = <<>> THEN @ ELSE Tail(@),
            !.visited = Append(@, ln.i),
            !.lastE = [has |-> Normed(ln), e |-> ln.etot],
            !.lastTot = ln.etot,
            !.exactSince = IF ln.dw9 > TolWExact \/ ~Normed(ln) THEN FALSE
                           ELSE IF ln.full /\ s.cfg.exact THEN TRUE ELSE @]

(* ----------------------------- sweep_end -------------------------------- *)
EndOfSweepClauses(ln, s, e) ==
  LET c == s.cfg
      sl == Slack(s.cut12, e)
  IN
  << <<"ReportedEqualsMeasured", Close(e, ln.ema, TolE + sl) /\ Close(e, ln.emd, TolE + sl) /\ ln.eim <= TolE>>,
     <<"RoutesAgree", Close(ln.ema, ln.emd, TolE)>>,
     <<"Normalized", Close(ln.n7, E7, TolN + sl)>>,
     <<"Variational", ln.emd >= s.e0 - TolVar /\ ln.ema >= s.e0 - TolVar /\ e >= s.e0 - TolVar - sl>>,
     <<"BondCap", SeqGE(ln.bonds, 1)
                  /\ (c.bsz = 2 => SeqLE(ln.bonds, s.cap))
                  /\ (c.bsz = 1 => SeqLE(ln.bonds, Max2(s.capmax, c.chi0)))>> >>

EndClauses(ln, s) ==
  << <<"TraceWellFormed", s.tid = ln.tid /\ s.live /\ ln.k = s.k>>,
     <<"SweepComplete", s.pend = <<>> /\ Len(s.visited) = NBlocks(s.cfg.L, s.cfg.bsz)>>,
     <<"EnergyIsLastUpdate", s.visited # <<>> /\ ln.e = s.lastTot>>,
     \* S->C: the order of updates the protocol model predicts for this script
     <<"NOTE:ModelDrift", Has(s.cfg, "model") =>
          (ln.k <= Len(s.cfg.model.sites) /\ s.visited = s.cfg.model.sites[ln.k])>> >>
  \o EndOfSweepClauses(ln, s, ln.e)

EndState(ln, s) ==
  [s EXCEPT !.live = FALSE, !.prevdir = s.dir, !.sweepE = Append(@, ln.e)]

(* ------------------------------- final ---------------------------------- *)
StateExact(ln, s) ==
  IF Classical(s.cfg)
  THEN WeightIn(ln.wts, s.G, Len(ln.wts)) >= E7 - TolState
  ELSE s.cfg.gap3 >= 10 => ln.infid7 <= TolState

FinalClauses(ln, s) ==
  LET c == s.cfg
      solve == c.mode = "solve"
      n == Len(ln.energies)
  IN
  \* the local eigensolver giving up (ARPACK no-convergence) is the solver's tolerance, not a decided fact: a note
  IF ln.exc # "" THEN << <<"Returns", ln.solverexc>>, <<"NOTE:SolverDidNotConverge", ~ln.solverexc>> >>
  ELSE
  << <<"Returns", TRUE>>,
     <<"TraceWellFormed", s.tid = ln.tid /\ ~s.live /\ ~s.incall>>,
     \* dmrg.energies is the history of sweep-end energies, dmrg.energy its last entry
     <<"EnergiesAreSweepEnds", solve => ln.energies = s.sweepE /\ n >= 1 /\ ln.energy = ln.energies[n]>>,
     <<"ConvergedExact",
          (solve /\ ln.conv /\ CapAdmitsAll(s.cap, c.L, c.d) /\ s.exactSince) =>
             (Close(ln.energy, s.e0, TolConv) /\ StateExact(ln, s))>>,
     <<"NOTE:FinalBondsWithinModel", Has(c, "model") =>
          (Len(ln.bonds) = Len(c.model.bonds) /\ \A j \in DOMAIN ln.bonds : ln.bonds[j] <= c.model.bonds[j])>> >>
  \o (IF solve THEN EndOfSweepClauses(ln, s, ln.energy)
      ELSE << <<"Normalized", Close(ln.n7, E7, TolN + Slack(s.cut12, 0))>>,
              <<"Variational", ln.emd >= s.e0 - TolVar>> >>)

(* ------------------------------ periodic -------------------------------- *)
\* "for periodic boundaries the energy/state consistency only, within the documented transfer-matrix
\* approximation": the returned state is normalised and the reported energy is its expectation value
\* within the relative tolerance the repository's own periodic tests use
PeriodicClauses(ln) ==
  IF ln.exc # "" THEN << <<"NOTE:PeriodicRunRaised", FALSE>> >>
  ELSE
  << <<"ReportedEqualsMeasured.Periodic",
          /\ Abs(ln.e - ln.emd) <= TolPeriodicPct * ((Abs(ln.emd) + E7) \div 100)
          /\ Abs(ln.e - ln.ema) <= TolPeriodicPct * ((Abs(ln.ema) + E7) \div 100)>>,
     <<"Normalized.Periodic", Abs(ln.n7 - E7) <= TolPeriodicPct * (E7 \div 100)>>,
     <<"RoutesAgree", Close(ln.ema, ln.emd, TolE)>> >>

(* ------------------------------ machinery ------------------------------- *)
Clauses(ln, s) ==
  CASE ln.ev = "run"         -> RunClauses(ln)
    [] ln.ev = "solve_start" -> SolveStartClauses(ln, s)
    [] ln.ev = "solve_end"   -> SolveEndClauses(ln, s)
    [] ln.ev = "sweep_start" -> StartClauses(ln, s)
    [] ln.ev = "update"      -> UpdateClauses(ln, s)
    [] ln.ev = "sweep_end"   -> EndClauses(ln, s)
    [] ln.ev = "final"       -> FinalClauses(ln, s)
    [] ln.ev = "periodic"    -> PeriodicClauses(ln)
    [] OTHER                 -> << <<"UnknownEvent", FALSE>> >>

\* records that do not belong to the run in progress are reported (TraceWellFormed) and leave the state alone
NextSt(ln, s) ==
  CASE ln.ev = "run"                                -> RunState(ln)
    [] ln.ev = "solve_start" /\ s.tid = ln.tid      -> SolveStartState(ln, s)
    [] ln.ev = "solve_end" /\ s.tid = ln.tid        -> SolveEndState(ln, s)
    [] ln.ev = "sweep_start" /\ s.tid = ln.tid      -> StartState(ln, s)
    [] ln.ev = "update" /\ s.tid = ln.tid           -> UpdateState(ln, s)
    [] ln.ev = "sweep_end" /\ s.tid = ln.tid        -> EndState(ln, s)
    [] OTHER                                        -> s

\* a record of a run whose `run` line was not seen cannot be judged
Orphan(ln, s) == ln.ev \notin {"run", "periodic"} /\ s.tid # ln.tid

TInit == l = 1 /\ fails = <<>> /\ st = NoRun
TNext == /\ l <= NLines
         /\ LET ln == TraceLog[l] IN
            /\ fails' = AddFails(fails, l, IF Orphan(ln, st) THEN << <<"TraceWellFormed", FALSE>> >> ELSE Clauses(ln, st))
            /\ st' = NextSt(ln, st)
         /\ l' = l + 1
TSpec == TInit /\ [][TNext]_tvars
Done == l = NLines + 1 => WriteVerdict(l - 1, fails)
=============================================================================
