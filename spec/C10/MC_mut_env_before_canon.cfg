SPECIFICATION Spec
CONSTANTS
  Ls <- LsS
  Bszs <- BszAll
  D = 2
  Caps <- CapsS
  B0s <- B0S
  Modes <- ModesAll
  MaxSweeps = 2
  MinExtra = 1
  Ranks = "max"
  Mutant = "env_before_canon"
  Emit = FALSE
INVARIANT NoStaleEnv
CHECK_DEADLOCK FALSE
