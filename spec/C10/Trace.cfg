SPECIFICATION TSpec
CONSTANTS
  TolE = 20
  TolVar = 20
  TolMono = 100
  TolMonoSolverPct = 2
  TolMonoX = 1000
  TolN = 20
  TolW = 10
  TolWExact = 1
  TolConv = 500
  TolState = 1000
  TolPeriodicPct = 3
  TolCanon = 1000
INVARIANT Done
CHECK_DEADLOCK FALSE
