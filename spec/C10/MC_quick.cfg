SPECIFICATION Spec
CONSTANTS
  Ls <- LsQ
  Bszs <- BszAll
  D = 2
  Caps <- CapsQ
  B0s <- B0Q
  Modes <- ModesAll
  MaxSweeps = 3
  MinExtra = 1
  Ranks = "max"
  Mutant = "none"
  Emit = FALSE
INVARIANT NoStaleEnv
INVARIANT CanonAtUpdate
INVARIANT PosInRange
INVARIANT SweepOrder
INVARIANT ReportedIsCurrent
INVARIANT BondCap
INVARIANT EndNormalized
CHECK_DEADLOCK FALSE
