SPECIFICATION Spec
CONSTANTS
  Ls <- LsQ0
  Bszs <- BszAll
  D = 2
  Caps <- CapsQ
  B0s <- B0Q
  Modes <- ModesAll
  MaxSweeps = 3
  MinExtra = 0
  Ranks = "max"
  Mutant = "none"
  Emit = FALSE
INVARIANT NoStaleEnv
INVARIANT CanonAtUpdate
INVARIANT PosInRange
INVARIANT SweepOrder
INVARIANT ReportedIsCurrent
INVARIANT BondCap
INVARIANT EndNormalizedAnyCap
CHECK_DEADLOCK FALSE
