SPECIFICATION Spec
CONSTANTS
  Ls <- LsC
  Bszs <- BszAll
  D = 2
  Caps <- CapsC
  B0s <- B0S
  Modes <- ModesAll
  MaxSweeps = 3
  MinExtra = 0
  Ranks = "max"
  Mutant = "none"
  Emit = TRUE
INVARIANT NoStaleEnv
INVARIANT SweepOrder
CHECK_DEADLOCK FALSE
