SPECIFICATION Spec
CONSTANTS
  Ls <- LsT0
  Bszs <- BszAll
  D = 2
  Caps <- CapsT
  B0s <- B0T
  Modes <- ModesAll
  MaxSweeps = 3
  MinExtra = 0
  Ranks = "any"
  Mutant = "none"
  Emit = FALSE
INVARIANT NoStaleEnv
INVARIANT CanonAtUpdate
INVARIANT PosInRange
INVARIANT SweepOrder
INVARIANT ReportedIsCurrent
INVARIANT BondCap
INVARIANT EndNormalizedAnyCap
INVARIANT WiringIsTransposed
CHECK_DEADLOCK FALSE
