SPECIFICATION Spec
CONSTANTS
  Ls <- LsT
  Bszs <- BszAll
  D = 2
  Caps <- CapsT
  B0s <- B0T
  Modes <- ModesAll
  MaxSweeps = 3
  MinExtra = 1
  Ranks = "any"
  Mutant = "none"
  Emit = FALSE
INVARIANT NoStaleEnv
INVARIANT CanonAtUpdate
INVARIANT PosInRange
INVARIANT SweepOrder
INVARIANT ReportedIsCurrent
INVARIANT BondCap
INVARIANT EndNormalized
INVARIANT WiringIsTransposed
CHECK_DEADLOCK FALSE
