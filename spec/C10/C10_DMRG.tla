----------------------------- MODULE C10_DMRG -----------------------------
(***************************************************************************)
(* C10 - protocol-level model of quimb's DMRG driver                       *)
(* (quimb/tensor/tn1d/dmrg.py at the pinned commit).                       *)
(*                                                                         *)
(* Implementation-shaped part (transcription):                             *)
(*   MovingEnvironment.init_segment / move_right / move_left / move_to for *)
(*   open boundaries, DMRG.sweep (optional canonization, then a FRESH      *)
(*   MovingEnvironment per sweep, then _update_local_state(i) for i in the  *)
(*   sweep range), _update_local_state_1site (insert, tot_en, then         *)
(*   canonize towards the sweep direction), _update_local_state_2site      *)
(*   (insert the split pair, absorb = direction, renormalised, then       *)
(*   tot_en), DMRG.solve (schedules, canonize = not alternate, bond        *)
(*   expansion for one-site DMRG, energies.append(tot_ens[-1])).           *)
(*                                                                         *)
(* Abstract state: a version number per site tensor (ver), a version of    *)
(* the represented *state* (sver: bumped by local updates, not by gauge     *)
(* moves), for every environment block the versions of the site tensors it *)
(* was contracted from, the canonical form per site, the bond sizes.       *)
(*                                                                         *)
(* Property-level invariants (what C10 needs from the protocol):           *)
(*   NoStaleEnv        every local problem (and every tot_en) is formed     *)
(*                     from blocks contracted from the CURRENT tensors of  *)
(*                     exactly the sites they must cover                   *)
(*   CanonAtUpdate     the blocks are isometric (the local problem is a     *)
(*                     standard, not generalised, eigenproblem)            *)
(*   SweepOrder        each block of sites is updated once per sweep, in   *)
(*                     the documented order; the environment never leaves  *)
(*                     0..L-bsz (no ValueError)                            *)
(*   ReportedIsCurrent energies[-1] was computed from the state that is    *)
(*                     returned (no update after the energy was taken)     *)
(*   BondCap           bonds produced by a split respect the cap; after a  *)
(*                     two-site sweep all bonds do                         *)
(*   EndNormalizedAnyCap the state is normalised after every sweep, so the  *)
(*                     reported sweep-end energy is the normalised one, also*)
(*                     when the last split truncates (cap < d)              *)
(*                     (one-site sweeps that were not re-canonized after    *)
(*                     the bond expansion are the named deviation KF-C10-3) *)
(*   WiringMatchesApply the energy network attaches the ket to the operator *)
(*                     leg that MPO.apply contracts with a ket; FAILS at    *)
(*                     the pinned commit: known finding KF-C10-1            *)
(***************************************************************************)
EXTENDS C10_Defs, TLC, Json

CONSTANTS Ls,        \* set of chain lengths
          Bszs,      \* subset of {1, 2}
          D,         \* physical dimension
          Caps,      \* bond caps a sweep may request
          B0s,       \* bond size of the initial state p0 (all bonds, before capping at natural size)
          Modes,     \* subset of {"solve", "manual"}
          MaxSweeps,
          MinExtra,  \* chains have at least bsz + MinExtra sites (0: L = bsz is admitted)
          Ranks,     \* "max": a split keeps min(rank bound, cap); "any": it may also find rank 1
          Mutant,    \* "none" or the name of a seeded protocol defect (model self-tests)
          Emit       \* TRUE: print every complete script as JSON (S->C replay cases)

VARIABLES L, bsz, mode, b0,
          phase,     \* "idle" | "sweep" | "done"
          nsw, prev, dir, canon, cap, capmax,
          todo, done,
          ver, sver, form, bond,
          me,        \* the MovingEnvironment of the current sweep
          erep,      \* [sv, norm]: state version the last tot_en was computed from; was that state normalised
          energies,  \* DMRG.energies as a sequence of such stamps
          chk,       \* verdicts of the checks made when the last local problem / tot_en was formed
          incall,    \* a DMRG.solve() call is in progress (its local `previous_direction` is alive)
          tolbig,    \* this solve() call has a huge tol: it stops as soon as two sweep energies exist
          pad,       \* the bond expansion of this sweep broke the canonical form and nothing repaired it (KF-C10-3)
          wire,      \* which index family each layer of the energy network TN_energy = b | ham | k carries
          script, sites  \* history (for the replay cases)

vars == <<L, bsz, mode, b0, phase, nsw, prev, dir, canon, cap, capmax, todo, done, ver, sver, form, bond,
          me, erep, energies, chk, incall, tolbig, pad, wire, script, sites>>

Sites == 0..(L - 1)
Stop == L - bsz + 1                      \* the open-boundary segment is range(0, L - bsz + 1)
NoCov == [s \in Sites |-> -1]
NoME == [begin |-> "none", pos |-> 0, err |-> FALSE, envs |-> <<>>]
ChkOK == [fresh |-> TRUE, canonok |-> TRUE, totfresh |-> TRUE]

BL(b, i) == IF i = 0 THEN 1 ELSE b[i]          \* left bond of site i
BR(b, i) == IF i = L - 1 THEN 1 ELSE b[i + 1]  \* right bond of site i

(* ------------------- transcription: MovingEnvironment ------------------ *)
\* init_segment(begin, 0, L - bsz + 1) at tensor versions v.
\* begin = 'left' : envs[j] holds a contracted _RIGHT block of the sites >= j + bsz (all contracted now),
\*                  live views of sites j .. j+bsz-1, and only envs[0] a (dummy) _LEFT.
\* begin = 'right': mirror image; the dummy _RIGHT goes to envs[stop - 1].
InitSegment(begin, v) ==
  [begin |-> begin,
   \* begin = 'right' ends with `self.envs[stop - 1] |= self.tnc["_RIGHT"]`.  (Mutant "unbound_i": the earlier
   \* form `self.envs[i] |= ...` with i the variable of `for i in range(start + 1, stop)`, which is unbound when
   \* the segment has a single position, L = bsz: UnboundLocalError)
   err  |-> (Mutant = "unbound_i" /\ begin = "right" /\ Stop - 1 < 1),
   pos  |-> IF begin = "left" THEN 0 ELSE Stop - 1,
   envs |-> [j \in 0..(Stop - 1) |->
      IF begin = "left"
      THEN [hasL |-> j = 0, Ls |-> NoCov, dupL |-> FALSE,
            hasR |-> TRUE,  Rs |-> [s \in Sites |-> IF s >= j + bsz THEN v[s] ELSE -1], dupR |-> FALSE]
      ELSE [hasL |-> TRUE,  Ls |-> [s \in Sites |-> IF s <= j - 1 THEN v[s] ELSE -1], dupL |-> FALSE,
            hasR |-> j = Stop - 1, Rs |-> NoCov, dupR |-> FALSE]]]

\* move_right: raises for OBC when pos + 1 is outside the segment; otherwise contracts the _LEFT block of
\* envs[i-1] with the *current* tensors of site i-1 and adds the result to envs[i].
MoveRight(m, v) ==
  IF m.pos + 1 > Stop - 1 THEN [m EXCEPT !.err = TRUE]
  ELSE LET i == m.pos + 1
           src == m.envs[i - 1]
           newL == [s \in Sites |-> IF s = i - 1 THEN v[s] ELSE IF src.hasL THEN src.Ls[s] ELSE -1]
           old == m.envs[i]
       IN [m EXCEPT !.pos = i,
                    !.envs[i] = [old EXCEPT !.dupL = old.hasL, !.hasL = src.hasL, !.Ls = newL]]

MoveLeft(m, v) ==
  IF m.pos - 1 < 0 THEN [m EXCEPT !.err = TRUE]
  ELSE LET i == m.pos - 1
           src == m.envs[i + 1]
           newR == [s \in Sites |-> IF s = i + bsz THEN v[s] ELSE IF src.hasR THEN src.Rs[s] ELSE -1]
           old == m.envs[i]
       IN [m EXCEPT !.pos = i,
                    !.envs[i] = [old EXCEPT !.dupR = old.hasR, !.hasR = src.hasR, !.Rs = newR]]

\* the block structure of envs[i] is exactly "left of i" and "right of i+bsz-1", built from versions v
Fresh(m, i, v) ==
  LET e == m.envs[i] IN
  /\ ~m.err /\ m.pos = i
  /\ e.hasL /\ e.hasR /\ ~e.dupL /\ ~e.dupR
  /\ \A s \in Sites : /\ e.Ls[s] = (IF s < i THEN v[s] ELSE -1)
                      /\ e.Rs[s] = (IF s >= i + bsz THEN v[s] ELSE -1)

Canonical(fm, i) == \A s \in Sites : (s < i => fm[s] = "L") /\ (s > i + bsz - 1 => fm[s] = "R")

(* ------------------- transcription: state manipulations ---------------- *)
RECURSIVE RCanonBonds(_, _)      \* right_canonize: QR from the right end, bond j <- min(bond j, d * right bond)
RCanonBonds(b, j) == IF j = 0 THEN b
                     ELSE RCanonBonds([b EXCEPT ![j] = Min2(b[j], D * BR(b, j))], j - 1)
RECURSIVE LCanonBonds(_, _)
LCanonBonds(b, j) == IF j = L THEN b
                     ELSE LCanonBonds([b EXCEPT ![j] = Min2(b[j], D * BL(b, j - 1))], j + 1)

BumpAll(v) == [s \in Sites |-> v[s] + 1]

(* ------------- transcription: tensor_network_align of a stack ----------- *)
\* ind_ids[0] is the first network's site index family, ind_ids[1..] are fresh ("__ind_a{}__", ...).
\* A vector may only be first (gets ind_ids[0]) or last (gets ind_ids[n-2]); an operator at position i
\* (0-based) gets upper = ind_ids[i-1] (if i # 0) and lower = ind_ids[i] (if i # n-1).
\* Result: per position the family of its site / upper / lower indices (0 = untouched).
Align(kinds) ==
  LET n == Len(kinds) IN
  [p \in 1..n |->
     LET i == p - 1 IN
     IF kinds[p] = "vec"
     THEN [site |-> IF i = 0 THEN 100 ELSE 100 + (i - 1), upper |-> 0, lower |-> 0]
     ELSE [site |-> 0, upper |-> IF i # 0 THEN 100 + (i - 1) ELSE 0, lower |-> IF i # n - 1 THEN 100 + i ELSE 0]]

(* ------------------------------- actions ------------------------------- *)
Init ==
  /\ L \in Ls /\ bsz \in Bszs /\ mode \in Modes /\ b0 \in B0s
  /\ L >= bsz + MinExtra
  /\ phase = "idle" /\ nsw = 0 /\ prev = "0" /\ dir = "0" /\ canon = FALSE /\ cap = 0 /\ capmax = 0
  /\ todo = <<>> /\ done = <<>>
  /\ ver = [s \in Sites |-> 0] /\ sver = 0
  /\ form = [s \in Sites |-> "X"]
  /\ bond = [j \in 1..(L - 1) |-> b0]
  /\ me = NoME /\ erep = [sv |-> -1, norm |-> TRUE] /\ energies = <<>> /\ chk = ChkOK
  /\ pad = FALSE /\ incall = FALSE /\ tolbig = FALSE
  /\ wire = Align(<<"vec", "op", "vec">>)        \* DMRG.__init__: self._k.align_(self.ham, self._b)
  /\ script = <<>> /\ sites = <<>>

\* DMRG.solve picks (direction, max_bond) from the schedules and canonize = not alternate, where "alternate" is
\* judged against `previous_direction`, a LOCAL variable of solve() that starts as "0" in every call: the first
\* sweep of every call canonizes.  Several solve() calls may follow each other on one object (a call ends by
\* convergence or by exhausting max_sweeps).  (Mutant "stale_prev": the direction is kept on the object across
\* calls, but a call that ends by convergence leaves before updating it.)
\* A manual DMRG.sweep(direction, canonize=True, max_bond=...) is also legal at any time.
StartSweep(d, c, cp, tb) ==
  /\ phase = "idle" /\ nsw < MaxSweeps
  /\ LET newcall == mode = "solve" /\ ~incall
         ruleprev == IF newcall /\ Mutant # "stale_prev" THEN "0" ELSE prev
     IN /\ IF Mutant = "no_canon" THEN c = FALSE
           ELSE c \in (IF mode = "solve" THEN {NeedCanonize(d, ruleprev)} ELSE {NeedCanonize(d, prev), TRUE})
        /\ tb = (IF newcall THEN tb ELSE tolbig)          \* tol is a parameter of the call, not of the sweep
        /\ (mode # "solve" => tb = FALSE)
        /\ tolbig' = tb /\ incall' = (mode = "solve")
        /\ script' = Append(script, [dir |-> d, canon |-> c, cap |-> cp, newcall |-> newcall, tb |-> tb])
  /\ bsz = 1 => cp >= capmax                \* one-site DMRG: non-decreasing schedules (documented meaning)
  /\ LET \* solve: expand_bond_dimension(max_bond) for one-site DMRG (pads every bond, random noise 1e-6)
         expand == bsz = 1 /\ mode = "solve"
         b1 == IF expand THEN [j \in 1..(L - 1) |-> Max2(bond[j], cp)] ELSE bond
         v1 == IF expand THEN BumpAll(ver) ELSE ver
         \* padding a bond with noise leaves the two tensors on it non-isometric in the new directions
         pads == expand /\ \E j \in 1..(L - 1) : bond[j] < cp
         f1 == IF ~pads THEN form
               ELSE [s \in Sites |-> IF (s >= 1 /\ bond[s] < cp) \/ (s <= L - 2 /\ bond[s + 1] < cp) THEN "X" ELSE form[s]]
         \* sweep: canonize first
         b2 == IF ~c THEN b1 ELSE IF d = "R" THEN RCanonBonds(b1, L - 1) ELSE LCanonBonds(b1, 1)
         v2 == IF c THEN BumpAll(v1) ELSE v1
         f2 == IF ~c THEN f1
               ELSE IF d = "R" THEN [s \in Sites |-> IF s = 0 THEN "X" ELSE "R"]
               ELSE [s \in Sites |-> IF s = L - 1 THEN "X" ELSE "L"]
         begin == IF d = "R" THEN "left" ELSE "right"
         \* a fresh MovingEnvironment is built from the tensors as they are *after* canonization
         vbuild == IF Mutant = "env_before_canon" THEN v1 ELSE v2
     IN /\ bond' = b2 /\ ver' = v2 /\ form' = f2
        /\ pad' = (pads /\ ~c)
        /\ me' = IF Mutant = "reuse_env" /\ me.begin = begin
                 THEN [me EXCEPT !.pos = IF begin = "left" THEN 0 ELSE Stop - 1]
                 ELSE InitSegment(begin, vbuild)
        /\ todo' = (IF Mutant = "skip_last"
                    THEN SubSeq(SweepSites(d, L, bsz), 1, NBlocks(L, bsz) - 1)
                    ELSE SweepSites(d, L, bsz))
  /\ dir' = d /\ canon' = c /\ cap' = cp /\ capmax' = Max2(capmax, cp)
  /\ done' = <<>> /\ phase' = "sweep"
  /\ UNCHANGED <<wire, L, bsz, mode, b0, nsw, prev, sver, erep, energies, chk, sites>>  \* pad is set above

\* one step of move_to(i) towards the next site of the sweep
Move ==
  /\ phase = "sweep" /\ todo # <<>> /\ ~me.err /\ me.pos # Head(todo)
  /\ me' = IF Head(todo) < me.pos THEN MoveLeft(me, ver) ELSE MoveRight(me, ver)
  /\ UNCHANGED <<incall, tolbig, pad, wire, L, bsz, mode, b0, phase, nsw, prev, dir, canon, cap, capmax, todo, done, ver, sver, form, bond,
                 erep, energies, chk, script, sites>>

\* _update_local_state_1site(i): eigen-solve on envs[i], insert into k[i]/b[i], tot_en = eff_ham ^ all,
\* then canonize towards the sweep direction (moves the centre, changes site i and its neighbour)
LocalUpdate1 ==
  /\ phase = "sweep" /\ bsz = 1 /\ todo # <<>> /\ ~me.err /\ me.pos = Head(todo)
  /\ LET i == Head(todo)
         vA == [ver EXCEPT ![i] = @ + 1]                     \* loc_gs inserted
         goR == dir = "R" /\ i < L - 1
         goL == dir = "L" /\ i > 0
         vB == IF goR THEN [vA EXCEPT ![i] = @ + 1, ![i + 1] = @ + 1]
               ELSE IF goL THEN [vA EXCEPT ![i] = @ + 1, ![i - 1] = @ + 1] ELSE vA
         \* tot_en is computed between the two (mutant: after the canonization)
         vtot == IF Mutant = "canon_before_toten" THEN vB ELSE vA
     IN /\ chk' = [fresh |-> Fresh(me, i, ver), canonok |-> Canonical(form, i), totfresh |-> Fresh(me, i, vtot)]
        /\ ver' = vB
        /\ sver' = sver + 1
        /\ erep' = [sv |-> IF Mutant = "energy_before_update" THEN sver ELSE sver + 1, norm |-> TRUE]
        /\ form' = IF goR THEN [form EXCEPT ![i] = "L", ![i + 1] = "X"]
                   ELSE IF goL THEN [form EXCEPT ![i] = "R", ![i - 1] = "X"]
                   ELSE [form EXCEPT ![i] = "X"]
        /\ bond' = IF goR THEN [bond EXCEPT ![i + 1] = Min2(BL(bond, i) * D, bond[i + 1])]
                   ELSE IF goL THEN [bond EXCEPT ![i] = Min2(bond[i], D * BR(bond, i))]
                   ELSE bond
        /\ done' = Append(done, i) /\ todo' = Tail(todo)
  /\ UNCHANGED <<incall, tolbig, pad, wire, L, bsz, mode, b0, phase, nsw, prev, dir, canon, cap, capmax, me, energies, script, sites>>

\* _update_local_state_2site(i): eigen-solve for sites (i, i+1), split with absorb = direction,
\* max_bond = cap, renorm = True; tot_en = eff_ham ^ all afterwards
LocalUpdate2 ==
  /\ phase = "sweep" /\ bsz = 2 /\ todo # <<>> /\ ~me.err /\ me.pos = Head(todo)
  /\ LET i == Head(todo)
         rmax == Min2(BL(bond, i) * D, D * BR(bond, i + 1))
         kept == Min2(rmax, cap)
     IN \E r \in (IF Ranks = "max" THEN {kept} ELSE {kept, 1}) :
        /\ chk' = [fresh |-> Fresh(me, i, ver), canonok |-> Canonical(form, i), totfresh |-> Fresh(me, i, ver)]
        /\ ver' = [ver EXCEPT ![i] = @ + 1, ![i + 1] = @ + 1]
        /\ sver' = sver + 1
        \* the split truncates whenever the cap is below the rank bound (a smaller rank r models a
        \* rank-deficient optimum: nothing is cut); the kept singular values are rescaled (renorm=True), so the
        \* state stays normalised (Mutant "no_renorm": the split without the rescaling)
        /\ erep' = [sv |-> IF Mutant = "energy_before_update" THEN sver ELSE sver + 1,
                    norm |-> ~(Mutant = "no_renorm" /\ r = kept /\ kept < rmax)]
        /\ form' = IF dir = "R" THEN [form EXCEPT ![i] = "L", ![i + 1] = "X"]
                   ELSE [form EXCEPT ![i] = "X", ![i + 1] = "R"]
        /\ bond' = [bond EXCEPT ![i + 1] = r]
        /\ done' = Append(done, i) /\ todo' = Tail(todo)
  /\ UNCHANGED <<incall, tolbig, pad, wire, L, bsz, mode, b0, phase, nsw, prev, dir, canon, cap, capmax, me, energies, script, sites>>

\* end of DMRG.sweep / the bookkeeping of DMRG.solve: energies.append(tot_ens[-1])
\* _check_convergence needs two entries of `energies` (of the whole object); on convergence solve() leaves the
\* loop BEFORE `previous_direction = direction`; otherwise the call goes on or has exhausted max_sweeps
EndSweep ==
  /\ phase = "sweep" /\ todo = <<>>
  /\ energies' = Append(energies, erep)
  /\ nsw' = nsw + 1 /\ phase' = "idle"
  /\ LET conv == mode = "solve" /\ tolbig /\ Len(energies) + 1 >= 2 IN
     IF conv THEN prev' = prev /\ incall' = FALSE
     ELSE prev' = dir /\ incall' \in (IF mode = "solve" THEN BOOLEAN ELSE {FALSE})
  /\ sites' = Append(sites, done)
  /\ UNCHANGED <<tolbig, pad, wire, L, bsz, mode, b0, dir, canon, cap, capmax, todo, done, ver, sver, form, bond, me, erep, chk, script>>

Finish ==
  /\ phase = "idle" /\ nsw >= 1
  /\ phase' = "done"
  /\ Emit => PrintT(<<"QVJSON", ToJson([L |-> L, bsz |-> bsz, mode |-> mode, b0 |-> b0, script |-> script,
                                         sites |-> sites, bonds |-> [j \in 1..(L - 1) |-> bond[j]]])>>)
  /\ UNCHANGED <<incall, tolbig, pad, wire, L, bsz, mode, b0, nsw, prev, dir, canon, cap, capmax, todo, done, ver, sver, form, bond,
                 me, erep, energies, chk, script, sites>>

Next == \/ \E d \in {"R", "L"}, c \in BOOLEAN, cp \in Caps, tb \in BOOLEAN : StartSweep(d, c, cp, tb)
        \/ Move \/ LocalUpdate1 \/ LocalUpdate2 \/ EndSweep \/ Finish

Spec == Init /\ [][Next]_vars

(* ------------------------- property-level invariants ------------------- *)
NoStaleEnv == chk.fresh /\ chk.totfresh
\* named deviation KF-C10-3: solve() does not canonize an alternate sweep although expand_bond_dimension
\* has just padded the bonds of a one-site state; in that sweep the blocks are not isometric
CanonAtUpdate == chk.canonok \/ pad
CanonAtUpdateAlways == chk.canonok                                                      \* FAILS: KF-C10-3
PosInRange == me.begin # "none" => (~me.err /\ me.pos \in 0..(L - bsz))
\* what has been updated so far in this sweep is a prefix of the documented order, without repetition;
\* a completed sweep visited every block exactly once
SweepOrder ==
  /\ phase = "sweep" => /\ Len(done) <= NBlocks(L, bsz)
                        /\ done = SubSeq(SweepSites(dir, L, bsz), 1, Len(done))
  /\ \A k \in 1..Len(sites) : sites[k] = SweepSites(script[k].dir, L, bsz)
ReportedIsCurrent == (phase \in {"idle", "done"} /\ nsw > 0) => energies[nsw].sv = sver
BondCap ==
  /\ \A j \in 1..(L - 1) : bond[j] >= 1
  /\ (phase = "sweep" /\ bsz = 2) => \A k \in 1..Len(done) : bond[done[k] + 1] <= cap
  /\ (phase \in {"idle", "done"} /\ nsw > 0 /\ bsz = 2) => \A j \in 1..(L - 1) : bond[j] <= cap
  /\ (phase \in {"idle", "done"} /\ nsw > 0 /\ bsz = 1) => \A j \in 1..(L - 1) : bond[j] <= Max2(capmax, b0)
\* after a completed sweep the state is normalised and the reported energy is the normalised one
EndNormalized == (phase \in {"idle", "done"} /\ nsw > 0 /\ cap >= D) => energies[nsw].norm
EndNormalizedAnyCap == (phase \in {"idle", "done"} /\ nsw > 0) => energies[nsw].norm

(* ---------------- wiring of the energy network ------------------------- *)
\* wire[1] is the ket, wire[2] the Hamiltonian, wire[3] the bra.
\* MPO.apply(ket) / MPO.to_dense(): the operator's *lower* indices are contracted with a ket (they are the
\* columns of the dense matrix), the upper indices are the rows, so the library's own
\* <psi|H|psi> = sum conj(psi)[row] H[row, col] psi[col] attaches the ket to the LOWER and the bra to the
\* UPPER leg.  The energy network of DMRG does the opposite (it denotes <psi|H^T|psi>).
WiringMatchesApply == wire[1].site = wire[2].lower /\ wire[3].site = wire[2].upper        \* FAILS: KF-C10-1
WiringIsTransposed == wire[1].site = wire[2].upper /\ wire[3].site = wire[2].lower        \* holds at the pinned commit
=============================================================================
