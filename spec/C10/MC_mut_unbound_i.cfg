SPECIFICATION Spec
CONSTANTS
  Ls <- LsTwo
  Bszs <- BszAll
  D = 2
  Caps <- CapsS
  B0s <- B0S
  Modes <- ModesAll
  MaxSweeps = 2
  MinExtra = 0
  Ranks = "max"
  Mutant = "unbound_i"
  Emit = FALSE
INVARIANT PosInRange
CHECK_DEADLOCK FALSE
