SPECIFICATION Spec
CONSTANTS
  Ls <- LsS
  Bszs <- BszAll
  D = 2
  Caps <- CapsS
  B0s <- B0S
  Modes <- ModesAll
  MaxSweeps = 2
  MinExtra = 0
  Ranks = "max"
  Mutant = "no_renorm"
  Emit = FALSE
INVARIANT EndNormalizedAnyCap
CHECK_DEADLOCK FALSE
