----------------------------- MODULE C10_Defs -----------------------------
(***************************************************************************)
(* C10 - DMRG is variational and reports the energy of the state it        *)
(* returns.  Reference definitions, written from the property statement    *)
(* and the docstrings of DMRG / DMRG.solve / DMRG.sweep (not from the      *)
(* code):                                                                  *)
(*   - the sweep protocol (which sites a sweep visits and in which order,  *)
(*     how bond/cut-off schedules and the sweep sequence are consumed,     *)
(*     when a sweep has to canonize first);                                *)
(*   - the exact small-scope domain: classical energy functions (diagonal  *)
(*     integer Hamiltonians  E(s) = sum_i f[i][s_i] + sum_i g[i][s_i][s_i+1]*)
(*     conjugated by site-local unitaries, which keeps the spectrum) whose *)
(*     exact ground energy and ground configurations TLC computes as a     *)
(*     minimum over configurations;                                        *)
(*   - arithmetic on energies quantised to integers (unit 1e-7).           *)
(***************************************************************************)
EXTENDS Integers, Sequences, FiniteSets

Min2(a, b) == IF a < b THEN a ELSE b
Max2(a, b) == IF a > b THEN a ELSE b
Abs(x)     == IF x < 0 THEN -x ELSE x
Close(a, b, tol) == Abs(a - b) <= tol

RECURSIVE Pow(_, _)
Pow(b, e) == IF e = 0 THEN 1 ELSE b * Pow(b, e - 1)

(* ----------------------- sweep protocol (docstrings) ------------------- *)

\* DMRG.sweep: "optimize -->" visits the blocks of bsz sites i = 0 .. L-bsz from the left,
\* direction 'L' the same blocks from the right; every block exactly once.
NBlocks(L, bsz) == L - bsz + 1
SweepSites(dir, L, bsz) ==
  [k \in 1..NBlocks(L, bsz) |-> IF dir = "R" THEN k - 1 ELSE L - bsz - (k - 1)]

\* DMRG.solve: "String made of 'L' and 'R' ... The sequence will be repeated"
SeqDir(s, k) == s[((k - 1) % Len(s)) + 1]
\* "successive sweeps iterate through, then repeat the final value"
Sched(sq, k) == IF k <= Len(sq) THEN sq[k] ELSE sq[Len(sq)]
\* "canonize : Canonize the state first, not needed if doing alternate sweeps."
NeedCanonize(dir, prev) == ~((dir = "L" /\ prev = "R") \/ (dir = "R" /\ prev = "L"))

\* largest Schmidt rank any state of L sites of dimension d can have across the cut before site j
NaturalBond(j, L, d) == Min2(Pow(d, j), Pow(d, L - j))
\* "the cap admits the exact ground state" in the strongest reading: it admits every state
CapAdmitsAll(cap, L, d) == cap >= Pow(d, L \div 2)

(* ---------- exact domain: classical energy functions on a chain -------- *)
\* f[i][a+1] : field table of site i (1-based) for local state a in 0..d-1
\* g[i][a+1][b+1] : coupling table between sites i and i+1
Configs(n, d) == [1..n -> 0..(d - 1)]

RECURSIVE SumF(_, _, _)
SumF(f, s, i) == IF i = 0 THEN 0 ELSE f[i][s[i] + 1] + SumF(f, s, i - 1)
RECURSIVE SumG(_, _, _)
SumG(g, s, i) == IF i = 0 THEN 0 ELSE g[i][s[i] + 1][s[i + 1] + 1] + SumG(g, s, i - 1)

Energy(f, g, s) == SumF(f, s, Len(f)) + SumG(g, s, Len(g))

\* exact ground energy: a minimum over all configurations (the spectrum of U D U^dagger is that of D)
MinOf(S) == CHOOSE x \in S : \A y \in S : x <= y
EnergySet(f, g, n, d) == {Energy(f, g, s) : s \in Configs(n, d)}
E0(f, g, n, d) == MinOf(EnergySet(f, g, n, d))
GroundSet(f, g, n, d) == LET e == E0(f, g, n, d) IN {s \in Configs(n, d) : Energy(f, g, s) = e}
\* first excited level (for the gap); equals E0 when the spectrum is flat
E1(f, g, n, d) == LET e == E0(f, g, n, d)
                      rest == EnergySet(f, g, n, d) \ {e}
                  IN IF rest = {} THEN e ELSE MinOf(rest)

\* a recorded configuration (sequence of digits) as a function 1..n -> 0..d-1
AsConfig(digits) == [i \in 1..Len(digits) |-> digits[i]]

\* total recorded weight (unit 1e-7) carried by the configurations of S; wts = << <<digits, w7>>, ... >>
RECURSIVE WeightIn(_, _, _)
WeightIn(wts, S, k) ==
  IF k = 0 THEN 0
  ELSE (IF AsConfig(wts[k][1]) \in S THEN wts[k][2] ELSE 0) + WeightIn(wts, S, k - 1)

\* sanity of the definitions on a hand-computed instance: two sites, fields (0,1),(0,-2), coupling 3 on (1,1)
ASSUME LET f == << <<0, 1>>, <<0, -2>> >>
           g == << << <<0, 0>>, <<0, 3>> >> >>
       IN /\ E0(f, g, 2, 2) = -2
          /\ GroundSet(f, g, 2, 2) = {[i \in 1..2 |-> IF i = 1 THEN 0 ELSE 1]}
          /\ E1(f, g, 2, 2) = 0
ASSUME SweepSites("R", 4, 2) = <<0, 1, 2>> /\ SweepSites("L", 4, 2) = <<2, 1, 0>> /\ SweepSites("L", 3, 1) = <<2, 1, 0>>
ASSUME SeqDir(<<"R", "L", "L">>, 4) = "R" /\ Sched(<<2, 4>>, 5) = 4 /\ NaturalBond(2, 5, 2) = 4 /\ CapAdmitsAll(4, 5, 2)
=============================================================================
