SPECIFICATION Spec
CONSTANTS
  Ls <- LsS
  Bszs <- BszAll
  D = 2
  Caps <- CapsS
  B0s <- B0S
  Modes <- ModesAll
  MaxSweeps = 2
  MinExtra = 1
  Ranks = "max"
  Mutant = "skip_last"
  Emit = FALSE
INVARIANT SweepOrder
CHECK_DEADLOCK FALSE
