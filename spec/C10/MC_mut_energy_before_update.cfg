SPECIFICATION Spec
CONSTANTS
  Ls <- LsS
  Bszs <- BszAll
  D = 2
  Caps <- CapsS
  B0s <- B0S
  Modes <- ModesAll
  MaxSweeps = 2
  MinExtra = 1
  Ranks = "max"
  Mutant = "energy_before_update"
  Emit = FALSE
INVARIANT ReportedIsCurrent
CHECK_DEADLOCK FALSE
