SPECIFICATION Spec
CONSTANTS
  Ls <- LsS
  Bszs <- BszAll
  D = 2
  Caps <- CapsS
  B0s <- B0S
  Modes <- ModesAll
  MaxSweeps = 3
  MinExtra = 1
  Ranks = "max"
  Mutant = "stale_prev"
  Emit = FALSE
INVARIANT CanonAtUpdate
CHECK_DEADLOCK FALSE
