SPECIFICATION Spec
CONSTANTS
  Ls <- LsS
  Bszs <- BszAll
  D = 2
  Caps <- CapsS
  B0s <- B0S
  Modes <- ModesAll
  MaxSweeps = 2
  MinExtra = 1
  Ranks = "max"
  Mutant = "none"
  Emit = FALSE
INVARIANT WiringMatchesApply
CHECK_DEADLOCK FALSE
