------------------------------ MODULE TraceIO ------------------------------
(* Shared plumbing of all Trace specs.                                      *)
(* The harness writes one JSON object per line to $TRACE_FILE; the Trace    *)
(* spec consumes one line per step and accumulates `fails`, the list of     *)
(* property-level clauses that were FALSE on that line; when the last line  *)
(* has been consumed the verdict is written to $OUT_FILE.  Trace specs are  *)
(* total: a failing line never blocks the rest of the trace.                *)
EXTENDS Naturals, Sequences, TLC, Json, IOUtils

TraceLog == ndJsonDeserialize(IOEnv.TRACE_FILE)
NLines   == Len(TraceLog)

Has(r, f) == f \in DOMAIN r

\* record a failed clause for line l
Fail(l, clause) == [line |-> l, clause |-> clause]

\* fails \o the clauses (given as <<name, holds>> pairs) that do not hold
AddFails(fails, l, pairs) ==
  LET bad == SelectSeq(pairs, LAMBDA p : ~p[2])
  IN  fails \o [i \in 1..Len(bad) |-> Fail(l, bad[i][1])]

WriteVerdict(n, fails) == JsonSerialize(IOEnv.OUT_FILE, [n |-> n, fails |-> fails])
=============================================================================
