------------------------------ MODULE LTensor ------------------------------
(***************************************************************************)
(* Labelled tensors with Gaussian-integer entries and the value they denote*)
(* - shared reference definitions (no variables).                          *)
(*                                                                         *)
(* Gaussian integer  : <<re, im>>                                          *)
(* tensor (from JSON): [inds  |-> <<"a", "b", ...>>,   labels, one per axis *)
(*                      shape |-> <<2, 3, ...>>,                            *)
(*                      data  |-> << <<re,im>>, ... >>]  flat, C order      *)
(* network           : a sequence of tensors                               *)
(*                                                                         *)
(* Denote(net, out) is the statement of C01 itself: for every assignment   *)
(* of the output labels, the sum over all assignments of every other label *)
(* of the product of the tensors' entries.  A label may sit on any number  *)
(* of axes (hyper index) and twice on one tensor (diagonal / trace).       *)
(* All enumeration is by mixed-radix counting so that TLC stays fast.      *)
(***************************************************************************)
EXTENDS Integers, Sequences, FiniteSets, TLC

(* ----------------------------- Gaussian integers ----------------------- *)
GZero == <<0, 0>>
GOne  == <<1, 0>>
GAdd(x, y) == <<x[1] + y[1], x[2] + y[2]>>
GSub(x, y) == <<x[1] - y[1], x[2] - y[2]>>
GMul(x, y) == <<x[1] * y[1] - x[2] * y[2], x[1] * y[2] + x[2] * y[1]>>
GConj(x)   == <<x[1], -x[2]>>
GNeg(x)    == <<-x[1], -x[2]>>
GScale(k, x) == <<k * x[1], k * x[2]>>
GAbs2(x)   == x[1] * x[1] + x[2] * x[2]

RECURSIVE Pow10(_)
Pow10(k) == IF k <= 0 THEN 1 ELSE 10 * Pow10(k - 1)

(* ----------------------------- sequences helpers ----------------------- *)
SeqRange(s) == {s[k] : k \in DOMAIN s}
\* balanced recursion keeps the evaluation depth logarithmic
RECURSIVE SumG(_, _, _)
SumG(F(_), lo, hi) == IF lo > hi THEN GZero
                      ELSE IF lo = hi THEN F(lo)
                      ELSE LET mid == (lo + hi) \div 2 IN GAdd(SumG(F, lo, mid), SumG(F, mid + 1, hi))
RECURSIVE ProdG(_, _, _)
ProdG(F(_), lo, hi) == IF lo > hi THEN GOne
                       ELSE IF lo = hi THEN F(lo)
                       ELSE LET mid == (lo + hi) \div 2 IN GMul(ProdG(F, lo, mid), ProdG(F, mid + 1, hi))
RECURSIVE ProdI(_, _, _)
ProdI(s, lo, hi) == IF lo > hi THEN 1 ELSE s[lo] * ProdI(s, lo + 1, hi)
RECURSIVE SumI(_, _, _)
SumI(F(_), lo, hi) == IF lo > hi THEN 0 ELSE F(lo) + SumI(F, lo + 1, hi)

\* position of x in sequence s (0 if absent)
PosIn(s, x) == IF \E k \in DOMAIN s : s[k] = x THEN CHOOSE k \in DOMAIN s : s[k] = x ELSE 0

\* a set of strings as a sequence in some fixed order
RECURSIVE SetToSeqL(_)
SetToSeqL(S) == IF S = {} THEN <<>> ELSE LET x == CHOOSE y \in S : TRUE IN <<x>> \o SetToSeqL(S \ {x})

(* ----------------------------- mixed radix ----------------------------- *)
\* digit k (1-based) of n in the mixed-radix system with digit sizes ds (C order: last digit fastest)
Digit(n, ds, k) == (n \div ProdI(ds, k + 1, Len(ds))) % ds[k]
Size(ds) == ProdI(ds, 1, Len(ds))
\* flat C-order offset of the multi-index dg (0-based digits) in an array of shape sh
Flat(dg, sh) == SumI(LAMBDA k : dg[k] * ProdI(sh, k + 1, Len(sh)), 1, Len(sh))

(* ----------------------------- networks -------------------------------- *)
NetLabels(net) == UNION {SeqRange(net[i].inds) : i \in DOMAIN net}
\* size of label x: read from the first axis that carries it
DimOf(net, x) ==
  LET i == CHOOSE j \in DOMAIN net : x \in SeqRange(net[j].inds)
  IN  net[i].shape[PosIn(net[i].inds, x)]
\* all axes carrying one label have one size
SizesConsistent(net) ==
  \A i, j \in DOMAIN net : \A a \in DOMAIN net[i].inds, b \in DOMAIN net[j].inds :
     net[i].inds[a] = net[j].inds[b] => net[i].shape[a] = net[j].shape[b]
\* number of axes carrying label x
Multiplicity(net, x) == SumI(LAMBDA i : Cardinality({k \in DOMAIN net[i].inds : net[i].inds[k] = x}), 1, Len(net))
OuterLabels(net) == {x \in NetLabels(net) : Multiplicity(net, x) = 1}

\* entry of tensor t under the assignment given by digits `o` of the labels `out` and digits `r` of `rest`
EntryOf(t, out, o, rest, r) ==
  LET dg == [k \in DOMAIN t.inds |->
               LET p == PosIn(out, t.inds[k]) IN
               IF p > 0 THEN o[p] ELSE r[PosIn(rest, t.inds[k])]]
  IN  t.data[Flat(dg, t.shape) + 1]

\* Denote as a flat (C order over `out`) sequence of Gaussian integers
Denote(net, out) ==
  LET rest  == SetToSeqL(NetLabels(net) \ SeqRange(out))
      dsO   == [k \in DOMAIN out  |-> DimOf(net, out[k])]
      dsR   == [k \in DOMAIN rest |-> DimOf(net, rest[k])]
      nO    == Size(dsO)
      nR    == Size(dsR)
      term(no, nr) ==
        LET o == [k \in DOMAIN out  |-> Digit(no, dsO, k)]
            r == [k \in DOMAIN rest |-> Digit(nr, dsR, k)]
        IN  ProdG(LAMBDA i : EntryOf(net[i], out, o, rest, r), 1, Len(net))
  IN  [no1 \in 1..nO |-> SumG(LAMBDA nr : term(no1 - 1, nr), 0, nR - 1)]

\* scalar value (no output labels)
DenoteScalar(net) == Denote(net, <<>>)[1]

(* ----------------------------- dense linear algebra -------------------- *)
\* matrices as [rows, cols, data (flat C order)], vectors as sequences of Gaussian integers
MatEntry(M, i, j) == M.data[(i - 1) * M.cols + j]
MatVec(M, v) == [i \in 1..M.rows |-> SumG(LAMBDA j : GMul(MatEntry(M, i, j), v[j]), 1, M.cols)]
MatMul(A, B) == [rows |-> A.rows, cols |-> B.cols,
                 data |-> [n \in 1..(A.rows * B.cols) |->
                            LET i == ((n - 1) \div B.cols) + 1
                                j == ((n - 1) % B.cols) + 1
                            IN SumG(LAMBDA k : GMul(MatEntry(A, i, k), MatEntry(B, k, j)), 1, A.cols)]]
Dagger(M) == [rows |-> M.cols, cols |-> M.rows,
              data |-> [n \in 1..(M.rows * M.cols) |->
                         LET i == ((n - 1) \div M.rows) + 1
                             j == ((n - 1) % M.rows) + 1
                         IN GConj(MatEntry(M, j, i))]]
Transpose(M) == [rows |-> M.cols, cols |-> M.rows,
                 data |-> [n \in 1..(M.rows * M.cols) |->
                            LET i == ((n - 1) \div M.rows) + 1
                                j == ((n - 1) % M.rows) + 1
                            IN MatEntry(M, j, i)]]
Inner(u, v) == SumG(LAMBDA k : GMul(GConj(u[k]), v[k]), 1, Len(u))     \* <u|v>
Norm2(v) == Inner(v, v)[1]

\* G acting on the subsystems `sites` (1-based positions, in the order given: the first factor of G acts
\* on sites[1], ...) of a composite system with subsystem sizes `dims`, identity elsewhere:
\* Embed(G, dims, sites)[row, col]
EmbedEntry(G, dims, sites, row, col) ==
  LET dr == [k \in DOMAIN dims |-> Digit(row, dims, k)]
      dc == [k \in DOMAIN dims |-> Digit(col, dims, k)]
      gd == [k \in DOMAIN sites |-> dims[sites[k]]]
      gr == Flat([k \in DOMAIN sites |-> dr[sites[k]]], gd)
      gc == Flat([k \in DOMAIN sites |-> dc[sites[k]]], gd)
      others == \A k \in DOMAIN dims : (k \notin SeqRange(sites)) => dr[k] = dc[k]
  IN  IF others THEN MatEntry(G, gr + 1, gc + 1) ELSE GZero
EmbedVec(G, dims, sites, v) ==
  [i \in 1..Size(dims) |-> SumG(LAMBDA j : GMul(EmbedEntry(G, dims, sites, i - 1, j - 1), v[j]), 1, Size(dims))]
EmbedMat(G, dims, sites) ==
  [rows |-> Size(dims), cols |-> Size(dims),
   data |-> [n \in 1..(Size(dims) * Size(dims)) |->
               EmbedEntry(G, dims, sites, (n - 1) \div Size(dims), (n - 1) % Size(dims))]]

\* exact rational comparison  a/b = c/d  for Gaussian-integer numerators and positive integer denominators
RatEq(a, b, c, d) == GScale(d, a) = GScale(b, c)
=============================================================================
