SPECIFICATION Spec
CONSTANTS
  TSeq <- TSeqC
  InitT <- InitTC
  Nets <- NetsQ
  Labels <- LabelsC
  FreshL <- FreshC
  Tags <- TagsC
  MaxDepth = 4
  Prefill = FALSE
  Record = FALSE
  PreFix = TRUE
  Repeats = TRUE
VIEW view
INVARIANT MapsExact
INVARIANT OwnersExact
INVARIANT HeldOnce
PROPERTY NoCaptureStep
CHECK_DEADLOCK FALSE
