------------------------------ MODULE C02_Defs ------------------------------
(***************************************************************************)
(* C02 - reference definitions: what the lookup structures of a network    *)
(* must be, as a function of nothing but the tensors it currently holds    *)
(* ("a fresh scan").  Used by the model (C02_Store) and by the trace spec. *)
(*                                                                         *)
(* A tensor is a record [inds : Seq(Label), tags : SUBSET Tag, ...].       *)
(* A network's tensor map is a function  tid -> tensor id ;  `T` maps      *)
(* tensor ids to tensor records.                                           *)
(***************************************************************************)
EXTENDS Integers, Sequences, FiniteSets, TLC

Range(f) == {f[x] : x \in DOMAIN f}

\* number of axes of sequence s carrying label x
CountIn(s, x) == Cardinality({k \in DOMAIN s : s[k] = x})

\* labels / tags present in a network
ScanLabels(tmap, T) == UNION {Range(T[tmap[i]].inds) : i \in DOMAIN tmap}
ScanTags(tmap, T)   == UNION {T[tmap[i]].tags : i \in DOMAIN tmap}

\* which tids carry a label / tag
ScanInd(tmap, T) == [x \in ScanLabels(tmap, T) |-> {i \in DOMAIN tmap : x \in Range(T[tmap[i]].inds)}]
ScanTag(tmap, T) == [g \in ScanTags(tmap, T)   |-> {i \in DOMAIN tmap : g \in T[tmap[i]].tags}]

\* multiplicity of a label over all axes of all tensors of the network
RECURSIVE SumOver(_, _)
SumOver(S, f) == IF S = {} THEN 0 ELSE LET x == CHOOSE y \in S : TRUE IN f[x] + SumOver(S \ {x}, f)
Mult(tmap, T, x) == SumOver(DOMAIN tmap, [i \in DOMAIN tmap |-> CountIn(T[tmap[i]].inds, x)])

\* inner = summed when the network is contracted = appears on two or more axes; outer = exactly one
ScanInner(tmap, T) == {x \in ScanLabels(tmap, T) : Mult(tmap, T, x) >= 2}
ScanOuter(tmap, T) == {x \in ScanLabels(tmap, T) : Mult(tmap, T, x) = 1}

\* ---- the clauses of the property, for one network given as a record
\*      [tmap, im (label -> set of tids), tm (tag -> set of tids), inner, outer]
IndMapExact(n, T)   == n.im = ScanInd(n.tmap, T)
TagMapExact(n, T)   == n.tm = ScanTag(n.tmap, T)
InnerOuterExact(n, T) == n.inner = ScanInner(n.tmap, T) /\ n.outer = ScanOuter(n.tmap, T)
MapsExactOne(n, T)  == IndMapExact(n, T) /\ TagMapExact(n, T) /\ InnerOuterExact(n, T)

\* owners: own[t] is the set of <<net, tid>> a tensor notifies; N the live networks (net id -> record)
OwnersScan(t, N) ==
  UNION { {<<n, i>> : i \in {j \in DOMAIN N[n].tmap : N[n].tmap[j] = t}} : n \in DOMAIN N }
OwnersExactOne(t, ownT, N) == ownT = OwnersScan(t, N)

\* sizes agree across tensors sharing a label (shape given per tensor as a sequence parallel to inds)
SizesAgreeOne(n, T) ==
  \A i, j \in DOMAIN n.tmap : \A a \in DOMAIN T[n.tmap[i]].inds, b \in DOMAIN T[n.tmap[j]].inds :
      T[n.tmap[i]].inds[a] = T[n.tmap[j]].inds[b] => T[n.tmap[i]].shape[a] = T[n.tmap[j]].shape[b]

\* selection by tags: which in {"all","any"}
SelectTags(n, T, tags, which) ==
  IF which = "all" THEN {i \in DOMAIN n.tmap : tags \subseteq T[n.tmap[i]].tags}
                   ELSE {i \in DOMAIN n.tmap : tags \cap T[n.tmap[i]].tags # {}}
SelectInds(n, T, labs) == {i \in DOMAIN n.tmap : labs \cap Range(T[n.tmap[i]].inds) # {}}

\* ---- combining A and B into C (projections before / after)
LabelsOf(n)  == DOMAIN n.im
CountOf(n, T, x) == Mult(n.tmap, T, x)
\* "never makes two previously distinct bonds coincide, never renames an outer label":
\*  every label that is not a bond of both sides keeps its name and its multiplicities add up;
\*  a label that is a bond on both sides keeps A's occurrences only, B's go to labels that are new.
NoCapture(A, TA, B, TB, C, TC) ==
  LET clash == ScanInner(A.tmap, TA) \cap ScanInner(B.tmap, TB)
      known == ScanLabels(A.tmap, TA) \cup ScanLabels(B.tmap, TB)
      cnt(n, T, x) == IF x \in ScanLabels(n.tmap, T) THEN Mult(n.tmap, T, x) ELSE 0
  IN  /\ \A x \in known \ clash : cnt(C, TC, x) = cnt(A, TA, x) + cnt(B, TB, x)
      /\ \A x \in clash : cnt(C, TC, x) = cnt(A, TA, x)
      /\ Cardinality(ScanLabels(C.tmap, TC) \ known) = Cardinality(clash)
      /\ Cardinality(DOMAIN C.tmap) = Cardinality(DOMAIN A.tmap) + Cardinality(DOMAIN B.tmap)
=============================================================================
