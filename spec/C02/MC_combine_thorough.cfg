SPECIFICATION Spec
CONSTANTS
  TSeq <- TSeqC
  InitT <- InitTC
  Nets <- NetsT
  Labels <- LabelsC
  FreshL <- FreshC
  Tags <- TagsC
  MaxDepth = 3
  Prefill = TRUE
  Record = FALSE
  PreFix = FALSE
  Repeats = FALSE
VIEW view
INVARIANT MapsExact
INVARIANT OwnersExact
INVARIANT HeldOnce
PROPERTY NoCaptureStep
CHECK_DEADLOCK FALSE
