----------------------------- MODULE C02_Trace -----------------------------
(***************************************************************************)
(* Trace spec for C02.  Each record is the projection of the real quimb    *)
(* objects after one public operation: every live network the driver holds *)
(* (tensor_map, ind_map, tag_map, inner, outer) and every tensor object it  *)
(* tracks (inds, tags, shape, resolved live owners).  The clauses are the   *)
(* property-level statements of C02_Defs, evaluated on the projection.      *)
(* State carried along a trace: the previous record (for combine events)    *)
(* and the labels that were ever carried twice by a single tensor.          *)
(***************************************************************************)
EXTENDS C02_Defs, TraceIO

VARIABLES l, fails, prev, repseen
tvars == <<l, fails, prev, repseen>>

SeqSet(s) == {s[k] : k \in DOMAIN s}

\* JSON -> the record shapes of C02_Defs
NetOf(j) == [tmap  |-> j.tmap,
             im    |-> [x \in DOMAIN j.im |-> SeqSet(j.im[x])],
             tm    |-> [g \in DOMAIN j.tm |-> SeqSet(j.tm[g])],
             inner |-> SeqSet(j.inner),
             outer |-> SeqSet(j.outer)]
TensOf(ln) == [t \in DOMAIN ln.tens |-> [inds |-> ln.tens[t].inds, tags |-> SeqSet(ln.tens[t].tags),
                                           shape |-> ln.tens[t].shape]]
NetsOf(ln) == [n \in DOMAIN ln.nets |-> NetOf(ln.nets[n])]

RepeatedNow(ln) == UNION {{x \in SeqSet(ln.tens[t].inds) : CountIn(ln.tens[t].inds, x) >= 2} : t \in DOMAIN ln.tens}

\* labels whose inner/outer classification differs from the fresh scan
Misclassified(n, T) ==
  ((n.inner \cup ScanInner(n.tmap, T)) \ (n.inner \cap ScanInner(n.tmap, T)))
  \cup ((n.outer \cup ScanOuter(n.tmap, T)) \ (n.outer \cap ScanOuter(n.tmap, T)))

Clauses(ln, pv, rs) ==
  LET T == TensOf(ln)
      N == NetsOf(ln)
      bad == UNION {Misclassified(N[n], T) : n \in DOMAIN N}
      rep == rs \cup RepeatedNow(ln)
  IN
  << <<"Returns", ln.exc = "">>,
     <<"IndMapExact", \A n \in DOMAIN N : IndMapExact(N[n], T)>>,
     <<"TagMapExact", \A n \in DOMAIN N : TagMapExact(N[n], T)>>,
     \* misclassification of a label that some tensor carries (or carried) twice is reported under its own name
     <<"InnerOuterExact", bad \subseteq rep>>,
     <<"InnerOuterExact.SelfTracedLabel", bad \cap rep = {}>>,
     <<"OwnersExact", \A t \in DOMAIN ln.tens :
           OwnersExactOne(t, {<<p[1], p[2]>> : p \in SeqSet(ln.tens[t].own)}, N)>>,
     \* (a view that shares tensors with a network which an algorithm then rewrites in place - replacing some of the
     \*  shared tensors by new objects and resizing others - is left with a mixture by its *holder*; the driver names
     \*  such views in `stale`: all their maps are still judged, only the size agreement is the holder's business)
     <<"SizesAgree", \A n \in DOMAIN N : (Has(ln, "stale") /\ n \in SeqSet(ln.stale)) \/ SizesAgreeOne(N[n], T)>>,
     <<"SelectionExact", \A k \in DOMAIN ln.sel :
           LET q == ln.sel[k] IN
           SeqSet(q.got) = (IF q.kind = "inds" THEN SelectInds(N[q.n], T, SeqSet(q.q))
                            ELSE SelectTags(N[q.n], T, SeqSet(q.q), q.kind))>>,
     \* (a label carried twice by one tensor has no agreed bond/outer status - KF-C02-1 - so combinations
     \*  of networks holding such tensors are not judged by this clause)
     <<"NoCapture", (Has(ln, "combine") /\ ln.exc = "" /\ RepeatedNow(pv) = {} /\ rs = {}) =>
           LET c == ln.combine IN
           NoCapture(NetOf(pv.nets[c.a]), TensOf(pv), NetOf(pv.nets[c.b]), TensOf(pv), N[c.c], T)>>,
     \* applying an operator network to a state lazily (tensors kept, labels joined) must rename the operator's private
     \* bonds away from the state's: in the networks the driver names in `nohyper` (built from hyper-free parts) every
     \* label sits on at most two axes - two previously distinct bonds never coincide
     <<"NoNewHyper", Has(ln, "nohyper") =>
           \A n \in SeqSet(ln.nohyper) : n \in DOMAIN N =>
              \A x \in DOMAIN N[n].im :
                 Cardinality({<<t, k>> \in UNION {{<<tt, kk>> : kk \in DOMAIN T[N[n].tmap[tt]].inds} : tt \in DOMAIN N[n].tmap} :
                                  T[N[n].tmap[t]].inds[k] = x}) <= 2>>,
     \* S->C replays carry the state of the implementation-shaped model: a mismatch is a drift note
     <<"NOTE:ModelDrift", Has(ln, "model") =>
           /\ \A n \in DOMAIN ln.model.nets : n \in DOMAIN N /\ NetOf(ln.model.nets[n]) = N[n]
           /\ \A t \in DOMAIN ln.model.tens :
                 /\ t \in DOMAIN T
                 /\ ln.model.tens[t].inds = T[t].inds
                 /\ SeqSet(ln.model.tens[t].tags) = T[t].tags
                 /\ SeqSet(ln.model.tens[t].own) = SeqSet(ln.tens[t].own)>> >>

TInit == l = 1 /\ fails = <<>> /\ prev = [tid |-> -1] /\ repseen = {}
TNext == /\ l <= NLines
         /\ LET ln == TraceLog[l]
                same == prev.tid = ln.tid
                rs == IF same THEN repseen ELSE {} IN
            /\ fails' = AddFails(fails, l, Clauses(ln, prev, rs))
            /\ repseen' = rs \cup RepeatedNow(ln)
            /\ prev' = ln
         /\ l' = l + 1
TSpec == TInit /\ [][TNext]_tvars
Done == l = NLines + 1 => WriteVerdict(l - 1, fails)
=============================================================================
