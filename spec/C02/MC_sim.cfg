SPECIFICATION Spec
CONSTANTS
  TSeq <- TSeqC
  InitT <- InitTC
  Nets <- NetsT
  Labels <- LabelsC
  FreshL <- FreshC
  Tags <- TagsC
  MaxDepth = 12
  Prefill = FALSE
  Record = TRUE
  PreFix = FALSE
  Repeats = FALSE
INVARIANT MapsExact
INVARIANT OwnersExact
INVARIANT EmitJson
CHECK_DEADLOCK FALSE
