SPECIFICATION Spec
CONSTANTS
  TSeq <- TSeqC
  InitT <- InitTC
  Nets <- NetsQ
  Labels <- LabelsC
  FreshL <- FreshC
  Tags <- TagsC
  MaxDepth = 5
  Record = FALSE
  PreFix = FALSE
  Repeats = FALSE
VIEW view
INVARIANT MapsExact
INVARIANT OwnersExact
INVARIANT HeldOnce
CHECK_DEADLOCK FALSE
