SPECIFICATION Spec
CONSTANTS
  TSeq <- TSeqC
  InitT <- InitTC
  Nets <- NetsQ
  Labels <- LabelsC
  FreshL <- FreshC
  Tags <- TagsC
  MaxDepth = 4
  Record = FALSE
  PreFix = FALSE
  Repeats = TRUE
VIEW view
INVARIANT MapsExact
INVARIANT OwnersExact
INVARIANT HeldOnce
CHECK_DEADLOCK FALSE
