------------------------------ MODULE C02_Store ------------------------------
(***************************************************************************)
(* C02 - implementation-shaped model of quimb's TensorNetwork store:       *)
(* tensor_map / ind_map / tag_map / _inner_inds / _outer_inds / _tid_counter*)
(* and Tensor._owners, as maintained by _link_* / _unlink_* /               *)
(* _modify_tensor_* / add_tensor / add_tensor_network / pop_tensor / the    *)
(* copy constructor, at the pinned commit (+ the "fix:" commit that drops a *)
(* deleted label from the inner set).  TLC checks that every history of     *)
(* these operations keeps the maps equal to a fresh scan (C02_Defs).        *)
(***************************************************************************)
EXTENDS C02_Defs, SequencesExt, Json

CONSTANTS TSeq,       \* sequence of tensor objects (strings); unborn objects are used in this order
          InitT,      \* <<t1, t2, t3>> initially existing objects
          Nets,       \* sequence of network names, created in this order
          Labels,     \* user labels
          FreshL,     \* sequence of machine generated labels (rand_uuid), used in order
          Tags,
          MaxDepth,
          Prefill,    \* TRUE: start with two populated networks (n1 holds t1, n2 holds t2 and t3) so that the
                      \*       combining actions are reached within a small depth
          Record,     \* TRUE: keep the history variable `hist` (simulation for replay only)
          PreFix,     \* TRUE: _unlink_inds as before the fix (self-test, must violate MapsExact)
          Repeats   \* TRUE: allow renaming that creates or moves a label carried twice by one tensor
                      \*       (known finding KF-C02-1: the owners are told about label *sets*, so a change of
                      \*        multiplicity inside one tensor is invisible; the main configuration excludes it)

VARIABLES tens,   \* tens[t] = [born, inds, tags]
          nets,   \* nets[n] = [alive, tmap, im, tm, inner, outer, ctr]
          own,    \* own[t] = set of <<n, tid>>
          nfresh, \* number of fresh labels used
          depth,
          act,    \* last action (name + arguments); hidden by the VIEW
          hist    \* Record = TRUE: the behaviour so far as a sequence of JSON-able states (for replay)

vars == <<tens, nets, own, nfresh, depth, act, hist>>
view == <<tens, nets, own, nfresh, depth>>

NetSet == Range(Nets)
TObjs == Range(TSeq)
FirstUnbornIn(tf) == TSeq[CHOOSE k \in DOMAIN TSeq : ~tf[TSeq[k]].born /\ \A j \in DOMAIN TSeq : ~tf[TSeq[j]].born => k <= j]
EmptyF == [x \in {} |-> {}]
EmptyNet == [alive |-> FALSE, tmap |-> <<>>, im |-> EmptyF, tm |-> EmptyF, inner |-> {}, outer |-> {}, ctr |-> 0]
Drop(f, k) == [x \in DOMAIN f \ {k} |-> f[x]]

(* ------------------------- transcription of the helpers ------------------ *)
LinkInd1(n, x, tid) ==
  IF x \in DOMAIN n.im
  THEN [n EXCEPT !.im[x] = @ \cup {tid}, !.outer = @ \ {x}, !.inner = @ \cup {x}]
  ELSE [n EXCEPT !.im = @ @@ (x :> {tid}), !.outer = @ \cup {x}]

UnlinkInd1(n, x, tid) ==
  IF x \notin DOMAIN n.im THEN n            \* KeyError -> pass (second occurrence of a repeated label)
  ELSE LET rest == n.im[x] \ {tid} IN
       IF rest = {}
       THEN [n EXCEPT !.im = Drop(@, x), !.outer = @ \ {x},
                      !.inner = IF PreFix THEN @ ELSE @ \ {x}]
       ELSE IF Cardinality(rest) = 1
            THEN [n EXCEPT !.im[x] = rest, !.inner = @ \ {x}, !.outer = @ \cup {x}]
            ELSE [n EXCEPT !.im[x] = rest]

LinkTag1(n, g, tid) ==
  IF g \in DOMAIN n.tm THEN [n EXCEPT !.tm[g] = @ \cup {tid}] ELSE [n EXCEPT !.tm = @ @@ (g :> {tid})]
UnlinkTag1(n, g, tid) ==
  IF g \notin DOMAIN n.tm THEN n
  ELSE LET rest == n.tm[g] \ {tid} IN
       IF rest = {} THEN [n EXCEPT !.tm = Drop(@, g)] ELSE [n EXCEPT !.tm[g] = rest]

\* iterate over a sequence (tuple of inds, repeats included) or over a set (oset difference)
LinkIndsSeq(n, s, tid)   == FoldLeft(LAMBDA acc, x : LinkInd1(acc, x, tid), n, s)
UnlinkIndsSeq(n, s, tid) == FoldLeft(LAMBDA acc, x : UnlinkInd1(acc, x, tid), n, s)
RECURSIVE FoldS(_, _, _)
FoldS(Op(_, _), acc, S) == IF S = {} THEN acc ELSE LET x == CHOOSE y \in S : TRUE IN FoldS(Op, Op(acc, x), S \ {x})
LinkIndsSet(n, S, tid)   == FoldS(LAMBDA acc, x : LinkInd1(acc, x, tid), n, S)
UnlinkIndsSet(n, S, tid) == FoldS(LAMBDA acc, x : UnlinkInd1(acc, x, tid), n, S)
LinkTagsSet(n, S, tid)   == FoldS(LAMBDA acc, x : LinkTag1(acc, x, tid), n, S)
UnlinkTagsSet(n, S, tid) == FoldS(LAMBDA acc, x : UnlinkTag1(acc, x, tid), n, S)

\* _next_tid
RECURSIVE NextTid(_, _)
NextTid(tmap, c) == IF c \in DOMAIN tmap THEN NextTid(tmap, c + 1) ELSE c

\* add_tensor(T, tid=want) on network record n, for an object t that is already "the" object to store
AddObj(n, t, tdef, want) ==
  LET c   == IF want = -1 \/ want \in DOMAIN n.tmap THEN NextTid(n.tmap, n.ctr) ELSE n.ctr
      tid == IF want = -1 \/ want \in DOMAIN n.tmap THEN c ELSE want
      n1  == [n EXCEPT !.tmap = (tid :> t) @@ @, !.ctr = c]
      n2  == LinkTagsSet(n1, tdef.tags, tid)
  IN  <<LinkIndsSeq(n2, tdef.inds, tid), tid>>

Unborn == {t \in TObjs : ~tens[t].born}
Born   == {t \in TObjs : tens[t].born}
Alive  == {n \in NetSet : nets[n].alive}
Holds(n, t) == t \in Range(nets[n].tmap)

\* projection of a model state in the format of the trace records (S->C replay)
NetJson(nn) == [tmap |-> [i \in {ToString(k) : k \in DOMAIN nn.tmap} |-> nn.tmap[CHOOSE k \in DOMAIN nn.tmap : ToString(k) = i]],
                im |-> [x \in DOMAIN nn.im |-> {ToString(k) : k \in nn.im[x]}],
                tm |-> [g \in DOMAIN nn.tm |-> {ToString(k) : k \in nn.tm[g]}],
                inner |-> nn.inner, outer |-> nn.outer]
StateJson(d, a, ns, ts, ow) ==
  [depth |-> d, act |-> a,
   nets |-> [n \in {m \in NetSet : ns[m].alive} |-> NetJson(ns[n])],
   tens |-> [t \in {u \in TObjs : ts[u].born} |->
               [inds |-> ts[t].inds, tags |-> ts[t].tags, own |-> {<<p[1], ToString(p[2])>> : p \in ow[t]}]]]

(* ------------------------------ actions ---------------------------------- *)
Bump(a) == /\ depth' = depth + 1 /\ act' = a /\ depth < MaxDepth
           /\ hist' = IF Record THEN Append(hist, StateJson(depth + 1, a, nets', tens', own')) ELSE hist

\* tn = TensorNetwork([])
NewNet(n) ==
  /\ ~nets[n].alive /\ nets[n].ctr = 0 /\ nets[n].tmap = <<>>

  /\ nets' = [nets EXCEPT ![n] = [EmptyNet EXCEPT !.alive = TRUE]]
  /\ UNCHANGED <<tens, own, nfresh>>
  /\ Bump([op |-> "new", n |-> n])

\* tn |= t (virtual) / tn &= t (copy)
AddTensor(n, t, virtual) ==
  /\ nets[n].alive /\ tens[t].born /\ ~Holds(n, t)
  /\ IF virtual
     THEN LET r == AddObj(nets[n], t, tens[t], -1) IN
          /\ nets' = [nets EXCEPT ![n] = r[1]]
          /\ own'  = [own EXCEPT ![t] = @ \cup {<<n, r[2]>>}]
          /\ tens' = tens
          /\ Bump([op |-> "add", n |-> n, t |-> t, virtual |-> TRUE, copy |-> t, tid |-> r[2]])
     ELSE /\ Unborn # {}
          /\ LET u == FirstUnbornIn(tens)
                 r == AddObj(nets[n], u, tens[t], -1) IN
             /\ nets' = [nets EXCEPT ![n] = r[1]]
             /\ own'  = [own EXCEPT ![u] = {<<n, r[2]>>}]
             /\ tens' = [tens EXCEPT ![u] = [tens[t] EXCEPT !.born = TRUE]]
             /\ Bump([op |-> "add", n |-> n, t |-> t, virtual |-> FALSE, copy |-> u, tid |-> r[2]])
  /\ UNCHANGED nfresh

\* tn.pop_tensor(tid)
Pop(n, tid) ==
  /\ nets[n].alive /\ tid \in DOMAIN nets[n].tmap
  /\ LET t  == nets[n].tmap[tid]
         n1 == [nets[n] EXCEPT !.tmap = Drop(@, tid)]
         n2 == UnlinkTagsSet(n1, tens[t].tags, tid)
         n3 == UnlinkIndsSeq(n2, tens[t].inds, tid) IN
     /\ nets' = [nets EXCEPT ![n] = n3]
     /\ own'  = [own EXCEPT ![t] = {p \in @ : p[1] # n}]
     /\ UNCHANGED <<tens, nfresh>>
     /\ Bump([op |-> "pop", n |-> n, tid |-> tid, t |-> t])

\* the owners of t are told about a change of its label set  (Tensor.modify(inds=...))
NotifyInds(ns, t, oldS, newS) ==
  [n \in NetSet |->
     IF \E p \in own[t] : p[1] = n
     THEN LET tid == (CHOOSE p \in own[t] : p[1] = n)[2]
              n1  == UnlinkIndsSet(ns[n], oldS \ newS, tid)
          IN  LinkIndsSet(n1, newS \ oldS, tid)
     ELSE ns[n]]

Rename(s, x, y) == [k \in DOMAIN s |-> IF s[k] = x THEN y ELSE s[k]]

\* t.reindex_({x: y})
TReindex(t, x, y) ==
  /\ tens[t].born /\ x \in Range(tens[t].inds) /\ x # y
  /\ Repeats \/ (y \notin Range(tens[t].inds) /\ CountIn(tens[t].inds, x) = 1)
  /\ LET new == Rename(tens[t].inds, x, y) IN
     /\ nets' = IF Range(new) # Range(tens[t].inds)
                THEN NotifyInds(nets, t, Range(tens[t].inds), Range(new)) ELSE nets
     /\ tens' = [tens EXCEPT ![t].inds = new]
  /\ UNCHANGED <<own, nfresh>>
  /\ Bump([op |-> "treindex", t |-> t, x |-> x, y |-> y])

\* t.add_tag(g) / t.drop_tags(g)   (Tensor.modify(tags=...))
TRetag(t, g, add) ==
  /\ tens[t].born
  /\ IF add THEN g \notin tens[t].tags ELSE g \in tens[t].tags
  /\ LET old == tens[t].tags
         new == IF add THEN old \cup {g} ELSE old \ {g} IN
     /\ nets' = [n \in NetSet |->
                  IF \E p \in own[t] : p[1] = n
                  THEN LET tid == (CHOOSE p \in own[t] : p[1] = n)[2] IN
                       LinkTagsSet(UnlinkTagsSet(nets[n], old \ new, tid), new \ old, tid)
                  ELSE nets[n]]
     /\ tens' = [tens EXCEPT ![t].tags = new]
  /\ UNCHANGED <<own, nfresh>>
  /\ Bump([op |-> "tretag", t |-> t, g |-> g, add |-> add])

\* tn.reindex_({x: y}) : every tensor of tn carrying x is reindexed in place, one after the other
RECURSIVE NReindexLoop(_, _, _, _, _)
NReindexLoop(ns, ts, S, x, y) ==
  IF S = {} THEN <<ns, ts>>
  ELSE LET t == CHOOSE z \in S : TRUE
           new == Rename(ts[t].inds, x, y)
           ns1 == IF Range(new) # Range(ts[t].inds)
                  THEN [n \in NetSet |->
                         IF \E p \in own[t] : p[1] = n
                         THEN LET tid == (CHOOSE p \in own[t] : p[1] = n)[2] IN
                              LinkIndsSet(UnlinkIndsSet(ns[n], Range(ts[t].inds) \ Range(new), tid),
                                          Range(new) \ Range(ts[t].inds), tid)
                         ELSE ns[n]]
                  ELSE ns
       IN NReindexLoop(ns1, [ts EXCEPT ![t].inds = new], S \ {t}, x, y)

NReindex(n, x, y) ==
  /\ nets[n].alive /\ x \in DOMAIN nets[n].im /\ x # y
  /\ Repeats \/ \A i \in nets[n].im[x] : /\ y \notin Range(tens[nets[n].tmap[i]].inds)
                                             /\ CountIn(tens[nets[n].tmap[i]].inds, x) = 1
  /\ LET r == NReindexLoop(nets, tens, {nets[n].tmap[i] : i \in nets[n].im[x]}, x, y) IN
     nets' = r[1] /\ tens' = r[2]
  /\ UNCHANGED <<own, nfresh>>
  /\ Bump([op |-> "nreindex", n |-> n, x |-> x, y |-> y])

\* m = tn.copy(virtual=...)  (the copy constructor copies the maps, it does not rebuild them)
RECURSIVE CopyLoop(_, _, _, _, _)
CopyLoop(tids, src, ts, ow, acc) ==   \* acc = <<tmap, tens, own>> ; non-virtual copies consume unborn objects in order
  IF tids = {} THEN acc
  ELSE LET i == CHOOSE j \in tids : \A k \in tids : j <= k
           u == FirstUnbornIn(acc[2])
       IN CopyLoop(tids \ {i}, src, ts, ow,
                   <<(i :> u) @@ acc[1],
                     [acc[2] EXCEPT ![u] = [acc[2][src.tmap[i]] EXCEPT !.born = TRUE]],
                     acc[3]>>)

Copy(n, m, virtual) ==
  /\ nets[n].alive /\ ~nets[m].alive /\ nets[m].ctr = 0 /\ nets[m].tmap = <<>>
  /\ IF virtual
     THEN /\ nets' = [nets EXCEPT ![m] = nets[n]]
          /\ own'  = [t \in TObjs |-> own[t] \cup {<<m, i>> : i \in {j \in DOMAIN nets[n].tmap : nets[n].tmap[j] = t}}]
          /\ tens' = tens
     ELSE /\ Cardinality(Unborn) >= Cardinality(DOMAIN nets[n].tmap)
          /\ LET r == CopyLoop(DOMAIN nets[n].tmap, nets[n], tens, own, <<<<>>, tens, own>>) IN
             /\ nets' = [nets EXCEPT ![m] = [nets[n] EXCEPT !.tmap = r[1]]]
             /\ tens' = r[2]
             /\ own'  = [t \in TObjs |-> IF t \in Range(r[1]) THEN {<<m, i>> : i \in {j \in DOMAIN r[1] : r[1][j] = t}} ELSE own[t]]
  /\ UNCHANGED nfresh
  /\ Bump([op |-> "copy", n |-> n, m |-> m, virtual |-> virtual])

\* n |= m  (virtual in-place add of a network: clashing bonds of m are renamed in place on m's tensors)
RECURSIVE AddNetLoop(_, _, _, _, _, _)
AddNetLoop(tids, n, m, ns, ow, reind) ==   \* returns <<ns, ow>>
  IF tids = {} THEN <<ns, ow>>
  ELSE LET i == CHOOSE j \in tids : \A k \in tids : j <= k
           t == nets[m].tmap[i]
           r == AddObj(ns[n], t, [inds |-> [k \in DOMAIN tens[t].inds |-> IF tens[t].inds[k] \in DOMAIN reind THEN reind[tens[t].inds[k]] ELSE tens[t].inds[k]],
                                  tags |-> tens[t].tags], i)
       IN AddNetLoop(tids \ {i}, n, m, [ns EXCEPT ![n] = r[1]], [ow EXCEPT ![t] = @ \cup {<<n, r[2]>>}], reind)

AddNetVirtual(n, m) ==
  /\ n # m /\ nets[n].alive /\ nets[m].alive
  /\ \A t \in Range(nets[m].tmap) : ~Holds(n, t)
  /\ nets[n].inner \cap nets[m].inner = {}        \* (renaming of clashing bonds is exercised on the real code only)
  /\ LET r == AddNetLoop(DOMAIN nets[m].tmap, n, m, nets, own, <<>>) IN
     nets' = r[1] /\ own' = r[2]
  /\ UNCHANGED <<tens, nfresh>>
  /\ Bump([op |-> "addnet", n |-> n, m |-> m])

\* c = a & b  /  c = a | b : TensorNetwork((a, b), virtual=...) - a new network, the tensors of a then of b are
\* added (copied unless virtual); bonds of b that clash with bonds already in c are renamed to fresh labels
\* (on a copy of the tensor, or - virtual - in place on b's own tensor, which tells all its owners)
RECURSIVE CombineLoop(_, _, _, _, _, _, _, _)
CombineLoop(items, c, ns, ts, ow, reind, virtual, nf) ==
  \* items: sequence of <<source tensor, tid>> still to add; returns <<ns, ts, ow>>
  IF items = <<>> THEN <<ns, ts, ow>>
  ELSE LET t    == items[1][1]
           tid  == items[1][2]
           hit  == \E k \in DOMAIN ts[t].inds : ts[t].inds[k] \in DOMAIN reind
           newi == [k \in DOMAIN ts[t].inds |-> IF ts[t].inds[k] \in DOMAIN reind THEN reind[ts[t].inds[k]] ELSE ts[t].inds[k]]
       IN
       IF virtual
       THEN \* rename in place (owners are told), then share the object
            LET ns1 == IF hit
                       THEN [m \in NetSet |->
                              IF \E q \in ow[t] : q[1] = m
                              THEN LET qt == (CHOOSE q \in ow[t] : q[1] = m)[2] IN
                                   LinkIndsSet(UnlinkIndsSet(ns[m], Range(ts[t].inds) \ Range(newi), qt), Range(newi) \ Range(ts[t].inds), qt)
                              ELSE ns[m]]
                       ELSE ns
                ts1 == IF hit THEN [ts EXCEPT ![t].inds = newi] ELSE ts
                r   == AddObj(ns1[c], t, ts1[t], tid)
            IN CombineLoop(Tail(items), c, [ns1 EXCEPT ![c] = r[1]], ts1, [ow EXCEPT ![t] = @ \cup {<<c, r[2]>>}], reind, virtual, nf)
       ELSE \* copy (the copy carries the renamed labels)
            LET u   == FirstUnbornIn(ts)
                ts1 == [ts EXCEPT ![u] = [born |-> TRUE, inds |-> newi, tags |-> ts[t].tags]]
                r   == AddObj(ns[c], u, ts1[u], tid)
            IN CombineLoop(Tail(items), c, [ns EXCEPT ![c] = r[1]], ts1, [ow EXCEPT ![u] = {<<c, r[2]>>}], reind, virtual, nf)

\* tids of a network in increasing order, as <<tensor, tid>> items
RECURSIVE ItemsOf(_, _)
ItemsOf(tmap, S) == IF S = {} THEN <<>>
                    ELSE LET i == CHOOSE j \in S : \A k \in S : j <= k IN <<<<tmap[i], i>>>> \o ItemsOf(tmap, S \ {i})

Combine(a, b, c, virtual) ==
  /\ a # b /\ nets[a].alive /\ nets[b].alive
  /\ ~nets[c].alive /\ nets[c].ctr = 0 /\ nets[c].tmap = <<>>
  /\ DOMAIN nets[a].tmap # {} /\ DOMAIN nets[b].tmap # {}
  /\ Range(nets[a].tmap) \cap Range(nets[b].tmap) = {}         \* (no object would be held twice)
  /\ virtual \/ Cardinality(Unborn) >= Cardinality(DOMAIN nets[a].tmap) + Cardinality(DOMAIN nets[b].tmap)
  /\ LET c0    == [EmptyNet EXCEPT !.alive = TRUE]
         ns0   == [nets EXCEPT ![c] = c0]
         ra    == CombineLoop(ItemsOf(nets[a].tmap, DOMAIN nets[a].tmap), c, ns0, tens, own, <<>>, virtual, nfresh)
         clash == ra[1][c].inner \cap nets[b].inner
         k     == Cardinality(clash)
     IN
     /\ nfresh + k <= Len(FreshL)
     /\ LET cs    == ItemsOf([x \in clash |-> x], {})  \* (unused)
            order == CHOOSE f \in [1..k -> clash] : \A i, j \in 1..k : i # j => f[i] # f[j]
            reind == [x \in clash |-> FreshL[nfresh + (CHOOSE i \in 1..k : order[i] = x)]]
            rb    == CombineLoop(ItemsOf(nets[b].tmap, DOMAIN nets[b].tmap), c, ra[1], ra[2], ra[3], reind, virtual, nfresh)
        IN /\ nets' = rb[1] /\ tens' = rb[2] /\ own' = rb[3]
           /\ nfresh' = nfresh + k
  /\ Bump([op |-> "combine", a |-> a, b |-> b, c |-> c, virtual |-> virtual])

\* the last strong reference to a network is dropped
GC(n) ==
  /\ nets[n].alive
  /\ nets' = [nets EXCEPT ![n].alive = FALSE]
  /\ own'  = [t \in TObjs |-> {p \in own[t] : p[1] # n}]
  /\ UNCHANGED <<tens, nfresh>>
  /\ Bump([op |-> "gc", n |-> n])

InitInds == << {<<"a", "b">>} \cup (IF Repeats THEN {<<"a", "a">>} ELSE {<<"b">>}),
              {<<"b", "c">>, <<"a", "b">>}, {<<"c">>, <<"c", "a">>} >>

Init ==
  /\ \E i1 \in InitInds[1], i2 \in InitInds[2], i3 \in InitInds[3] :
       tens = [t \in TObjs |->
                 IF t = InitT[1] THEN [born |-> TRUE, inds |-> i1, tags |-> {"P"}]
                 ELSE IF t = InitT[2] THEN [born |-> TRUE, inds |-> i2, tags |-> {"P", "Q"}]
                 ELSE IF t = InitT[3] THEN [born |-> TRUE, inds |-> i3, tags |-> {}]
                 ELSE [born |-> FALSE, inds |-> <<>>, tags |-> {}]]
  /\ IF Prefill
     THEN LET e  == [EmptyNet EXCEPT !.alive = TRUE]
              r1 == AddObj(e, InitT[1], tens[InitT[1]], -1)
              r2 == AddObj(e, InitT[2], tens[InitT[2]], -1)
              r3 == AddObj(r2[1], InitT[3], tens[InitT[3]], -1) IN
          /\ nets = [n \in NetSet |-> IF n = Nets[1] THEN r1[1] ELSE IF n = Nets[2] THEN r3[1] ELSE EmptyNet]
          /\ own = [t \in TObjs |-> IF t = InitT[1] THEN {<<Nets[1], r1[2]>>}
                                   ELSE IF t = InitT[2] THEN {<<Nets[2], r2[2]>>}
                                   ELSE IF t = InitT[3] THEN {<<Nets[2], r3[2]>>} ELSE {}]
     ELSE /\ nets = [n \in NetSet |-> EmptyNet]
          /\ own = [t \in TObjs |-> {}]
  /\ nfresh = 0 /\ depth = 0 /\ act = [op |-> "init"]
  /\ hist = IF Record THEN <<StateJson(0, [op |-> "init"], nets, tens, own)>> ELSE <<>>

NewNetA    == \E n \in NetSet : NewNet(n)
AddTensorA == \E n \in NetSet, t \in TObjs, v \in BOOLEAN : AddTensor(n, t, v)
PopA       == \E n \in NetSet : \E tid \in DOMAIN nets[n].tmap : Pop(n, tid)
TReindexA  == \E t \in TObjs, x \in Labels, y \in Labels : TReindex(t, x, y)
TRetagA    == \E t \in TObjs, g \in Tags, add \in BOOLEAN : TRetag(t, g, add)
NReindexA  == \E n \in NetSet, x \in Labels, y \in Labels : NReindex(n, x, y)
CopyA      == \E n \in NetSet, m \in NetSet, v \in BOOLEAN : Copy(n, m, v)
AddNetA    == \E n \in NetSet, m \in NetSet : AddNetVirtual(n, m)
GCA        == \E n \in NetSet : GC(n)
CombineA   == \E a \in NetSet, b \in NetSet, c \in NetSet, v \in BOOLEAN : Combine(a, b, c, v)

Next == NewNetA \/ AddTensorA \/ PopA \/ TReindexA \/ TRetagA \/ NReindexA \/ CopyA \/ AddNetA \/ GCA \/ CombineA
Spec == Init /\ [][Next]_vars

\* a complete behaviour is printed when it reaches the depth bound (every prefix of it is replayed too)
EmitJson == depth = MaxDepth => PrintT(<<"QVJSON", ToJson(hist)>>)

(* ------------------------------ properties ------------------------------- *)
TDefs == [t \in Born |-> tens[t]]
LiveNets == [n \in Alive |-> nets[n]]
MapsExact   == \A n \in Alive : MapsExactOne(nets[n], tens)
OwnersExact == \A t \in Born : OwnersExactOne(t, own[t], LiveNets)
\* an object is held at most once per network (precondition of the owner registry, kept by the actions)
\* combining never makes two previously distinct bonds coincide and never renames an outer label:
\* in the state after a Combine step the new network satisfies C02_Defs!NoCapture w.r.t. the two sources before it
NoCaptureStep ==
  [][ (act'.op = "combine" /\ depth' = depth + 1) =>
        NoCapture(nets[act'.a], tens, nets[act'.b], tens, nets'[act'.c], tens') ]_vars
HeldOnce    == \A n \in Alive : \A i, j \in DOMAIN nets[n].tmap : nets[n].tmap[i] = nets[n].tmap[j] => i = j
=============================================================================
