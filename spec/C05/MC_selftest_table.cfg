SPECIFICATION Spec
CONSTANTS
  MaxVal = 1
  MaxLen = 1
  MaxBonds <- NoSet
  Renorms <- NoSet
  CutGrid <- NoCuts
  TableMethods <- Methods
  TableAbsorbs <- Absorbs
  Emit = FALSE
  PreFix = FALSE
INVARIANT TableSoundStrict
CHECK_DEADLOCK FALSE
