SPECIFICATION Spec
CONSTANTS
  MaxVal = 4
  MaxLen = 4
  MaxBonds <- MaxBondsThorough
  Renorms <- RenormsAll
  CutGrid <- CutGridThorough
  TableMethods <- Methods
  TableAbsorbs <- Absorbs
  Emit = FALSE
  PreFix = FALSE
INVARIANT KeptIsMinimal
INVARIANT NeverZeroNeverAboveCap
INVARIANT ErrorHonest
INVARIANT RenormLawAccel
INVARIANT RenormLawGeneric
INVARIANT PathsAgree
INVARIANT AcceptedReturns
INVARIANT TableSound
INVARIANT RejectsUndocumented
CHECK_DEADLOCK FALSE
