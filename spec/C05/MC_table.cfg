SPECIFICATION Spec
CONSTANTS
  MaxVal = 1
  MaxLen = 1
  MaxBonds <- NoSet
  Renorms <- NoSet
  CutGrid <- NoCuts
  TableMethods <- Methods
  TableAbsorbs <- Absorbs
  Emit = TRUE
  PreFix = FALSE
INVARIANT AcceptedReturns
INVARIANT TableSound
CHECK_DEADLOCK FALSE
