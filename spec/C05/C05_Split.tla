----------------------------- MODULE C05_Split -----------------------------
(***************************************************************************)
(* State machine for C05.  One behaviour = one call.  Two kinds of calls:  *)
(*                                                                         *)
(*  kind "trunc": the truncation of one spectrum.  The implementation      *)
(*    shaped part transcribes, at the pinned commit,                       *)
(*      - the generic `_trim_and_renorm_svd_result`            [Gen..]     *)
(*      - the accelerated `_compute_number_svals_to_keep_numba`,           *)
(*        `_trim_and_renorm_svd_result_numba`,                             *)
(*        `_compute_svals_renorm_factor_numba`                 [Nb..]      *)
(*    step by step (the accelerated reverse accumulation is one step per   *)
(*    loop iteration) and TLC checks that both deliver the reference Keep, *)
(*    Err2 and the renormalisation law of C05_Defs for every case.         *)
(*                                                                         *)
(*  kind "table": one (method, absorb, truncating?) combination going      *)
(*    through `parse_method_absorb`, `parse_split_opts`, the driver's own  *)
(*    acceptance of `absorb`, and `parse_split_left_right_isom` (the       *)
(*    isometry claim tensor_split attaches); TLC checks the outcome        *)
(*    against the documented table Accepts / Shape of C05_Defs.            *)
(*                                                                         *)
(* The generic renormalisation is transcribed as repaired by /repo commit   *)
(* b7293c30 (power = `renorm`, like the accelerated version); the pre-fix   *)
(* arithmetic survives only as the named action GenRenormDeviates, enabled  *)
(* by PreFix = TRUE in MC_selftest_renorm.cfg, which must fail.  The        *)
(* remaining known deviations of the dispatch (TableDeviation) are exempted *)
(* in the main configuration and not in MC_selftest_table.cfg (must fail).  *)
(***************************************************************************)
EXTENDS C05_Defs, Json

CONSTANTS MaxVal, MaxLen,     \* spectra: non-increasing sequences over 0..MaxVal, length 1..MaxLen
          MaxBonds,           \* set of bond caps (0 = none)
          Renorms,            \* subset of {0,1,2,3} (3 = True)
          CutGrid(_),         \* mode -> set of <<num, den>> cutoffs
          TableMethods, TableAbsorbs,
          Emit,               \* TRUE: print the table cases for the S->C replay (workers = 1)
          PreFix              \* TRUE: the generic renormalisation as it was before the "fix:" commit (self-test only)

VARIABLES kind, cs, pc, g, nb, dp
vars == <<kind, cs, pc, g, nb, dp>>

(* ------------------------------ cases ---------------------------------- *)
Spectra == {s \in UNION {[1..n -> 0..MaxVal] : n \in 1..MaxLen} : IsSpectrum(s) /\ s[1] >= 1}

TruncCaseOK(c) ==
  /\ c.cn > 0 => OffBoundary(c.s, c.mode, c.cn, c.cd)
  \* cutoff = 0 with renormalisation sends the code through the dynamic branch where an exactly zero
  \* value sits on the boundary of "> 0": excluded (boundary)
  /\ (c.cn = 0 /\ RenormPower(c.renorm, c.mode) > 0) => ~HasZero(c.s)

MkCase(s, m, q, b, r) == [s |-> s, mode |-> m, cn |-> q[1], cd |-> q[2], maxb |-> b, renorm |-> r]

TableCases == {[method |-> m, absorb |-> a, trunc |-> t] :
                 m \in TableMethods, a \in TableAbsorbs, t \in BOOLEAN}

NoF  == [q |-> 0, num |-> 0, den |-> 1]      \* no renormalisation applied
Crash == [q |-> -1, num |-> 0, den |-> 1]    \* the implementation raised
NoG  == [n |-> 0, f |-> NoF, err2 |-> 0]
NoNb == [i |-> 0, ssum |-> 0, n |-> 0, f |-> NoF, err2 |-> 0]
NoDp == [method |-> "", absorb |-> "", status |-> "", hasL |-> FALSE, hasS |-> FALSE, hasR |-> FALSE,
         claimL |-> FALSE, claimR |-> FALSE]

Init ==
  \/ /\ kind = "trunc" /\ pc = "t0"
     /\ \E s \in Spectra, m \in Modes, b \in MaxBonds, r \in Renorms :
          \E q \in CutGrid(m) : TruncCaseOK(MkCase(s, m, q, b, r)) /\ cs = MkCase(s, m, q, b, r)
     /\ g = NoG /\ nb = NoNb /\ dp = NoDp
  \/ /\ kind = "table" /\ cs \in TableCases /\ pc = "d0"
     /\ g = NoG /\ nb = NoNb
     /\ dp = [NoDp EXCEPT !.method = cs.method, !.absorb = cs.absorb]

(* -------- what the drivers receive (parse_split_opts) ------------------ *)
D   == Len(cs.s)
RP  == RenormPower(cs.renorm, cs.mode)     \* `renorm is True` -> _RENORM_LOOKUP.get(mode, 0)
Dyn == cs.cn > 0 \/ RP > 0                 \* `(cutoff > 0.0) or (renorm > 0)`
IsR == cs.mode \in {"rsum1", "rsum2"}

(* -------- generic: _trim_and_renorm_svd_result -------------------------- *)
GenCountVal ==
  IF Dyn THEN
    CASE cs.mode = "abs" -> Cardinality({i \in 1..D : cs.s[i] * cs.cd > cs.cn})
      [] cs.mode = "rel" -> Cardinality({i \in 1..D : cs.s[i] * cs.cd > cs.cn * cs.s[1]})
      [] OTHER ->
         LET p   == ModePow(cs.mode)
             tot == Tot(cs.s, p)
         IN  IF IsR
             THEN Cardinality({i \in 1..D : KeptP(cs.s, i, p) * cs.cd < tot * (cs.cd - cs.cn)}) + 1
             ELSE Cardinality({i \in 1..D : KeptP(cs.s, i, p) * cs.cd < tot * cs.cd - cs.cn}) + 1
  ELSE IF cs.maxb > 0 THEN cs.maxb ELSE D

GenCount == /\ kind = "trunc" /\ pc = "t0"
            /\ g' = [g EXCEPT !.n = GenCountVal]
            /\ pc' = "t1" /\ UNCHANGED <<kind, cs, nb, dp>>

\* n_chi = max(int(n_chi), 1); if max_bond > 0: n_chi = min(n_chi, max_bond)   (dynamic branch only)
GenCap == /\ kind = "trunc" /\ pc = "t1"
          /\ g' = [g EXCEPT !.n = IF Dyn
                                   THEN (IF cs.maxb > 0 THEN Min2(Max2(g.n, 1), cs.maxb) ELSE Max2(g.n, 1))
                                   ELSE g.n]
          /\ pc' = "t2" /\ UNCHANGED <<kind, cs, nb, dp>>

GenTruncates == g.n < D
\* before the fix the generic code renormalised with the power of the *cutoff mode* and had no `tot`
\* for abs/rel: different from the requested power `renorm` exactly here
GenDeviates == PreFix /\ GenTruncates /\ RP > 0 /\ (cs.mode \notin SumModes \/ ModePow(cs.mode) # RP)

\* if n_chi < d: ... if renorm > 0: rpow = renorm if renorm >= 2 else 1;
\*   s = s * (sum(sabs**rpow) / sum(sabs[:n_chi]**rpow)) ** (1 / rpow); error from sabs[n_chi:]
GenRenorm ==
  /\ kind = "trunc" /\ pc = "t2" /\ ~GenDeviates
  /\ LET q == IF RP >= 2 THEN RP ELSE 1
     IN  g' = [g EXCEPT !.n = Min2(g.n, D),
                        !.err2 = IF GenTruncates THEN DiscP(cs.s, g.n, 2) ELSE 0,
                        !.f = IF GenTruncates /\ RP > 0
                              THEN [q |-> q, num |-> Tot(cs.s, q), den |-> KeptP(cs.s, g.n, q)]
                              ELSE NoF]
  /\ pc' = "t3" /\ UNCHANGED <<kind, cs, nb, dp>>

\* named deviation (PreFix only): norm = (tot / csp[n_chi - 1]) ** (1 / pow) with pow of the cutoff mode
GenRenormDeviates ==
  /\ kind = "trunc" /\ pc = "t2" /\ GenDeviates
  /\ g' = [g EXCEPT !.n = Min2(g.n, D),
                    !.err2 = DiscP(cs.s, g.n, 2),
                    !.f = IF cs.mode \in SumModes
                          THEN [q |-> ModePow(cs.mode), num |-> Tot(cs.s, ModePow(cs.mode)),
                                den |-> KeptP(cs.s, g.n, ModePow(cs.mode))]
                          ELSE Crash]         \* UnboundLocalError: `tot`
  /\ pc' = "t3" /\ UNCHANGED <<kind, cs, nb, dp>>

(* -------- accelerated: the numba functions ------------------------------ *)
\* abs / rel: n_chi = np.sum(s > cutoff [* s[0]])
NbCountDirect ==
  /\ kind = "trunc" /\ pc = "t3" /\ Dyn /\ cs.mode \notin SumModes
  /\ nb' = [nb EXCEPT !.n = IF cs.mode = "abs"
                             THEN Cardinality({i \in 1..D : cs.s[i] * cs.cd > cs.cn})
                             ELSE Cardinality({i \in 1..D : cs.s[i] * cs.cd > cs.cn * cs.s[1]})]
  /\ pc' = "t5" /\ UNCHANGED <<kind, cs, g, dp>>

\* sum modes: n_chi = s.size; ssum = 0.0; for i in range(s.size - 1, -1, -1): ...
NbScanInit ==
  /\ kind = "trunc" /\ pc = "t3" /\ Dyn /\ cs.mode \in SumModes
  /\ nb' = [nb EXCEPT !.n = D, !.i = D, !.ssum = 0]
  /\ pc' = "t4" /\ UNCHANGED <<kind, cs, g, dp>>

\* target = cutoff [* np.sum(s**pow)], compared after multiplying through by cd
NbTarget == IF IsR THEN cs.cn * Tot(cs.s, ModePow(cs.mode)) ELSE cs.cn

\* one loop iteration: ssum += s[i]**pow; if ssum > target: break; n_chi -= 1
NbScanStep ==
  /\ kind = "trunc" /\ pc = "t4" /\ nb.i >= 1
  /\ LET ss == nb.ssum + IPow(cs.s[nb.i], ModePow(cs.mode))
     IN  IF ss * cs.cd > NbTarget
         THEN nb' = [nb EXCEPT !.ssum = ss, !.i = 0]                     \* break
         ELSE nb' = [nb EXCEPT !.ssum = ss, !.i = nb.i - 1, !.n = nb.n - 1]
  /\ UNCHANGED <<kind, cs, pc, g, dp>>

NbScanEnd ==
  /\ kind = "trunc" /\ pc = "t4" /\ nb.i = 0
  /\ pc' = "t5" /\ UNCHANGED <<kind, cs, g, nb, dp>>

\* return max(n_chi, 1); if max_bond > 0: n_chi = min(n_chi, max_bond)
NbCap ==
  /\ kind = "trunc" /\ pc = "t5"
  /\ nb' = [nb EXCEPT !.n = IF cs.maxb > 0 THEN Min2(Max2(nb.n, 1), cs.maxb) ELSE Max2(nb.n, 1)]
  /\ pc' = "t6" /\ UNCHANGED <<kind, cs, g, dp>>

\* elif (max_bond != -1) and (max_bond < s.shape[0]): static truncation
NbStatic ==
  /\ kind = "trunc" /\ pc = "t3" /\ ~Dyn
  /\ nb' = [nb EXCEPT !.n = IF cs.maxb > 0 /\ cs.maxb < D THEN cs.maxb ELSE D,
                      !.err2 = IF cs.maxb > 0 /\ cs.maxb < D THEN DiscP(cs.s, cs.maxb, 2) ELSE 0]
  /\ pc' = "done" /\ UNCHANGED <<kind, cs, g, dp>>

\* if n_chi < s.size: error; if renorm > 0: f = _compute_svals_renorm_factor_numba(sabs, n_chi, renorm)
\*   raise_power = renorm >= 2; f = (keep + lose) / keep; if raise_power: f **= 1 / renorm
NbRenorm ==
  /\ kind = "trunc" /\ pc = "t6"
  /\ LET q == IF RP >= 2 THEN RP ELSE 1
     IN  nb' = [nb EXCEPT !.n = Min2(nb.n, D),
                          !.err2 = IF nb.n < D THEN DiscP(cs.s, nb.n, 2) ELSE 0,
                          !.f = IF nb.n < D /\ RP > 0
                                THEN [q |-> q, num |-> Tot(cs.s, q), den |-> KeptP(cs.s, nb.n, q)]
                                ELSE NoF]
  /\ pc' = "done" /\ UNCHANGED <<kind, cs, g, dp>>

(* -------- dispatch: parse_method_absorb and friends -------------------- *)
NoSvalsNeeded == {"right", "lorthog", "rfactor", "left", "lfactor", "rorthog"}

\* method == "auto": truncation -> svd; else absorb auto -> svd (with a warning);
\* else qr when the form needs no singular values, svd otherwise
ParseAuto ==
  /\ kind = "table" /\ pc = "d0"
  /\ dp' = [dp EXCEPT !.method =
              IF dp.method # "auto" THEN dp.method
              ELSE IF cs.trunc THEN "svd"
              ELSE IF dp.absorb = "auto" THEN "svd"
              ELSE IF Canon(dp.absorb) \in NoSvalsNeeded THEN "qr" ELSE "svd"]
  /\ pc' = "d1" /\ UNCHANGED <<kind, cs, g, nb>>

\* "lq..." is "qr..." with default absorb 'left'
ParseLq ==
  /\ kind = "table" /\ pc = "d1"
  /\ dp' = IF dp.method \in {"lq", "lq:cholesky"}
           THEN [dp EXCEPT !.method = IF dp.method = "lq" THEN "qr" ELSE "qr:cholesky",
                           !.absorb = IF dp.absorb = "auto" THEN "left" ELSE dp.absorb]
           ELSE dp
  /\ pc' = "d2" /\ UNCHANGED <<kind, cs, g, nb>>

\* _DEFAULT_ABSORB as registered at the pinned commit
ImplDefault(m) == IF m \in {"qr", "qr:cholesky", "polar_right"} THEN "right"
                  ELSE IF m = "polar_left" THEN "left" ELSE "both"

ResolveAbsorb ==
  /\ kind = "table" /\ pc = "d2"
  /\ dp' = [dp EXCEPT !.absorb = IF dp.absorb = "auto" THEN ImplDefault(dp.method) ELSE Canon(dp.absorb)]
  /\ pc' = "d3" /\ UNCHANGED <<kind, cs, g, nb>>

HasAbsorbParam(m) == m \notin PolarMethods

\* parse_split_opts: "You can't return the singular values separately when ..."
InjectOpts ==
  /\ kind = "table" /\ pc = "d3"
  /\ dp' = [dp EXCEPT !.status = IF ~HasAbsorbParam(dp.method) /\ dp.absorb = "none"
                                  THEN "ValueError" ELSE "ok"]
  /\ pc' = "d4" /\ UNCHANGED <<kind, cs, g, nb>>

\* what each driver does with the absorb code it receives (accelerated numpy path)
Driver ==
  /\ kind = "table" /\ pc = "d4"
  /\ LET m == dp.method
         a == dp.absorb
         f == FormOf(a)
     IN  dp' =
         IF dp.status # "ok" THEN dp
         ELSE IF m \in (ValueMethods \ {"auto"})
           THEN [dp EXCEPT !.hasL = f.hasL, !.hasS = f.hasS, !.hasR = f.hasR]
         ELSE IF m \in {"qr", "qr:cholesky"}
           THEN IF a \in NoSvalsNeeded
                THEN [dp EXCEPT !.hasL = f.hasL, !.hasS = FALSE, !.hasR = f.hasR]
                ELSE [dp EXCEPT !.status = "ValueError"]
         ELSE IF m = "cholesky"
           \* cholesky_regularized(_numpy): both -> (L, L^H), lsqrt -> L, rsqrt -> L^H, anything else raises
           THEN IF a \in CholeskyForms
                THEN [dp EXCEPT !.hasL = a # "rsqrt", !.hasS = FALSE, !.hasR = a # "lsqrt"]
                ELSE [dp EXCEPT !.status = "ValueError"]
         ELSE IF m = "lu"
           THEN IF a = "both" THEN [dp EXCEPT !.hasL = TRUE, !.hasR = TRUE]
                ELSE [dp EXCEPT !.status = "NotImplementedError"]
         ELSE \* polar: no absorb option, always (left, None, right)
              [dp EXCEPT !.hasL = TRUE, !.hasR = TRUE]
  /\ pc' = "d5" /\ UNCHANGED <<kind, cs, g, nb>>

\* parse_split_left_right_isom(method, absorb): from the absorb code alone
ClaimIsometry ==
  /\ kind = "table" /\ pc = "d5"
  /\ dp' = [dp EXCEPT !.claimL = dp.status = "ok" /\ dp.hasL /\ dp.absorb \in {"none", "right", "lorthog"},
                      !.claimR = dp.status = "ok" /\ dp.hasR /\ dp.absorb \in {"none", "left", "rorthog"}]
  /\ IF Emit
     THEN PrintT(<<"QVJSON", ToJson([method |-> cs.method, absorb |-> cs.absorb, trunc |-> cs.trunc,
                                     accepts |-> Accepts(cs.method, cs.absorb)])>>)
     ELSE TRUE
  /\ pc' = "done" /\ UNCHANGED <<kind, cs, g, nb>>

Next == \/ GenCount \/ GenCap \/ GenRenorm \/ GenRenormDeviates
        \/ NbCountDirect \/ NbScanInit \/ NbScanStep \/ NbScanEnd \/ NbCap \/ NbStatic \/ NbRenorm
        \/ ParseAuto \/ ParseLq \/ ResolveAbsorb \/ InjectOpts \/ Driver \/ ClaimIsometry

Spec == Init /\ [][Next]_vars

(* ------------------------------ properties ----------------------------- *)
DoneT == kind = "trunc" /\ pc = "done"
DoneD == kind = "table" /\ pc = "done"
Ref   == Keep(cs.s, cs.mode, cs.cn, cs.cd, cs.maxb)

\* the kept count of both implementations is the least one satisfying the documented rule, capped
KeptIsMinimal == DoneT => g.n = Ref /\ nb.n = Ref
NeverZeroNeverAboveCap ==
  DoneT => /\ g.n >= 1 /\ nb.n >= 1
           /\ cs.maxb > 0 => (g.n <= cs.maxb /\ nb.n <= cs.maxb)
\* the reported error is the discarded weight
ErrorHonest == DoneT => g.err2 = Err2(cs.s, Ref) /\ nb.err2 = Err2(cs.s, Ref)

FactorOK(f, n) ==
  IF RP > 0 /\ n < D
  THEN f.q > 0 /\ FactorObeysLaw(cs.s, n, RP, f.q, f.num, f.den)
  ELSE f = NoF

RenormLawAccel == DoneT => FactorOK(nb.f, nb.n)
RenormLawGeneric == DoneT => FactorOK(g.f, g.n)
\* accelerated and generic agree on everything
PathsAgree == DoneT => g.n = nb.n /\ g.err2 = nb.err2 /\ g.f = nb.f

\* table: documented combinations are not rejected; what is returned has the documented form and
\* the isometry claim is sound
TableDeviation(m, a) == m \in PolarMethods /\ Canon(a) # "auto"

AcceptedReturns == DoneD /\ Accepts(cs.method, cs.absorb) => dp.status = "ok"

FormAndClaim(sh) ==
  /\ dp.hasL = sh.hasL /\ dp.hasS = sh.hasS /\ dp.hasR = sh.hasR
  /\ dp.claimL => sh.isoL
  /\ dp.claimR => sh.isoR

TableSound == DoneD /\ dp.status = "ok" /\ ~TableDeviation(cs.method, cs.absorb)
                => FormAndClaim(Shape(cs.method, cs.absorb))
TableSoundStrict == DoneD /\ dp.status = "ok" => FormAndClaim(Shape(cs.method, cs.absorb))
\* undocumented combinations are rejected rather than silently reinterpreted (except the recorded ones)
RejectsUndocumented == DoneD /\ ~Accepts(cs.method, cs.absorb) /\ ~TableDeviation(cs.method, cs.absorb)
                         => dp.status # "ok"
=============================================================================
