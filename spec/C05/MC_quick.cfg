SPECIFICATION Spec
CONSTANTS
  MaxVal = 3
  MaxLen = 3
  MaxBonds <- MaxBondsQuick
  Renorms <- RenormsAll
  CutGrid <- CutGridQuick
  TableMethods <- Methods
  TableAbsorbs <- Absorbs
  Emit = FALSE
  PreFix = FALSE
INVARIANT KeptIsMinimal
INVARIANT NeverZeroNeverAboveCap
INVARIANT ErrorHonest
INVARIANT RenormLawAccel
INVARIANT RenormLawGeneric
INVARIANT PathsAgree
INVARIANT AcceptedReturns
INVARIANT TableSound
INVARIANT RejectsUndocumented
CHECK_DEADLOCK FALSE
