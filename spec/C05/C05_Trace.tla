----------------------------- MODULE C05_Trace -----------------------------
(***************************************************************************)
(* Trace spec for C05: judges observations of the real array_split /       *)
(* tensor_split / Tensor.split with the reference definitions of C05_Defs. *)
(*                                                                         *)
(* One record = one call on an input whose spectrum `s` (integers, non     *)
(* increasing; absolute eigenvalues for the hermitian methods) is known by *)
(* construction.  All observed numbers are integers snapped by the driver  *)
(* (-1: not applicable / not measurable, -2: off the integer lattice).     *)
(*   ev = "split" : one call (method, absorb, path, dtype, shape, options) *)
(*   ev = "agree" : the observations of two implementations of the same    *)
(*                  method (accelerated / generic) on the same input       *)
(*   ev = "svals" : get='values' / array_svals                             *)
(***************************************************************************)
EXTENDS C05_Defs, TraceIO

VARIABLES l, fails
tvars == <<l, fails>>

\* ------------------------------------------------------------------ split
Sh(ln)   == Shape(ln.method, ln.absorb)
RPow_(ln) == RenormPower(ln.renorm, ln.mode)
IsSVD(ln) == ln.method \in SVDType
D(ln)    == Len(ln.s)

\* the number of values that must be kept
KExp(ln) == Keep(ln.s, ln.mode, ln.cn, ln.cd, ln.maxb)
Truncates(ln) == KExp(ln) < D(ln)

\* the harness only produces well formed cases (a failure here is a harness defect, exit 2)
WellFormed(ln) ==
  /\ IsSpectrum(ln.s)
  /\ ln.method \in Methods /\ ln.absorb \in Absorbs /\ ln.mode \in Modes
  /\ ln.cd > 0 /\ ln.cn >= 0 /\ ln.maxb >= 0 /\ ln.renorm \in 0..3
  /\ ln.cn > 0 => OffBoundary(ln.s, ln.mode, ln.cn, ln.cd)
  /\ D(ln) = Min2(ln.m, ln.n)

\* a documented combination on an input of the method's domain must return
Returns(ln) == Accepts(ln.method, ln.absorb) => ln.exc = ""

Ret(ln) == ln.exc = ""

\* outputs present are exactly those of the requested form
FormAsRequested(ln) ==
  Ret(ln) => /\ ln.hasL = Sh(ln).hasL /\ ln.hasS = Sh(ln).hasS /\ ln.hasR = Sh(ln).hasR

\* factors over the requested labels joined by one new bond (shapes, label order, fresh shared bond)
OneNewBond(ln) == Ret(ln) => ln.lab /\ ln.k >= 1

\* expected size of the new bond
BondExp(ln) ==
  IF IsSVD(ln) THEN KExp(ln)
  ELSE IF ln.method = "polar_right" THEN ln.n
  ELSE IF ln.method = "polar_left" THEN ln.m
  ELSE D(ln)

KeptIsMinimal(ln) ==
  Ret(ln) => IF ln.method = "lu" THEN ln.k <= D(ln) ELSE ln.k = BondExp(ln)

NeverZeroNeverAboveCap(ln) ==
  Ret(ln) => ln.k >= 1 /\ (ln.maxb > 0 => ln.k <= ln.maxb)

\* nothing of weight is lost and nothing is rescaled: the contraction must equal the input
Lossless(ln) == Err2(ln.s, Min2(BondExp(ln), D(ln))) = 0 /\ (RPow_(ln) = 0 \/ ~Truncates(ln))

ExactWhenUntruncated(ln) ==
  Ret(ln) /\ Lossless(ln) =>
     /\ (ln.hasL /\ ln.hasR) => ln.dq = 0
     /\ ln.fq = 0                          \* single factor forms: the factor reproduces the input's Gram / range

\* Eckart-Young on an integer spectrum: the distance to the (de-renormalised) product is the
\* discarded weight and its rank is the kept count
Exactish(ln) == ln.method \notin IterMethods \/ Lossless(ln)
BestApprox(ln) ==
  Ret(ln) /\ IsSVD(ln) /\ Exactish(ln) /\ ln.hasL /\ ln.hasR => ln.d2 = Err2(ln.s, KExp(ln)) /\ ln.rk

\* info['error'] is reported by svd / svd:eig and equals the actual Frobenius distance
ErrorHonest(ln) ==
  Ret(ln) /\ ln.method \in ReportsError /\ ln.winfo =>
     /\ ln.e2 = Err2(ln.s, KExp(ln))
     /\ (ln.hasL /\ ln.hasR /\ (RPow_(ln) = 0 \/ ~Truncates(ln))) => ln.e2 = ln.d2

\* where the values went: squared singular values of each output, s^0 / s^1 / s^2
PowSeq(s, k, p) == [i \in 1..k |-> IF p = 0 THEN 1 ELSE IF p = 1 THEN s[i] ELSE s[i] * s[i]]
ValuesWhereRequested(ln) ==
  Ret(ln) /\ ln.method # "lu" /\ Exactish(ln) /\ (RPow_(ln) = 0 \/ ~Truncates(ln)) /\ ln.k = BondExp(ln) /\ ln.k <= D(ln) =>
     /\ ln.hasL /\ Sh(ln).hasL /\ (Sh(ln).pL > 0 \/ ln.method \notin PolarMethods) => ln.svL2 = PowSeq(ln.s, ln.k, Sh(ln).pL)
     /\ ln.hasS /\ Sh(ln).hasS => ln.svS2 = PowSeq(ln.s, ln.k, 2)
     /\ ln.hasR /\ Sh(ln).hasR /\ (Sh(ln).pR > 0 \/ ln.method \notin PolarMethods) => ln.svR2 = PowSeq(ln.s, ln.k, Sh(ln).pR)

\* renormalisation: sum of kept'^p equals the sum of all^p for the requested power
RenormLaw(ln) ==
  Ret(ln) /\ IsSVD(ln) /\ Exactish(ln) /\ RPow_(ln) > 0 /\ Truncates(ln) /\ (ln.hasS \/ (ln.hasL /\ ln.hasR)) =>
     IF RPow_(ln) = 1 THEN ln.sum1 = Tot(ln.s, 1) ELSE ln.sum2 = Tot(ln.s, 2)

\* a factor the documentation calls isometric is isometric
\* (a polar factor U can only be an isometry on the side the shape allows: A = U P needs m >= n,
\*  A = P U needs m <= n; the other orientation is judged through the isometry *claim* only)
PolarOriented(ln) == /\ ln.method = "polar_right" => ln.m >= ln.n
                     /\ ln.method = "polar_left" => ln.m <= ln.n
DocIsometryTrue(ln) ==
  Ret(ln) /\ PolarOriented(ln) =>
             /\ (ln.hasL /\ Sh(ln).hasL /\ Sh(ln).isoL) => ln.isoL
             /\ (ln.hasR /\ Sh(ln).hasR /\ Sh(ln).isoR) => ln.isoR

\* a factor reported as isometric (left_inds of the returned tensor) is isometric
ClaimedIsometryTrue(ln) ==
  Ret(ln) => (ln.claimL => ln.isoL) /\ (ln.claimR => ln.isoR)

SplitClauses(ln) ==
  IF ~WellFormed(ln) THEN << <<"HARNESS:WellFormed", FALSE>> >>
  ELSE << <<"Returns", Returns(ln)>>,
          <<"FormAsRequested", FormAsRequested(ln)>>,
          <<"OneNewBond", OneNewBond(ln)>>,
          <<"KeptIsMinimal", KeptIsMinimal(ln)>>,
          <<"NeverZeroNeverAboveCap", NeverZeroNeverAboveCap(ln)>>,
          <<"ExactWhenUntruncated", ExactWhenUntruncated(ln)>>,
          <<"BestApprox", BestApprox(ln)>>,
          <<"ErrorHonest", ErrorHonest(ln)>>,
          <<"ValuesWhereRequested", ValuesWhereRequested(ln)>>,
          <<"RenormLaw", RenormLaw(ln)>>,
          <<"DocIsometryTrue", DocIsometryTrue(ln)>>,
          <<"ClaimedIsometryTrue", ClaimedIsometryTrue(ln)>> >>

\* ------------------------------------------------------------------ agree
\* accelerated and generic implementations of the same method agree (same outcome, same
\* kept count, same snapped values, same reported error)
PathsAgree(ln) == ln.oa = ln.ob

\* ------------------------------------------------------------------ svals
SvalsOK(ln) == ln.exc = "" /\ ln.sv2 = PowSeq(ln.s, Len(ln.s), 2)

Clauses(ln) ==
  CASE ln.ev = "split" -> SplitClauses(ln)
    [] ln.ev = "agree" -> << <<"PathsAgree", PathsAgree(ln)>> >>
    [] ln.ev = "svals" -> << <<"ValuesAreTheSpectrum", SvalsOK(ln)>> >>
    [] OTHER           -> << <<"HARNESS:UnknownEvent", FALSE>> >>

TInit == l = 1 /\ fails = <<>>
TNext == /\ l <= NLines
         /\ l' = l + 1
         /\ fails' = AddFails(fails, l, Clauses(TraceLog[l]))
TSpec == TInit /\ [][TNext]_tvars

Done == l = NLines + 1 => WriteVerdict(l - 1, fails)
=============================================================================
