----------------------------- MODULE C05_Defs -----------------------------
(***************************************************************************)
(* C05 - tensor decomposition: exact when untruncated, optimal and honest  *)
(* when truncated.                                                         *)
(*                                                                         *)
(* Reference (property level) definitions, written from the statement and  *)
(* from the documentation of quimb.tensor.decomp.array_split /             *)
(* quimb.tensor.tensor_split (NOT from _ABSORB_MAP / the drivers):         *)
(*   Keep     - the number of values that must be kept,                    *)
(*   Err2     - the squared truncation error,                              *)
(*   renormalisation law,                                                  *)
(*   Shape    - the documented form of the result of (method, absorb).     *)
(*                                                                         *)
(* Domain: integer spectra (non-increasing sequences of naturals), cutoffs *)
(* as rationals cn/cd placed OFF the decision boundaries, so that strict   *)
(* versus non-strict comparison (and float noise) can never matter.        *)
(* Encodings: maxb = 0 means "no bond cap"; renorm \in {0,1,2,3}, 3 = True.*)
(***************************************************************************)
EXTENDS Integers, Sequences, FiniteSets, TLC

Min2(a, b) == IF a < b THEN a ELSE b
Max2(a, b) == IF a > b THEN a ELSE b

Modes    == {"abs", "rel", "sum2", "rsum2", "sum1", "rsum1"}
SumModes == {"sum2", "rsum2", "sum1", "rsum1"}
RelModes == {"rel", "rsum2", "rsum1"}

IPow(x, p) == IF p = 2 THEN x * x ELSE x

RECURSIVE SumP(_, _, _, _)
\* sum_{i = a..b} s[i]^p
SumP(s, a, b, p) == IF a > b THEN 0 ELSE IPow(s[a], p) + SumP(s, a + 1, b, p)

Tot(s, p)     == SumP(s, 1, Len(s), p)
KeptP(s, k, p) == SumP(s, 1, k, p)
DiscP(s, k, p) == SumP(s, k + 1, Len(s), p)

IsSpectrum(s) == /\ Len(s) >= 1
                 /\ \A i \in 1..Len(s) : s[i] >= 0
                 /\ \A i \in 1..Len(s)-1 : s[i] >= s[i + 1]
HasZero(s) == \E i \in 1..Len(s) : s[i] = 0

\* power that the sum-type cutoff modes speak about
ModePow(mode) == IF mode \in {"sum2", "rsum2"} THEN 2 ELSE 1

(* ---------------- (b) the documented cutoff rules ----------------------- *)
\* "keeping k values (discarding s[k+1..]) satisfies the rule of `mode` for cutoff cn/cd":
\*   rel  : values less than cutoff * s[0] discarded
\*   abs  : values less than cutoff discarded
\*   sum2 : sum squared of values discarded must be < cutoff
\*   rsum2: ... less than cutoff times the total sum of squared values
\*   sum1 / rsum1 : the same with plain sums
RuleOK(s, k, mode, cn, cd) ==
  CASE mode = "abs"   -> \A i \in k+1..Len(s) : s[i] * cd < cn
    [] mode = "rel"   -> \A i \in k+1..Len(s) : s[i] * cd < cn * s[1]
    [] mode = "sum2"  -> DiscP(s, k, 2) * cd < cn
    [] mode = "rsum2" -> DiscP(s, k, 2) * cd < cn * Tot(s, 2)
    [] mode = "sum1"  -> DiscP(s, k, 1) * cd < cn
    [] mode = "rsum1" -> DiscP(s, k, 1) * cd < cn * Tot(s, 1)

\* no decision quantity sits on the threshold (then < and <= agree, and float noise is harmless)
OffBoundary(s, mode, cn, cd) ==
  CASE mode = "abs"   -> \A i \in 1..Len(s) : s[i] * cd # cn
    [] mode = "rel"   -> \A i \in 1..Len(s) : s[i] * cd # cn * s[1]
    [] mode = "sum2"  -> \A k \in 0..Len(s)-1 : DiscP(s, k, 2) * cd # cn
    [] mode = "rsum2" -> \A k \in 0..Len(s)-1 : DiscP(s, k, 2) * cd # cn * Tot(s, 2)
    [] mode = "sum1"  -> \A k \in 0..Len(s)-1 : DiscP(s, k, 1) * cd # cn
    [] mode = "rsum1" -> \A k \in 0..Len(s)-1 : DiscP(s, k, 1) * cd # cn * Tot(s, 1)

\* least k >= 1 satisfying the rule ("never zero"); cutoff <= 0 switches the rule off
KeepCut(s, mode, cn, cd) ==
  IF cn <= 0 THEN Len(s)
  ELSE CHOOSE k \in 1..Len(s) :
         /\ RuleOK(s, k, mode, cn, cd)
         /\ \A j \in 1..k-1 : ~RuleOK(s, j, mode, cn, cd)

\* ... capped by the bond cap ("never above the bond cap")
Keep(s, mode, cn, cd, maxb) ==
  LET kc == KeepCut(s, mode, cn, cd)
  IN  IF maxb > 0 THEN Min2(kc, maxb) ELSE kc

(* ---------------- (c) squared truncation error -------------------------- *)
Err2(s, k) == DiscP(s, k, 2)

(* ---------------- (d) renormalisation ----------------------------------- *)
\* requested power: 0 none, 1 trace norm, 2 Frobenius norm, True (3) -> the power of the cutoff mode
\* (documented: "True automatically picks the power based on cutoff_mode"; for abs/rel, which name no
\* power, no renormalisation is demanded: convention pinned)
RenormPower(renorm, mode) ==
  IF renorm = 3 THEN (IF mode \in SumModes THEN ModePow(mode) ELSE 0) ELSE renorm

\* a scaling factor f given as f^q = num/den satisfies the law for power p
\* (sum of kept'^p = sum of all^p, i.e. f^p = Tot_p/Kept_p) iff (num/den)^p = (Tot_p/Kept_p)^q
RPow(x, e) == IF e = 2 THEN x * x ELSE x
FactorObeysLaw(s, k, p, q, num, den) ==
  RPow(num, p) * RPow(KeptP(s, k, p), q) = RPow(Tot(s, p), q) * RPow(den, p)

(* ---------------- (a) the documented dispatch table --------------------- *)
Methods == {"auto", "svd", "svd:eig", "svd:rand", "eigh", "qr", "lq", "qr:cholesky", "lq:cholesky",
            "cholesky", "lu", "polar_right", "polar_left", "svds", "isvd", "rsvd", "eigsh"}

\* spellings of `absorb` ("none" stands for Python None)
Absorbs == {"auto", "none", "U,s,VH", "both", "Usq,sqVH", "left", "Us,VH", "right", "U,sVH",
            "lorthog", "U", "rorthog", "VH", "lfactor", "Us", "rfactor", "sVH", "s", "lsqrt", "rsqrt"}

Canon(a) ==
  CASE a \in {"none", "U,s,VH"}   -> "none"
    [] a \in {"both", "Usq,sqVH"} -> "both"
    [] a \in {"left", "Us,VH"}    -> "left"
    [] a \in {"right", "U,sVH"}   -> "right"
    [] a \in {"lorthog", "U"}     -> "lorthog"
    [] a \in {"rorthog", "VH"}    -> "rorthog"
    [] a \in {"lfactor", "Us"}    -> "lfactor"
    [] a \in {"rfactor", "sVH"}   -> "rfactor"
    [] OTHER                      -> a          \* auto, s, lsqrt, rsqrt

\* A form: which of the three outputs exist, the power of the values carried by the left factor, by the
\* values output and by the right factor, in halves (0 -> isometric, 1 -> sqrt(s), 2 -> s), and
\* which factors are (documented to be) isometric.
MkForm(hL, hS, hR, pL, pS, pR) ==
  [hasL |-> hL, hasS |-> hS, hasR |-> hR, pL |-> pL, pS |-> pS, pR |-> pR,
   isoL |-> hL /\ pL = 0, isoR |-> hR /\ pR = 0]

FormOf(c) ==
  CASE c = "none"    -> MkForm(TRUE,  TRUE,  TRUE,  0, 2, 0)   \* U, s, VH
    [] c = "both"    -> MkForm(TRUE,  FALSE, TRUE,  1, 0, 1)   \* U sqrt(s), sqrt(s) VH
    [] c = "left"    -> MkForm(TRUE,  FALSE, TRUE,  2, 0, 0)   \* U s, VH        (LQ like)
    [] c = "right"   -> MkForm(TRUE,  FALSE, TRUE,  0, 0, 2)   \* U, s VH        (QR like)
    [] c = "lorthog" -> MkForm(TRUE,  FALSE, FALSE, 0, 0, 0)
    [] c = "rorthog" -> MkForm(FALSE, FALSE, TRUE,  0, 0, 0)
    [] c = "lfactor" -> MkForm(TRUE,  FALSE, FALSE, 2, 0, 0)
    [] c = "rfactor" -> MkForm(FALSE, FALSE, TRUE,  0, 0, 2)
    [] c = "s"       -> MkForm(FALSE, TRUE,  FALSE, 0, 2, 0)
    [] c = "lsqrt"   -> MkForm(TRUE,  FALSE, FALSE, 1, 0, 0)
    [] c = "rsqrt"   -> MkForm(FALSE, FALSE, TRUE,  0, 0, 1)

\* documented default form of each method ("qr: by default left factor is isometric", "lq: right factor
\* is isometric", "polar_right: A = U @ P", "polar_left: A = P @ U", value carrying methods: both)
DefaultAbsorb(m) ==
  IF m \in {"qr", "qr:cholesky", "polar_right"} THEN "right"
  ELSE IF m \in {"lq", "lq:cholesky", "polar_left"} THEN "left"
  ELSE "both"

ValueMethods == {"auto", "svd", "svd:eig", "svd:rand", "eigh", "svds", "isvd", "rsvd", "eigsh"}
QRMethods    == {"qr", "lq", "qr:cholesky", "lq:cholesky"}
PolarMethods == {"polar_right", "polar_left"}
\* forms each method documents
QRForms       == {"right", "lorthog", "rfactor", "left", "lfactor", "rorthog"}
CholeskyForms == {"both", "lsqrt", "rsqrt"}

Resolved(m, a) == IF Canon(a) = "auto" THEN DefaultAbsorb(m) ELSE Canon(a)

\* does the documentation promise that (method, absorb) works?
Accepts(m, a) ==
  LET c == Resolved(m, a) IN
  CASE m \in ValueMethods -> TRUE
    [] m \in QRMethods    -> c \in QRForms
    [] m = "cholesky"     -> c \in CholeskyForms
    [] m = "lu"           -> c = "both"
    [] m \in PolarMethods -> Canon(a) = "auto"      \* the polar drivers take no absorb option
    [] OTHER              -> FALSE

\* the form a *returned* result is judged against: the requested one, except that the polar
\* decompositions have one fixed documented form whatever `absorb` says
Shape(m, a) ==
  IF m \in PolarMethods THEN FormOf(DefaultAbsorb(m)) ELSE FormOf(Resolved(m, a))

\* methods whose kept values are the (absolute) spectrum and obey Keep / Eckart-Young
SVDType == {"auto", "svd", "svd:eig", "svd:rand", "eigh", "svds", "isvd", "rsvd", "eigsh"}
\* iterative / randomised drivers: judged on values and optimality only where nothing of weight is cut
\* (exact-rank regime), otherwise on the bond cap and the form only
IterMethods == {"svds", "isvd", "rsvd", "eigsh"}
\* methods documented to report info['error']
ReportsError == {"auto", "svd", "svd:eig"}
=============================================================================
