SPECIFICATION Spec
CONSTANTS
  MaxVal = 3
  MaxLen = 3
  MaxBonds <- MaxBondsQuick
  Renorms <- RenormsAll
  CutGrid <- CutGridQuick
  TableMethods <- NoSet
  TableAbsorbs <- NoSet
  Emit = FALSE
INVARIANT RenormLawGenericStrict
CHECK_DEADLOCK FALSE
