SPECIFICATION Spec
CONSTANTS
  MaxVal = 2
  MaxLen = 2
  MaxBonds <- MaxBondsQuick
  Renorms <- RenormsAll
  CutGrid <- CutGridQuick
  TableMethods <- NoSet
  TableAbsorbs <- NoSet
  Emit = FALSE
  PreFix = TRUE
INVARIANT RenormLawGeneric
CHECK_DEADLOCK FALSE
