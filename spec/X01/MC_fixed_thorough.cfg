\* the repaired enter step, two threads, global contexts not overlapping each other
SPECIFICATION Spec
CONSTANTS
  Threads = {t1, t2, t3}
  Values = {a, b}
  V0 = g0
  MaxOpen = 2
  MaxSteps = 8
  Fixed = TRUE
  OneGlobalAtATime = TRUE
INVARIANT Restored
INVARIANT OutsideReadsGlobal
INVARIANT LocalShadows
INVARIANT TempMirrorsOpen
CHECK_DEADLOCK FALSE
