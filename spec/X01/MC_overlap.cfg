\* two threads whose global contexts overlap without nesting: restoring is impossible by design (must FAIL Restored)
SPECIFICATION Spec
CONSTANTS
  Threads = {t1, t2}
  Values = {a, b}
  V0 = g0
  MaxOpen = 1
  MaxSteps = 4
  Fixed = TRUE
  OneGlobalAtATime = FALSE
INVARIANT Restored
CHECK_DEADLOCK FALSE
