--------------------------- MODULE X01_Defaults ---------------------------
(***************************************************************************)
(* EXTENSION (not one of the listed properties): the process-wide defaults *)
(* of quimb.tensor.contraction - the contraction strategy, the contraction *)
(* backend and the linear-operator backend - and their context managers.   *)
(*                                                                         *)
(* Documented behaviour: `set_x(v)` sets the default for all threads;      *)
(* `with x(v):` *temporarily* sets it for the calling thread only;         *)
(* `with x(v, set_globally=True):` temporarily sets it for all threads.    *)
(*                                                                         *)
(* State (implementation shaped, one action per statement group of the     *)
(* code at the pinned commit):                                             *)
(*   glob          the module global                                       *)
(*   temp[t]       the per-thread list in the defaultdict                  *)
(*   open[t]       the contexts thread t is inside, innermost last:        *)
(*                 [kind, saved] (saved = what the `finally` writes back)   *)
(* Ghost:                                                                   *)
(*   base          what the global default has to be whenever no global    *)
(*                 context is open = the last explicit set_x made outside  *)
(*                 every global context                                    *)
(* Constant Fixed selects the repaired enter step (saved := the global)    *)
(* instead of the pinned one (saved := get_x(), which is the *thread's*    *)
(* effective value and may be a thread-local temporary).                   *)
(***************************************************************************)
EXTENDS Naturals, Sequences, FiniteSets, TLC

CONSTANTS Threads, Values, V0, MaxOpen, MaxSteps, Fixed, OneGlobalAtATime

VARIABLES glob, temp, open, base, steps
vars == <<glob, temp, open, base, steps>>

Get(t) == IF temp[t] # <<>> THEN temp[t][Len(temp[t])] ELSE glob

GlobalOpen == \E t \in Threads : \E k \in DOMAIN open[t] : open[t][k].kind = "global"

Init == /\ glob = V0 /\ base = V0
        /\ temp = [t \in Threads |-> <<>>]
        /\ open = [t \in Threads |-> <<>>]
        /\ steps = 0

Tick == steps < MaxSteps /\ steps' = steps + 1

EnterLocal(t, v) ==
  /\ Tick /\ Len(open[t]) < MaxOpen
  /\ temp' = [temp EXCEPT ![t] = Append(@, v)]
  /\ open' = [open EXCEPT ![t] = Append(@, [kind |-> "local", saved |-> v])]
  /\ UNCHANGED <<glob, base>>

EnterGlobal(t, v) ==
  /\ Tick /\ Len(open[t]) < MaxOpen
  /\ (OneGlobalAtATime => ~GlobalOpen)
  /\ open' = [open EXCEPT ![t] = Append(@, [kind |-> "global", saved |-> IF Fixed THEN glob ELSE Get(t)])]
  /\ glob' = v
  /\ UNCHANGED <<temp, base>>

Exit(t) ==
  /\ Tick /\ open[t] # <<>>
  /\ LET c == open[t][Len(open[t])] IN
       IF c.kind = "local"
       THEN /\ temp' = [temp EXCEPT ![t] = SubSeq(@, 1, Len(@) - 1)]
            /\ UNCHANGED glob
       ELSE /\ glob' = c.saved
            /\ UNCHANGED temp
  /\ open' = [open EXCEPT ![t] = SubSeq(@, 1, Len(@) - 1)]
  /\ UNCHANGED base

\* an explicit set while a global context is open has no agreed meaning (it is overwritten on exit): not modelled
SetGlobal(t, v) ==
  /\ Tick /\ ~GlobalOpen
  /\ glob' = v /\ base' = v
  /\ UNCHANGED <<temp, open>>

Next == \E t \in Threads : \/ \E v \in Values : EnterLocal(t, v) \/ EnterGlobal(t, v) \/ SetGlobal(t, v)
                           \/ Exit(t)
Spec == Init /\ [][Next]_vars

----------------------------------------------------------------------------
\* "temporarily": once no global context is open the global default is what was last set explicitly
Restored == ~GlobalOpen => glob = base
\* "for the calling thread only": a thread outside every context reads the global default
OutsideReadsGlobal == \A t \in Threads : open[t] = <<>> => Get(t) = glob
\* a thread inside a local context reads its innermost local value
LocalShadows == \A t \in Threads : (open[t] # <<>> /\ open[t][Len(open[t])].kind = "local") => Get(t) = open[t][Len(open[t])].saved
\* the per-thread list mirrors the thread's open local contexts (nothing leaks across threads or exits)
TempMirrorsOpen == \A t \in Threads : temp[t] = [k \in 1..Len(SelectSeq(open[t], LAMBDA c : c.kind = "local")) |->
                                                    SelectSeq(open[t], LAMBDA c : c.kind = "local")[k].saved]
=============================================================================
