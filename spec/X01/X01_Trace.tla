----------------------------- MODULE X01_Trace -----------------------------
(***************************************************************************)
(* Trace spec of the extension X01: one line per command executed by a     *)
(* real thread (the driver runs one command at a time, so the order of the *)
(* lines is the schedule).  Events:                                        *)
(*   [ev |-> "enter", th, kind ("local"|"global"), v]                       *)
(*   [ev |-> "exit", th]      [ev |-> "set", th, v]                         *)
(* every line carries `gets`: what get_x() returned in every thread right   *)
(* after the command.  The model state is advanced with the actions of      *)
(* X01_Defaults in their pinned form; the clauses judge the observation.    *)
(***************************************************************************)
EXTENDS Integers, Sequences, FiniteSets, TLC, TraceIO

VARIABLES l, fails, glob, temp, open, base, tid
tvars == <<l, fails, glob, temp, open, base, tid>>

ThreadsOf(ln) == DOMAIN ln.gets
GetM(g, tp, t) == IF t \in DOMAIN tp /\ tp[t] # <<>> THEN tp[t][Len(tp[t])] ELSE g
OpenOf(op, t) == IF t \in DOMAIN op THEN op[t] ELSE <<>>
TempOf(tp, t) == IF t \in DOMAIN tp THEN tp[t] ELSE <<>>
Upd(f, t, v) == [x \in DOMAIN f \cup {t} |-> IF x = t THEN v ELSE f[x]]
GlobalOpenIn(op) == \E t \in DOMAIN op : \E k \in DOMAIN op[t] : op[t][k].kind = "global"
DropLast(s) == SubSeq(s, 1, Len(s) - 1)

\* next model state <<glob, temp, open, base>> after the command of line ln (pinned code)
After(ln, g, tp, op, b) ==
  LET t == ln.th IN
  CASE ln.ev = "enter" /\ ln.kind = "local" ->
         <<g, Upd(tp, t, Append(TempOf(tp, t), ln.v)), Upd(op, t, Append(OpenOf(op, t), [kind |-> "local", saved |-> ln.v])), b>>
    [] ln.ev = "enter" /\ ln.kind = "global" ->
         <<ln.v, tp, Upd(op, t, Append(OpenOf(op, t), [kind |-> "global", saved |-> GetM(g, tp, t)])), b>>
    [] ln.ev = "exit" ->
         LET c == OpenOf(op, t)[Len(OpenOf(op, t))] IN
         IF c.kind = "local" THEN <<g, Upd(tp, t, DropLast(TempOf(tp, t))), Upd(op, t, DropLast(OpenOf(op, t))), b>>
         ELSE <<c.saved, tp, Upd(op, t, DropLast(OpenOf(op, t))), b>>
    [] ln.ev = "set" -> <<ln.v, tp, op, IF GlobalOpenIn(op) THEN b ELSE ln.v>>
    [] OTHER -> <<g, tp, op, b>>

Clauses(ln, st) ==
  LET g == st[1] tp == st[2] op == st[3] b == st[4] IN
  << <<"Returns", ln.exc = "">>,
     \* the pinned transcription predicts every thread's reading (drift note, not a verdict)
     <<"NOTE:ModelDrift", \A t \in ThreadsOf(ln) : ln.gets[t] = GetM(g, tp, t)>>,
     \* "temporarily": with no global context open, a thread outside every context reads the last explicit set
     <<"Restored", ~GlobalOpenIn(op) => \A t \in ThreadsOf(ln) : OpenOf(op, t) = <<>> => ln.gets[t] = b>>,
     \* "for the calling thread only": inside a local context the thread reads its innermost local value
     <<"LocalShadows", \A t \in ThreadsOf(ln) :
           (OpenOf(op, t) # <<>> /\ OpenOf(op, t)[Len(OpenOf(op, t))].kind = "local") =>
               ln.gets[t] = OpenOf(op, t)[Len(OpenOf(op, t))].saved>>,
     \* a local context of one thread never changes what a thread outside every context reads
     <<"LocalIsolated", (ln.ev = "enter" /\ ln.kind = "local") =>
           \A t \in ThreadsOf(ln) \ {ln.th} : OpenOf(op, t) = <<>> => ln.gets[t] = g>> >>

TInit == l = 1 /\ fails = <<>> /\ glob = "" /\ temp = <<>> /\ open = <<>> /\ base = "" /\ tid = 0 - 1
TNext == /\ l <= NLines
         /\ LET ln == TraceLog[l]
                fresh == ln.tid # tid
                g0 == IF fresh THEN ln.v0 ELSE glob
                t0 == IF fresh THEN <<>> ELSE temp
                o0 == IF fresh THEN <<>> ELSE open
                b0 == IF fresh THEN ln.v0 ELSE base
                st == After(ln, g0, t0, o0, b0) IN
            /\ fails' = AddFails(fails, l, Clauses(ln, st))
            /\ glob' = st[1] /\ temp' = st[2] /\ open' = st[3] /\ base' = st[4] /\ tid' = ln.tid
         /\ l' = l + 1
TSpec == TInit /\ [][TNext]_tvars
Done == l = NLines + 1 => WriteVerdict(l - 1, fails)
=============================================================================
