\* the pinned code: one thread is enough for TLC to find the nested local -> global corruption (must FAIL Restored)
SPECIFICATION Spec
CONSTANTS
  Threads = {t1}
  Values = {a, b}
  V0 = g0
  MaxOpen = 2
  MaxSteps = 5
  Fixed = FALSE
  OneGlobalAtATime = TRUE
INVARIANT Restored
INVARIANT OutsideReadsGlobal
INVARIANT LocalShadows
INVARIANT TempMirrorsOpen
CHECK_DEADLOCK FALSE
