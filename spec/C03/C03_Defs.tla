------------------------------ MODULE C03_Defs ------------------------------
(***************************************************************************)
(* C03 - labelled semantics: axis order never matters; non-in-place calls  *)
(* never mutate.  Reference definitions, written from the property         *)
(* statement (no variables: used by the heap model C03_Alias and by the    *)
(* trace spec C03_Trace).                                                  *)
(*                                                                         *)
(* Part 1: what a labelled tensor *is* (its value does not know in which   *)
(*         order the axes are stored) and what the abstract methods of the *)
(*         model must return as a function of labelled values only.        *)
(* Part 2: the clauses of the property as predicates on one *call record*: *)
(*         the observation of one method pair / operator on one receiver.  *)
(*         The model builds such records from its heap, the driver builds  *)
(*         them from fingerprints of real quimb objects; the clauses are   *)
(*         the same.                                                       *)
(***************************************************************************)
EXTENDS Integers, Sequences, FiniteSets, TLC

Range(s) == {s[k] : k \in DOMAIN s}
Pos(s, x) == CHOOSE k \in DOMAIN s : s[k] = x
RemoveAt(s, p) == [k \in 1..(Len(s) - 1) |-> IF k < p THEN s[k] ELSE s[k + 1]]
PermuteSeq(s, pi) == [k \in DOMAIN s |-> s[pi[k]]]
PermsOf(n) == {pi \in [1..n -> 1..n] : \A i, j \in 1..n : pi[i] = pi[j] => i = j}

(* ------------------------------------------------------------------ 1 -- *)
(* A labelled value is                                                      *)
(*   [val  : a term (sequence of tokens) naming an abstract dense array     *)
(*           whose axes are identified by axis ids,                         *)
(*    at   : set of <<label, axis id>> (which axis of `val` each label     *)
(*           names),                                                        *)
(*    tags : set, left : set of labels]                                     *)
(* Nothing in it records a storage order: two stored tensors with the same  *)
(* labelled value are the same labelled object.                             *)

LabelledValue(term, inds, lay, tags, left) ==
  [val |-> term, at |-> {<<inds[k], lay[k]>> : k \in DOMAIN inds}, tags |-> tags, left |-> left]
LabelsIn(v)  == {p[1] : p \in v.at}
AxisOf(v, x) == (CHOOSE p \in v.at : p[1] = x)[2]

\* the abstract methods of the model, as functions of the labelled value only
RefScale(v)      == [v EXCEPT !.val = Append(@, "s"), !.left = {}]
RefReduce(v, x)  == [val |-> v.val \o <<"sum", AxisOf(v, x)>>,
                     at |-> {p \in v.at : p[1] # x}, tags |-> v.tags, left |-> {}]
RefRelabel(v, x, y) ==
  [v EXCEPT !.at = {IF p[1] = x THEN <<y, p[2]>> ELSE p : p \in @},
            !.left = {IF z = x THEN y ELSE z : z \in @}]
RefRetag(v, g)   == [v EXCEPT !.tags = @ \cup {g}]
RefTranspose(v)  == v                                 \* a change of storage order is not a change of value

RefApplyT(f, arg, v) ==
  CASE f = "scale"     -> RefScale(v)
    [] f = "reduce"    -> RefReduce(v, arg)
    [] f = "relabel"   -> RefRelabel(v, arg[1], arg[2])
    [] f = "retag"     -> RefRetag(v, arg)
    [] f = "transpose" -> RefTranspose(v)

\* elementwise binary operator on two labelled values with the same label set: aligned by label
RefBinaryT(op, order, v, w) ==
  LET labs == SelectSeq(order, LAMBDA x : x \in LabelsIn(v))
      match == [k \in 1..(2 * Len(labs)) |-> IF k % 2 = 1 THEN AxisOf(v, labs[(k + 1) \div 2]) ELSE AxisOf(w, labs[k \div 2])]
  IN  [val |-> <<"(">> \o v.val \o <<op>> \o w.val \o <<"|">> \o match \o <<")">>,
       at |-> v.at, tags |-> v.tags \cup w.tags, left |-> {}]

\* a network value: the *set* of the values of its tensors (no insertion order) and its exponent
RefApplyN(f, arg, nv) ==
  CASE f = "each"    -> [nv EXCEPT !.ts = {RefScale(v) : v \in @}]
    [] f = "relabel" -> [nv EXCEPT !.ts = {RefRelabel(v, arg[1], arg[2]) : v \in @}]
    [] f = "norm"    -> [ts |-> {RefScale(v) : v \in nv.ts}, exp |-> nv.exp + 1]   \* rescale every tensor, collect into exp
RefCombine(nv, nw) == [ts |-> nv.ts \cup nw.ts, exp |-> nv.exp + nw.exp]

(* ------------------------------------------------------------------ 2 -- *)
(* A call record (one method pair or operator, one receiver, one argument  *)
(* recipe):                                                                *)
(*  recv    = [before, after]   fingerprint of the receiver around the     *)
(*                               *plain* call                              *)
(*  args    = <<[before, after]>>  tensor / network arguments              *)
(*  sharers = <<[kind, before, after]>>  every object sharing storage with *)
(*            the receiver (a copy, a virtual view, a second owner ...)    *)
(*  arrays  = <<[before, after]>>  raw bytes of every pre-existing array   *)
(*  plain   = [exc, st, stw, stv, dq, isrecv] result of the plain spelling  *)
(*            (isrecv: the returned object IS the receiver)                *)
(*            name or "", structural fingerprint (st: tensor by tensor,     *)
(*            stw: what survives a change of gauge), distance to itself (0) *)
(*  inpl    = [exc, st, dq, self, orig, arrays]  result of the in-place    *)
(*            spelling on a copy (dq: distance to the plain result),       *)
(*            whether it returned its receiver, and the original + its     *)
(*            arrays around that call                                      *)
(*  perm    = <<[exc, st, dq, same_in, level, pure]>>  plain spelling on   *)
(*            receivers whose tensors store their axes in another order;   *)
(*            level "tensor": compared tensor by tensor; "denotation":     *)
(*            (only for results with a gauge freedom) same class / outer   *)
(*            labels / tags and same contracted value; "value" (only for   *)
(*            mode "reorder": the tensors of the receiver inserted in      *)
(*            another order) same class / outer labels / union of tags and *)
(*            same contracted value; "skipped" (reorder, recipes whose     *)
(*            value follows the insertion order: truncation sweeps)        *)
(*  randomised, docself, hasinpl, gauge, orderdep : flags of the recipe    *)

Untouched(p)     == p.before = p.after
AllUntouched(ps) == \A p \in Range(ps) : Untouched(p)

\* two result observations denote the same labelled object (b.dq is the distance of b to a)
Agree(a, b) == /\ a.exc = b.exc
               /\ a.exc = "" => (a.st = b.st /\ b.dq = 0)

\* (also around the calls on the re-stored receivers / arguments: p.pure)
PlainPure(r)        == Untouched(r.recv) /\ AllUntouched(r.args) /\ \A p \in Range(r.perm) : p.pure
SharersUntouched(r) == AllUntouched(r.sharers)
ArraysUntouched(r)  == AllUntouched(r.arrays)
PlainIsInplaceOnCopy(r) == r.hasinpl => Agree(r.plain, r.inpl)
\* the in-place spelling on a copy never reaches the original through the arrays they share
CopyIsolated(r)     == r.hasinpl => (Untouched(r.inpl.orig) /\ AllUntouched(r.inpl.arrays))
InplaceReturnsSelf(r) == (r.hasinpl /\ r.docself /\ r.inpl.exc = "") => r.inpl.self
AgreePerm(r, p)     == /\ r.plain.exc = p.exc
                       /\ p.exc = "" =>
                            /\ p.dq = 0
                            /\ CASE p.level = "denotation" -> r.gauge /\ p.st = r.plain.stw
                                 [] p.level = "value"      -> p.mode = "reorder" /\ p.st = r.plain.stv
                                 [] p.level = "skipped"    -> p.mode = "reorder" /\ r.orderdep
                                 [] OTHER                  -> p.st = r.plain.st
PermInvariant(r)    == \A p \in Range(r.perm) :
                          /\ p.same_in                      \* the re-stored receiver has the same labelled content
                          /\ r.randomised \/ AgreePerm(r, p)

\* the plain spelling hands out a new object, never its receiver itself -- also when there is nothing to do
\* (identity permutation, empty map, dtype already equal ...): a later in-place call on the result must not reach
\* the receiver
PlainReturnsNewObject(r) == r.plain.exc = "" => ~r.plain.isrecv

CallClauses(r) ==
  << <<"PlainPure", PlainPure(r)>>,
     <<"PlainReturnsNewObject", PlainReturnsNewObject(r)>>,
     <<"SharersUntouched", SharersUntouched(r)>>,
     <<"ArraysUntouched", ArraysUntouched(r)>>,
     <<"PlainIsInplaceOnCopy", PlainIsInplaceOnCopy(r)>>,
     <<"CopyIsolated", CopyIsolated(r)>>,
     <<"InplaceReturnsSelf", InplaceReturnsSelf(r)>>,
     <<"PermInvariant", PermInvariant(r)>> >>

CallOK(r) == \A k \in DOMAIN CallClauses(r) : CallClauses(r)[k][2]
=============================================================================
