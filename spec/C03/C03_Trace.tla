----------------------------- MODULE C03_Trace -----------------------------
(***************************************************************************)
(* Trace spec for C03.  One record per observed call of a method pair or   *)
(* binary operator on real quimb objects (ev = "call"; the clauses are the  *)
(* ones of C03_Defs, the same that TLC checks on the heap model), one per   *)
(* discovered pair (ev = "pair": is it exercised?) and one summary.         *)
(* The records are independent of each other: no state is carried.         *)
(***************************************************************************)
EXTENDS C03_Defs, TraceIO

VARIABLES l, fails
tvars == <<l, fails>>

MinCovered == 100

\* S->C replays carry the sharing structure predicted by the heap model: a mismatch is a drift note
ModelAgrees(ln) == Has(ln, "model_share") => ln.model_share = ln.real_share

\* a discovered pair is exercised, or exempt by the statement (documented in-place default) with a reason
Covered(ln) == \/ ln.status = "covered"
               \/ ln.status = "exempt" /\ ln.reason # ""
               \/ ln.status = "norecipe"          \* reported by the note below, listed in the evidence

Clauses(ln) ==
  CASE ln.ev = "call" -> CallClauses(ln) \o << <<"NOTE:ModelDrift", ModelAgrees(ln)>> >>
    \* an in-place call (replayed model histories): `sharers` lists the objects that are not built on the
    \* receiver's tensor objects (copies that share its arrays, unrelated objects)
    [] ln.ev = "inplace" -> << <<"SharersUntouched", SharersUntouched(ln)>>, <<"ArraysUntouched", ArraysUntouched(ln)>>,
                               <<"NOTE:ModelDrift", ModelAgrees(ln)>> >>
    [] ln.ev = "setup-rejected" -> << <<"NOTE:SetupRejected", FALSE>> >>
    [] ln.ev = "pair" -> << <<"Covered", Covered(ln)>>, <<"NOTE:NoRecipe", ln.status # "norecipe">> >>
    [] ln.ev = "summary" ->
         << <<"CoverageComplete", ln.covered + ln.exempt + ln.norecipe + ln.rejected = ln.discovered>>,
            <<"CoverageFloor", ln.covered >= MinCovered>> >>
    [] OTHER -> << <<"UnknownEvent", FALSE>> >>

TInit == l = 1 /\ fails = <<>>
TNext == /\ l <= NLines
         /\ l' = l + 1
         /\ fails' = AddFails(fails, l, Clauses(TraceLog[l]))
TSpec == TInit /\ [][TNext]_tvars

Done == l = NLines + 1 => WriteVerdict(l - 1, fails)
=============================================================================
