----------------------------- MODULE C03_Trace -----------------------------
(***************************************************************************)
(* Trace spec for C03.  One record per observed call of a method pair or   *)
(* binary operator on real quimb objects (ev = "call"; the clauses are the  *)
(* ones of C03_Defs, the same that TLC checks on the heap model), one per   *)
(* discovered pair (ev = "pair": is it exercised?) and one summary.         *)
(* The records are independent of each other: no state is carried.         *)
(***************************************************************************)
EXTENDS C03_Defs, TraceIO

VARIABLES l, fails
tvars == <<l, fails>>

MinCovered == 100

\* S->C replays carry the sharing structure predicted by the heap model: a mismatch is a drift note
ModelAgrees(ln) == Has(ln, "model_share") => ln.model_share = ln.real_share

\* `x | y` is the *virtual* combination: the result shares the tensor objects of its operands, and when summed labels
\* of x and y clash quimb renames those of y's (shared) tensors -- the documented meaning of `|`, not a mutation the
\* statement forbids.  For such a call PlainPure demands: x untouched, and y still the same labelled network up to the
\* names of its summed labels (same tensors, same arrays, same outer labels).
VirtualRename(ln) == ln.name = "op |" /\ Has(ln, "inner_clash") /\ ln.inner_clash
PlainPureT(ln) == IF VirtualRename(ln) THEN Untouched(ln.recv) /\ ln.args_same_content ELSE PlainPure(ln)
ASSUME CallClauses([recv |-> [before |-> 0, after |-> 0], args |-> <<>>, sharers |-> <<>>, arrays |-> <<>>, perm |-> <<>>,
                    hasinpl |-> FALSE, docself |-> FALSE, plain |-> [exc |-> "x"]])[1][1] = "PlainPure"

\* the result of a plain spelling holds none of the tensor *objects* of its receiver / arguments (it may share
\* their arrays); the virtual combination `|` documents that it does.  Not demanded by the statement: a note.
ResultIsFresh(ln) == Has(ln, "aliases") => (ln.aliases = 0 \/ ln.name = "op |")

\* a discovered pair is exercised, or exempt by the statement (documented in-place default) with a reason
Covered(ln) == \/ ln.status = "covered"
               \/ ln.status = "exempt" /\ ln.reason # ""
               \/ ln.status = "norecipe"          \* reported by the note below, listed in the evidence

Clauses(ln) ==
  CASE ln.ev = "call" -> << <<"PlainPure", PlainPureT(ln)>> >> \o Tail(CallClauses(ln))
                         \o << <<"NOTE:VirtualCombineRenamesOperand", ~VirtualRename(ln) \/ PlainPure(ln)>>,
                               <<"NOTE:ModelDrift", ModelAgrees(ln)>>,
                                               <<"NOTE:ResultHoldsReceiverTensors", ResultIsFresh(ln)>> >>
    \* an in-place call (replayed model histories): `sharers` lists the objects that are not built on the
    \* receiver's tensor objects (copies that share its arrays, unrelated objects)
    [] ln.ev = "inplace" -> << <<"SharersUntouched", SharersUntouched(ln)>>, <<"ArraysUntouched", ArraysUntouched(ln)>>,
                               <<"NOTE:ModelDrift", ModelAgrees(ln)>> >>
    [] ln.ev = "setup-rejected" -> << <<"NOTE:SetupRejected", FALSE>> >>
    [] ln.ev = "pair" -> << <<"Covered", Covered(ln)>>, <<"NOTE:NoRecipe", ln.status # "norecipe">> >>
    [] ln.ev = "summary" ->
         << <<"CoverageComplete", ln.covered + ln.exempt + ln.norecipe + ln.rejected = ln.discovered>>,
            <<"CoverageFloor", ln.covered >= MinCovered>> >>
    [] OTHER -> << <<"UnknownEvent", FALSE>> >>

TInit == l = 1 /\ fails = <<>>
TNext == /\ l <= NLines
         /\ l' = l + 1
         /\ fails' = AddFails(fails, l, Clauses(TraceLog[l]))
TSpec == TInit /\ [][TNext]_tvars

Done == l = NLines + 1 => WriteVerdict(l - 1, fails)
=============================================================================
