SPECIFICATION Spec
CONSTANTS
  MaxDepth = 6
  MaxTens = 10
  Judge = FALSE
  Record = TRUE
  Dev = "none"
INVARIANT EmitJson
CHECK_DEADLOCK FALSE
