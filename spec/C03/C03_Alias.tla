----------------------------- MODULE C03_Alias -----------------------------
(***************************************************************************)
(* C03 - implementation-shaped heap model of quimb's aliasing discipline.  *)
(*                                                                         *)
(* Four levels, as in the code:                                            *)
(*   buffer  : the memory an ndarray reads (content = an abstract term);   *)
(*   array   : an ndarray object = a view [buf, lay] (np.transpose returns *)
(*             a view of the same buffer with another axis layout);        *)
(*   tensor  : [arr, inds, tags, left]  (Tensor.copy() makes a new tensor  *)
(*             object pointing to the *same* array,                        *)
(*             tensor_core.py Tensor.copy / TensorNetwork.__init__);       *)
(*   network : [ts, exp]  (copy() copies the tensor objects, sharing the   *)
(*             arrays; copy(virtual=True), `|`, TensorNetwork([t],         *)
(*             virtual=True) share the tensor objects themselves).         *)
(*                                                                         *)
(* The rule set transcribed from the code:                                 *)
(*   R1  in-place methods never write into an array: they build a new one  *)
(*       and install it with modify(data=...) (or only touch metadata);    *)
(*   R2  axes are looked up by label (inds.index(name)), never by number;  *)
(*   R3  plain spelling = `x = self.copy()` followed by the in-place code. *)
(* TLC explores every heap reachable by copying, viewing, adopting,        *)
(* permuting storage and calling methods, and checks in every such heap    *)
(* that *every possible call* yields a call record satisfying the clauses  *)
(* of C03_Defs (PlainPure, SharersUntouched, ArraysUntouched,              *)
(* PlainIsInplaceOnCopy, CopyIsolated, PermInvariant) and equals the       *)
(* reference value computed from the labelled value alone.                 *)
(* `Dev` selects a named deviation (self-test configurations only).        *)
(***************************************************************************)
EXTENDS C03_Defs

CONSTANTS MaxDepth,    \* length of the histories explored
          MaxTens,     \* bound on the number of tensor objects
          Dev          \* "none" | "write" (in-place scale writes the shared buffer)
                       \*        | "self"  (plain retag starts with x = self)
                       \*        | "axis"  (reduce reads the array by axis number)
                       \*        | "netself" (plain network relabel starts with tn = self)
                       \*        | "align" (binary operator combines the arrays position by position)

VARIABLES H, depth, act,
          bad      \* names of the clauses that fail for some call possible in heap H (a function of H)
vars == <<H, depth, act, bad>>

LabelOrder == <<"a", "b", "c", "d", "z">>
SortLabels(S) == SelectSeq(LabelOrder, LAMBDA x : x \in S)

(* ----------------------------- heap reading ---------------------------- *)
TermOf(h, t)  == h.bufs[h.arrs[h.tens[t].arr].buf]
LayOf(h, t)   == h.arrs[h.tens[t].arr].lay
ValT(h, t)    == LabelledValue(TermOf(h, t), h.tens[t].inds, LayOf(h, t), h.tens[t].tags, h.tens[t].left)
ValN(h, n)    == [ts |-> {ValT(h, h.nets[n].ts[k]) : k \in DOMAIN h.nets[n].ts}, exp |-> h.nets[n].exp]
\* what an observer sees of an object: the object's own fields (reported label order, tags, left) and the
\* bytes its array shows; for a network the observations of its tensors in order, and its exponent
ObsT(h, t)    == [t |-> h.tens[t].inds, g |-> h.tens[t].tags, l |-> h.tens[t].left,
                  bytes |-> [term |-> TermOf(h, t), lay |-> LayOf(h, t)]]
ObsN(h, n)    == [ts |-> [k \in DOMAIN h.nets[n].ts |-> ObsT(h, h.nets[n].ts[k])], exp |-> h.nets[n].exp]
Obs(h, o)     == IF o[1] = "T" THEN ObsT(h, o[2]) ELSE ObsN(h, o[2])
Val(h, o)     == IF o[1] = "T" THEN ValT(h, o[2]) ELSE ValN(h, o[2])
\* the bytes an ndarray object shows
Bytes(h, a)   == [term |-> h.bufs[h.arrs[a].buf], lay |-> h.arrs[a].lay]
Objects(h)    == {<<"T", t>> : t \in DOMAIN h.tens} \cup {<<"N", n>> : n \in DOMAIN h.nets}
TensOf(h, o)  == IF o[1] = "T" THEN {o[2]} ELSE Range(h.nets[o[2]].ts)

(* -------------------- transcription: tensor level ---------------------- *)
\* Tensor.copy(): new object, same array
CopyT(h, t) == [h |-> [h EXCEPT !.tens = Append(@, h.tens[t])], id |-> Len(h.tens) + 1]

\* t.modify(data=<new array>): fresh buffer, fresh ndarray, pointer replaced, left_inds dropped   (R1)
SetData(h, t, term, lay, inds) ==
  [h EXCEPT !.bufs = Append(@, term),
            !.arrs = Append(@, [buf |-> Len(h.bufs) + 1, lay |-> lay]),
            !.tens[t] = [@ EXCEPT !.arr = Len(h.arrs) + 1, !.inds = inds, !.left = {}]]

InplT(h, t, f, arg) ==
  LET T == h.tens[t]
      A == h.arrs[T.arr]
  IN
  CASE f = "scale" ->
         IF Dev = "write"
         THEN [h EXCEPT !.bufs[A.buf] = Append(@, "s"), !.tens[t].left = {}]   \* data *= c : every view of the buffer changes
         ELSE SetData(h, t, Append(h.bufs[A.buf], "s"), A.lay, T.inds)
    [] f = "reduce" ->
         LET pn == Pos(T.inds, arg)                                           \* R2: by label
             p  == IF Dev = "axis" THEN Pos(SortLabels(Range(T.inds)), arg) ELSE pn
         IN  SetData(h, t, h.bufs[A.buf] \o <<"sum", A.lay[p]>>, RemoveAt(A.lay, p), RemoveAt(T.inds, pn))
    [] f = "relabel" ->
         IF arg[1] \notin Range(T.inds) THEN h
         ELSE [h EXCEPT !.tens[t].inds = [k \in DOMAIN T.inds |-> IF T.inds[k] = arg[1] THEN arg[2] ELSE T.inds[k]],
                        !.tens[t].left = {IF z = arg[1] THEN arg[2] ELSE z : z \in T.left}]
    [] f = "retag" -> [h EXCEPT !.tens[t].tags = @ \cup {arg}]
    [] f = "transpose" ->                                                      \* np.transpose: a view, no new buffer
         [h EXCEPT !.arrs = Append(@, [buf |-> A.buf, lay |-> PermuteSeq(A.lay, arg)]),
                   !.tens[t] = [@ EXCEPT !.arr = Len(h.arrs) + 1, !.inds = PermuteSeq(T.inds, arg)]]

\* R3
PlainT(h, t, f, arg) ==
  IF Dev = "self" /\ f = "retag"
  THEN [h |-> InplT(h, t, f, arg), id |-> t]
  ELSE LET c == CopyT(h, t) IN [h |-> InplT(c.h, c.id, f, arg), id |-> c.id]

\* x + y : `other.transpose(*self.inds)` (plain) then a new array from op(self.data, otherT.data)
BinaryT(h, op, x, y) ==
  LET X  == h.tens[x]
      yt == IF Dev = "align" THEN CopyT(h, y)          \* deviation: operands combined position by position
            ELSE PlainT(h, y, "transpose", [k \in DOMAIN X.inds |-> Pos(h.tens[y].inds, X.inds[k])])
      labs == SortLabels(Range(X.inds))
      \* which axis of x's buffer meets which axis of y's buffer, listed in label order
      match == [k \in 1..(2 * Len(labs)) |->
                  LET p == Pos(X.inds, labs[(k + 1) \div 2])
                  IN  IF k % 2 = 1 THEN LayOf(yt.h, x)[p] ELSE LayOf(yt.h, yt.id)[p]]
      term == <<"(">> \o TermOf(h, x) \o <<op>> \o TermOf(h, y) \o <<"|">> \o match \o <<")">>
      new == [arr |-> 0, inds |-> X.inds, tags |-> X.tags \cup h.tens[y].tags, left |-> {}]
      h1 == [yt.h EXCEPT !.tens = Append(@, new)]
      r  == Len(h1.tens)
  IN  [h |-> SetData(h1, r, term, LayOf(h, x), X.inds), id |-> r]

(* -------------------- transcription: network level --------------------- *)
RECURSIVE CopyTs(_, _, _)
CopyTs(h, ts, acc) ==       \* copy the tensor objects of a network one after the other
  IF ts = <<>> THEN [h |-> h, ts |-> acc]
  ELSE LET c == CopyT(h, Head(ts)) IN CopyTs(c.h, Tail(ts), Append(acc, c.id))

CopyN(h, n, virtual) ==
  IF virtual
  THEN [h |-> [h EXCEPT !.nets = Append(@, h.nets[n])], id |-> Len(h.nets) + 1]
  ELSE LET c == CopyTs(h, h.nets[n].ts, <<>>) IN
       [h |-> [c.h EXCEPT !.nets = Append(@, [ts |-> c.ts, exp |-> h.nets[n].exp])], id |-> Len(h.nets) + 1]

RECURSIVE EachT(_, _, _, _)
EachT(h, ts, f, arg) == IF ts = <<>> THEN h ELSE EachT(InplT(h, Head(ts), f, arg), Tail(ts), f, arg)

InplN(h, n, f, arg) ==
  CASE f = "each"    -> EachT(h, h.nets[n].ts, "scale", arg)
    [] f = "relabel" -> EachT(h, h.nets[n].ts, "relabel", arg)
    [] f = "expo"    -> [h EXCEPT !.nets[n].exp = @ + 1]

PlainN(h, n, f, arg) ==
  IF Dev = "netself" /\ f = "relabel"
  THEN [h |-> InplN(h, n, f, arg), id |-> n]
  ELSE LET c == CopyN(h, n, FALSE) IN [h |-> InplN(c.h, c.id, f, arg), id |-> c.id]

\* x & y (copies of the tensors) / x | y (the tensor objects themselves)
CombineN(h, x, y, virtual) ==
  IF virtual
  THEN [h |-> [h EXCEPT !.nets = Append(@, [ts |-> h.nets[x].ts \o h.nets[y].ts, exp |-> h.nets[x].exp + h.nets[y].exp])],
        id |-> Len(h.nets) + 1]
  ELSE LET c == CopyTs(h, h.nets[x].ts \o h.nets[y].ts, <<>>) IN
       [h |-> [c.h EXCEPT !.nets = Append(@, [ts |-> c.ts, exp |-> h.nets[x].exp + h.nets[y].exp])], id |-> Len(h.nets) + 1]

(* ------------------------- uniform call interface ---------------------- *)
Plain(h, o, f, arg) ==
  IF o[1] = "T" THEN LET r == PlainT(h, o[2], f, arg) IN [h |-> r.h, res |-> <<"T", r.id>>]
                ELSE LET r == PlainN(h, o[2], f, arg) IN [h |-> r.h, res |-> <<"N", r.id>>]
Inpl(h, o, f, arg)  == IF o[1] = "T" THEN InplT(h, o[2], f, arg) ELSE InplN(h, o[2], f, arg)
CopyO(h, o) ==
  IF o[1] = "T" THEN LET c == CopyT(h, o[2]) IN [h |-> c.h, o |-> <<"T", c.id>>]
                ELSE LET c == CopyN(h, o[2], FALSE) IN [h |-> c.h, o |-> <<"N", c.id>>]
RefApply(o, f, arg, v) == IF o[1] = "T" THEN RefApplyT(f, arg, v) ELSE RefApplyN(f, arg, v)

LabelsOfObj(h, o) == UNION {Range(h.tens[t].inds) : t \in TensOf(h, o)}

\* a reversal and a cyclic shift (the identity for rank < 2)
TestPerms(n) == {[k \in 1..n |-> n + 1 - k], [k \in 1..n |-> (k % n) + 1]}

\* the calls that are in the domain of a method for receiver o in heap h
Calls(h, o) ==
  IF o[1] = "T"
  THEN LET inds == h.tens[o[2]].inds IN
       {<<"scale", "-">>, <<"retag", "R">>}
       \cup {<<"reduce", x>> : x \in Range(inds)}
       \cup {<<"relabel", <<x, "z">>>> : x \in {y \in Range(inds) : "z" \notin Range(inds)}}
       \cup {<<"transpose", pi>> : pi \in TestPerms(Len(inds))}
  ELSE {<<"each", "-">>, <<"expo", "-">>}
       \cup {<<"relabel", <<x, "z">>>> : x \in {y \in LabelsOfObj(h, o) : "z" \notin LabelsOfObj(h, o)}}

\* all ways of storing the tensors of o in another axis order: one tensor permuted at a time (transpose_)
\* (two representative re-storages per tensor here; *every* stored order is reached by the action PermuteStorage)
Storages(h, o) == UNION {{<<t, pi>> : pi \in TestPerms(Len(h.tens[t].inds))} : t \in TensOf(h, o)}
PermuteStorageH(h, t, pi) == InplT(h, t, "transpose", pi)

(* ------------------------- the call record ----------------------------- *)
ResultObs(h, o) == [exc |-> "", st |-> Val(h, o), dq |-> 0]

CallRecord(h, o, f, arg) ==
  LET p   == Plain(h, o, f, arg)
      c   == CopyO(h, o)
      hi  == Inpl(c.h, c.o, f, arg)
      others == Objects(h) \ {o}
  IN
  [ev |-> "call", name |-> f,
   recv    |-> [before |-> Obs(h, o), after |-> Obs(p.h, o)],
   args    |-> <<>>,
   sharers |-> [q \in others |-> [before |-> Obs(h, q), after |-> Obs(p.h, q)]],
   arrays  |-> [a \in DOMAIN h.arrs |-> [before |-> Bytes(h, a), after |-> Bytes(p.h, a)]],
   plain   |-> ResultObs(p.h, p.res),
   inpl    |-> [exc |-> "", st |-> Val(hi, c.o), dq |-> 0, self |-> TRUE,
                orig |-> [before |-> Obs(h, o), after |-> Obs(hi, o)],
                arrays |-> [a \in DOMAIN h.arrs |-> [before |-> Bytes(h, a), after |-> Bytes(hi, a)]]],
   perm    |-> [s \in Storages(h, o) |->
                  LET hp == PermuteStorageH(h, s[1], s[2])
                      \* a transpose call on a re-stored receiver is given the same *target label order*
                      argp == IF f = "transpose" /\ o[1] = "T"
                              THEN LET want == PermuteSeq(h.tens[o[2]].inds, arg)
                                   IN  [k \in DOMAIN want |-> Pos(hp.tens[o[2]].inds, want[k])]
                              ELSE arg
                      pp == Plain(hp, o, f, argp)
                  IN  [exc |-> "", st |-> Val(pp.h, pp.res), dq |-> 0, same_in |-> Val(hp, o) = Val(h, o)]],
   randomised |-> FALSE, docself |-> TRUE, hasinpl |-> TRUE]

BinaryRecord(h, op, x, y) ==
  LET isT == x[1] = "T"
      p   == IF isT THEN LET r == BinaryT(h, op, x[2], y[2]) IN [h |-> r.h, res |-> <<"T", r.id>>]
                    ELSE LET r == CombineN(h, x[2], y[2], op = "|") IN [h |-> r.h, res |-> <<"N", r.id>>]
      others == Objects(h) \ {x, y}
      run(hh) == IF isT THEN LET r == BinaryT(hh, op, x[2], y[2]) IN Val(r.h, <<"T", r.id>>)
                        ELSE LET r == CombineN(hh, x[2], y[2], op = "|") IN Val(r.h, <<"N", r.id>>)
  IN
  [ev |-> "call", name |-> op,
   recv    |-> [before |-> Obs(h, x), after |-> Obs(p.h, x)],
   args    |-> << [before |-> Obs(h, y), after |-> Obs(p.h, y)] >>,
   sharers |-> [q \in others |-> [before |-> Obs(h, q), after |-> Obs(p.h, q)]],
   arrays  |-> [a \in DOMAIN h.arrs |-> [before |-> Bytes(h, a), after |-> Bytes(p.h, a)]],
   plain   |-> ResultObs(p.h, p.res),
   inpl    |-> [exc |-> ""],
   perm    |-> [s \in Storages(h, x) \cup Storages(h, y) |->
                  LET hp == PermuteStorageH(h, s[1], s[2])
                  IN  [exc |-> "", st |-> run(hp), dq |-> 0,
                       same_in |-> Val(hp, x) = Val(h, x) /\ Val(hp, y) = Val(h, y)]],
   randomised |-> FALSE, docself |-> FALSE, hasinpl |-> FALSE]

\* operands of a binary operator
BinaryPairs(h) ==
  {q \in {"+"} \X Objects(h) \X Objects(h) :
      q[2][1] = "T" /\ q[3][1] = "T" /\ Range(h.tens[q[2][2]].inds) = Range(h.tens[q[3][2]].inds)}
  \cup {q \in {"&", "|"} \X Objects(h) \X Objects(h) :
          q[2][1] = "N" /\ q[3][1] = "N" /\ q[2] # q[3]
          /\ Range(h.nets[q[2][2]].ts) \cap Range(h.nets[q[3][2]].ts) = {}}

(* -------------------- verdict on one heap (all possible calls) ---------- *)
FailedIn(r) == LET cl == CallClauses(r) IN {cl[k][1] : k \in {j \in DOMAIN cl : ~cl[j][2]}}

\* the result is the reference function of the labelled value of the receiver (so it cannot depend on storage);
\* an in-place call changes only the objects built on the receiver's tensor objects, and no array
CallExtra(h, o, f, arg) ==
  LET p  == Plain(h, o, f, arg)
      hi == Inpl(h, o, f, arg)
      ref == RefApply(o, f, arg, Val(h, o))
  IN  (IF Val(p.h, p.res) = ref THEN {} ELSE {"ResultIsRef"})
      \cup (IF /\ \A q \in Objects(h) : (TensOf(h, q) \cap TensOf(h, o) = {} /\ q # o) => Obs(hi, q) = Obs(h, q)
               /\ \A a \in DOMAIN h.arrs : Bytes(hi, a) = Bytes(h, a)
               /\ Val(hi, o) = ref
            THEN {} ELSE {"InplaceLocal"})

BinaryExtra(h, q) ==
  IF q[2][1] = "T"
  THEN LET r == BinaryT(h, q[1], q[2][2], q[3][2])
       IN  IF ValT(r.h, r.id) = RefBinaryT(q[1], LabelOrder, ValT(h, q[2][2]), ValT(h, q[3][2])) THEN {} ELSE {"ResultIsRef"}
  ELSE LET r == CombineN(h, q[2][2], q[3][2], q[1] = "|")
       IN  IF ValN(r.h, r.id) = RefCombine(ValN(h, q[2][2]), ValN(h, q[3][2])) THEN {} ELSE {"ResultIsRef"}

Failing(h) ==
  UNION {UNION {FailedIn(CallRecord(h, o, c[1], c[2])) \cup CallExtra(h, o, c[1], c[2]) : c \in Calls(h, o)} : o \in Objects(h)}
  \cup UNION {FailedIn(BinaryRecord(h, q[1], q[2], q[3])) \cup BinaryExtra(h, q) : q \in BinaryPairs(h)}

(* ------------------------------ actions -------------------------------- *)
Room(h) == Len(h.tens) < MaxTens
Step(a) == depth < MaxDepth /\ depth' = depth + 1 /\ act' = a /\ bad' = Failing(H')

\* c = o.copy()
Copy(o) ==
  /\ Room(H) /\ (o[1] = "N" => Len(H.tens) + Len(H.nets[o[2]].ts) <= MaxTens)
  /\ H' = CopyO(H, o).h /\ Step(<<"copy", o>>)
\* v = n.copy(virtual=True)
VCopy(n) == H' = CopyN(H, n, TRUE).h /\ Step(<<"vcopy", n>>)
\* m = TensorNetwork([t], virtual=True): t is now owned by one more network
Adopt(t) == H' = [H EXCEPT !.nets = Append(@, [ts |-> <<t>>, exp |-> 0])] /\ Step(<<"adopt", t>>)
\* t.transpose_(*perm): same labelled content, another stored order
PermuteStorage(t, pi) ==
  /\ pi \in PermsOf(Len(H.tens[t].inds)) /\ \E k \in DOMAIN pi : pi[k] # k
  /\ H' = PermuteStorageH(H, t, pi) /\ Step(<<"permute", t, pi>>)
CallPlain(o, c) ==
  /\ c \in Calls(H, o) /\ c[1] # "transpose"
  /\ Room(H) /\ (o[1] = "N" => Len(H.tens) + Len(H.nets[o[2]].ts) <= MaxTens)
  /\ H' = Plain(H, o, c[1], c[2]).h /\ Step(<<"plain", o, c>>)
CallInplace(o, c) ==
  /\ c \in Calls(H, o) /\ c[1] # "transpose"
  /\ H' = Inpl(H, o, c[1], c[2]) /\ Step(<<"inplace", o, c>>)
Binary(q) ==
  /\ q \in BinaryPairs(H)
  /\ Room(H) /\ (q[2][1] = "N" => Len(H.tens) + Len(H.nets[q[2][2]].ts) + Len(H.nets[q[3][2]].ts) <= MaxTens)
  /\ H' = (IF q[2][1] = "T" THEN BinaryT(H, q[1], q[2][2], q[3][2]).h
                            ELSE CombineN(H, q[2][2], q[3][2], q[1] = "|").h)
  /\ Step(<<"binary", q>>)

CopyA     == \E o \in Objects(H) : Copy(o)
VCopyA    == \E n \in DOMAIN H.nets : VCopy(n)
AdoptA    == \E t \in DOMAIN H.tens : Adopt(t)
PermuteA  == \E t \in DOMAIN H.tens : \E pi \in PermsOf(Len(H.tens[t].inds)) : PermuteStorage(t, pi)
PlainA    == \E o \in Objects(H) : \E c \in Calls(H, o) : CallPlain(o, c)
InplaceA  == \E o \in Objects(H) : \E c \in Calls(H, o) : CallInplace(o, c)
BinaryA   == \E q \in BinaryPairs(H) : Binary(q)

Next == CopyA \/ VCopyA \/ AdoptA \/ PermuteA \/ PlainA \/ InplaceA \/ BinaryA

\* one rank-3 tensor, one rank-2 tensor sharing label "c" with it, one network holding both
Init ==
  /\ H = [bufs |-> << <<"X">>, <<"Y">> >>,
          arrs |-> << [buf |-> 1, lay |-> <<"p", "q", "r">>], [buf |-> 2, lay |-> <<"u", "v">>] >>,
          tens |-> << [arr |-> 1, inds |-> <<"a", "b", "c">>, tags |-> {"P"}, left |-> {"a"}],
                      [arr |-> 2, inds |-> <<"c", "d">>, tags |-> {"Q"}, left |-> {}] >>,
          nets |-> << [ts |-> <<1, 2>>, exp |-> 0] >>]
  /\ depth = 0 /\ act = <<"init">> /\ bad = Failing(H)

Spec == Init /\ [][Next]_vars
view == <<H, depth>>


(* ----------------------------- properties ------------------------------ *)
PlainPureInv            == "PlainPure" \notin bad
SharersUntouchedInv     == "SharersUntouched" \notin bad
ArraysUntouchedInv      == "ArraysUntouched" \notin bad
PlainIsInplaceOnCopyInv == "PlainIsInplaceOnCopy" \notin bad
CopyIsolatedInv         == "CopyIsolated" \notin bad
PermInvariantInv        == "PermInvariant" \notin bad
ResultIsRefInv          == "ResultIsRef" \notin bad
InplaceLocalInv         == "InplaceLocal" \notin bad
=============================================================================
