----------------------------- MODULE C03_Alias -----------------------------
(***************************************************************************)
(* C03 - implementation-shaped heap model of quimb's aliasing discipline.  *)
(*                                                                         *)
(* Four levels, as in the code:                                            *)
(*   buffer  : the memory an ndarray reads (content = an abstract term);   *)
(*   array   : an ndarray object = a view [buf, lay] (np.transpose returns *)
(*             a view of the same buffer with another axis layout);        *)
(*   tensor  : [arr, inds, tags, left]  (Tensor.copy() makes a new tensor  *)
(*             object pointing to the *same* array,                        *)
(*             tensor_core.py Tensor.copy / TensorNetwork.__init__);       *)
(*   network : [ts, exp]  (copy() copies the tensor objects, sharing the   *)
(*             arrays; copy(virtual=True), `|`, TensorNetwork([t],         *)
(*             virtual=True) share the tensor objects themselves).         *)
(*                                                                         *)
(* The rule set transcribed from the code:                                 *)
(*   R1  in-place methods never write into an array: they build a new one  *)
(*       and install it with modify(data=...) (or only touch metadata);    *)
(*   R2  axes are looked up by label (inds.index(name)), never by number;  *)
(*   R3  plain spelling = `x = self.copy()` followed by the in-place code. *)
(* TLC explores every history of copying, viewing, adopting, permuting     *)
(* storage and calling methods (so every heap shape: receiver alone, with  *)
(* a copy sharing its arrays, with a virtual view, tensor owned by two     *)
(* networks, results that still share arrays with their receivers ...).    *)
(* Every call step builds the *call record* of C03_Defs from the heap      *)
(* before/after (plus the hypothetical in-place-on-a-copy and re-stored    *)
(* runs) and `bad` receives the names of the clauses that are false on it. *)
(* `Dev` selects a named deviation (self-test configurations only).        *)
(*                                                                         *)
(* NB  TLC does not cache LET definitions when run with -coverage, so      *)
(* every intermediate heap is bound strictly with Let(e, LAMBDA x : ...).  *)
(***************************************************************************)
EXTENDS C03_Defs, Json

CONSTANTS MaxDepth,    \* length of the histories explored
          MaxTens,     \* bound on the number of tensor objects
          Judge,       \* FALSE: do not compute verdicts (cheap generation of behaviours for replay)
          Record,      \* TRUE: keep the history variable `hist` (simulation for replay only)
          Dev          \* "none" | "write"   (in-place scale writes into the shared buffer: data *= c)
                       \*        | "self"    (plain retag starts with x = self)
                       \*        | "netself" (plain network relabel starts with tn = self)
                       \*        | "axis"    (reduce reads the array by axis number)
                       \*        | "align"   (binary operator combines the arrays position by position)

VARIABLES H,        \* the heap
          depth,
          act,      \* last action (hidden by the VIEW)
          bad,      \* names of the clauses that were false on the call record of the last step
          hist      \* Record = TRUE: the actions so far with the sharing structure they lead to
vars == <<H, depth, act, bad, hist>>
view == <<H, depth, bad>>

\* strict binding: evaluate e once, then Body on the value
Let(e, Body(_)) == CHOOSE y \in {Body(x) : x \in {e}} : TRUE

LabelOrder == <<"a", "b", "c", "d", "z">>
SortLabels(S) == SelectSeq(LabelOrder, LAMBDA x : x \in S)

(* ----------------------------- heap reading ---------------------------- *)
TermOf(h, t)  == h.bufs[h.arrs[h.tens[t].arr].buf]
LayOf(h, t)   == h.arrs[h.tens[t].arr].lay
ValT(h, t)    == LabelledValue(TermOf(h, t), h.tens[t].inds, LayOf(h, t), h.tens[t].tags, h.tens[t].left)
ValN(h, n)    == [ts |-> {ValT(h, h.nets[n].ts[k]) : k \in DOMAIN h.nets[n].ts}, exp |-> h.nets[n].exp]
Val(h, o)     == IF o[1] = "T" THEN ValT(h, o[2]) ELSE ValN(h, o[2])
\* what an observer sees of an object: the object's own fields (reported label order, tags, left) and the
\* bytes its array shows; for a network the observations of its tensors in order, and its exponent
ObsT(h, t)    == [t |-> h.tens[t].inds, g |-> h.tens[t].tags, l |-> h.tens[t].left,
                  bytes |-> [term |-> TermOf(h, t), lay |-> LayOf(h, t)]]
ObsN(h, n)    == [ts |-> [k \in DOMAIN h.nets[n].ts |-> ObsT(h, h.nets[n].ts[k])], exp |-> h.nets[n].exp]
Obs(h, o)     == IF o[1] = "T" THEN ObsT(h, o[2]) ELSE ObsN(h, o[2])
\* the bytes an ndarray object shows
Bytes(h, a)   == [term |-> h.bufs[h.arrs[a].buf], lay |-> h.arrs[a].lay]
Objects(h)    == {<<"T", t>> : t \in DOMAIN h.tens} \cup {<<"N", n>> : n \in DOMAIN h.nets}
TensOf(h, o)  == IF o[1] = "T" THEN {o[2]} ELSE Range(h.nets[o[2]].ts)
LabelsOfObj(h, o) == UNION {Range(h.tens[t].inds) : t \in TensOf(h, o)}

(* -------------------- transcription: tensor level ---------------------- *)
\* Tensor.copy(): new object, same array
CopyT(h, t) == [h |-> [h EXCEPT !.tens = Append(@, h.tens[t])], id |-> Len(h.tens) + 1]

\* t.modify(data=<new array>): fresh buffer, fresh ndarray, pointer replaced, left_inds dropped   (R1)
SetData(h, t, term, lay, inds) ==
  [h EXCEPT !.bufs = Append(@, term),
            !.arrs = Append(@, [buf |-> Len(h.bufs) + 1, lay |-> lay]),
            !.tens[t] = [@ EXCEPT !.arr = Len(h.arrs) + 1, !.inds = inds, !.left = {}]]

\* h must be a value (bound variable) at every call site
InplT(h, t, f, arg) ==
  LET T == h.tens[t]
      A == h.arrs[T.arr]
  IN
  CASE f = "scale" ->
         IF Dev = "write"
         THEN [h EXCEPT !.bufs[A.buf] = Append(@, "s"), !.tens[t].left = {}]   \* data *= c : every view of the buffer changes
         ELSE SetData(h, t, Append(h.bufs[A.buf], "s"), A.lay, T.inds)
    [] f = "reduce" ->
         LET pn == Pos(T.inds, arg)                                           \* R2: by label
             p  == IF Dev = "axis" THEN Pos(SortLabels(Range(T.inds)), arg) ELSE pn
         IN  SetData(h, t, h.bufs[A.buf] \o <<"sum", A.lay[p]>>, RemoveAt(A.lay, p), RemoveAt(T.inds, pn))
    [] f = "relabel" ->
         IF arg[1] \notin Range(T.inds) THEN h
         ELSE [h EXCEPT !.tens[t].inds = [k \in DOMAIN T.inds |-> IF T.inds[k] = arg[1] THEN arg[2] ELSE T.inds[k]],
                        !.tens[t].left = {IF z = arg[1] THEN arg[2] ELSE z : z \in T.left}]
    [] f = "retag" -> [h EXCEPT !.tens[t].tags = @ \cup {arg}]
    [] f = "transpose" ->                                                      \* np.transpose: a view, no new buffer
         [h EXCEPT !.arrs = Append(@, [buf |-> A.buf, lay |-> PermuteSeq(A.lay, arg)]),
                   !.tens[t] = [@ EXCEPT !.arr = Len(h.arrs) + 1, !.inds = PermuteSeq(T.inds, arg)]]

\* R3
PlainT(h, t, f, arg) ==
  IF Dev = "self" /\ f = "retag"
  THEN [h |-> InplT(h, t, f, arg), id |-> t]
  ELSE Let(CopyT(h, t), LAMBDA c : [h |-> InplT(c.h, c.id, f, arg), id |-> c.id])

\* x + y : `other.transpose(*self.inds)` (plain) then a new array from op(self.data, otherT.data)
BinaryT(h, op, x, y) ==
  Let(IF Dev = "align" THEN CopyT(h, y)                  \* deviation: no alignment
      ELSE PlainT(h, y, "transpose", [k \in DOMAIN h.tens[x].inds |-> Pos(h.tens[y].inds, h.tens[x].inds[k])]),
      LAMBDA yt :
        LET X == h.tens[x]
            labs == SortLabels(Range(X.inds))
            \* which axis of x's buffer meets which axis of y's buffer (position by position), listed in label order
            match == [k \in 1..(2 * Len(labs)) |->
                        LET p == Pos(X.inds, labs[(k + 1) \div 2])
                        IN  IF k % 2 = 1 THEN LayOf(yt.h, x)[p] ELSE LayOf(yt.h, yt.id)[p]]
            term == <<"(">> \o TermOf(h, x) \o <<op>> \o TermOf(h, y) \o <<"|">> \o match \o <<")">>
            new == [arr |-> 0, inds |-> X.inds, tags |-> X.tags \cup h.tens[y].tags, left |-> {}]
        IN  Let([yt.h EXCEPT !.tens = Append(@, new)],
                LAMBDA h1 : [h |-> SetData(h1, Len(h1.tens), term, LayOf(h, x), X.inds), id |-> Len(h1.tens)]))

(* -------------------- transcription: network level --------------------- *)
RECURSIVE CopyTs(_, _, _)
CopyTs(h, ts, acc) ==       \* copy the tensor objects of a network one after the other
  IF ts = <<>> THEN [h |-> h, ts |-> acc]
  ELSE Let(CopyT(h, Head(ts)), LAMBDA c : CopyTs(c.h, Tail(ts), Append(acc, c.id)))

CopyN(h, n, virtual) ==
  IF virtual
  THEN [h |-> [h EXCEPT !.nets = Append(@, h.nets[n])], id |-> Len(h.nets) + 1]
  ELSE Let(CopyTs(h, h.nets[n].ts, <<>>), LAMBDA c :
           [h |-> [c.h EXCEPT !.nets = Append(@, [ts |-> c.ts, exp |-> h.nets[n].exp])], id |-> Len(h.nets) + 1])

RECURSIVE EachT(_, _, _, _)
EachT(h, ts, f, arg) ==
  IF ts = <<>> THEN h ELSE Let(InplT(h, Head(ts), f, arg), LAMBDA h1 : EachT(h1, Tail(ts), f, arg))

InplN(h, n, f, arg) ==
  CASE f = "each"    -> EachT(h, h.nets[n].ts, "scale", arg)
    [] f = "relabel" -> EachT(h, h.nets[n].ts, "relabel", arg)
    [] f = "norm"    -> Let(EachT(h, h.nets[n].ts, "scale", arg), LAMBDA h1 : [h1 EXCEPT !.nets[n].exp = @ + 1])

PlainN(h, n, f, arg) ==
  IF Dev = "netself" /\ f = "relabel"
  THEN [h |-> InplN(h, n, f, arg), id |-> n]
  ELSE Let(CopyN(h, n, FALSE), LAMBDA c : [h |-> InplN(c.h, c.id, f, arg), id |-> c.id])

\* x & y (copies of the tensors) / x | y (the tensor objects themselves)
CombineN(h, x, y, virtual) ==
  IF virtual
  THEN [h |-> [h EXCEPT !.nets = Append(@, [ts |-> h.nets[x].ts \o h.nets[y].ts, exp |-> h.nets[x].exp + h.nets[y].exp])],
        id |-> Len(h.nets) + 1]
  ELSE Let(CopyTs(h, h.nets[x].ts \o h.nets[y].ts, <<>>), LAMBDA c :
           [h |-> [c.h EXCEPT !.nets = Append(@, [ts |-> c.ts, exp |-> h.nets[x].exp + h.nets[y].exp])], id |-> Len(h.nets) + 1])

(* ------------------------- uniform call interface ---------------------- *)
Plain(h, o, f, arg) ==
  IF o[1] = "T" THEN Let(PlainT(h, o[2], f, arg), LAMBDA r : [h |-> r.h, res |-> <<"T", r.id>>])
                ELSE Let(PlainN(h, o[2], f, arg), LAMBDA r : [h |-> r.h, res |-> <<"N", r.id>>])
Inpl(h, o, f, arg)  == IF o[1] = "T" THEN InplT(h, o[2], f, arg) ELSE InplN(h, o[2], f, arg)
CopyO(h, o) ==
  IF o[1] = "T" THEN Let(CopyT(h, o[2]), LAMBDA c : [h |-> c.h, o |-> <<"T", c.id>>])
                ELSE Let(CopyN(h, o[2], FALSE), LAMBDA c : [h |-> c.h, o |-> <<"N", c.id>>])
RunBinary(h, q) ==
  IF q[2][1] = "T" THEN Let(BinaryT(h, q[1], q[2][2], q[3][2]), LAMBDA r : [h |-> r.h, res |-> <<"T", r.id>>])
                   ELSE Let(CombineN(h, q[2][2], q[3][2], q[1] = "|"), LAMBDA r : [h |-> r.h, res |-> <<"N", r.id>>])
RefApply(o, f, arg, v) == IF o[1] = "T" THEN RefApplyT(f, arg, v) ELSE RefApplyN(f, arg, v)

\* a reversal and a cyclic shift (both the identity for rank < 2)
TestPerms(n) == {[k \in 1..n |-> n + 1 - k], [k \in 1..n |-> (k % n) + 1]}

\* the calls that are in the domain of a method for receiver o in heap h
Calls(h, o) ==
  IF o[1] = "T"
  THEN LET inds == h.tens[o[2]].inds IN
       {<<"scale", "-">>, <<"retag", "R">>}
       \cup {<<"reduce", x>> : x \in Range(inds)}
       \cup {<<"relabel", <<x, "z">>>> : x \in {y \in Range(inds) : "z" \notin Range(inds)}}
       \cup {<<"transpose", pi>> : pi \in TestPerms(Len(inds))}
  ELSE {<<"each", "-">>, <<"norm", "-">>}
       \cup {<<"relabel", <<x, "z">>>> : x \in {y \in LabelsOfObj(h, o) : "z" \notin LabelsOfObj(h, o)}}

\* re-storages tried inside one call record: two per tensor involved
\* (*every* stored order of every tensor is reached by the action PermuteStorage)
Storages(h, o) == UNION {{<<t, pi>> : pi \in TestPerms(Len(h.tens[t].inds))} : t \in TensOf(h, o)}
PermuteStorageH(h, t, pi) == InplT(h, t, "transpose", pi)

\* labels summed inside a network (carried by two of its tensors)
InnerOf(h, n) == {x \in LabelsOfObj(h, <<"N", n>>) :
                    Cardinality({k \in DOMAIN h.nets[n].ts : x \in Range(h.tens[h.nets[n].ts[k]].inds)}) >= 2}

\* operands of a binary operator (networks whose summed labels clash are combined on the real code only:
\* quimb then renames the clashing labels of the right operand, see KF-C03-1)
BinaryPairs(h) ==
  {q \in {"+"} \X Objects(h) \X Objects(h) :
      q[2][1] = "T" /\ q[3][1] = "T" /\ Range(h.tens[q[2][2]].inds) = Range(h.tens[q[3][2]].inds)}
  \cup {q \in {"&", "|"} \X Objects(h) \X Objects(h) :
          q[2][1] = "N" /\ q[3][1] = "N" /\ q[2] # q[3]
          /\ Range(h.nets[q[2][2]].ts) \cap Range(h.nets[q[3][2]].ts) = {}
          /\ InnerOf(h, q[2][2]) \cap InnerOf(h, q[3][2]) = {}}

(* ------------------------- the call record ----------------------------- *)
Around(h, h2, S)  == [q \in S |-> [before |-> Obs(h, q), after |-> Obs(h2, q)]]
ArraysAround(h, h2) == [a \in DOMAIN h.arrs |-> [before |-> Bytes(h, a), after |-> Bytes(h2, a)]]

\* p = plain run, c = copy of the receiver, hi = heap after the in-place run on the copy (all values)
CallRecordOf(h, o, f, arg, p, c, hi, v0, vp) ==
  [ev |-> "call", name |-> f,
   recv    |-> [before |-> Obs(h, o), after |-> Obs(p.h, o)],
   args    |-> <<>>,
   sharers |-> Around(h, p.h, Objects(h) \ {o}),
   arrays  |-> ArraysAround(h, p.h),
   plain   |-> [exc |-> "", st |-> vp, stw |-> vp, stv |-> vp, dq |-> 0, isrecv |-> p.res = o],
   inpl    |-> [exc |-> "", st |-> Val(hi, c.o), dq |-> 0, self |-> TRUE,
                orig |-> [before |-> Obs(h, o), after |-> Obs(hi, o)],
                arrays |-> ArraysAround(h, hi)],
   perm    |-> [s \in Storages(h, o) |->
                  Let(PermuteStorageH(h, s[1], s[2]), LAMBDA hp :
                    \* a transpose call on a re-stored receiver is given the same *target label order*
                    Let(IF f = "transpose" /\ o[1] = "T"
                        THEN [k \in DOMAIN arg |-> Pos(hp.tens[o[2]].inds, PermuteSeq(h.tens[o[2]].inds, arg)[k])]
                        ELSE arg, LAMBDA argp :
                      Let(Plain(hp, o, f, argp), LAMBDA pp :
                        [exc |-> "", st |-> Val(pp.h, pp.res), dq |-> 0, level |-> "tensor", mode |-> "model", same_in |-> Val(hp, o) = v0,
                         pure |-> Obs(pp.h, o) = Obs(hp, o)])))],
   randomised |-> FALSE, docself |-> TRUE, hasinpl |-> TRUE, gauge |-> FALSE, orderdep |-> FALSE]

BinaryRecordOf(h, q, p) ==
  [ev |-> "call", name |-> q[1],
   recv    |-> [before |-> Obs(h, q[2]), after |-> Obs(p.h, q[2])],
   args    |-> << [before |-> Obs(h, q[3]), after |-> Obs(p.h, q[3])] >>,
   sharers |-> Around(h, p.h, Objects(h) \ {q[2], q[3]}),
   arrays  |-> ArraysAround(h, p.h),
   plain   |-> [exc |-> "", st |-> Val(p.h, p.res), stw |-> Val(p.h, p.res), stv |-> Val(p.h, p.res), dq |-> 0,
                isrecv |-> p.res \in {q[2], q[3]}],
   inpl    |-> [exc |-> ""],
   perm    |-> [s \in Storages(h, q[2]) \cup Storages(h, q[3]) |->
                  Let(PermuteStorageH(h, s[1], s[2]), LAMBDA hp :
                    Let(RunBinary(hp, q), LAMBDA pp :
                      [exc |-> "", st |-> Val(pp.h, pp.res), dq |-> 0, level |-> "tensor", mode |-> "model",
                       same_in |-> Val(hp, q[2]) = Val(h, q[2]) /\ Val(hp, q[3]) = Val(h, q[3]),
                       pure |-> Obs(pp.h, q[2]) = Obs(hp, q[2]) /\ Obs(pp.h, q[3]) = Obs(hp, q[3])]))],
   randomised |-> FALSE, docself |-> FALSE, hasinpl |-> FALSE, gauge |-> FALSE, orderdep |-> FALSE]

FailedIn(r) == Let(r, LAMBDA rv : Let(CallClauses(rv), LAMBDA cl : {cl[k][1] : k \in {j \in DOMAIN cl : ~cl[j][2]}}))

\* verdict of a plain call: the clauses of the record, and "the result is the reference function of the
\* labelled value of the receiver" (so it cannot depend on how anything is stored)
VerdictPlain(h, o, f, arg, p) ==
  Let(CopyO(h, o), LAMBDA c :
    Let(Inpl(c.h, c.o, f, arg), LAMBDA hi :
      Let(Val(h, o), LAMBDA v0 :
        Let(Val(p.h, p.res), LAMBDA vp :
          FailedIn(CallRecordOf(h, o, f, arg, p, c, hi, v0, vp))
          \cup (IF vp = RefApply(o, f, arg, v0) THEN {} ELSE {"ResultIsRef"})))))

\* verdict of an in-place call: only objects built on the receiver's tensor objects change, no array changes,
\* and the receiver becomes the reference value
VerdictInplace(h, o, f, arg, hi) ==
  IF /\ \A q \in Objects(h) : (TensOf(h, q) \cap TensOf(h, o) = {} /\ q # o) => Obs(hi, q) = Obs(h, q)
     /\ \A a \in DOMAIN h.arrs : Bytes(hi, a) = Bytes(h, a)
     /\ Val(hi, o) = RefApply(o, f, arg, Val(h, o))
  THEN {} ELSE {"InplaceLocal"}

VerdictBinary(h, q, p) ==
  FailedIn(BinaryRecordOf(h, q, p))
  \cup (IF q[2][1] = "T"
        THEN IF Val(p.h, p.res) = RefBinaryT(q[1], LabelOrder, ValT(h, q[2][2]), ValT(h, q[3][2])) THEN {} ELSE {"ResultIsRef"}
        ELSE IF Val(p.h, p.res) = RefCombine(ValN(h, q[2][2]), ValN(h, q[3][2])) THEN {} ELSE {"ResultIsRef"})

\* structural steps must not change any existing object either
VerdictQuiet(h, h2, valueOnly) ==
  IF \A q \in Objects(h) : IF valueOnly THEN Val(h2, q) = Val(h, q) ELSE Obs(h2, q) = Obs(h, q)
  THEN {} ELSE {"QuietStep"}

(* ------------------------------ actions -------------------------------- *)
Room(h, o) == Len(h.tens) + (IF o[1] = "T" THEN 1 ELSE Len(h.nets[o[2]].ts)) <= MaxTens
\* which tensors read the same buffer: for every tensor the smallest tensor id reading its buffer
ShareOf(h) == [t \in DOMAIN h.tens |->
                 CHOOSE u \in DOMAIN h.tens :
                    /\ h.arrs[h.tens[u].arr].buf = h.arrs[h.tens[t].arr].buf
                    /\ \A w \in DOMAIN h.tens : h.arrs[h.tens[w].arr].buf = h.arrs[h.tens[t].arr].buf => u <= w]
Step(a)    == /\ depth < MaxDepth /\ depth' = depth + 1 /\ act' = a
              /\ hist' = IF Record THEN Append(hist, [act |-> a, share |-> ShareOf(H'), inds |-> [t \in DOMAIN H'.tens |-> H'.tens[t].inds],
                                                         nets |-> [n \in DOMAIN H'.nets |-> H'.nets[n].ts]])
                          ELSE hist
\* copying / viewing / adopting / re-storing only set the scene: a history ends with a call
Setup(a)   == depth + 1 < MaxDepth /\ Step(a)

\* c = o.copy()
Copy(o) ==
  /\ depth + 1 < MaxDepth /\ Room(H, o)
  /\ \E c \in {CopyO(H, o)} : H' = c.h /\ bad' = (IF Judge THEN VerdictQuiet(H, c.h, FALSE) ELSE {})
  /\ Setup(<<"copy", o>>)
\* v = n.copy(virtual=True)
VCopy(n) ==
  /\ depth + 1 < MaxDepth
  /\ \E c \in {CopyN(H, n, TRUE)} : H' = c.h /\ bad' = (IF Judge THEN VerdictQuiet(H, c.h, FALSE) ELSE {})
  /\ Setup(<<"vcopy", n>>)
\* m = TensorNetwork([t], virtual=True): t is now owned by one more network
Adopt(t) ==
  /\ depth + 1 < MaxDepth
  /\ H' = [H EXCEPT !.nets = Append(@, [ts |-> <<t>>, exp |-> 0])] /\ bad' = {}
  /\ Setup(<<"adopt", t>>)
\* t.transpose_(*perm): same labelled content, another stored order; every object keeps its *value*
PermuteStorage(t, pi) ==
  /\ depth + 1 < MaxDepth /\ \E k \in DOMAIN pi : pi[k] # k
  /\ \E h2 \in {PermuteStorageH(H, t, pi)} :
        H' = h2 /\ bad' = (IF Judge THEN VerdictQuiet(H, h2, TRUE) \cup VerdictInplace(H, <<"T", t>>, "transpose", pi, h2) ELSE {})
  /\ Setup(<<"permute", t, pi>>)
CallPlain(o, c) ==
  /\ depth < MaxDepth /\ Room(H, o)
  /\ \E p \in {Plain(H, o, c[1], c[2])} : H' = p.h /\ bad' = (IF Judge THEN VerdictPlain(H, o, c[1], c[2], p) ELSE {})
  /\ Step(<<"plain", o, c>>)
CallInplace(o, c) ==
  /\ depth < MaxDepth /\ c[1] # "transpose"
  /\ \E hi \in {Inpl(H, o, c[1], c[2])} : H' = hi /\ bad' = (IF Judge THEN VerdictInplace(H, o, c[1], c[2], hi) ELSE {})
  /\ Step(<<"inplace", o, c>>)
Binary(q) ==
  /\ depth < MaxDepth
  /\ Len(H.tens) + (IF q[2][1] = "T" THEN 2 ELSE Len(H.nets[q[2][2]].ts) + Len(H.nets[q[3][2]].ts)) <= MaxTens
  /\ \E p \in {RunBinary(H, q)} : H' = p.h /\ bad' = (IF Judge THEN VerdictBinary(H, q, p) ELSE {})
  /\ Step(<<"binary", q>>)

CopyA     == \E o \in Objects(H) : Copy(o)
VCopyA    == \E n \in DOMAIN H.nets : VCopy(n)
AdoptA    == \E t \in DOMAIN H.tens : Adopt(t)
PermuteA  == \E t \in DOMAIN H.tens : \E pi \in PermsOf(Len(H.tens[t].inds)) : PermuteStorage(t, pi)
PlainA    == \E o \in Objects(H) : \E c \in Calls(H, o) : CallPlain(o, c)
InplaceA  == \E o \in Objects(H) : \E c \in Calls(H, o) : CallInplace(o, c)
AddA      == \E q \in BinaryPairs(H) : q[1] = "+" /\ Binary(q)
CombineA  == \E q \in BinaryPairs(H) : q[1] # "+" /\ Binary(q)

Next == CopyA \/ VCopyA \/ AdoptA \/ PermuteA \/ PlainA \/ InplaceA \/ AddA \/ CombineA

\* one rank-3 tensor, one rank-2 tensor sharing label "c" with it, one network holding both,
\* and a second network holding a vector on label "d"
Init ==
  /\ H = [bufs |-> << <<"X">>, <<"Y">>, <<"W">> >>,
          arrs |-> << [buf |-> 1, lay |-> <<"p", "q", "r">>], [buf |-> 2, lay |-> <<"u", "v">>], [buf |-> 3, lay |-> <<"w">>] >>,
          tens |-> << [arr |-> 1, inds |-> <<"a", "b", "c">>, tags |-> {"P"}, left |-> {"a"}],
                      [arr |-> 2, inds |-> <<"c", "d">>, tags |-> {"Q"}, left |-> {}],
                      [arr |-> 3, inds |-> <<"d">>, tags |-> {"Q"}, left |-> {}] >>,
          nets |-> << [ts |-> <<1, 2>>, exp |-> 0], [ts |-> <<3>>, exp |-> 1] >>]
  /\ depth = 0 /\ act = <<"init">> /\ bad = {} /\ hist = <<>>

Spec == Init /\ [][Next]_vars

\* a complete behaviour is printed when it reaches the depth bound (S->C replay)
EmitJson == depth = MaxDepth => PrintT(<<"QVJSON", ToJson(hist)>>)

(* ----------------------------- properties ------------------------------ *)
PlainPureInv            == "PlainPure" \notin bad
PlainReturnsNewObjectInv == "PlainReturnsNewObject" \notin bad
SharersUntouchedInv     == "SharersUntouched" \notin bad
ArraysUntouchedInv      == "ArraysUntouched" \notin bad
PlainIsInplaceOnCopyInv == "PlainIsInplaceOnCopy" \notin bad
CopyIsolatedInv         == "CopyIsolated" \notin bad
PermInvariantInv        == "PermInvariant" \notin bad
ResultIsRefInv          == "ResultIsRef" \notin bad
InplaceLocalInv         == "InplaceLocal" \notin bad
QuietStepInv            == "QuietStep" \notin bad
NothingElseInv          == bad \subseteq {"PlainPure", "PlainReturnsNewObject", "SharersUntouched", "ArraysUntouched", "PlainIsInplaceOnCopy",
                                          "CopyIsolated", "PermInvariant", "ResultIsRef", "InplaceLocal", "QuietStep"}
=============================================================================
