SPECIFICATION Spec
CONSTANTS
  MaxDepth = 1
  MaxTens = 5
  Dev = "none"
VIEW view
INVARIANT PlainPureInv
INVARIANT SharersUntouchedInv
INVARIANT ArraysUntouchedInv
INVARIANT PlainIsInplaceOnCopyInv
INVARIANT CopyIsolatedInv
INVARIANT PermInvariantInv
INVARIANT ResultIsRefInv
INVARIANT InplaceLocalInv
CHECK_DEADLOCK FALSE
