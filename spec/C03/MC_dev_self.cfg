SPECIFICATION Spec
CONSTANTS
  MaxDepth = 2
  MaxTens = 5
  Judge = TRUE
  Record = FALSE
  Dev = "self"
VIEW view
INVARIANT PlainPureInv
INVARIANT PlainReturnsNewObjectInv
INVARIANT SharersUntouchedInv
INVARIANT ArraysUntouchedInv
INVARIANT PlainIsInplaceOnCopyInv
INVARIANT CopyIsolatedInv
INVARIANT PermInvariantInv
INVARIANT ResultIsRefInv
INVARIANT InplaceLocalInv
INVARIANT QuietStepInv
INVARIANT NothingElseInv
CHECK_DEADLOCK FALSE
