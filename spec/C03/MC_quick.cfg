SPECIFICATION Spec
CONSTANTS
  MaxDepth = 2
  MaxTens = 6
  Judge = TRUE
  Record = FALSE
  Dev = "none"
VIEW view
INVARIANT PlainPureInv
INVARIANT PlainReturnsNewObjectInv
INVARIANT SharersUntouchedInv
INVARIANT ArraysUntouchedInv
INVARIANT PlainIsInplaceOnCopyInv
INVARIANT CopyIsolatedInv
INVARIANT PermInvariantInv
INVARIANT ResultIsRefInv
INVARIANT InplaceLocalInv
INVARIANT QuietStepInv
INVARIANT NothingElseInv
CHECK_DEADLOCK FALSE
