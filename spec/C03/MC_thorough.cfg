SPECIFICATION Spec
CONSTANTS
  MaxDepth = 4
  MaxTens = 6
  Dev = "none"
VIEW view
INVARIANT PlainPureInv
INVARIANT SharersUntouchedInv
INVARIANT ArraysUntouchedInv
INVARIANT PlainIsInplaceOnCopyInv
INVARIANT CopyIsolatedInv
INVARIANT PermInvariantInv
INVARIANT ResultIsRefInv
INVARIANT InplaceLocalInv
CHECK_DEADLOCK FALSE
