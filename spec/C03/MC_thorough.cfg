SPECIFICATION Spec
CONSTANTS
  MaxDepth = 4
  MaxTens = 6
  Dev = "none"
VIEW view
INVARIANT PlainPureInv
INVARIANT SharersUntouchedInv
INVARIANT ArraysUntouchedInv
INVARIANT PlainIsInplaceOnCopyInv
INVARIANT CopyIsolatedInv
INVARIANT PermInvariantInv
INVARIANT ResultIsRefInv
INVARIANT InplaceLocalInv
INVARIANT QuietStepInv
INVARIANT NothingElseInv
CHECK_DEADLOCK FALSE
