SPECIFICATION Spec
CONSTANTS
  Tens = {"A", "B", "C"}
  Exps <- ExpsC
  Shifts <- ShiftsC
  MaxDepth = 4
  PreFix = TRUE
INVARIANT ValuePreserved
INVARIANT RouteExact
CHECK_DEADLOCK FALSE
