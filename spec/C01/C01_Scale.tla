------------------------------ MODULE C01_Scale ------------------------------
(***************************************************************************)
(* C01 - implementation-shaped model of the scale / exponent bookkeeping   *)
(* of quimb's contraction entry points (tensor_core.py at the pinned       *)
(* commit + the "fix:" commits): a network denotes                          *)
(*        V * 10^(sum of tensor scales + stored exponent)                  *)
(* where V is the value of the unscaled data.  Update actions move powers  *)
(* of ten between tensors and the stored exponent; every evaluation route  *)
(* must return that total.  The numeric part (V itself) is checked on the  *)
(* real code by the trace spec with LTensor!Denote.                        *)
(***************************************************************************)
EXTENDS Integers, FiniteSets, TLC

CONSTANTS Tens,       \* tensor ids of the initial network
          Exps,       \* possible initial stored exponents
          Shifts,     \* powers of ten an update may move
          MaxDepth,
          PreFix      \* TRUE: the routes as before the fixes (self-test: must violate RouteExact)

VARIABLES live,    \* set of tensor ids currently in the network (contraction merges ids)
          sc,      \* sc[t]: power of ten carried by tensor t relative to its unscaled data
          E,       \* stored exponent of the network
          want,    \* the power of ten the network must denote (changes only by Multiply)
          res,     \* last route result: <<"none">> or <<route, returned power of ten>>
          depth

vars == <<live, sc, E, want, res, depth>>

RECURSIVE Sum(_, _)
Sum(S, f) == IF S = {} THEN 0 ELSE LET x == CHOOSE y \in S : TRUE IN f[x] + Sum(S \ {x}, f)
Total == Sum(live, sc) + E

Init == /\ live = Tens /\ sc = [t \in Tens |-> 0] /\ E \in Exps /\ want = E
        /\ res = <<"none">> /\ depth = 0

Step == depth < MaxDepth /\ depth' = depth + 1

(* ---- updates (must preserve the denoted value) ---- *)
\* tn.strip_exponent(t): t /= 10^k, exponent += k
StripExponent(t, k) ==
  /\ Step /\ t \in live
  /\ sc' = [sc EXCEPT ![t] = @ - k] /\ E' = E + k
  /\ UNCHANGED <<live, want>> /\ res' = <<"none">>

\* tn.distribute_exponent(new): every tensor *= 10^((E - new)/n)   (modelled when n divides E - new)
DistributeExponent(new) ==
  /\ Step /\ live # {}
  /\ (E - new) % Cardinality(live) = 0
  /\ sc' = [t \in DOMAIN sc |-> IF t \in live THEN sc[t] + (E - new) \div Cardinality(live) ELSE sc[t]]
  /\ E' = new
  /\ UNCHANGED <<live, want>> /\ res' = <<"none">>

\* tn.multiply_(10^k): changes the value on purpose
Multiply(k) ==
  /\ Step /\ live # {}
  /\ \E t \in live : sc' = [sc EXCEPT ![t] = @ + k]
  /\ want' = want + k
  /\ UNCHANGED <<live, E>> /\ res' = <<"none">>

\* tn.contract_tags_(S) in place (partial or total): S is merged into one tensor;
\* with equalize_norms the merged tensor is normalised to scale j and the rest goes to the exponent
ContractInplace(S, strip, j) ==
  /\ Step /\ S \subseteq live /\ Cardinality(S) >= 2
  /\ LET keep == CHOOSE t \in S : TRUE
         tot  == Sum(S, sc) IN
     /\ live' = (live \ S) \cup {keep}
     /\ IF strip THEN sc' = [sc EXCEPT ![keep] = j] /\ E' = E + (tot - j)
                 ELSE sc' = [sc EXCEPT ![keep] = tot] /\ E' = E
  /\ UNCHANGED want /\ res' = <<"none">>

(* ---- routes (queries): res' = <<name, power of ten of the returned value>> ---- *)
Route(name, p) == Step /\ res' = <<name, p>> /\ UNCHANGED <<live, sc, E, want>>

\* tn.contract(all) / tn ^ all / tn.to_dense / norm / overlap : tensor_contract(..., exponent=tn.exponent)
ContractAll      == Route("contract_all", Sum(live, sc) + E)
\* tn.contract(all, strip_exponent=True): mantissa and exponent returned separately; their product counts
ContractAllStrip == Route("contract_all_strip", Sum(live, sc) + E)
\* tn.contract_tags(tags covering everything) / tn ^ tags / tn.trace(l, r): early return of contract_tags
ContractTagsAll  == Route("contract_tags_all", IF PreFix THEN Sum(live, sc) ELSE Sum(live, sc) + E)
\* tn.contract_cumulative(...): maybe_unwrap multiplies by 10^exponent
ContractCumul    == Route("contract_cumulative", Sum(live, sc) + E)
\* TNLinearOperator(tn, ...) @ v, .to_dense()
LinOp            == Route("linop", IF PreFix THEN Sum(live, sc) ELSE Sum(live, sc) + E)

Next ==
  \/ \E t \in Tens, k \in Shifts : StripExponent(t, k)
  \/ \E new \in Exps : DistributeExponent(new)
  \/ \E k \in Shifts : Multiply(k)
  \/ \E S \in SUBSET Tens, strip \in BOOLEAN, j \in {0, 1} : ContractInplace(S, strip, j)
  \/ ContractAll \/ ContractAllStrip \/ ContractTagsAll \/ ContractCumul \/ LinOp

Spec == Init /\ [][Next]_vars

ValuePreserved == Total = want
RouteExact     == res[1] # "none" => res[2] = want
=============================================================================
