------------------------------ MODULE C01_Inds ------------------------------
(***************************************************************************)
(* C01 - which labels survive a partial contraction.                        *)
(* A network is a set of tensors, each a set of labels (multiplicity inside *)
(* one tensor is not modelled here); `out` are the labels the caller wants  *)
(* as outputs of the whole network (for a network without hyper labels: the *)
(* labels carried by exactly one tensor).  Partial contraction merges a     *)
(* subset of the tensors into one.  The implementation-shaped rule is the   *)
(* transcription of TensorNetwork.compute_contracted_inds (tensor_core.py): *)
(* a label of the merged tensors is KEPT iff it also sits on a tensor that  *)
(* is not being merged, or it is an output label.                           *)
(* Property: whatever the order of partial contractions, a label is summed  *)
(* exactly when its last holder is merged and it is not an output; so the   *)
(* final single tensor carries exactly `out` (ValuePreserved in its         *)
(* combinatorial form: no label summed early, none left dangling).          *)
(***************************************************************************)
EXTENDS Integers, FiniteSets, TLC

CONSTANTS Labels,        \* e.g. {"a","b","c","d"}
          NT,            \* number of tensors initially
          EarlySum       \* TRUE: the seeded variant "keep only labels that appear once among the merged tensors" (must fail)

VARIABLES net,     \* function: tensor id -> set of labels (ids of merged tensors disappear)
          out,     \* requested output labels
          summed,  \* labels that have been summed over so far
          holders0 \* initial holders of each label (never changes)
vars == <<net, out, summed, holders0>>

Ids == 1..NT
Holders(n, x) == {i \in DOMAIN n : x \in n[i]}

Init ==
  /\ net \in [Ids -> SUBSET Labels]
  /\ \A x \in Labels : Holders(net, x) # {}                   \* every label is used
  /\ out \in SUBSET Labels
  \* outputs include every label carried by exactly one tensor (those cannot be summed)
  /\ \A x \in Labels : Cardinality(Holders(net, x)) = 1 => x \in out
  /\ summed = {}
  /\ holders0 = [x \in Labels |-> Holders(net, x)]

\* compute_contracted_inds(*tids, output_inds=out)
Kept(n, S) ==
  LET all == UNION {n[i] : i \in S} IN
  IF EarlySum
  THEN {x \in all : Cardinality({i \in S : x \in n[i]}) = 1 \/ x \in out}
  ELSE {x \in all : ({i \in S : x \in n[i]} # Holders(n, x)) \/ x \in out}

\* contract the tensors S (|S| >= 2) into one, stored under the smallest id of S
Contract(S) ==
  /\ S \subseteq DOMAIN net /\ Cardinality(S) >= 2
  /\ LET keep == Kept(net, S)
         all  == UNION {net[i] : i \in S}
         k    == CHOOSE i \in S : \A j \in S : i <= j IN
     /\ net' = [i \in (DOMAIN net \ S) \cup {k} |-> IF i = k THEN keep ELSE net[i]]
     /\ summed' = summed \cup (all \ keep)
  /\ UNCHANGED <<out, holders0>>

Next == \E S \in SUBSET Ids : Contract(S)
Spec == Init /\ [][Next]_vars

Present == UNION {net[i] : i \in DOMAIN net}
\* an output label is never summed; a summed label is gone from the network (all its holders were merged)
NoOutputSummed == summed \cap out = {}
NoEarlySum     == summed \cap Present = {}
\* nothing is dropped without being summed, nothing new appears
Conserved      == Present \cup summed = Labels
\* when everything has been merged the single tensor carries exactly the requested outputs
FinalIsOut     == Cardinality(DOMAIN net) = 1 => Present = out
=============================================================================
