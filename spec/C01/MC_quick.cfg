SPECIFICATION Spec
CONSTANTS
  Tens = {"A", "B", "C"}
  Exps <- ExpsC
  Shifts <- ShiftsC
  MaxDepth = 5
  PreFix = FALSE
INVARIANT ValuePreserved
INVARIANT RouteExact
CHECK_DEADLOCK FALSE
