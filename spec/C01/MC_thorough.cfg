SPECIFICATION Spec
CONSTANTS
  Tens = {"A", "B", "C"}
  Exps <- ExpsC
  Shifts <- ShiftsC
  MaxDepth = 7
  PreFix = FALSE
INVARIANT ValuePreserved
INVARIANT RouteExact
CHECK_DEADLOCK FALSE
