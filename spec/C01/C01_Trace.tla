----------------------------- MODULE C01_Trace -----------------------------
(***************************************************************************)
(* Trace spec for C01.  A trace starts with a `new` record that carries a  *)
(* whole network with Gaussian-integer data and an integer stored exponent;*)
(* TLC keeps it as the state of the trace.  Every later record is the      *)
(* observation of one public evaluation route (or of the network after an  *)
(* in-place update, densified with plain numpy): TLC recomputes the value  *)
(* with LTensor!Denote - the statement of C01 - and compares.              *)
(* Results are logged multiplied by 10^scale so that negative stored       *)
(* exponents stay integral: expected = Denote * 10^(exp10 + scale).        *)
(***************************************************************************)
EXTENDS LTensor, TraceIO

VARIABLES l, fails, net, exp10
tvars == <<l, fails, net, exp10>>

Scaled(seq, p) == [k \in DOMAIN seq |-> GScale(Pow10(p), seq[k])]

\* the matrix of the network seen as an operator  left -> right  (rows = left labels)
OpMat(nt, left, right) ==
  LET dl == [k \in DOMAIN left  |-> DimOf(nt, left[k])]
      dr == [k \in DOMAIN right |-> DimOf(nt, right[k])]
  IN  [rows |-> Size(dl), cols |-> Size(dr), data |-> Denote(nt, left \o right)]
ConjMat(M) == [M EXCEPT !.data = [k \in DOMAIN M.data |-> GConj(M.data[k])]]
Variant1(M, op) == CASE op = "N" -> M [] op = "T" -> Transpose(M) [] op = "C" -> ConjMat(M) [] op = "H" -> Dagger(M)
\* `op` is one letter or a sequence of letters applied one after the other (A.H.H, A.conj().T, ...)
RECURSIVE VariantSeq(_, _)
VariantSeq(M, ops) == IF ops = <<>> THEN M ELSE VariantSeq(Variant1(M, Head(ops)), Tail(ops))
Variant(M, ops) == VariantSeq(M, ops)
TraceOf(M) == SumG(LAMBDA i : MatEntry(M, i, i), 1, M.rows)

OnGrid(ln) == ln.ongrid

RouteClauses(ln, nt, e) ==
  << <<"Returns", ln.exc = "">>,
     <<"OnGrid", ln.exc = "" => OnGrid(ln)>>,
     <<"ValueExact", (ln.exc = "" /\ OnGrid(ln)) => ln.result = Scaled(Denote(nt, ln.out), e + ln.scale)>>,
     <<"OutputOrder", ln.exc = "" => ln.labels = ln.out>> >>

\* squared norm: sum of |entries|^2 over the outer labels, times 10^(2 e)
NormClauses(ln, nt, e) ==
  LET d == Denote(nt, ln.out)
      n2 == SumI(LAMBDA k : GAbs2(d[k]), 1, Len(d)) IN
  << <<"Returns", ln.exc = "">>,
     <<"OnGrid", ln.exc = "" => OnGrid(ln)>>,
     <<"NormExact", (ln.exc = "" /\ OnGrid(ln)) => ln.result = n2 * Pow10(2 * (e + ln.scale))>> >>

LinopClauses(ln, nt, e) ==
  LET M == Variant(OpMat(nt, ln.left, ln.right), ln.ops)
      expect == IF ln.kind = "trace" THEN <<TraceOf(M)>>
                ELSE IF ln.kind = "dense" THEN M.data
                ELSE MatVec(M, ln.vec) IN
  << <<"Returns", ln.exc = "">>,
     <<"OnGrid", ln.exc = "" => OnGrid(ln)>>,
     <<"LinearOperatorExact", (ln.exc = "" /\ OnGrid(ln)) => ln.result = Scaled(expect, e + ln.scale)>> >>

\* after an update (in place or returning a network) the network, densified with numpy, denotes the same
UpdateClauses(ln, nt, e) ==
  << <<"Returns", ln.exc = "">>,
     <<"OnGrid", ln.exc = "" => OnGrid(ln)>>,
     <<"ValuePreserved", (ln.exc = "" /\ OnGrid(ln)) => ln.result = Scaled(Denote(nt, ln.out), e + ln.scale)>>,
     <<"OuterSame", ln.exc = "" => SeqRange(ln.outer_after) = SeqRange(ln.outer_before)>> >>

\* <other|self> = sum over the outer labels of conj(other) * self   (the argument is conjugated)
OverlapClauses(ln, nt, e) ==
  LET a == Denote(nt, ln.out)
      b == Denote(ln.other, ln.out)
      ov == SumG(LAMBDA k : GMul(GConj(b[k]), a[k]), 1, Len(a)) IN
  << <<"Returns", ln.exc = "">>,
     <<"OnGrid", ln.exc = "" => OnGrid(ln)>>,
     <<"OverlapExact", (ln.exc = "" /\ OnGrid(ln)) => ln.result = <<GScale(Pow10(e + ln.exp_other + ln.scale), ov)>> >> >>

\* scalar multiples, negation and conjugation of the whole network
ScaledClauses(ln, nt, e) ==
  LET d == Denote(nt, ln.out)
      expect == [k \in DOMAIN d |-> GMul(ln.c, IF ln.conj THEN GConj(d[k]) ELSE d[k])] IN
  << <<"Returns", ln.exc = "">>,
     <<"OnGrid", ln.exc = "" => OnGrid(ln)>>,
     <<"ScalarMultipleExact", (ln.exc = "" /\ OnGrid(ln)) => ln.result = Scaled(expect, e + ln.scale)>> >>

\* selecting one value of a label: the block of the dense form with that label (slowest) fixed
IselClauses(ln, nt, e) ==
  LET full == Denote(nt, <<ln.ix>> \o ln.out)
      nout == Len(full) \div DimOf(nt, ln.ix)
      blk == [k \in 1..nout |-> full[ln.k * nout + k]] IN
  << <<"Returns", ln.exc = "">>,
     <<"OnGrid", ln.exc = "" => OnGrid(ln)>>,
     <<"SliceExact", (ln.exc = "" /\ OnGrid(ln)) => ln.result = Scaled(blk, e + ln.scale)>> >>

Clauses(ln, nt, e) ==
  CASE ln.ev = "new"    -> << <<"SizesConsistent", SizesConsistent(ln.net)>> >>
    [] ln.ev = "overlap2" -> OverlapClauses(ln, nt, e)
    [] ln.ev = "scaled"   -> ScaledClauses(ln, nt, e)
    [] ln.ev = "isel"     -> IselClauses(ln, nt, e)
    [] ln.ev = "route"  -> RouteClauses(ln, nt, e)
    [] ln.ev = "norm"   -> NormClauses(ln, nt, e)
    [] ln.ev = "linop"  -> LinopClauses(ln, nt, e)
    [] ln.ev = "update" -> UpdateClauses(ln, nt, e)
    [] OTHER            -> << <<"UnknownEvent", FALSE>> >>

TInit == l = 1 /\ fails = <<>> /\ net = <<>> /\ exp10 = 0
TNext == /\ l <= NLines
         /\ LET ln == TraceLog[l]
                nt == IF ln.ev = "new" THEN ln.net ELSE net
                e  == IF ln.ev = "new" THEN ln.exp10 ELSE exp10 IN
            /\ fails' = AddFails(fails, l, Clauses(ln, nt, e))
            /\ net' = nt /\ exp10' = e
         /\ l' = l + 1
TSpec == TInit /\ [][TNext]_tvars
Done == l = NLines + 1 => WriteVerdict(l - 1, fails)
=============================================================================
