SPECIFICATION Spec
CONSTANTS
  Labels = {"a", "b", "c"}
  NT = 4
  EarlySum = FALSE
INVARIANT NoOutputSummed
INVARIANT NoEarlySum
INVARIANT Conserved
INVARIANT FinalIsOut
CHECK_DEADLOCK FALSE
