SPECIFICATION Spec
CONSTANTS
  Labels = {"a", "b", "c"}
  NT = 3
  EarlySum = TRUE
INVARIANT NoOutputSummed
INVARIANT NoEarlySum
INVARIANT Conserved
INVARIANT FinalIsOut
CHECK_DEADLOCK FALSE
