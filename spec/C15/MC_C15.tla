------------------------------ MODULE MC_C15 ------------------------------
EXTENDS C15_Kron
\* all sequences over S of length 1..n
SeqsUpTo(S, n) == UNION {[1..k -> S] : k \in 1..n}
\* every dimension list over {1,2,3} of length <= 3 (D <= 27)
DimListsQuick == SeqsUpTo({1, 2, 3}, 3)
\* ... of length <= 4 with D <= 36, plus a few larger radices
DimListsThorough ==
  {d \in SeqsUpTo({1, 2, 3}, 4) : IProd(d) <= 36} \cup {<<4, 5>>, <<5, 4>>, <<2, 4, 3>>, <<4, 1, 6>>, <<7, 5>>, <<2, 2, 2, 2, 2>>}
DimListsTiny == SeqsUpTo({1, 2, 3}, 2)
=============================================================================
