SPECIFICATION Spec
CONSTANTS
  DimLists <- AllQuick
  Seeds <- Seeds1
  Variant = "repaired"
  AllowEmptyKeep = TRUE
INVARIANT PtrExact
INVARIANT PtrShape
INVARIANT DescriptionFits
INVARIANT Terminates
CHECK_DEADLOCK FALSE
