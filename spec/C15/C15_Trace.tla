----------------------------- MODULE C15_Trace -----------------------------
(***************************************************************************)
(* Trace spec for C15: every record is one observation of quimb (what a    *)
(* public routine returned for recorded inputs, snapped to Gaussian        *)
(* integers); the expected value is RECOMPUTED here from the inputs with   *)
(* the reference definitions of C15_Defs and compared.  Sites in records   *)
(* are 0-based (quimb), the reference is 1-based.                          *)
(* Variables: l (line), fails, and `full` - the last complete Hamiltonian  *)
(* seen (event "hamfull"), against which the row ranges built with         *)
(* ownership= (events "hamrows") are compared.                             *)
(***************************************************************************)
EXTENDS C15_Impl, TraceIO

VARIABLES l, fails, full
tvars == <<l, fails, full>>

S1(s) == [k \in 1..Len(s) |-> s[k] + 1]                 \* 0-based sites -> 1-based
SetOf(s) == {s[k] + 1 : k \in 1..Len(s)}

Returned(ln) == ln.exc = "" /\ WellFormed(ln.got)
\* the call must work; only a combination flagged as not promised by the documentation (bsr operands
\* with ownership=: scipy cannot row-slice bsr) may be refused with an exception instead
Returns(ln) == Returned(ln) \/ (ln.rej /\ ln.exc # "")
\* value clauses presuppose the shape (a wrong shape is reported by the Shape clause only)
ValueIs(ln, X) == (Returned(ln) /\ SameShape(ln.got, X)) => SameMat(ln.got, X)
ShapeIs(ln, X) == Returned(ln) => SameShape(ln.got, X)
Owned(ln, X) == IF ln.own = <<>> THEN X ELSE Rows(X, ln.own[1], ln.own[2])

(* ---- kron ---- *)
KronExpected(ln) == Owned(ln, KronSeq(ln.ops))
KronDims(ln) == [k \in 1..Len(ln.ops) |-> ln.ops[k].r]
\* the real gen_matching_dynal still computes what the I-model says (drift is a NOTE)
MatchingAgrees(ln) ==
  (ln.own # <<>> /\ Has(ln, "mreal")) => ln.mreal = MatchingDynal(ln.own[1], ln.own[2] - 1, KronDims(ln))

(* ---- ikron / pkron ---- *)
EmbedExpected(ln) == Owned(ln, Embed(ln.ops, ln.dims, S1(ln.inds)))
\* 2D+ lattices: coordinates are flattened as dim_map documents, then embedded
Embed2DExpected(ln) == Embed(ln.ops, ln.dflat, S1(DimMap(ln.shape, ln.coos, FALSE, FALSE)))
PKronExpected(ln) == PKron(ln.mat, ln.dims, S1(ln.inds))

(* ---- permute / partial trace / partial transpose ---- *)
PermuteExpected(ln) == Permute(ln.x, ln.dims, S1(ln.perm))
PtrExpected(ln) == PTrace(AsDop(ln.x), ln.dims, SetOf(ln.keep))
Ptr2DExpected(ln) == PTrace(AsDop(ln.x), ln.dflat, SetOf(DimMap(ln.shape, ln.coos, FALSE, FALSE)))
PTransExpected(ln) == PartialTranspose(AsDop(ln.x), ln.dims, SetOf(ln.sysa))

\* Tr[embed(A) rho] = Tr[A ptr(rho)], both sides measured on quimb's outputs, and equal to the
\* reference value
AdjointRef(ln) == TrProd(EmbedKept(ln.A, ln.dims, SetOf(ln.keep)), AsDop(ln.x))
AdjointHolds(ln) ==
  /\ ln.exc = ""
  /\ ln.trE = ln.trP
  /\ ln.trE = AdjointRef(ln)
\* the same duality with both sides evaluated by quimb's own `expec` (A is generic, non-Hermitian)
AdjointExpecHolds(ln) ==
  ln.xdo =>                     \* (not for a 1x1 operator A: quimb types it as a vector)
  /\ ln.xexc = ""
  /\ ln.xE = ln.xP
  /\ ln.xE = AdjointRef(ln)

(* ---- expectation ---- *)
ExpecReturns(ln) == ln.exc = "" \/ (ln.rej /\ ln.exc # "")
ExpecValueOK(ln) == ln.exc = "" => ln.got = Expec(ln.a, ln.b)

(* ---- dim_map ---- *)
DimMapOK(ln) ==
  IF DimMapRejects(ln.shape, ln.coos, ln.cyclic, ln.trim)
  THEN ln.exc # ""                                   \* refusing is the documented outcome
  ELSE \/ /\ ln.exc = ""
          /\ ln.got = DimMap(ln.shape, ln.coos, ln.cyclic, ln.trim)
          /\ ln.gotdims = ln.dflat
       \* both flags at once ("trim ... overridden by cyclic"): a refusal is tolerated, a wrong value is not
       \/ ln.cyclic /\ ln.trim /\ ln.exc # ""

(* ---- Hamiltonian builders with ownership ---- *)
NzSet(nz) == {nz[k] : k \in 1..Len(nz)}
HamRowsOK(ln) ==
  /\ ln.exc = ""
  /\ ln.shape = <<ln.rf - ln.ri, full.D>>
  /\ ln.dq = 0                                        \* float comparison with full[ri:rf] (all builders)
  /\ full.exact =>                                    \* exact comparison where entries are on the lattice
       {<<e[1] + ln.ri, e[2], e[3], e[4]>> : e \in NzSet(ln.nz)} =
       {e \in full.nz : ln.ri <= e[1] /\ e[1] < ln.rf}

(* ---- larger random scope: quantised relation to an explicit numpy kron/einsum reference ---- *)
LargeOK(ln) ==
  \/ ln.rej /\ ln.exc # ""
  \/ /\ ln.exc = ""
     /\ ln.dq = 0
     /\ ln.shape = <<IF ln.own = <<>> THEN IProd(ln.rdims) ELSE ln.own[2] - ln.own[1], IProd(ln.cdims)>>

Clauses(ln) ==
  CASE ln.ev = "kron" ->
         LET X == KronExpected(ln) IN
         << <<"KronReturns", Returns(ln)>>,
            <<"KronShape", ShapeIs(ln, X)>>,
            <<IF ln.own = <<>> THEN "KronValue" ELSE "KronOwnedRows", ValueIs(ln, X)>>,
            <<"NOTE:OwnMatchingDrift", MatchingAgrees(ln)>> >>
    [] ln.ev = "ikron" ->
         LET X == EmbedExpected(ln) IN
         << <<"HARNESS:EmbedCaseInDomain", EmbedDomain(ln.ops, ln.dims, S1(ln.inds))>>,
            <<"EmbedReturns", Returns(ln)>>,
            <<"EmbedShape", ShapeIs(ln, X)>>,
            <<IF ln.own = <<>> THEN "EmbedValue" ELSE "EmbedOwnedRows", ValueIs(ln, X)>> >>
    [] ln.ev = "ikron2d" ->
         LET X == Embed2DExpected(ln) IN
         << <<"EmbedReturns", Returns(ln)>>,
            <<"EmbedShape", ShapeIs(ln, X)>>,
            <<"EmbedCoordinatesValue", ValueIs(ln, X)>> >>
    [] ln.ev = "pkron" ->
         LET X == PKronExpected(ln) IN
         << <<"PKronReturns", Returns(ln)>>,
            <<"PKronShape", ShapeIs(ln, X)>>,
            <<"PKronValue", ValueIs(ln, X)>> >>
    [] ln.ev = "permute" ->
         LET X == PermuteExpected(ln) IN
         << <<"PermuteReturns", Returns(ln)>>,
            <<"PermuteShape", ShapeIs(ln, X)>>,
            <<"PermuteValue", ValueIs(ln, X)>> >>
    [] ln.ev = "ptr" ->
         LET X == PtrExpected(ln) IN
         << <<"PtrReturns", Returns(ln)>>,
            <<"PtrShape", ShapeIs(ln, X)>>,
            <<"PtrValue", ValueIs(ln, X)>> >>
    [] ln.ev = "ptr2d" ->
         LET X == Ptr2DExpected(ln) IN
         << <<"PtrReturns", Returns(ln)>>,
            <<"PtrShape", ShapeIs(ln, X)>>,
            <<"PtrCoordinatesValue", ValueIs(ln, X)>> >>
    [] ln.ev = "adjoint" -> << <<"Adjoint", AdjointHolds(ln)>>, <<"AdjointExpec", AdjointExpecHolds(ln)>> >>
    [] ln.ev = "expec"   -> << <<"ExpecReturns", ExpecReturns(ln)>>, <<"ExpecValue", ExpecValueOK(ln)>> >>
    [] ln.ev = "ptrans" ->
         LET X == PTransExpected(ln) IN
         << <<"PTransposeReturns", Returns(ln)>>,
            <<"PTransposeShape", ShapeIs(ln, X)>>,
            <<"PTransposeValue", ValueIs(ln, X)>> >>
    [] ln.ev = "dimmap"  -> << <<"DimMapValue", DimMapOK(ln)>> >>
    [] ln.ev = "hamfull" -> << <<"HamFullReturns", ln.exc = "">> >>
    [] ln.ev = "hamrows" -> << <<"HamOwnedRows", HamRowsOK(ln)>> >>
    [] ln.ev = "large"   -> << <<"LargeScopeAgrees", LargeOK(ln)>> >>
    [] OTHER             -> << <<"UnknownEvent", FALSE>> >>

NoHam == [D |-> 0, exact |-> FALSE, nz |-> {}]
TInit == l = 1 /\ fails = <<>> /\ full = NoHam
TNext == /\ l <= NLines
         /\ l' = l + 1
         /\ fails' = AddFails(fails, l, Clauses(TraceLog[l]))
         /\ full' = IF TraceLog[l].ev = "hamfull"
                    THEN [D |-> TraceLog[l].D, exact |-> TraceLog[l].exact, nz |-> NzSet(TraceLog[l].nz)]
                    ELSE full
TSpec == TInit /\ [][TNext]_tvars

Done == l = NLines + 1 => WriteVerdict(l - 1, fails)
=============================================================================
