----------------------------- MODULE C15_Laws -----------------------------
(***************************************************************************)
(* The algebraic laws of the property statement, checked by TLC ON THE     *)
(* REFERENCE DEFINITIONS of C15_Defs (so that the oracle used to judge     *)
(* quimb is itself validated), and the implementation-shaped placement     *)
(* generator of ikron (C15_Impl!GenOps) checked against the reference      *)
(* Embed.  One behaviour = one case (dimension list, ordered selection of  *)
(* distinct sites `sel`, seed of the generic test matrices); the laws are  *)
(* evaluated one per step, `bad` collects the names of the laws that fail. *)
(*   sel is used as: index list of pkron (given order), keep / sysa set,   *)
(*   index list of ikron, and - when it has full length - permutation.     *)
(***************************************************************************)
EXTENDS C15_Impl, Json

CONSTANTS DimLists, Seeds

VARIABLES dims, sel, seed, step, bad
vars == <<dims, sel, seed, step, bad>>

n     == Len(dims)
D     == IProd(dims)
Kset  == SeqRange(sel)
Ksort == SortedSeq(Kset)
Lsort == SortedSeq((1..n) \ Kset)
dsel  == IProd(Sub(dims, sel))
ops   == [k \in 1..n |-> GenMat(dims[k], dims[k], seed + k)]             \* one operator per site
ops2  == [k \in 1..n |-> GenMat(dims[k], dims[k], seed + 2 * k + 5)]
rops  == [k \in 1..n |-> GenMat(dims[k], 1 + ((k + seed) % 2), seed + k)]  \* rectangular factors
kets  == [k \in 1..n |-> GenMat(dims[k], 1, seed + 3 * k)]
rho   == GenHerm(D, seed)
psi   == GenMat(D, 1, seed + 3)
A     == GenMat(dsel, dsel, seed + 7)                                      \* operator on the selected sites
Scal(c, M) == Mat(M.r, M.c, LAMBDA i, j : GMul(c, At(M, i, j)))
IsRun(s) == \A k \in 1..(Len(s) - 1) : s[k + 1] = s[k] + 1               \* adjacent, increasing
\* all ordered selections of distinct sites
Selections(m) == UNION {{s \in [1..k -> 1..m] : \A a \in 1..k, b \in 1..k : a # b => s[a] # s[b]} : k \in 0..m}

Init ==
  /\ dims \in DimLists
  /\ sel \in Selections(Len(dims))
  /\ seed \in Seeds
  /\ step = 1
  /\ bad = {}

Step(k) == step = k /\ step' = k + 1 /\ UNCHANGED <<dims, sel, seed>>

\* 1. the elementwise Kronecker product is the iterated textbook one, also for rectangular
\*    factors and kets, and it is multiplicative: (A (x) B)(C (x) D) = AC (x) BD
HKron ==
  /\ SameMat(KronSeq(ops), KronFold(ops))
  /\ SameMat(KronSeq(rops), KronFold(rops))
  /\ SameMat(KronSeq(kets), KronFold(kets))
  /\ SameMat(MatMul(KronSeq(ops), KronSeq(ops2)), KronSeq([k \in 1..n |-> MatMul(ops[k], ops2[k])]))
  /\ SameMat(Dagger(KronSeq(rops)), KronSeq([k \in 1..n |-> Dagger(rops[k])]))
LawKron == Step(1) /\ bad' = (IF HKron THEN bad ELSE bad \cup {"Kron"})

\* 2. partial trace is the adjoint of embedding: Tr[embed(A) rho] = Tr[A ptr(rho)]
\*    (set reading of keep: A acts on the kept sites in their original order)
HAdjoint ==
  LET As == GenMat(dsel, dsel, seed + 11) IN
  /\ TrProd(EmbedKept(As, dims, Kset), rho) = TrProd(As, PTrace(rho, dims, Kset))
  /\ TrProd(EmbedKept(As, dims, Kset), Proj(psi)) = TrProd(As, PTraceKet(psi, dims, Kset))
  /\ Tr(PTrace(rho, dims, Kset)) = Tr(rho)
  /\ IsHermitian(PTrace(rho, dims, Kset))
LawAdjoint == Step(2) /\ bad' = (IF HAdjoint THEN bad ELSE bad \cup {"Adjoint"})

\* 3. the same with the operator placed in the GIVEN order of sel (pkron), against the reduced
\*    state with its subsystems permuted into that order: binds pkron, permute and ptr together
HAdjointOrdered ==
  LET sigma == [k \in 1..Len(sel) |-> PosIn(Ksort, sel[k])]
      red   == PTrace(rho, dims, Kset)
  IN  TrProd(PKron(A, dims, sel), rho) =
        TrProd(A, IF Len(sel) = 0 THEN red ELSE Permute(red, Sub(dims, Ksort), sigma))
LawAdjointOrdered == Step(3) /\ bad' = (IF HAdjointOrdered THEN bad ELSE bad \cup {"AdjointOrdered"})

\* 4. kets and their projectors give the same reduced state
HKetProjector ==
  /\ SameMat(PTraceKet(psi, dims, Kset), PTrace(Proj(psi), dims, Kset))
  /\ SameMat(PTraceKet(KronSeq(kets), dims, Kset),
             Scal(GProd([k \in 1..Len(Lsort) |-> Tr(Proj(kets[Lsort[k]]))]),
                  KronSeq([k \in 1..Len(Ksort) |-> Proj(kets[Ksort[k]])])))
LawKetProjector == Step(4) /\ bad' = (IF HKetProjector THEN bad ELSE bad \cup {"KetProjector"})

\* 5. partial trace of a product operator: traces of the lost factors times the kept factors
HPTraceProduct ==
  SameMat(PTrace(KronSeq(ops), dims, Kset),
          Scal(GProd([k \in 1..Len(Lsort) |-> Tr(ops[Lsort[k]])]),
               KronSeq([k \in 1..Len(Ksort) |-> ops[Ksort[k]]])))
LawPTraceProduct == Step(5) /\ bad' = (IF HPTraceProduct THEN bad ELSE bad \cup {"PTraceProduct"})

\* 6. permuting a product permutes the factors (operators and kets); the inverse undoes it
HPermuteKron ==
  Len(sel) = n =>
    LET inv == [s \in 1..n |-> PosIn(sel, s)] IN
    /\ SameMat(Permute(KronSeq(ops), dims, sel), KronSeq([k \in 1..n |-> ops[sel[k]]]))
    /\ SameMat(Permute(KronSeq(kets), dims, sel), KronSeq([k \in 1..n |-> kets[sel[k]]]))
    /\ SameMat(Permute(Permute(rho, dims, sel), PermDims(dims, sel), inv), rho)
    /\ Tr(Permute(rho, dims, sel)) = Tr(rho)
LawPermuteKron == Step(6) /\ bad' = (IF HPermuteKron THEN bad ELSE bad \cup {"PermuteKron"})

\* 7. permute-then-embed equals embedding on the permuted subsystems
HPermuteEmbed ==
  Len(sel) = n =>
    \A s \in 1..n :
      SameMat(Permute(Embed(<<ops[s]>>, dims, <<s>>), dims, sel),
              Embed(<<ops[s]>>, PermDims(dims, sel), <<PosIn(sel, s)>>))
LawPermuteEmbed == Step(7) /\ bad' = (IF HPermuteEmbed THEN bad ELSE bad \cup {"PermuteEmbed"})

\* 8. pkron is "permute and then tensor into the larger space": the operator is put on the
\*    leading sites of the re-ordered system and the system is permuted back; for a product
\*    operator this puts factor k on site sel[k]
HPKron ==
  LET p    == sel \o Lsort                       \* current order of the sites
      dcur == Sub(dims, p)
      ip   == [s \in 1..n |-> PosIn(p, s)]
      lead == Place(<< [sites |-> [k \in 1..Len(sel) |-> k], op |-> A] >>, dcur)
      fac  == [k \in 1..Len(sel) |-> GenMat(dims[sel[k]], dims[sel[k]], seed + 13 * k)]
  IN  /\ SameMat(PKron(A, dims, sel), Permute(lead, dcur, ip))
      /\ Len(sel) >= 1 =>
           SameMat(PKron(KronSeq(fac), dims, sel),
                   KronSeq([s \in 1..n |-> IF s \in Kset THEN fac[PosIn(sel, s)] ELSE Eye(dims[s])]))
LawPKron == Step(8) /\ bad' = (IF HPKron THEN bad ELSE bad \cup {"PKron"})

\* 9. partial transpose: involution, acts factorwise on products, full transpose when every
\*    site is selected, preserves the trace, commutes with the complementary one
HPartialTranspose ==
  /\ SameMat(PartialTranspose(PartialTranspose(rho, dims, Kset), dims, Kset), rho)
  /\ SameMat(PartialTranspose(KronSeq(ops), dims, Kset),
             KronSeq([s \in 1..n |-> IF s \in Kset THEN Transpose(ops[s]) ELSE ops[s]]))
  /\ SameMat(PartialTranspose(PartialTranspose(rho, dims, Kset), dims, (1..n) \ Kset), Transpose(rho))
  /\ Tr(PartialTranspose(rho, dims, Kset)) = Tr(rho)
LawPartialTranspose == Step(9) /\ bad' = (IF HPartialTranspose THEN bad ELSE bad \cup {"PartialTranspose"})

\* 10. embedding (ikron): operators cycled over the given index list equal the explicit
\*     Kronecker product with identities; one operator overlaid on an adjacent run of sites
\*     equals the placement on that run; and the implementation-shaped generator of ikron
\*     (compressed identities, overlay counters) yields factors whose product is the reference
HEmbed ==
  LET one  == [k \in 1..Len(sel) |-> GenMat(dims[sel[k]], dims[sel[k]], seed + 17 * k)]  \* one op per index
      same == \A k \in 1..Len(sel) : dims[sel[k]] = dims[sel[1]]
      two  == IF Len(sel) >= 2 THEN SubSeq(one, 1, 2) ELSE one                            \* cycled
      cyc(o) == KronSeq([s \in 1..n |-> IF s \in Kset THEN o[((PosIn(sel, s) - 1) % Len(o)) + 1] ELSE Eye(dims[s])])
  IN  /\ Len(sel) >= 1 =>
           /\ EmbedDomain(one, dims, sel)
           /\ SameMat(Embed(one, dims, sel), cyc(one))
           /\ SameMat(KronSeq(GenOps(one, dims, sel)), Embed(one, dims, sel))
      /\ (Len(sel) >= 1 /\ same) =>
           /\ EmbedDomain(two, dims, sel)
           /\ SameMat(Embed(two, dims, sel), cyc(two))
           /\ SameMat(KronSeq(GenOps(two, dims, sel)), Embed(two, dims, sel))
           /\ SameMat(KronSeq(GenOps(<<one[1]>>, dims, sel)), cyc(<<one[1]>>))
      /\ (Len(sel) >= 1 /\ IsRun(sel) /\ dsel > 1) =>
           /\ EmbedDomain(<<A>>, dims, sel)
           /\ SameMat(Embed(<<A>>, dims, sel), EmbedKept(A, dims, Kset))
           /\ SameMat(KronSeq(GenOps(<<A>>, dims, sel)), EmbedKept(A, dims, Kset))
      \* one operator overlaid on the block between two targeted sites, the site in between included
      /\ (Len(sel) = 2 /\ sel[2] = sel[1] + 2) =>
           LET blk == <<sel[1], sel[1] + 1, sel[2]>>
               B   == GenMat(IProd(Sub(dims, blk)), IProd(Sub(dims, blk)), seed + 19)
           IN  (dims[sel[1]] > 1 /\ dims[sel[2]] > 1) =>
                 /\ EmbedDomain(<<B>>, dims, sel)
                 /\ SameMat(Embed(<<B>>, dims, sel), EmbedKept(B, dims, SeqRange(blk)))
                 /\ SameMat(KronSeq(GenOps(<<B>>, dims, sel)), EmbedKept(B, dims, SeqRange(blk)))
      \* rows of an embedded operator through the ownership arithmetic of kron on the factors
      /\ (Len(sel) >= 1) =>
           LET f  == GenOps(one, dims, sel)
               fd == [k \in 1..Len(f) |-> f[k].r]
               X  == Embed(one, dims, sel)
           IN  \A ri \in {0, D \div 3} : \A rf \in {ri + 1, D} :
                 (ri < rf) => OwnRows(fd, ri, rf) = [k \in 1..(rf - ri) |-> ri + k - 1]
LawEmbed == Step(10) /\ bad' = (IF HEmbed THEN bad ELSE bad \cup {"Embed"})

\* 11. expectation: consistent between kets and their projectors (as documented), equal to the
\*     trace of the matrix product for two operators WITHOUT conjugation (a generic, non-Hermitian
\*     first operator distinguishes Tr[A B] from Tr[A^dagger B]), and it evaluates the duality
\*     Tr[embed(A) rho] = Tr[A ptr(rho)] for non-Hermitian A, operators and kets
HExpec ==
  LET G  == GenMat(D, D, seed + 21)                 \* generic complex, neither Hermitian nor symmetric
      G2 == GenMat(D, D, seed + 22)
      ph == GenMat(D, 1, seed + 23)
      As == GenMat(dsel, dsel, seed + 11)
  IN  D > 1 =>       \* (a 1x1 object is at once ket and operator: no convention to check)
      /\ Expec(psi, G) = Expec(Proj(psi), G) /\ Expec(G, psi) = Expec(G, Proj(psi))
      /\ Expec(psi, G) = Expec(G, psi)
      /\ Expec(psi, ph) = Expec(Proj(psi), Proj(ph)) /\ Expec(psi, ph) = Expec(Proj(psi), ph)
      /\ Expec(G, G2) = Tr(MatMul(G, G2)) /\ Expec(G, G2) = Expec(G2, G)
      /\ Expec(Dagger(G), rho) = GConj(Expec(G, rho))          \* rho Hermitian
      /\ ~IsHermitian(G) /\ ~SameMat(G, Transpose(G))            \* the test operator is generic indeed
      /\ dsel > 1 =>
           /\ Expec(EmbedKept(As, dims, Kset), rho) = Expec(As, PTrace(rho, dims, Kset))
           /\ Expec(EmbedKept(As, dims, Kset), psi) = Expec(As, PTraceKet(psi, dims, Kset))
LawExpec == Step(11) /\ bad' = (IF HExpec THEN bad ELSE bad \cup {"Expec"})

\* the verified case is printed; the harness replays it into quimb (S->C)
Emit == /\ Step(12) /\ bad' = bad
        /\ PrintT(<<"QVJSON", ToJson([dims |-> dims, sel |-> sel, seed |-> seed])>>)

Next == Emit \/ LawExpec \/ LawKron \/ LawAdjoint \/ LawAdjointOrdered \/ LawKetProjector \/ LawPTraceProduct
        \/ LawPermuteKron \/ LawPermuteEmbed \/ LawPKron \/ LawPartialTranspose \/ LawEmbed
Spec == Init /\ [][Next]_vars

AllLawsHold == bad = {}
=============================================================================
