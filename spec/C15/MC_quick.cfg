SPECIFICATION Spec
CONSTANTS
  DimLists <- DimListsQuick
  Variant = "code"
  EmitCases = TRUE
INVARIANT OwnRowsExact
INVARIANT ClosedFormAgrees
INVARIANT ProductCovers
INVARIANT GotIsRange
INVARIANT DigitsInRange
CHECK_DEADLOCK FALSE
