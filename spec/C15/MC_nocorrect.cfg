SPECIFICATION Spec
CONSTANTS
  DimLists <- DimListsTiny
  Variant = "nocorrect"
  EmitCases = FALSE
INVARIANT OwnRowsExact
CHECK_DEADLOCK FALSE
