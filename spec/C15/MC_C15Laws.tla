---------------------------- MODULE MC_C15Laws ----------------------------
EXTENDS C15_Laws
SeqsUpTo(S, m) == UNION {[1..k -> S] : k \in 1..m}
\* quick: every list of length <= 2 with D <= 6, and the 3-site lists with at most one trivial site
\* arrangement each (the others are in the thorough scope and in the harness' own enumeration)
LawDimsQuick    == {d \in SeqsUpTo({1, 2, 3}, 2) : IProd(d) <= 6} \cup
                   {<<1, 1, 2>>, <<1, 2, 1>>, <<2, 1, 1>>, <<1, 2, 2>>, <<2, 1, 2>>, <<2, 2, 1>>, <<2, 2, 2>>,
                    <<1, 2, 3>>, <<3, 1, 2>>}
LawDimsThorough == {d \in SeqsUpTo({1, 2, 3}, 3) : IProd(d) <= 18} \cup {<<2, 2, 1, 2>>, <<2, 1, 2, 3>>, <<4, 3>>}
Seeds1 == {0}
Seeds2 == {0, 1}
=============================================================================
