---------------------------- MODULE MC_C15Laws ----------------------------
EXTENDS C15_Laws
SeqsUpTo(S, m) == UNION {[1..k -> S] : k \in 1..m}
LawDimsQuick    == {d \in SeqsUpTo({1, 2, 3}, 3) : IProd(d) <= 6} \cup {<<2, 2, 2>>}
LawDimsThorough == {d \in SeqsUpTo({1, 2, 3}, 3) : IProd(d) <= 18} \cup {<<2, 2, 1, 2>>, <<2, 1, 2, 3>>, <<4, 3>>}
Seeds1 == {0}
Seeds2 == {0, 1}
=============================================================================
