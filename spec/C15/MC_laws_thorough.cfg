SPECIFICATION Spec
CONSTANTS
  DimLists <- LawDimsThorough
  Seeds <- Seeds2
INVARIANT AllLawsHold
CHECK_DEADLOCK FALSE
