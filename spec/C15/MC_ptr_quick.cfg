SPECIFICATION Spec
CONSTANTS
  DimLists <- NoOnesQuick
  Seeds <- Seeds2
  Variant = "code"
  AllowEmptyKeep = FALSE
INVARIANT PtrExact
INVARIANT PtrShape
INVARIANT CompressFaithful
INVARIANT Terminates
CHECK_DEADLOCK FALSE
