SPECIFICATION Spec
CONSTANTS
  DimLists <- AllQuick
  Seeds <- Seeds1
  Variant = "code"
  AllowEmptyKeep = TRUE
INVARIANT PtrExact
INVARIANT PtrShape
INVARIANT CompressFaithful
INVARIANT DescriptionFits
INVARIANT Terminates
CHECK_DEADLOCK FALSE
