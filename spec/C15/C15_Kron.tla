----------------------------- MODULE C15_Kron -----------------------------
(***************************************************************************)
(* State machine of ONE call  kron(ops.., ownership=(ri, rf))  (quimb/core  *)
(* .py), stepping through the transcription of C15_Impl:                   *)
(*   Match   - gen_matching_dynal(ri, rf - 1, dims)                        *)
(*   Slice   - gen_ops_maybe_sliced: rows kept of every factor             *)
(*   Product - _kron_core of the sliced factors (which global rows it has) *)
(*   Correct - the final over-slice correction  X[di : df]                 *)
(*   Emit    - the finished case is printed for replay into quimb          *)
(* A row of a Kronecker product IS the tuple of the row numbers of its     *)
(* factors, so the model works on row numbers: exact for every operand.    *)
(* Property-level invariant: the rows returned are exactly ri, ..., rf-1   *)
(* of the full product ("requesting only a range of rows of a product      *)
(* returns exactly those rows of the full object"), for every dimension    *)
(* list and every 0 <= ri < rf <= D.                                       *)
(***************************************************************************)
EXTENDS C15_Impl, Json

CONSTANTS DimLists,    \* the set of dimension lists (sequences of positive integers)
          Variant,     \* "code" | "nocorrect" (self-test: the correction step left out)
          EmitCases    \* TRUE: print every finished case as JSON (replayed into quimb)

VARIABLES dims, ri, rf, pc, m, rs, xrows, result
vars == <<dims, ri, rf, pc, m, rs, xrows, result>>

Init ==
  /\ dims \in DimLists
  /\ ri \in 0..(IProd(dims) - 1)
  /\ rf \in (ri + 1)..IProd(dims)
  /\ pc = "match"
  /\ m = <<>> /\ rs = <<>> /\ xrows = <<>> /\ result = <<>>

Match ==
  /\ pc = "match"
  /\ m' = MatchingDynal(ri, rf - 1, dims)
  /\ pc' = "slice"
  /\ UNCHANGED <<dims, ri, rf, rs, xrows, result>>

Slice ==
  /\ pc = "slice"
  /\ rs' = OwnRowSets(dims, m)
  /\ pc' = "product"
  /\ UNCHANGED <<dims, ri, rf, m, xrows, result>>

Product ==
  /\ pc = "product"
  /\ xrows' = OwnKronRows(dims, rs)
  /\ pc' = "correct"
  /\ UNCHANGED <<dims, ri, rf, m, rs, result>>

Correct ==
  /\ pc = "correct"
  /\ result' = IF Variant = "nocorrect" THEN xrows ELSE OwnCorrect(xrows, ri, rf, OwnGot(dims, m))
  /\ pc' = "done"
  /\ UNCHANGED <<dims, ri, rf, m, rs, xrows>>

Emit ==
  /\ pc = "done"
  /\ pc' = "emitted"
  /\ EmitCases => PrintT(<<"QVJSON", ToJson([dims |-> dims, ri |-> ri, rf |-> rf, m |-> m,
                                            got |-> OwnGot(dims, m), nx |-> Len(xrows)])>>)
  /\ UNCHANGED <<dims, ri, rf, m, rs, xrows, result>>

Next == Match \/ Slice \/ Product \/ Correct \/ Emit
Spec == Init /\ [][Next]_vars

(* ---- invariants ---- *)
Finished == pc \in {"done", "emitted"}
\* property level: exactly the requested rows, in order
OwnRowsExact == Finished => result = [k \in 1..(rf - ri) |-> ri + k - 1]
\* the step-wise transcription and the closed form used by the Trace spec are the same function
ClosedFormAgrees == Finished /\ Variant = "code" => result = OwnRows(dims, ri, rf)
\* the uncorrected product always CONTAINS the requested rows (the correction only trims)
ProductCovers ==
  pc \in {"correct", "done", "emitted"} =>
     \A r \in ri..(rf - 1) : \E x \in 1..Len(xrows) : xrows[x] = r
\* the over-slice bookkeeping is right: the product is the contiguous range [ri_got, rf_got)
GotIsRange ==
  pc \in {"correct", "done", "emitted"} =>
     LET g == OwnGot(dims, m) IN xrows = [k \in 1..(g[2] - g[1]) |-> g[1] + k - 1]
\* digits are genuine mixed-radix digits on the enumerated domain
DigitsInRange == pc # "match" => \A k \in 1..Len(m) : 0 <= m[k][1] /\ m[k][1] <= m[k][2] /\ m[k][2] < dims[k]
=============================================================================
