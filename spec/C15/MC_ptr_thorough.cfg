SPECIFICATION Spec
CONSTANTS
  DimLists <- NoOnesThorough
  Seeds <- Seeds2
  Variant = "code"
  AllowEmptyKeep = FALSE
INVARIANT PtrExact
INVARIANT PtrShape
INVARIANT CompressFaithful
INVARIANT Terminates
CHECK_DEADLOCK FALSE
