SPECIFICATION Spec
CONSTANTS
  DimLists <- AllThorough
  Seeds <- Seeds2
  Variant = "code"
  AllowEmptyKeep = TRUE
INVARIANT PtrExact
INVARIANT PtrShape
INVARIANT CompressFaithful
INVARIANT DescriptionFits
INVARIANT Terminates
CHECK_DEADLOCK FALSE
