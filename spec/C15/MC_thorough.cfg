SPECIFICATION Spec
CONSTANTS
  DimLists <- DimListsThorough
  Variant = "code"
  EmitCases = TRUE
INVARIANT OwnRowsExact
INVARIANT ClosedFormAgrees
INVARIANT ProductCovers
INVARIANT GotIsRange
INVARIANT DigitsInRange
CHECK_DEADLOCK FALSE
