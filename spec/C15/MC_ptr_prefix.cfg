SPECIFICATION Spec
CONSTANTS
  DimLists <- AllTiny
  Seeds <- Seeds1
  Variant = "prefix"
  AllowEmptyKeep = TRUE
INVARIANT PtrShape
CHECK_DEADLOCK FALSE
