SPECIFICATION Spec
CONSTANTS
  DimLists <- AllQuick
  Seeds <- Seeds1
  Variant = "code"
  AllowEmptyKeep = TRUE
INVARIANT PtrShape
CHECK_DEADLOCK FALSE
