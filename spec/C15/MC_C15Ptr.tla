----------------------------- MODULE MC_C15Ptr -----------------------------
EXTENDS C15_Ptr
SeqsUpTo(S, n) == UNION {[1..k -> S] : k \in 1..n}
\* the domain on which the pinned code is right: no dimension-1 subsystem
NoOnesQuick    == {d \in SeqsUpTo({2, 3}, 3) : IProd(d) <= 18}
NoOnesThorough == {d \in SeqsUpTo({2, 3}, 4) : IProd(d) <= 36} \cup {<<4, 2>>, <<2, 4, 2>>, <<5, 3>>}
\* the whole scope of the property
AllQuick    == {d \in SeqsUpTo({1, 2, 3}, 3) : IProd(d) <= 12}
AllThorough == {d \in SeqsUpTo({1, 2, 3}, 4) : IProd(d) <= 27}
Seeds1 == {0}
Seeds2 == {0, 1}
=============================================================================
