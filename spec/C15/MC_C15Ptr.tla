----------------------------- MODULE MC_C15Ptr -----------------------------
EXTENDS C15_Ptr
SeqsUpTo(S, n) == UNION {[1..k -> S] : k \in 1..n}
\* the whole scope of the property: subsystems of dimension 1 and the empty keep included
AllQuick    == {d \in SeqsUpTo({1, 2, 3}, 3) : IProd(d) <= 12}
AllThorough == {d \in SeqsUpTo({1, 2, 3}, 4) : IProd(d) <= 36} \cup {<<4, 2>>, <<2, 4, 2>>, <<5, 3>>, <<4, 1, 2>>}
AllTiny     == {d \in SeqsUpTo({1, 2, 3}, 3) : IProd(d) <= 12}
Seeds1 == {0}
Seeds2 == {0, 1}
=============================================================================
