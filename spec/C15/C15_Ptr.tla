------------------------------ MODULE C15_Ptr ------------------------------
(***************************************************************************)
(* State machine of ONE call of the sparse partial trace                   *)
(* _partial_trace_simple(p, dims, keep) (quimb/core.py), on exact          *)
(* Gaussian-integer Hermitian matrices, stepping through the transcription *)
(* of C15_Impl:                                                            *)
(*   Compress  - dims, keep = dim_compress(dims, keep)                     *)
(*   KeepNone  - len(keep) == 0: the trace, kept as a trivial subsystem    *)
(*   KeepOne   - len(keep) == 1: return _trace_keep(p, dims, keep)         *)
(*   LoseOne   - trace out the largest lost block, re-index keep, recurse  *)
(* Property-level invariant: the matrix returned is PTrace(rho, dims,      *)
(* keep) of the reference (C15_Defs), whatever the dimension list (incl.   *)
(* subsystems of dimension 1) and the kept subset (incl. the empty one).   *)
(* Variant "code" is the code at the pinned commit.  Variant "prefix" is   *)
(* the code before the repair of the size-1 defect (_dim_compressor did    *)
(* not skip subsystems of size 1 and there was no KeepNone branch): it is  *)
(* kept as a named deviation and TLC must REJECT it (MC_ptr_prefix.cfg),   *)
(* counterexample dims = <<2,1>>, keep = {2} -> a 0x0 matrix.              *)
(***************************************************************************)
EXTENDS C15_Impl

CONSTANTS DimLists, Seeds, Variant, AllowEmptyKeep

VARIABLES dims0, keep0, seed, pc, p, dims, keep, depth
vars == <<dims0, keep0, seed, pc, p, dims, keep, depth>>

Rho0 == GenHerm(IProd(dims0), seed)
Fixed == Variant = "code"

Init ==
  /\ dims0 \in DimLists
  /\ IProd(dims0) > 1
  /\ keep0 \in SUBSET (1..Len(dims0))
  /\ AllowEmptyKeep \/ keep0 # {}
  /\ seed \in Seeds
  /\ pc = "start"
  /\ p = Rho0
  /\ dims = dims0 /\ keep = keep0
  /\ depth = 0

\* p = p if isop(p) else dot(p, dag(p))  (operators here)
Enter ==
  /\ pc = "start"
  /\ pc' = "compress"
  /\ UNCHANGED <<dims0, keep0, seed, p, dims, keep, depth>>

Compress ==
  /\ pc = "compress"
  /\ LET c == DimCompressV(dims, keep, Fixed) IN dims' = c[1] /\ keep' = c[2]
  /\ pc' = "dispatch"
  /\ UNCHANGED <<dims0, keep0, seed, p, depth>>

KeepNone ==
  /\ pc = "dispatch"
  /\ Fixed /\ keep = {}
  /\ p' = TraceKeepNothing(p, dims)
  /\ pc' = "done"
  /\ UNCHANGED <<dims0, keep0, seed, dims, keep, depth>>

KeepOne ==
  /\ pc = "dispatch"
  /\ Cardinality(keep) = 1
  /\ p' = TraceKeep(p, dims, CHOOSE k \in keep : TRUE)
  /\ pc' = "done"
  /\ UNCHANGED <<dims0, keep0, seed, dims, keep, depth>>

LoseOne ==
  /\ pc = "dispatch"
  /\ Cardinality(keep) # 1
  /\ ~(Fixed /\ keep = {})
  /\ depth < 8
  /\ LET l == LMax(dims, keep) IN
       /\ p' = TraceLose(p, dims, l)
       /\ dims' = DropAt(dims, l)
       /\ keep' = ShiftKeep(keep, l)
  /\ pc' = "compress"
  /\ depth' = depth + 1
  /\ UNCHANGED <<dims0, keep0, seed>>

Next == Enter \/ Compress \/ KeepNone \/ KeepOne \/ LoseOne
Spec == Init /\ [][Next]_vars

(* ---- invariants ---- *)
\* property level: the reduced state of the reference
PtrExact == pc = "done" => SameMat(p, PTrace(Rho0, dims0, keep0))
PtrShape == pc = "done" => p.r = IProd(Sub(dims0, SortedSeq(keep0))) /\ p.c = p.r
\* the contract of dim_compress: size preserved, kept size preserved, marked and unmarked blocks
\* alternate, no block of size < 2 (subsystems of size 1 are merged away)
CompressFaithful ==
  (pc = "dispatch" /\ depth = 0) =>
     /\ IProd(dims) = IProd(dims0)
     /\ IProd(Sub(dims, SortedSeq(keep))) = IProd(Sub(dims0, SortedSeq(keep0)))
     /\ \A k \in 1..(Len(dims) - 1) : (k \in keep) # ((k + 1) \in keep)
     /\ \A k \in 1..Len(dims) : dims[k] > 1
\* the description always matches the matrix it describes
DescriptionFits == pc = "compress" => IProd(dims) = p.r
Terminates == depth < 8
=============================================================================
