------------------------------ MODULE C15_Ptr ------------------------------
(***************************************************************************)
(* State machine of ONE call of the sparse partial trace                   *)
(* _partial_trace_simple(p, dims, keep) (quimb/core.py), on exact          *)
(* Gaussian-integer Hermitian matrices, stepping through the transcription *)
(* of C15_Impl:                                                            *)
(*   Compress  - dims, keep = dim_compress(dims, keep)                     *)
(*   KeepOne   - len(keep) == 1: return _trace_keep(p, dims, keep)         *)
(*   LoseOne   - trace out the largest lost block, re-index keep, recurse  *)
(* Property-level invariant: the matrix returned is PTrace(rho, dims,      *)
(* keep) of the reference (C15_Defs), whatever the dimension list and the  *)
(* kept subset.  Variant "code" is the pinned commit: TLC shows it FAILS   *)
(* as soon as a subsystem has dimension 1 or nothing is kept (blocks of    *)
(* accumulated size 1 are never flushed by _dim_compressor and its final   *)
(* fall-through yields a block of size 0) - known finding KF-C15-1/2.      *)
(* Variant "repaired" strips the dimension-1 subsystems first and returns  *)
(* the plain trace when nothing non-trivial is kept: TLC shows this        *)
(* smallest repair satisfies the invariant on the whole scope.             *)
(***************************************************************************)
EXTENDS C15_Impl

CONSTANTS DimLists, Seeds, Variant, AllowEmptyKeep

VARIABLES dims0, keep0, seed, pc, p, dims, keep, depth
vars == <<dims0, keep0, seed, pc, p, dims, keep, depth>>

Rho0 == GenHerm(IProd(dims0), seed)

Init ==
  /\ dims0 \in DimLists
  /\ IProd(dims0) > 1
  /\ keep0 \in SUBSET (1..Len(dims0))
  /\ AllowEmptyKeep \/ keep0 # {}
  /\ seed \in Seeds
  /\ pc = "start"
  /\ p = Rho0
  /\ dims = dims0 /\ keep = keep0
  /\ depth = 0

\* entry: the repaired variant strips dimension-1 subsystems and short-cuts an empty keep
Enter ==
  /\ pc = "start"
  /\ IF Variant = "repaired"
     THEN LET d1 == StripOnesDims(dims) k1 == StripOnesKeep(dims, keep) IN
          IF k1 = {} THEN /\ p' = Mat(1, 1, LAMBDA i, j : Tr(p))
                          /\ pc' = "done" /\ dims' = <<1>> /\ keep' = {1}
                     ELSE /\ dims' = d1 /\ keep' = k1 /\ pc' = "compress" /\ p' = p
     ELSE pc' = "compress" /\ UNCHANGED <<p, dims, keep>>
  /\ UNCHANGED <<dims0, keep0, seed, depth>>

Compress ==
  /\ pc = "compress"
  /\ LET c == DimCompress(dims, keep) IN dims' = c[1] /\ keep' = c[2]
  /\ pc' = "dispatch"
  /\ UNCHANGED <<dims0, keep0, seed, p, depth>>

KeepOne ==
  /\ pc = "dispatch"
  /\ Cardinality(keep) = 1
  /\ p' = TraceKeep(p, dims, CHOOSE k \in keep : TRUE)
  /\ pc' = "done"
  /\ UNCHANGED <<dims0, keep0, seed, dims, keep, depth>>

LoseOne ==
  /\ pc = "dispatch"
  /\ Cardinality(keep) # 1
  /\ depth < 8
  /\ LET l == LMax(dims, keep) IN
       /\ p' = TraceLose(p, dims, l)
       /\ dims' = DropAt(dims, l)
       /\ keep' = ShiftKeep(keep, l)
  /\ pc' = "compress"
  /\ depth' = depth + 1
  /\ UNCHANGED <<dims0, keep0, seed>>

Next == Enter \/ Compress \/ KeepOne \/ LoseOne
Spec == Init /\ [][Next]_vars

(* ---- invariants ---- *)
\* property level: the reduced state of the reference
PtrExact == pc = "done" => SameMat(p, PTrace(Rho0, dims0, keep0))
PtrShape == pc = "done" => p.r = IProd(Sub(dims0, SortedSeq(keep0))) /\ p.c = p.r
\* the documented contract of dim_compress on its domain (no dimension-1 subsystem):
\* size preserved, kept size preserved, marked and unmarked blocks alternate
CompressFaithful ==
  (pc = "dispatch" /\ \A k \in 1..Len(dims0) : dims0[k] > 1 /\ depth = 0 /\ keep0 # {}) =>
     /\ IProd(dims) = IProd(dims0)
     /\ IProd(Sub(dims, SortedSeq(keep))) = IProd(Sub(dims0, SortedSeq(keep0)))
     /\ \A k \in 1..(Len(dims) - 1) : (k \in keep) # ((k + 1) \in keep)
\* the description always matches the matrix it describes
DescriptionFits == pc \in {"compress"} /\ Variant = "repaired" => IProd(dims) = p.r
Terminates == depth < 8
=============================================================================
