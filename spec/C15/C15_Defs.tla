----------------------------- MODULE C15_Defs -----------------------------
(***************************************************************************)
(* C15 - Kronecker, embedding, permutation and partial-trace routines obey *)
(* their algebra.                                                          *)
(*                                                                         *)
(* Constant-level REFERENCE definitions, written from the property         *)
(* statement and the docstrings (not from the code).  Every operator is    *)
(* defined ELEMENTWISE from its inputs through mixed-radix digits of the   *)
(* row / column index, so that TLC is the oracle on exact (Gaussian        *)
(* integer) matrices.  The laws that tie the definitions together          *)
(* (adjointness, ket vs projector, permute-then-embed, ...) are checked on *)
(* the reference itself by the model run C15_Laws before it is trusted.    *)
(*                                                                         *)
(* Conventions pinned (see notes/C15_report.md):                           *)
(*  - a matrix is [r |-> rows, c |-> cols, e |-> row-major sequence of     *)
(*    Gaussian integers <<re, im>>]; a ket has c = 1, a bra has r = 1;     *)
(*  - sites are 1-based here (the harness converts quimb's 0-based ones);  *)
(*  - `keep` of partial_trace and `sysa` of partial_transpose are read as  *)
(*    SETS (kept subsystems stay in their original order): this is the     *)
(*    reading that the dense and the sparse path of quimb share;           *)
(*  - ikron pairs inds[k] with ops[k mod #ops] in the GIVEN order;         *)
(*    pkron places the operator on dims[inds] in the GIVEN order;          *)
(*  - permute(p, dims, perm): new subsystem k is old subsystem perm[k].    *)
(***************************************************************************)
EXTENDS Integers, Sequences, FiniteSets, TLC

(* ------------------------- Gaussian integers -------------------------- *)
GZero == <<0, 0>>
GOne  == <<1, 0>>
GAdd(a, b)  == <<a[1] + b[1], a[2] + b[2]>>
GMul(a, b)  == <<a[1] * b[1] - a[2] * b[2], a[1] * b[2] + a[2] * b[1]>>
GConj(a)    == <<a[1], 0 - a[2]>>

\* folds over f[lo..hi] by halving (shallow recursion: TLC's stack is small)
RECURSIVE GSumR(_, _, _), GProdR(_, _, _), IProdR(_, _, _), ISumR(_, _, _)
GSumR(f, lo, hi)  == IF lo > hi THEN GZero ELSE IF lo = hi THEN f[lo]
                     ELSE LET md == (lo + hi) \div 2 IN GAdd(GSumR(f, lo, md), GSumR(f, md + 1, hi))
GProdR(f, lo, hi) == IF lo > hi THEN GOne ELSE IF lo = hi THEN f[lo]
                     ELSE LET md == (lo + hi) \div 2 IN GMul(GProdR(f, lo, md), GProdR(f, md + 1, hi))
IProdR(f, lo, hi) == IF lo > hi THEN 1 ELSE IF lo = hi THEN f[lo]
                     ELSE LET md == (lo + hi) \div 2 IN IProdR(f, lo, md) * IProdR(f, md + 1, hi)
ISumR(f, lo, hi)  == IF lo > hi THEN 0 ELSE IF lo = hi THEN f[lo]
                     ELSE LET md == (lo + hi) \div 2 IN ISumR(f, lo, md) + ISumR(f, md + 1, hi)
GSum(s)  == GSumR(s, 1, Len(s))
GProd(s) == GProdR(s, 1, Len(s))
IProd(s) == IProdR(s, 1, Len(s))
ISum(s)  == ISumR(s, 1, Len(s))

SeqRange(s) == {s[k] : k \in 1..Len(s)}
\* increasing sequence of the elements of a finite set of integers
RECURSIVE SortedSeq(_)
SortedSeq(S) == IF S = {} THEN <<>>
                ELSE LET m == CHOOSE x \in S : \A y \in S : x <= y
                     IN  <<m>> \o SortedSeq(S \ {m})
PosIn(s, x) == CHOOSE k \in 1..Len(s) : s[k] = x

(* ------------------------------ matrices ------------------------------ *)
Mat(R, C, f(_, _)) ==
  [r |-> R, c |-> C, e |-> [n \in 1..(R * C) |-> f((n - 1) \div C, (n - 1) % C)]]
At(M, i, j) == M.e[i * M.c + j + 1]                 \* 0-based row i, column j
WellFormed(M) == M.r >= 0 /\ M.c >= 0 /\ Len(M.e) = M.r * M.c
SameMat(A, B) == A.r = B.r /\ A.c = B.c /\ \A n \in 1..(A.r * A.c) : A.e[n] = B.e[n]
SameShape(A, B) == A.r = B.r /\ A.c = B.c
Eye(d) == Mat(d, d, LAMBDA i, j : IF i = j THEN GOne ELSE GZero)
Transpose(A) == Mat(A.c, A.r, LAMBDA i, j : At(A, j, i))
Dagger(A) == Mat(A.c, A.r, LAMBDA i, j : GConj(At(A, j, i)))
MatMul(A, B) == Mat(A.r, B.c, LAMBDA i, j : GSum([k \in 1..A.c |-> GMul(At(A, i, k - 1), At(B, k - 1, j))]))
Tr(A) == GSum([k \in 1..A.r |-> At(A, k - 1, k - 1)])
\* Tr[A B] without forming the product
TrProd(A, B) == GSum([n \in 1..(A.r * A.c) |->
                  GMul(A.e[n], At(B, (n - 1) % A.c, (n - 1) \div A.c))])
IsHermitian(A) == A.r = A.c /\ \A i \in 0..A.r-1, j \in 0..A.r-1 : At(A, i, j) = GConj(At(A, j, i))
IsKet(M) == M.c = 1
\* the density operator of a state given as ket or as operator
Proj(psi) == Mat(psi.r, psi.r, LAMBDA i, j : GMul(psi.e[i + 1], GConj(psi.e[j + 1])))
AsDop(x) == IF IsKet(x) THEN Proj(x) ELSE x

\* `expectation(a, b)` as documented: |<a|b>|^2 for two kets, <k|A|k> for a ket and an operator
\* (in either order), and the Hilbert-Schmidt product Tr[A B] (no conjugation) for two operators;
\* it is the routine that evaluates both sides of  Tr[embed(A) rho] = Tr[A ptr(rho)]
Inner(a, b) == GSum([k \in 1..a.r |-> GMul(GConj(a.e[k]), b.e[k])])
Sandwich(k, A) == GSum([n \in 1..(A.r * A.c) |->
                    GMul(GMul(GConj(k.e[((n - 1) \div A.c) + 1]), A.e[n]), k.e[((n - 1) % A.c) + 1])])
Expec(a, b) ==
  IF IsKet(a) /\ IsKet(b) THEN LET z == Inner(a, b) IN GMul(z, GConj(z))
  ELSE IF IsKet(a) THEN Sandwich(a, b)
  ELSE IF IsKet(b) THEN Sandwich(b, a)
  ELSE TrProd(a, b)

\* "requesting only a range of rows returns exactly those rows of the full object"
Rows(X, ri, rf) == Mat(rf - ri, X.c, LAMBDA i, j : At(X, ri + i, j))

(* ----------------------- mixed-radix arithmetic ----------------------- *)
\* dims is a sequence of positive integers; digits are 0-based, most significant first
Stride(dims, k)   == IProd(SubSeq(dims, k + 1, Len(dims)))
Digit(x, dims, k) == (x \div Stride(dims, k)) % dims[k]
Digits(x, dims)   == [k \in 1..Len(dims) |-> Digit(x, dims, k)]
Index(dg, dims)   == ISum([k \in 1..Len(dims) |-> dg[k] * Stride(dims, k)])
Sub(dims, sites)  == [k \in 1..Len(sites) |-> dims[sites[k]]]
\* the index, within the sub-space of the (ordered) sites, of the digits of x
SubIndex(x, dims, sites) ==
  Index([k \in 1..Len(sites) |-> Digit(x, dims, sites[k])], Sub(dims, sites))

ASSUME \A x \in 0..23 : Index(Digits(x, <<2, 3, 1, 4>>), <<2, 3, 1, 4>>) = x

\* index tables: a function over 0..N-1 computed once (TLC evaluates functions lazily otherwise);
\* they only make the elementwise definitions below cheap, they do not change them
Tab(N, f(_)) == TLCEval([x \in 0..(N - 1) |-> f(x)])
DigitsTab(dims) == Tab(IProd(dims), LAMBDA x : Digits(x, dims))
SubIndexTab(dims, sites) == Tab(IProd(dims), LAMBDA x : SubIndex(x, dims, sites))

(* --------------------------- Kronecker product ------------------------ *)
\* the textbook pairwise definition ...
Kron2(A, B) == Mat(A.r * B.r, A.c * B.c,
                   LAMBDA i, j : GMul(At(A, i \div B.r, j \div B.c), At(B, i % B.r, j % B.c)))
RECURSIVE KronFoldN(_, _)
KronFoldN(ops, n) == IF n = 1 THEN ops[1] ELSE Kron2(KronFoldN(ops, n - 1), ops[n])
KronFold(ops) == KronFoldN(ops, Len(ops))
\* ... and the equivalent elementwise one used as oracle (C15_Laws checks they agree)
KronSeq(ops) ==
  LET rd == [k \in 1..Len(ops) |-> ops[k].r]
      cd == [k \in 1..Len(ops) |-> ops[k].c]
      rt == DigitsTab(rd)
      ct == DigitsTab(cd)
  IN  Mat(IProd(rd), IProd(cd),
          LAMBDA i, j : GProd([k \in 1..Len(ops) |-> At(ops[k], rt[i][k], ct[j][k])]))

(* ------------------------------ embedding ----------------------------- *)
\* A placement is a sequence of groups [sites |-> ordered 1-based sites, op |-> square matrix of
\* size prod(dims[sites])]; the embedded operator is the product of the group operators acting on
\* the digits of their sites, and the identity on every site that no group covers.
Place(groups, dims) ==
  LET D == IProd(dims)
      free == SortedSeq({s \in 1..Len(dims) : \A g \in 1..Len(groups) : s \notin SeqRange(groups[g].sites)})
      fr == SubIndexTab(dims, free)          \* the digits on the uncovered sites, as one number
      gi == TLCEval([g \in 1..Len(groups) |-> SubIndexTab(dims, groups[g].sites)])
  IN  Mat(D, D, LAMBDA i, j :
        IF fr[i] # fr[j] THEN GZero
        ELSE GProd([g \in 1..Len(groups) |-> At(groups[g].op, gi[g][i], gi[g][j])]))

\* pkron: "op acts on dims[inds]" with inds in the given order
PKron(op, dims, inds) == Place(<< [sites |-> inds, op |-> op] >>, dims)

\* ikron: ops are cycled over inds in the given order ...
OpFor(ops, inds, s) == ops[((PosIn(inds, s) - 1) % Len(ops)) + 1]
\* ... a dimension -1 at a targeted site means "whatever the operator needs" ...
EffDims(ops, dims, inds) ==
  [s \in 1..Len(dims) |-> IF dims[s] = -1 /\ s \in SeqRange(inds) THEN OpFor(ops, inds, s).r ELSE dims[s]]
\* ... and an operator larger than its site is overlaid on the following sites, up to the
\* targeted site at which the dimensions multiply to its size.
\* st = [cur |-> sites of the open group, groups |-> closed groups, ok |-> in the documented domain]
RECURSIVE EmbedScan(_, _, _, _, _)
EmbedScan(ops, dims, inds, s, st) ==
  IF s > Len(dims) THEN
     [st EXCEPT !.ok = st.ok /\ (st.cur = <<>> \/ IProd(Sub(dims, st.cur)) = 1)]
  ELSE
  LET tgt == s \in SeqRange(inds) IN
  IF st.cur = <<>> \/ IProd(Sub(dims, st.cur)) = 1 THEN
     \* no operator is open (a leading site of dimension 1 does not open one)
     IF ~tgt THEN EmbedScan(ops, dims, inds, s + 1, st)
     ELSE LET op == OpFor(ops, inds, s) IN
          IF dims[s] = op.r
          THEN EmbedScan(ops, dims, inds, s + 1,
                         [st EXCEPT !.cur = <<>>, !.groups = Append(@, [sites |-> st.cur \o <<s>>, op |-> op])])
          ELSE IF op.r % dims[s] = 0 /\ dims[s] < op.r
          THEN EmbedScan(ops, dims, inds, s + 1, [st EXCEPT !.cur = st.cur \o <<s>>])
          ELSE [st EXCEPT !.ok = FALSE]
  ELSE
     LET op  == OpFor(ops, inds, st.cur[1])
         acc == IProd(Sub(dims, st.cur)) * dims[s]
     IN  IF ~tgt
         \* a site strictly inside an overlaid block belongs to the block even when it is not
         \* targeted itself (this is how ham_j1j2 places S(x)1(x)S on the pair (i, i+2)); the block
         \* must end on a targeted site
         THEN IF op.r % acc = 0 /\ acc < op.r
              THEN EmbedScan(ops, dims, inds, s + 1, [st EXCEPT !.cur = st.cur \o <<s>>])
              ELSE [st EXCEPT !.ok = FALSE]
         ELSE IF acc = op.r
         THEN EmbedScan(ops, dims, inds, s + 1,
                        [st EXCEPT !.cur = <<>>, !.groups = Append(@, [sites |-> st.cur \o <<s>>, op |-> op])])
         ELSE IF op.r % acc = 0 /\ acc < op.r
         THEN EmbedScan(ops, dims, inds, s + 1, [st EXCEPT !.cur = st.cur \o <<s>>])
         ELSE [st EXCEPT !.ok = FALSE]

EmbedPlan(ops, dims, inds) ==
  EmbedScan(ops, EffDims(ops, dims, inds), inds, 1, [cur |-> <<>>, groups |-> <<>>, ok |-> TRUE])

\* the documented domain: distinct in-range sites, square operators, sizes that factorize over
\* the targeted sites, and either a single operator or operators that each fit their own site
EmbedDomain(ops, dims, inds) ==
  /\ Len(ops) >= 1 /\ Len(dims) >= 1
  /\ \A k \in 1..Len(inds) : inds[k] \in 1..Len(dims)
  /\ \A k \in 1..Len(inds), m \in 1..Len(inds) : k # m => inds[k] # inds[m]
  /\ \A k \in 1..Len(ops) : ops[k].r = ops[k].c
  /\ \A s \in 1..Len(dims) : dims[s] >= 1 \/ (dims[s] = -1 /\ s \in SeqRange(inds))
  /\ EmbedPlan(ops, dims, inds).ok
  /\ \/ Len(ops) = 1
     \/ \A g \in 1..Len(EmbedPlan(ops, dims, inds).groups) :
           Len(EmbedPlan(ops, dims, inds).groups[g].sites) = 1

Embed(ops, dims, inds) == Place(EmbedPlan(ops, dims, inds).groups, EffDims(ops, dims, inds))

(* ----------------------------- permutation ---------------------------- *)
IsPerm(perm, n) == Len(perm) = n /\ SeqRange(perm) = 1..n
PermDims(dims, perm) == [k \in 1..Len(perm) |-> dims[perm[k]]]
\* index in the old ordering of the basis state that sits at index x in the new ordering
OldIndex(x, dims, perm) ==
  LET nd == PermDims(dims, perm)
  IN  Index([s \in 1..Len(dims) |-> Digit(x, nd, PosIn(perm, s))], dims)
\* vectors keep their orientation; an axis of length prod(dims) is permuted
Permute(X, dims, perm) ==
  LET D == IProd(dims)
      old == Tab(D, LAMBDA x : OldIndex(x, dims, perm))
  IN  Mat(X.r, X.c, LAMBDA i, j :
            At(X, IF X.r = D THEN old[i] ELSE i, IF X.c = D THEN old[j] ELSE j))

(* ---------------------------- partial trace --------------------------- *)
\* full index whose digits on the kept sites are those of a and on the lost sites those of l
Compose(a, l, dims, K, L) ==
  Index([s \in 1..Len(dims) |-> IF s \in SeqRange(K) THEN Digit(a, Sub(dims, K), PosIn(K, s))
                                                      ELSE Digit(l, Sub(dims, L), PosIn(L, s))], dims)
PTrace(rho, dims, keep) ==
  LET K  == SortedSeq(keep)
      L  == SortedSeq((1..Len(dims)) \ keep)
      DK == IProd(Sub(dims, K))
      DL == IProd(Sub(dims, L))
      cp == TLCEval([a \in 0..(DK - 1) |-> [l \in 1..DL |-> Compose(a, l - 1, dims, K, L)]])
  IN  Mat(DK, DK, LAMBDA a, b : GSum([l \in 1..DL |-> At(rho, cp[a][l], cp[b][l])]))
\* the same for a ket, without forming the projector
PTraceKet(psi, dims, keep) ==
  LET K  == SortedSeq(keep)
      L  == SortedSeq((1..Len(dims)) \ keep)
      DK == IProd(Sub(dims, K))
      DL == IProd(Sub(dims, L))
      cp == TLCEval([a \in 0..(DK - 1) |-> [l \in 1..DL |-> Compose(a, l - 1, dims, K, L)]])
  IN  Mat(DK, DK, LAMBDA a, b :
            GSum([l \in 1..DL |-> GMul(psi.e[cp[a][l] + 1], GConj(psi.e[cp[b][l] + 1]))]))
\* operator on the kept sites (original order) embedded back: the adjoint of PTrace
EmbedKept(A, dims, keep) == Place(<< [sites |-> SortedSeq(keep), op |-> A] >>, dims)

(* -------------------------- partial transpose ------------------------- *)
\* digits of i, except on the sites of sysa where those of j are taken
MixIndex(i, j, dims, sysa) ==
  Index([s \in 1..Len(dims) |-> IF s \in sysa THEN Digit(j, dims, s) ELSE Digit(i, dims, s)], dims)
PartialTranspose(rho, dims, sysa) ==
  LET D  == IProd(dims)
      \* the part of an index carried by the sites of sysa, and the rest
      xa == Tab(D, LAMBDA x : ISum([s \in 1..Len(dims) |-> IF s \in sysa THEN Digit(x, dims, s) * Stride(dims, s) ELSE 0]))
  IN  Mat(rho.r, rho.c, LAMBDA i, j : At(rho, (i - xa[i]) + xa[j], (j - xa[j]) + xa[i]))
ASSUME \A i \in 0..11, j \in 0..11 :
         LET d == <<2, 3, 2>> sa == {1, 3}
             xa(x) == ISum([s \in 1..3 |-> IF s \in sa THEN Digit(x, d, s) * Stride(d, s) ELSE 0])
         IN  MixIndex(i, j, d, sa) = (i - xa(i)) + xa(j)

(* ------------------ multi-dimensional coordinates --------------------- *)
\* dim_map: coordinates on a lattice of the given shape -> flat site numbers (0-based, row-major),
\* wrapping (cyclic), deleting (trim) or refusing coordinates outside the lattice
CooInRange(shape, coo) == Len(coo) = Len(shape) /\ \A k \in 1..Len(shape) : 0 <= coo[k] /\ coo[k] < shape[k]
CooFlat(shape, coo) == ISum([k \in 1..Len(shape) |-> coo[k] * Stride(shape, k)])
CooWrap(shape, coo) == [k \in 1..Len(shape) |-> coo[k] % shape[k]]
RECURSIVE KeepInRange(_, _)
KeepInRange(shape, coos) ==
  IF coos = <<>> THEN <<>>
  ELSE (IF CooInRange(shape, Head(coos)) THEN <<Head(coos)>> ELSE <<>>) \o KeepInRange(shape, Tail(coos))
\* The lattice may have any number of levels (nested dimension lists of any depth): `shape` is the
\* sequence of its extents and the flat site number is the ROW-MAJOR position, i.e. the mixed-radix
\* number whose digits are the coordinates.  Checked on lattices with unequal extents (incl. 1):
ASSUME \A shape \in {<<3>>, <<2, 3>>, <<1, 2, 3>>, <<2, 1, 3>>, <<2, 3, 2>>, <<3, 2, 2>>, <<2, 1, 3, 2>>} :
         \A x \in 0..(IProd(shape) - 1) :
            /\ CooInRange(shape, Digits(x, shape))
            /\ CooFlat(shape, Digits(x, shape)) = x
            /\ CooFlat(shape, CooWrap(shape, [k \in 1..Len(shape) |-> Digits(x, shape)[k] - shape[k]])) = x
ASSUME /\ CooFlat(<<2, 3, 2>>, <<1, 2, 1>>) = 11 /\ CooFlat(<<2, 1, 3, 2>>, <<1, 0, 2, 1>>) = 11
       /\ KeepInRange(<<2, 3, 2>>, << <<0, 3, 0>>, <<1, 1, 0>>, <<2, 0, 0>> >>) = << <<1, 1, 0>> >>
DimMapRejects(shape, coos, cyclic, trim) ==
  ~cyclic /\ ~trim /\ \E k \in 1..Len(coos) : ~CooInRange(shape, coos[k])
DimMap(shape, coos, cyclic, trim) ==
  IF cyclic THEN [k \in 1..Len(coos) |-> CooFlat(shape, CooWrap(shape, coos[k]))]
  ELSE LET cs == IF trim THEN KeepInRange(shape, coos) ELSE coos
       IN  [k \in 1..Len(cs) |-> CooFlat(shape, cs[k])]

(* ------------- deterministic "generic" test matrices ------------------ *)
\* small Gaussian-integer matrices without accidental symmetry (used by the model runs;
\* the laws are polynomial identities, a generic point plus the exhaustive index structure
\* of the small scope is what TLC enumerates)
GenEntry(i, j, seed) ==
  <<((7 * i + 3 * j + 5 * seed + i * j) % 5) - 2, ((3 * i + 11 * j + seed + 2 * i * j + 1) % 3) - 1>>
GenMat(R, C, seed) ==
  [r |-> R, c |-> C, e |-> [n \in 1..(R * C) |-> GenEntry((n - 1) \div C, (n - 1) % C, seed)]]
GenHermEntry(i, j, seed) ==
  IF i = j THEN <<((i + seed) % 4), 0>>
  ELSE IF i < j THEN GenEntry(i, j, seed) ELSE GConj(GenEntry(j, i, seed))
GenHerm(D, seed) ==
  [r |-> D, c |-> D, e |-> [n \in 1..(D * D) |-> GenHermEntry((n - 1) \div D, (n - 1) % D, seed)]]
=============================================================================
