SPECIFICATION Spec
CONSTANTS
  DimLists <- LawDimsQuick
  Seeds <- Seeds1
INVARIANT AllLawsHold
CHECK_DEADLOCK FALSE
