----------------------------- MODULE C15_Impl -----------------------------
(***************************************************************************)
(* C15, implementation-shaped part: transcription of the bookkeeping of    *)
(* quimb/core.py at the pinned commit (constant-level functions; the state *)
(* machines C15_Kron and C15_Ptr step through them, C15_Laws and the Trace *)
(* spec compare them with the reference definitions of C15_Defs).          *)
(*   dynal, gen_matching_dynal, gen_ops_maybe_sliced, the over-slice       *)
(*   correction of kron(ownership=), ikron's placement generator gen_ops,  *)
(*   _dim_compressor / dim_compress, _trace_keep, _trace_lose,             *)
(*   _partial_trace_simple.                                                *)
(* Sites are 1-based here (quimb: 0-based); nothing depends on the origin. *)
(***************************************************************************)
EXTENDS C15_Defs

Max2(a, b) == IF a > b THEN a ELSE b
Min2(a, b) == IF a < b THEN a ELSE b

(* ---------------- kron(ownership=(ri, rf)) ---------------- *)
\* dynal(x, bases): div = x // b; yield div; x -= div * b   for b in [prod(bases[i+1:])]
RECURSIVE DynalFrom(_, _, _)
DynalFrom(x, bases, k) ==
  IF k > Len(bases) THEN <<>>
  ELSE LET b == Stride(bases, k)
           dv == x \div b
       IN  <<dv>> \o DynalFrom(x - dv * b, bases, k + 1)
Dynal(x, bases) == DynalFrom(x, bases, 1)

\* gen_matching_dynal(ri, rf, dims): the equal leading digits plus the first pair that differs
RECURSIVE MatchFrom(_, _, _)
MatchFrom(a, b, k) ==
  IF k > Len(a) THEN <<>>
  ELSE IF a[k] = b[k] THEN << <<a[k], b[k]>> >> \o MatchFrom(a, b, k + 1)
  ELSE << <<a[k], b[k]>> >>
MatchingDynal(ri, rfl, dims) == MatchFrom(Dynal(ri, dims), Dynal(rfl, dims), 1)

\* python's seq[start:stop] (stop = None when ~hasStop), negative bounds count from the end
PySlice(seq, start, stop, hasStop) ==
  LET n  == Len(seq)
      s0 == IF start < 0 THEN Max2(n + start, 0) ELSE Min2(start, n)
      s1 == IF ~hasStop THEN n ELSE IF stop < 0 THEN Max2(n + stop, 0) ELSE Min2(stop, n)
  IN  SubSeq(seq, s0 + 1, s1)

\* gen_ops_maybe_sliced: rows kept of every factor (op[slice(d1, d2 + 1), :] for the matching ones)
OwnRowSets(dims, m) ==
  [k \in 1..Len(dims) |->
     IF k <= Len(m) THEN PySlice([t \in 1..dims[k] |-> t - 1], m[k][1], m[k][2] + 1, TRUE)
     ELSE [t \in 1..dims[k] |-> t - 1]]

\* rows of the full product that the product of the sliced factors consists of, in order
OwnKronRows(dims, rs) ==
  LET lens == [k \in 1..Len(dims) |-> Len(rs[k])]
  IN  [x \in 1..IProd(lens) |->
         Index([k \in 1..Len(dims) |-> rs[k][Digit(x - 1, lens, k) + 1]], dims)]

\* "check if the kron has naturally oversliced": <<ri_got, rf_got>>
OwnGot(dims, m) ==
  IF m # <<>>
  THEN LET bs == [i \in 1..Len(m) |-> Stride(dims, i)]
       IN  << ISum([i \in 1..Len(m) |-> m[i][1] * bs[i]]),
              ISum([i \in 1..Len(m) |-> m[i][2] * bs[i]]) + bs[Len(m)] >>
  ELSE <<0, IProd(dims)>>

\* "slice the desired rows only using the difference between indices"
OwnCorrect(xrows, ri, rf, got) ==
  LET di == ri - got[1]
      df == rf - got[2]
  IN  IF di # 0 \/ df # 0 THEN PySlice(xrows, di, df, df # 0) ELSE xrows

\* the whole computation: global row numbers that kron(ops.., ownership=(ri, rf)) returns
OwnRows(dims, ri, rf) ==
  LET m == MatchingDynal(ri, rf - 1, dims)
  IN  OwnCorrect(OwnKronRows(dims, OwnRowSets(dims, m)), ri, rf, OwnGot(dims, m))

(* ---------------- ikron: the placement generator gen_ops ---------------- *)
\* sorted(zip(inds, cycle(ops))) -> the operators in the order of their (sorted) sites
SortedOps(ops, inds) ==
  LET K == SortedSeq(SeqRange(inds)) IN [k \in 1..Len(K) |-> OpFor(ops, inds, K[k])]

\* st = [id |-> cff_id, ov |-> cff_ov, nxt |-> position of next(ops), op |-> current op, out |-> yielded]
RECURSIVE GenOpsScan(_, _, _, _, _)
GenOpsScan(sops, dims, tset, s, st) ==
  IF s > Len(dims)
  THEN IF st.id > 1 THEN Append(st.out, Eye(st.id)) ELSE st.out
  ELSE LET dim == dims[s] IN
       IF s \in tset
       THEN LET st1 == IF st.id > 1 THEN [st EXCEPT !.out = Append(@, Eye(st.id)), !.id = 1] ELSE st
                st2 == IF st1.ov = 1 THEN [st1 EXCEPT !.op = sops[st1.nxt], !.nxt = @ + 1] ELSE st1
            IN  IF st2.ov * dim = st2.op.r \/ dim = -1
                THEN GenOpsScan(sops, dims, tset, s + 1, [st2 EXCEPT !.out = Append(@, st2.op), !.ov = 1])
                ELSE GenOpsScan(sops, dims, tset, s + 1, [st2 EXCEPT !.ov = @ * dim])
       ELSE IF st.ov > 1
       THEN GenOpsScan(sops, dims, tset, s + 1, [st EXCEPT !.ov = @ * dim])
       ELSE GenOpsScan(sops, dims, tset, s + 1, [st EXCEPT !.id = @ * dim])

GenOps(ops, dims, inds) ==
  GenOpsScan(SortedOps(ops, inds), dims, SeqRange(inds), 1,
             [id |-> 1, ov |-> 1, nxt |-> 1, op |-> Eye(1), out |-> <<>>])

(* ---------------- _dim_compressor / dim_compress ---------------- *)
\* st = [id |-> blocksize_id, op |-> blocksize_op, au |-> autoplace_count, out |-> yielded pairs]
\* skip1: "if dim == 1: continue" (a subsystem of size 1 carries no index).  FALSE is the code before
\* that line existed, kept as a named deviation: blocks of accumulated size 1 are then never flushed
\* and the final fall-through yields a block of size 0 (see C15_Ptr, config MC_ptr_prefix.cfg).
RECURSIVE CompressScanV(_, _, _, _, _)
CompressScanV(dims, inds, s, st, skip1) ==
  IF s > Len(dims)
  THEN Append(st.out, IF st.op > 1 THEN <<st.op, 1>> ELSE IF st.id > 1 THEN <<st.id, 0>> ELSE <<st.au, 1>>)
  ELSE LET dim == dims[s] IN
       IF skip1 /\ dim = 1 THEN CompressScanV(dims, inds, s + 1, st, skip1) ELSE
       IF dim < 0
       THEN LET st1 == IF st.op > 1 THEN [st EXCEPT !.out = Append(@, <<st.op, 1>>), !.op = 1]
                       ELSE IF st.id > 1 THEN [st EXCEPT !.out = Append(@, <<st.id, 0>>), !.id = 1]
                       ELSE st
            IN  CompressScanV(dims, inds, s + 1, [st1 EXCEPT !.au = @ + dim], skip1)
       ELSE IF s \in inds
       THEN LET st1 == IF st.id > 1 THEN [st EXCEPT !.out = Append(@, <<st.id, 0>>), !.id = 1]
                       ELSE IF st.au < 0 THEN [st EXCEPT !.out = Append(@, <<st.au, 1>>), !.au = 0]
                       ELSE st
            IN  CompressScanV(dims, inds, s + 1, [st1 EXCEPT !.op = @ * dim], skip1)
       ELSE LET st1 == IF st.op > 1 THEN [st EXCEPT !.out = Append(@, <<st.op, 1>>), !.op = 1]
                       ELSE IF st.au < 0 THEN [st EXCEPT !.out = Append(@, <<st.au, 1>>), !.au = 0]
                       ELSE st
            IN  CompressScanV(dims, inds, s + 1, [st1 EXCEPT !.id = @ * dim], skip1)

DimCompressorV(dims, inds, skip1) ==
  CompressScanV(dims, inds, 1, [id |-> 1, op |-> 1, au |-> 0, out |-> <<>>], skip1)
DimCompressor(dims, inds) == DimCompressorV(dims, inds, TRUE)
\* dim_compress: <<new dims, set of (1-based) marked positions>>
DimCompressV(dims, inds, skip1) ==
  LET pr == DimCompressorV(dims, inds, skip1)
  IN  << [k \in 1..Len(pr) |-> pr[k][1]], {k \in 1..Len(pr) : pr[k][2] = 1} >>
DimCompress(dims, inds) == DimCompressV(dims, inds, TRUE)

(* ---------------- sparse partial trace ---------------- *)
\* "nothing (of size > 1) is kept -> keep a trivial subsystem": _trace_keep(p, (*dims, 1), len(dims))
\* (defined after TraceKeep below)
\* _trace_keep(p, dims, keep): only the upper triangle is computed, the lower one is its conjugate
TraceKeep(p, dims, k) ==
  LET s == dims[k]
      a == IProd(SubSeq(dims, 1, k - 1))
      b == IProd(SubSeq(dims, k + 1, Len(dims)))
      up(i, j) == GSum([kk \in 1..a |-> GSum([t \in 1..b |->
                       At(p, b * i + s * b * (kk - 1) + t - 1, b * j + s * b * (kk - 1) + t - 1)])])
  IN  Mat(s, s, LAMBDA i, j : IF i <= j THEN up(i, j) ELSE GConj(up(j, i)))

TraceKeepNothing(p, dims) == TraceKeep(p, dims \o <<1>>, Len(dims) + 1)

\* _trace_lose(p, dims, lose)
TraceLose(p, dims, l) ==
  LET e == dims[l]
      a == IProd(SubSeq(dims, 1, l - 1))
      b == IProd(SubSeq(dims, l + 1, Len(dims)))
      st(i) == e * b * (i \div b) + (i % b)
      up(i, j) == GSum([t \in 1..e |-> At(p, st(i) + (t - 1) * b, st(j) + (t - 1) * b)])
  IN  Mat(a * b, a * b, LAMBDA i, j : IF i <= j THEN up(i, j) ELSE GConj(up(j, i)))

\* lmax = max(enumerate(dims), key=lambda ix: (ix[0] not in keep) * ix[1])[0]  (first maximum)
LMax(dims, keep) ==
  LET key(k) == IF k \in keep THEN 0 ELSE dims[k]
  IN  CHOOSE k \in 1..Len(dims) : /\ \A m \in 1..Len(dims) : key(m) <= key(k)
                                  /\ \A m \in 1..(k - 1) : key(m) < key(k)
\* keep = {(ind if ind < lmax else ind - 1) for ind in keep}
ShiftKeep(keep, l) == {IF k < l THEN k ELSE k - 1 : k \in keep}
DropAt(seq, l) == SubSeq(seq, 1, l - 1) \o SubSeq(seq, l + 1, Len(seq))

=============================================================================
