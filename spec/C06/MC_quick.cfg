SPECIFICATION Spec
CONSTANTS
  Geoms <- GeomsQuick
  MaxDepth = 2
  WideDepth = 1
  MaxArity = 3
  Record = FALSE
  Bug = "none"
INVARIANT RoutesAgree
INVARIANT NamingKept
INVARIANT FactsProduct
INVARIANT TypeOK
PROPERTY RejectStutters
CHECK_DEADLOCK FALSE
