SPECIFICATION Spec
CONSTANTS
  Geoms <- GeomsThorough
  MaxDepth = 2
  WideDepth = 1
  WideGids <- Gids13
  NarrowOps <- OpsNH
  NarrowArity = 2
  MaxArity = 3
  Lanes = TRUE
  Record = FALSE
  Sim = FALSE
  Bug = "none"
INVARIANT RoutesAgree
INVARIANT NamingKept
INVARIANT TypeOK
PROPERTY RejectStutters
CHECK_DEADLOCK FALSE
