----------------------------- MODULE C06_Trace -----------------------------
(***************************************************************************)
(* Trace spec for C06.  A trace starts with a `new` record: the geometry   *)
(* class, the site dimensions, the exact dense form psi of a real quimb    *)
(* network (Gaussian integers, measured with numpy.einsum on the tensors'  *)
(* public data), its outer labels and its site tags.  TLC keeps them as    *)
(* the abstract state of C06_Gate.  Every later record is one application  *)
(* of a gate through one public entry point and mode:                      *)
(*   apply : exact data - TLC computes  ApplyRef(G, dims, sites, psi, op,  *)
(*           which)  itself and compares it with the observed dense form;  *)
(*   rel   : float data - the driver logs the quantised distance to the    *)
(*           numpy transcription of ApplyRef (which `ref` records bind to  *)
(*           the specification on exact inputs);                           *)
(* The mode never enters the expected value.  Rejections (exceptions) are  *)
(* judged against the dispatch table of C06_Defs: "yes" must return, "no"  *)
(* returning is only model drift (NOTE), and whatever returns must satisfy *)
(* the property.                                                           *)
(***************************************************************************)
EXTENDS C06_Defs, TraceIO

VARIABLES l, fails, st
tvars == <<l, fails, st>>

NoState == [cls |-> "none", dims |-> <<>>, edges |-> <<>>, psi |-> <<>>, outer |-> <<>>, sitetags |-> <<>>,
            form |-> "struct", scaled |-> FALSE, exact |-> FALSE]

NewState(ln) == [cls |-> ln.geom.cls, dims |-> ln.geom.dims, edges |-> ln.geom.edges, psi |-> ln.psi,
                 outer |-> ln.outer, sitetags |-> ln.sitetags, form |-> "struct", scaled |-> FALSE, exact |-> ln.exact]

DenseSize(s) == IF IsOp(s.cls) THEN Size(s.dims) * Size(s.dims) ELSE Size(s.dims)

NewClauses(ln) ==
  << <<"WellFormed", /\ ln.exact => Len(ln.psi) = (IF IsOp(ln.geom.cls) THEN Size(ln.geom.dims) * Size(ln.geom.dims) ELSE Size(ln.geom.dims))
                     /\ ln.struct>> >>

Returned(ln) == ln.exc = ""
Table(s, ln) == Accepts(s.cls, ln.entry, ln.mode, Len(ln.sites), PairAdjacent(s.edges, ln.sites), s.form, ln.op, ln.which)
Keeps(s, ln) == s.form = "struct" /\ KeepsForm(s.cls, ln.entry, ln.mode, Len(ln.sites))
WellPosed(s, ln) == IsSiteTuple(s.dims, ln.sites) /\ FitsGate(ln.G, s.dims, ln.sites)

\* clauses that do not need the value
CommonClauses(s, ln) ==
  << <<"WellPosed", WellPosed(s, ln)>>,
     <<"Returns", Table(s, ln) = "yes" => Returned(ln)>>,
     <<"NOTE:TableRejects", Table(s, ln) = "no" => ~Returned(ln)>>,
     <<"OuterSame", Returned(ln) => ln.outer = s.outer>>,
     <<"SiteTagsSame", Returned(ln) => ln.sitetags = s.sitetags>>,
     <<"StructureKept", (Returned(ln) /\ Keeps(s, ln)) => ln.struct>>,
     \* a rejected call of the plain spelling leaves the receiver alone; an in-place call that raises half way
     \* may not (that is outside the statement: only noted)
     <<"RejectionClean", (~Returned(ln) /\ ~ln.inplace) => (ln.outer = s.outer /\ ln.sitetags = s.sitetags)>>,
     <<"NOTE:InplaceRejectionDirty", (~Returned(ln) /\ ln.inplace) => (ln.outer = s.outer /\ ln.sitetags = s.sitetags)>> >>

ApplyClauses(s, ln) ==
  LET sc  == s.scaled \/ ln.renorm
      ref == ApplyRef(ln.G, s.dims, ln.sites, s.psi, ln.op, ln.which)
  IN  CommonClauses(s, ln) \o
      << <<"OnGrid", (Returned(ln) /\ ~sc) => ln.ongrid>>,
         <<"ValueExact", (Returned(ln) /\ ~sc /\ ln.ongrid /\ WellPosed(s, ln)) => ln.psi = ref>>,
         <<"ValueUpToScale", (Returned(ln) /\ sc /\ WellPosed(s, ln)) => PropTo(ln.psiq, ref)>>,
         \* the plain (not in-place) spelling and a rejected call leave the receiver's dense form alone
         <<"ReceiverUnchanged", (ln.recv_checked /\ Returned(ln)) => ln.recv = s.psi>>,
         <<"RejectionCleanValue", (ln.recv_checked /\ ~Returned(ln) /\ ~ln.inplace) => ln.recv = s.psi>>,
         <<"NOTE:InplaceRejectionDirtyValue", (ln.recv_checked /\ ~Returned(ln) /\ ln.inplace) => ln.recv = s.psi>> >>

RelClauses(s, ln) ==
  CommonClauses(s, ln) \o
  << <<"ValueRel", Returned(ln) => ln.qd = 0>>,
     \* the driver computed its numpy reference for the operator this specification expects
     <<"HarnessOpBinding", ln.effop = EffOp(ln.op)>>,
     <<"ReceiverUnchangedRel", (ln.recv_checked /\ ~(ln.inplace /\ ~Returned(ln))) => ln.recvqd = 0>>,
     <<"NOTE:InplaceRejectionDirtyValue", (ln.recv_checked /\ ln.inplace /\ ~Returned(ln)) => ln.recvqd = 0>> >>

\* the numpy transcription of the reference agrees with the specification on exact inputs
RefClauses(ln) ==
  << <<"RefBinding", ln.out = ApplyRef(ln.G, ln.dims, ln.sites, ln.psi, ln.op, ln.which)>> >>

Clauses(s, ln) ==
  CASE ln.ev = "new"   -> NewClauses(ln)
    [] ln.ev = "apply" -> ApplyClauses(s, ln)
    [] ln.ev = "rel"   -> RelClauses(s, ln)
    [] ln.ev = "ref"   -> RefClauses(ln)
    [] OTHER           -> << <<"UnknownEvent", FALSE>> >>

\* the abstract state after the record: the action of C06_Gate (psi' = ApplyRef, naming unchanged)
After(s, ln) ==
  IF ln.ev = "new" THEN NewState(ln)
  ELSE IF ln.ev \in {"apply", "rel"} /\ Returned(ln) /\ WellPosed(s, ln) THEN
    \* (every step is judged against the state observed before it: after a step whose exact observation is
    \* available the abstract state is that observation, which ValueExact has just compared with ApplyRef;
    \* a wrong step is then reported once and not again at every later step of its trace)
    [s EXCEPT !.psi = IF ~s.exact THEN s.psi
                      ELSE IF ln.ev = "apply" /\ ln.ongrid /\ ~(s.scaled \/ ln.renorm) THEN ln.psi
                      ELSE ApplyRef(ln.G, s.dims, ln.sites, s.psi, ln.op, ln.which),
              !.form = IF Keeps(s, ln) /\ ln.struct THEN "struct" ELSE "loose",
              !.scaled = s.scaled \/ (ln.ev = "apply" /\ ln.renorm)]
  ELSE s

TInit == l = 1 /\ fails = <<>> /\ st = NoState
TNext == /\ l <= NLines
         /\ LET ln == TraceLog[l] IN
            /\ fails' = AddFails(fails, l, Clauses(st, ln))
            /\ st' = After(st, ln)
         /\ l' = l + 1
TSpec == TInit /\ [][TNext]_tvars
Done == l = NLines + 1 => WriteVerdict(l - 1, fails)
=============================================================================
