SPECIFICATION Spec
CONSTANTS
  Geoms <- GeomsOne
  MaxDepth = 1
  WideDepth = 1
  WideGids <- Gids13
  NarrowOps <- OpsN
  NarrowArity = 2
  MaxArity = 3
  Lanes = TRUE
  Record = FALSE
  Bug = "none"
INVARIANT RoutesAgree
INVARIANT NamingKept
INVARIANT TypeOK
PROPERTY RejectStutters
CHECK_DEADLOCK FALSE
