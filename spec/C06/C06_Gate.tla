------------------------------ MODULE C06_Gate ------------------------------
(***************************************************************************)
(* C06 - applying a gate equals multiplying by the operator, in every      *)
(* application mode.                                                       *)
(*                                                                         *)
(* Property level (R): one action  Apply(G, sites, route, op, which)  with *)
(*     psi' = ApplyRef(G, dims, sites, psi, op, which)                     *)
(*     outer' = outer,  sitetags' = sitetags                               *)
(* The route (entry point + mode) does not occur on the right-hand side.   *)
(* (Written as two steps, Choose then Apply..., only so that TLC evaluates *)
(* the exact arithmetic once per gate instead of once per route.)          *)
(*                                                                         *)
(* Implementation shaped (I): the dispatch table Accepts (C06_Defs) says   *)
(* which routes a geometry class takes for a gate of a given arity, and    *)
(* Impl transcribes what the accepted route does to the dense form at the  *)
(* pinned commit: how the gate array is wired (outputs first / transposed, *)
(* conjugated first for dagger), the upper/lower/sandwich wiring for       *)
(* operators, the swap - gate - swap-back route of gate_with_auto_swap     *)
(* with its "work with i < j but flip the gate" normalisation, and the     *)
(* sub-MPO route that re-sorts the gate legs by site.                      *)
(* Invariant RoutesAgree: every accepted route yields ApplyRef; every      *)
(* other combination is a rejection that leaves the state alone.           *)
(* TLC also checks algebraic facts of the reference itself (Fact...).      *)
(***************************************************************************)
EXTENDS C06_Defs, Json

CONSTANTS Geoms,       \* sequence of [name, cls, dims, edges, depth]
          MaxDepth,    \* gates per history
          WideDepth,   \* histories shorter than this explore the full cross product
          MaxArity,
          WideGids,    \* gate ids explored below WideDepth (3 = a product gate)
          NarrowOps, NarrowArity,
          Lanes,       \* one initial state per first site tuple (parallelism of the exhaustive run)
          Record,      \* keep the history (simulation / replay) or not (exhaustive)
          Sim,         \* simulation: draw one random candidate per quantifier instead of enumerating all of them
          Bug          \* "none", or a named mutation of Impl used as a self-test of the model

VARIABLES geom, lane, psi, outer, sitetags, form, depth, nrej, ok, hist, pend
vars == <<geom, lane, psi, outer, sitetags, form, depth, nrej, ok, hist, pend>>

(* ---------------- small deterministic data ---------------- *)
InitVec(D, s) == [i \in 1..D |-> <<((i * 7 + s * 3 + (i \div 3)) % 5) - 2, ((i * 3 + s + (i \div 2)) % 3) - 1>>]
\* a generic (non symmetric, non unitary, complex) d x d matrix
GateMat(d, g) ==
  [rows |-> d, cols |-> d,
   data |-> [n \in 1..(d * d) |->
               LET r == (n - 1) \div d
                   c == (n - 1) % d
               IN <<((3 * r + 5 * c + r * c + 2 * g + 1) % 5) - 2, ((r + 2 * c + g + ((r * r) % 3)) % 3) - 1>>]]
\* a product gate (operator-Schmidt rank one): exercises the rank decisions of the gate-splitting modes
ProdGate(gd, g) ==
  IF Len(gd) = 1 THEN GateMat(gd[1], g)
  ELSE IF Len(gd) = 2 THEN Kron(GateMat(gd[1], g), GateMat(gd[2], g + 1))
  ELSE Kron(GateMat(gd[1], g), Kron(GateMat(gd[2], g + 1), GateMat(gd[3], g + 2)))
GateFor(gd, g) == IF g = 3 THEN ProdGate(gd, g) ELSE GateMat(Size(gd), g)

OuterOf(g) == IF IsOp(g.cls) THEN {<<"k", i>> : i \in DOMAIN g.dims} \cup {<<"b", i>> : i \in DOMAIN g.dims}
              ELSE {<<"k", i>> : i \in DOMAIN g.dims}
DenseDims(g) == IF IsOp(g.cls) THEN g.dims \o g.dims ELSE g.dims

(* ---------------- what is enumerated ---------------- *)
Tuples(n, kmax) ==
  {<<a>> : a \in 1..n}
  \cup (IF kmax >= 2 THEN {<<a, b>> : a, b \in 1..n} ELSE {})
  \cup (IF kmax >= 3 THEN {<<a, b, c>> : a, b, c \in 1..n} ELSE {})
SiteTuples(g) == {s \in Tuples(Len(g.dims), MaxArity) : IsSiteTuple(g.dims, s)}

R(e, m) == [entry |-> e, mode |-> m]
RoutesOf(cls) ==
  {R("gate", m) : m \in Generic7} \cup {R("gate_inds", m) : m \in Generic7}
  \cup {R("gate_inds_with_tn", "tensor"), R("Tensor.gate", "gate_"), R("op_lazy", "lazy"), R("gate_simple", "exact"), R("gate_simple", "renorm")}
  \cup (IF Is1D(cls) THEN
          {R("gate", m) : m \in MpsOnly} \cup {R("gate_split", "split"), R("gate_with_auto_swap", "swap")}
          \cup {R(e, m) : e \in {"gate_nonlocal", "gate_with_submpo"}, m \in MpoMethods}
          \cup {R("gate_with_mpo", m) : m \in {"direct", "dm", "zipup"}}
        ELSE {})
  \cup (IF IsOp(cls) THEN {R(e, m) : e \in {"gate_upper", "gate_lower", "gate_sandwich"}, m \in {"False", "True", "split"}} ELSE {})
  \cup (IF cls = "mpo" THEN {R("gate_sandwich_with_auto_swap", m) : m \in {"split", "reduce-split"}} ELSE {})
\* a representative of each implementation family, used beyond WideDepth
NarrowRoutes(cls) ==
  {r \in RoutesOf(cls) :
     \/ (r.entry = "gate" /\ r.mode \in {"False", "True", "split", "swap-split-gate", "swap+split", "nonlocal"})
     \/ r.entry \in {"op_lazy", "gate_simple", "gate_sandwich_with_auto_swap"} /\ r.mode # "renorm"}

Whiches(cls, r) ==
  IF ~IsOp(cls) THEN {"site"}
  ELSE CASE r.entry = "gate_upper" -> {"upper"} [] r.entry = "gate_lower" -> {"lower"}
         [] r.entry \in {"gate_sandwich", "gate_simple", "gate_sandwich_with_auto_swap"} -> {"sandwich"}   \* no other spelling
         [] r.entry \in {"gate_inds_with_tn", "Tensor.gate"} -> {"upper", "lower"}
         [] OTHER -> {"upper", "lower", "sandwich"}

(* ---------------- the implementation-shaped update ---------------- *)
\* the gate array attached with its output legs first, or (transpose) its input legs first; dagger conjugates the
\* array and then wires it transposed
\* tensor_network_gate_inds:   if dagger: G = conj(G); transpose = True     (transpose is IMPLIED by dagger)
\* Bug "gateinds-xor" = `transpose = not transpose` there (seeded change C06-n1): wrong only with both flags.
Dag(op) == FlagsOf(op).dagger
Tr(op)  == FlagsOf(op).transpose
WireMat(G, op) ==
  LET arr == IF Dag(op) THEN ConjMat(G) ELSE G
      tr  == IF Dag(op) THEN (IF Bug = "gateinds-xor" THEN ~Tr(op) ELSE TRUE) ELSE Tr(op)
  IN  IF tr THEN Transpose(arr) ELSE arr

\* positions p, p + step, ..., last as a sequence (a run of neighbour exchanges; at most MaxRun of them)
RunOf(p, last, step) ==
  LET len == IF step > 0 THEN (IF p > last THEN 0 ELSE last - p + 1) ELSE (IF p < last THEN 0 ELSE p - last + 1)
  IN  [m \in 1..len |-> p + (m - 1) * step]
\* exchange neighbours along a run (written out, not recursive: TLC re-evaluates the arguments of recursive
\* operators at every use).  Chains of up to four sites between the two gate sites are covered.
SwapRun(v, dims, run) ==
  LET n  == Len(run)
      v1 == IF n >= 1 THEN SwapAdj(v,  dims, run[1]) ELSE v
      d1 == IF n >= 1 THEN SwapDims(dims, run[1]) ELSE dims
      v2 == IF n >= 2 THEN SwapAdj(v1, d1, run[2]) ELSE v1
      d2 == IF n >= 2 THEN SwapDims(d1, run[2]) ELSE d1
      v3 == IF n >= 3 THEN SwapAdj(v2, d2, run[3]) ELSE v2
      d3 == IF n >= 3 THEN SwapDims(d2, run[3]) ELSE d2
      v4 == IF n >= 4 THEN SwapAdj(v3, d3, run[4]) ELSE v3
      d4 == IF n >= 4 THEN SwapDims(d3, run[4]) ELSE d3
  IN  [v |-> v4, dims |-> d4]
\* swap_sites_with_compress of site p of an operator: both the upper and the lower physical space move
OpRun(run, n) == [m \in 1..(2 * Len(run)) |-> IF m % 2 = 1 THEN run[(m + 1) \div 2] ELSE n + run[m \div 2]]

\* gate_with_auto_swap: work with i < j but flip the application of the gate when necessary; move site j next
\* to site i, apply the gate to (i, i+1) [or (i+1, i)], move it back
ImplAutoSwap(G, dims, sites, v, op) ==
  LET a == sites[1]
      b == sites[2]
      lo == IF a < b THEN a ELSE b
      hi == IF a < b THEN b ELSE a
      flipped == a > b
      gw == IF flipped /\ Bug # "noflip" THEN <<lo + 1, lo>> ELSE <<lo, lo + 1>>
      s1 == SwapRun(v, dims, RunOf(hi - 1, lo + 1, -1))
      v2 == ApplyLocal(WireMat(G, op), s1.dims, gw, s1.v)
      s3 == IF Bug = "noswapback" THEN [v |-> v2, dims |-> s1.dims] ELSE SwapRun(v2, s1.dims, RunOf(lo + 1, hi - 1, 1))
  IN  s3.v

\* MatrixProductOperator.from_dense(G, dims, sites=where) builds the MPO in sorted site order; the MPS then
\* contracts the lower legs of the MPO (the upper legs if transpose).  gate_TN_1D spells the adjoint as
\* "conjugate the array and flip transpose" (fix 0665402c; before it the 'nonlocal' branch dropped dagger)
ImplSubMpo(G, dims, sites, v, op) ==
  LET gd == SubDims(dims, sites)
      sp == SortPerm(sites)
      \* gate_TN_1D, 'nonlocal' branch:  if dagger: G = conj(G); transpose = True   (implied, since 0a1463db;
      \* Bug "nonlocal-xor" = `transpose = not transpose`, the code between 0665402c and 0a1463db)
      dg == Dag(op) /\ Bug # "nonlocal-drops-dagger"
      Ga == IF dg THEN ConjMat(G) ELSE G
      tr == IF dg THEN (IF Bug = "nonlocal-xor" THEN ~Tr(op) ELSE TRUE) ELSE Tr(op)
      Gs == IF Bug = "nosort" THEN Ga ELSE PermuteGate(Ga, gd, sp)
      M  == IF tr THEN Transpose(Gs) ELSE Gs
  IN  ApplyLocal(M, dims, Compose(sites, sp), v)

\* tensor_network_gate_sandwich_inds: Gu, Gl = (conj G, G) if dagger else (G, conj G), both wired transposed
\* if dagger or transpose
ImplSandwich(G, dd, up, lo, v, op) ==
  LET Gc == ConjMat(G)
      Gu == IF Dag(op) /\ Bug # "sandwich-sides" THEN Gc ELSE G
      Gl == IF Dag(op) /\ Bug # "sandwich-sides" THEN G ELSE Gc
      tr == Dag(op) \/ Tr(op)                  \* transpose = dagger or transpose
      Wu == IF tr THEN Transpose(Gu) ELSE Gu
      Wl == IF tr THEN Transpose(Gl) ELSE Gl
  IN  ApplyLocal(Wl, dd, lo, ApplyLocal(Wu, dd, up, v))

\* MatrixProductOperator.gate_sandwich_with_auto_swap
ImplSandwichSwap(G, dims, sites, v, op) ==
  LET n == Len(dims)
      dd == dims \o dims
      a == sites[1]
      b == sites[2]
      lo == IF a < b THEN a ELSE b
      hi == IF a < b THEN b ELSE a
      gw == IF a > b THEN <<lo + 1, lo>> ELSE <<lo, lo + 1>>
      s1 == SwapRun(v, dd, OpRun(RunOf(hi - 1, lo + 1, -1), n))
      v2 == ImplSandwich(G, s1.dims, gw, [k \in 1..2 |-> n + gw[k]], s1.v, op)
      s3 == SwapRun(v2, s1.dims, OpRun(RunOf(lo + 1, hi - 1, 1), n))
  IN  s3.v

\* gate_with_op_lazy / gate_upper_with_op_lazy / gate_lower_with_op_lazy / gate_sandwich_with_op_lazy with the
\* operator network A = G: which legs of A are joined to the target (the driver's spelling of op is in c06.py)
ImplOpLazy(G, dims, sites, v, op, which) ==
  LET dd == dims \o dims
      lo == Lower(dims, sites)
      \* the matrix that multiplies the joined index when A's `legs` legs are joined
      Joined(A, legs) == IF legs = "lower" THEN A ELSE Transpose(A)
  IN  CASE which = "site"  -> ApplyLocal(Joined(G, IF op = "T" THEN "upper" ELSE "lower"), dims, sites, v)
        [] which = "upper" -> ApplyLocal(Joined(G, IF op = "T" THEN "upper" ELSE "lower"), dd, sites, v)
        [] which = "lower" -> ApplyLocal(Joined(G, IF op = "N" THEN "lower" ELSE "upper"), dd, lo, v)
        [] which = "sandwich" ->
             IF op = "H"
             THEN ApplyLocal(Joined(G, "upper"), dd, lo, ApplyLocal(Joined(ConjMat(G), "upper"), dd, sites, v))
             ELSE ApplyLocal(Joined(ConjMat(G), "lower"), dd, lo, ApplyLocal(Joined(G, "lower"), dd, sites, v))

ImplWire(G, dims, sites, v, op, which) ==
  LET dd == dims \o dims
      lo == Lower(dims, sites)
  IN  CASE which = "site"     -> ApplyLocal(WireMat(G, op), dims, sites, v)
        [] which = "upper"    -> ApplyLocal(WireMat(G, op), dd, sites, v)
        [] which = "lower"    -> ApplyLocal(WireMat(G, op), dd, lo, v)
        [] which = "sandwich" -> ImplSandwich(G, dd, sites, lo, v, op)

Impl(g, v, G, sites, op, which, r) ==
  LET k == Len(sites) IN
  CASE r.entry = "gate_with_auto_swap" \/ (r.entry = "gate" /\ k = 2 /\ r.mode \in {"swap+split", "auto-mps"})
         -> ImplAutoSwap(G, g.dims, sites, v, op)
    [] r.entry \in {"gate_nonlocal", "gate_with_submpo", "gate_with_mpo"}
       \/ (r.entry = "gate" /\ k >= 2 /\ r.mode = "nonlocal") \/ (r.entry = "gate" /\ k >= 3 /\ r.mode = "auto-mps")
         -> ImplSubMpo(G, g.dims, sites, v, op)
    [] r.entry = "gate_sandwich_with_auto_swap" -> ImplSandwichSwap(G, g.dims, sites, v, op)
    [] r.entry = "op_lazy" -> ImplOpLazy(G, g.dims, sites, v, op, which)
    [] OTHER -> ImplWire(G, g.dims, sites, v, op, which)

(* ---------------- algebraic facts of the reference ---------------- *)
Perms(k) == IF k = 1 THEN {<<1>>} ELSE IF k = 2 THEN {<<1, 2>>, <<2, 1>>}
            ELSE {<<1, 2, 3>>, <<1, 3, 2>>, <<2, 1, 3>>, <<2, 3, 1>>, <<3, 1, 2>>, <<3, 2, 1>>}
\* reversed / permuted site order = permuted gate legs
FactPerm(G, dims, sites, v) ==
  \A p \in Perms(Len(sites)) :
     ApplyLocal(PermuteGate(G, SubDims(dims, sites), p), dims, Compose(sites, p), v) = ApplyLocal(G, dims, sites, v)
\* <x, E y> = <E^dagger x, y>  and  E^T = conj(E^dagger)
FactAdjoint(G, dims, sites, v) ==
  LET x == InitVec(Size(dims), 5) IN
  /\ Inner(x, ApplyLocal(G, dims, sites, v)) = Inner(ApplyLocal(Dagger(G), dims, sites, x), v)
  /\ ApplyLocal(Transpose(G), dims, sites, v) =
       [i \in DOMAIN v |-> GConj(ApplyLocal(Dagger(G), dims, sites, [j \in DOMAIN v |-> GConj(v[j])])[i])]
\* the local evaluation is the library's Embed (the statement)
FactDef(G, g, sites, v, op, which) ==
  Size(g.dims) <= 12 /\ (IsOp(g.cls) => Size(g.dims) <= 6) =>
     ApplyRef(G, g.dims, sites, v, op, which) = ApplyRefDef(G, g.dims, sites, v, op, which)
\* Embed of a product = product of Embeds on disjoint sites (in either order)
FactProduct(g, v) ==
  LET dims == g.dims
      n == Len(dims) IN
  /\ \A a, b \in 1..n : a # b =>
       LET A == GateMat(dims[a], 1)
           B == GateMat(dims[b], 2) IN
       /\ ApplyLocal(Kron(A, B), dims, <<a, b>>, v) = ApplyLocal(A, dims, <<a>>, ApplyLocal(B, dims, <<b>>, v))
       /\ ApplyLocal(Kron(A, B), dims, <<a, b>>, v) = ApplyLocal(B, dims, <<b>>, ApplyLocal(A, dims, <<a>>, v))
  /\ \A a, b, c \in 1..n : (a # b /\ a # c /\ b # c /\ MaxArity >= 3) =>
       LET A == GateMat(dims[a], 1)
           BC == GateMat(dims[b] * dims[c], 2) IN
       ApplyLocal(Kron(A, BC), dims, <<a, b, c>>, v) = ApplyLocal(BC, dims, <<b, c>>, ApplyLocal(A, dims, <<a>>, v))
  \* the identity gate changes nothing, whatever the tuple
  /\ \A a, b \in 1..n : a # b => ApplyLocal(IdMat(dims[a] * dims[b]), dims, <<a, b>>, v) = v

(* ---------------- the state machine ---------------- *)
\* `lane` only spreads the exhaustive exploration over TLC's workers: it fixes the site tuple of the first
\* gate already in the initial state (one initial state per geometry and tuple); <<>> = no restriction
Init ==
  /\ geom \in {Geoms[i] : i \in DOMAIN Geoms}
  /\ lane \in (IF Lanes THEN SiteTuples(geom) ELSE {<<>>})
  /\ psi = InitVec(Size(DenseDims(geom)), Len(geom.dims))
  /\ outer = OuterOf(geom)
  /\ sitetags = DOMAIN geom.dims
  /\ form = "struct"
  /\ depth = 0 /\ nrej = 0 /\ ok = TRUE /\ hist = <<>> /\ pend = <<>>

DepthBound == IF geom.depth > 0 THEN geom.depth ELSE MaxDepth
Wide == depth < WideDepth
Ops == IF Wide THEN {"N", "T", "H", "B"} ELSE NarrowOps        \* the whole {dagger} x {transpose} grid
Gids == IF Wide THEN WideGids ELSE {1}
Routes == IF Wide THEN RoutesOf(geom.cls) ELSE NarrowRoutes(geom.cls)
Sites == IF depth = 0 /\ lane # <<>> THEN {lane}
         ELSE IF Wide THEN SiteTuples(geom) ELSE {s \in SiteTuples(geom) : Len(s) <= NarrowArity}

Act(kind, r, sites, G, op, which) ==
  [kind |-> kind, geom |-> geom.name, dims |-> geom.dims, entry |-> r.entry, mode |-> r.mode, sites |-> sites, op |-> op,
   which |-> which, G |-> G, formbefore |-> form]

\* the implementation family of a route (which transcription in Impl applies)
SwapFamily(r, k) == r.entry \in {"gate_with_auto_swap", "gate_sandwich_with_auto_swap"} \/ (r.entry = "gate" /\ k = 2 /\ r.mode \in {"swap+split", "auto-mps"})
MpoFamily(r, k) == r.entry \in {"gate_nonlocal", "gate_with_submpo", "gate_with_mpo"} \/ (r.entry = "gate" /\ k >= 2 /\ r.mode = "nonlocal") \/ (r.entry = "gate" /\ k >= 3 /\ r.mode = "auto-mps")
Family(r, k, w) == IF SwapFamily(r, k) THEN "swapped" ELSE IF MpoFamily(r, k) THEN "submpo"
                   ELSE IF r.entry = "op_lazy" THEN "oplazy" ELSE IF w = "sandwich" THEN "sandwich" ELSE "wired"
\* a route of each family (Impl only looks at the family)
FamilyRoute(fam, w) ==
  CASE fam = "swapped" -> IF w = "sandwich" THEN R("gate_sandwich_with_auto_swap", "split") ELSE R("gate_with_auto_swap", "swap")
    [] fam = "submpo"  -> R("gate_nonlocal", "direct")
    [] fam = "oplazy"  -> R("op_lazy", "lazy")
    [] OTHER           -> R("gate", "True")

\* TLC's simulator builds every successor before it picks one; for the replay behaviours one random candidate
\* per quantifier is drawn instead (RandomElement is seeded by -seed)
Pick(S) == IF Sim /\ S # {} THEN {RandomElement(S)} ELSE S

AcceptedRoutes(s, op, w) ==
  {r \in Routes : /\ w \in Whiches(geom.cls, r)
                  /\ Accepts(geom.cls, r.entry, r.mode, Len(s), PairAdjacent(geom.edges, s), form, op, w) = "yes"}

\* Applying a gate is written as two steps so that TLC evaluates the exact arithmetic once per gate and not
\* once per route:  Choose fixes (sites, G, op, which) and evaluates the reference update and the transcription
\* of every implementation family that has an accepted route;  the Apply... steps (one action per family, so
\* that coverage is reported per family) then take every accepted route.
Choose ==
  \E s \in Pick(Sites), g \in Pick(Gids), op \in Pick(Ops), w \in Pick({x \in {"site", "upper", "lower", "sandwich"} : WhichOK(geom.cls, x)}) :
    /\ pend = <<>> /\ depth < DepthBound
    /\ LET G    == GateFor(SubDims(geom.dims, s), g)
           fams == {Family(r, Len(s), w) : r \in AcceptedRoutes(s, op, w)}
       IN  /\ fams # {}
           /\ pend' = [sites |-> s, G |-> G, op |-> op, which |-> w,
                        ref |-> ApplyRef(G, geom.dims, s, psi, op, w),
                        imp |-> [f \in fams |-> Impl(geom, psi, G, s, op, w, FamilyRoute(f, w))]]
    /\ UNCHANGED <<geom, lane, psi, outer, sitetags, form, depth, nrej, ok, hist>>

ApplyFam(fam) ==
     \E r \in Pick({x \in AcceptedRoutes(pend.sites, pend.op, pend.which) : fam \in {"any", Family(x, Len(pend.sites), pend.which)}}) :
       /\ psi' = pend.ref
       /\ outer' = outer /\ sitetags' = sitetags
       /\ form' = FormAfter(geom.cls, form, r.entry, r.mode, Len(pend.sites))
       /\ ok' = (pend.imp[Family(r, Len(pend.sites), pend.which)] = pend.ref)
       /\ depth' = depth + 1 /\ nrej' = nrej /\ lane' = <<>> /\ pend' = <<>>
       /\ hist' = IF Record THEN Append(hist, Act("apply", r, pend.sites, pend.G, pend.op, pend.which)) ELSE hist
       /\ UNCHANGED geom

ApplyWired    == pend # <<>> /\ ApplyFam("wired")
ApplySandwich == pend # <<>> /\ ApplyFam("sandwich")
ApplySwapped  == pend # <<>> /\ ApplyFam("swapped")
ApplySubMpo   == pend # <<>> /\ ApplyFam("submpo")
ApplyOpLazy   == pend # <<>> /\ ApplyFam("oplazy")
ApplyAny      == pend # <<>> /\ ApplyFam("any")          \* simulation only

\* a combination the table refuses: quimb raises, nothing changes
Reject ==
  \E r \in Pick(Routes), s \in Pick(Sites), op \in {"N"} : \E w \in Pick(Whiches(geom.cls, r)) :
     /\ pend = <<>> /\ depth < DepthBound /\ nrej < 1
     /\ Accepts(geom.cls, r.entry, r.mode, Len(s), PairAdjacent(geom.edges, s), form, op, w) = "no"
     /\ ~(r.entry = "Tensor.gate")
     /\ nrej' = nrej + 1
     /\ hist' = IF Record THEN Append(hist, Act("reject", r, s, GateFor(SubDims(geom.dims, s), 1), op, w)) ELSE hist
     /\ UNCHANGED <<geom, lane, psi, outer, sitetags, form, depth, ok, pend>>

\* the algebraic facts of the reference, for the lane's tuple (a terminal step of the exhaustive exploration)
CheckFacts ==
  /\ depth = 0 /\ lane # <<>> /\ nrej = 0 /\ ~Record /\ pend = <<>>
  /\ ok' = /\ \A g \in WideGids, op \in {"N", "T", "H"} :
                 LET G == GateFor(SubDims(geom.dims, lane), g) IN
                 /\ FactPerm(OpVar(G, op), DenseDims(geom), lane, psi)
                 /\ (g = 1 => FactAdjoint(G, DenseDims(geom), lane, psi))
                 /\ \A w \in (IF IsOp(geom.cls) THEN {"upper", "lower", "sandwich"} ELSE {"site"}) :
                       (g = 1 => FactDef(G, geom, lane, psi, op, w))
            /\ (lane = <<1>> => FactProduct([geom EXCEPT !.dims = DenseDims(geom)], psi))
  /\ depth' = DepthBound
  /\ UNCHANGED <<geom, lane, psi, outer, sitetags, form, nrej, hist, pend>>

Next == Choose \/ ApplyWired \/ ApplySandwich \/ ApplySwapped \/ ApplySubMpo \/ ApplyOpLazy \/ Reject \/ CheckFacts
Spec == Init /\ [][Next]_vars
SimNext == Choose \/ ApplyAny \/ Reject
SimSpec == Init /\ [][SimNext]_vars

(* ---------------- properties ---------------- *)
\* every accepted (geometry, arity, route) maps to the one abstract update (and the facts of the reference hold)
RoutesAgree == ok
\* the naming of the network never changes
NamingKept == outer = OuterOf(geom) /\ sitetags = DOMAIN geom.dims
\* a rejection is a stuttering step of the abstract state
RejectStutters == [][nrej' # nrej => psi' = psi /\ outer' = outer /\ sitetags' = sitetags /\ form' = form]_vars
TypeOK == /\ Len(psi) = Size(DenseDims(geom))
          /\ form \in {"struct", "loose"}

\* a complete behaviour is printed when it reaches the depth bound (simulation, Record = TRUE)
EmitJson == (Record /\ depth = DepthBound /\ pend = <<>>) => PrintT(<<"QVJSON", ToJson(hist)>>)
=============================================================================
