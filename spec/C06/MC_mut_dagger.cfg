SPECIFICATION Spec
CONSTANTS
  Geoms <- GeomsOne
  MaxDepth = 1
  WideDepth = 1
  WideGids <- Gids13
  NarrowOps <- OpsN
  NarrowArity = 2
  MaxArity = 3
  Lanes = TRUE
  Record = FALSE
  Sim = FALSE
  Bug = "nonlocal-drops-dagger"
INVARIANT RoutesAgree
INVARIANT NamingKept
INVARIANT TypeOK
CHECK_DEADLOCK FALSE
