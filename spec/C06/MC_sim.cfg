SPECIFICATION SimSpec
CONSTANTS
  Geoms <- GeomsSim
  MaxDepth = 3
  WideDepth = 3
  WideGids <- Gids123
  NarrowOps <- OpsNH
  NarrowArity = 3
  MaxArity = 3
  Lanes = FALSE
  Record = TRUE
  Sim = TRUE
  Bug = "none"
INVARIANT RoutesAgree
INVARIANT NamingKept
INVARIANT EmitJson
CHECK_DEADLOCK FALSE
