------------------------------ MODULE C06_Defs ------------------------------
(***************************************************************************)
(* Reference definitions for C06 (no variables).                            *)
(*                                                                         *)
(* A state over n sites with sizes dims is the flat C-order vector of its  *)
(* dense form; an operator is the flat C-order vector over dims \o dims    *)
(* (upper = ket digits first, then lower = bra digits), i.e. the row-major *)
(* matrix.  A gate is a square matrix G (LTensor format, rows = outputs);  *)
(* its first tensor factor acts on sites[1], the second on sites[2], ...   *)
(*                                                                         *)
(* ApplyRefDef is the statement of the property, written with the shared   *)
(* library's Embed:   psi' = Embed(G^op, dims, sites) . psi   (and the     *)
(* upper / lower / sandwich forms for operators).  The application MODE    *)
(* is not an argument: that is the property.                               *)
(* ApplyRef is the same function evaluated locally (O(D.d) instead of      *)
(* O(D^2)); the model checks ApplyRef = ApplyRefDef.                        *)
(***************************************************************************)
EXTENDS LTensor

Is1DCls(cls) == cls \in {"mps", "mpsc"}

Abs(x) == IF x < 0 THEN -x ELSE x
Abs1(g) == Abs(g[1]) + Abs(g[2])

ConjMat(M) == [M EXCEPT !.data = [k \in DOMAIN M.data |-> GConj(M.data[k])]]
\* the operator that is applied: G, its transpose, its adjoint (its conjugate)
OpVar(G, op) == CASE op = "N" -> G [] op = "T" -> Transpose(G) [] op = "H" -> Dagger(G) [] op = "C" -> ConjMat(G)

(* ---------------- the option grid {dagger} x {transpose} ------------------ *)
\* An application is asked for with two flags.  `op` names the combination:
\*     "N" neither     "T" transpose only     "H" dagger only     "B" both flags
\* The documented contract (tensor_network_gate_inds, tensor_network_gate_sandwich_inds, tensor_network_ag_gate,
\* gate_simple): "transpose: apply G^T, no conjugation.  Implied by dagger" - so with both flags the adjoint is applied.
\* RefOp is that contract; it knows nothing about entry points or modes.
FlagsOf(op) == [dagger |-> op \in {"H", "B"}, transpose |-> op \in {"T", "B"}]
RefOp(dagger, transpose) == IF dagger THEN "H" ELSE IF transpose THEN "T" ELSE "N"
EffOp(op) == IF op = "C" THEN "C" ELSE RefOp(FlagsOf(op).dagger, FlagsOf(op).transpose)
\* (The 'nonlocal' branch of the 1D `gate` used to FLIP transpose under dagger - conj(G) with both flags, found by
\* this check - and was repaired in 0a1463db; no route-specific exception is left: every route is judged by RefOp.)

IdMat(d) == [rows |-> d, cols |-> d, data |-> [n \in 1..(d * d) |-> IF (n - 1) \div d = (n - 1) % d THEN GOne ELSE GZero]]
\* Kronecker product: first factor A (slow digit), second factor B
Kron(A, B) ==
  [rows |-> A.rows * B.rows, cols |-> A.cols * B.cols,
   data |-> [n \in 1..(A.rows * B.rows * A.cols * B.cols) |->
               LET r == (n - 1) \div (A.cols * B.cols)
                   c == (n - 1) % (A.cols * B.cols)
               IN GMul(MatEntry(A, (r \div B.rows) + 1, (c \div B.cols) + 1),
                       MatEntry(B, (r % B.rows) + 1, (c % B.cols) + 1))]]

SubDims(dims, sites) == [k \in DOMAIN sites |-> dims[sites[k]]]
Stride(dims, k) == ProdI(dims, k + 1, Len(dims))
IsSiteTuple(dims, sites) ==
  /\ Len(sites) >= 1
  /\ \A k \in DOMAIN sites : sites[k] \in DOMAIN dims
  /\ \A a, b \in DOMAIN sites : a # b => sites[a] # sites[b]
FitsGate(G, dims, sites) == G.rows = Size(SubDims(dims, sites)) /\ G.cols = G.rows

(* ---------------- local application:  (Embed(G, dims, sites) . v)  ------- *)
ApplyLocal(G, dims, sites, v) ==
  LET gd  == SubDims(dims, sites)
      dg  == Size(gd)
      ns  == Len(sites)
      st  == [k \in 1..ns |-> Stride(dims, sites[k])]
      \* offset into v contributed by the gate index c (0-based)
      off == TLCEval([c \in 0..(dg - 1) |-> SumI(LAMBDA k : Digit(c, gd, k) * st[k], 1, ns)])
      Gd  == TLCEval(G.data)
  IN  TLCEval([i1 \in 1..Size(dims) |->
         LET i    == i1 - 1
             r    == Flat([k \in 1..ns |-> Digit(i, dims, sites[k])], gd)
             base == i - off[r]
         IN  SumG(LAMBDA c1 : GMul(Gd[r * dg + c1], v[base + off[c1 - 1] + 1]), 1, dg)])

Lower(dims, sites) == [k \in DOMAIN sites |-> Len(dims) + sites[k]]

\* The abstract update.  which = "site" for states; for an operator X (D x D, vectorised):
\*   "upper"    X -> E X            "lower"  X -> X E^T         "sandwich"  X -> E X E^dagger
\* with E = Embed(G^op, dims, sites)  (G replaced by G^T / G^dagger as RefOp says for the flag combination `op`).
ApplyRef(G, dims, sites, v, op, which) ==
  LET Gv == OpVar(G, EffOp(op))
      dd == dims \o dims
      lo == Lower(dims, sites)
  IN  CASE which = "site"     -> ApplyLocal(Gv, dims, sites, v)
        [] which = "upper"    -> ApplyLocal(Gv, dd, sites, v)
        [] which = "lower"    -> ApplyLocal(Gv, dd, lo, v)
        [] which = "sandwich" -> ApplyLocal(ConjMat(Gv), dd, lo, ApplyLocal(Gv, dd, sites, v))

\* the same, as the statement reads (matrix products with the library's Embed); small sizes only
VecOfMat(M) == M.data
MatOfVec(v, D) == [rows |-> D, cols |-> D, data |-> v]
ApplyRefDef(G, dims, sites, v, op, which) ==
  LET E == EmbedMat(OpVar(G, EffOp(op)), dims, sites)
      D == Size(dims)
  IN  CASE which = "site"     -> EmbedVec(OpVar(G, EffOp(op)), dims, sites, v)
        [] which = "upper"    -> VecOfMat(MatMul(E, MatOfVec(v, D)))
        [] which = "lower"    -> VecOfMat(MatMul(MatOfVec(v, D), Transpose(E)))
        [] which = "sandwich" -> VecOfMat(MatMul(MatMul(E, MatOfVec(v, D)), Dagger(E)))

(* ---------------- gate legs and site orders ------------------------------ *)
IsPerm(p, k) == Len(p) = k /\ {p[m] : m \in 1..k} = 1..k
\* the gate with its tensor factors reordered: new factor m = old factor p[m]
PermuteGate(G, gd, p) ==
  LET k   == Len(gd)
      gd2 == [m \in 1..k |-> gd[p[m]]]
      dg  == Size(gd)
      inv == [j \in 1..k |-> CHOOSE m \in 1..k : p[m] = j]
      old == TLCEval([x \in 0..(dg - 1) |-> Flat([j \in 1..k |-> Digit(x, gd2, inv[j])], gd)])
  IN  [rows |-> dg, cols |-> dg,
       data |-> [n \in 1..(dg * dg) |-> G.data[old[(n - 1) \div dg] * dg + old[(n - 1) % dg] + 1]]]
Compose(s, p) == [m \in DOMAIN p |-> s[p[m]]]
\* the permutation that sorts a tuple of distinct sites
SortPerm(sites) ==
  LET k == Len(sites) IN
  [m \in 1..k |-> CHOOSE j \in 1..k : Cardinality({i \in 1..k : sites[i] < sites[j]}) = m - 1]

\* exchange the physical spaces of positions p and p+1 (what a swap of neighbouring sites does to the dense form)
\* (results are forced with TLCEval: TLC's function values are lazy and would be recomputed at every access)
SwapDims(dims, p) == [k \in DOMAIN dims |-> IF k = p THEN dims[p + 1] ELSE IF k = p + 1 THEN dims[p] ELSE dims[k]]
SwapAdj(v, dims, p) ==
  LET d2 == SwapDims(dims, p)
  IN  TLCEval([i1 \in 1..Size(dims) |->
         LET dg  == [k \in DOMAIN d2 |-> Digit(i1 - 1, d2, k)]
             src == [k \in DOMAIN dims |-> IF k = p THEN dg[p + 1] ELSE IF k = p + 1 THEN dg[p] ELSE dg[k]]
         IN  v[Flat(src, dims) + 1]])

(* ---------------- geometry ------------------------------------------------ *)
\* edges: a set/sequence of pairs <<a, b>> of site positions
Adjacent(edges, a, b) == \E k \in DOMAIN edges : (edges[k][1] = a /\ edges[k][2] = b) \/ (edges[k][1] = b /\ edges[k][2] = a)
PairAdjacent(edges, sites) == Len(sites) = 2 /\ Adjacent(edges, sites[1], sites[2])

Is1D(cls)  == cls \in {"mps", "mpsc"}
IsOp(cls)  == cls \in {"mpo", "pepo"}
WhichOK(cls, which) == IF IsOp(cls) THEN which \in {"upper", "lower", "sandwich"} ELSE which = "site"

(* ---------------- the dispatch table (implementation shaped) -------------- *)
(* Which (entry point, mode) a geometry class accepts for a gate on k sites.  *)
(* "yes" : documented to work, must return (and then satisfy the property)    *)
(* "no"  : cannot apply, quimb raises (a rejection - never a violation)       *)
(* "maybe": depends on details the abstract state does not carry              *)
(* form = "struct": one tensor per site in the class's own geometry;          *)
(* form = "loose" : anything else (lazy gate tensors, merged sites).          *)
Basic    == {"False", "True", "split", "reduce-split"}
SplitG   == {"split-gate", "swap-split-gate", "auto-split-gate"}
MpsOnly  == {"swap+split", "nonlocal", "auto-mps"}
Generic7 == Basic \cup SplitG
MpoMethods == {"direct", "dm", "zipup", "lazy"}

\* tensor_network_gate_inds
ContractRule(mode, k, adj, form) ==
  CASE mode \in {"False", "True", "auto-split-gate"} -> "yes"
    [] mode \in {"split", "reduce-split"} ->
         IF k = 1 THEN "yes"
         ELSE IF form # "struct" THEN "maybe"          \* merged sites are contracted in whole, lazy gates add bonds
         ELSE IF k >= 3 THEN "no"
         ELSE IF adj THEN "yes" ELSE "no"
    [] mode \in {"split-gate", "swap-split-gate"} -> IF k <= 2 THEN "yes" ELSE "no"
    [] OTHER -> "no"

NeedsStruct(x, form) == IF x = "yes" /\ form # "struct" THEN "maybe" ELSE x

Accepts(cls, entry, mode, k, adj, form, op, which) ==
  IF ~WhichOK(cls, which) THEN "no"
  ELSE CASE entry \in {"gate", "gate_upper", "gate_lower", "gate_sandwich"} ->
         IF mode \in Generic7 THEN ContractRule(mode, k, adj, form)
         ELSE IF mode \in MpsOnly /\ Is1D(cls) /\ entry = "gate" THEN
           (IF k = 1 THEN "yes"
            \* the adjoint reaches gate_split through the swaps' split options: it works only as long as the swaps
            \* do not look at their options (cutoff = 0), otherwise the call raises
            ELSE IF op \in {"H", "B"} /\ (mode = "swap+split" \/ (mode = "auto-mps" /\ k = 2)) THEN "maybe"
            ELSE IF mode = "swap+split" THEN (IF k = 2 THEN NeedsStruct("yes", form) ELSE "no")
            ELSE NeedsStruct("yes", form))
         ELSE "no"
    [] entry = "gate_inds" -> IF mode \in Generic7 THEN ContractRule(mode, k, adj, form) ELSE "no"
    \* (these two have no dagger flag: the driver spells the adjoint as conj + transpose, "B" cannot be spelled)
    [] entry = "gate_inds_with_tn" -> IF which = "sandwich" \/ op = "B" THEN "no" ELSE "yes"
    [] entry = "Tensor.gate" -> IF k = 1 /\ which # "sandwich" /\ op # "B" THEN "yes" ELSE "no"
    [] entry = "gate_split" ->
         IF ~Is1D(cls) THEN "no" ELSE IF k # 2 THEN "no"
         ELSE IF form = "struct" THEN (IF adj THEN "yes" ELSE "no") ELSE "maybe"
    \* swap_sites_with_compress / swap_site_to of two sites of equal size: the SWAP gate on them
    [] entry = "swap_sites" ->
         IF ~Is1D(cls) \/ op # "N" THEN "no" ELSE IF k # 2 THEN "no" ELSE NeedsStruct("yes", form)
    [] entry = "gate_with_auto_swap" ->
         IF ~Is1D(cls) \/ op # "N" THEN "no" ELSE IF k # 2 THEN "no" ELSE NeedsStruct("yes", form)
    [] entry = "gate_sandwich_with_auto_swap" ->
         IF cls # "mpo" \/ which # "sandwich" \/ op \notin {"N", "H"} THEN "no" ELSE IF k # 2 THEN "no" ELSE NeedsStruct("yes", form)
    [] entry \in {"gate_nonlocal", "gate_with_submpo", "gate_with_mpo"} ->
         IF ~Is1D(cls) \/ op \notin {"N", "T"} \/ mode \notin MpoMethods THEN "no"
         ELSE IF mode = "lazy" THEN (IF entry = "gate_with_mpo" THEN "no" ELSE "yes")
         ELSE IF mode = "direct" THEN NeedsStruct("yes", form)
         ELSE IF k = 1 /\ entry # "gate_with_mpo" THEN "maybe"
         ELSE NeedsStruct("yes", form)
    [] entry = "op_lazy" ->
         IF which = "sandwich" THEN (IF op \in {"N", "H"} THEN "yes" ELSE "no") ELSE (IF op \in {"N", "T"} THEN "yes" ELSE "no")
    [] entry = "gate_simple" ->
         IF k >= 3 THEN "no"
         ELSE IF IsOp(cls) THEN (IF which # "sandwich" THEN "no"
                                 ELSE IF k = 2 /\ ~adj THEN (IF form = "struct" THEN "no" ELSE "maybe")
                                 ELSE NeedsStruct("yes", form))
         ELSE NeedsStruct("yes", form)
    [] OTHER -> "no"

\* does an accepted application leave one tensor per site (the class's own structure)?
\* (a periodic MPS compressed with an MPO over the whole ring comes back as an open chain: the later MPO routes
\* then reject it, so the sub-MPO routes do not count as structure preserving on the periodic class)
KeepsForm(cls, entry, mode, k) ==
  IF cls = "mpsc" /\ (entry \in {"gate_nonlocal", "gate_with_submpo", "gate_with_mpo"} \/ (k >= 2 /\ mode \in {"nonlocal", "auto-mps"}))
  THEN FALSE ELSE
  CASE entry \in {"gate", "gate_upper", "gate_lower", "gate_sandwich", "gate_inds"} ->
         \/ (mode = "True" /\ k = 1)
         \/ (mode \in {"split", "reduce-split"} /\ k <= 2)
         \/ mode \in MpsOnly
    [] entry \in {"gate_inds_with_tn", "op_lazy"} -> FALSE
    [] entry \in {"gate_nonlocal", "gate_with_submpo"} -> mode # "lazy"
    [] OTHER -> TRUE
FormAfter(cls, form, entry, mode, k) == IF form = "struct" /\ KeepsForm(cls, entry, mode, k) THEN "struct" ELSE "loose"

(* ---------------- comparison up to a positive scalar ---------------------- *)
\* vq: the observed vector, scaled to max modulus Q and rounded to Gaussian integers; r: the exact reference.
\* vq = c r  with c > 0, up to the rounding of vq (half a unit per component).
PropTo(vq, r) ==
  LET n == Len(r)
      p == CHOOSE i \in 1..n : \A j \in 1..n : Abs1(r[j]) <= Abs1(r[i])     \* a pivot of maximal size
  IN  /\ Len(vq) = n
      /\ IF Abs1(r[p]) = 0 THEN \A i \in 1..n : vq[i] = GZero
         ELSE LET c == GMul(GConj(r[p]), vq[p]) IN
              /\ c[1] > 0
              /\ Abs(c[2]) <= Abs1(r[p]) + 1
              /\ \A i \in 1..n :
                    LET d == GSub(GMul(vq[i], r[p]), GMul(vq[p], r[i])) IN
                    /\ Abs(d[1]) <= Abs1(r[p]) + Abs1(r[i]) + 1
                    /\ Abs(d[2]) <= Abs1(r[p]) + Abs1(r[i]) + 1
=============================================================================
