SPECIFICATION Spec
CONSTANTS
  Geoms <- GeomsFlags
  MaxDepth = 1
  WideDepth = 1
  WideGids <- Gids13
  NarrowOps <- OpsN
  NarrowArity = 2
  MaxArity = 3
  Lanes = TRUE
  Record = FALSE
  Sim = FALSE
  Bug = "nonlocal-xor"
INVARIANT RoutesAgree
INVARIANT NamingKept
INVARIANT TypeOK
CHECK_DEADLOCK FALSE
