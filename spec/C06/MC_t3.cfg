SPECIFICATION Spec
CONSTANTS
  Geoms <- GeomsOne
  MaxDepth = 1
  WideDepth = 1
  WideGids <- Gids13
  NarrowOps <- OpsN
  NarrowArity = 2
  MaxArity = 3
  Lanes = TRUE
  Record = FALSE
  Bug = "none"
CHECK_DEADLOCK FALSE
