------------------------------ MODULE MC_C06 ------------------------------
EXTENDS C06_Gate

Chain(n) == [i \in 1..(n - 1) |-> <<i, i + 1>>]
Ring(n)  == Chain(n) \o << <<1, n>> >>
Grid22   == << <<1, 2>>, <<1, 3>>, <<2, 4>>, <<3, 4>> >>                     \* 2 x 2, row major
Grid23   == << <<1, 2>>, <<2, 3>>, <<4, 5>>, <<5, 6>>, <<1, 4>>, <<2, 5>>, <<3, 6>> >>
TriTail  == << <<1, 2>>, <<2, 3>>, <<1, 3>>, <<3, 4>> >>                     \* triangle with a tail

\* depth: how many gates are explored on this geometry (0 = the configuration's MaxDepth)
G(name, cls, dims, edges) == [name |-> name, cls |-> cls, dims |-> dims, edges |-> edges, depth |-> 0]
Deep(g, d) == [g EXCEPT !.depth = d]

Mps3   == G("mps3",   "mps",  <<2, 3, 2>>,    Chain(3))
Mps4   == G("mps4",   "mps",  <<2, 3, 2, 2>>, Chain(4))
Mpsc3  == G("mpsc3",  "mpsc", <<3, 2, 2>>,    Ring(3))
Mpsc4  == G("mpsc4",  "mpsc", <<2, 2, 3, 2>>, Ring(4))
Mpo2   == G("mpo2",   "mpo",  <<2, 3>>,       Chain(2))
Mpo3   == G("mpo3",   "mpo",  <<2, 2, 2>>,    Chain(3))
Peps22 == G("peps22", "peps", <<2, 3, 2, 2>>, Grid22)
Peps23 == G("peps23", "peps", <<2, 2, 2, 2, 2, 2>>, Grid23)
Pepo22 == G("pepo22", "pepo", <<2, 2, 2, 2>>, Grid22)
Pepo12 == G("pepo12", "pepo", <<3, 2>>,       Chain(2))
Gen4   == G("gen4",   "gen",  <<2, 3, 2, 2>>, TriTail)

GeomsQuick    == <<Deep(Mps3, 2), Mpsc3, Deep(Mpo2, 2), Peps22, Pepo12, Gen4>>
GeomsThorough == <<Deep(Mps3, 3), Mps4, Mpsc3, Mpsc4, Mpo2, Mpo3, Peps22, Pepo12, Gen4>>
GeomsSim      == <<Mps3, Mps4, Mpsc3, Mpsc4, Mpo2, Mpo3, Peps22, Peps23, Pepo12, Pepo22, Gen4>>
Gids13 == {1, 3}
Gids123 == {1, 2, 3}
OpsN == {"N"}
OpsNH == {"N", "H"}
Mps2   == G("mps2",   "mps",  <<2, 3>>,       Chain(2))
\* the smallest geometries that take every action: the run with -coverage only reports per-action counts
Mps2s  == G("mps2s",  "mps",  <<2, 2>>,       Chain(2))
Mpo2s  == G("mpo2s",  "mpo",  <<2, 2>>,       Chain(2))
GeomsCover    == <<Mps2s, Mpo2s>>
GeomsFlags    == <<Mps2, Mpo2>>
GeomsOne      == <<Mps3>>
Gids1 == {1}
GeomsSwap     == <<Mps4>>
GeomsMpo      == <<Mpo3>>
GeomsMpo2     == <<Mpo2>>
=============================================================================
