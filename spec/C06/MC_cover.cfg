SPECIFICATION Spec
CONSTANTS
  Geoms <- GeomsCover
  MaxDepth = 1
  WideDepth = 1
  WideGids <- Gids1
  NarrowOps <- OpsN
  NarrowArity = 2
  MaxArity = 2
  Lanes = TRUE
  Record = FALSE
  Sim = FALSE
  Bug = "none"
INVARIANT RoutesAgree
INVARIANT NamingKept
INVARIANT TypeOK
CHECK_DEADLOCK FALSE
