SPECIFICATION Spec
CONSTANTS
  Geoms <- GeomsMpo2
  MaxDepth = 1
  WideDepth = 1
  WideGids <- Gids13
  NarrowOps <- OpsN
  NarrowArity = 2
  MaxArity = 3
  Lanes = TRUE
  Record = FALSE
  Sim = FALSE
  Bug = "sandwich-sides"
INVARIANT RoutesAgree
INVARIANT NamingKept
INVARIANT TypeOK
CHECK_DEADLOCK FALSE
