SPECIFICATION Spec
CONSTANTS
  MaxN = 4
  Vals <- ValsQuick
  MaxK = 3
  Sig4s <- Sig4Quick
  Variant = "ok"
INVARIANT TypeOK
INVARIANT SelectedOK
INVARIANT SortedOK
INVARIANT KeysAgree
INVARIANT RejectOnlyAllowed
INVARIANT NoLinopOnDense
CHECK_DEADLOCK FALSE
