------------------------------ MODULE C17_Defs ------------------------------
(***************************************************************************)
(* C17 - eigen / singular / exponential solvers return genuine, correctly  *)
(* selected results.                                                       *)
(*                                                                         *)
(* Reference (property level) definitions, written from the statement and  *)
(* the docstrings of quimb.linalg.base_linalg, on exact domains:           *)
(*   - Hermitian operators with an INTEGER spectrum (degeneracies allowed) *)
(*     spectra are sequences of ints, results are compared as multisets;   *)
(*   - general operators with a GAUSSIAN-INTEGER spectrum <<re, im>>;      *)
(*   - targets sigma on a quarter-integer grid, logged as sig4 = 4*sigma,  *)
(*     so that sigma never coincides with an eigenvalue;                   *)
(*   - relative windows with rational centre / width;                      *)
(*   - matrix functions of H = Q diag(s) Q^dagger / c with Q a Gaussian    *)
(*     integer matrix, Q Q^dagger = c I : c * f(H) is a Gaussian-integer   *)
(*     matrix that TLC computes itself.                                    *)
(* No VARIABLES: shared by the state machines and by the trace spec.       *)
(***************************************************************************)
EXTENDS Integers, Sequences, FiniteSets, TLC

Abs(x)     == IF x < 0 THEN -x ELSE x
Min2(a, b) == IF a < b THEN a ELSE b
Max2(a, b) == IF a > b THEN a ELSE b
Range(s)   == {s[i] : i \in DOMAIN s}

(* ------------------------------------------------------------------ *)
(* multisets represented by sequences                                  *)
(* ------------------------------------------------------------------ *)
Count(s, v)   == Cardinality({i \in DOMAIN s : s[i] = v})
SubBag(r, s)  == \A v \in Range(r) : Count(r, v) <= Count(s, v)
SameBag(r, s) == Len(r) = Len(s) /\ SubBag(r, s)
\* the distinct items of s that are not used up by r
RestItems(s, r) == {x \in Range(s) : Count(s, x) > Count(r, x)}

Ascending(r)  == \A i \in 1..Len(r)-1 : r[i] <= r[i+1]
Descending(r) == \A i \in 1..Len(r)-1 : r[i] >= r[i+1]

SumSeq(s) ==
  LET f[i \in 0..Len(s)] == IF i = 0 THEN 0 ELSE f[i-1] + s[i] IN f[Len(s)]
MaxSeq(s) ==
  LET f[i \in 1..Len(s)] == IF i = 1 THEN s[1] ELSE Max2(f[i-1], s[i]) IN f[Len(s)]
MinSeq(s) ==
  LET f[i \in 1..Len(s)] == IF i = 1 THEN s[1] ELSE Min2(f[i-1], s[i]) IN f[Len(s)]

(* ------------------------------------------------------------------ *)
(* "exactly the part of the spectrum requested"                        *)
(*                                                                     *)
(* r is a correct answer to "the k items of s with the smallest key"   *)
(* iff it is a sub-multiset of s of the right size and no item left    *)
(* behind has a strictly smaller key than an item that was taken.      *)
(* Ties (equal keys) may be broken either way: the statement promises  *)
(* a part of the spectrum, not a choice inside a degenerate level or   *)
(* between two values that are equally good (e.g. -2 and +2 for LM).   *)
(* ------------------------------------------------------------------ *)
ValidSel(s, r, k, K(_)) ==
  /\ Len(r) = Min2(k, Len(s))
  /\ SubBag(r, s)
  /\ \A a \in Range(r) : \A b \in RestItems(s, r) : K(a) <= K(b)

Rules == {"SA", "LA", "SM", "LM", "TR"}

\* Hermitian problems, integer eigenvalue v; the key is to be MINIMISED
\*   SA smallest algebraic, LA largest algebraic, SM / LM smallest / largest
\*   magnitude, TR nearest to the target sigma = sig4 / 4
HKey(which, sig4, v) ==
  CASE which = "SA" -> v
    [] which = "LA" -> -v
    [] which = "SM" -> Abs(v)
    [] which = "LM" -> -Abs(v)
    [] which = "TR" -> Abs(4 * v - sig4)
    [] OTHER        -> 0

HValidSel(s, r, which, sig4, k) ==
  LET K(v) == HKey(which, sig4, v) IN ValidSel(s, r, k, K)

\* canonical representative (ties broken towards the smaller value), ascending:
\* used to compare the keys reached by the implementation-shaped model
RECURSIVE PickSeq(_, _, _, _)
PickSeq(pool, which, sig4, k) ==
  IF k = 0 \/ pool = <<>> THEN <<>>
  ELSE LET best == CHOOSE i \in DOMAIN pool :
                     \A j \in DOMAIN pool :
                        \/ HKey(which, sig4, pool[i]) < HKey(which, sig4, pool[j])
                        \/ /\ HKey(which, sig4, pool[i]) = HKey(which, sig4, pool[j])
                           /\ (pool[i] < pool[j] \/ (pool[i] = pool[j] /\ i <= j))
           rest == [j \in 1..Len(pool)-1 |-> IF j < best THEN pool[j] ELSE pool[j+1]]
       IN  <<pool[best]>> \o PickSeq(rest, which, sig4, k - 1)

RECURSIVE InsertSorted(_, _)
InsertSorted(s, v) ==
  IF s = <<>> THEN <<v>>
  ELSE IF v <= Head(s) THEN <<v>> \o s ELSE <<Head(s)>> \o InsertSorted(Tail(s), v)
RECURSIVE SortAsc(_)
SortAsc(s) == IF s = <<>> THEN <<>> ELSE InsertSorted(SortAsc(Tail(s)), Head(s))

Select(s, which, sig4, k) == SortAsc(PickSeq(s, which, sig4, k))
KeyBag(r, which, sig4)    == SortAsc([i \in DOMAIN r |-> HKey(which, sig4, r[i])])

\* general operators, eigenvalue z = <<re, im>>
\* TR is documented twice: "real part closest to the target" (dense solver) and the
\* shift-invert meaning |z - sigma| smallest (scipy); both readings are accepted.
GKey(which, sig4, z) ==
  CASE which \in {"SA", "SR"} -> z[1]
    [] which \in {"LA", "LR"} -> -z[1]
    [] which = "SI" -> z[2]
    [] which = "LI" -> -z[2]
    [] which = "SM" -> z[1] * z[1] + z[2] * z[2]
    [] which = "LM" -> -(z[1] * z[1] + z[2] * z[2])
    [] which = "TR" -> Abs(4 * z[1] - sig4)
    [] which = "TRabs" -> (4 * z[1] - sig4) * (4 * z[1] - sig4) + 16 * z[2] * z[2]
    [] OTHER -> 0

GValidSel(s, r, which, sig4, k) ==
  LET K(z)  == GKey(which, sig4, z)
      K2(z) == GKey("TRabs", sig4, z)
  IN  \/ ValidSel(s, r, k, K)
      \/ which = "TR" /\ ValidSel(s, r, k, K2)

\* complex eigenvalues "in ascending order": real parts do not decrease
GAscending(r) == \A i \in 1..Len(r)-1 : r[i][1] <= r[i+1][1]

(* ------------------------------------------------------------------ *)
(* when may a call be refused?  (an exception instead of a result)     *)
(* ------------------------------------------------------------------ *)
\* an iterative solver that says loudly that it failed has not returned a wrong result:
\*   ArpackNoConvergence  - ARPACK info = -1 (maxiter reached)
\*   ArpackError          - any other ARPACK failure code, e.g. info = 3 "No shifts could be applied during a
\*                          cycle of the implicitly restarted Arnoldi iteration" (Krylov space exhausted on a
\*                          spectrum with very few distinct eigenvalues)
\*   NoConvergence        - scipy's "did not converge" of an inner iterative solve (plain ValueError)
\* Only the refusal is exempt: whenever values ARE returned they are judged by every other clause.
ConvergenceFailures == {"ArpackNoConvergence", "ArpackError", "NoConvergence"}

\* Hermitian partial solve.  path = the solver that runs (after auto-selection)
HMayReject(backend, path, rep, brep, which, hasSigma, k, n) ==
  \/ path = "LOBPCG" /\ (which \notin {"SA", "LA"} \/ hasSigma)   \* documented: extremal only
  \/ backend = "NUMPY" /\ "linop" \in {rep, brep}                 \* explicitly dense solver, matrix-free input
  \/ backend = "NUMPY" /\ brep = "sparse"                         \* explicitly dense solver, sparse metric
  \/ path = "SCIPY" /\ k >= n                                      \* ARPACK needs k < n

\* general (non-Hermitian) partial solve
GMayReject(backend, path, rep, which, k, n) ==
  \/ path = "LOBPCG"                                              \* symmetric problems only
  \/ backend = "NUMPY" /\ rep = "linop"
  \/ path = "SCIPY" /\ which \in {"SA", "LA"}                     \* ARPACK's general driver has no SA/LA
  \/ path = "SCIPY" /\ k >= n - 1                                  \* ARPACK needs k < n - 1

(* ------------------------------------------------------------------ *)
(* backend auto-selection at the pinned commit (I-model; a deviation   *)
(* of the code from this table is a NOTE, never a violation)           *)
(* ------------------------------------------------------------------ *)
ChooseBackend(n, k, intEps, anyLinop) ==
  IF n * n < (IF intEps THEN 10000 ELSE 2000) * k /\ ~anyLinop THEN "NUMPY" ELSE "SCIPY"

PathOf(backend, n, k, hasSigma, anyLinop) ==
  IF backend = "AUTO" THEN ChooseBackend(n, k, hasSigma, anyLinop) ELSE backend

(* ------------------------------------------------------------------ *)
(* relative windows: centre lmin + w0 * (lmax - lmin), half width      *)
(* wsz * (lmax - lmin) / 2, with w0 = w0n / w0d and wsz = wsn / wsd    *)
(* ------------------------------------------------------------------ *)
WinDist(s, v, w0n, w0d, wsd)  == Abs((v - MinSeq(s)) * w0d - w0n * (MaxSeq(s) - MinSeq(s))) * 2 * wsd
WinHalf(s, w0d, wsn)          == wsn * (MaxSeq(s) - MinSeq(s)) * w0d
InWindow(s, v, w0n, w0d, wsn, wsd) == WinDist(s, v, w0n, w0d, wsd) < WinHalf(s, w0d, wsn)
OnEdge(s, v, w0n, w0d, wsn, wsd)   == WinDist(s, v, w0n, w0d, wsd) = WinHalf(s, w0d, wsn)

\* "k is a target number": every eigenvalue inside the window, or the k nearest to the centre
WindowOK(s, r, k, w0n, w0d, wsn, wsd) ==
  LET T    == SelectSeq(s, LAMBDA v : InWindow(s, v, w0n, w0d, wsn, wsd))
      D(v) == WinDist(s, v, w0n, w0d, wsd)
  IN  /\ SubBag(r, T)
      /\ \/ SameBag(r, T)
         \/ Len(T) > k /\ ValidSel(T, r, k, D)

(* ------------------------------------------------------------------ *)
(* singular values (given in descending order) and norms               *)
(* ------------------------------------------------------------------ *)
TopK(sv, k) == SubSeq(sv, 1, Min2(k, Len(sv)))
NormRef(kind, sv) ==
  CASE kind = "2"  -> IF sv = <<>> THEN 0 ELSE MaxSeq(sv)
    [] kind = "f2" -> SumSeq([i \in DOMAIN sv |-> sv[i] * sv[i]])   \* Frobenius norm squared
    [] kind = "t"  -> SumSeq(sv)
    [] OTHER       -> -1

(* ------------------------------------------------------------------ *)
(* Gaussian integers and matrix functions on the exact domain          *)
(* ------------------------------------------------------------------ *)
GAdd(a, b)  == <<a[1] + b[1], a[2] + b[2]>>
GMul(a, b)  == <<a[1] * b[1] - a[2] * b[2], a[1] * b[2] + a[2] * b[1]>>
GConj(a)    == <<a[1], -a[2]>>
GScale(c, a) == <<c * a[1], c * a[2]>>
GSum(s) ==
  LET f[i \in 0..Len(s)] == IF i = 0 THEN <<0, 0>> ELSE GAdd(f[i-1], s[i]) IN f[Len(s)]
\* (-i)^n
PowMinusI(n) ==
  CASE n % 4 = 0 -> <<1, 0>> [] n % 4 = 1 -> <<0, -1>> [] n % 4 = 2 -> <<-1, 0>> [] OTHER -> <<0, 1>>

\* c * f(H) for H = Q diag(.) Q^dagger / c, where e[k] = f(eigenvalue k)
FnMat(Q, e) ==
  LET n == Len(Q) IN
  [i \in 1..n |-> [j \in 1..n |->
      GSum([k \in 1..n |-> GMul(GMul(Q[i][k], e[k]), GConj(Q[j][k]))])]]

MatVec(M, v) == [i \in 1..Len(M) |-> GSum([k \in 1..Len(v) |-> GMul(M[i][k], v[k])])]
Flatten(M) ==
  LET n == Len(M) IN [p \in 1..n * n |-> M[((p - 1) \div n) + 1][((p - 1) % n) + 1]]

\* Q Q^dagger = c I   (the harness promises this; the trace spec re-checks it)
ScaledUnitary(Q, c) ==
  LET n == Len(Q) IN
  \A i \in 1..n : \A j \in 1..n :
     GSum([k \in 1..n |-> GMul(Q[i][k], GConj(Q[j][k]))]) = (IF i = j THEN <<c, 0>> ELSE <<0, 0>>)

\* f on one eigenvalue, by domain:
\*  "phase": H has integer eigenvalue s, f = exp(-i t H), t = m*pi/2  -> (-i)^(s*m)
\*  "log"  : H has eigenvalue ln(s), f = exp(H)                       -> s
\*  "sqrt" : A has eigenvalue +s^2 or -s^2 (neg), principal root      -> s or i*s
FnEig(kind, s, m) ==
  CASE kind = "phase" -> PowMinusI((((s * m) % 4) + 4) % 4)
    [] kind = "log"   -> <<s, 0>>
    [] kind = "sqrt"  -> IF m = 1 THEN <<0, s>> ELSE <<s, 0>>
    [] OTHER          -> <<0, 0>>

(* ------------------------------------------------------------------ *)
(* block structure: sectors of a matrix = connected components of the  *)
(* graph of its non-zero entries; BlockSpectrum = Spectrum             *)
(* ------------------------------------------------------------------ *)
\* edges: set of <<i, j>> over 0..d-1
Neigh(edges, S) == S \cup {e[2] : e \in {f \in edges : f[1] \in S}} \cup {e[1] : e \in {f \in edges : f[2] \in S}}
RECURSIVE Closure(_, _)
Closure(edges, S) == LET T == Neigh(edges, S) IN IF T = S THEN S ELSE Closure(edges, T)
Components(d, edges) == {Closure(edges, {i}) : i \in 0..d-1}

\* documented result of compute_blocks: sorted lists, sorted by first element, a partition
SectorsOK(d, edges, sectors) ==
  /\ {Range(sectors[g]) : g \in DOMAIN sectors} = Components(d, edges)
  /\ Len(sectors) = Cardinality(Components(d, edges))
  /\ \A g \in DOMAIN sectors : /\ sectors[g] # <<>>
                               /\ \A i \in 1..Len(sectors[g])-1 : sectors[g][i] < sectors[g][i+1]
  /\ \A g \in 1..Len(sectors)-1 : sectors[g][1] < sectors[g+1][1]

RECURSIVE Concat(_)
Concat(ss) == IF ss = <<>> THEN <<>> ELSE Head(ss) \o Concat(Tail(ss))
=============================================================================
