SPECIFICATION BSpec
CONSTANTS
  MaxD = 4
  Symmetric = TRUE
  BVariant = "ok"
INVARIANT Disjoint
INVARIANT GroupsInsideComponents
INVARIANT SectorsAreComponents
CHECK_DEADLOCK FALSE
