----------------------------- MODULE C17_Trace ------------------------------
(***************************************************************************)
(* Trace spec for C17.  One line = one call of a public quimb solver on an *)
(* operator whose spectrum / singular values / function value is known     *)
(* exactly; the line carries the inputs of the call and what came back     *)
(* (values snapped to the integer lattice in RETURNED ORDER, quantised     *)
(* residual and orthonormality defects measured with plain numpy).         *)
(* TLC recomputes the expected answer with C17_Defs and names every        *)
(* property-level clause that is FALSE on the line.                        *)
(*                                                                         *)
(* Conventions of the fields:                                              *)
(*   exc    "" or the exception class name                                 *)
(*   ongrid FALSE if some returned value is not within tolerance of the    *)
(*          lattice (then vals = <<>>): never accepted                     *)
(*   warn   TRUE if the solver itself signalled non-convergence (a         *)
(*          warning): then the result is not judged (it is not "silent")   *)
(*   rq/oq  quantised residual / orthonormality defect, 0 = within tol     *)
(***************************************************************************)
EXTENDS C17_Defs, TraceIO

VARIABLES l, fails
tvars == <<l, fails>>

Judged(ln) == ln.exc = "" /\ ~ln.warn

(* ---------------- Hermitian eigensolves ---------------- *)
HReturns(ln) ==
  \/ ln.exc = ""
  \/ ln.exc \in ConvergenceFailures
  \/ HMayReject(ln.backend, ln.path, ln.rep, ln.brep, ln.which, ln.hassig, ln.k, ln.n)
  \/ ln.full /\ ln.rep \in {"sparse", "linop"}     \* the full decomposition is the dense one: arrays only

HCount(ln)    == Judged(ln) => ln.ongrid /\ Len(ln.vals) = Min2(ln.k, ln.n)
HGenuine(ln)  == Judged(ln) => ln.ongrid /\ SubBag(ln.vals, ln.spec)
HSelected(ln) == Judged(ln) => ln.ongrid /\ HValidSel(ln.spec, ln.vals, ln.which, ln.sig4, ln.k)
HSorted(ln)   == Judged(ln) /\ ln.sort => ln.ongrid /\ Ascending(ln.vals)
EigenEq(ln)   == Judged(ln) => ln.rq = 0
Ortho(ln)     == Judged(ln) => ln.oq = 0
\* generalized problems: B-orthonormality INSIDE a degenerate level is a convention,
\* not part of the statement: reported as a note
OrthoFull(ln) == Judged(ln) /\ ln.gen => ln.oqfull = 0

\* bound_spectrum: (smallest, largest)
BoundsOK(ln)  == Judged(ln) => ln.ongrid /\ ln.vals = <<MinSeq(ln.spec), MaxSeq(ln.spec)>>

\* choose_backend: a matrix-free operator is never sent to the dense solver
AutoServes(ln) == ln.exc = "" /\ (ln.linop => ln.got # "NUMPY")
ChooseModel(ln) == ln.exc = "" => ln.got = ChooseBackend(ln.n, ln.k, ln.inteps, ln.linop)
PathModel(ln)  == ln.path = PathOf(ln.backend, ln.n, ln.k, ln.hassig, "linop" \in {ln.rep, ln.brep})

(* ---------------- general eigensolves ---------------- *)
GReturns(ln) ==
  \/ ln.exc = ""
  \/ ln.exc \in ConvergenceFailures
  \/ GMayReject(ln.backend, ln.path, ln.rep, ln.which, ln.k, ln.n)
GSelected(ln) == Judged(ln) => ln.ongrid /\ GValidSel(ln.spec, ln.vals, ln.which, ln.sig4, ln.k)
GGenuine(ln)  == Judged(ln) => ln.ongrid /\ SubBag(ln.vals, ln.spec) /\ Len(ln.vals) = Min2(ln.k, ln.n)
\* ARPACK's general driver asked for the smallest magnitudes WITHOUT shift-invert is an interior
\* eigenvalue search by a method that only converges to the exterior: scipy documents it as unreliable.
\* What comes back must still be genuine eigenpairs; whether it is the smallest is reported as a note.
ArpackInterior(ln) == ln.path = "SCIPY" /\ ln.which = "SM"
GSorted(ln)   == Judged(ln) /\ ln.sort => ln.ongrid /\ GAscending(ln.vals)

(* ---------------- relative windows ---------------- *)
WReturns(ln) ==
  \/ ln.exc = ""
  \/ ln.exc \in ConvergenceFailures
  \/ ln.backend = "NUMPY" /\ ln.rep = "linop"
  \/ ln.backend = "LOBPCG"                         \* the sparse route needs a target solve
  \/ ln.rep # "dense" /\ ln.backend # "NUMPY" /\ ln.path = "SCIPY" /\ ln.k >= ln.n
WInputOK(ln) == \A i \in DOMAIN ln.spec : ~OnEdge(ln.spec, ln.spec[i], ln.w0n, ln.w0d, ln.wsn, ln.wsd)
WSelected(ln) ==
  Judged(ln) => ln.ongrid /\ WindowOK(ln.spec, ln.vals, ln.k, ln.w0n, ln.w0d, ln.wsn, ln.wsd)
WSorted(ln) == Judged(ln) => ln.ongrid /\ Ascending(ln.vals)

(* ---------------- singular values ---------------- *)
SReturns(ln) ==
  \/ ln.exc = ""
  \/ ln.exc \in ConvergenceFailures
  \/ ln.backend = "NUMPY" /\ ln.rep = "linop"
  \/ ln.path = "SCIPY" /\ ln.kmin >= Len(ln.sv)   \* ARPACK needs k < min(shape)
\* the object returned has the documented structure (e.g. an array of values when no vectors were asked)
SShape(ln)  == ln.exc = "" => ln.shape_ok
SValues(ln) ==
  Judged(ln) /\ ln.shape_ok =>
     /\ ln.ongrid
     /\ Len(ln.vals) >= Min2(ln.kmin, Len(ln.sv)) /\ Len(ln.vals) <= ln.kmax
     /\ ln.vals = TopK(ln.sv, Len(ln.vals))
Triplets(ln) == Judged(ln) /\ ln.shape_ok => ln.rq = 0
SOrtho(ln)   == Judged(ln) /\ ln.shape_ok => ln.oq = 0

(* ---------------- norms ---------------- *)
NReturns(ln) == ln.exc = "" \/ (ln.rep = "sparse" /\ ln.kind = "t")   \* no sparse trace norm
NValue(ln)   == Judged(ln) => ln.ongrid /\ ln.val = NormRef(ln.kind, ln.sv)

(* ---------------- expm / expm_multiply / sqrtm ---------------- *)
FReturns(ln) == ln.exc = "" \/ (ln.op = "sqrtm" /\ ln.rep = "sparse")  \* documented NotImplementedError
FInputOK(ln) == ScaledUnitary(ln.Q, ln.c) /\ Len(ln.s) = Len(ln.Q) /\ Len(ln.ms) = Len(ln.Q)
FExpected(ln) ==
  LET M == FnMat(ln.Q, [k \in DOMAIN ln.s |-> FnEig(ln.kind, ln.s[k], ln.ms[k])])
  IN  IF ln.op = "expm_multiply" THEN MatVec(M, ln.vec) ELSE Flatten(M)
FValue(ln) == Judged(ln) => ln.ongrid /\ ln.out = FExpected(ln)

(* ---------------- block-diagonal shortcut ---------------- *)
BReturns(ln) == ln.exc = "" \/ ln.rep # "dense"           \* array_like only
BSpectrum(ln) == Judged(ln) => ln.ongrid /\ SameBag(ln.vals, Concat(ln.blocks))
SectorsClause(ln) ==
  ln.exc = "" /\ SectorsOK(ln.d, {<<ln.edges[i][1], ln.edges[i][2]>> : i \in DOMAIN ln.edges}, ln.sectors)

(* ---------------- Lanczos quadrature (deterministic core of approx_spectral) --- *)
\* weights |(Q^dagger v0)_k|^2 ; ritz values = eigenvalues carrying weight ; c * v0^dagger f(A) v0
LWeight(ln, k) ==
  LET w == GSum([i \in DOMAIN ln.v0 |-> GMul(GConj(ln.Q[i][k]), ln.v0[i])]) IN w[1] * w[1] + w[2] * w[2]
LRitz(ln) ==
  Judged(ln) => /\ ln.ongrid
                /\ Range(ln.ritz) = {ln.s[k] : k \in {j \in DOMAIN ln.s : LWeight(ln, j) # 0}}
                /\ \A i \in 1..Len(ln.ritz)-1 : ln.ritz[i] < ln.ritz[i+1]
LQuad(ln) ==
  Judged(ln) => /\ ln.ongrid
                /\ ln.quad = SumSeq([k \in DOMAIN ln.s |-> LWeight(ln, k) * ln.s[k] * ln.s[k]])

Clauses(ln) ==
  CASE ln.ev = "eigh" ->
         << <<"Returns", HReturns(ln)>>, <<"Count", HCount(ln)>>, <<"Genuine", HGenuine(ln)>>,
            <<"Selected", HSelected(ln)>>, <<"Sorted", HSorted(ln)>>,
            <<"EigenEquation", EigenEq(ln)>>, <<"Orthonormal", Ortho(ln)>>,
            <<"NOTE:MetricOrthoInsideLevel", OrthoFull(ln)>>, <<"NOTE:ModelDrift", PathModel(ln)>> >>
    [] ln.ev = "bounds" ->
         << <<"Returns", HReturns(ln)>>, <<"Bounds", BoundsOK(ln)>> >>
    [] ln.ev = "choose" ->
         << <<"AutoServesOperator", AutoServes(ln)>>, <<"NOTE:ModelDrift", ChooseModel(ln)>> >>
    [] ln.ev = "eig" ->
         << <<"Returns", GReturns(ln)>>, <<"Genuine", GGenuine(ln)>>,
            <<"Selected", ArpackInterior(ln) \/ GSelected(ln)>>,
            <<"NOTE:ArpackSmallestMagnitudeWithoutShift", ~ArpackInterior(ln) \/ GSelected(ln)>>,
            <<"Sorted", GSorted(ln)>>, <<"EigenEquation", EigenEq(ln)>> >>
    [] ln.ev = "window" ->
         << <<"Returns", WReturns(ln)>>, <<"HarnessInput", WInputOK(ln)>>,
            <<"WindowSelected", WSelected(ln)>>, <<"Sorted", WSorted(ln)>>,
            <<"EigenEquation", EigenEq(ln)>>, <<"Orthonormal", Ortho(ln)>> >>
    [] ln.ev = "svd" ->
         << <<"Returns", SReturns(ln)>>, <<"ReturnsDocumentedShape", SShape(ln)>>,
            <<"SingularValues", SValues(ln)>>, <<"TripletEquation", Triplets(ln)>>,
            <<"Orthonormal", SOrtho(ln)>> >>
    [] ln.ev = "norm" ->
         << <<"Returns", NReturns(ln)>>, <<"NormValue", NValue(ln)>> >>
    [] ln.ev = "fn" ->
         << <<"Returns", FReturns(ln)>>, <<"HarnessInput", FInputOK(ln)>>, <<"FunctionValue", FValue(ln)>> >>
    [] ln.ev = "autoblock" ->
         << <<"Returns", BReturns(ln)>>, <<"BlockSpectrum", BSpectrum(ln)>>, <<"Sorted", HSorted(ln)>>,
            <<"EigenEquation", EigenEq(ln)>>, <<"Orthonormal", Ortho(ln)>> >>
    [] ln.ev = "sectors" ->
         << <<"SectorsAreComponents", SectorsClause(ln)>> >>
    [] ln.ev = "lanczos" ->
         << <<"Returns", ln.exc = "">>, <<"HarnessInput", ScaledUnitary(ln.Q, ln.c)>>,
            <<"RitzAreEigenvalues", LRitz(ln)>>, <<"Quadrature", LQuad(ln)>> >>
    [] OTHER -> << <<"UnknownEvent", FALSE>> >>

TInit == l = 1 /\ fails = <<>>
TNext == /\ l <= NLines
         /\ l' = l + 1
         /\ fails' = AddFails(fails, l, Clauses(TraceLog[l]))
TSpec == TInit /\ [][TNext]_tvars

Done == l = NLines + 1 => WriteVerdict(l - 1, fails)
=============================================================================
