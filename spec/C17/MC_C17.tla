------------------------------- MODULE MC_C17 -------------------------------
EXTENDS C17_Select
ValsQuick    == {-2, -1, 0, 1, 2}
ValsThorough == {-3, -2, -1, 0, 1, 2, 3}
\* 4 * sigma: odd = quarter grid (no two integers equidistant), 2 mod 4 = half grid (equidistant ties)
Sig4Quick    == {-6, -3, 1, 2, 7}
Sig4Thorough == {-13, -6, -3, 2, 5, 10}
=============================================================================
