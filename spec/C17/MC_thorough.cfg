SPECIFICATION Spec
CONSTANTS
  MaxN = 6
  Vals <- ValsThorough
  MaxK = 4
  Sig4s <- Sig4Thorough
  Variant = "ok"
INVARIANT TypeOK
INVARIANT SelectedOK
INVARIANT SortedOK
INVARIANT KeysAgree
INVARIANT RejectOnlyAllowed
INVARIANT NoLinopOnDense
CHECK_DEADLOCK FALSE
