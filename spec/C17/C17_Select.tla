----------------------------- MODULE C17_Select -----------------------------
(***************************************************************************)
(* State machine of ONE partial Hermitian eigensolve                       *)
(*     eigh(A, k=k, which=which, sigma=sigma, sort=sort, backend=backend)  *)
(* on an operator with integer spectrum `spec`.                            *)
(*                                                                         *)
(* Implementation-shaped part (transcribed from the pinned commit):        *)
(*  - eigensystem_partial / choose_backend: dispatch on backend, size,     *)
(*    k, "sigma given", "operator only available through its action";     *)
(*  - numpy_linalg.sort_inds + eigs_numpy: sort ALL eigenvalues by the     *)
(*    float key  SA: a, LA: -a, LM: -|a|, SM: -|1/a|, TR: -1/|a - sigma|   *)
(*    (argsort, ties in any order), slice [:k], then sort ascending;       *)
(*  - scipy_linalg.eigs_scipy: TR + sigma -> ARPACK shift-invert: the k    *)
(*    largest |nu| of nu = 1/(lambda - sigma), mapped back to              *)
(*    lambda = sigma + 1/nu; other rules passed through;                   *)
(*  - scipy_linalg.eigs_lobpcg: only SA / LA and no sigma, else refuses.   *)
(* Keys are modelled as exact fractions <<num, den>> (den = 0: -infinity), *)
(* so the model follows the float formulas of the code, not the reference. *)
(*                                                                         *)
(* Property-level invariants (C17_Defs): whatever the dispatch and the     *)
(* tie-breaking, what is returned is a valid selection (HValidSel), is     *)
(* ascending when sort is requested, and a refusal happens only for a      *)
(* documented unsupported combination (HMayReject).                        *)
(***************************************************************************)
EXTENDS C17_Defs

CONSTANTS MaxN,        \* spectra of size 1..MaxN
          Vals,        \* eigenvalues (set of ints)
          MaxK,        \* k in 1..MaxK (and k <= n)
          Sig4s,       \* 4 * sigma, never a multiple of 4
          Variant      \* "ok" = the code as it is; other values are deliberate
                       \* deviations used as self-tests of the invariants:
                       \*   "no_mapback" : shift-invert returns nu instead of lambda
                       \*   "sm_algebraic": SM sorts by the algebraic value
                       \*   "descending" : final sort descending

VARIABLES spec, which, k, sig4, sort, backend, rep,   \* the call
          path,                                        \* solver that runs
          pc,                                          \* program counter
          pool,                                        \* values still available (sequence = bag)
          picked,                                      \* what the solver has taken so far (fractions)
          out                                          \* returned values (fractions)

vars == <<spec, which, k, sig4, sort, backend, rep, path, pc, pool, picked, out>>

n        == Len(spec)
hasSigma == which = "TR"

(* ---------------- exact fractions ---------------- *)
Frac(p, q)     == <<p, q>>
\* x < y for fractions with den >= 0; <<-1, 0>> is -infinity
FracLess(x, y) ==
  IF x[2] = 0 THEN y[2] # 0
  ELSE IF y[2] = 0 THEN FALSE
  ELSE x[1] * y[2] < y[1] * x[2]
IsInt(f) == f[2] > 0 /\ f[1] % f[2] = 0
ToInt(f) == f[1] \div f[2]

(* ---------------- the float keys of sort_inds ---------------- *)
NpKey(w, v) ==
  CASE w = "SA" -> Frac(v, 1)
    [] w = "LA" -> Frac(-v, 1)
    [] w = "LM" -> Frac(-Abs(v), 1)
    [] w = "SM" -> IF Variant = "sm_algebraic" THEN Frac(v, 1)
                   ELSE Frac(-1, Abs(v))                   \* -|1/a| ; a = 0 gives -inf
    [] w = "TR" -> Frac(-4, Abs(4 * v - sig4))             \* -1/|a - sigma|
    [] OTHER    -> Frac(0, 1)

RemoveOne(s, v) ==
  LET i == CHOOSE j \in DOMAIN s : s[j] = v
  IN  [j \in 1..Len(s)-1 |-> IF j < i THEN s[j] ELSE s[j+1]]

Spectra == UNION {{s \in [1..m -> Vals] : Ascending(s)} : m \in 1..MaxN}

Init ==
  /\ spec \in Spectra
  /\ which \in Rules
  /\ k \in 1..MaxK /\ k <= Len(spec)
  /\ sig4 \in (IF which = "TR" THEN Sig4s ELSE {0})
  /\ sort \in BOOLEAN
  /\ backend \in {"AUTO", "NUMPY", "SCIPY", "LOBPCG"}
  /\ rep \in {"dense", "linop"}
  /\ path = "?" /\ pc = "start"
  /\ pool = spec /\ picked = <<>> /\ out = <<>>

(* ---------------- eigensystem_partial: dispatch ---------------- *)
Dispatch ==
  /\ pc = "start"
  /\ LET p == PathOf(backend, n, k, hasSigma, rep = "linop") IN
     /\ path' = p
     /\ pc' = CASE p = "NUMPY" /\ rep = "linop"                       -> "rejected"  \* nla.eigh(LinearOperator)
                [] p = "NUMPY"                                         -> "np"
                [] p = "SCIPY" /\ k >= n                               -> "rejected"  \* ARPACK: k < n
                [] p = "SCIPY" /\ hasSigma                             -> "ar_si"
                [] p = "SCIPY"                                         -> "ar"
                [] p = "LOBPCG" /\ (which \notin {"SA", "LA"} \/ hasSigma) -> "rejected"
                [] OTHER                                               -> "lob"
  /\ UNCHANGED <<spec, which, k, sig4, sort, backend, rep, pool, picked, out>>

(* ---------------- numpy: argsort of the key, slice [:k] ---------------- *)
NpPick ==
  /\ pc = "np" /\ Len(picked) < k
  /\ \E v \in Range(pool) :
       /\ \A u \in Range(pool) : ~FracLess(NpKey(which, u), NpKey(which, v))
       /\ picked' = Append(picked, Frac(v, 1))
       /\ pool' = RemoveOne(pool, v)
  /\ UNCHANGED <<spec, which, k, sig4, sort, backend, rep, path, pc, out>>

(* ---------------- ARPACK without sigma / LOBPCG: the rule itself -------- *)
ArPick ==
  /\ pc \in {"ar", "lob"} /\ Len(picked) < k
  /\ \E v \in Range(pool) :
       /\ \A u \in Range(pool) : HKey(which, 0, v) <= HKey(which, 0, u)
       /\ picked' = Append(picked, Frac(v, 1))
       /\ pool' = RemoveOne(pool, v)
  /\ UNCHANGED <<spec, which, k, sig4, sort, backend, rep, path, pc, out>>

(* ---------------- ARPACK shift-invert (which -> 'LM' of nu) ------------- *)
\* nu = 1 / (lambda - sigma) = 4 / (4 lambda - sig4); take the largest |nu|
Nu(v) == LET d == 4 * v - sig4 IN IF d > 0 THEN Frac(4, d) ELSE Frac(-4, -d)
AbsF(f) == Frac(Abs(f[1]), f[2])
SiPick ==
  /\ pc = "ar_si" /\ Len(picked) < k
  /\ \E v \in Range(pool) :
       /\ \A u \in Range(pool) : ~FracLess(AbsF(Nu(v)), AbsF(Nu(u)))
       /\ picked' = Append(picked, Nu(v))
       /\ pool' = RemoveOne(pool, v)
  /\ UNCHANGED <<spec, which, k, sig4, sort, backend, rep, path, pc, out>>

\* lambda = sigma + 1 / nu = (sig4 * num + 4 * den) / (4 * num), sign-normalised
MapBack(f) ==
  IF Variant = "no_mapback" THEN f
  ELSE LET p == sig4 * f[1] + 4 * f[2]
           q == 4 * f[1]
       IN  IF q > 0 THEN Frac(p, q) ELSE Frac(-p, -q)
SiMapBack ==
  /\ pc = "ar_si" /\ Len(picked) = k
  /\ picked' = [i \in DOMAIN picked |-> MapBack(picked[i])]
  /\ pc' = "mapped"
  /\ UNCHANGED <<spec, which, k, sig4, sort, backend, rep, path, pool, out>>

(* ---------------- maybe_sort: final ascending sort ---------------------- *)
RECURSIVE InsF(_, _)
InsF(s, f) ==
  IF s = <<>> THEN <<f>>
  ELSE IF (IF Variant = "descending" THEN ~FracLess(f, Head(s)) ELSE ~FracLess(Head(s), f))
       THEN <<f>> \o s ELSE <<Head(s)>> \o InsF(Tail(s), f)
RECURSIVE SortF(_)
SortF(s) == IF s = <<>> THEN <<>> ELSE InsF(SortF(Tail(s)), Head(s))

Finish ==
  /\ \/ pc \in {"np", "ar", "lob"} /\ Len(picked) = k
     \/ pc = "mapped"
  /\ out' = IF sort THEN SortF(picked) ELSE picked
  /\ pc' = "done"
  /\ UNCHANGED <<spec, which, k, sig4, sort, backend, rep, path, pool, picked>>

Next == Dispatch \/ NpPick \/ ArPick \/ SiPick \/ SiMapBack \/ Finish
Spec == Init /\ [][Next]_vars

(* ---------------- property-level invariants ---------------- *)
OutInts == [i \in DOMAIN out |-> ToInt(out[i])]

\* returned values are eigenvalues, and exactly the requested part of the spectrum
SelectedOK ==
  pc = "done" => /\ \A i \in DOMAIN out : IsInt(out[i])
                 /\ HValidSel(spec, OutInts, which, sig4, k)
\* "come sorted as documented"
SortedOK == pc = "done" /\ sort /\ (\A i \in DOMAIN out : IsInt(out[i])) => Ascending(OutInts)
\* same keys as the canonical reference selection (ties may differ in value, never in key)
KeysAgree ==
  pc = "done" /\ (\A i \in DOMAIN out : IsInt(out[i]))
     => KeyBag(OutInts, which, sig4) = KeyBag(Select(spec, which, sig4, k), which, sig4)
\* a call is refused only for a documented unsupported combination
RejectOnlyAllowed ==
  pc = "rejected" => HMayReject(backend, path, rep, "none", which, hasSigma, k, n)
\* and an allowed-to-reject call on a path that can serve it is not refused silently wrong:
\* a matrix-free operator never reaches the dense solver through auto-selection
NoLinopOnDense == (pc = "np") => rep # "linop"
TypeOK == pc \in {"start", "np", "ar", "ar_si", "lob", "mapped", "done", "rejected"}
=============================================================================
