SPECIFICATION BSpec
CONSTANTS
  MaxD = 3
  Symmetric = FALSE
  BVariant = "no_merge"
INVARIANT SectorsAreComponents
CHECK_DEADLOCK FALSE
