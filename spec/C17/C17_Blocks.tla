----------------------------- MODULE C17_Blocks -----------------------------
(***************************************************************************)
(* State machine of quimb.linalg.autoblock.compute_blocks(ix, jx, d): the  *)
(* "charge sectors" used by the block-diagonal shortcut                    *)
(* eigh(A, autoblock=True).  One behaviour = one call on one non-zero      *)
(* pattern; one step = one non-zero entry (i, j) taken in np.nonzero       *)
(* (row-major) order, transcribed from the pinned commit:                  *)
(*     every group holding i receives j, else a group holding j receives   *)
(*     i; no such group -> new group {i, j}; several -> merged into the    *)
(*     first and the others are emptied; finally rows that appear nowhere  *)
(*     become singleton groups and the result is sorted.                   *)
(* Property-level invariant: the sectors returned are exactly the          *)
(* connected components of the pattern (C17_Defs!SectorsOK), hence the     *)
(* union of the block spectra is the spectrum of the whole operator.       *)
(***************************************************************************)
EXTENDS C17_Defs

CONSTANTS MaxD,        \* operator sizes 1..MaxD
          Symmetric,   \* TRUE: only patterns of Hermitian matrices
          BVariant     \* "ok" | "no_merge" (deliberate deviation: groups are never merged)

VARIABLES d, nz, pos, groups, pc, result
bvars == <<d, nz, pos, groups, pc, result>>

\* row-major list of the non-zero coordinates of a pattern P (set of <<i, j>>)
RECURSIVE SetToSeq(_)
SetToSeq(S) ==
  IF S = {} THEN <<>>
  ELSE LET m == CHOOSE x \in S : \A y \in S : x[1] < y[1] \/ (x[1] = y[1] /\ x[2] <= y[2])
       IN  <<m>> \o SetToSeq(S \ {m})

RECURSIVE SortedSeqOfInts(_)
SortedSeqOfInts(S) ==
  IF S = {} THEN <<>>
  ELSE LET m == CHOOSE x \in S : \A y \in S : x <= y IN <<m>> \o SortedSeqOfInts(S \ {m})

Pairs(dd)    == {<<i, j>> : i \in 0..dd-1, j \in 0..dd-1}
UpPairs(dd)  == {p \in Pairs(dd) : p[1] <= p[2]}
Patterns(dd) ==
  IF Symmetric THEN {U \cup {<<p[2], p[1]>> : p \in U} : U \in SUBSET UpPairs(dd)}
  ELSE SUBSET Pairs(dd)

Init ==
  /\ d \in 1..MaxD
  /\ \E P \in Patterns(d) : nz = SetToSeq(P)
  /\ pos = 1 /\ groups = <<>> /\ pc = "edges" /\ result = <<>>

Edges == Range(nz)

ProcessEntry ==
  /\ pc = "edges" /\ pos <= Len(nz)
  /\ LET i  == nz[pos][1]
         j  == nz[pos][2]
         g1 == [g \in DOMAIN groups |->
                  IF i \in groups[g] THEN groups[g] \cup {j}
                  ELSE IF j \in groups[g] THEN groups[g] \cup {i}
                  ELSE groups[g]]
         merge == SelectSeq([g \in DOMAIN groups |-> g],
                            LAMBDA g : i \in groups[g] \/ j \in groups[g])
     IN  groups' =
           IF Len(merge) = 0 THEN Append(g1, {i, j})
           ELSE IF Len(merge) > 1 /\ BVariant # "no_merge"
                THEN LET others == {merge[m] : m \in 2..Len(merge)}
                         all    == UNION {g1[g] : g \in Range(merge)}
                     IN  [g \in DOMAIN g1 |-> IF g = merge[1] THEN all
                                              ELSE IF g \in others THEN {} ELSE g1[g]]
                ELSE g1
  /\ pos' = pos + 1
  /\ UNCHANGED <<d, nz, pc, result>>

\* "make sure kernel added as subspace"
AddKernel ==
  /\ pc = "edges" /\ pos > Len(nz)
  /\ LET missing == SortedSeqOfInts({i \in 0..d-1 : \A g \in DOMAIN groups : i \notin groups[g]})
     IN  groups' = groups \o [m \in DOMAIN missing |-> {missing[m]}]
  /\ pc' = "kernel_done"
  /\ UNCHANGED <<d, nz, pos, result>>

\* sorted([sorted(g) for g in groups if g])
RECURSIVE SortLists(_)
SortLists(S) ==
  IF S = {} THEN <<>>
  ELSE LET m == CHOOSE x \in S : \A y \in S : x = y \/ x[1] < y[1] \/ (x[1] = y[1] /\ Len(x) <= Len(y))
       IN  <<m>> \o SortLists(S \ {m})
Return ==
  /\ pc = "kernel_done"
  /\ result' = SortLists({SortedSeqOfInts(groups[g]) : g \in {h \in DOMAIN groups : groups[h] # {}}})
  /\ pc' = "done"
  /\ UNCHANGED <<d, nz, pos, groups>>

BNext == ProcessEntry \/ AddKernel \/ Return
BSpec == Init /\ [][BNext]_bvars

(* ---- invariants ---- *)
\* non-empty groups are always pairwise disjoint (what makes "merge into the first" sufficient)
Disjoint ==
  \A g, h \in DOMAIN groups : g # h => groups[g] \cap groups[h] = {}
\* every group is connected in the pattern seen so far: it never spans two components
GroupsInsideComponents ==
  \A g \in DOMAIN groups : groups[g] # {} => \E C \in Components(d, Edges) : groups[g] \subseteq C
\* the sectors returned are exactly the connected components, in the documented order
SectorsAreComponents == pc = "done" => SectorsOK(d, Edges, result)
=============================================================================
