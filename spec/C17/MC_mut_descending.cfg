SPECIFICATION Spec
CONSTANTS
  MaxN = 3
  Vals <- ValsQuick
  MaxK = 2
  Sig4s <- Sig4Quick
  Variant = "descending"
INVARIANT SelectedOK
INVARIANT SortedOK
CHECK_DEADLOCK FALSE
