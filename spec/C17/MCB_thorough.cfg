SPECIFICATION BSpec
CONSTANTS
  MaxD = 5
  Symmetric = TRUE
  BVariant = "ok"
INVARIANT Disjoint
INVARIANT GroupsInsideComponents
INVARIANT SectorsAreComponents
CHECK_DEADLOCK FALSE
