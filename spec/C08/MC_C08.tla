------------------------------ MODULE MC_C08 ------------------------------
EXTENDS C08_MPSCanon
DevNone    == {}
\* the code as it is after the fix: commits for swap_both / measure_last / tnorm_flag (KF-C08-2 and -4 remain)
DevCode    == {"sample_info", "measure_outcome"}
DevSwap    == {"swap_both"}
DevSample  == {"sample_info"}
DevMeasure == {"measure_last"}
DevOutcome == {"measure_outcome"}
DevTNorm   == {"tnorm_flag"}
=============================================================================
