------------------------------ MODULE MC_C08 ------------------------------
EXTENDS C08_MPSCanon
DevNone    == {}
\* the code as it is: every named deviation has been repaired (the MC_dev_* configurations keep them as self-tests)
DevCode    == {}
DevSwap    == {"swap_both"}
DevSample  == {"sample_info"}
DevMeasure == {"measure_last"}
DevOutcome == {"measure_outcome"}
DevTNorm   == {"tnorm_flag"}
=============================================================================
