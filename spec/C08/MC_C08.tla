------------------------------ MODULE MC_C08 ------------------------------
EXTENDS C08_MPSCanon
DevNone    == {}
DevCode    == {"swap_both", "sample_info", "measure_last", "measure_outcome", "tnorm_flag"}
DevSwap    == {"swap_both"}
DevSample  == {"sample_info"}
DevMeasure == {"measure_last"}
DevOutcome == {"measure_outcome"}
DevTNorm   == {"tnorm_flag"}
=============================================================================
