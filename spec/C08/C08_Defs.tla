------------------------------ MODULE C08_Defs ------------------------------
(***************************************************************************)
(* C08 - reference definitions, written from the property statement and    *)
(* the docstrings of quimb/tensor/tn1d/core.py, not from the code.         *)
(*                                                                         *)
(* Sites are numbered 0..L-1 as in the API.  Per-site vectors (isoL, isoR, *)
(* flags) are sequences of length L: site s is element s+1.                *)
(*   isoL[s+1] : the tensor of site s is a left isometry                    *)
(*               (sum over left bond and physical index of conj(T) T = 1)  *)
(*   isoR[s+1] : it is a right isometry (sum over physical index and right *)
(*               bond = 1)                                                 *)
(* A record is a pair <<lo, hi>> (inclusive range outside which the        *)
(* tensors are isometric), or None, or Calc ("ask the detector"), or       *)
(* Absent (the info dict has no "cur_orthog" entry).                       *)
(***************************************************************************)
EXTENDS Integers, Sequences, FiniteSets, TLC

None == <<-1, -1>>
Calc == <<-2, -2>>
Absent == <<-4, -4>>
IsPair(r) == r # None /\ r # Calc /\ r # Absent

Min2(a, b) == IF a <= b THEN a ELSE b
Max2(a, b) == IF a >= b THEN a ELSE b
SetMin(S) == CHOOSE x \in S : \A y \in S : x <= y
SetMax(S) == CHOOSE x \in S : \A y \in S : x >= y

(* ------------------------- the record clauses --------------------------- *)
\* "rec lies inside the current length"
RecordInRange(rec, L) == IsPair(rec) => (0 <= rec[1] /\ rec[1] <= rec[2] /\ rec[2] <= L - 1)
\* "every site left of the recorded range is a left isometry and every site right of it a right isometry"
\* (evaluated on the sites that exist, so that it is total for an out-of-range record)
RecordSound(rec, isoL, isoR, L) ==
  IsPair(rec) => /\ \A k \in 1..Min2(rec[1], L) : isoL[k]
                 /\ \A k \in Max2(rec[2] + 2, 1)..L : isoR[k]
\* canonical form around the sites wi..wj, whatever the record says
CanonicalAround(wi, wj, isoL, isoR, L) ==
  /\ \A k \in 1..Min2(wi, L) : isoL[k]
  /\ \A k \in Max2(wj + 2, 1)..L : isoR[k]

\* "any tensor flagged as isometric is": flags = sequence of [claim, iso] (observed) ...
FlagSoundObs(flags) == \A k \in DOMAIN flags : flags[k].claim => flags[k].iso
\* ... or, in the model, kinds "N" / "L" / "R" against the ground truth
FlagSoundKinds(flag, isoL, isoR) ==
  \A k \in DOMAIN flag : (flag[k] = "L" => isoL[k]) /\ (flag[k] = "R" => isoR[k])

(* ------------- what an operation rewrites and what it promises ---------- *)
(* W : sites whose tensors are rewritten (their isometries are destroyed), *)
(* EL / ER : rewritten sites that the operation promises to leave as       *)
(* left / right isometries.                                                *)
Eff(W, EL, ER) == [W |-> W, EL |-> EL, ER |-> ER]
NoEff == Eff({}, {}, {})

\* operations that take no record: the caller keeps the record (see CallerWiden)
\* a = arguments of the logged call (all integers / strings / booleans), L = length before the call
Promise(ev, a, L) ==
  CASE ev = "left_canonize_site"  -> Eff({a.i, a.i + 1}, {a.i}, {})
    [] ev = "right_canonize_site" -> Eff({a.i - 1, a.i}, {}, {a.i})
    [] ev = "left_canonicalize"   -> IF a.stop > a.start THEN Eff(a.start..a.stop, a.start..(a.stop - 1), {}) ELSE NoEff
    [] ev = "right_canonicalize"  -> IF a.start > a.stop THEN Eff(a.stop..a.start, {}, (a.stop + 1)..a.start) ELSE NoEff
    [] ev = "shift"               -> IF a.new > a.cur THEN Eff(a.cur..a.new, a.cur..(a.new - 1), {})
                                     ELSE IF a.new < a.cur THEN Eff(a.new..a.cur, {}, (a.new + 1)..a.cur) ELSE NoEff
    [] ev = "gate1"               -> IF a.unitary THEN NoEff ELSE Eff({a.i}, {}, {})
       \* where = (i, i+1), or (i+1, i) when rev; "left" is the first listed site
    [] ev = "gate_split"          -> Eff({a.i, a.i + 1},
                                         IF (a.absorb = "right" /\ ~a.rev) \/ (a.absorb = "left" /\ a.rev) THEN {a.i} ELSE {},
                                         IF (a.absorb = "left" /\ ~a.rev) \/ (a.absorb = "right" /\ a.rev) THEN {a.i + 1} ELSE {})
    [] ev = "compress"            -> IF a.form = "right" THEN Eff(0..(L - 1), {}, 1..(L - 1))
                                     ELSE IF a.form = "left" THEN Eff(0..(L - 1), 0..(L - 2), {})
                                     ELSE IF a.form = "flat" THEN Eff(0..(L - 1), {}, {})
                                     ELSE Eff(0..(L - 1), 0..(a.c - 1), (a.c + 1)..(L - 1))
    [] ev = "gate_with_mpo"       -> IF a.rev THEN Eff(0..(L - 1), 0..(L - 2), {}) ELSE Eff(0..(L - 1), {}, 1..(L - 1))
    [] ev = "normalize"           -> Eff({a.insert}, {}, {})
    [] ev = "tensor_normalize"    -> Eff({a.i}, {}, {})
    [] OTHER                      -> NoEff

\* the sharpest record a caller can keep from the old (sound) record and the promise of the call
CallerWiden(rec, e, L) ==
  IF ~IsPair(rec) THEN rec
  ELSE LET NL == {x \in 0..(L - 1) : (x >= rec[1] \/ x \in e.W) /\ x \notin e.EL}
           NR == {x \in 0..(L - 1) : (x <= rec[2] \/ x \in e.W) /\ x \notin e.ER}
           lo == IF NL = {} THEN L - 1 ELSE SetMin(NL)
           hi == IF NR = {} THEN 0 ELSE SetMax(NR)
       IN  IF lo <= hi THEN <<lo, hi>> ELSE <<hi, hi>>
\* compress(form) documents the resulting centre; shift documents it too
CallerRecord(ev, a, rec, L) ==
  CASE ev = "compress" -> (IF a.form = "right" THEN <<0, 0>> ELSE IF a.form = "left" THEN <<L - 1, L - 1>>
                           ELSE IF a.form = "flat" THEN None ELSE <<a.c, a.c>>)
    [] ev = "gate_with_mpo" -> (IF a.rev THEN <<L - 1, L - 1>> ELSE <<0, 0>>)
    [] ev = "shift" -> <<a.new, a.new>>
    [] OTHER -> CallerWiden(rec, Promise(ev, a, L), L)

\* operations that take the record: the canonical form their documentation promises for the
\* object the record describes afterwards (L2 = its length); TRUE where nothing is documented
Documented(ev, a, isoL, isoR, L2) ==
  CASE ev = "canonicalize"     -> CanonicalAround(a.wi, a.wj, isoL, isoR, L2)
    [] ev = "compress_site"    -> CanonicalAround(a.i, a.i, isoL, isoR, L2)
    [] ev = "gate_with_submpo" -> CanonicalAround(a.si, a.sf, isoL, isoR, L2)
    [] ev = "measure"          -> (a.outcome_only \/ CanonicalAround(Min2(a.site, L2 - 1), Min2(a.site, L2 - 1), isoL, isoR, L2))
    [] OTHER -> TRUE

(* ---------------- exact states: TLC is the oracle ----------------------- *)
(* x = [kind, L, sites]: kind "prod" (sites = sequence of single-site     *)
(* labels "0" "1" "+" "-" "i+" "i-"), "ghz" ((|0..0>+|1..1>)/sqrt 2), "w"   *)
(* (equal superposition of the one-hot strings), "none".  Values are       *)
(* logged multiplied by 60 (= lcm 2..6) and snapped to integers.           *)
SC == 60
Bloch(lab) == CASE lab = "0" -> <<0, 0, 1>> [] lab = "1" -> <<0, 0, -1>>
                [] lab = "+" -> <<1, 0, 0>> [] lab = "-" -> <<-1, 0, 0>>
                [] lab = "i+" -> <<0, 1, 0>> [] lab = "i-" -> <<0, -1, 0>>
DirIdx(d) == CASE d = "X" -> 1 [] d = "Y" -> 2 [] d = "Z" -> 3
\* 60 * <S_dir> at a site (spin-1/2 operators, S = sigma/2)
MagRef(x, site, dir) ==
  CASE x.kind = "prod" -> 30 * Bloch(x.sites[site + 1])[DirIdx(dir)]
    [] x.kind = "ghz"  -> 0
    [] x.kind = "w"    -> IF dir = "Z" THEN 30 - (60 \div x.L) ELSE 0
\* 60 * Schmidt values (eigenvalues of the reduced state) for the cut after `cut` sites, descending, zeros dropped
SchmidtRef(x, cut) ==
  CASE x.kind = "prod" -> <<60>>
    [] x.kind = "ghz"  -> <<30, 30>>
    [] x.kind = "w"    -> LET p == (60 * cut) \div x.L  q == 60 - p IN IF p >= q THEN <<p, q>> ELSE <<q, p>>
GapRef(x, cut) == LET s == SchmidtRef(x, cut) IN IF Len(s) = 1 THEN s[1] ELSE s[1] - s[2]
\* entropy in bits when it is an integer, else -1
EntropyRefInt(x, cut) ==
  CASE x.kind = "prod" -> 0
    [] x.kind = "ghz"  -> 1
    [] x.kind = "w"    -> IF 2 * cut = x.L THEN 1 ELSE -1
\* 60 * probability of outcome o when site `site` is measured in the computational basis
P1site(lab, o) == IF lab = "0" THEN (IF o = 0 THEN 60 ELSE 0) ELSE IF lab = "1" THEN (IF o = 1 THEN 60 ELSE 0) ELSE 30
OutcomeRef(x, site, o) ==
  CASE x.kind = "prod" -> P1site(x.sites[site + 1], o)
    [] x.kind = "ghz"  -> 30
    [] x.kind = "w"    -> IF o = 1 THEN 60 \div x.L ELSE 60 - (60 \div x.L)
\* the state after the measurement (and the optional removal of the site)
DropAt(s, k) == [j \in 1..(Len(s) - 1) |-> IF j < k THEN s[j] ELSE s[j + 1]]
Lab(o) == IF o = 0 THEN "0" ELSE "1"
AfterMeasure(x, site, o, remove) ==
  LET L2 == IF remove THEN x.L - 1 ELSE x.L IN
  CASE x.kind = "prod" ->
         LET s1 == [x.sites EXCEPT ![site + 1] = Lab(o)] IN
         [kind |-> "prod", L |-> L2, sites |-> IF remove THEN DropAt(s1, site + 1) ELSE s1]
    [] x.kind = "ghz" -> [kind |-> "prod", L |-> L2, sites |-> [k \in 1..L2 |-> Lab(o)]]
    [] x.kind = "w" ->
         IF o = 1 THEN LET s1 == [k \in 1..x.L |-> IF k = site + 1 THEN "1" ELSE "0"] IN
                       [kind |-> "prod", L |-> L2, sites |-> IF remove THEN DropAt(s1, site + 1) ELSE s1]
         ELSE IF remove /\ L2 >= 2 THEN [kind |-> "w", L |-> L2, sites |-> <<>>]
         ELSE [kind |-> "none", L |-> L2, sites |-> <<>>]
    [] OTHER -> [kind |-> "none", L |-> L2, sites |-> <<>>]
\* moving the physical site i to position f (all sites in between shift by one)
MoveSite(s, i, f) ==
  [k \in 1..Len(s) |->
     IF i < f THEN (IF k - 1 < i \/ k - 1 > f THEN s[k] ELSE IF k - 1 = f THEN s[i + 1] ELSE s[k + 1])
     ELSE (IF k - 1 < f \/ k - 1 > i THEN s[k] ELSE IF k - 1 = f THEN s[i + 1] ELSE s[k - 1])]
SwapSite(s, i, j) == [k \in 1..Len(s) |-> IF k = i + 1 THEN s[j + 1] ELSE IF k = j + 1 THEN s[i + 1] ELSE s[k]]
\* probability (times 60) of the computational configuration cfg (sequence of 0/1); 2-site version for pairs
RECURSIVE ProdProb(_, _, _)
\* exact rational num/den with den a power of two: returns <<num, den>>
ProdProb(sites, cfg, k) ==
  IF k > Len(sites) THEN <<1, 1>>
  ELSE LET r == ProdProb(sites, cfg, k + 1)
           p == P1site(sites[k], cfg[k])     \* 0, 30 or 60
       IN  IF p = 0 THEN <<0, 1>> ELSE IF p = 60 THEN r ELSE <<r[1], 2 * r[2]>>
Ones(cfg) == Cardinality({k \in DOMAIN cfg : cfg[k] = 1})
\* <<num, den>> of the probability of configuration cfg
ConfigProbRef(x, cfg) ==
  CASE x.kind = "prod" -> ProdProb(x.sites, cfg, 1)
    [] x.kind = "ghz"  -> IF Ones(cfg) = 0 \/ Ones(cfg) = x.L THEN <<1, 2>> ELSE <<0, 1>>
    [] x.kind = "w"    -> IF Ones(cfg) = 1 THEN <<1, x.L>> ELSE <<0, 1>>
\* 60 * probability that sites i # j show (a, b)
PairProbRef(x, i, j, a, b) ==
  CASE x.kind = "prod" -> (P1site(x.sites[i + 1], a) * P1site(x.sites[j + 1], b)) \div 60
    [] x.kind = "ghz"  -> IF a = b THEN 30 ELSE 0
    [] x.kind = "w"    -> IF a + b = 2 THEN 0 ELSE IF a + b = 1 THEN 60 \div x.L ELSE 60 - 2 * (60 \div x.L)
=============================================================================
