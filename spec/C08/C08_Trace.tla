----------------------------- MODULE C08_Trace -----------------------------
(***************************************************************************)
(* Trace spec for C08.  One record per public call (or per change of the   *)
(* record made by the caller) of ONE history on ONE matrix product state    *)
(* threading ONE info dict.  Each record carries the observation of the     *)
(* object the record describes after the call (the receiver after an       *)
(* in-place call or a query, the returned state otherwise):                *)
(*   L, rec, isoL[], isoR[] (numpy on the raw site arrays), flags[] (the   *)
(*   left_inds claim of each tensor and whether that tensor is isometric), *)
(*   dstate (quantised distance between to_dense() and the state the call  *)
(*   means), q (query result against the value computed from the dense     *)
(*   state; on exact product / GHZ / W states also snapped integers that   *)
(*   are compared with the reference definitions of C08_Defs).             *)
(* State carried along a trace: the previous record (the precondition of a *)
(* call is that the record it is given is sound) and the exact state x.    *)
(***************************************************************************)
EXTENDS C08_Defs, TraceIO

VARIABLES l, fails, prev, x
tvars == <<l, fails, prev, x>>

NoX == [kind |-> "none", L |-> 0, sites |-> <<>>]
BAD == -999999

\* a CircuitMPS / CircuitPermMPS threads its own record (gate_opts["info"]) through gates and consumers; the
\* observation is that record against the stored state circ._psi
CircuitEvents == {"circ_gate", "circ_copy", "circ_sample", "circ_local_expectation", "circ_fidelity",
                  "circ_amplitude", "circ_to_dense"}
RecordEvents == {"canonicalize", "swap_sites", "swap_site_to", "gate_with_auto_swap", "gate_with_submpo",
                 "compress_site", "measure", "schmidt_values", "entropy", "schmidt_gap", "singular_values",
                 "bipartite_schmidt_state", "magnetization", "partial_trace_canonical",
                 "local_expectation_canonical", "compute_local_expectation_canonical",
                 "sample_configuration", "sample"} \cup CircuitEvents
CallerEvents == {"left_canonize_site", "right_canonize_site", "left_canonicalize", "right_canonicalize", "shift",
                 "gate1", "gate_split", "compress", "gate_with_mpo", "normalize", "tensor_normalize"}

Rec(ln) == <<ln.rec[1], ln.rec[2]>>
Sound(ln) == /\ RecordInRange(Rec(ln), ln.L)
             /\ RecordSound(Rec(ln), ln.isoL, ln.isoR, ln.L)
             /\ FlagSoundObs(ln.flags)
NonZero(s) == SelectSeq(s, LAMBDA v : v # 0)
HasQ(ln, f) == Has(ln, "q") /\ Has(ln.q, f)

\* ---------- exact-domain clauses (TLC computes the reference value) ------
ExactOK(ln, xs) ==
  LET ev == ln.ev
      a  == ln.args
      q  == ln.q IN
  CASE ev = "schmidt_values" -> NonZero(q.s60) = SchmidtRef(xs, a.i)
    [] ev = "entropy"        -> (EntropyRefInt(xs, a.i) >= 0 => q.ent = EntropyRefInt(xs, a.i))
    [] ev = "schmidt_gap"    -> q.gap60 = GapRef(xs, a.i)
    [] ev = "magnetization"  -> (a.direction \in {"X", "Y", "Z"} => q.m60 = MagRef(xs, a.i, a.direction))
    [] ev = "measure"        -> /\ OutcomeRef(xs, a.site, a.outcome) > 0
                                /\ (HasQ(ln, "p60") => q.p60 = OutcomeRef(xs, a.site, a.outcome))
    [] ev \in {"sample", "sample_configuration"} ->
         \A k \in DOMAIN q.cfgs :
            LET r == ConfigProbRef(xs, q.cfgs[k]) IN r[1] > 0 /\ q.inv[k] * r[1] = r[2]
    [] ev = "local_expectation_canonical" ->
         (Has(a, "pa") /\ a.wi # a.wj /\ a.normalized) =>
            q.e60 = PairProbRef(xs, a.first, IF a.first = a.wi THEN a.wj ELSE a.wi, a.pa, a.pb)
    [] OTHER -> TRUE

\* ---------- the exact state after the event ------------------------------
NextX(ln, xs, pre) ==
  IF ln.ev = "init" THEN (IF Has(ln, "x") THEN [kind |-> ln.x.kind, L |-> ln.x.L, sites |-> ln.x.sites] ELSE NoX)
  ELSE IF xs.kind = "none" THEN NoX
  ELSE IF ln.exc # "" THEN NoX
  ELSE LET a == ln.args IN
  CASE ln.ev = "swap_sites" -> IF a.trunc THEN NoX ELSE
         (IF xs.kind = "prod" THEN [xs EXCEPT !.sites = SwapSite(@, a.i, a.j)] ELSE xs)
    [] ln.ev = "swap_site_to" -> (IF xs.kind = "prod" THEN [xs EXCEPT !.sites = MoveSite(@, a.i, a.f)] ELSE xs)
    [] ln.ev = "measure" -> IF a.outcome_only THEN xs
                            ELSE IF ~pre \/ ~a.renorm THEN NoX
                            ELSE AfterMeasure(xs, a.site, a.outcome, a.remove)
    [] ln.ev \in {"gate1", "gate_split", "gate_with_auto_swap", "gate_with_submpo", "gate_with_mpo", "tensor_normalize"} -> NoX
    [] ln.ev \in {"compress", "compress_site"} -> (IF a.trunc THEN NoX ELSE xs)
    [] OTHER -> xs

Clauses(ln, pv, first, xs) ==
  LET ev  == ln.ev
      a   == ln.args
      ok  == ln.exc = ""
      \* the record handed to the call was sound; a circuit owns its record, so nothing excuses its methods
      pre == first \/ Sound(pv) \/ ev \in CircuitEvents
      preF == first \/ FlagSoundObs(pv.flags)
      rec == Rec(ln)
      qv(f) == HasQ(ln, f) => ln.q[f] = 0
  IN
  << \* a method that is handed a sound record must carry the call out
     <<"Returns", (pre /\ ev \in RecordEvents) => ok>>,
     \* exceptions of methods without record argument are outside the statement: noted, not judged
     <<"NOTE:Rejected", ev \in RecordEvents \/ ok>>,
     <<"RecordInRange", (pre /\ ok) => RecordInRange(rec, ln.L)>>,
     <<"RecordSound",   (pre /\ ok) => RecordSound(rec, ln.isoL, ln.isoR, ln.L)>>,
     <<"FlagSound",     (preF /\ ok) => FlagSoundObs(ln.flags)>>,
     \* methods without record argument: the isometries their documentation promises
     <<"Establishes", (preF /\ ok /\ ev \in CallerEvents /\ ~first) =>
          LET e == Promise(ev, a, pv.L) IN
          /\ \A s \in e.EL : s + 1 \in DOMAIN ln.isoL /\ ln.isoL[s + 1]
          /\ \A s \in e.ER : s + 1 \in DOMAIN ln.isoR /\ ln.isoR[s + 1]>>,
     \* methods with record argument: the canonical form their documentation promises
     <<"Documented", (pre /\ ok /\ ev \in RecordEvents) => Documented(ev, a, ln.isoL, ln.isoR, ln.L)>>,
     <<"StateAsExpected", (pre /\ ok /\ ev # "measure" /\ Has(ln, "dstate")) => ln.dstate = 0>>,
     <<"PostMeasurementState", (pre /\ ok /\ ev = "measure" /\ Has(ln, "dstate")) => ln.dstate = 0>>,
     <<"MeasurementProbability", (pre /\ ok /\ ev = "measure") => (qv("p") /\ (HasQ(ln, "p_ok") => ln.q.p_ok = 1))>>,
     <<"SchmidtValues", (pre /\ ok /\ ev \in {"schmidt_values", "singular_values", "bipartite_schmidt_state"}) =>
          (qv("val") /\ qv("offdiag") /\ (HasQ(ln, "desc") => ln.q.desc = 1))>>,
     <<"Entropy",          (pre /\ ok /\ ev = "entropy") => qv("val")>>,
     <<"SchmidtGap",       (pre /\ ok /\ ev = "schmidt_gap") => qv("val")>>,
     <<"Magnetization",    (pre /\ ok /\ ev = "magnetization") => qv("val")>>,
     <<"ReducedDensity",   (pre /\ ok /\ ev = "partial_trace_canonical") => qv("val")>>,
     <<"LocalExpectation", (pre /\ ok /\ ev \in {"local_expectation_canonical", "compute_local_expectation_canonical",
                                                  "circ_local_expectation"}) => qv("val")>>,
     \* fidelity / error estimate, amplitude, dense state, psi accessor, samples (only possible bit strings)
     <<"CircuitQuery", (pre /\ ok /\ ev \in {"circ_fidelity", "circ_amplitude", "circ_to_dense", "circ_sample"}) =>
          (qv("val") /\ (HasQ(ln, "p_ok") => ln.q.p_ok = 1))>>,
     <<"SampleProbability", (pre /\ ok /\ ev \in {"sample", "sample_configuration"}) => qv("val")>>,
     <<"ExactValue", (pre /\ ok /\ xs.kind # "none" /\ Has(ln, "q")) => ExactOK(ln, xs)>>,
     \* the driver plays the caller for methods without record argument: it must follow C08_Defs!CallerRecord
     <<"NOTE:CallerRule", (ok /\ ev \in CallerEvents /\ ~first) => rec = CallerRecord(ev, a, Rec(pv), pv.L)>>,
     \* S->C replays carry the state of the implementation-shaped model
     <<"NOTE:ModelDrift", Has(ln, "model") =>
          /\ ln.model.L = ln.L
          /\ (ln.model.exactrec => <<ln.model.rec[1], ln.model.rec[2]>> = rec)
          /\ \A k \in 1..ln.L : (ln.model.isoL[k] => ln.isoL[k]) /\ (ln.model.isoR[k] => ln.isoR[k])>>,
     <<"NOTE:ModelDrift.Claims", (Has(ln, "model") /\ ln.model.exactrec) =>
          (ln.model.L = ln.L /\ \A k \in 1..ln.L : ln.model.flag[k] # "N" => ln.model.flag[k] = ln.flags[k].kind)>> >>

TInit == l = 1 /\ fails = <<>> /\ prev = [tid |-> -1] /\ x = NoX
TNext == /\ l <= NLines
         /\ LET ln == TraceLog[l]
                first == prev.tid # ln.tid
                xs == IF first THEN NoX ELSE x
                pre == first \/ Sound(prev) IN
            /\ fails' = AddFails(fails, l, Clauses(ln, prev, first, xs))
            /\ x' = NextX(ln, xs, pre)
            /\ prev' = ln
         /\ l' = l + 1
TSpec == TInit /\ [][TNext]_tvars
Done == l = NLines + 1 => WriteVerdict(l - 1, fails)
=============================================================================
