SPECIFICATION Spec
CONSTANTS
  L0 = 4
  MaxDepth = 3
  Record = FALSE
  Dev <- DevOutcome
VIEW view
INVARIANT TypeOK
INVARIANT RecordSoundInv
INVARIANT RecordInRangeInv
INVARIANT FlagSoundInv
INVARIANT ConsumerSound
CHECK_DEADLOCK FALSE
