---------------------------- MODULE C08_MPSCanon ----------------------------
(***************************************************************************)
(* C08 - implementation-shaped model of the orthogonality-centre record    *)
(* (info["cur_orthog"]) kept by the MatrixProductState methods of          *)
(* quimb/tensor/tn1d/core.py at the pinned commit, together with the       *)
(* ground truth it talks about: which site tensors are (guaranteed to be)  *)
(* left / right isometries, and which carry a `left_inds` claim.           *)
(*                                                                         *)
(* Implementation-shaped part: the record arithmetic of parse_cur_orthog,  *)
(* canonicalize (min/max logic, detector, full sweeps), the claim shortcut  *)
(* of tensor_canonize_bond, swap_sites_with_compress (absorb cases),        *)
(* swap_site_to, gate_with_auto_swap, gate_with_submpo, compress_site,      *)
(* compress(form), measure (projection, removal), the canonical queries    *)
(* and sample / sample_configuration; which tensors each method rewrites   *)
(* and which isometries it establishes.                                    *)
(* Property level: RecordSound / RecordInRange / FlagSound (C08_Defs) for  *)
(* every history, and ConsumerSound (a canonical query is evaluated on a   *)
(* state that really is canonical around the queried sites).               *)
(* Methods that take no record are followed by the caller's own update of  *)
(* the record (C08_Defs!CallerRecord: what the documentation promises).    *)
(*                                                                         *)
(* Dev : named deviations from a sound record arithmetic = what the code   *)
(* did before the fix: commits 9081c46d (swap_both), 6a956e6e (sample_info),*)
(* fe668b26 (measure_last), 761424b3 (measure_outcome), fb49fbf5            *)
(* (tnorm_flag).  The main configurations and the simulation for replay    *)
(* run with Dev = {} (the code as it is); the self-test configurations     *)
(* enable one deviation each and must FAIL.                                *)
(***************************************************************************)
EXTENDS C08_Defs, SequencesExt, Json

CONSTANTS L0,        \* initial number of sites
          MaxDepth,
          Record,    \* TRUE: keep the history variable (simulation for replay)
          Dev        \* subset of {"swap_both", "sample_info", "measure_last", "measure_outcome", "tnorm_flag"}

VARIABLES st,     \* [L, isoL, isoR, flag, rec]
          need,   \* None, or <<i, j>>: the last call evaluated a query that assumes canonical form around i..j
          depth, act, hist
vars == <<st, need, depth, act, hist>>
view == <<st, need, depth>>

(* ----------------------------- primitives -------------------------------- *)
Put(s, i, l, r, f) == [s EXCEPT !.isoL[i + 1] = l, !.isoR[i + 1] = r, !.flag[i + 1] = f]

\* left_canonize_site(i) = tensor_canonize_bond(self[i], self[i+1]); returns early when the claim matches
LCS(s, i) == IF s.flag[i + 1] = "L" THEN s
             ELSE Put(Put(s, i, TRUE, FALSE, "L"), i + 1, FALSE, FALSE, "N")
\* right_canonize_site(i) = tensor_canonize_bond(self[i], self[i-1])
RCS(s, i) == IF s.flag[i + 1] = "R" THEN s
             ELSE Put(Put(s, i, FALSE, TRUE, "R"), i - 1, FALSE, FALSE, "N")
\* left_compress_site(i) / right_compress_site(i): tensor_compress_bond, no shortcut, claim set on the isometric factor
LCompS(s, i, both) == IF both THEN Put(Put(s, i, FALSE, FALSE, "N"), i + 1, FALSE, FALSE, "N")
                      ELSE Put(Put(s, i, TRUE, FALSE, "L"), i + 1, FALSE, FALSE, "N")
RCompS(s, i, both) == IF both THEN Put(Put(s, i, FALSE, FALSE, "N"), i - 1, FALSE, FALSE, "N")
                      ELSE Put(Put(s, i, FALSE, TRUE, "R"), i - 1, FALSE, FALSE, "N")

RECURSIVE LSweep(_, _, _)      \* for k in range(a, b): left_canonize_site(k)
LSweep(s, a, b) == IF a >= b THEN s ELSE LSweep(LCS(s, a), a + 1, b)
RECURSIVE RSweep(_, _, _)      \* for k in range(a, b, -1): right_canonize_site(k)
RSweep(s, a, b) == IF a <= b THEN s ELSE RSweep(RCS(s, a), a - 1, b)
RECURSIVE LCompSweep(_, _, _, _)
LCompSweep(s, a, b, both) == IF a >= b THEN s ELSE LCompSweep(LCompS(s, a, both), a + 1, b, both)
RECURSIVE RCompSweep(_, _, _, _)
RCompSweep(s, a, b, both) == IF a <= b THEN s ELSE RCompSweep(RCompS(s, a, both), a - 1, b, both)

\* shift_orthogonality_center(current, new)
Shift(s, cur, new) == IF new > cur THEN LSweep(s, cur, new) ELSE RSweep(s, cur, new)

\* calc_current_orthog_center(): (count of leading left isometries among 0..L-2, L - trailing right isometries - 1)
RECURSIVE CountL(_, _)
CountL(s, k) == IF k < s.L - 1 /\ s.isoL[k + 1] THEN CountL(s, k + 1) ELSE k
RECURSIVE CountR(_, _, _)
CountR(s, j, nl) == IF j >= nl + 1 /\ s.isoR[j + 1] THEN CountR(s, j - 1, nl) ELSE j
CalcCentre(s) == LET nl == CountL(s, 0) IN <<nl, CountR(s, s.L - 1, nl)>>

\* canonicalize_(where = (wi..wj), info): the record arithmetic of lines 1158-1187.
\* dec: the caller is wrapped in convert_cur_orthog (a missing entry was set to None before);
\* canonicalize itself (and the methods that call it unwrapped) default a missing entry to "calc"
Canon(s, wi, wj, dec) ==
  LET cur == IF s.rec = Calc \/ (s.rec = Absent /\ ~dec) THEN CalcCentre(s)
             ELSE IF s.rec = Absent THEN None ELSE s.rec IN
  IF cur = None
  THEN [RSweep(LSweep(s, 0, wi), s.L - 1, wj) EXCEPT !.rec = <<wi, wj>>]
  ELSE LET cmin == cur[1]
           cmax == cur[2]
           s1 == IF wi > cmin THEN Shift(s, cmin, wi) ELSE s
           i2 == IF wi > cmin THEN wi ELSE Min2(wj, cmin)
           s2 == IF wj < cmax THEN Shift(s1, cmax, wj) ELSE s1
           j2 == IF wj < cmax THEN wj ELSE Max2(i2, cmax)
       IN  [s2 EXCEPT !.rec = <<i2, j2>>]

\* swap_sites_with_compress_(i, i+1, absorb=ab): canonicalize, contract the pair, split, modify(data=) on both
SwapAdj(s, i, ab) ==
  LET s1 == Canon(s, i, i + 1, TRUE)
      s2 == Put(Put(s1, i, ab = "right", FALSE, "N"), i + 1, FALSE, ab = "left", "N")
  IN  [s2 EXCEPT !.rec = IF ab = "left" THEN <<i, i>>
                         ELSE IF ab = "right" THEN <<i + 1, i + 1>>
                         ELSE IF "swap_both" \in Dev THEN s1.rec     \* (before 9081c46d) record left as canonicalize set it
                         ELSE <<i, i + 1>>]
RECURSIVE SwapUp(_, _, _, _)     \* for j in range(i, f): swap (j, j+1)
SwapUp(s, i, f, ab) == IF i >= f THEN s ELSE SwapUp(SwapAdj(s, i, ab), i + 1, f, ab)
RECURSIVE SwapDown(_, _, _, _)   \* for j in range(i-1, f-1, -1): swap (j, j+1)
SwapDown(s, i, f, ab) == IF i <= f THEN s ELSE SwapDown(SwapAdj(s, i - 1, ab), i - 1, f, ab)
\* swap_site_to_(i, f, absorb=ab or the direction default)
SwapTo(s, i, f, ab) ==
  IF i = f THEN s
  ELSE IF i < f THEN SwapUp(s, i, f, IF ab = "default" THEN "right" ELSE ab)
  ELSE SwapDown(s, i, f, IF ab = "default" THEN "left" ELSE ab)
\* swap_sites_with_compress(i, j, absorb=ab)
SwapSites(s, i0, j0, ab) ==
  LET i == Min2(i0, j0)
      j == Max2(i0, j0)
  IN  IF i + 1 = j THEN SwapAdj(s, i, IF ab = "default" THEN "both" ELSE ab)
      ELSE SwapTo(SwapTo(s, j, i, ab), i + 1, j, ab)

\* gate_with_auto_swap(G, (i0, j0), swap_back)
AutoSwap(s, i0, j0, back) ==
  LET i == Min2(i0, j0)
      j == Max2(i0, j0)
      s1 == IF i + 1 # j THEN SwapTo(s, j, i + 1, "default") ELSE s
      s2 == Canon(s1, i, i + 1, TRUE)
      \* gate_split with absorb='right' on (i, i+1), or absorb='left' on (i+1, i): site i is the isometric factor
      s3 == [Put(Put(s2, i, TRUE, FALSE, "N"), i + 1, FALSE, FALSE, "N") EXCEPT !.rec = <<i + 1, i + 1>>]
  IN  IF i + 1 # j /\ back THEN SwapTo(s3, i + 1, j, "default") ELSE s3

\* gate_with_submpo / gate_nonlocal over si..sf (not lazy): canonicalize, direct compression of the section
RECURSIVE SubSweep(_, _, _, _, _)
SubSweep(s, k, si, sf, rev) ==
  IF k > sf THEN s
  \* (the claims set by compress_between may or may not survive the final permute_arrays: none is modelled)
  ELSE SubSweep(IF rev THEN Put(s, k, k < sf, FALSE, "N") ELSE Put(s, k, FALSE, k > si, "N"), k + 1, si, sf, rev)
\* method='fit': the section ends canonical at one of its two ends, which one depends on the number of sweeps:
\* nothing is guaranteed for the individual sites and (since 9c45af81) the whole region is recorded
RECURSIVE FitSweep(_, _, _)
FitSweep(s, k, sf) == IF k > sf THEN s ELSE FitSweep(Put(s, k, FALSE, FALSE, "N"), k + 1, sf)
SubMPO(s, si, sf, rev, fit) ==
  LET s1 == Canon(s, si, sf, TRUE) IN
  IF fit THEN [FitSweep(s1, si, sf) EXCEPT !.rec = <<si, sf>>]
  ELSE [SubSweep(s1, si, si, sf, rev) EXCEPT !.rec = IF rev THEN <<sf, sf>> ELSE <<si, si>>]

\* compress_site(i, canonize=True)
CompressSite(s, i) ==
  LET s1 == Canon(s, i, i, TRUE)
      s2 == IF i > 0 THEN LCompS(s1, i - 1, FALSE) ELSE s1
  IN  IF i < s.L - 1 THEN RCompS(s2, i + 1, FALSE) ELSE s2

\* compress(form)
CompressForm(s, form, c) ==
  LET L == s.L IN
  IF form = "right" THEN RCompSweep(LSweep(s, 0, L - 1), L - 1, 0, FALSE)
  ELSE IF form = "left" THEN LCompSweep(RSweep(s, L - 1, 0), 0, L - 1, FALSE)
  ELSE IF form = "flat" THEN LCompSweep(RCompSweep(s, L - 1, L \div 2, TRUE), 0, L \div 2, TRUE)
  ELSE IF c < L \div 2 THEN LSweep(RCompSweep(LSweep(s, 0, L - 1), L - 1, 0, FALSE), 0, c)
  ELSE RSweep(LCompSweep(RSweep(s, L - 1, 0), 0, L - 1, FALSE), L - 1, c)

DropSite(s, k) == [s EXCEPT !.L = @ - 1, !.isoL = RemoveAt(@, k + 1), !.isoR = RemoveAt(@, k + 1), !.flag = RemoveAt(@, k + 1)]
\* measure(site, remove, get, inplace)
Measure(s, site, remove, oonly, inplace) ==
  IF oonly
  THEN IF inplace THEN Canon(s, site, site, TRUE)
       ELSE IF "measure_outcome" \in Dev THEN [s EXCEPT !.rec = Canon(s, site, site, TRUE).rec]   \* the copy is dropped
       ELSE s
  ELSE LET s1 == Put(Canon(s, site, site, TRUE), site, FALSE, FALSE, "N") IN
       IF ~remove THEN s1
       ELSE IF site = s.L - 1
            THEN [DropSite(Put(s1, site - 1, FALSE, FALSE, "N"), site)
                    EXCEPT !.rec = IF "measure_last" \in Dev THEN s1.rec ELSE <<site - 1, site - 1>>]
            ELSE DropSite(Put(s1, site + 1, FALSE, FALSE, "N"), site)    \* merged tensor takes the place of `site`

\* sample_configuration(info) / sample(C, info): canonicalize(0, info=info) on a copy
Sample(s) == IF "sample_info" \in Dev THEN [s EXCEPT !.rec = Canon(s, 0, 0, FALSE).rec] ELSE s

\* a method without record argument, followed by the caller's update of the record
Caller(s, s1, ev, a) == [s1 EXCEPT !.rec = CallerRecord(ev, a, s.rec, s.L)]

(* ------------------------------- actions --------------------------------- *)
StateJson(d, a, s, nd) == [depth |-> d, act |-> a, L |-> s.L, isoL |-> s.isoL, isoR |-> s.isoR,
                           flag |-> s.flag, rec |-> s.rec, need |-> nd]
Step(a, s2, nd) ==
  /\ depth < MaxDepth
  /\ st' = s2 /\ need' = nd /\ depth' = depth + 1 /\ act' = a
  /\ hist' = IF Record THEN Append(hist, StateJson(depth + 1, a, s2, nd)) ELSE hist

Sites == 0..(st.L - 1)
\* a record that points outside the state makes the real call raise: such calls are not part of a behaviour
Usable == RecordInRange(st.rec, st.L)
Absorbs == {"default", "left", "right", "both"}

LeftCanonizeSite == \E i \in Sites : i < st.L - 1 /\
  LET a == [op |-> "left_canonize_site", i |-> i] IN Step(a, Caller(st, LCS(st, i), a.op, a), None)
RightCanonizeSite == \E i \in Sites : i > 0 /\
  LET a == [op |-> "right_canonize_site", i |-> i] IN Step(a, Caller(st, RCS(st, i), a.op, a), None)
Canonicalize == \E wi \in Sites, wj \in Sites : wi <= wj /\ Usable /\
  Step([op |-> "canonicalize", wi |-> wi, wj |-> wj], Canon(st, wi, wj, FALSE), None)
\* shift_orthogonality_center(current, new): the caller passes the centre it knows
ShiftCentre == \E new \in Sites : IsPair(st.rec) /\ Usable /\ st.rec[1] = st.rec[2] /\ new # st.rec[1] /\
  LET a == [op |-> "shift", cur |-> st.rec[1], new |-> new] IN Step(a, Caller(st, Shift(st, a.cur, new), a.op, a), None)
Gate1 == \E i \in Sites, u \in BOOLEAN :
  LET a == [op |-> "gate1", i |-> i, unitary |-> u]
      s1 == IF u THEN [st EXCEPT !.flag[i + 1] = "N"] ELSE Put(st, i, FALSE, FALSE, "N")
  IN  Step(a, Caller(st, s1, a.op, a), None)
GateSplit == \E i \in Sites, ab \in {"left", "right", "both"}, rev \in BOOLEAN : i < st.L - 1 /\
  LET a == [op |-> "gate_split", i |-> i, absorb |-> ab, rev |-> rev]
      e == Promise(a.op, a, st.L)
      s1 == Put(Put(st, i, i \in e.EL, FALSE, "N"), i + 1, FALSE, (i + 1) \in e.ER, "N")
  IN  Step(a, Caller(st, s1, a.op, a), None)
GateAutoSwap == \E i \in Sites, j \in Sites, back \in BOOLEAN : i # j /\ Usable /\
  Step([op |-> "gate_with_auto_swap", i |-> i, j |-> j, swap_back |-> back], AutoSwap(st, i, j, back), None)
GateSubMPO == \E si \in Sites, sf \in Sites, rev \in BOOLEAN, fit \in BOOLEAN : si < sf /\ Usable /\
  Step([op |-> "gate_with_submpo", si |-> si, sf |-> sf, rev |-> rev, fit |-> fit], SubMPO(st, si, sf, rev, fit), None)
GateMPO == \E n \in {st.L}, rev \in BOOLEAN :
  LET a == [op |-> "gate_with_mpo", rev |-> rev]
      s1 == SubSweep(st, 0, 0, st.L - 1, rev)
  IN  Step(a, Caller(st, s1, a.op, a), None)
SwapSitesA == \E i \in Sites, j \in Sites, ab \in Absorbs : i # j /\ Usable /\
  Step([op |-> "swap_sites", i |-> i, j |-> j, absorb |-> ab], SwapSites(st, i, j, ab), None)
SwapSiteToA == \E i \in Sites, f \in Sites, ab \in Absorbs : i # f /\ Usable /\
  Step([op |-> "swap_site_to", i |-> i, f |-> f, absorb |-> ab], SwapTo(st, i, f, ab), None)
CompressSiteA == \E i \in Sites : Usable /\
  Step([op |-> "compress_site", i |-> i], CompressSite(st, i), None)
CompressA == \E form \in {"right", "left", "flat", "int"}, c \in Sites : (form # "int" => c = 0) /\
  LET a == [op |-> "compress", form |-> form, c |-> c] IN
  Step(a, Caller(st, CompressForm(st, form, c), a.op, a), None)
Normalize == \E ins \in Sites :
  LET a == [op |-> "normalize", insert |-> ins] IN Step(a, Caller(st, Put(st, ins, FALSE, FALSE, "N"), a.op, a), None)
\* psi[i].normalize_() : Tensor.normalize passes the old claim on
TensorNormalize == \E i \in Sites :
  LET a == [op |-> "tensor_normalize", i |-> i]
      s1 == Put(st, i, FALSE, FALSE, IF "tnorm_flag" \in Dev THEN st.flag[i + 1] ELSE "N")
  IN  Step(a, Caller(st, s1, a.op, a), None)
MeasureA == \E site \in Sites, remove \in BOOLEAN, oonly \in BOOLEAN, inplace \in BOOLEAN :
  /\ Usable /\ (remove => (st.L >= 3 /\ ~oonly))
  /\ Step([op |-> "measure", site |-> site, remove |-> remove, outcome_only |-> oonly, inplace |-> inplace],
          Measure(st, site, remove, oonly, inplace),
          \* the outcome probabilities are read off the tensor of `site` (of the receiver, unless a copy was measured)
          IF ~remove /\ (inplace \/ ~oonly) THEN <<site, site>> ELSE None)
\* schmidt_values / entropy / schmidt_gap / singular_values / bipartite_schmidt_state: canonicalize_(i)
BondQuery == \E i \in Sites : i > 0 /\ Usable /\
  Step([op |-> "bond_query", i |-> i], Canon(st, i, i, TRUE), <<i, i>>)
Magnetization == \E i \in Sites : Usable /\
  Step([op |-> "magnetization", i |-> i], Canon(st, i, i, TRUE), <<i, i>>)
\* partial_trace_to_dense_canonical / local_expectation_canonical(where)
LocalCanonical == \E wi \in Sites, wj \in Sites : wi <= wj /\ Usable /\
  Step([op |-> "local_canonical", wi |-> wi, wj |-> wj], Canon(st, wi, wj, FALSE), <<wi, wj>>)
SampleA == \E n \in {st.L}, many \in BOOLEAN : Usable /\
  Step([op |-> "sample", many |-> many], Sample(st), None)
\* the caller drops the record (info = {}) or asks for the detector (info["cur_orthog"] = "calc")
CallerForget == \E n \in {st.L}, clear \in BOOLEAN :
  LET r == IF clear THEN Absent ELSE None IN
  st.rec # r /\ Step([op |-> "forget", clear |-> clear], [st EXCEPT !.rec = r], None)
CallerCalc   == st.rec # Calc /\ Step([op |-> "calc"], [st EXCEPT !.rec = Calc], None)

Next == \/ LeftCanonizeSite \/ RightCanonizeSite \/ Canonicalize \/ ShiftCentre \/ Gate1 \/ GateSplit
        \/ GateAutoSwap \/ GateSubMPO \/ GateMPO \/ SwapSitesA \/ SwapSiteToA \/ CompressSiteA \/ CompressA
        \/ Normalize \/ TensorNormalize \/ MeasureA \/ BondQuery \/ Magnetization \/ LocalCanonical \/ SampleA
        \/ CallerForget \/ CallerCalc

\* initial states: an arbitrary (non canonical) state without record, or mixed canonical at c with record (c, c),
\* with or without the claims that canonicalize_ leaves behind
Mixed(c, claims) ==
  [L |-> L0,
   isoL |-> [k \in 1..L0 |-> k - 1 < c], isoR |-> [k \in 1..L0 |-> k - 1 > c],
   flag |-> [k \in 1..L0 |-> IF ~claims THEN "N" ELSE IF k - 1 < c THEN "L" ELSE IF k - 1 > c THEN "R" ELSE "N"],
   rec |-> <<c, c>>]
Raw == [L |-> L0, isoL |-> [k \in 1..L0 |-> FALSE], isoR |-> [k \in 1..L0 |-> FALSE],
        flag |-> [k \in 1..L0 |-> "N"], rec |-> Absent]
Init ==
  /\ st \in {Raw} \cup {Mixed(c, b) : c \in 0..(L0 - 1), b \in BOOLEAN}
  /\ need = None /\ depth = 0 /\ act = [op |-> "init"]
  /\ hist = IF Record THEN <<StateJson(0, [op |-> "init"], st, None)>> ELSE <<>>
Spec == Init /\ [][Next]_vars

EmitJson == depth = MaxDepth => PrintT(<<"QVJSON", ToJson(hist)>>)

(* ------------------------------ properties ------------------------------- *)
RecordSoundInv   == RecordSound(st.rec, st.isoL, st.isoR, st.L)
RecordInRangeInv == RecordInRange(st.rec, st.L)
FlagSoundInv     == FlagSoundKinds(st.flag, st.isoL, st.isoR)
ConsumerSound    == need # None => CanonicalAround(need[1], need[2], st.isoL, st.isoR, st.L)
TypeOK == /\ st.L \in 2..L0 /\ Len(st.isoL) = st.L /\ Len(st.isoR) = st.L /\ Len(st.flag) = st.L
          /\ \A k \in 1..st.L : st.flag[k] \in {"N", "L", "R"}
=============================================================================
