SPECIFICATION Spec
CONSTANTS
  L0 = 5
  MaxDepth = 10
  Record = TRUE
  Dev <- DevCode
INVARIANT TypeOK
INVARIANT EmitJson
CHECK_DEADLOCK FALSE
