SPECIFICATION Spec
CONSTANTS
  L0 = 6
  MaxDepth = 12
  Record = FALSE
  Dev <- DevNone
INVARIANT TypeOK
INVARIANT RecordSoundInv
INVARIANT RecordInRangeInv
INVARIANT FlagSoundInv
INVARIANT ConsumerSound
CHECK_DEADLOCK FALSE
