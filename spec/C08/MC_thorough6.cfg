SPECIFICATION Spec
CONSTANTS
  L0 = 6
  MaxDepth = 4
  Record = FALSE
  Dev <- DevNone
VIEW view
INVARIANT TypeOK
INVARIANT RecordSoundInv
INVARIANT RecordInRangeInv
INVARIANT FlagSoundInv
INVARIANT ConsumerSound
CHECK_DEADLOCK FALSE
