SPECIFICATION Spec
CONSTANTS
  Geoms <- GeomsTiny
  Amps <- Amps2
  AmpsL <- Amps2
  Pin = 2
  Mutant = "none"
  ExemptKnown = TRUE
  Emit = FALSE
INVARIANT RouteGivesDense
INVARIANT RdmGivesDense
INVARIANT RdmShape
INVARIANT OperatorGivesDense
INVARIANT Laws
INVARIANT OpsDiscriminate
INVARIANT TableSane
CHECK_DEADLOCK FALSE
