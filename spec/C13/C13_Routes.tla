----------------------------- MODULE C13_Routes -----------------------------
(***************************************************************************)
(* Implementation-shaped part of C13 (constant level, shared by the model  *)
(* and the trace spec): a transcription, at the pinned commit, of          *)
(*  (1) which public route accepts which geometry class / site-tuple shape *)
(*      (everything else raises = "route unavailable", never a violation), *)
(*  (2) the index bookkeeping with which each family of routes turns the   *)
(*      state and the operator into a number (which axis of G meets the    *)
(*      ket side, where the conjugate sits, where the norm comes from),    *)
(*  (3) the region counting of the loop expansions for ONE supplied        *)
(*      cluster that spans the whole network.                              *)
(* The model (C13_LocalExp) checks that (2) and (3) imply the reference    *)
(* of C13_Defs for every small state; the trace spec uses (1) only for     *)
(* NOTE:AvailabilityDrift.                                                 *)
(***************************************************************************)
EXTENDS C13_Defs

Classes == {"mps", "mpsc", "peps", "peps3d", "tree", "ring", "loopy"}
Gen(cls)   == cls \in {"tree", "ring", "loopy"}
OneD(cls)  == cls \in {"mps", "mpsc"}

ExpectRoutes ==
  {"local_expectation_exact", "local_expectation_exact_return", "compute_local_expectation_exact",
   "local_expectation_cluster", "local_expectation_cluster_maxbond", "local_expectation_cluster_loopunion",
   "local_expectation_compressed", "compute_local_expectation_compressed",
   "local_expectation_gloop_expand", "local_expectation_gloop_expand_reduced",
   "compute_local_expectation_gloop_expand",
   "local_expectation_gloop_expand_auto", "local_expectation_sloop_expand",
   "local_expectation_canonical", "compute_local_expectation_canonical", "compute_local_expectation_via_envs",
   "expec_TN_1D",
   "peps_compute_local_expectation", "peps_compute_local_expectation_envs",
   "peps3d_compute_local_expectation"}
RdmRoutes ==
  {"partial_trace_exact", "partial_trace_exact_tensor_normalized", "partial_trace_cluster",
   "partial_trace_compressed", "partial_trace_compressed_reduce", "make_reduced_density_matrix",
   "partial_trace_to_dense_canonical", "partial_trace_to_mpo", "peps3d_partial_trace"}
OperatorRoutes == {"operator_trace", "operator_partial_transpose", "mpo_trace", "mpo_partial_transpose"}
NormRoutes == {"peps_compute_norm", "peps_normalize", "norm_gloop_expand"}
Routes == ExpectRoutes \cup RdmRoutes \cup OperatorRoutes \cup NormRoutes

(* ---------------- (1) availability -------------------------------------- *)
\* shape of the request: n sites, given in ascending order of the network's own site order (asc),
\* a single site handed over bare instead of as a 1-tuple (bare), normalized flag, and for PEPS3D
\* whether one of the three lattice lengths is 1 (thin)
ShapeOK(cls, n, asc, bare) ==
  /\ n \in 1..3
  /\ (bare => n = 1)
  /\ (n = 1 => asc)
  /\ (n = 3 => (OneD(cls) \/ cls \in {"tree", "ring"}))

\* the requests for which the statement demands the dense answer or a rejection (everything else is
\* not exercised: methods of another class, approximations by design, options a route does not have)
Exercised(route, cls, n, asc, bare, nrm, thin) ==
  /\ ShapeOK(cls, n, asc, bare)
  /\ (thin => cls = "peps3d")
  /\ CASE route \in {"local_expectation_canonical", "compute_local_expectation_canonical",
                     "compute_local_expectation_via_envs", "partial_trace_to_dense_canonical"} -> OneD(cls)
        [] route = "expec_TN_1D"  -> cls = "mps"                   \* (the driver has no cyclic MPO helper)
        [] route \in {"partial_trace_to_mpo", "mpo_trace", "mpo_partial_transpose"}
             -> OneD(cls) /\ asc /\ ~nrm /\ ~bare                 \* documented to keep ascending order; no normalisation option
        [] route \in {"peps_compute_local_expectation", "peps_compute_local_expectation_envs", "peps_compute_norm", "peps_normalize"}
             -> cls = "peps"
        [] route \in {"peps3d_compute_local_expectation", "peps3d_partial_trace"} -> cls = "peps3d"
        [] route = "compute_local_expectation_compressed" -> Gen(cls)   \* the lattice classes shadow it with their own method
        [] route \in {"partial_trace_compressed", "partial_trace_compressed_reduce"} -> cls # "peps3d"   \* shadowed by PEPS3D.partial_trace
        \* automatically found loop sets are complete on a single loop only (elsewhere: an approximation by design)
        [] route \in {"local_expectation_gloop_expand_auto", "local_expectation_sloop_expand"} -> cls \in {"ring", "mpsc"}
        \* a reduced cluster no longer spans the network: only the normalised value is exact (BP fixed point)
        [] route = "local_expectation_gloop_expand_reduced" -> nrm
        [] route \in {"make_reduced_density_matrix", "operator_trace", "operator_partial_transpose"} -> ~nrm
        [] OTHER -> route \in Routes

\* ... and among those, the ones the code at the pinned commit accepts (the others raise)
Avail(route, cls, n, asc, bare, nrm, thin) ==
  LET tup == ~bare IN
  /\ Exercised(route, cls, n, asc, bare, nrm, thin)
  /\ CASE route \in {"local_expectation_exact", "local_expectation_exact_return", "compute_local_expectation_exact"}
             -> tup                                      \* len(where) is taken of the argument itself
        [] route = "local_expectation_cluster"           -> tup
        [] route = "local_expectation_cluster_maxbond"   -> tup /\ (cls = "peps" \/ Gen(cls))   \* goes through .local_expectation
        [] route = "local_expectation_cluster_loopunion" -> tup /\ cls \notin {"mps", "tree"}   \* needs a loop through the sites
        [] route = "local_expectation_compressed"        -> tup /\ (cls = "peps" \/ Gen(cls))   \* MPS.partial_trace is a renamed stub, PEPS3D.partial_trace has another signature
        [] route = "compute_local_expectation_compressed" -> tup
        [] route \in {"local_expectation_gloop_expand", "local_expectation_gloop_expand_reduced", "compute_local_expectation_gloop_expand",
                      "local_expectation_gloop_expand_auto", "local_expectation_sloop_expand"} -> tup
        [] route = "local_expectation_canonical"         -> cls = "mps"                          \* cyclic: NotImplementedError
        [] route = "compute_local_expectation_canonical" -> cls = "mps" /\ tup
        [] route = "compute_local_expectation_via_envs"  -> tup
        [] route = "expec_TN_1D"                         -> TRUE
        [] route \in {"peps_compute_local_expectation", "peps_compute_local_expectation_envs"}
             -> (n = 1 /\ bare) \/ (n = 2 /\ asc)       \* plaquette map: bare single coordinates and pairs a < b only
        [] route = "peps3d_compute_local_expectation"    -> ~thin
        [] route = "partial_trace_exact"                 -> TRUE
        [] route = "partial_trace_exact_tensor_normalized" -> FALSE   \* Tensor has no multiply_: raises
        [] route = "partial_trace_cluster"               -> tup \/ cls = "peps3d"
        [] route = "partial_trace_compressed"            -> tup /\ (cls = "peps" \/ Gen(cls))
        [] route = "partial_trace_compressed_reduce"     -> tup /\ (cls = "peps" \/ Gen(cls)) /\ n = 2
        [] route = "make_reduced_density_matrix"         -> TRUE
        [] route = "partial_trace_to_dense_canonical"    -> cls = "mps"
        [] route \in {"partial_trace_to_mpo", "mpo_trace", "mpo_partial_transpose"} -> TRUE
        [] route = "peps3d_partial_trace"                -> ~thin
        [] route \in {"operator_trace", "operator_partial_transpose"} -> TRUE   \* make_reduced_density_matrix wraps a bare site
        [] route \in NormRoutes                          -> TRUE
        [] OTHER -> FALSE

(* ---------------- (2) index bookkeeping of the route families ----------- *)
\* the reduced density "matrix" as the code assembles it: ket copy | conjugated bra copy, output
\* axes (k..., b...) fused as rows = k, columns = b.  conjOnKet = the copy that keeps the ket
\* indices is the conjugated one (this is what partial_trace_to_mpo does: self.H keeps "k{}")
RhoImpl(psi, dims, sites, conjOnKet) ==
  LET ns == SiteSize(dims, sites)
      nr == SiteSize(dims, RestOf(dims, sites))
  IN  Let1(OffTable(dims, sites), LAMBDA offS :
      Let1(OffTable(dims, RestOf(dims, sites)), LAMBDA offR :
        LET ket(a, r) == IF conjOnKet THEN GConj(psi[offS[a] + offR[r] + 1]) ELSE psi[offS[a] + offR[r] + 1]
            bra(b, r) == IF conjOnKet THEN psi[offS[b] + offR[r] + 1] ELSE GConj(psi[offS[b] + offR[r] + 1])
        IN  Mat(ns, MkSeq(LAMBDA n : SumG(LAMBDA r : GMul(ket(((n - 1) \div ns) + 1, r), bra(((n - 1) % ns) + 1, r)), 1, nr),
                          1, ns * ns))))

Families == {"rho_tensordot", "trace_G_rho", "rho_G_10", "G_rho_10", "gate_overlap"}

\* contraction of rho with G the way each family writes it; `mut` names a deliberately wrong variant
\* (self-test of the model only)
\*  rho_tensordot : tensordot(rho, G, axes=((k.., b..), (ng.., 0..)))   exact / cluster / loop expansions
\*  trace_G_rho   : trace(G @ rho)                                      1D canonical
\*  rho_G_10      : tensordot(rho, G, ((0, 1), (1, 0)))                 compressed contraction
\*  G_rho_10      : tensordot(G, rho, ((0, 1), (1, 0)))                 PEPS3D
\*  gate_overlap  : ket.gate(G, where) | bra                            1D environments, 2D plaquettes
FamilyNumOf(fam, rho, psi, dims, sites, G, mut) ==
  LET ns  == rho.rows
      E(M, i, j) == MatEntry(M, i, j)
      pairs(F(_, _)) == SumG(LAMBDA n : F(((n - 1) \div ns) + 1, ((n - 1) % ns) + 1), 1, ns * ns)
  IN  CASE fam = "rho_tensordot" -> pairs(LAMBDA k, b : GMul(E(rho, k, b), E(G, b, k)))
        [] fam = "trace_G_rho"   -> pairs(LAMBDA a, b : GMul(E(G, a, b), E(rho, b, a)))
        [] fam = "rho_G_10"      -> pairs(LAMBDA a, b : GMul(E(rho, a, b), E(G, b, a)))
        [] fam = "G_rho_10"      -> IF mut = "axes_not_swapped"
                                    THEN pairs(LAMBDA a, b : GMul(E(G, a, b), E(rho, a, b)))
                                    ELSE pairs(LAMBDA a, b : GMul(E(G, a, b), E(rho, b, a)))
        [] fam = "gate_overlap"  ->
             LET nr == SiteSize(dims, RestOf(dims, sites)) IN
             Let1(OffTable(dims, sites), LAMBDA offS :
             Let1(OffTable(dims, RestOf(dims, sites)), LAMBDA offR :
               \* gated ket: G's column (input) index meets the old physical index
               LET gk(a, r) == SumG(LAMBDA b : GMul(IF mut = "gate_transposed" THEN E(G, b, a) ELSE E(G, a, b),
                                                    psi[offS[b] + offR[r] + 1]), 1, ns)
               IN  SumG(LAMBDA m : LET a == ((m - 1) \div nr) + 1
                                       r == ((m - 1) % nr) + 1
                                   IN  GMul(GConj(psi[offS[a] + offR[r] + 1]), gk(a, r)), 1, ns * nr)))
FamilyNum(fam, psi, dims, sites, G, mut) ==
  Let1(IF fam = "gate_overlap" THEN Mat(SiteSize(dims, sites), <<>>) ELSE RhoImpl(psi, dims, sites, mut = "conj_on_ket"),
       LAMBDA rho : Let1(G, LAMBDA GG : FamilyNumOf(fam, rho, psi, dims, sites, GG, mut)))

\* where the normalisation comes from: the trace of the same rho, or a separately contracted <psi|psi>
FamilyDen(fam, psi, dims, sites, mut) ==
  IF fam = "gate_overlap" THEN Norm2(psi)
  ELSE TraceM(RhoImpl(psi, dims, sites, FALSE))[1]

FamilyOf(route) ==
  CASE route \in {"local_expectation_exact", "local_expectation_exact_return", "compute_local_expectation_exact",
                  "local_expectation_cluster", "local_expectation_cluster_loopunion",
                  "local_expectation_gloop_expand", "local_expectation_gloop_expand_reduced", "compute_local_expectation_gloop_expand",
                  "local_expectation_gloop_expand_auto", "local_expectation_sloop_expand"} -> "rho_tensordot"
    [] route \in {"local_expectation_canonical", "compute_local_expectation_canonical"} -> "trace_G_rho"
    [] route \in {"local_expectation_compressed", "compute_local_expectation_compressed",
                  "local_expectation_cluster_maxbond"} -> "rho_G_10"
    [] route = "peps3d_compute_local_expectation" -> "G_rho_10"
    [] route \in {"compute_local_expectation_via_envs", "expec_TN_1D", "peps_compute_local_expectation",
                  "peps_compute_local_expectation_envs"} -> "gate_overlap"
    [] OTHER -> "none"

(* ---------------- (3) loop expansions with one spanning cluster --------- *)
\* regions handed to gen_region_counts: the base region r0 (the sites of `where`) and the supplied
\* cluster.  C(region) = 1 - sum of the counts of its strict supersets; a region with count 0 is
\* pruned (autoprune), i.e. contributes e^0 = 1 to a product and 0 * e to a sum.
CountSpan == 1
CountR0(r0IsSpan) == IF r0IsSpan THEN 0 ELSE 1 - CountSpan    \* r0 = span is one region, counted once
GPow01(x, c) == IF c = 0 THEN GOne ELSE x
\* combine="prod": prod e_r^C_r (and the norms likewise); combine="sum": sum C_r e_r / n_r.
\* `junk` stands for whatever the small base cluster evaluates to: it must not matter.
LoopCombineNum(eSpan, junk, r0IsSpan, combine, mut) ==
  LET c0 == IF mut = "count_r0" /\ ~r0IsSpan THEN 1 ELSE CountR0(r0IsSpan) IN
  IF r0IsSpan THEN eSpan
  ELSE IF combine = "prod" THEN GMul(GPow01(eSpan, CountSpan), GPow01(junk, c0))
       ELSE GAdd(GScale(CountSpan, eSpan), GScale(c0, junk))
=============================================================================
