SPECIFICATION Spec
CONSTANTS
  Geoms <- GeomsQuick
  Amps <- Amps5
  AmpsL <- Amps3
  Pin = 3
  Mutant = "none"
  PreFix = FALSE
  Emit = FALSE
INVARIANT RouteGivesDense
INVARIANT RdmGivesDense
INVARIANT RdmShape
INVARIANT OperatorGivesDense
INVARIANT Laws
INVARIANT OpsDiscriminate
INVARIANT TableSane
INVARIANT RouteGivesDenseStmt
CHECK_DEADLOCK FALSE
