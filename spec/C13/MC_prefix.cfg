SPECIFICATION Spec
CONSTANTS
  Geoms <- GeomsTiny
  Amps <- Amps2
  AmpsL <- Amps2
  Pin = 2
  Mutant = "none"
  PreFix = TRUE
  Emit = FALSE
INVARIANT RdmGivesDense
CHECK_DEADLOCK FALSE
