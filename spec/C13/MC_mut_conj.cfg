SPECIFICATION Spec
CONSTANTS
  Geoms <- GeomsTiny
  Amps <- Amps2
  AmpsL <- Amps2
  Pin = 2
  Mutant = "conj_on_ket"
  PreFix = FALSE
  Emit = FALSE
INVARIANT RdmGivesDense
CHECK_DEADLOCK FALSE
