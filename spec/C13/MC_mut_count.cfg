SPECIFICATION Spec
CONSTANTS
  Geoms <- GeomsTiny
  Amps <- Amps2
  AmpsL <- Amps2
  Pin = 2
  Mutant = "count_r0"
  PreFix = FALSE
  Emit = FALSE
INVARIANT RouteGivesDense
CHECK_DEADLOCK FALSE
