SPECIFICATION Spec
CONSTANTS
  Geoms <- GeomsTiny
  Amps <- Amps2
  AmpsL <- Amps2
  Pin = 2
  Mutant = "axes_not_swapped"
  PreFix = FALSE
  Emit = FALSE
INVARIANT RouteGivesDense
CHECK_DEADLOCK FALSE
