------------------------------ MODULE C13_Defs ------------------------------
(***************************************************************************)
(* C13 - every route to a local expectation or reduced state gives the     *)
(* dense answer.  Reference definitions (no variables), written from the   *)
(* property statement:                                                     *)
(*                                                                         *)
(*   psi   : the dense state, a sequence of Gaussian integers <<re, im>> in *)
(*           C order over the subsystem sizes `dims` (last site fastest)   *)
(*   sites : ordered tuple of 1-based positions into dims                  *)
(*   G     : operator on the subsystems `sites` as a matrix                *)
(*           [rows, cols, data]; its FIRST factor acts on sites[1]         *)
(*                                                                         *)
(*   <psi| Embed(G, dims, sites) |psi> / <psi|psi>   is kept as the exact   *)
(*   pair (numerator : Gaussian integer, denominator : positive integer).  *)
(*   RDM(psi, dims, sites)[a, b] = sum_rest psi[a, rest] conj(psi[b, rest])*)
(*   with a, b numbered in the ORDER OF `sites` (first site slowest).      *)
(***************************************************************************)
EXTENDS LTensor

(* ---------------- index arithmetic -------------------------------------- *)
Stride(dims, p)    == ProdI(dims, p + 1, Len(dims))
SubDims(dims, pos) == [k \in DOMAIN pos |-> dims[pos[k]]]
RestOf(dims, sites) == SelectSeq([k \in 1..Len(dims) |-> k], LAMBDA k : k \notin SeqRange(sites))
\* 0-based offset into psi contributed by configuration number c of the subsystems `pos`
Off(dims, pos, c) ==
  LET sd == SubDims(dims, pos)
  IN  SumI(LAMBDA k : Digit(c, sd, k) * Stride(dims, pos[k]), 1, Len(pos))

SitesOK(dims, sites) ==
  /\ Len(sites) >= 1
  /\ \A k \in DOMAIN sites : sites[k] \in 1..Len(dims)
  /\ \A j, k \in DOMAIN sites : j # k => sites[j] # sites[k]

Mat(n, data) == [rows |-> n, cols |-> n, data |-> data]
SiteSize(dims, sites) == Size(SubDims(dims, sites))

(* ---------------- the reference values ---------------------------------- *)
Den(psi) == Norm2(psi)

\* the statement itself: <psi| Embed(G) |psi>   (quadratic in the total dimension)
ExpNumStmt(psi, dims, sites, G) == Inner(psi, EmbedVec(G, dims, sites, psi))

\* (TLC evaluates LET definitions and function constructors lazily and, in state-level formulas, again
\* at every use: offset tables are therefore built as explicit tuples and bound through a singleton set)
RECURSIVE MkSeq(_, _, _)
MkSeq(F(_), lo, hi) == IF lo > hi THEN <<>>
                       ELSE IF lo = hi THEN <<F(lo)>>
                       ELSE LET mid == (lo + hi) \div 2 IN MkSeq(F, lo, mid) \o MkSeq(F, mid + 1, hi)
Let1(v, F(_)) == CHOOSE r \in {F(y) : y \in {v}} : TRUE
OffTable(dims, pos) == MkSeq(LAMBDA c : Off(dims, pos, c - 1), 1, SiteSize(dims, pos))

\* reduced density matrix in the requested site order, rows = ket index
RDM(psi, dims, sites) ==
  LET ns == SiteSize(dims, sites)
      nr == SiteSize(dims, RestOf(dims, sites))
  IN  Let1(OffTable(dims, sites), LAMBDA offS :
      Let1(OffTable(dims, RestOf(dims, sites)), LAMBDA offR :
        Mat(ns, MkSeq(LAMBDA n :
                 LET a == ((n - 1) \div ns) + 1
                     b == ((n - 1) % ns) + 1
                 IN  SumG(LAMBDA r : GMul(psi[offS[a] + offR[r] + 1], GConj(psi[offS[b] + offR[r] + 1])), 1, nr),
                 1, ns * ns))))

TraceM(M) == SumG(LAMBDA i : MatEntry(M, i, i), 1, M.rows)
\* Tr(A B)
TrProd(A, B) ==
  SumG(LAMBDA n : LET i == ((n - 1) \div A.cols) + 1
                      j == ((n - 1) % A.cols) + 1
                  IN  GMul(MatEntry(A, i, j), MatEntry(B, j, i)), 1, A.rows * A.cols)
\* the same number through the reduced state (linear in the total dimension): Tr(G rho)
ExpNum(rho, G) == TrProd(G, rho)

IsHermitian(M) == \A i, j \in 1..M.rows : i <= j => MatEntry(M, i, j) = GConj(MatEntry(M, j, i))
ConjM(M) == [M EXCEPT !.data = [k \in DOMAIN M.data |-> GConj(M.data[k])]]

Kron(A, B) ==
  [rows |-> A.rows * B.rows, cols |-> A.cols * B.cols,
   data |-> [n \in 1..(A.rows * B.rows * A.cols * B.cols) |->
              LET r == (n - 1) \div (A.cols * B.cols)
                  c == (n - 1) % (A.cols * B.cols)
              IN  GMul(MatEntry(A, (r \div B.rows) + 1, (c \div B.cols) + 1),
                       MatEntry(B, (r % B.rows) + 1, (c % B.cols) + 1))]]

(* ---------------- site-order covariance --------------------------------- *)
\* p is a permutation of 1..k;  sites o p  is the tuple  [i |-> sites[p[i]]]
ComposeSites(sites, p) == [i \in DOMAIN p |-> sites[p[i]]]
InvPerm(p) == [j \in DOMAIN p |-> CHOOSE i \in DOMAIN p : p[i] = j]
\* c numbers a configuration in the radix [i |-> sd[p[i]]]; the same configuration numbered in the radix sd
PermCfg(c, sd, p) ==
  LET sdp == [i \in DOMAIN p |-> sd[p[i]]]
      ip  == InvPerm(p)
  IN  Flat([j \in DOMAIN sd |-> Digit(c, sdp, ip[j])], sd)
\* a matrix over subsystems sd re-expressed over the subsystems in the order p
PermuteM(M, sd, p) ==
  Mat(M.rows, [n \in 1..(M.rows * M.cols) |->
                 MatEntry(M, PermCfg((n - 1) \div M.cols, sd, p) + 1, PermCfg((n - 1) % M.cols, sd, p) + 1)])
Perms(k) == {p \in [1..k -> 1..k] : \A i, j \in 1..k : i # j => p[i] # p[j]}

(* ---------------- partial transpose on a subset of the kept subsystems -- *)
MixCfg(a, b, sd, sys) ==
  Flat([j \in DOMAIN sd |-> IF j \in sys THEN Digit(b, sd, j) ELSE Digit(a, sd, j)], sd)
PTranspose(M, sd, sys) ==
  Mat(M.rows, [n \in 1..(M.rows * M.cols) |->
                 LET a == (n - 1) \div M.cols
                     b == (n - 1) % M.cols
                 IN  MatEntry(M, MixCfg(a, b, sd, sys) + 1, MixCfg(b, a, sd, sys) + 1)])

(* ---------------- the laws TLC checks on every small state -------------- *)
LawHermitian(psi, dims, sites)  == IsHermitian(RDM(psi, dims, sites))
LawTrace(psi, dims, sites)      == TraceM(RDM(psi, dims, sites)) = <<Den(psi), 0>>
LawTraceForm(psi, dims, sites, G) == ExpNum(RDM(psi, dims, sites), G) = ExpNumStmt(psi, dims, sites, G)
LawOrder(psi, dims, sites, p) ==
  RDM(psi, dims, ComposeSites(sites, p)) = PermuteM(RDM(psi, dims, sites), SubDims(dims, sites), p)
\* (through the reduced state: LawTraceForm ties that form to the statement for every tuple)
LawOrderExp(psi, dims, sites, p, G) ==
  ExpNum(RDM(psi, dims, ComposeSites(sites, p)), PermuteM(G, SubDims(dims, sites), p)) = ExpNum(RDM(psi, dims, sites), G)
\* tracing a kept subsystem out of a reduced state gives the smaller reduced state
LawNested(psi, dims, sites) ==
  Len(sites) >= 2 =>
    LET big == RDM(psi, dims, sites)
        sd  == SubDims(dims, sites)
        d1  == sd[1]
        nr  == big.rows \div d1
    IN  RDM(psi, dims, <<sites[1]>>) =
          Mat(d1, [n \in 1..(d1 * d1) |->
                     SumG(LAMBDA r : MatEntry(big, ((n - 1) \div d1) * nr + r, ((n - 1) % d1) * nr + r), 1, nr)])
=============================================================================
