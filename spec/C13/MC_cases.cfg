SPECIFICATION Spec
CONSTANTS
  Geoms <- GeomsTiny
  Amps <- Amps2
  AmpsL <- Amps2
  Pin = 2
  Mutant = "none"
  ExemptKnown = TRUE
  Emit = TRUE
INVARIANT TableSane
CHECK_DEADLOCK FALSE
