SPECIFICATION SpecCases
CONSTANTS
  Geoms <- GeomsTiny
  Amps <- Amps4
  AmpsL <- Amps2
  Pin = 2
  Mutant = "none"
  ExemptKnown = TRUE
  Emit = TRUE
INVARIANT TableSane
CHECK_DEADLOCK FALSE
