SPECIFICATION SpecCases
CONSTANTS
  Geoms <- GeomsTiny
  Amps <- Amps4
  AmpsL <- Amps2
  Pin = 2
  Mutant = "none"
  PreFix = FALSE
  Emit = TRUE
INVARIANT TableSane
CHECK_DEADLOCK FALSE
