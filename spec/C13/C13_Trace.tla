----------------------------- MODULE C13_Trace -----------------------------
(***************************************************************************)
(* Trace spec for C13.  A trace starts with a `new` record carrying the    *)
(* exact dense state of one network (Gaussian integers, computed by the    *)
(* driver with plain numpy from the public tensor data) - TLC keeps it as  *)
(* the state of the trace and checks the recorded norm.  Every later       *)
(* record is what ONE public route returned for one request (ordered site  *)
(* tuple, operator, normalisation flag): the value multiplied by <psi|psi> *)
(* when normalised (so that it must be a Gaussian integer), the raw value  *)
(* otherwise.  TLC recomputes the reference of C13_Defs and compares.      *)
(* An exception is an observation: the route was unavailable for this      *)
(* request - never a violation; only NOTE:AvailabilityDrift compares it    *)
(* with the transcribed table of C13_Routes.                               *)
(***************************************************************************)
EXTENDS C13_Routes, TraceIO

VARIABLES l, fails, psi, dims, den, meta, cache
tvars == <<l, fails, psi, dims, den, meta, cache>>

NoCache == [sites |-> <<>>, rdm |-> Mat(0, <<>>)]

Returned(ln) == ln.exc = ""
Judged(ln)   == ln.exc = "" /\ ln.ongrid

WellFormed(ln) ==
  /\ SitesOK(dims, ln.sites)
  /\ Len(psi) = Size(dims)

\* what the table of C13_Routes says about this request
TableSays(ln) == Avail(ln.route, meta.cls, Len(ln.sites), ln.asc, ln.bare, ln.nrm, meta.thin)
\* the driver only asks what the model lists as exercised
Asked(ln) == Exercised(ln.route, meta.cls, Len(ln.sites), ln.asc, ln.bare, ln.nrm, meta.thin)

(* ---- clauses, one group per event kind ---- *)
NewClauses(ln) ==
  << <<"StateWellFormed", /\ Len(ln.psi) = Size(ln.dims)
                          /\ ln.den = Den(ln.psi)
                          /\ ln.den > 0
                          /\ ln.cls \in Classes>> >>

\* ln.val = value * <psi|psi> (normalised) or the value itself (unnormalised): both must be the numerator
ExpectClauses(ln, rho) ==
  LET ns == SiteSize(dims, ln.sites)
      G  == Mat(ns, ln.G)
      ok == WellFormed(ln) /\ Len(ln.G) = ns * ns
  IN
  << <<"RecordWellFormed", ok>>,
     <<"OnGrid", Returned(ln) => ln.ongrid>>,
     <<"ExpectationExact", (ok /\ Judged(ln)) =>
          /\ ln.val = ExpNum(rho, G)
          \* for small total dimension also against the statement itself, <psi|Embed(G)|psi>
          /\ (Size(dims) <= 8 => ln.val = ExpNumStmt(psi, dims, ln.sites, G))>>,
     <<"NOTE:AvailabilityDrift", ok => (Returned(ln) <=> TableSays(ln))>> >>

\* ln.mat = rho * <psi|psi> (normalised) or rho itself (unnormalised), rows = ket, in the order of ln.sites
RdmClauses(ln, rho) ==
  LET ns == SiteSize(dims, ln.sites)
      M  == Mat(ns, ln.mat)
      ok == WellFormed(ln) /\ (Judged(ln) => Len(ln.mat) = ns * ns)
  IN
  << <<"RecordWellFormed", WellFormed(ln)>>,
     <<"OnGrid", Returned(ln) => ln.ongrid>>,
     <<"RdmShape", (WellFormed(ln) /\ Judged(ln)) => Len(ln.mat) = ns * ns>>,
     <<"RdmExact", (ok /\ Judged(ln)) => ln.mat = rho.data>>,
     <<"RdmHermitian", (ok /\ Judged(ln)) => (IsHermitian(M) /\ ln.hq = 0)>>,
     \* normalised: trace one; unnormalised: trace <psi|psi>; a separately returned norm factor is <psi|psi>
     <<"RdmNormalization", (ok /\ Judged(ln)) => /\ TraceM(M) = <<den, 0>>
                                                 /\ (ln.has_nf => ln.nf = <<den, 0>>)>>,
     <<"NOTE:AvailabilityDrift", WellFormed(ln) => (Returned(ln) <=> TableSays(ln))>> >>

\* one call with several terms, summed by the route: the sum of the numerators
ExpectSumClauses(ln) ==
  LET okT(t) == SitesOK(dims, t.sites) /\ Len(t.G) = SiteSize(dims, t.sites) * SiteSize(dims, t.sites)
      ok == Len(psi) = Size(dims) /\ \A k \in DOMAIN ln.terms : okT(ln.terms[k])
      num(t) == ExpNum(RDM(psi, dims, t.sites), Mat(SiteSize(dims, t.sites), t.G))
  IN
  << <<"RecordWellFormed", ok>>,
     <<"OnGrid", Returned(ln) => ln.ongrid>>,
     <<"ExpectationSumExact", (ok /\ Judged(ln)) => ln.val = SumG(LAMBDA k : num(ln.terms[k]), 1, Len(ln.terms))>> >>

OpTraceClauses(ln, rho) ==
  << <<"RecordWellFormed", WellFormed(ln)>>,
     <<"OnGrid", Returned(ln) => ln.ongrid>>,
     <<"OperatorTraceExact", (WellFormed(ln) /\ Judged(ln)) => (ln.val = <<den, 0>> /\ ln.val = TraceM(rho))>>,
     <<"NOTE:AvailabilityDrift", WellFormed(ln) => (Returned(ln) <=> TableSays(ln))>> >>

OpTransposeClauses(ln, rho) ==
  LET ns == SiteSize(dims, ln.sites)
      sd == SubDims(dims, ln.sites)
      ok == WellFormed(ln) /\ SeqRange(ln.sys) \subseteq DOMAIN ln.sites /\ (Judged(ln) => Len(ln.mat) = ns * ns)
  IN
  << <<"RecordWellFormed", ok>>,
     <<"OnGrid", Returned(ln) => ln.ongrid>>,
     <<"PartialTransposeExact", (ok /\ Judged(ln)) => ln.mat = PTranspose(rho, sd, SeqRange(ln.sys)).data>>,
     <<"NOTE:AvailabilityDrift", WellFormed(ln) => (Returned(ln) <=> TableSays(ln))>> >>

\* <psi|psi> through a norm route
NormClauses(ln) ==
  << <<"OnGrid", Returned(ln) => ln.ongrid>>,
     <<"NormExact", Judged(ln) => ln.val = <<den, 0>>>>,
     <<"NOTE:AvailabilityDrift", Returned(ln) <=> Avail(ln.route, meta.cls, 1, TRUE, FALSE, TRUE, meta.thin)>> >>

\* a normalised copy: unit norm and proportional to the original with a positive factor (quantised relations)
NormalizeClauses(ln) ==
  << <<"NormalizedUnit", Returned(ln) => ln.n2q = 0>>,
     <<"NormalizedProportional", Returned(ln) => ln.propq = 0>>,
     <<"NOTE:AvailabilityDrift", Returned(ln) <=> Avail(ln.route, meta.cls, 1, TRUE, FALSE, TRUE, meta.thin)>> >>

HasSites(ln) == ln.ev \in {"expect", "rdm", "optrace", "optranspose"}

Clauses(ln, rho) ==
  CASE ln.ev = "new"         -> NewClauses(ln)
    [] ln.ev = "expect"      -> ExpectClauses(ln, rho)
    [] ln.ev = "expectsum"   -> ExpectSumClauses(ln)
    [] ln.ev = "rdm"         -> RdmClauses(ln, rho)
    [] ln.ev = "optrace"     -> OpTraceClauses(ln, rho)
    [] ln.ev = "optranspose" -> OpTransposeClauses(ln, rho)
    [] ln.ev = "norm"        -> NormClauses(ln)
    [] ln.ev = "normalize"   -> NormalizeClauses(ln)
    [] OTHER                 -> << <<"UnknownEvent", FALSE>> >>

TInit == /\ l = 1 /\ fails = <<>> /\ psi = <<>> /\ dims = <<>> /\ den = 0
         /\ meta = [cls |-> "", thin |-> FALSE] /\ cache = NoCache

TNext ==
  /\ l <= NLines
  /\ l' = l + 1
  /\ LET ln == TraceLog[l] IN
     IF ln.ev = "new"
     THEN /\ psi' = ln.psi /\ dims' = ln.dims /\ den' = ln.den
          /\ meta' = [cls |-> ln.cls, thin |-> ln.thin]
          /\ cache' = NoCache
          /\ fails' = AddFails(fails, l, Clauses(ln, NoCache.rdm))
     ELSE IF HasSites(ln)
     THEN \* the reference reduced state of this ordered tuple: computed once, reused while the tuple stays
          \E rho \in {IF cache.sites = ln.sites THEN cache.rdm
                      ELSE IF WellFormed(ln) THEN RDM(psi, dims, ln.sites) ELSE NoCache.rdm} :
            /\ cache' = [sites |-> ln.sites, rdm |-> rho]
            /\ fails' = AddFails(fails, l, Clauses(ln, rho))
            /\ UNCHANGED <<psi, dims, den, meta>>
     ELSE /\ fails' = AddFails(fails, l, Clauses(ln, NoCache.rdm))
          /\ UNCHANGED <<psi, dims, den, meta, cache>>
TSpec == TInit /\ [][TNext]_tvars

Done == l = NLines + 1 => WriteVerdict(l - 1, fails)
=============================================================================
