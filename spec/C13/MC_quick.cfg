SPECIFICATION Spec
CONSTANTS
  Geoms <- GeomsQuick
  Amps <- Amps4
  AmpsL <- Amps2
  Pin = 3
  Mutant = "none"
  ExemptKnown = TRUE
  Emit = FALSE
INVARIANT RouteGivesDense
INVARIANT RdmGivesDense
INVARIANT RdmShape
INVARIANT OperatorGivesDense
INVARIANT Laws
INVARIANT OpsDiscriminate
INVARIANT TableSane
CHECK_DEADLOCK FALSE
