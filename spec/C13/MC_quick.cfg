SPECIFICATION Spec
CONSTANTS
  Geoms <- GeomsQuick
  Amps <- Amps3z
  AmpsL <- Amps2
  Pin = 4
  Mutant = "none"
  PreFix = FALSE
  Emit = FALSE
INVARIANT RouteGivesDense
INVARIANT RdmGivesDense
INVARIANT RdmShape
INVARIANT OperatorGivesDense
INVARIANT Laws
INVARIANT OpsDiscriminate
INVARIANT TableSane
CHECK_DEADLOCK FALSE
