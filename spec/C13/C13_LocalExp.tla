---------------------------- MODULE C13_LocalExp ----------------------------
(***************************************************************************)
(* State machine of C13.  One behaviour = one small exact state psi (every *)
(* function from the basis to a small set of Gaussian-integer amplitudes)  *)
(* and one request: a route family, an ordered site tuple, an operator     *)
(* (non-symmetric, complex; full or a product of distinct one-site         *)
(* factors) and the normalisation flag.  The action computes what the      *)
(* route family computes (C13_Routes: a transcription of the index         *)
(* bookkeeping of the code); the invariants say that this is the dense     *)
(* answer of C13_Defs, and that the reference itself obeys the laws the    *)
(* property states (Hermitian, trace = norm, site-order covariance,        *)
(* Tr(G rho) = <psi|Embed(G)|psi>).                                        *)
(* A second, psi-independent part enumerates the availability table        *)
(* (geometry class x route x shape of the request) and prints it for the   *)
(* driver (S->C).                                                          *)
(***************************************************************************)
EXTENDS C13_Routes, Json

CONSTANTS Geoms,      \* set of subsystem-size tuples, e.g. {<<2,2>>, <<2,2,2>>}
          Amps,       \* set of amplitudes (Gaussian integers) for total dimension <= 4
          AmpsL,      \* set of amplitudes for larger total dimension
          Pin,        \* number of leading amplitudes pinned to the first amplitude for total dimension > 4
          Mutant,     \* "none", or the name of a deliberately wrong variant (self-test: must violate)
          PreFix,     \* TRUE: partial_trace_to_mpo as before the "fix:" commit b933ce2a (conjugate on the ket copy) - self-test only
          Emit        \* TRUE: print the availability cases as JSON (run with one worker)

VARIABLES psi, dims, st,
          ref        \* ref[s] = RDM(psi, dims, s), the reference reduced state of every ordered tuple (set in Init)
vars == <<psi, dims, st, ref>>

\* deterministic non-symmetric complex operators of any size; v = 1, 2 give different matrices
GenOp(n, v) ==
  Mat(n, [m \in 1..(n * n) |->
            LET i == (m - 1) \div n
                j == (m - 1) % n
            IN  <<((3 * i + 5 * j + v) % 5) - 2, ((2 * i + j * j + i * j + v) % 3) - 1>>])
\* "full": one matrix on the whole tuple; "prod": Kronecker product of distinct one-site factors,
\* the first factor belonging to sites[1]
RECURSIVE KronAll(_, _)
KronAll(sd, k) == IF k = Len(sd) THEN GenOp(sd[k], k) ELSE Kron(GenOp(sd[k], k), KronAll(sd, k + 1))
OpFor(sd, kind) == IF kind = "full" THEN GenOp(Size(sd), 1) ELSE KronAll(sd, 1)
OpKinds == {"full", "prod"}

\* ordered tuples of distinct positions of size <= 3
SiteTuples(d) ==
  LET P == 1..Len(d) IN
  {<<a>> : a \in P} \cup {t \in {<<a, b>> : a \in P, b \in P} : t[1] # t[2]}
  \cup {t \in {<<a, b, c>> : a \in P, b \in P, c \in P} : t[1] # t[2] /\ t[1] # t[3] /\ t[2] # t[3]}

AmpSeq == SetToSeqL(AmpsL)

Init ==
  /\ dims \in Geoms
  /\ psi \in [1..Size(dims) -> IF Size(dims) <= 4 THEN Amps ELSE AmpsL]
  /\ Den(psi) > 0
  /\ Size(dims) > 4 => \A i \in 1..Pin : psi[i] = AmpSeq[1]
  /\ st = [ph |-> "init"]
  /\ ref = [s \in SiteTuples(dims) |-> RDM(psi, dims, s)]

(* ---------------- requests through the route families ------------------- *)
Value(fam, sites, kind) ==
  /\ st.ph = "init"
  /\ LET G == OpFor(SubDims(dims, sites), kind) IN
     st' = [ph |-> "value", fam |-> fam, sites |-> sites, kind |-> kind,
            num |-> FamilyNum(fam, psi, dims, sites, G, Mutant),
            den |-> FamilyDen(fam, psi, dims, sites, Mutant)]
  /\ UNCHANGED <<psi, dims, ref>>

ViaRhoTensordot == \E s \in SiteTuples(dims), k \in OpKinds : Value("rho_tensordot", s, k)
ViaTraceGRho    == \E s \in SiteTuples(dims), k \in OpKinds : Value("trace_G_rho", s, k)
ViaRhoG10       == \E s \in SiteTuples(dims), k \in OpKinds : Value("rho_G_10", s, k)
ViaGRho10       == \E s \in SiteTuples(dims), k \in OpKinds : Value("G_rho_10", s, k)
ViaGateOverlap  == \E s \in SiteTuples(dims), k \in OpKinds : Value("gate_overlap", s, k)

\* loop expansion with one spanning cluster: the base region's value is irrelevant junk
ViaLoopExpansion ==
  /\ st.ph = "init"
  /\ \E s \in SiteTuples(dims), k \in OpKinds, comb \in {"prod", "sum"}, junk \in {<<7, 3>>} :
       LET G == OpFor(SubDims(dims, s), k)
           e == FamilyNum("rho_tensordot", psi, dims, s, G, Mutant)
       IN  st' = [ph |-> "value", fam |-> "loop", sites |-> s, kind |-> k, comb |-> comb,
                  num |-> LoopCombineNum(e, junk, Len(s) = Len(dims), comb, Mutant),
                  den |-> FamilyDen("rho_tensordot", psi, dims, s, Mutant)]
  /\ UNCHANGED <<psi, dims, ref>>

(* ---------------- reduced density matrices ------------------------------ *)
\* the routes that return rho itself; toMpo = partial_trace_to_mpo, which before its fix put the conjugate
\* on the copy that keeps the ket indices
RdmRoute ==
  /\ st.ph = "init"
  /\ \E s \in SiteTuples(dims), toMpo \in BOOLEAN :
       st' = [ph |-> "rdm", sites |-> s, toMpo |-> toMpo,
              mat |-> RhoImpl(psi, dims, s, (toMpo /\ PreFix) \/ Mutant = "conj_on_ket")]
  /\ UNCHANGED <<psi, dims, ref>>

\* the reduced state in operator form: trace joins upper with lower; partial transpose swaps them on sysa
OperatorRoute ==
  /\ st.ph = "init"
  /\ \E s \in {t \in SiteTuples(dims) : Len(t) <= 2 \/ t = <<1, 2, 3>>} : \E sys \in SUBSET (1..Len(s)) :
       LET sd == SubDims(dims, s) IN
       st' = Let1(RhoImpl(psi, dims, s, FALSE), LAMBDA rho :
             \* reindex upper<->lower on sysa = entry (a, b) reads the old entry with the sysa digits exchanged
             Let1(Mat(rho.rows, MkSeq(LAMBDA n : LET a == (n - 1) \div rho.rows
                                                    b == (n - 1) % rho.rows
                                                IN  MatEntry(rho, MixCfg(a, b, sd, sys) + 1, MixCfg(b, a, sd, sys) + 1),
                                      1, rho.rows * rho.rows)),
                  LAMBDA pt : [ph |-> "op", sites |-> s, sys |-> sys, tr |-> TraceM(pt), mat |-> pt]))
  /\ UNCHANGED <<psi, dims, ref>>

(* ---------------- the availability table (psi-independent) -------------- *)
FirstState == psi = [i \in 1..Size(dims) |-> AmpSeq[1]] /\ Size(dims) > 4 /\ dims = CHOOSE d \in Geoms : Size(d) > 4 /\ \A e \in Geoms : Size(e) > 4 => Size(d) <= Size(e)
TableCase ==
  /\ st.ph = "init" /\ FirstState
  /\ \E cls \in Classes, route \in Routes, n \in 1..3, asc \in BOOLEAN, bare \in BOOLEAN, nrm \in BOOLEAN, thin \in BOOLEAN :
       /\ Exercised(route, cls, n, asc, bare, nrm, thin)
       /\ st' = [ph |-> "case", cls |-> cls, route |-> route, n |-> n, asc |-> asc, bare |-> bare, nrm |-> nrm,
                 thin |-> thin, avail |-> Avail(route, cls, n, asc, bare, nrm, thin)]
       /\ (Emit => PrintT(<<"QVJSON", ToJson(st')>>))
  /\ UNCHANGED <<psi, dims, ref>>

\* the enumerated states themselves, for the driver to realise as real networks (S->C)
EmitState ==
  /\ Emit /\ st.ph = "init"
  /\ PrintT(<<"QVJSON", ToJson([ph |-> "state", dims |-> dims, psi |-> psi, den |-> Den(psi)])>>)
  /\ UNCHANGED vars

Next == ViaRhoTensordot \/ ViaTraceGRho \/ ViaRhoG10 \/ ViaGRho10 \/ ViaGateOverlap \/ ViaLoopExpansion
        \/ RdmRoute \/ OperatorRoute \/ TableCase
Spec == Init /\ [][Next]_vars
\* only the psi-independent table and the list of states (what MC_cases.cfg runs, one worker)
SpecCases == Init /\ [][TableCase \/ EmitState]_vars

(* ---------------- invariants -------------------------------------------- *)
\* the implementation-shaped value is the dense answer: numerator and denominator.  The reference is
\* taken through the reduced state (linear cost); invariant Laws (LawTraceForm) shows on the initial
\* state of the same psi that this form IS the statement <psi|Embed(G)|psi> for every tuple and operator.
RouteGivesDense ==
  st.ph = "value" =>
    /\ st.num = ExpNum(ref[st.sites], OpFor(SubDims(dims, st.sites), st.kind))
    /\ st.den = Den(psi)
\* the same against the statement itself (quadratic cost: used in the small configurations)
RouteGivesDenseStmt ==
  st.ph = "value" => st.num = ExpNumStmt(psi, dims, st.sites, OpFor(SubDims(dims, st.sites), st.kind))

RdmGivesDense ==
  st.ph = "rdm" => st.mat = ref[st.sites]
RdmShape ==
  st.ph = "rdm" => /\ IsHermitian(st.mat)
                   /\ TraceM(st.mat) = <<Den(psi), 0>>

OperatorGivesDense ==
  st.ph = "op" =>
    /\ st.mat = PTranspose(ref[st.sites], SubDims(dims, st.sites), st.sys)
    /\ st.tr = <<Den(psi), 0>>            \* a partial transpose keeps the trace
    /\ IsHermitian(st.mat)

\* laws of the reference itself, on every enumerated state (ref[s] is RDM(psi, dims, s) by Init)
Laws ==
  st.ph = "init" =>
    \A s \in SiteTuples(dims) :
      LET sd == SubDims(dims, s) IN
      /\ IsHermitian(ref[s])
      /\ TraceM(ref[s]) = <<Den(psi), 0>>
      /\ LawNested(psi, dims, s)
      /\ \A k \in OpKinds : ExpNum(ref[s], OpFor(sd, k)) = ExpNumStmt(psi, dims, s, OpFor(sd, k))
      /\ \A p \in Perms(Len(s)) :
           /\ ref[ComposeSites(s, p)] = PermuteM(ref[s], sd, p)
           /\ ExpNum(ref[ComposeSites(s, p)], PermuteM(OpFor(sd, "full"), sd, p)) = ExpNum(ref[s], OpFor(sd, "full"))

\* the operators used really are non-symmetric, non-Hermitian and complex (otherwise conventions cancel)
OpsDiscriminate ==
  st.ph = "init" =>
    \A s \in SiteTuples(dims) : \A k \in OpKinds :
      LET G == OpFor(SubDims(dims, s), k) IN
      /\ G # Transpose(G) /\ G # Dagger(G) /\ G # ConjM(G)

\* sanity of the table: every class can be asked every ordered tuple of size <= 2 through some
\* expectation route and some reduced-density-matrix route, in both normalisations
TableSane ==
  st.ph = "case" =>
    /\ (st.avail => st.route \in Routes)
    /\ (st.route \in ExpectRoutes /\ st.avail => FamilyOf(st.route) \in Families)
    /\ (st.avail => Exercised(st.route, st.cls, st.n, st.asc, st.bare, st.nrm, st.thin))
    /\ (st.n <= 2 /\ ~st.bare =>
          /\ \E r \in ExpectRoutes : Avail(r, st.cls, st.n, st.asc, FALSE, st.nrm, st.thin)
          /\ \E r \in RdmRoutes : Avail(r, st.cls, st.n, st.asc, FALSE, st.nrm, st.thin))
=============================================================================
