----------------------------- MODULE C04_Trace -----------------------------
(***************************************************************************)
(* Trace spec for C04.  `new` carries a network with Gaussian-integer data  *)
(* and an integer stored exponent; TLC computes its dense tensor over the   *)
(* outer labels once (LTensor!Denote) and keeps it.  Every `rewrite` record *)
(* is the observation of the network after one representation-changing      *)
(* operation, densified with plain numpy over the same labels: it must be   *)
(* the same tensor over the same outer labels, and the promised form must   *)
(* hold (measured with numpy by the driver, judged here).                   *)
(***************************************************************************)
EXTENDS LTensor, TraceIO

VARIABLES l, fails, val, outer
tvars == <<l, fails, val, outer>>

Scaled(seq, p) == [k \in DOMAIN seq |-> GScale(Pow10(p), seq[k])]
AllTrue(s) == \A k \in DOMAIN s : s[k]

RewriteClauses(ln, v, o) ==
  << <<"Returns", ln.exc = "">>,
     <<"OnGrid", ln.exc = "" => ln.ongrid>>,
     \* (when an outer label is gone there is nothing to compare the dense form over: OuterSame reports it)
     <<"ValuePreserved", (ln.exc = "" /\ ln.ongrid /\ ~Has(ln, "missing")) => ln.result = v>>,
     <<"OuterSame", (ln.exc = "" /\ ~(Has(ln, "missing") /\ ln.missing_all_size1)) => SeqRange(ln.outer_after) = o>>,
     \* the special case "only outer labels of size one were dropped" is reported under its own name (KF-C04-1)
     <<"OuterSame.SizeOneOuterDropped", (ln.exc = "" /\ Has(ln, "missing") /\ ln.missing_all_size1) => SeqRange(ln.outer_after) = o>>,
     \* every tensor that carries a left_inds claim is measured isometric
     <<"IsoClaimSound", ln.exc = "" => AllTrue(ln.claims_ok)>>,
     \* promised forms, present only for the rewrites that promise them
     <<"BondNotLarger", (ln.exc = "" /\ Has(ln, "bond_before")) => ln.bond_after <= ln.bond_before>>,
     <<"CanonicalRegion", (ln.exc = "" /\ Has(ln, "region_ok")) => ln.region_ok>>,
     <<"NormsEqual", (ln.exc = "" /\ Has(ln, "norms_equal")) => ln.norms_equal>>,
     <<"NoHyperLeft", (ln.exc = "" /\ Has(ln, "hyper_after")) => ln.hyper_after = 0>>,
     <<"SingleBonds", (ln.exc = "" /\ Has(ln, "multibonds_after")) => ln.multibonds_after = 0>> >>

Clauses(ln, v, o) ==
  CASE ln.ev = "new"     -> << <<"SizesConsistent", SizesConsistent(ln.net)>> >>
    [] ln.ev = "rewrite" -> RewriteClauses(ln, v, o)
    \* isometrize / unitize (value changing on purpose): every tensor that carries a left_inds claim afterwards is an
    \* isometry from those labels to the rest, whatever the method
    [] ln.ev = "form"    -> << <<"Returns", ln.exc = "">>,
                              <<"IsoClaimSound", ln.exc = "" => AllTrue(ln.claims_ok)>>,
                              <<"FormClaimed", ln.exc = "" => ln.nclaims >= 1>> >>
    [] OTHER             -> << <<"UnknownEvent", FALSE>> >>

TInit == l = 1 /\ fails = <<>> /\ val = <<>> /\ outer = {}
TNext == /\ l <= NLines
         /\ LET ln == TraceLog[l]
                isnew == ln.ev = "new"
                v == IF isnew THEN Scaled(Denote(ln.net, ln.out), ln.exp10 + ln.scale) ELSE val
                o == IF isnew THEN SeqRange(ln.out) ELSE outer IN
            /\ fails' = AddFails(fails, l, Clauses(ln, v, o))
            /\ val' = v /\ outer' = o
         /\ l' = l + 1
TSpec == TInit /\ [][TNext]_tvars
Done == l = NLines + 1 => WriteVerdict(l - 1, fails)
=============================================================================
