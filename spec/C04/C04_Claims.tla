------------------------------ MODULE C04_Claims ------------------------------
(***************************************************************************)
(* C04 - implementation-shaped model of the two pieces of bookkeeping that *)
(* the representation-changing rewrites of quimb rely on:                  *)
(*  (1) the life-cycle of a tensor's `left_inds` claim ("this tensor is an *)
(*      isometry from these labels") through every Tensor method that      *)
(*      keeps, maps or resets it (tensor_core.py at the pinned commit);    *)
(*  (2) gauge freedom on a bond: a rewrite may multiply one end of a bond  *)
(*      by X and must multiply the other end by X^-1 (tracked as integer   *)
(*      exponents of one abstract gauge factor per bond end) and may move  *)
(*      scalar weight between tensors and the stored exponent.             *)
(* Invariants: ClaimSound (a claimed tensor is isometric), GaugeBalanced   *)
(* (the product over each bond of the inserted factors is the identity),   *)
(* ScalePreserved.  The numeric statement (same dense tensor over the same *)
(* outer labels) is checked on the real code by C04_Trace with Denote.     *)
(***************************************************************************)
EXTENDS Integers, FiniteSets, TLC

CONSTANTS Tens,        \* tensor ids, arranged on a ring: bond b joins Tens-th b and b+1
          MaxDepth,
          NormalizeKeepsClaim   \* TRUE: Tensor.normalize as at the pinned commit (keeps left_inds
                                \*       although it rescales) - self-test configuration, must fail

N == Cardinality(Tens)
Bonds == 0..N-1                       \* bond b joins tensor b and tensor (b+1) % N
Left(b) == b
Right(b) == (b + 1) % N

VARIABLES claim,   \* claim[t] \in {"none", "toR", "toL"}: left_inds claim pointing away from bond side
          iso,     \* iso[t]  \in {"none", "toR", "toL"}: ground truth - which isometry t really is
          unit,    \* unit[t]: TRUE iff the tensor has not been rescaled since it was made isometric
          gL, gR,  \* gL[b], gR[b]: exponent of the abstract gauge factor X_b absorbed into the left/right end
          sc, E,   \* scalar powers of ten carried by tensors / the stored exponent
          depth
vars == <<claim, iso, unit, gL, gR, sc, E, depth>>

RECURSIVE Sum(_, _)
Sum(S, f) == IF S = {} THEN 0 ELSE LET x == CHOOSE y \in S : TRUE IN f[x] + Sum(S \ {x}, f)

Init == /\ claim = [t \in 0..N-1 |-> "none"] /\ iso = [t \in 0..N-1 |-> "none"]
        /\ unit = [t \in 0..N-1 |-> TRUE]
        /\ gL = [b \in Bonds |-> 0] /\ gR = [b \in Bonds |-> 0]
        /\ sc = [t \in 0..N-1 |-> 0] /\ E = 0 /\ depth = 0

Step == depth < MaxDepth /\ depth' = depth + 1

\* tensor_canonize_bond(ta, tb, absorb='right') over bond b: ta = Q (isometry towards b, claim set),
\* R is absorbed into tb (data modified: claim reset); gauge X = R on the right, X^-1 on the left
CanonizeBond(b, toRight) ==
  LET src == IF toRight THEN Left(b) ELSE Right(b)
      dst == IF toRight THEN Right(b) ELSE Left(b)
      dir == IF toRight THEN "toR" ELSE "toL" IN
  /\ Step /\ src # dst
  /\ claim' = [claim EXCEPT ![src] = dir, ![dst] = "none"]
  /\ iso'   = [iso   EXCEPT ![src] = dir, ![dst] = "none"]
  /\ unit'  = [unit  EXCEPT ![src] = TRUE]
  /\ gL' = [gL EXCEPT ![b] = @ + (IF toRight THEN -1 ELSE 1)]
  /\ gR' = [gR EXCEPT ![b] = @ + (IF toRight THEN 1 ELSE -1)]
  /\ UNCHANGED <<sc, E>>

\* insert_gauge(U, where1, where2, Uinv) / gauge_simple_insert / balance_bonds: X and X^-1 on the two ends
InsertGauge(b) ==
  /\ Step
  /\ gL' = [gL EXCEPT ![b] = @ + 1] /\ gR' = [gR EXCEPT ![b] = @ - 1]
  /\ claim' = [claim EXCEPT ![Left(b)] = "none", ![Right(b)] = "none"]      \* modify(data=...) resets left_inds
  /\ iso'   = [iso   EXCEPT ![Left(b)] = "none", ![Right(b)] = "none"]
  /\ UNCHANGED <<unit, sc, E>>

\* t.conj(), t.reindex(), t.transpose(): keep the claim, keep the truth
KeepOp(t) == Step /\ UNCHANGED <<claim, iso, unit, gL, gR, sc, E>>

\* t.modify(apply=f) / t *= x / tn.strip_exponent(t): data rescaled, claim reset
Rescale(t, k) ==
  /\ Step
  /\ claim' = [claim EXCEPT ![t] = "none"] /\ iso' = [iso EXCEPT ![t] = "none"]
  /\ unit' = [unit EXCEPT ![t] = FALSE]
  /\ sc' = [sc EXCEPT ![t] = @ - k] /\ E' = E + k
  /\ UNCHANGED <<gL, gR>>

\* t.normalize_(): divides by the Frobenius norm.  As at the pinned commit it passes left_inds on.
Normalize(t, k) ==
  /\ Step /\ k # 0
  /\ iso' = [iso EXCEPT ![t] = "none"] /\ unit' = [unit EXCEPT ![t] = FALSE]
  /\ claim' = IF NormalizeKeepsClaim THEN claim ELSE [claim EXCEPT ![t] = "none"]
  /\ sc' = [sc EXCEPT ![t] = @ - k] /\ E' = E      \* (normalize changes the value on purpose; not a C04 rewrite)
  /\ UNCHANGED <<gL, gR>>

\* tn.isometrize_(): every tensor with a claim is replaced by the nearest isometry
Isometrize(t) ==
  /\ Step /\ claim[t] # "none"
  /\ iso' = [iso EXCEPT ![t] = claim[t]] /\ unit' = [unit EXCEPT ![t] = TRUE]
  /\ UNCHANGED <<claim, gL, gR, sc, E>>

\* equalize_norms / distribute_exponent: strip every tensor then spread the exponent again
Equalize ==
  /\ Step
  /\ claim' = [t \in DOMAIN claim |-> "none"] /\ iso' = [t \in DOMAIN iso |-> "none"]
  /\ unit' = [t \in DOMAIN unit |-> FALSE]
  /\ \E k \in {-1, 0, 1} : sc' = [t \in DOMAIN sc |-> sc[t] + k] /\ E' = E + Sum(DOMAIN sc, sc) - Sum(DOMAIN sc, [t \in DOMAIN sc |-> sc[t] + k])
  /\ UNCHANGED <<gL, gR>>

Next ==
  \/ \E b \in Bonds, d \in BOOLEAN : CanonizeBond(b, d)
  \/ \E b \in Bonds : InsertGauge(b)
  \/ \E t \in 0..N-1 : KeepOp(t)
  \/ \E t \in 0..N-1, k \in {-1, 1} : Rescale(t, k)
  \/ \E t \in 0..N-1, k \in {-1, 1} : Normalize(t, k)
  \/ \E t \in 0..N-1 : Isometrize(t)
  \/ Equalize
Spec == Init /\ [][Next]_vars

ClaimSound     == \A t \in 0..N-1 : claim[t] # "none" => iso[t] = claim[t]
GaugeBalanced  == \A b \in Bonds : gL[b] + gR[b] = 0
ScalePreserved == Sum(DOMAIN sc, sc) + E = 0 \/ \E t \in 0..N-1 : ~unit[t]   \* (Normalize changes the value by design)
=============================================================================
