SPECIFICATION Spec
CONSTANTS
  Tens = {"A", "B", "C"}
  MaxDepth = 5
  NormalizeKeepsClaim = FALSE
INVARIANT ClaimSound
INVARIANT GaugeBalanced
CHECK_DEADLOCK FALSE
