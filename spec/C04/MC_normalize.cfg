SPECIFICATION Spec
CONSTANTS
  Tens = {"A", "B", "C"}
  MaxDepth = 3
  NormalizeKeepsClaim = TRUE
INVARIANT ClaimSound
INVARIANT GaugeBalanced
CHECK_DEADLOCK FALSE
