----------------------------- MODULE C12_Trace -----------------------------
(***************************************************************************)
(* Trace spec for C12.                                                     *)
(*  new      : a network with Gaussian-integer data (flat, or the ket of a  *)
(*             layered bra/ket norm network) and its edge list; TLC computes*)
(*             the exact value Z once (LTensor!Denote) and keeps it.        *)
(*  run      : one call of a compressed contraction scheme starts           *)
(*             (the exact bond size needed so far, `need`, is reset).       *)
(*  handover : an intermediate boundary is handed over (end of one boundary *)
(*             step / coarse graining step / tree step): the blocks of      *)
(*             sites merged into the boundary tensors and the measured      *)
(*             sizes of the bonds the scheme has compressed; optionally the *)
(*             value of the whole network at that moment.                   *)
(*  compress : one pairwise compression observed through a callback.        *)
(*  return   : the scheme returned (value snapped to the integer lattice).  *)
(*  env      : one stored environment: the atoms (site, layer) its tensors  *)
(*             carry, the number of dangling labels and the value of        *)
(*             (env | excluded part).                                       *)
(* The hypothesis "the bond cap is at least the exact bond size" is computed*)
(* here, from the recorded geometry: need = max Cross(edges, A, B) over the *)
(* bonds the scheme compressed so far in this run.                          *)
(***************************************************************************)
EXTENDS C12_Defs, TraceIO

VARIABLES l, fails, Z, geo, need
tvars == <<l, fails, Z, geo, need>>

\* a run in which the scheme produced non-finite numbers (an exactly singular bond met a pseudo-inverse while no
\* cutoff is applied) is numerically degenerate input: recorded, counted, not judged
Degenerate(ln) == Has(ln, "degenerate")
Untruncated(ln, nd) == ln.cutoff0 /\ ln.cap >= nd /\ ~Degenerate(ln)

\* bonds: the bonds between neighbouring boundary groups; wbonds: the wrap-around bonds of a periodic direction along
\* the boundary.  The graph based schemes compress the wrap-around bond like any other, the 1D schemes produce an open
\* boundary and route it through every bond of the chain ("long range bonds are handled by inserting identities"),
\* the 'mps' sweep leaves it alone: the exact bond size of a periodic boundary is taken as the size the open chain
\* needs (the product), and the wrap-around bond does not count for CapRespected.
\* nbonds (when recorded): the bonds from the boundary to the rest of the network, which compress_late=False also
\* compresses when they exceed the cap: they count for the hypothesis as well.
HandNeed(ln, g) == MaxI(Need(g.edges, ln.blocks, ln.bonds) * MaxI(1, Need(g.edges, ln.blocks, ln.wbonds)),
                        IF Has(ln, "nbonds") THEN Need(g.edges, ln.blocks, ln.nbonds) ELSE 0)

HandClauses(ln, z, g, nd) ==
  << <<"CapRespected", WithinCap(ln.bonds, ln.cap)>>,
     <<"BoundaryPartition", BlocksDisjoint(IF Has(ln, "nbound") THEN SubSeq(ln.blocks, 1, ln.nbound) ELSE ln.blocks)>>,
     <<"ExactWhenUntruncated", (Has(ln, "value") /\ Untruncated(ln, nd)) => (ln.ongrid /\ Close(ln.value, z))>> >>

CompressClauses(ln) ==
  << <<"CapRespected", ln.post <= ln.cap>>,
     <<"NeverGrows", ln.post <= ln.pre>> >>

ReturnClauses(ln, z, nd) ==
  << <<"Returns", ln.exc = "" \/ Degenerate(ln)>>,
     <<"ExactWhenUntruncated", (ln.exc = "" /\ Untruncated(ln, nd)) => (ln.ongrid /\ Close(ln.result, z))>>,
     \* contraction around a region: the region's tensors are untouched and every listed side reached it
     \* (under truncation compress_late=False also compresses the bonds between the boundary and the region)
     <<"TargetUntouched", (ln.exc = "" /\ Has(ln, "hug")) =>
                             (NotPastRegion(ln.hug.pos, ln.hug.t, ln.hug.nst) /\ (Untruncated(ln, nd) => ln.target_intact))>>,
     <<"AroundHugs", (ln.exc = "" /\ Has(ln, "hug")) => HugsRegion(ln.hug.sides, ln.hug.pos, ln.hug.t, 1)>>,
     \* implementation-shaped model (C12_Approx / C12_Tree) against the observation: drift is a NOTE
     <<"NOTE:ModelSteps", (ln.exc = "" /\ Has(ln, "model_steps")) => ln.steps = ln.model_steps>>,
     <<"NOTE:ModelNeed", (ln.exc = "" /\ Has(ln, "model_need")) => nd = ln.model_need>> >>

EnvClaim(ln, g) ==
  IF ln.kind = "plaq" THEN PlaqClaim(ln.i0, ln.j0, ln.xb, ln.yb, g.Lx, g.Ly)
  ELSE LineClaim(ln.side, ln.idx, g.Lx, g.Ly)

EnvClauses(ln, z, g, nd) ==
  << <<"Returns", ln.exc = "">>,
     <<"EnvCovers", ln.exc = "" => CoversExactly(ln.cover, AtomsOf(EnvClaim(ln, g), g.nl))>>,
     <<"EnvConsistent", ln.exc = "" => (ln.dangling = 0 /\ (Untruncated(ln, nd) => (ln.ongrid /\ Close(ln.closedval, z))))>>,
     <<"CapRespected", ln.exc = "" => WithinCap(ln.bonds, ln.cap)>> >>

Clauses(ln, z, g, nd) ==
  CASE ln.ev = "new"      -> << <<"SizesConsistent", SizesConsistent(ln.net)>> >>
    [] ln.ev = "run"      -> << >>
    [] ln.ev = "handover" -> HandClauses(ln, z, g, nd)
    [] ln.ev = "compress" -> CompressClauses(ln)
    [] ln.ev = "return"   -> ReturnClauses(ln, z, nd)
    [] ln.ev = "env"      -> EnvClauses(ln, z, g, nd)
    [] OTHER              -> << <<"UnknownEvent", FALSE>> >>

NoGeo == [edges |-> <<>>, Lx |-> 0, Ly |-> 0, nl |-> 1]

TInit == l = 1 /\ fails = <<>> /\ Z = GZero /\ geo = NoGeo /\ need = 0
TNext == /\ l <= NLines
         /\ LET ln == TraceLog[l]
                isnew == ln.ev = "new"
                z == IF isnew THEN ExactValue(ln.net, ln.layered, ln.out) ELSE Z
                g == IF isnew THEN [edges |-> ln.edges, Lx |-> ln.Lx, Ly |-> ln.Ly, nl |-> ln.nl] ELSE geo
                nd == CASE ln.ev = "run" \/ isnew -> 0
                        [] ln.ev = "handover"     -> MaxI(need, HandNeed(ln, g))
                        [] ln.ev = "compress"     -> MaxI(need, Cross(g.edges, SeqRange(ln.a), SeqRange(ln.b)))
                        [] OTHER                  -> need IN
            /\ fails' = AddFails(fails, l, Clauses(ln, z, g, nd))
            /\ Z' = z /\ geo' = g /\ need' = nd
         /\ l' = l + 1
TSpec == TInit /\ [][TNext]_tvars
Done == l = NLines + 1 => WriteVerdict(l - 1, fails)
=============================================================================
