SPECIFICATION Spec
CONSTANTS
  Graphs <- GraphsQuick
  Caps = {1, 2, 4, 8}
  Lates = {TRUE, FALSE}
  Spans = {0, 1, 2}
  StrictGreater = TRUE
  Emit = FALSE
INVARIANT FullIsCross
INVARIANT CapRespected
INVARIANT ExactWhenUntruncated
INVARIANT WholeCovered

CHECK_DEADLOCK FALSE
