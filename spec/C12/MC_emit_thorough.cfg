SPECIFICATION Spec
CONSTANTS
  Sizes <- SizesThorough
  Ds = {2}
  Layerings <- LayAll
  Caps = {16}
  Modes <- ModesAll
  Seqs <- SeqsQuick
  MaxSeps = {0, 1}
  Tasks <- TasksAll
  EnvShift = 0
  SkipLastBond = FALSE
  DropInnerTag = TRUE
  Targets <- TargetsThorough
  CrossedBound = FALSE
  StoreByRef = FALSE
  Emit = TRUE
INVARIANT WholeCovered
INVARIANT CapRespected
INVARIANT ExactWhenUntruncated
INVARIANT NeedIsCross
INVARIANT EnvConsistent
INVARIANT SelectUnique
INVARIANT AroundOK
INVARIANT EmitJson
CHECK_DEADLOCK FALSE
