------------------------------- MODULE MC_C12 -------------------------------
EXTENDS C12_Approx

SizesQuick    == {<<2, 3>>, <<3, 3>>, <<4, 2>>}
SizesThorough == {<<2, 2>>, <<2, 3>>, <<3, 2>>, <<3, 3>>, <<4, 2>>, <<2, 4>>, <<3, 4>>, <<4, 3>>}
SizesTiny     == {<<3, 3>>, <<4, 2>>}

SeqsQuick ==
  {<<"xmin">>, <<"ymax">>, <<"xmin", "xmax">>, <<"ymax", "ymin">>, <<"xmin", "xmax", "ymin", "ymax">>}
SeqsThorough ==
  SeqsQuick \cup {<<"xmax">>, <<"ymin">>, <<"ymax", "ymin", "xmax", "xmin">>,
                  <<"xmax", "xmin">>, <<"ymin", "ymax">>, <<"ymin", "xmin">>, <<"xmax", "ymax">>, <<"xmin", "ymax">>,
                  <<"ymin", "xmax", "xmin">>, <<"ymin", "ymax", "xmin", "xmax">>}
SeqsTiny == {<<"xmin">>, <<"ymax">>, <<"xmin", "xmax", "ymin", "ymax">>}

ModesAll == {"late", "early", "via1d", "proj", "fullbond"}
LayAll   == {"flat", "all", "kb", "bk"}
TasksAll == {"contract", "around", "envs"}
CapsQuick    == {1, 4, 16}
CapsThorough == {1, 4, 9, 16, 81}
=============================================================================
