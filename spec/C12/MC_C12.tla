------------------------------- MODULE MC_C12 -------------------------------
EXTENDS C12_Approx

SizesQuick    == {<<2, 3>>, <<3, 3>>, <<4, 2>>}
SizesThorough == {<<2, 2>>, <<2, 3>>, <<3, 2>>, <<3, 3>>, <<4, 2>>, <<2, 4>>, <<3, 4>>, <<4, 3>>}
SizesTiny     == {<<3, 3>>, <<4, 2>>}

SeqsQuick ==
  {<<"xmin">>, <<"ymax">>, <<"xmin", "xmax">>, <<"ymax", "ymin">>, <<"xmin", "xmax", "ymin", "ymax">>}
SeqsThorough ==
  SeqsQuick \cup {<<"xmax">>, <<"ymin">>, <<"ymax", "ymin", "xmax", "xmin">>,
                  <<"xmax", "xmin">>, <<"ymin", "ymax">>, <<"ymin", "xmin">>, <<"xmax", "ymax">>, <<"xmin", "ymax">>,
                  <<"ymin", "xmax", "xmin">>, <<"ymin", "ymax", "xmin", "xmax">>}
SeqsTiny == {<<"xmin">>, <<"ymax">>, <<"xmin", "xmax", "ymin", "ymax">>}

TargetsQuick    == {<<0, 0, 0, 0>>, <<1, 1, 1, 1>>, <<0, 0, 2, 2>>, <<1, 1, 0, 0>>}
TargetsThorough == TargetsQuick \cup {<<0, 0, 1, 1>>, <<0, 1, 1, 1>>, <<1, 1, 1, 2>>}
\* lattices on which a target can lie strictly inside, with every single site and some rectangles
SizesAround   == {<<4, 4>>, <<3, 4>>, <<4, 3>>}
TargetsAround == {<<0, 0, 0, 0>>} \cup {<<i, i, j, j>> : i \in 0..3, j \in 0..3} \cup
                 {<<1, 2, 1, 1>>, <<1, 1, 1, 2>>, <<2, 2, 0, 1>>, <<0, 1, 2, 2>>, <<1, 2, 2, 3>>, <<2, 3, 1, 1>>}
SeqsAround == {<<"xmin", "xmax", "ymin", "ymax">>, <<"ymax", "ymin", "xmax", "xmin">>, <<"ymin", "ymax", "xmin", "xmax">>,
               <<"ymax", "xmin">>, <<"xmin", "xmax">>, <<"ymax", "ymin">>, <<"ymax">>, <<"xmax", "ymax", "ymin">>}

ModesAll == {"late", "early", "via1d", "proj", "fullbond"}
LayAll   == {"flat", "all", "kb", "bk"}
TasksAll == {"contract", "around", "envs"}
CapsQuick    == {1, 4, 16}
CapsThorough == {1, 4, 9, 16, 81}
=============================================================================
