SPECIFICATION Spec
CONSTANTS
  Graphs <- GraphsEmit
  Caps = {1}
  Lates = {TRUE, FALSE}
  Spans = {0, 1, 2}
  StrictGreater = TRUE
  Emit = TRUE
INVARIANT FullIsCross
INVARIANT CapRespected
INVARIANT ExactWhenUntruncated
INVARIANT WholeCovered
INVARIANT EmitJson
CHECK_DEADLOCK FALSE
