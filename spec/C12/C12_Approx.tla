------------------------------ MODULE C12_Approx ------------------------------
(***************************************************************************)
(* C12 - implementation-shaped model of the boundary contraction sweeps of *)
(* quimb/tensor/tn2d/core.py at the pinned commit, at the level of tags and *)
(* blocks:                                                                 *)
(*   a tensor is [a: the lattice atoms <<i, j, layer>> merged into it,      *)
(*                t: its site tags <<i, j>>, id: object identity];          *)
(*   cur[{A, B}] is the present size of the bond between two tensors;       *)
(*   the code addresses tensors by tags only, so do the actions here.       *)
(* Transcribed: _contract_interleaved_boundary_sequence (queue of           *)
(* directions, boundaries, separations, _is_finished, max_separation,       *)
(* max_unfinished, around), contract_boundary_from_ = one step over two     *)
(* lines in the modes  late  (_contract_boundary_core, compress_late=True), *)
(* early (compress_late=False), via1d (_contract_boundary_core_via_1d),     *)
(* proj (_contract_boundary_projector), fullbond                            *)
(* (_contract_boundary_full_bond), the layer_tags handling (merge the outer *)
(* site, contract one inner layer, drop the inner site tag unless last      *)
(* layer), compress_plane (merge all tensors of a site tag, then compress   *)
(* the pair), and compute_environments (which boundary is stored under      *)
(* which key, as copies since the fix of former KF-C12-1).                   *)
(* Property-level invariants: CapRespected (at every hand-over every bond   *)
(* of the boundary line is within the cap), ExactWhenUntruncated            *)
(* (cap >= exact bond size => nothing was discarded), EnvConsistent (a      *)
(* stored environment covers exactly the lines before its key, and has not  *)
(* been modified in place afterwards), plus NeedIsCross (the exact bond     *)
(* size of the block model is D^(layers * lines merged): the reference      *)
(* definition used by the Trace spec) and SelectUnique (no tag selection of *)
(* the code is ambiguous).                                                 *)
(***************************************************************************)
EXTENDS Integers, Sequences, FiniteSets, TLC, Json

CONSTANTS Sizes,        \* set of <<Lx, Ly>>
          Ds,           \* bond sizes (uniform per lattice)
          Layerings,    \* subset of {"flat", "all", "kb", "bk"}: one layer / two layers without, with layer_tags
          Caps, Modes, Seqs, MaxSeps, Tasks,
          EnvShift,     \* 0 = pinned commit; 1 = environment stored under the next key (self-test, must fail)
          SkipLastBond, \* FALSE = pinned commit; TRUE = last bond of a line left uncompressed (self-test)
          DropInnerTag, \* TRUE = pinned commit; FALSE = inner site tag kept between layers (self-test)
          Targets,      \* rectangles <<x0, x1, y0, y1>> for `around` (<<0, 0, 0, 0>> must be a member: used by the other tasks)
          CrossedBound, \* FALSE = the code: every side is stopped by its own target bound; TRUE = the stop test of "ymax"
                        \*         uses the target's largest row index (self-test, must fail)
          StoreByRef,   \* FALSE = current code: compute_environments stores copies (tn.select(..., virtual=False));
                        \* TRUE  = code before "fix: compute_environments stores copies of the boundary, not views"
                        \*         (former KF-C12-1): views are stored and the projector mode relabels them in place
                        \*         (self-test, must fail)
          Emit          \* print the explored cases (S->C replay)

VARIABLES cfg, pc, tens, cur, lost, need, err, bnd, queue, step, lay, kpos, envs, stale, hist, done, nid, ei
vars == <<cfg, pc, tens, cur, lost, need, err, bnd, queue, step, lay, kpos, envs, stale, hist, done, nid, ei>>

MinI(a, b) == IF a < b THEN a ELSE b
MaxI(a, b) == IF a > b THEN a ELSE b
RECURSIVE PowI(_, _)
PowI(b, e) == IF e <= 0 THEN 1 ELSE b * PowI(b, e - 1)

(* ----------------------------- geometry -------------------------------- *)
NL(ly) == IF ly = "flat" THEN 1 ELSE 2
LT(ly) == CASE ly = "kb" -> <<1, 2>> [] ly = "bk" -> <<2, 1>> [] OTHER -> <<0>>     \* 0: layer_tags = None
Atoms(c) == {<<i, j, q>> : i \in 0..c.Lx-1, j \in 0..c.Ly-1, q \in 1..NL(c.ly)}
LatAdj(x, y) == x[3] = y[3] /\ ((x[1] = y[1] /\ (x[2] - y[2]) \in {1, -1}) \/ (x[2] = y[2] /\ (x[1] - y[1]) \in {1, -1}))
PhysAdj(x, y) == x[1] = y[1] /\ x[2] = y[2] /\ x[3] # y[3]
NLat(A, B) == Cardinality({p \in A \X B : LatAdj(p[1], p[2])})
NPhys(A, B) == Cardinality({p \in A \X B : PhysAdj(p[1], p[2])})
Connected(A, B) == \E x \in A, y \in B : LatAdj(x, y) \/ PhysAdj(x, y)
\* untruncated size of the bond between two blocks of atoms: every lattice bond that crosses (physical legs: size 2)
Full(c, A, B) == PowI(c.D, NLat(A, B)) * PowI(2, NPhys(A, B))
\* the part of it that consists of lattice bonds (what the boundary compression is about)
FullLat(c, A, B) == PowI(c.D, NLat(A, B))

Axis(d) == IF d \in {"xmin", "xmax"} THEN "x" ELSE "y"
IsMin(d) == d \in {"xmin", "ymin"}

(* ----------------------------- network operations ---------------------- *)
Cur(A, B) == IF {A, B} \in DOMAIN cur THEN cur[{A, B}] ELSE 1
WithAny(ts, tags) == {T \in ts : T.t \cap tags # {}}
WithAll(ts, tags) == {T \in ts : tags \subseteq T.t}
HasLayer(T, q) == \E x \in T.a : x[3] = q          \* the layer tag KET / BRA is never dropped: derived from the atoms

\* a network state as a record, so that the steps can be written as pure functions
NS == [tens |-> tens, cur |-> cur, lost |-> lost, need |-> need, err |-> err, nid |-> nid, stale |-> stale]

RECURSIVE ProdOver(_, _, _)
ProdOver(ns, Sa, X) ==
  IF Sa = {} THEN 1
  ELSE LET A == CHOOSE A \in Sa : TRUE
           c == IF {A, X} \in DOMAIN ns.cur THEN ns.cur[{A, X}] ELSE 1
       IN  c * ProdOver(ns, Sa \ {A}, X)

\* contract the tensors S into one new object (union of atoms and of tags)
Merge(ns, S, droptags) ==
  IF Cardinality(S) = 0 THEN ns
  ELSE IF Cardinality(S) = 1 /\ droptags = {} THEN ns
  ELSE
  LET N    == [a |-> UNION {T.a : T \in S}, t |-> (UNION {T.t : T \in S}) \ droptags, id |-> ns.nid]
      rest == ns.tens \ S
      Sa   == {T.a : T \in S}
      newp == {{N.a, X.a} : X \in {X \in rest : Connected(N.a, X.a)}}
      oldp == {p \in DOMAIN ns.cur : p \cap Sa = {}}
  IN  [ns EXCEPT !.tens = rest \cup {N}, !.nid = @ + 1,
                 !.cur = [p \in oldp \cup newp |->
                            IF p \in oldp THEN ns.cur[p]
                            ELSE LET X == CHOOSE x \in p : x # N.a IN ProdOver(ns, Sa, X)]]

\* compress the bond between the tensors with atoms A and B; `always` = compress whatever the size
\* (tensor_compress_bond with max_bond), otherwise only when larger than the cap (bonds_size > max_bond)
CompressPair(ns, c, A, B, always) ==
  IF {A, B} \notin DOMAIN ns.cur THEN ns
  ELSE LET s == ns.cur[{A, B}] IN
       IF ~always /\ s <= c.cap THEN [ns EXCEPT !.need = MaxI(@, FullLat(c, A, B))]
       ELSE [ns EXCEPT !.cur = [@ EXCEPT ![{A, B}] = MinI(s, c.cap)],
                       !.lost = @ \/ s > c.cap,
                       !.need = MaxI(@, FullLat(c, A, B))]

\* an in-place modification of existing tensor objects: every stored environment that refers to one of them goes stale
Touch(ns, S) ==
  [ns EXCEPT !.stale = @ \cup {k \in DOMAIN envs : envs[k].ids \cap {T.id : T \in S} # {}}]

Flag(ns) == [ns EXCEPT !.err = TRUE]

(* ----------------------------- one step: contraction of line `outer` into line `inner` ---------- *)
Site(st, i, j) == IF Axis(st.side) = "x" THEN <<i, j>> ELSE <<j, i>>      \* Rotator2D
Tag1(st, j) == Site(st, st.outer, j)
Tag2(st, j) == Site(st, st.inner, j)

\* contraction of one site pair for layer tag q (0 = None) in _contract_boundary_core
ContractSite(ns, c, st, j, q, lastlayer) ==
  LET t1 == Tag1(st, j)  t2 == Tag2(st, j) IN
  IF WithAll(ns.tens, {t1}) = {} \/ WithAll(ns.tens, {t2}) = {} THEN ns        \* "allow completely missing sites"
  ELSE IF q = 0 \/ Cardinality(WithAll(ns.tens, {t2})) = 1
  THEN Merge(ns, WithAny(ns.tens, {t1, t2}), {})                                \* contract_((tag1, tag2), which="any")
  ELSE LET ns1 == IF Cardinality(WithAll(ns.tens, {t1})) > 1 THEN Merge(ns, WithAll(ns.tens, {t1}), {}) ELSE ns   \* self ^= tag1
           o   == WithAll(ns1.tens, {t1})
           inn == {T \in WithAll(ns1.tens, {t2}) : HasLayer(T, q)}               \* (tag2, layer_tag), which="all"
       IN  IF Cardinality(o) # 1 \/ Cardinality(inn) # 1 THEN Flag(ns1)          \* contract_between needs single tensors
           ELSE Merge(ns1, o \cup inn, IF ~lastlayer /\ DropInnerTag THEN {t2} ELSE {})

\* compress_late = False: bonds of the new boundary tensor to all its neighbours, if larger than the cap
RECURSIVE CompressAll(_, _, _, _)
CompressAll(ns, c, A, Xs) ==
  IF Xs = {} THEN ns
  ELSE LET X == CHOOSE X \in Xs : TRUE IN CompressAll(CompressPair(ns, c, A, X, FALSE), c, A, Xs \ {X})
EarlyCompress(ns, c, st, j) ==
  LET o == WithAll(ns.tens, {Tag1(st, j)}) IN
  IF Cardinality(o) # 1 THEN ns
  ELSE LET A == (CHOOSE T \in o : TRUE).a
           Xs == {X.a : X \in {X \in ns.tens : {A, X.a} \in DOMAIN ns.cur}} IN
       CompressAll(Touch(ns, {X \in ns.tens : {A, X.a} \in DOMAIN ns.cur /\ ns.cur[{A, X.a}] > c.cap}), c, A, Xs)

\* via1d: every tensor that gets the temporary site tag of column j is contracted into the site of the 1D compression
Via1dGroup(ns, st, j, q) ==
  IF q = 0 THEN WithAny(ns.tens, {Tag1(st, j), Tag2(st, j)})
  ELSE WithAll(ns.tens, {Tag1(st, j)}) \cup {T \in WithAll(ns.tens, {Tag2(st, j)}) : HasLayer(T, q)}

RECURSIVE AbsorbFrom(_, _, _, _, _, _)
AbsorbFrom(ns, c, st, j, q, lastlayer) ==
  IF j > st.hi THEN ns
  ELSE LET ns1 == CASE c.mode \in {"late", "early", "fullbond"} -> ContractSite(ns, c, st, j, IF c.mode = "fullbond" THEN 0 ELSE q, lastlayer)
                    [] c.mode = "via1d" -> Merge(ns, Via1dGroup(ns, st, j, q), {})
                    [] c.mode = "proj"  -> Merge(ns, WithAny(ns.tens, {Tag1(st, j), Tag2(st, j)}), {})
           ns2 == IF c.mode = "early" THEN EarlyCompress(ns1, c, st, j) ELSE ns1
       IN  AbsorbFrom(ns2, c, st, j + 1, q, lastlayer)

\* the projector mode first relabels, in place, the tensors of both lines (insert_compressor_between_regions(insert_into=self))
ProjTouch(ns, c, st) ==
  IF c.mode = "proj" /\ st.hi > st.lo
  THEN Touch(ns, UNION {WithAny(ns.tens, {Tag1(st, j), Tag2(st, j)}) : j \in st.lo..st.hi})
  ELSE ns

\* compression of the bond between the sites j, j+1 of the boundary line (compress_plane / 1D compression / projectors)
CompressBond(ns, c, st, j) ==
  LET ta == Tag1(st, j)  tb == Tag1(st, j + 1)
      ns1 == IF Cardinality(WithAll(ns.tens, {ta})) > 1 THEN Merge(ns, WithAll(ns.tens, {ta}), {}) ELSE ns     \* self ^= tag_a
      ns2 == IF Cardinality(WithAll(ns1.tens, {tb})) > 1 THEN Merge(ns1, WithAll(ns1.tens, {tb}), {}) ELSE ns1
      sa == WithAll(ns2.tens, {ta})  sb == WithAll(ns2.tens, {tb}) IN
  IF sa = {} \/ sb = {} THEN ns2                       \* "skip if none"
  ELSE IF Cardinality(sa) # 1 \/ Cardinality(sb) # 1 THEN Flag(ns2)
  ELSE CompressPair(ns2, c, (CHOOSE T \in sa : TRUE).a, (CHOOSE T \in sb : TRUE).a, c.mode # "fullbond")

\* via1d: "maybe compress the initial row, which may be multiple layers": done when a site of the outer line holds
\* more than one tensor (tensor_network_1d_compress contracts every site and compresses the line)
RECURSIVE CompressLine(_, _, _, _)
CompressLine(ns, c, st, j) == IF j >= st.hi THEN ns ELSE CompressLine(CompressBond(ns, c, st, j), c, st, j + 1)
Via1dInitial(ns, c, st) ==
  IF c.mode = "via1d" /\ \E j \in st.lo..st.hi : Cardinality(WithAll(ns.tens, {Tag1(st, j)})) > 1
  THEN CompressLine(ns, c, st, st.lo) ELSE ns

(* ----------------------------- the driver loops ------------------------ *)
Sep(b, ax) == IF ax = "x" THEN b.xmax - b.xmin ELSE b.ymax - b.ymin
\* target_check of _contract_interleaved_boundary_sequence: each side against its own bound of the target rectangle
TargetOK(c, d, b) ==
  CASE d = "xmin" -> b.xmin >= c.target[1] - 1
    [] d = "xmax" -> b.xmax <= c.target[2] + 1
    [] d = "ymin" -> b.ymin >= c.target[3] - 1
    [] d = "ymax" -> b.ymax <= (IF CrossedBound THEN c.target[2] ELSE c.target[4]) + 1
\* the reference: the boundary of side d is next to (or was already inside) the region
OwnReached(c, d, b) ==
  CASE d = "xmin" -> b.xmin >= c.target[1] - 1
    [] d = "xmax" -> b.xmax <= c.target[2] + 1
    [] d = "ymin" -> b.ymin >= c.target[3] - 1
    [] d = "ymax" -> b.ymax <= c.target[4] + 1
Finished(c, d, b) == Sep(b, Axis(d)) <= c.msep \/ (c.task = "around" /\ TargetOK(c, d, b))
Unfinished(c, b) == (IF Sep(b, "x") > c.msep THEN 1 ELSE 0) + (IF Sep(b, "y") > c.msep THEN 1 ELSE 0)

StepOf(d, b) ==
  CASE d = "xmin" -> [side |-> d, outer |-> b.xmin, inner |-> b.xmin + 1, lo |-> b.ymin, hi |-> b.ymax]
    [] d = "xmax" -> [side |-> d, outer |-> b.xmax, inner |-> b.xmax - 1, lo |-> b.ymin, hi |-> b.ymax]
    [] d = "ymin" -> [side |-> d, outer |-> b.ymin, inner |-> b.ymin + 1, lo |-> b.xmin, hi |-> b.xmax]
    [] d = "ymax" -> [side |-> d, outer |-> b.ymax, inner |-> b.ymax - 1, lo |-> b.xmin, hi |-> b.xmax]
Advance(d, b) ==
  CASE d = "xmin" -> [b EXCEPT !.xmin = @ + 1] [] d = "xmax" -> [b EXCEPT !.xmax = @ - 1]
    [] d = "ymin" -> [b EXCEPT !.ymin = @ + 1] [] d = "ymax" -> [b EXCEPT !.ymax = @ - 1]

\* compute_environments(from_which): Rotator2D sweep over all lines
SweepLen(c) == IF Axis(c.seq[1]) = "x" THEN c.Lx ELSE c.Ly
SweepAt(c, n) == IF IsMin(c.seq[1]) THEN n ELSE SweepLen(c) - 1 - n       \* n-th line of the sweep, n = 0, 1, ...
EnvStep(c, n) ==                                                           \* the step before storing the n-th environment
  LET d == c.seq[1] IN
  [side |-> d, outer |-> SweepAt(c, n - 2), inner |-> SweepAt(c, n - 1),
   lo |-> 0, hi |-> (IF Axis(d) = "x" THEN c.Ly ELSE c.Lx) - 1]
FirstLine(c, T) == \E x \in T.a : (IF Axis(c.seq[1]) = "x" THEN x[1] ELSE x[2]) = SweepAt(c, 0)    \* tn.select(first_row)

Configs ==
  {c \in [Lx : {s[1] : s \in Sizes}, Ly : {s[2] : s \in Sizes}, D : Ds, ly : Layerings, cap : Caps, mode : Modes,
          seq : Seqs, msep : MaxSeps, task : Tasks, target : Targets] :
     /\ <<c.Lx, c.Ly>> \in Sizes
     /\ (c.ly \in {"kb", "bk"} => c.mode \in {"late", "early", "via1d"})          \* layer_tags is an option of these modes
     /\ (c.task = "around" => c.msep = 1 /\ c.target[2] < c.Lx /\ c.target[4] < c.Ly)
     /\ (c.task # "around" => c.target = <<0, 0, 0, 0>>)
     /\ (c.task = "envs" => c.msep = 1 /\ Len(c.seq) = 1)
     /\ (c.msep = 0 => \A k \in DOMAIN c.seq : Axis(c.seq[k]) = Axis(c.seq[1]))}  \* closing sweeps along one axis

InitNet(c) == {[a |-> {x}, t |-> {<<x[1], x[2]>>}, id |-> 0] : x \in Atoms(c)}
\* every initial tensor is a distinct object
RECURSIVE Number(_, _)
Number(S, n) == IF S = {} THEN {} ELSE LET T == CHOOSE T \in S : TRUE IN {[T EXCEPT !.id = n]} \cup Number(S \ {T}, n + 1)

InitCur(c) ==
  LET ps == {{{p[1]}, {p[2]}} : p \in {p \in Atoms(c) \X Atoms(c) : LatAdj(p[1], p[2]) \/ PhysAdj(p[1], p[2])}} IN
  [p \in ps |-> LET A == CHOOSE A \in p : TRUE  B == CHOOSE B \in p : B # A IN Full(c, A, B)]

Init ==
  /\ cfg \in Configs
  /\ tens = Number(InitNet(cfg), 1)
  /\ cur = InitCur(cfg)
  /\ lost = FALSE /\ need = 0 /\ err = FALSE
  /\ bnd = [xmin |-> 0, xmax |-> cfg.Lx - 1, ymin |-> 0, ymax |-> cfg.Ly - 1]
  /\ queue = cfg.seq
  /\ step = [side |-> "xmin", outer |-> 0, inner |-> 0, lo |-> 0, hi |-> 0]
  /\ lay = 1 /\ kpos = 0 /\ envs = <<>> /\ stale = {} /\ hist = <<>>
  /\ done = [d \in {"xmin", "xmax", "ymin", "ymax"} |-> 0]
  /\ nid = Cardinality(Atoms(cfg)) + 1
  /\ ei = 0
  /\ pc = "start"

\* entry of contract_boundary / compute_environments
Start ==
  /\ pc = "start"
  /\ queue' = SelectSeq(cfg.seq, LAMBDA d : ~Finished(cfg, d, bnd))          \* sequence = [d for d in sequence if not finished]
  /\ pc' = IF cfg.task = "envs" THEN "store" ELSE "loop"
  /\ UNCHANGED <<cfg, tens, cur, lost, need, err, bnd, step, lay, kpos, envs, stale, hist, done, nid, ei>>

\* one iteration of `while sequence:`
Pick ==
  /\ pc = "loop"
  /\ IF queue = <<>> THEN pc' = "final" /\ UNCHANGED <<queue, step, lay>>
     ELSE LET d == Head(queue) IN
          IF Finished(cfg, d, bnd) THEN queue' = Tail(queue) /\ pc' = "loop" /\ UNCHANGED <<step, lay>>
          ELSE /\ queue' = Tail(queue) \o <<d>>
               /\ step' = StepOf(d, bnd) /\ lay' = 1 /\ pc' = "absorb"
  /\ UNCHANGED <<cfg, tens, cur, lost, need, err, bnd, kpos, envs, stale, hist, done, nid, ei>>

Put(ns) == /\ tens' = ns.tens /\ cur' = ns.cur /\ lost' = ns.lost /\ need' = ns.need /\ err' = ns.err
           /\ nid' = ns.nid /\ stale' = ns.stale

NLayers == Len(LT(cfg.ly))
\* AbsorbRow(side, layer): all sites of the line for one layer tag
AbsorbRow ==
  /\ pc = "absorb"
  /\ LET q == LT(cfg.ly)[lay]
         ns0 == IF lay = 1 THEN Via1dInitial(ProjTouch(NS, cfg, step), cfg, step) ELSE NS
         ns1 == AbsorbFrom(ns0, cfg, step, step.lo, q, lay = NLayers) IN
     /\ Put(ns1)
     /\ IF cfg.mode = "early"
        THEN IF lay < NLayers THEN lay' = lay + 1 /\ pc' = "absorb" /\ kpos' = kpos
             ELSE pc' = "handover" /\ UNCHANGED <<lay, kpos>>
        ELSE pc' = "compress" /\ kpos' = step.lo /\ lay' = lay
  /\ UNCHANGED <<cfg, bnd, queue, step, envs, hist, done, ei>>

\* Compress(bond): the bonds of the boundary line, one after the other
Compress ==
  /\ pc = "compress"
  /\ IF kpos >= step.hi
     THEN /\ IF lay < NLayers /\ cfg.mode # "proj" /\ cfg.mode # "fullbond"
             THEN lay' = lay + 1 /\ pc' = "absorb"
             ELSE pc' = "handover" /\ lay' = lay
          /\ UNCHANGED <<tens, cur, lost, need, err, nid, stale, kpos>>
     ELSE /\ IF SkipLastBond /\ kpos = step.hi - 1
             THEN UNCHANGED <<tens, cur, lost, need, err, nid, stale>>
             ELSE Put(CompressBond(NS, cfg, step, kpos))
          /\ kpos' = kpos + 1 /\ UNCHANGED <<pc, lay>>
  /\ UNCHANGED <<cfg, bnd, queue, step, envs, hist, done, ei>>

\* HandOver: the step returns its boundary
HandOver ==
  /\ pc = "handover"
  /\ hist' = Append(hist, step.side)
  /\ done' = [done EXCEPT ![step.side] = @ + 1]
  /\ IF cfg.task = "envs"
     THEN pc' = "store" /\ UNCHANGED bnd
     ELSE LET b == Advance(step.side, bnd) IN
          /\ bnd' = b
          /\ pc' = IF Unfinished(cfg, b) <= (IF cfg.msep = 0 THEN 0 ELSE 1) THEN "final" ELSE "loop"   \* max_unfinished
  /\ UNCHANGED <<cfg, tens, cur, lost, need, err, queue, step, lay, kpos, envs, stale, nid, ei>>

\* StoreEnv(k): compute_environments stores the tensors that carry the tag of the first line: copies
\* (tn.select(first_row, virtual=False)), so no later in-place modification reaches them; views if StoreByRef
StoreEnv ==
  /\ pc = "store"
  /\ LET n == ei
         key == SweepAt(cfg, n) + (IF n >= 2 THEN EnvShift * (IF IsMin(cfg.seq[1]) THEN 1 ELSE -1) ELSE 0)
         sel == IF n = 0 THEN {} ELSE {T \in tens : FirstLine(cfg, T)} IN
     /\ envs' = [k \in DOMAIN envs \cup {key} |-> IF k = key THEN [ids |-> (IF StoreByRef THEN {T.id : T \in sel} ELSE {}), atoms |-> {T.a : T \in sel}, n |-> n] ELSE envs[k]]
     /\ ei' = n + 1
     /\ IF n + 1 >= SweepLen(cfg) THEN pc' = "final" /\ UNCHANGED <<step, lay>>
        ELSE IF n + 1 < 2 THEN pc' = "store" /\ UNCHANGED <<step, lay>>
        ELSE pc' = "absorb" /\ step' = EnvStep(cfg, n + 1) /\ lay' = 1
  /\ UNCHANGED <<cfg, tens, cur, lost, need, err, bnd, queue, kpos, stale, hist, done, nid>>

\* Return: the remaining network is contracted exactly (or returned when `around` is given)
Return ==
  /\ pc = "final"
  /\ pc' = "done"
  /\ UNCHANGED <<cfg, tens, cur, lost, need, err, bnd, queue, step, lay, kpos, envs, stale, hist, done, nid, ei>>

Next == Start \/ Pick \/ AbsorbRow \/ Compress \/ HandOver \/ StoreEnv \/ Return
Spec == Init /\ [][Next]_vars

(* ----------------------------- properties ------------------------------ *)
AllAtoms == Atoms(cfg)
\* the tensors always partition the lattice: nothing merged twice, nothing lost
WholeCovered == pc # "start" => (UNION {T.a : T \in tens} = AllAtoms /\ \A S, T \in tens : S # T => S.a \cap T.a = {})

\* tensors of the boundary line that was just produced
LineTensors == {T \in tens : \E j \in step.lo..step.hi : Tag1(step, j) \in T.t}
CapRespected ==
  pc = "handover" => \A S, T \in LineTensors : (S # T /\ {S.a, T.a} \in DOMAIN cur) => cur[{S.a, T.a}] <= cfg.cap

\* cap at least the exact bond size => no compression discarded anything
ExactWhenUntruncated == cfg.cap >= need => ~lost

\* the exact size of the bonds of the boundary line is D^(layers * number of lines merged from that side)
StepNeed == LET ps == {p \in SUBSET LineTensors : Cardinality(p) = 2 /\ {T.a : T \in p} \in DOMAIN cur} IN
            IF ps = {} THEN 0
            ELSE LET sz(p) == LET S == CHOOSE S \in p : TRUE  T == CHOOSE T \in p : T # S IN FullLat(cfg, S.a, T.a)
                 IN  CHOOSE m \in {sz(p) : p \in ps} : \A p \in ps : sz(p) <= m
Opp(d) == CASE d = "xmin" -> "xmax" [] d = "xmax" -> "xmin" [] d = "ymin" -> "ymax" [] d = "ymax" -> "ymin"
\* lines absorbed from this side so far + the two of this step (+ what the opposite boundary holds when the two meet)
LinesMerged == IF cfg.task = "envs" THEN ei
               ELSE done[step.side] + 2 + (IF Sep(bnd, Axis(step.side)) = 1 THEN done[Opp(step.side)] ELSE 0)
NeedIsCross ==
  pc = "handover" => (StepNeed = 0 \/ StepNeed = PowI(cfg.D, NL(cfg.ly) * LinesMerged))

\* environment `key` covers exactly the lines strictly before `key` in the sweep, and was not modified after being stored
LineOf(x) == IF Axis(cfg.seq[1]) = "x" THEN x[1] ELSE x[2]
Claim(key) == {x \in AllAtoms : IF IsMin(cfg.seq[1]) THEN LineOf(x) < key ELSE LineOf(x) > key}
EnvCovers == \A k \in DOMAIN envs : UNION envs[k].atoms = Claim(k)
\* (a truncating in-place compression of compress_late=False also reaches stored tensors; the statement is about the
\*  untruncated regime)
EnvIntact == cfg.cap >= need => stale = {}
EnvConsistent == EnvCovers /\ EnvIntact

SelectUnique == ~err

\* `around`: the tensors of the target rectangle are never merged into anything ...
TargetAtoms == {x \in AllAtoms : x[1] \in cfg.target[1]..cfg.target[2] /\ x[2] \in cfg.target[3]..cfg.target[4]}
TargetUntouched == cfg.task = "around" => \A x \in TargetAtoms : \E T \in tens : T.a = {x}
\* ... and when the scheme returns every side of the sequence has been contracted up to the region, unless the loop
\* stopped because an axis got within max_separation (the max_unfinished rule applies with `around` too)
AroundHugs == (cfg.task = "around" /\ pc = "done") =>
                 \A k \in DOMAIN cfg.seq : OwnReached(cfg, cfg.seq[k], bnd) \/ Sep(bnd, "x") <= cfg.msep \/ Sep(bnd, "y") <= cfg.msep
AroundOK == TargetUntouched /\ AroundHugs

\* S->C: every explored case with its predicted step sequence and exact bond size
Case == [Lx |-> cfg.Lx, Ly |-> cfg.Ly, D |-> cfg.D, ly |-> cfg.ly, mode |-> cfg.mode, seq |-> cfg.seq, msep |-> cfg.msep,
         task |-> cfg.task, target |-> cfg.target, steps |-> hist, need |-> need, nenvs |-> Cardinality(DOMAIN envs)]
EmitJson == (Emit /\ pc = "done" /\ cfg.cap = CHOOSE m \in Caps : \A x \in Caps : x <= m) => PrintT(<<"QVJSON", ToJson(Case)>>)
=============================================================================
