SPECIFICATION Spec
CONSTANTS
  Graphs <- GraphsThorough
  Caps = {1, 2, 3, 4, 8, 16}
  Lates = {TRUE, FALSE}
  Spans = {0, 1, 2}
  StrictGreater = TRUE
  Emit = FALSE
INVARIANT FullIsCross
INVARIANT CapRespected
INVARIANT ExactWhenUntruncated
INVARIANT WholeCovered

CHECK_DEADLOCK FALSE
