SPECIFICATION Spec
CONSTANTS
  Sizes <- SizesTiny
  Ds = {2}
  Layerings <- LayAll
  Caps = {4}
  Modes <- ModesAll
  Seqs <- SeqsTiny
  MaxSeps = {1}
  Tasks <- TasksAll
  EnvShift = 0
  SkipLastBond = FALSE
  DropInnerTag = TRUE
  Targets <- TargetsQuick
  CrossedBound = FALSE
  StoreByRef = TRUE
  Emit = FALSE
INVARIANT EnvConsistent
CHECK_DEADLOCK FALSE
