------------------------------ MODULE C12_Defs ------------------------------
(***************************************************************************)
(* C12 - reference definitions (no variables), written from the property   *)
(* statement, not from the code.                                           *)
(*                                                                         *)
(* A scheme of approximate contraction merges tensors of a network into    *)
(* blocks and compresses the bonds between blocks to at most `cap`.        *)
(*                                                                         *)
(*  * exact bond size : the bond between two blocks A, B of an untruncated *)
(*    contraction carries every network bond that crosses between them:    *)
(*    Cross(edges, A, B) = product of the sizes of the edges with one end  *)
(*    in A and the other in B ("product of the merged bonds").             *)
(*  * a run is untruncated iff cap >= the exact size of every bond the     *)
(*    scheme was asked to compress and no cutoff is applied; then nothing  *)
(*    is discarded and the result is the exact value of the network        *)
(*    (LTensor!DenoteScalar - TLC computes it).                            *)
(*  * an environment stored for key k claims a set of sites (rows before k,*)
(*    columns after k, everything but a plaquette ...); it is consistent   *)
(*    iff it covers exactly these sites, each once, and closing it with    *)
(*    the excluded part gives the value of the whole.                      *)
(*                                                                         *)
(* sites are numbered 1..N; an edge is <<u, v, size>>; a block is a        *)
(* sequence (from JSON) or a set of sites.                                 *)
(***************************************************************************)
EXTENDS LTensor

MinI(a, b) == IF a < b THEN a ELSE b
MaxI(a, b) == IF a > b THEN a ELSE b

RECURSIVE PowI(_, _)
PowI(b, e) == IF e <= 0 THEN 1 ELSE b * PowI(b, e - 1)

(* ----------------------------- exact bond size ------------------------- *)
RECURSIVE CrossFrom(_, _, _, _)
CrossFrom(edges, A, B, k) ==
  IF k > Len(edges) THEN 1
  ELSE LET e == edges[k]
           c == (e[1] \in A /\ e[2] \in B) \/ (e[1] \in B /\ e[2] \in A)
       IN  (IF c THEN e[3] ELSE 1) * CrossFrom(edges, A, B, k + 1)
\* A, B: sets of sites
Cross(edges, A, B) == CrossFrom(edges, A, B, 1)

\* `bonds` : sequence of <<a, b, size>> with a, b positions in `blocks` (sequence of site sequences):
\* the largest exact size among the listed bonds (0 if none)
RECURSIVE NeedFrom(_, _, _, _)
NeedFrom(edges, blocks, bonds, k) ==
  IF k > Len(bonds) THEN 0
  ELSE MaxI(Cross(edges, SeqRange(blocks[bonds[k][1]]), SeqRange(blocks[bonds[k][2]])),
            NeedFrom(edges, blocks, bonds, k + 1))
Need(edges, blocks, bonds) == NeedFrom(edges, blocks, bonds, 1)

\* every listed bond is within the cap
WithinCap(bonds, cap) == \A k \in DOMAIN bonds : bonds[k][3] <= cap

\* blocks never share a site (no site is merged into two boundary tensors)
BlocksDisjoint(blocks) ==
  \A a, b \in DOMAIN blocks : a # b => SeqRange(blocks[a]) \cap SeqRange(blocks[b]) = {}

(* ----------------------------- environments ---------------------------- *)
\* atoms: (site, layer) numbered (site-1)*nl + layer, site (i, j) numbered i*Ly + j + 1 (i, j 0-based)
SiteId(i, j, Ly) == i * Ly + j + 1
AtomsOf(S, nl) == {(s - 1) * nl + q : s \in S, q \in 1..nl}

\* sites claimed by the environment `side`, k of an Lx x Ly lattice: the lines strictly before k in the
\* direction of the sweep
LineClaim(side, k, Lx, Ly) ==
  {SiteId(i, j, Ly) : i \in {i \in 0..Lx-1 : (side = "xmin" => i < k) /\ (side = "xmax" => i > k)},
                      j \in {j \in 0..Ly-1 : (side = "ymin" => j < k) /\ (side = "ymax" => j > k)}}

\* everything but the plaquette with corner (i0, j0) and size xb x yb
PlaqClaim(i0, j0, xb, yb, Lx, Ly) ==
  {SiteId(i, j, Ly) : i \in 0..Lx-1, j \in 0..Ly-1} \
  {SiteId(i, j, Ly) : i \in i0..(i0 + xb - 1), j \in j0..(j0 + yb - 1)}

\* the observed cover (sequence of atoms) is exactly the claim, nothing twice, nothing missing
CoversExactly(cover, claim) ==
  /\ SeqRange(cover) = claim
  /\ Len(cover) = Cardinality(claim)

(* ----------------------------- contraction around a region ------------- *)
\* pos = <<xmin, xmax, ymin, ymax>>: the boundary lines when the scheme returned; t = <<x0, x1, y0, y1>>: the rectangle
\* bounding the `around` sites; nst: steps taken from each side (same order); sides: the directions of the sequence.
\* Every side is measured against ITS OWN bound of the region.
ReachedSide(d, pos, t) ==
  CASE d = "xmin" -> pos[1] >= t[1] - 1
    [] d = "xmax" -> pos[2] <= t[2] + 1
    [] d = "ymin" -> pos[3] >= t[3] - 1
    [] d = "ymax" -> pos[4] <= t[4] + 1
    [] OTHER      -> FALSE
\* the boundary hugs the region: every listed side was contracted up to the region, unless the loop stopped because an
\* axis came within max_separation (documented stop rule, also active with `around`)
HugsRegion(sides, pos, t, msep) ==
  \A k \in DOMAIN sides : ReachedSide(sides[k], pos, t) \/ pos[2] - pos[1] <= msep \/ pos[4] - pos[3] <= msep
\* no side that moved went into the region
NotPastRegion(pos, t, nst) ==
  /\ (nst[1] = 0 \/ pos[1] <= t[1] - 1) /\ (nst[2] = 0 \/ pos[2] >= t[2] + 1)
  /\ (nst[3] = 0 \/ pos[3] <= t[3] - 1) /\ (nst[4] = 0 \/ pos[4] >= t[4] + 1)

(* ----------------------------- values ---------------------------------- *)
AbsI(a) == IF a < 0 THEN -a ELSE a
\* an observed value (snapped to the Gaussian integers by the driver, relative tolerance 1e-6) is the exact value z:
\* equal for |z| < 10^6, within a relative 10^-6 above (double precision of the projector / eigh based schemes is ~1e-8)
Close(x, z) == LET t == (AbsI(z[1]) + AbsI(z[2])) \div 1000000
               IN  AbsI(x[1] - z[1]) <= t /\ AbsI(x[2] - z[2]) <= t

\* value of a flat network, or of the norm network <psi|psi> of a ket network with output labels `out`
\* (the layered bra/ket network denotes the sum of the squared moduli of the ket's amplitudes)
ExactValue(net, layered, out) ==
  IF layered
  THEN LET amp == Denote(net, out) IN <<SumI(LAMBDA k : GAbs2(amp[k]), 1, Len(amp)), 0>>
  ELSE DenoteScalar(net)
=============================================================================
