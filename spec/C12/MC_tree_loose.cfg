SPECIFICATION Spec
CONSTANTS
  Graphs <- GraphsTiny
  Caps = {2}
  Lates = {TRUE, FALSE}
  Spans = {0, 1, 2}
  StrictGreater = FALSE
  Emit = FALSE
INVARIANT FullIsCross
INVARIANT CapRespected
INVARIANT ExactWhenUntruncated
INVARIANT WholeCovered

CHECK_DEADLOCK FALSE
