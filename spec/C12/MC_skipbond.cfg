SPECIFICATION Spec
CONSTANTS
  Sizes <- SizesTiny
  Ds = {2}
  Layerings <- LayAll
  Caps = {4}
  Modes <- ModesAll
  Seqs <- SeqsTiny
  MaxSeps = {1}
  Tasks <- TasksAll
  EnvShift = 0
  SkipLastBond = TRUE
  DropInnerTag = TRUE
  Targets <- TargetsQuick
  CrossedBound = FALSE
  StoreByRef = FALSE
  Emit = FALSE
INVARIANT CapRespected
CHECK_DEADLOCK FALSE
