SPECIFICATION Spec
CONSTANTS
  Sizes <- SizesThorough
  Ds = {2, 3}
  Layerings <- LayAll
  Caps <- CapsThorough
  Modes <- ModesAll
  Seqs <- SeqsThorough
  MaxSeps = {0, 1}
  Tasks <- TasksAll
  EnvShift = 0
  SkipLastBond = FALSE
  DropInnerTag = TRUE
  Targets <- TargetsThorough
  CrossedBound = FALSE
  StoreByRef = FALSE
  Emit = FALSE
INVARIANT WholeCovered
INVARIANT CapRespected
INVARIANT ExactWhenUntruncated
INVARIANT NeedIsCross
INVARIANT EnvConsistent
INVARIANT SelectUnique
INVARIANT AroundOK
CHECK_DEADLOCK FALSE
