SPECIFICATION Spec
CONSTANTS
  Sizes <- SizesAround
  Ds = {2}
  Layerings = {"flat"}
  Caps = {4}
  Modes = {"late"}
  Seqs <- SeqsAround
  MaxSeps = {1}
  Tasks = {"around"}
  EnvShift = 0
  SkipLastBond = FALSE
  DropInnerTag = TRUE
  Targets <- TargetsAround
  CrossedBound = FALSE
  StoreByRef = FALSE
  Emit = FALSE
INVARIANT WholeCovered
INVARIANT AroundOK
INVARIANT SelectUnique
CHECK_DEADLOCK FALSE
