------------------------------- MODULE C12_Tree -------------------------------
(***************************************************************************)
(* C12 - implementation-shaped model of compressed contraction of an       *)
(* arbitrary graph along a contraction path                                *)
(* (TensorNetwork.contract_compressed -> _contract_compressed_tid_sequence, *)
(* tensor_core.py at the pinned commit):                                   *)
(*  * the linear path (positions in the shrinking list of tensor ids) is   *)
(*    turned into merges tid1 -> tid2 exactly as contract_compressed does;  *)
(*  * dont_compress_pairs: every pair of the tree (compress_span = False),  *)
(*    or the pairs of the next `span` contractions;                         *)
(*  * compress_late: the neighbours of both tensors are compressed before   *)
(*    the contraction, otherwise the neighbours of the new tensor after it; *)
(*  * a bond is compressed only when larger than the cap.                   *)
(* blk[t] is the set of original nodes merged into tensor id t; full[p] /   *)
(* cur[p] the untruncated / present size of the bond between two ids,       *)
(* maintained as products when tensors merge.                               *)
(* Invariants: FullIsCross (the merge bookkeeping equals the reference      *)
(* definition: product of the graph edges crossing between the two blocks), *)
(* CapRespected (after a step every bond the step was asked to compress is  *)
(* within the cap), ExactWhenUntruncated (cap >= every bond considered =>   *)
(* nothing discarded).                                                      *)
(***************************************************************************)
EXTENDS Integers, Sequences, FiniteSets, TLC, Json

CONSTANTS Graphs,      \* set of [n |-> N, edges |-> sequence of <<u, v, size>>]
          Caps, Lates, Spans,   \* Spans: 0 = compress_span False, k > 0 = int(compress_span)
          StrictGreater,        \* TRUE = pinned commit (compress iff size > cap); FALSE = self-test (size > cap + 1)
          Emit

VARIABLES g, cap, late, span, path, seq, blk, full, cur, lost, need, needc, ncomp, i, last, pc
vars == <<g, cap, late, span, path, seq, blk, full, cur, lost, need, needc, ncomp, i, last, pc>>

MinI(a, b) == IF a < b THEN a ELSE b
MaxI(a, b) == IF a > b THEN a ELSE b

\* all linear paths over n tensors: n-1 pairs of positions i < j in the current list
RECURSIVE LinPaths(_)
LinPaths(n) == IF n <= 1 THEN {<<>>}
               ELSE UNION {{<<p>> \o q : q \in LinPaths(n - 1)} : p \in {p \in (1..n) \X (1..n) : p[1] < p[2]}}

RemoveAt(s, k) == [x \in 1..(Len(s) - 1) |-> IF x < k THEN s[x] ELSE s[x + 1]]
\* contract_compressed: tid2 = tids.pop(j); tid1 = tids.pop(i); tids.append(tid2); seq.append((tid1, tid2))
RECURSIVE SeqOf(_, _, _)
SeqOf(order, p, k) ==
  IF k > Len(p) THEN <<>>
  ELSE LET a == p[k][1]  b == p[k][2]
           t2 == order[b]  t1 == order[a]
           o2 == Append(RemoveAt(RemoveAt(order, b), a), t2)
       IN  <<<<t1, t2>>>> \o SeqOf(o2, p, k + 1)

RECURSIVE CrossFrom(_, _, _, _)
CrossFrom(edges, A, B, k) ==
  IF k > Len(edges) THEN 1
  ELSE LET e == edges[k]
           c == (e[1] \in A /\ e[2] \in B) \/ (e[1] \in B /\ e[2] \in A)
       IN  (IF c THEN e[3] ELSE 1) * CrossFrom(edges, A, B, k + 1)
Cross(A, B) == CrossFrom(g.edges, A, B, 1)

Live == {t \in DOMAIN blk : blk[t] # {}}
Pairs(S) == {p \in SUBSET S : Cardinality(p) = 2}
Val(f, a, b) == IF {a, b} \in DOMAIN f THEN f[{a, b}] ELSE 1
Nbrs(f, t) == {x \in Live \ {t} : {t, x} \in DOMAIN f}

InitSizes(gr) == [p \in {{gr.edges[k][1], gr.edges[k][2]} : k \in DOMAIN gr.edges} |->
                    LET a == CHOOSE a \in p : TRUE  b == CHOOSE b \in p : b # a IN CrossFrom(gr.edges, {a}, {b}, 1)]

Init ==
  /\ g \in Graphs /\ cap \in Caps /\ late \in Lates /\ span \in Spans
  /\ path \in LinPaths(g.n)
  /\ seq = SeqOf([k \in 1..g.n |-> k], path, 1)
  /\ blk = [t \in 1..g.n |-> {t}]
  /\ full = InitSizes(g) /\ cur = InitSizes(g)
  /\ lost = FALSE /\ need = 0 /\ needc = 0 /\ ncomp = 0 /\ i = 1 /\ last = 0 /\ pc = "run"

\* pairs that are not compressed at step k (1-based)
Dont(k) == IF span = 0 THEN {{seq[x][1], seq[x][2]} : x \in DOMAIN seq}
           ELSE {{seq[x][1], seq[x][2]} : x \in {x \in DOMAIN seq : x <= k + span - 1}}

\* network state as a record for the pure step functions
\* asked: the largest size, after the decision, of a bond that a step was asked to compress
NS == [cur |-> cur, lost |-> lost, need |-> need, needc |-> needc, ncomp |-> ncomp, asked |-> last]

Bound == IF StrictGreater THEN cap ELSE cap + 1
RECURSIVE CompressNbrs(_, _, _, _)
CompressNbrs(ns, t, Xs, k) ==
  IF Xs = {} THEN ns
  ELSE LET x == CHOOSE x \in Xs : TRUE
           s == Val(ns.cur, t, x)
           fl == Val(full, t, x)
           ns1 == IF {t, x} \in Dont(k) THEN ns                                    \* _should_skip_compression
                  ELSE IF s > Bound
                  THEN [ns EXCEPT !.cur = [@ EXCEPT ![{t, x}] = MinI(s, cap)], !.lost = TRUE,
                                  !.need = MaxI(@, fl), !.needc = MaxI(@, fl), !.ncomp = @ + 1, !.asked = MaxI(@, MinI(s, cap))]
                  ELSE [ns EXCEPT !.need = MaxI(@, fl), !.asked = MaxI(@, s)]
       IN  CompressNbrs(ns1, t, Xs \ {x}, k)

MergeSizes(f, t1, t2) ==
  LET others == Live \ {t1, t2}
      keep == {p \in DOMAIN f : t1 \notin p /\ t2 \notin p}
      newp == {{t2, x} : x \in {x \in others : {t1, x} \in DOMAIN f \/ {t2, x} \in DOMAIN f}}
  IN  [p \in keep \cup newp |-> IF p \in keep THEN f[p]
                                 ELSE LET x == CHOOSE x \in p : x # t2 IN Val(f, t1, x) * Val(f, t2, x)]

\* one step of the loop over the contraction sequence
Contract ==
  /\ pc = "run" /\ i <= Len(seq)
  /\ LET t1 == seq[i][1]  t2 == seq[i][2]
         \* compress_late: neighbours of tid1, then of tid2, before contracting
         a1 == IF late THEN CompressNbrs(NS, t1, Nbrs(cur, t1), i) ELSE NS
         a2 == IF late THEN CompressNbrs(a1, t2, Nbrs(a1.cur, t2), i) ELSE a1
         c2 == MergeSizes(a2.cur, t1, t2)
         f2 == MergeSizes(full, t1, t2)
         b2 == [blk EXCEPT ![t2] = blk[t1] \cup blk[t2], ![t1] = {}] IN
     /\ blk' = b2 /\ full' = f2
     /\ IF late
        THEN /\ cur' = c2 /\ lost' = a2.lost /\ need' = a2.need /\ needc' = a2.needc /\ ncomp' = a2.ncomp
             /\ last' = a2.asked
        ELSE \* not compress_late: neighbours of the new tensor (evaluated on the merged network)
             LET live2 == {t \in DOMAIN b2 : b2[t] # {}}
                 nb == {x \in live2 \ {t2} : {t2, x} \in DOMAIN c2}
                 RECURSIVE Go(_, _)
                 Go(ns, Xs) ==
                   IF Xs = {} THEN ns
                   ELSE LET x == CHOOSE x \in Xs : TRUE
                            s == IF {t2, x} \in DOMAIN ns.cur THEN ns.cur[{t2, x}] ELSE 1
                            fl == IF {t2, x} \in DOMAIN f2 THEN f2[{t2, x}] ELSE 1
                            ns1 == IF {t2, x} \in Dont(i) THEN ns
                                   ELSE IF s > Bound
                                   THEN [ns EXCEPT !.cur = [@ EXCEPT ![{t2, x}] = MinI(s, cap)], !.lost = TRUE,
                                                   !.need = MaxI(@, fl), !.needc = MaxI(@, fl), !.ncomp = @ + 1, !.asked = MaxI(@, MinI(s, cap))]
                                   ELSE [ns EXCEPT !.need = MaxI(@, fl), !.asked = MaxI(@, s)]
                        IN  Go(ns1, Xs \ {x})
                 r == Go([a2 EXCEPT !.cur = c2], nb) IN
             /\ cur' = r.cur /\ lost' = r.lost /\ need' = r.need /\ needc' = r.needc /\ ncomp' = r.ncomp
             /\ last' = r.asked
     /\ i' = i + 1
  /\ UNCHANGED <<g, cap, late, span, path, seq, pc>>

Return ==
  /\ pc = "run" /\ i > Len(seq)
  /\ pc' = "done"
  /\ UNCHANGED <<g, cap, late, span, path, seq, blk, full, cur, lost, need, needc, ncomp, i, last>>

Next == Contract \/ Return
Spec == Init /\ [][Next]_vars

(* ----------------------------- properties ------------------------------ *)
\* the product bookkeeping of merged bonds is the reference definition
FullIsCross == \A p \in DOMAIN full : LET a == CHOOSE a \in p : TRUE  b == CHOOSE b \in p : b # a IN full[p] = Cross(blk[a], blk[b])
\* every bond a step was asked to compress is within the cap once the step has dealt with it
CapRespected == last <= cap
\* cap at least every bond considered for compression => nothing discarded
ExactWhenUntruncated == cap >= need => ~lost
\* the blocks always partition the nodes
WholeCovered == UNION {blk[t] : t \in DOMAIN blk} = 1..g.n /\ \A s, t \in DOMAIN blk : s # t => blk[s] \cap blk[t] = {}

Case == [n |-> g.n, edges |-> g.edges, path |-> path, late |-> late, span |-> span, cap |-> cap, ncomp |-> ncomp, needc |-> needc, need |-> need]
EmitJson == (Emit /\ pc = "done") => PrintT(<<"QVJSON", ToJson(Case)>>)
=============================================================================
