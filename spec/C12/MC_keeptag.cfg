SPECIFICATION Spec
CONSTANTS
  Sizes <- SizesTiny
  Ds = {2}
  Layerings <- LayAll
  Caps = {4}
  Modes <- ModesAll
  Seqs <- SeqsTiny
  MaxSeps = {1}
  Tasks <- TasksAll
  EnvShift = 0
  SkipLastBond = FALSE
  DropInnerTag = FALSE
  StoreByRef = FALSE
  Emit = FALSE
INVARIANT SelectUnique
CHECK_DEADLOCK FALSE
