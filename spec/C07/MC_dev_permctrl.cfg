SPECIFICATION Spec
CONSTANTS
  N = 3
  Cls = "perm-auto"
  Gates <- GatesP3
  NewParams <- NewParamsC
  Queries <- QueriesP3
  MaxDepth = 3
  Record = FALSE
  Deviations <- DevPermCtrl
  ConeIgnoresSwap = FALSE
VIEW view
INVARIANT RejectClean
INVARIANT RegIsRun
INVARIANT NormOne
INVARIANT QueriesAgree
INVARIANT PermIsPerm
INVARIANT PermSound
INVARIANT InfoSound
CHECK_DEADLOCK FALSE
