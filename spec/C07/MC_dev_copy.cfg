SPECIFICATION Spec
CONSTANTS
  N = 2
  Cls = "exact"
  Gates <- GatesC1
  NewParams <- NewParamsC
  Queries <- QueriesC1
  MaxDepth = 5
  Record = FALSE
  Deviations <- DevCopy
  ConeIgnoresSwap = FALSE
VIEW view
INVARIANT RejectClean
INVARIANT RegIsRun
INVARIANT NormOne
INVARIANT QueriesAgree
INVARIANT NoStaleRead
INVARIANT RecordInStep
INVARIANT StoreCurrent
CHECK_DEADLOCK FALSE
