------------------------------ MODULE MC_C07sim ------------------------------
(* behaviour generation for the S->C replays *)
EXTENDS MC_C07

(* ---- behaviour generation: the full vocabulary on N = 3 *)
Perm2 == {<<a, b>> : a, b \in 0..2} \ {<<a, a>> : a \in 0..2}
Perm3 == {<<a, b, c>> : a, b, c \in 0..2} \ {t \in {<<a, b, c>> : a, b, c \in 0..2} : t[1] = t[2] \/ t[1] = t[3] \/ t[2] = t[3]}
One1 == {<<a>> : a \in 0..2}
FirstP(n) == CHOOSE p \in NewParamsC[n] : TRUE
GatesFull ==
  {G(n, q, e0, e0) : n \in ConstNames1 \cup RawNames1, q \in One1}
  \cup {G(n, q, e0, e0) : n \in ConstNames2 \cup RawNames2, q \in Perm2}
  \cup {G(n, q, e0, e0) : n \in ConstNames3 \cup RawNames3, q \in Perm3}
  \cup UNION {{G(n, q, e0, p) : q \in One1, p \in NewParamsC[n]} : n \in ParamNames1}
  \cup UNION {{G(n, q, e0, p) : q \in Perm2, p \in NewParamsC[n]} : n \in ParamNames2}
  \cup UNION {{GP(n, q, e0, FirstP(n)) : q \in One1} : n \in ParamNames1}
  \cup UNION {{GP(n, q, e0, FirstP(n)) : q \in Perm2} : n \in {"CU3", "CRY", "FSIM", "GIVENS2", "XXMINUSYY", "RZZ", "CU1"}}
  \* controlled and multi-controlled
  \cup {G(n, <<q[1]>>, <<q[2]>>, e0) : n \in {"X", "H", "T", "SX", "IDEN", "R1A", "Y_1_2"}, q \in Perm2}
  \cup {G(n, <<q[1]>>, <<q[2], q[3]>>, e0) : n \in {"X", "Z", "W_1_2", "R1B"}, q \in Perm3}
  \cup {G(n, <<q[1], q[2]>>, <<q[3]>>, e0) : n \in {"SWAP", "CX", "ISWAP", "R2A"}, q \in Perm3}
  \cup {G("RY", <<q[1]>>, <<q[2]>>, <<2>>) : q \in Perm2} \cup {G("FSIM", <<q[1], q[2]>>, <<q[3]>>, <<1, 3>>) : q \in Perm3}
  \cup {GP("RZ", <<q[1]>>, <<q[2]>>, <<2>>) : q \in Perm2}
Bits3 == {<<a, b, c>> : a, b, c \in 0..1}
QueriesFull ==
  {QAmp(b) : b \in Bits3} \cup {QDense(r) : r \in BOOLEAN} \cup {Q("uni"), Q("sample"), Q("sampleprob"), Q("gbg")}
  \cup {QPtr(k) : k \in One1 \cup Perm2 \cup {<<0, 1, 2>>, <<2, 0, 1>>}}
  \cup {QExp(op, w) : op \in OpNames1, w \in One1} \cup {QExp(op, w) : op \in OpNames2, w \in Perm2}
  \cup {QMarg(w, <<>>) : w \in One1 \cup Perm2 \cup {<<0, 1, 2>>, <<1, 2, 0>>}}
  \cup {QMarg(<<q[1]>>, << <<q[2], b>> >>) : q \in Perm2, b \in 0..1}
  \cup {QMarg(<<q[1]>>, << <<q[2], b>>, <<q[3], 1 - b>> >>) : q \in Perm3, b \in 0..1}
  \cup {QMarg(<<q[1], q[2]>>, << <<q[3], b>> >>) : q \in Perm3, b \in 0..1}
\* the tables the replay driver needs (raw matrices, operators of the expectation queries, the vocabulary)
AllOps == OpNames1 \cup OpNames2
AllRaw == RawNames1 \cup RawNames2 \cup RawNames3
Tables == [raw |-> [nm \in AllRaw |-> RawM(nm)], ops |-> [nm \in AllOps |-> OpM(nm)],
           const |-> ConstNames1 \cup ConstNames2 \cup ConstNames3,
           arity |-> [nm \in ParamNames1 \cup ParamNames2 |-> ParamArity(nm)],
           half |-> HalfAngleGates,
           nq |-> [nm \in ConstNames1 \cup ConstNames2 \cup ConstNames3 \cup ParamNames1 \cup ParamNames2 \cup AllRaw |-> NQ(nm)]]
ASSUME PrintT(<<"QVJSON", ToJson(Tables)>>)

\* exhaustive small scope for the replays: every gate sequence of length 3 over this alphabet (the driver surrounds
\* each with the battery of light-cone / dense queries, a parameter update, and the battery again)
GatesEnum == << G("H", <<0>>, e0, e0), GP("RX", <<1>>, e0, <<2>>), G("CX", <<0, 1>>, e0, e0), G("SWAP", <<0, 2>>, e0, e0),
                G("SWAP", <<1, 2>>, e0, e0), G("T", <<2>>, <<0>>, e0) >>
ASSUME \A a, b, c \in 1..Len(GatesEnum) :
          PrintT(<<"QVJSON", ToJson([enum |-> <<GatesEnum[a], GatesEnum[b], GatesEnum[c]>>])>>)
=============================================================================
