------------------------------ MODULE C07_Vocab ------------------------------
(***************************************************************************)
(* C07 - the gate vocabulary itself: every registered gate matrix (written  *)
(* from the textbook definitions in C07_Defs) is unitary at every point of  *)
(* the exact angle grid, and the families are consistent with each other.   *)
(* One state per gate instance; the invariants are evaluated on each.       *)
(***************************************************************************)
EXTENDS C07_Defs

VARIABLE g          \* <<name, parameter tuple>>
Names0 == ConstNames1 \cup ConstNames2 \cup ConstNames3 \cup RawNames1 \cup RawNames2 \cup RawNames3
A8  == 0..7
A8e == {0, 2, 4, 6, 8, 10, 12, 14}          \* theta/2 gates: theta = 0 .. 7 pi/2 (period 4 pi)
P1  == {<<a>> : a \in A8}
P1e == {<<a>> : a \in A8e}
P2  == {<<a, b>> : a \in A8, b \in A8}
P2e == {<<a, b>> : a \in A8e, b \in A8}
P3  == {<<a, b, c>> : a \in {0, 2, 6, 12}, b \in A8, c \in {0, 1, 2, 5, 7}}
P5  == {<<a, b, c, d, e>> : a \in {0, 1, 3, 6}, b \in {0, 1, 6}, c \in {0, 3, 5}, d \in {0, 1, 7}, e \in {0, 1, 2, 4}}
Pars(nm) == IF nm \in HalfAngleGates
            THEN (IF ParamArity(nm) = 1 THEN P1e ELSE IF ParamArity(nm) = 2 THEN P2e ELSE P3)
            ELSE IF ParamArity(nm) = 1 THEN P1 ELSE IF ParamArity(nm) = 2 THEN P2 ELSE P5
All == {<<nm, <<>>>> : nm \in Names0} \cup UNION {{<<nm, p>> : p \in Pars(nm)} : nm \in ParamNames1 \cup ParamNames2}

Init == g \in All
Next == UNCHANGED g
Spec == Init /\ [][Next]_g

M == GateMat(g[1], g[2])
Unitary   == IsUnitary(M)
Square    == Len(M) = 2 ^ NQ(g[1]) /\ \A r \in 1..Len(M) : Len(M[r]) = Len(M)
Canonical == \A r \in 1..Len(M) : \A c \in 1..Len(M) : WellFormed(M[r][c])
\* cross-checks between independently written families
Families ==
  /\ g[1] = "RX" /\ g[2] = <<2>> => M = X12M
  /\ g[1] = "RY" /\ g[2] = <<2>> => M = Y12M
  /\ g[1] = "RZ" /\ g[2] = <<2>> => M = Z12M
  /\ g[1] = "U1" => M = GateMat("PHASE", g[2]) /\ Ctrl(M) = GateMat("CU1", g[2]) /\ M = U3M(0, 0, g[2][1])
  /\ g[1] = "U1" /\ g[2] = <<2>> => M = SM /\ MatMul(TM, TM) = M
  /\ g[1] = "U2" => M = U3M(2, g[2][1], g[2][2])
  /\ g[1] = "U3" /\ g[2][2] = 6 /\ g[2][3] = 2 => M = RXM(g[2][1])          \* U3(t, -pi/2, pi/2) = RX(t)
  /\ g[1] = "U3" /\ g[2][2] = 0 /\ g[2][3] = 0 => M = RYM(g[2][1])
  /\ g[1] = "SX" => MatMul(M, M) = XM /\ MatMul(M, SXDGM) = Ident(2)
  /\ g[1] = "W_1_2" => M = U3M(2, 7, 1)
  /\ g[1] = "H" => MatMul(MatMul(M, ZM), M) = XM
  /\ g[1] = "FSIM" /\ g[2] = <<6, 0>> => M = ISWAPM                          \* fsim(-pi/2, 0) = iswap
  /\ g[1] = "FSIM" => M = FSIMGM(g[2][1], 0, 0, 0, g[2][2])
  /\ g[1] = "GIVENS" => M = GIVENS2M(g[2][1], 0)
  /\ g[1] = "XXPLUSYY" /\ g[2][2] = 0 => M = FSIMM(Hf(g[2][1]), 0)
  /\ g[1] = "RZZ" => M = MatMul(MatMul(Ctrl(XM), MatMul(Diag(<<W(0 - Hf(g[2][1])), W(Hf(g[2][1])), W(0 - Hf(g[2][1])), W(Hf(g[2][1]))>>), Ctrl(XM))), Ident(4))
  /\ g[1] = "CRZ" => M = Ctrl(RZM(g[2][1]))
  /\ g[1] = "SWAP" => MatMul(M, MatMul(Ctrl(XM), M)) = <<<<One, Zero, Zero, Zero>>, <<Zero, Zero, Zero, One>>, <<Zero, Zero, One, Zero>>, <<Zero, One, Zero, Zero>>>>
  /\ g[1] = "CSWAP" => MatMul(M, M) = Ident(8)
  /\ g[1] = "CCX" => M = MatMul(MatMul(Ctrl(Ctrl(HM)), Ctrl(Ctrl(ZM))), Ctrl(Ctrl(HM)))
=============================================================================
