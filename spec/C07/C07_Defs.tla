------------------------------ MODULE C07_Defs ------------------------------
(***************************************************************************)
(* C07 - reference definitions: exact circuit semantics over the ring      *)
(*   D[w] = Z[w, 1/sqrt2],  w = e^{i pi/4}.                                 *)
(* An element is a 5-tuple <<a,b,c,d,k>> = (a + b w + c w^2 + d w^3)/sqrt2^k *)
(* kept in canonical form (smallest k >= 0; zero is <<0,0,0,0,0>>).         *)
(* Gate matrices are written from the textbook definitions (Nielsen-Chuang, *)
(* OpenQASM/qiskit circuit library, Cirq FSim/PhasedFSim/givens, the        *)
(* supremacy-experiment sqrt gates); NOT from quimb.gen.operators.          *)
(* Angles are integers in units of pi/4.  Gates that use theta/2 need an    *)
(* even number of units (theta a multiple of pi/2).                         *)
(* Qubit order: qubit 0 is the most significant bit of a basis index; the   *)
(* first qubit of a gate is the most significant bit of the gate's index;   *)
(* a controlled gate acts when all its control bits are 1.                  *)
(* No VARIABLES here: the model and the trace spec both extend this module. *)
(***************************************************************************)
EXTENDS Integers, Sequences, FiniteSets, TLC

Range(f) == {f[x] : x \in DOMAIN f}

(* ------------------------------ the ring -------------------------------- *)
Zero == <<0, 0, 0, 0, 0>>
One  == <<1, 0, 0, 0, 0>>
IsZero(x) == x[1] = 0 /\ x[2] = 0 /\ x[3] = 0 /\ x[4] = 0
Even(n) == n % 2 = 0

\* numerator / sqrt2  =  ((b-d)/2, (a+c)/2, (b+d)/2, (c-a)/2)   (integral iff a = c, b = d mod 2)
RECURSIVE Red(_)
Red(x) == IF IsZero(x) THEN Zero
          ELSE IF x[5] > 0 /\ Even(x[1] - x[3]) /\ Even(x[2] - x[4])
               THEN Red(<<(x[2] - x[4]) \div 2, (x[1] + x[3]) \div 2, (x[2] + x[4]) \div 2,
                          (x[3] - x[1]) \div 2, x[5] - 1>>)
               ELSE x
\* same value, numerator multiplied by sqrt2 = w - w^3
Up(x) == <<x[2] - x[4], x[1] + x[3], x[2] + x[4], x[3] - x[1], x[5] + 1>>
RECURSIVE Lift(_, _)
Lift(x, k) == IF x[5] >= k THEN x ELSE Lift(Up(x), k)

Add(x, y) == IF IsZero(x) THEN y ELSE IF IsZero(y) THEN x ELSE
  LET k == IF x[5] > y[5] THEN x[5] ELSE y[5]
      a == Lift(x, k)
      b == Lift(y, k)
  IN  Red(<<a[1] + b[1], a[2] + b[2], a[3] + b[3], a[4] + b[4], k>>)
Neg(x)    == <<0 - x[1], 0 - x[2], 0 - x[3], 0 - x[4], x[5]>>
Sub(x, y) == Add(x, Neg(y))
Conj(x)   == <<x[1], 0 - x[4], 0 - x[3], 0 - x[2], x[5]>>
Mul(x, y) == IF IsZero(x) \/ IsZero(y) THEN Zero ELSE IF x = One THEN y ELSE IF y = One THEN x ELSE
  Red(<<x[1] * y[1] - x[2] * y[4] - x[3] * y[3] - x[4] * y[2],
        x[1] * y[2] + x[2] * y[1] - x[3] * y[4] - x[4] * y[3],
        x[1] * y[3] + x[2] * y[2] + x[3] * y[1] - x[4] * y[4],
        x[1] * y[4] + x[2] * y[3] + x[3] * y[2] + x[4] * y[1],
        x[5] + y[5]>>)
\* (TLCEval: TLC keeps [x \in S |-> e] unevaluated and would re-evaluate it at every Len / application)
RECURSIVE SumFrom(_, _, _)
SumFrom(s, i, n) == IF i > n THEN Zero ELSE Add(s[i], SumFrom(s, i + 1, n))
SumD(s) == LET t == TLCEval(s) IN SumFrom(t, 1, Len(t))

\* w^k
W(k) == LET j == k % 8 IN
  CASE j = 0 -> <<1, 0, 0, 0, 0>>  [] j = 1 -> <<0, 1, 0, 0, 0>>
    [] j = 2 -> <<0, 0, 1, 0, 0>>  [] j = 3 -> <<0, 0, 0, 1, 0>>
    [] j = 4 -> <<0 - 1, 0, 0, 0, 0>> [] j = 5 -> <<0, 0 - 1, 0, 0, 0>>
    [] j = 6 -> <<0, 0, 0 - 1, 0, 0>> [] j = 7 -> <<0, 0, 0, 0 - 1, 0>>
Im      == W(2)
MIm     == W(6)
RSqrt2  == <<1, 0, 0, 0, 1>>          \* 1/sqrt2
Half    == <<1, 0, 0, 0, 2>>
Cs(j)   == Mul(Half, Add(W(j), W(0 - j)))                  \* cos(j pi/4)
Sn(j)   == Mul(Mul(Half, MIm), Sub(W(j), W(0 - j)))        \* sin(j pi/4)
MISn(j) == Mul(MIm, Sn(j))                                 \* -i sin(j pi/4)
WellFormed(x) == /\ Len(x) = 5 /\ x[5] >= 0 /\ x = Red(x)

(* ------------------------------ matrices -------------------------------- *)
Ident(n)     == TLCEval([r \in 1..n |-> [c \in 1..n |-> IF r = c THEN One ELSE Zero]])
MatMul(A, B) == TLCEval([r \in 1..Len(A) |-> [c \in 1..Len(B[1]) |->
                   SumD([k \in 1..Len(B) |-> Mul(A[r][k], B[k][c])])]])
Dagger(A)    == TLCEval([r \in 1..Len(A[1]) |-> [c \in 1..Len(A) |-> Conj(A[c][r])]])
IsUnitary(A) == /\ \A r \in 1..Len(A) : Len(A[r]) = Len(A)
                /\ MatMul(Dagger(A), A) = Ident(Len(A))
                /\ MatMul(A, Dagger(A)) = Ident(Len(A))
\* controlled-U with the control as the first (most significant) qubit
Ctrl(U) == LET n == Len(U) IN
  TLCEval([r \in 1..2 * n |-> [c \in 1..2 * n |->
      IF r <= n /\ c <= n THEN (IF r = c THEN One ELSE Zero)
      ELSE IF r > n /\ c > n THEN U[r - n][c - n] ELSE Zero]])
Diag(d) == TLCEval([r \in 1..Len(d) |-> [c \in 1..Len(d) |-> IF r = c THEN d[r] ELSE Zero]])

(* ------------------------- the gate vocabulary --------------------------- *)
d0 == Zero
d1 == One
dm1 == Neg(One)
dr2 == RSqrt2
HM    == <<<<dr2, dr2>>, <<dr2, Neg(dr2)>>>>
XM    == <<<<d0, d1>>, <<d1, d0>>>>
YM    == <<<<d0, MIm>>, <<Im, d0>>>>
ZM    == <<<<d1, d0>>, <<d0, dm1>>>>
SM    == <<<<d1, d0>>, <<d0, Im>>>>
SDGM  == <<<<d1, d0>>, <<d0, MIm>>>>
TM    == <<<<d1, d0>>, <<d0, W(1)>>>>
TDGM  == <<<<d1, d0>>, <<d0, W(7)>>>>
\* sqrt(X) = (1/2) [[1+i, 1-i], [1-i, 1+i]]
SXM   == LET p == Mul(Half, Add(One, Im))  q == Mul(Half, Sub(One, Im)) IN <<<<p, q>>, <<q, p>>>>
SXDGM == Dagger(SXM)
\* the "half" gates of the supremacy experiments: exp(-i pi/4 P), P = X, Y, Z, (X+Y)/sqrt2
X12M  == <<<<dr2, Mul(MIm, dr2)>>, <<Mul(MIm, dr2), dr2>>>>
Y12M  == <<<<dr2, Neg(dr2)>>, <<dr2, dr2>>>>
Z12M  == <<<<W(7), d0>>, <<d0, W(1)>>>>
W12M  == <<<<dr2, Neg(Mul(W(1), dr2))>>, <<Mul(W(7), dr2), dr2>>>>
SWAPM  == <<<<d1, d0, d0, d0>>, <<d0, d0, d1, d0>>, <<d0, d1, d0, d0>>, <<d0, d0, d0, d1>>>>
ISWAPM == <<<<d1, d0, d0, d0>>, <<d0, d0, Im, d0>>, <<d0, Im, d0, d0>>, <<d0, d0, d0, d1>>>>

\* t, f, l ... : angles in units of pi/4 ; h(t) = t/2 for the half-angle gates
Hf(t) == t \div 2
RXM(t) == <<<<Cs(Hf(t)), MISn(Hf(t))>>, <<MISn(Hf(t)), Cs(Hf(t))>>>>
RYM(t) == <<<<Cs(Hf(t)), Neg(Sn(Hf(t)))>>, <<Sn(Hf(t)), Cs(Hf(t))>>>>
RZM(t) == <<<<W(0 - Hf(t)), d0>>, <<d0, W(Hf(t))>>>>
U3M(t, f, l) == <<<<Cs(Hf(t)), Neg(Mul(W(l), Sn(Hf(t))))>>,
                  <<Mul(W(f), Sn(Hf(t))), Mul(W(f + l), Cs(Hf(t)))>>>>
U2M(f, l) == U3M(2, f, l)
U1M(l)    == <<<<d1, d0>>, <<d0, W(l)>>>>
\* Cirq FSimGate(theta, phi) / PhasedFSimGate(theta, zeta, chi, gamma, phi)
FSIMM(t, f) == <<<<d1, d0, d0, d0>>, <<d0, Cs(t), MISn(t), d0>>, <<d0, MISn(t), Cs(t), d0>>, <<d0, d0, d0, W(0 - f)>>>>
FSIMGM(t, ze, ch, ga, f) ==
  <<<<d1, d0, d0, d0>>,
    <<d0, Mul(W(0 - ga - ze), Cs(t)), Mul(W(0 - ga + ch), MISn(t)), d0>>,
    <<d0, Mul(W(0 - ga - ch), MISn(t)), Mul(W(0 - ga + ze), Cs(t)), d0>>,
    <<d0, d0, d0, W(0 - 2 * ga - f)>>>>
\* Givens rotation in the {01, 10} block; with a phase e^{i phi} on the off-diagonal
GIVENSM(t)     == <<<<d1, d0, d0, d0>>, <<d0, Cs(t), Neg(Sn(t)), d0>>, <<d0, Sn(t), Cs(t), d0>>, <<d0, d0, d0, d1>>>>
GIVENS2M(t, f) == <<<<d1, d0, d0, d0>>, <<d0, Cs(t), Neg(Mul(W(f), Sn(t))), d0>>,
                    <<d0, Mul(W(0 - f), Sn(t)), Cs(t), d0>>, <<d0, d0, d0, d1>>>>
\* qiskit XXPlusYYGate / XXMinusYYGate (first gate qubit = qiskit's qubit 0)
XXPYYM(t, b) == <<<<d1, d0, d0, d0>>, <<d0, Cs(Hf(t)), Mul(W(b), MISn(Hf(t))), d0>>,
                  <<d0, Mul(W(0 - b), MISn(Hf(t))), Cs(Hf(t)), d0>>, <<d0, d0, d0, d1>>>>
XXMYYM(t, b) == <<<<Cs(Hf(t)), d0, d0, Mul(W(0 - b), MISn(Hf(t)))>>, <<d0, d1, d0, d0>>, <<d0, d0, d1, d0>>,
                  <<Mul(W(b), MISn(Hf(t))), d0, d0, Cs(Hf(t))>>>>
\* exp(-i theta/2 PP)
RXXM(t) == LET c == Cs(Hf(t))  s == MISn(Hf(t)) IN
  <<<<c, d0, d0, s>>, <<d0, c, s, d0>>, <<d0, s, c, d0>>, <<s, d0, d0, c>>>>
RYYM(t) == LET c == Cs(Hf(t))  s == MISn(Hf(t)) IN
  <<<<c, d0, d0, Neg(s)>>, <<d0, c, s, d0>>, <<d0, s, c, d0>>, <<Neg(s), d0, d0, c>>>>
RZZM(t) == Diag(<<W(0 - Hf(t)), W(Hf(t)), W(Hf(t)), W(0 - Hf(t))>>)

\* raw matrices used by the raw-gate actions (any unitary over the ring would do)
RawM(name) ==
  CASE name = "R1A" -> MatMul(TM, HM)                        \* not symmetric, complex
    [] name = "R1B" -> MatMul(SXM, TM)
    [] name = "R2A" -> MatMul(Ctrl(HM), ISWAPM)              \* not symmetric under qubit exchange
    [] name = "R2B" -> MatMul(FSIMM(1, 3), Ctrl(SM))
    [] name = "R3A" -> MatMul(Ctrl(Ctrl(HM)), Ctrl(ISWAPM))

HalfAngleGates == {"RX", "RY", "RZ", "U3", "CRX", "CRY", "CRZ", "CU3", "XXPLUSYY", "XXMINUSYY", "RXX", "RYY", "RZZ"}
\* is the parameter tuple on the exact grid of the gate?
OnGrid(name, p) == name \in HalfAngleGates => Even(p[1])

GateMat(name, p) ==
  CASE name = "H" -> HM [] name = "X" -> XM [] name = "Y" -> YM [] name = "Z" -> ZM
    [] name = "S" -> SM [] name = "SDG" -> SDGM [] name = "T" -> TM [] name = "TDG" -> TDGM
    [] name = "SX" -> SXM [] name = "SXDG" -> SXDGM
    [] name = "X_1_2" -> X12M [] name = "Y_1_2" -> Y12M [] name = "Z_1_2" -> Z12M
    [] name \in {"W_1_2", "HZ_1_2"} -> W12M
    [] name = "IDEN" -> Ident(2)
    [] name \in {"CX", "CNOT"} -> Ctrl(XM) [] name = "CY" -> Ctrl(YM) [] name = "CZ" -> Ctrl(ZM)
    [] name = "SWAP" -> SWAPM [] name \in {"ISWAP", "IS"} -> ISWAPM
    [] name \in {"CCX", "CCNOT", "TOFFOLI"} -> Ctrl(Ctrl(XM))
    [] name = "CCY" -> Ctrl(Ctrl(YM)) [] name = "CCZ" -> Ctrl(Ctrl(ZM))
    [] name \in {"CSWAP", "FREDKIN"} -> Ctrl(SWAPM)
    [] name = "RX" -> RXM(p[1]) [] name = "RY" -> RYM(p[1]) [] name = "RZ" -> RZM(p[1])
    [] name = "U3" -> U3M(p[1], p[2], p[3]) [] name = "U2" -> U2M(p[1], p[2])
    [] name \in {"U1", "PHASE"} -> U1M(p[1])
    [] name = "CU3" -> Ctrl(U3M(p[1], p[2], p[3])) [] name = "CU2" -> Ctrl(U2M(p[1], p[2]))
    [] name \in {"CU1", "CPHASE"} -> Ctrl(U1M(p[1]))
    [] name = "CRX" -> Ctrl(RXM(p[1])) [] name = "CRY" -> Ctrl(RYM(p[1])) [] name = "CRZ" -> Ctrl(RZM(p[1]))
    [] name \in {"FSIM", "FS"} -> FSIMM(p[1], p[2])
    [] name = "FSIMG" -> FSIMGM(p[1], p[2], p[3], p[4], p[5])
    [] name = "GIVENS" -> GIVENSM(p[1]) [] name = "GIVENS2" -> GIVENS2M(p[1], p[2])
    [] name = "XXPLUSYY" -> XXPYYM(p[1], p[2]) [] name = "XXMINUSYY" -> XXMYYM(p[1], p[2])
    [] name = "RXX" -> RXXM(p[1]) [] name = "RYY" -> RYYM(p[1]) [] name = "RZZ" -> RZZM(p[1])
    [] name \in {"R1A", "R1B", "R2A", "R2B", "R3A"} -> RawM(name)

ConstNames1 == {"H", "X", "Y", "Z", "S", "SDG", "T", "TDG", "SX", "SXDG", "X_1_2", "Y_1_2", "Z_1_2",
                "W_1_2", "HZ_1_2", "IDEN"}
ConstNames2 == {"CX", "CNOT", "CY", "CZ", "SWAP", "ISWAP", "IS"}
ConstNames3 == {"CCX", "CCNOT", "TOFFOLI", "CCY", "CCZ", "CSWAP", "FREDKIN"}
RawNames1 == {"R1A", "R1B"}
RawNames2 == {"R2A", "R2B"}
RawNames3 == {"R3A"}
ParamArity(name) ==
  CASE name \in {"RX", "RY", "RZ", "U1", "PHASE", "CU1", "CPHASE", "CRX", "CRY", "CRZ", "GIVENS", "RXX", "RYY", "RZZ"} -> 1
    [] name \in {"U2", "CU2", "FSIM", "FS", "GIVENS2", "XXPLUSYY", "XXMINUSYY"} -> 2
    [] name \in {"U3", "CU3"} -> 3
    [] name = "FSIMG" -> 5
    [] OTHER -> 0
ParamNames1 == {"RX", "RY", "RZ", "U1", "PHASE", "U2", "U3"}
ParamNames2 == {"CU1", "CPHASE", "CU2", "CU3", "CRX", "CRY", "CRZ", "FSIM", "FS", "FSIMG", "GIVENS", "GIVENS2",
                "XXPLUSYY", "XXMINUSYY", "RXX", "RYY", "RZZ"}
NQ(name) == IF name \in ConstNames1 \cup ParamNames1 \cup RawNames1 THEN 1
            ELSE IF name \in ConstNames2 \cup ParamNames2 \cup RawNames2 THEN 2 ELSE 3

(* ----------------------- registers and gate application ------------------ *)
Bit(x, q, N) == (x \div (2 ^ (N - 1 - q))) % 2
RECURSIVE SubIdx(_, _, _, _)
SubIdx(x, qs, N, i) == IF i > Len(qs) THEN 0
                       ELSE Bit(x, qs[i], N) * (2 ^ (Len(qs) - i)) + SubIdx(x, qs, N, i + 1)
RECURSIVE SetBits(_, _, _, _, _)
SetBits(x, qs, y, N, i) ==
  IF i > Len(qs) THEN x
  ELSE LET b == (y \div (2 ^ (Len(qs) - i))) % 2
       IN  SetBits(x + (b - Bit(x, qs[i], N)) * (2 ^ (N - 1 - qs[i])), qs, y, N, i + 1)

Basis(N, x0) == TLCEval([xx \in 1..(2 ^ N) |-> IF xx = x0 + 1 THEN One ELSE Zero])

\* psi' = (U on qubits qs, controlled on all of cs) psi
Apply(psi, U, qs, cs, N) ==
  TLCEval([xx \in 1..(2 ^ N) |->
     LET x == xx - 1 IN
     IF \E i \in 1..Len(cs) : Bit(x, cs[i], N) = 0 THEN psi[xx]
     ELSE LET r == SubIdx(x, qs, N, 1) IN
          SumD([y \in 1..(2 ^ Len(qs)) |-> Mul(U[r + 1][y], psi[SetBits(x, qs, y - 1, N, 1) + 1])])])

\* a gate is a record [name, q (targets), c (controls), p (angles in units of pi/4)]
ValidGate(g, N) ==
  /\ Len(g.q) = NQ(g.name)
  /\ \A i \in 1..Len(g.q) : g.q[i] \in 0..N - 1
  /\ \A i \in 1..Len(g.c) : g.c[i] \in 0..N - 1
  /\ \A i, j \in 1..Len(g.q) : i # j => g.q[i] # g.q[j]
  /\ \A i, j \in 1..Len(g.c) : i # j => g.c[i] # g.c[j]
  /\ \A i \in 1..Len(g.q), j \in 1..Len(g.c) : g.q[i] # g.c[j]
  /\ Len(g.p) = ParamArity(g.name)
  /\ OnGrid(g.name, g.p)
StepGate(psi, g, N) == LET U == TLCEval(GateMat(g.name, g.p)) IN Apply(psi, U, g.q, g.c, N)
RECURSIVE RunFrom(_, _, _, _)
RunFrom(psi, gs, N, i) == IF i > Len(gs) THEN psi ELSE RunFrom(StepGate(psi, gs[i], N), gs, N, i + 1)
Run(N, gs) == RunFrom(Basis(N, 0), gs, N, 1)

(* ------------------------------- queries --------------------------------- *)
Inner(a, b) == SumD([xx \in 1..Len(a) |-> Mul(Conj(a[xx]), b[xx])])
Norm2(psi)  == Inner(psi, psi)
\* amplitude <b|psi>, b a sequence of bits, b[i+1] the bit of qubit i
RECURSIVE BitsIdx(_, _)
BitsIdx(b, i) == IF i > Len(b) THEN 0 ELSE b[i] * (2 ^ (Len(b) - i)) + BitsIdx(b, i + 1)
Amp(psi, b)  == psi[BitsIdx(b, 1) + 1]
Prob(psi, b) == LET a == Amp(psi, b) IN Mul(a, Conj(a))
\* dense vector; reverse = TRUE : qubit 0 least significant
RevIdx(x, N) == SubIdx(x, [i \in 1..N |-> N - i], N, 1)
Dense(psi, N, reverse) == IF reverse THEN TLCEval([xx \in 1..(2 ^ N) |-> psi[RevIdx(xx - 1, N) + 1]]) ELSE psi
\* reduced density matrix on the qubits keep (in that order): rho[r][c] = sum_rest psi[r,rest] conj(psi[c,rest])
RDM(psi, keep, N) ==
  LET m == Len(keep) IN
  TLCEval([r \in 1..(2 ^ m) |-> [c \in 1..(2 ^ m) |->
     SumD([xx \in 1..(2 ^ N) |->
            IF SubIdx(xx - 1, keep, N, 1) = r - 1
            THEN Mul(psi[xx], Conj(psi[SetBits(xx - 1, keep, c - 1, N, 1) + 1]))
            ELSE Zero])]])
\* <psi| G_where |psi>
Expec(psi, G, where, N) == LET GG == TLCEval(G) IN Inner(psi, Apply(psi, GG, where, <<>>, N))
\* joint probability tensor of the qubits `where` (C order) and the fixed outcomes fix = sequence of <<q, b>>
Marginal(psi, where, fix, N) ==
  TLCEval([w \in 1..(2 ^ Len(where)) |->
     SumD([xx \in 1..(2 ^ N) |->
            IF /\ SubIdx(xx - 1, where, N, 1) = w - 1
               /\ \A i \in 1..Len(fix) : Bit(xx - 1, fix[i][1], N) = fix[i][2]
            THEN Mul(psi[xx], Conj(psi[xx])) ELSE Zero])])
\* the unitary of a gate list: U[r][c] = <r| U_n ... U_1 |c>
Uni(N, gs) == LET cols == TLCEval([c \in 1..(2 ^ N) |-> RunFrom(Basis(N, c - 1), gs, N, 1)])
              IN  TLCEval([r \in 1..(2 ^ N) |-> [c \in 1..(2 ^ N) |-> cols[c][r]]])

\* operators used by the expectation queries (non-symmetric and non-hermitian ones included)
OpM(name) ==
  CASE name = "Z" -> ZM [] name = "X" -> XM [] name = "Y" -> YM
    [] name = "P01" -> <<<<d0, d1>>, <<d0, d0>>>>                 \* |0><1|
    [] name = "T" -> TM
    [] name = "ZX" -> <<<<d0, d1, d0, d0>>, <<d1, d0, d0, d0>>, <<d0, d0, d0, dm1>>, <<d0, d0, dm1, d0>>>>   \* Z (x) X
    [] name = "YZ" -> <<<<d0, d0, MIm, d0>>, <<d0, d0, d0, Im>>, <<Im, d0, d0, d0>>, <<d0, MIm, d0, d0>>>>   \* Y (x) Z
    [] name = "CXOP" -> Ctrl(XM)
    [] name = "E0110" -> <<<<d0, d0, d0, d0>>, <<d0, d0, d1, d0>>, <<d0, d0, d0, d0>>, <<d0, d0, d0, d0>>>>   \* |01><10|
OpNames1 == {"Z", "X", "Y", "P01", "T"}
OpNames2 == {"ZX", "YZ", "CXOP", "E0110"}
=============================================================================
