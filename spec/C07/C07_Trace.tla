----------------------------- MODULE C07_Trace -----------------------------
(***************************************************************************)
(* Trace spec for C07.  A trace (records with one `tid`) is the history of  *)
(* ONE real circuit object: init, then gate applications, parameter         *)
(* updates, copies and queries, each record carrying what quimb returned    *)
(* (snapped onto the ring D[w]) or the exception it raised.  The spec       *)
(* carries the abstract state - the accepted gate list with the parameters  *)
(* set so far and reg = U_n ... U_1 |0> computed with the reference         *)
(* definitions of C07_Defs - and judges every observation against it.       *)
(* Relational records (random angles, larger registers) carry quantised     *)
(* differences measured with plain numpy and are required to be 0.          *)
(***************************************************************************)
EXTENDS C07_Defs, TraceIO

VARIABLES l, fails, n, gs, reg, saved, savedgs
tvars == <<l, fails, n, gs, reg, saved, savedgs>>

GateOf(j) == [name |-> j.name, q |-> j.q, c |-> j.c, p |-> j.p]
SetP(s, i, p) == [s EXCEPT ![i].p = p]
RECURSIVE SetAll(_, _, _)
SetAll(s, ps, k) == IF k > Len(ps) THEN s ELSE SetAll(SetP(s, ps[k][1] + 1, ps[k][2]), ps, k + 1)

\* the state of the object after an exception must be the state before it, on every read-out the driver made
\* (kind "vec": the dense state; kind "ez": <Z_i> for every qubit, for the Heisenberg-picture simulator)
Clean(ln, psi) == \A k \in DOMAIN ln.re :
                     /\ ln.re[k].vok
                     /\ ln.re[k].val = IF ln.re[k].kind = "vec" THEN psi
                                       ELSE [i \in 1..n |-> Expec(psi, ZM, <<i - 1>>, n)]

\* value of a query according to the reference definitions
Expected(ln, psi, gates) ==
  CASE ln.kind = "amp"    -> Amp(psi, ln.b)
    [] ln.kind = "dense"  -> Dense(psi, n, ln.rev)
    [] ln.kind = "uni"    -> Uni(n, gates)
    [] ln.kind = "ptr"    -> RDM(psi, ln.keep, n)
    [] ln.kind = "expec"  -> Expec(psi, OpM(ln.op), ln.where, n)
    [] ln.kind = "marg"   -> Marginal(psi, ln.where, ln.fix, n)
QueryClauses(ln, psi, gates) ==
  IF ln.kind \in {"sample", "gbg"}
  THEN \* (a sample of a subset `qubits` must have non-zero marginal probability)
       << <<"SampleInSupport", ln.exc = "" /\ ln.vok /\ \A k \in DOMAIN ln.val :
               IF Has(ln, "qubits") /\ ln.qubits # <<>>
               THEN ~IsZero(Marginal(psi, ln.qubits, <<>>, n)[BitsIdx(ln.val[k], 1) + 1])
               ELSE ~IsZero(Prob(psi, ln.val[k]))>> >>
  ELSE IF ln.kind = "sampleprob"
  THEN << <<"SampleInSupport", ln.exc = "" /\ ln.vok /\ \A k \in DOMAIN ln.val : ~IsZero(Prob(psi, ln.val[k][1]))>>,
          <<"SampleProbTrue",  ln.exc = "" /\ ln.vok /\ \A k \in DOMAIN ln.val : ln.val[k][2] = Prob(psi, ln.val[k][1])>> >>
  ELSE LET name == CASE ln.kind = "amp" -> "AmplitudeAgrees" [] ln.kind = "dense" -> "DenseAgrees"
                     [] ln.kind = "uni" -> "UniAgrees" [] ln.kind = "ptr" -> "PartialTraceAgrees"
                     [] ln.kind = "expec" -> "LocalExpectationAgrees" [] ln.kind = "marg" -> "MarginalAgrees"
       IN  << <<name, ln.exc = "" /\ ln.vok /\ ln.val = Expected(ln, psi, gates)>> >>

\* relational records: the driver measured (plain numpy) the distance to the statevector simulation / to a fresh
\* circuit built from the same gate list, quantised in units of the tolerance
RelName(kind) ==
  CASE kind = "amp" -> "AmplitudeAgrees" [] kind = "dense" -> "DenseAgrees" [] kind = "uni" -> "UniAgrees"
    [] kind = "ptr" -> "PartialTraceAgrees" [] kind = "expec" -> "LocalExpectationAgrees"
    [] kind = "marg" -> "MarginalAgrees" [] kind \in {"sample", "gbg"} -> "SampleInSupport"
    [] kind = "sampleprob" -> "SampleProbTrue" [] kind = "psi" -> "DenseAgrees"

Clauses(ln) ==
  CASE ln.ev = "init"  -> << <<"InitIsZeroState", ln.exc = "">> >>
    [] ln.ev = "gate"  -> IF ln.exc = "" THEN << <<"GateOnGrid", ValidGate(GateOf(ln.g), n)>> >>
                          ELSE << <<"RejectClean", Clean(ln, reg)>> >>
    [] ln.ev \in {"setp", "updp"} -> IF ln.exc = "" THEN <<>> ELSE << <<"RejectClean", Clean(ln, reg)>> >>
    [] ln.ev = "copy"  -> << <<"CopyReturns", ln.exc = "">> >>
    [] ln.ev = "switch" -> <<>>
    [] ln.ev = "rebuild" -> << <<"AcceptedGatesReapply", ln.exc = "">> >>
    [] ln.ev = "query" -> QueryClauses(ln, reg, gs)
    \* the gate's own matrix on the exact grid: textbook value, unitary (computed by TLC from the observed entries)
    [] ln.ev = "gatedef" -> << <<"GateMatrixTextbook", ln.vok /\ ln.mat = GateMat(ln.name, ln.p)>>,
                               <<"GateUnitary", ln.vok /\ IsUnitary(ln.mat)>> >>
    \* relational
    [] ln.ev = "unitary" -> << <<"GateUnitary", ln.exc = "" /\ ln.dq = 0>> >>
    [] ln.ev = "rel"     -> << <<RelName(ln.kind), ln.exc = "" /\ ln.dq = 0>> >>
    [] ln.ev = "relrej"  -> << <<"RejectClean", ln.dq = 0>> >>
    \* end of a history: the long-lived object against the numpy simulation (dqref) and against a fresh object
    \* that was given the same gate list and asked nothing before (dq)
    [] ln.ev = "stale"   -> << <<RelName(ln.kind), ln.exc = "" /\ ln.dqref = 0>>,
                               <<"NoStaleCache", ln.exc = "" /\ ln.dq = 0>> >>
    [] ln.ev = "agree"   -> << <<"AllClassesAgree", ln.dq = 0>> >>
    [] OTHER -> << <<"UnknownEvent", FALSE>> >>

TInit == l = 1 /\ fails = <<>> /\ n = 0 /\ gs = <<>> /\ reg = <<>> /\ saved = <<>> /\ savedgs = <<>>
TNext ==
  /\ l <= NLines
  /\ LET ln == TraceLog[l] IN
     /\ fails' = AddFails(fails, l, Clauses(ln))
     /\ IF ln.ev = "init"
        THEN n' = ln.N /\ gs' = <<>> /\ reg' = Basis(ln.N, 0) /\ saved' = <<>> /\ savedgs' = <<>>
        ELSE IF ln.ev = "gate" /\ ln.exc = "" /\ ValidGate(GateOf(ln.g), n)
        THEN gs' = Append(gs, GateOf(ln.g)) /\ reg' = StepGate(reg, GateOf(ln.g), n) /\ UNCHANGED <<n, saved, savedgs>>
        ELSE IF ln.ev = "setp" /\ ln.exc = ""
        THEN LET g2 == SetP(gs, ln.i + 1, ln.p) IN gs' = g2 /\ reg' = Run(n, g2) /\ UNCHANGED <<n, saved, savedgs>>
        ELSE IF ln.ev = "updp" /\ ln.exc = ""
        THEN LET g2 == SetAll(gs, ln.ps, 1) IN gs' = g2 /\ reg' = Run(n, g2) /\ UNCHANGED <<n, saved, savedgs>>
        ELSE IF ln.ev = "copy" /\ ln.exc = ""
        THEN saved' = reg /\ savedgs' = gs /\ UNCHANGED <<n, gs, reg>>
        ELSE IF ln.ev = "switch"      \* the driver continues on the other object (the copy / the original)
        THEN saved' = reg /\ savedgs' = gs /\ reg' = saved /\ gs' = savedgs /\ UNCHANGED n
        ELSE UNCHANGED <<n, gs, reg, saved, savedgs>>
  /\ l' = l + 1
TSpec == TInit /\ [][TNext]_tvars
Done == l = NLines + 1 => WriteVerdict(l - 1, fails)
=============================================================================
