SPECIFICATION Spec
CONSTANTS
  N = 3
  Cls = "exact"
  Gates <- GatesK3
  NewParams <- NewParamsC
  Queries <- QueriesK3
  MaxDepth = 4
  Record = FALSE
  Deviations <- DevCondKey
  ConeIgnoresSwap = FALSE
VIEW view
INVARIANT RejectClean
INVARIANT RegIsRun
INVARIANT NormOne
INVARIANT QueriesAgree
INVARIANT NoStaleRead
INVARIANT RecordInStep
INVARIANT StoreCurrent
CHECK_DEADLOCK FALSE
