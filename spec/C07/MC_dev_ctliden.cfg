SPECIFICATION Spec
CONSTANTS
  N = 2
  Cls = "exact"
  Gates <- GatesI2
  NewParams <- NewParamsC
  Queries <- QueriesI2
  MaxDepth = 4
  Record = FALSE
  Deviations <- DevCtlIden
  ConeIgnoresSwap = FALSE
VIEW view
INVARIANT RejectClean
INVARIANT RegIsRun
INVARIANT NormOne
INVARIANT QueriesAgree
INVARIANT NoStaleRead
INVARIANT RecordInStep
INVARIANT StoreCurrent
CHECK_DEADLOCK FALSE
