SPECIFICATION Spec
CONSTANTS
  N = 3
  Cls = "perm-ss"
  Gates <- GatesS3
  NewParams <- NewParamsC
  Queries <- QueriesS3
  MaxDepth = 5
  Record = FALSE
  Deviations <- DevSampleInfo
  ConeIgnoresSwap = FALSE
VIEW view
INVARIANT RejectClean
INVARIANT RegIsRun
INVARIANT NormOne
INVARIANT QueriesAgree
INVARIANT PermIsPerm
INVARIANT PermSound
INVARIANT InfoSound
CHECK_DEADLOCK FALSE
