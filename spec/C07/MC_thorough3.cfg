SPECIFICATION Spec
CONSTANTS
  N = 3
  Cls = "exact"
  Gates <- GatesE3
  NewParams <- NewParamsC
  Queries <- QueriesE3
  MaxDepth = 3
  Record = FALSE
  Deviations <- NoDev
  ConeIgnoresSwap = FALSE
VIEW view
INVARIANT RejectClean
INVARIANT RegIsRun
INVARIANT NormOne
INVARIANT QueriesAgree
INVARIANT NoStaleRead
INVARIANT RecordInStep
INVARIANT StoreCurrent
CHECK_DEADLOCK FALSE
