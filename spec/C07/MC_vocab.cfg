SPECIFICATION Spec
INVARIANT Unitary
INVARIANT Square
INVARIANT Canonical
INVARIANT Families
CHECK_DEADLOCK FALSE
