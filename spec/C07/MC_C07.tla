------------------------------ MODULE MC_C07 ------------------------------
(* alphabets and constants of the C07 model configurations *)
EXTENDS C07_Circuit

G(name, q, c, p)  == [name |-> name, q |-> q, c |-> c, p |-> p, par |-> FALSE]
GP(name, q, c, p) == [name |-> name, q |-> q, c |-> c, p |-> p, par |-> TRUE]
e0 == <<>>
NoDev == {}
DevPermSwap == {"perm-swap"}
DevPermCtrl == {"perm-ctrl"}
DevUpd == {"upd-special"}
DevCopy == {"copy-mss"}
DevCtlIden == {"cone-ctliden"}
DevSharedInfo == {"copy-shared-info"}
DevExpecCopy == {"expec-copy-info"}
DevCondKey == {"cond-key-values-only"}
DevSampleInfo == {"sample-shared-info"}
DevAll == {"upd-special", "copy-mss", "cone-ctliden", "perm-swap", "perm-ctrl", "copy-shared-info", "expec-copy-info", "cond-key-values-only", "sample-shared-info"}
NewParamsC == [n \in ParamNames1 \cup ParamNames2 |->
                 IF n \in {"RX", "RY", "RZ", "RXX", "RYY", "RZZ", "CRX", "CRY", "CRZ"} THEN {<<2>>, <<6>>, <<4>>}
                 ELSE IF ParamArity(n) = 1 THEN {<<1>>, <<3>>, <<6>>}
                 ELSE IF n \in {"XXPLUSYY", "XXMINUSYY"} THEN {<<2, 1>>, <<6, 3>>}
                 ELSE IF ParamArity(n) = 2 THEN {<<1, 2>>, <<3, 5>>}
                 ELSE IF ParamArity(n) = 3 THEN {<<2, 1, 3>>, <<6, 2, 7>>}
                 ELSE {<<1, 2, 3, 5, 7>>, <<3, 1, 1, 2, 6>>}]

Q(kind) == [kind |-> kind]
QAmp(b) == [kind |-> "amp", b |-> b]
QDense(r) == [kind |-> "dense", rev |-> r]
QPtr(k) == [kind |-> "ptr", keep |-> k]
QExp(op, w) == [kind |-> "expec", op |-> op, where |-> w]
QMarg(w, f) == [kind |-> "marg", where |-> w, fix |-> f]
QCond(w, f) == [kind |-> "cond", where |-> w, fix |-> f]

(* ---- exhaustive, exact Circuit, N = 2 (one representative per family and arity) *)
GatesE2 == { G("H", <<0>>, e0, e0), G("X_1_2", <<1>>, e0, e0), G("CX", <<0, 1>>, e0, e0), G("ISWAP", <<1, 0>>, e0, e0),
             G("SWAP", <<0, 1>>, e0, e0), G("IDEN", <<1>>, e0, e0), G("RY", <<1>>, e0, <<2>>),
             GP("RX", <<0>>, e0, <<2>>), GP("U1", <<1>>, e0, <<1>>), G("T", <<1>>, <<0>>, e0),
             G("R2A", <<1, 0>>, e0, e0), GP("RZ", <<1>>, <<0>>, <<2>>) }
QueriesE2 == { QAmp(<<0, 1>>), QDense(FALSE), QDense(TRUE), Q("uni"), QPtr(<<0>>), QPtr(<<1>>), QPtr(<<1, 0>>),
               QExp("P01", <<1>>), QExp("ZX", <<1, 0>>), QMarg(<<0>>, <<>>), QMarg(<<1>>, << <<0, 1>> >>), Q("sample") }
\* smaller alphabet for the quick tier
GatesE2q == { G("H", <<0>>, e0, e0), G("CX", <<0, 1>>, e0, e0), G("SWAP", <<0, 1>>, e0, e0), G("IDEN", <<1>>, e0, e0),
              GP("RX", <<0>>, e0, <<2>>), GP("U1", <<1>>, e0, <<1>>), G("T", <<1>>, <<0>>, e0), G("R2A", <<1, 0>>, e0, e0),
              G("IDEN", <<1>>, <<0>>, e0) }
QueriesE2q == { QAmp(<<0, 1>>), QDense(FALSE), Q("uni"), QPtr(<<0>>), QPtr(<<1, 0>>),
                QExp("P01", <<1>>), QMarg(<<1>>, << <<0, 1>> >>), Q("sample") }

\* the conditional-key self-test: (|000> + |011>)/sqrt2, p(q1 | q0 = 0) differs from p(q1 | q2 = 0)
GatesK3 == { G("H", <<1>>, e0, e0), G("CX", <<1, 2>>, e0, e0) }
QueriesK3 == { QCond(<<1>>, << <<0, 0>> >>), QCond(<<1>>, << <<2, 0>> >>) }
\* the copy self-test needs depth 5 (gate, query, copy, switch, sample): tiny alphabet
GatesC1 == { G("H", <<0>>, e0, e0) }
QueriesC1 == { QDense(FALSE), Q("sample") }

\* the controlled-IDEN self-test
GatesI2 == { G("H", <<0>>, e0, e0), G("H", <<1>>, e0, e0), G("IDEN", <<1>>, <<0>>, e0), G("CX", <<0, 1>>, e0, e0) }
QueriesI2 == { QPtr(<<1>>), QExp("X", <<1>>), QMarg(<<1>>, <<>>) }

\* depth 4 (thorough tier): the quick alphabet without the raw gate, the plain IDEN, uni and amp
GatesE2t == GatesE2q \ { G("R2A", <<1, 0>>, e0, e0), G("IDEN", <<1>>, e0, e0) }
QueriesE2t == QueriesE2q \ { Q("uni"), QAmp(<<0, 1>>) }

(* ---- exhaustive, exact Circuit, N = 3 *)
GatesE3 == { G("H", <<0>>, e0, e0), G("T", <<2>>, e0, e0), G("CX", <<0, 2>>, e0, e0), G("CX", <<2, 1>>, e0, e0),
             G("SWAP", <<0, 2>>, e0, e0), G("SWAP", <<1, 2>>, e0, e0), G("IDEN", <<1>>, e0, e0),
             GP("RX", <<1>>, e0, <<2>>), G("FSIM", <<1, 0>>, e0, <<1, 3>>), G("CCX", <<2, 0, 1>>, e0, e0),
             G("X", <<1>>, <<2, 0>>, e0), G("SWAP", <<0, 1>>, <<2>>, e0), G("R2A", <<2, 0>>, e0, e0),
             GP("RZ", <<1>>, <<0>>, <<2>>), G("IDEN", <<0>>, <<2>>, e0) }
QueriesE3 == { QAmp(<<1, 0, 1>>), QDense(FALSE), QPtr(<<0>>), QPtr(<<2>>), QPtr(<<2, 0>>), QPtr(<<1>>),
               QExp("P01", <<1>>), QExp("YZ", <<0, 2>>), QMarg(<<2>>, << <<0, 1>> >>), QMarg(<<1, 0>>, <<>>), Q("sample"),
               QCond(<<1>>, << <<0, 0>> >>), QCond(<<1>>, << <<2, 0>> >>) }

(* ---- CircuitPermMPS, N = 3 *)
GatesP3 == { G("H", <<0>>, e0, e0), G("T", <<2>>, e0, e0), G("CX", <<0, 2>>, e0, e0), G("CX", <<2, 0>>, e0, e0),
             G("ISWAP", <<1, 2>>, e0, e0), G("R2A", <<2, 0>>, e0, e0), G("CZ", <<1, 0>>, e0, e0), G("IDEN", <<1>>, e0, e0),
             G("RY", <<1>>, e0, <<2>>), G("X", <<1>>, <<0>>, e0), G("CCX", <<0, 2, 1>>, e0, e0),
             G("SWAP", <<0, 1>>, e0, e0), G("SWAP", <<0, 2>>, e0, e0), G("X", <<1>>, <<2>>, e0), G("CX", <<0, 1>>, <<2>>, e0),
             G("X", <<0>>, <<1>>, e0) }
GatesP3q == { G("H", <<0>>, e0, e0), G("T", <<2>>, e0, e0), G("CX", <<0, 2>>, e0, e0), G("CX", <<2, 0>>, e0, e0),
              G("R2A", <<2, 1>>, e0, e0), G("IDEN", <<1>>, e0, e0), G("X", <<1>>, <<0>>, e0), G("CCX", <<0, 2, 1>>, e0, e0),
              G("SWAP", <<0, 1>>, e0, e0), G("SWAP", <<0, 2>>, e0, e0) }
\* the canonical-form record self-tests (two live objects / a query that works on a copy of the MPS)
GatesS3 == { G("CX", <<0, 2>>, e0, e0), G("ISWAP", <<1, 2>>, e0, e0) }
QueriesS3 == { QExp("P01", <<2>>), [kind |-> "expec", op |-> "P01", where |-> <<0>>, viacopy |-> TRUE], Q("sample") }
QueriesP3 == { QDense(FALSE), QAmp(<<1, 0, 1>>), QExp("P01", <<2>>), QExp("E0110", <<2, 0>>),
               [kind |-> "expec", op |-> "P01", where |-> <<0>>, viacopy |-> TRUE], Q("sample") }

=============================================================================
