------------------------------ MODULE C07_Circuit ------------------------------
(***************************************************************************)
(* C07 - one circuit object of class Cls, its exact register, and the       *)
(* bookkeeping quimb keeps next to the tensor network at the pinned commit: *)
(*   * the gate record `_gates` and the network `_psi` (here: the gate list *)
(*     the network encodes, which a failed call can leave out of step),     *)
(*   * `_storage` / `_sampled_conditionals` / `_sample_n_gates`             *)
(*     (core.py clear_storage / _maybe_init_storage, exact.py cached        *)
(*     simplified networks, reverse light cones),                           *)
(*   * CircuitPermMPS.qubits and the physical site order of its MPS         *)
(*     (mps.py _apply_gate, tn1d gate_with_auto_swap(swap_back=False)).      *)
(* TLC checks, for every interleaving of bounded depth, that this           *)
(* implementation-shaped state implies the property-level statements:       *)
(*   every query equals its definition on reg = U_n ... U_1 |0>,            *)
(*   no query reads a memo entry computed from another history version,     *)
(*   a rejected call leaves the observable state unchanged,                 *)
(*   the permutation bookkeeping denotes reg.                               *)
(* Cls = "exact"     : Circuit (lazy network + caches + light cones)        *)
(*       "perm-ss"   : CircuitPermMPS, gate_contract = 'swap+split' (default)*)
(*       "perm-auto" : CircuitPermMPS, gate_contract = 'auto-mps'           *)
(* Deviations: names of code paths that are known not to satisfy the        *)
(* property (known findings); a path not listed is excluded from the        *)
(* alphabet, a listed one is modelled as the code behaves (self-test        *)
(* configurations must then FAIL).                                          *)
(***************************************************************************)
EXTENDS C07_Defs, Json

CONSTANTS N,           \* number of qubits
          Cls,
          Gates,       \* alphabet: set of [name, q, c, p, par]
          NewParams,   \* name -> set of parameter tuples used by SetParams / UpdateParamsFrom
          Queries,     \* alphabet: set of query records [kind, ...]
          MaxDepth,
          Record,      \* TRUE: only generate behaviours (hist) for replay, no register arithmetic
          Deviations,
          ConeIgnoresSwap   \* TRUE: mutated light cone that treats SWAP as no gate at all (model self-test)

VARIABLES gates,   \* the record `_gates` (accepted gates with their current parameters)
          reg,     \* reference state  Run(N, accepted gates with the parameters set so far)
          tn,      \* the gate list the network `_psi` encodes
          tnv,     \* the state that network denotes, Run(N, tn)
          store,   \* memo: key -> [ver, tn, gs]  (snapshot the entry was computed from)
          sng,     \* _sample_n_gates
          mss,     \* does the attribute _marginal_storage_size exist (it is created by clear_storage only)
          ver,     \* history version: bumped by every change of gates / parameters
          perm,    \* CircuitPermMPS.qubits : perm[s + 1] = logical qubit held by physical site s
          phys,    \* state of the MPS in physical site order
          ctr,     \* true orthogonality centre of that MPS (site; -1: product state, every record is sound)
          cell,    \* which `info` dict this object writes its canonical-form record into (gate_opts['info'])
          info,    \* the info dicts: info[c] = recorded centre `cur_orthog` (-1: no record yet)
          other,   \* <<>> or <<a second circuit object (made by copy)>>
          rej,     \* the last action was a rejection (an exception)
          qok,     \* the last query returned the reference value
          fresh,   \* the last query read no memo entry of another version
          depth, fam, act, hist

vars == <<gates, reg, tn, tnv, store, sng, mss, ver, perm, phys, ctr, cell, info, other, rej, qok, fresh, depth, fam, act, hist>>
view == <<gates, reg, tn, tnv, store, sng, mss, ver, perm, phys, ctr, cell, info, other, rej, qok, fresh, depth>>

Exact == Cls = "exact"
PermC == Cls \in {"perm-ss", "perm-auto"}

Min(a, b) == IF a < b THEN a ELSE b
Max(a, b) == IF a > b THEN a ELSE b
SetOfSeq(s) == {s[i] : i \in DOMAIN s}
Mask(S) == LET RECURSIVE M(_) M(T) == IF T = {} THEN 0 ELSE LET x == CHOOSE y \in T : TRUE IN 2 ^ x + M(T \ {x}) IN M(S)
EmptyStore == <<>>
Plain(g) == [name |-> g.name, q |-> g.q, c |-> g.c, p |-> g.p]

(* ---------------------- reverse light cone (exact.py 215-269) ------------- *)
RECURSIVE Cone(_, _, _, _)
Cone(gs, i, cone, acc) ==
  IF i = 0 THEN acc
  ELSE LET g == gs[i] IN
    \* (fixed in /repo 0e107742: only an IDEN without controls is skipped; before, the label was tested first and
    \*  the tensors of a controlled IDEN were dropped - deviation "cone-ctliden", self-test MC_dev_ctliden)
    IF g.name = "IDEN" /\ (g.c = <<>> \/ "cone-ctliden" \in Deviations) THEN Cone(gs, i - 1, cone, acc)
    ELSE IF g.c # <<>> THEN
      LET regs == SetOfSeq(g.c) \cup SetOfSeq(g.q) IN
      IF regs \cap cone # {} THEN Cone(gs, i - 1, cone \cup regs, acc \cup {i}) ELSE Cone(gs, i - 1, cone, acc)
    ELSE IF g.name = "SWAP" THEN
      IF ConeIgnoresSwap THEN Cone(gs, i - 1, cone, acc)
      ELSE LET a == g.q[1]  b == g.q[2]
               c1 == IF a \in cone THEN cone \cup {b} ELSE cone \ {b}
               c2 == IF b \in cone THEN c1 \cup {a} ELSE c1 \ {a}
           IN  Cone(gs, i - 1, c2, acc)
    ELSE LET regs == SetOfSeq(g.q) IN
      IF regs \cap cone # {} THEN Cone(gs, i - 1, cone \cup regs, acc \cup {i}) ELSE Cone(gs, i - 1, cone, acc)

\* the network restricted to the cone: gate tensors outside the cone are dropped from ket and bra;
\* an uncontrolled SWAP / IDEN has no tensor (it is a relabelling of the wires), so it is always in effect
Tensorless(g) == g.c = <<>> /\ g.name \in {"SWAP", "IDEN"}
ConeAll(e, where) ==
  LET keepi == Cone(e.gs, Len(e.gs), where, {}) IN
  \A i \in 1..Len(e.tn) : i \in keepi \/ Tensorless(e.tn[i])
\* Dropping the tensors of a gate cuts its wires: that is harmless only if nothing that is kept sits later on those
\* wires and none of them ends in the queried region (then ket and bra contract to the identity there).
RECURSIVE WireAt(_, _, _, _)
WireAt(gs, i, j, w) ==      \* position just before gate j of the wire that leaves gate i at position w
  IF i + 1 >= j THEN w
  ELSE LET g == gs[i + 1] IN
       WireAt(gs, i + 1, j, IF g.c = <<>> /\ g.name = "SWAP"
                            THEN (IF w = g.q[1] THEN g.q[2] ELSE IF w = g.q[2] THEN g.q[1] ELSE w) ELSE w)
Regs(g) == SetOfSeq(g.q) \cup SetOfSeq(g.c)
CutOK(e, where) ==
  LET keepi == Cone(e.gs, Len(e.gs), where, {})
      n == Len(e.tn) IN
  \A i \in 1..n : (~Tensorless(e.tn[i]) /\ i \notin keepi) =>
     /\ \A j \in (i + 1)..n : (~Tensorless(e.tn[j]) /\ j \in keepi) =>
            {WireAt(e.tn, i, j, w) : w \in Regs(e.tn[i])} \cap Regs(e.tn[j]) = {}
     /\ {WireAt(e.tn, i, n + 1, w) : w \in Regs(e.tn[i])} \cap where = {}
ConeGates(e, where) ==
  LET keepi == Cone(e.gs, Len(e.gs), where, {}) IN
  TLCEval([i \in 1..Len(e.tn) |-> IF i \in keepi \/ Tensorless(e.tn[i]) THEN Plain(e.tn[i])
                                   ELSE [name |-> "IDEN", q |-> <<0>>, c |-> <<>>, p |-> <<>>]])

(* ------------------------------ queries ----------------------------------- *)
\* a query record: [kind |-> "amp", b |-> bits] / "dense" [rev] / "uni" / "ptr" [keep] / "expec" [op, where]
\*                 / "marg" [where, fix] / "sample"
Support(psi) == {xx \in 1..Len(psi) : ~IsZero(psi[xx])}
QRef(q, psi, gs) ==
  CASE q.kind = "amp"    -> Amp(psi, q.b)
    [] q.kind = "dense"  -> Dense(psi, N, q.rev)
    [] q.kind = "uni"    -> Uni(N, gs)
    [] q.kind = "ptr"    -> RDM(psi, q.keep, N)
    [] q.kind = "expec"  -> Expec(psi, OpM(q.op), q.where, N)
    [] q.kind = "marg"   -> Marginal(psi, q.where, q.fix, N)
    [] q.kind = "sample" -> Support(psi)
    [] q.kind = "cond"   -> Marginal(psi, q.where, q.fix, N)

Region(q) == CASE q.kind = "ptr" -> SetOfSeq(q.keep)
               [] q.kind = "expec" -> SetOfSeq(q.where)
               [] q.kind = "marg" -> SetOfSeq(q.where) \cup {q.fix[i][1] : i \in DOMAIN q.fix}
               [] OTHER -> 0..N - 1
\* which memo entry a query goes through (exact.py: keys of _storage / _sampled_conditionals)
RECURSIVE ValCode(_, _, _)
ValCode(fix, i, acc) == IF i > Len(fix) THEN acc ELSE ValCode(fix, i + 1, 2 * acc + fix[i][2])   \* values, qubits ascending
QKey(q) ==
  CASE q.kind = "amp"    -> <<"psi-amp", 0>>
    [] q.kind = "dense"  -> <<"psi-dense", 0>>
    [] q.kind = "ptr"    -> <<"rdm", Mask(Region(q))>>
    [] q.kind = "expec"  -> <<"rdm", Mask(Region(q))>>
    [] q.kind = "marg"   -> IF Region(q) = 0..N - 1 THEN <<"psi-marg", 0>> ELSE <<"rdm-marg", Mask(Region(q))>>
    [] q.kind = "sample" -> <<"cond", 0>>
    \* one conditional of Circuit.sample: _sampled_conditionals[(where, tuple(sorted(result.items())))].  The key must
    \* say WHICH qubits were fixed; deviation "cond-key-values-only": only their values (self-test MC_dev_condkey)
    [] q.kind = "cond"   -> <<"cond", 10000 * (q.where[1] + 1) + 100 * (IF "cond-key-values-only" \in Deviations THEN 0 ELSE Mask({q.fix[i][1] : i \in DOMAIN q.fix}))
                                      + ValCode(q.fix, 1, 1)>>
    [] q.kind = "uni"    -> <<"none", 0>>
    [] OTHER             -> <<"none", 0>>      \* kinds that exist only in the replays (sampleprob, gbg)
\* the value the implementation returns from the snapshot e = [ver, sv (= Run(N, tn)), tn, gs]
ConeState(e, where) == IF ConeAll(e, where) THEN e.sv
                       ELSE IF ~CutOK(e, where) THEN <<>>          \* a cut wire: garbage or KeyError, never the value
                       ELSE Run(N, ConeGates(e, where))
QImpl(q, e) ==
  CASE q.kind = "amp"    -> Amp(e.sv, q.b)
    [] q.kind = "dense"  -> Dense(e.sv, N, q.rev)
    [] q.kind = "uni"    -> Uni(N, e.tn)
    [] q.kind = "ptr"    -> LET st == ConeState(e, Region(q)) IN IF st = <<>> THEN <<>> ELSE RDM(st, q.keep, N)
    [] q.kind = "expec"  -> LET st == ConeState(e, Region(q)) IN IF st = <<>> THEN <<>> ELSE Expec(st, OpM(q.op), q.where, N)
    [] q.kind = "marg"   -> LET st == IF Region(q) = 0..N - 1 THEN e.sv ELSE ConeState(e, Region(q)) IN
                            IF st = <<>> THEN <<>> ELSE Marginal(st, q.where, q.fix, N)
    [] q.kind = "sample" -> Support(e.sv)
    [] q.kind = "cond"   -> Marginal(e.sv, e.q.where, e.q.fix, N)       \* the stored conditional is the one of the FIRST query with this key

(* --------------------- CircuitPermMPS bookkeeping -------------------------- *)
IndexOf(s, x) == (CHOOSE i \in DOMAIN s : s[i] = x) - 1
PopAt(s, j0)    == [i \in 1..Len(s) - 1 |-> IF i < j0 + 1 THEN s[i] ELSE s[i + 1]]      \* list.pop(j0), 0-based
InsertAt(s, i0, x) == [i \in 1..Len(s) + 1 |-> IF i < i0 + 1 THEN s[i] ELSE IF i = i0 + 1 THEN x ELSE s[i - 1]]
\* physical effect of swap_site_to(j, t) for t <= j : site j is moved to t, sites t..j-1 move one up
MoveSite(v, j, t) ==
  TLCEval([yy \in 1..(2 ^ N) |->
     LET y == yy - 1
         \* old basis index x whose moved image is y: old bit j = new bit t, old bit s (t <= s < j) = new bit s+1
         src == [s \in 0..N - 1 |-> IF s = j THEN t ELSE IF s >= t /\ s < j THEN s + 1 ELSE s]
         x == SubIdx(y, [i \in 1..N |-> src[i - 1]], N, 1)
     IN v[x + 1]])
\* the state in logical qubit order: site s holds qubit perm[s+1]
Logical(v, pm) ==
  TLCEval([xx \in 1..(2 ^ N) |-> v[SubIdx(xx - 1, pm, N, 1) + 1]])

(* ------------------------------ actions ------------------------------------ *)
Me == [gates |-> gates, reg |-> reg, tn |-> tn, tnv |-> tnv, store |-> store, sng |-> sng, mss |-> mss, ver |-> ver, perm |-> perm, phys |-> phys,
       ctr |-> ctr, cell |-> cell]
\* Per-action coverage.  TLC's own -coverage builds a cost tree that expands every operator application of the
\* ring arithmetic in place (it does not fit in memory for this specification), so the actions count themselves
\* in TLC registers (one set per worker) and report when a counter reaches a power of ten.
ActNo(op) == CASE op = "gate" -> 1 [] op = "reject" -> 2 [] op = "setp" -> 3 [] op = "updp" -> 4 [] op = "copy" -> 5
               [] op = "switch" -> 6 [] op = "query" -> 7 [] op = "query-cached" -> 8 [] op = "query-cone" -> 9
Tick(op) == LET k == ActNo(op)
                c == TLCGet(k) + 1
            IN  /\ TLCSet(k, c)
                /\ (c \in {1, 10, 100, 1000, 10000, 100000, 1000000} => PrintT(<<"QVACT", op, c>>))
ASSUME \A k \in 1..9 : TLCSet(k, 0)
Bump(a) == /\ depth < MaxDepth /\ depth' = depth + 1 /\ act' = a /\ fam' = "none"
           /\ hist' = IF Record THEN Append(hist, a) ELSE hist
           /\ IF Record THEN TRUE ELSE Tick(a.op)
           /\ IF Record \/ ~rej' THEN TRUE ELSE Tick("reject")

ParamCtl(g) == g.par /\ g.c # <<>>            \* PArray has no reshape: AttributeError before anything is touched

\* ---- exact Circuit
ApplyExact(g) ==
  /\ Exact
  /\ IF ParamCtl(g)
     THEN /\ UNCHANGED <<gates, reg, tn, tnv, ver>> /\ rej' = TRUE
     ELSE /\ gates' = Append(gates, g) /\ tn' = Append(tn, g) /\ ver' = ver + 1 /\ rej' = FALSE
          /\ LET r1 == StepGate(reg, g, N) IN
             /\ reg' = IF Record THEN reg ELSE r1
             /\ tnv' = IF Record THEN tnv ELSE IF tnv = reg THEN r1 ELSE StepGate(tnv, g, N)
  /\ UNCHANGED <<store, sng, mss, perm, phys, ctr, cell, info, other, qok, fresh>>

\* ---- CircuitPermMPS._apply_gate
ApplyPerm(g) ==
  /\ PermC /\ ~g.par
  /\ LET physq == [i \in 1..Len(g.q) |-> IndexOf(perm, g.q[i])]
         two   == Len(physq) = 2
         i0    == IF two THEN Min(physq[1], physq[2]) ELSE 0
         j0    == IF two THEN Max(physq[1], physq[2]) ELSE 0
         perm1 == IF two THEN InsertAt(PopAt(perm, j0), i0 + 1, perm[j0 + 1]) ELSE perm     \* mutated FIRST
         U     == GateMat(g.name, g.p)
         \* nc = the centre the gate routine leaves and records (-9: leaves both as they are)
         accept2(newphys, nc) ==
                            /\ gates' = Append(gates, g) /\ tn' = Append(tn, g) /\ ver' = ver + 1
                            /\ perm' = perm1 /\ rej' = FALSE
                            /\ ctr' = IF nc = 0 - 9 THEN ctr ELSE nc
                            /\ info' = IF nc = 0 - 9 THEN info ELSE [info EXCEPT ![cell] = nc]
                            /\ phys' = IF Record THEN phys ELSE newphys
                            /\ reg' = IF Record THEN reg ELSE StepGate(reg, g, N)
         accept(newphys) == accept2(newphys, 0 - 9)
         raise(p2) == /\ UNCHANGED <<gates, reg, tn, ver, phys, ctr, info>> /\ perm' = p2 /\ rej' = TRUE
     IN
     IF g.c # <<>> THEN
        IF Cls = "perm-ss"
        THEN \* apply_controlled_gate: ValueError "Contract method 'swap+split' not supported"
             /\ (two => "perm-ctrl" \in Deviations)
             /\ raise(perm1)
        ELSE \* 'auto-mps': sub-MPO on sorted(controls + physical targets): the controls are NOT translated
             /\ "perm-ctrl" \in Deviations
             /\ SetOfSeq(g.c) \cap SetOfSeq(physq) = {}
             /\ accept2(Apply(phys, U, physq, g.c, N), 0)         \* (sub-MPO route: some consistent record)
     ELSE IF g.name = "SWAP" THEN
        \* apply_swap -> swap_sites_with_compress_(i, j, swap_back=False, ...) : TypeError
        /\ (perm1 # perm => "perm-swap" \in Deviations)
        /\ raise(perm1)
     ELSE IF g.name = "IDEN" THEN accept(phys)
     ELSE IF Len(physq) = 1 THEN accept(Apply(phys, U, physq, <<>>, N))
     ELSE IF Len(physq) = 2 THEN
        \* gate_with_auto_swap(G, where, swap_back=False): site j0 is moved next to i0, then the gate
        LET fw == IF physq[1] < physq[2] THEN <<i0, i0 + 1>> ELSE <<i0 + 1, i0>>
        IN  accept2(Apply(MoveSite(phys, j0, i0 + 1), U, fw, <<>>, N), i0 + 1)    \* info["cur_orthog"] = (i+1, i+1)
     ELSE IF Cls = "perm-ss" THEN raise(perm1)         \* 3 sites with swap+split: ValueError, nothing touched
     ELSE accept2(Apply(phys, U, physq, <<>>, N), 0)   \* 'nonlocal' sub-MPO, no site movement
  /\ UNCHANGED <<store, sng, mss, other, qok, fresh, tnv, cell>>

ApplyGate(g) == (ApplyExact(g) \/ ApplyPerm(g)) /\ Bump([op |-> "gate", g |-> g])

\* ---- set_params({i: p})   (core.py 339-387)
SetP(gs, i, p) == [gs EXCEPT ![i].p = p]
SetParams(i, p) ==
  /\ Exact /\ i \in DOMAIN gates /\ gates[i].par /\ p \in NewParams[gates[i].name] /\ p # gates[i].p
  /\ gates' = SetP(gates, i, p) /\ tn' = SetP(tn, i, p)
  /\ LET r1 == Run(N, SetP(gates, i, p)) IN
     /\ reg' = IF Record THEN reg ELSE r1
     /\ tnv' = IF Record THEN tnv ELSE IF tn = gates THEN r1 ELSE Run(N, SetP(tn, i, p))
  /\ store' = EmptyStore /\ sng' = Len(gates) /\ mss' = TRUE /\ ver' = ver + 1 /\ rej' = FALSE     \* clear_storage()
  /\ UNCHANGED <<perm, phys, ctr, cell, info, other, qok, fresh>>
  /\ Bump([op |-> "setp", i |-> i - 1, p |-> p])

\* ---- update_params_from(tn)   (core.py 1246-1284): tn = a copy of the network in which every parametrized
\*      gate got a new value (here: gate i gets p, the others get their successor value NextP)
NextP(g) == IF g.par THEN (CHOOSE p \in NewParams[g.name] : p # g.p) ELSE g.p
UpdateParams ==
  /\ Exact /\ \E i \in DOMAIN gates : gates[i].par
  /\ LET \* tn[GATE_i] raises KeyError (no tensor) / the label check raises ValueError (raw gates carry no label tag)
         bad == {i \in DOMAIN gates : Tensorless(gates[i]) \/ gates[i].name \in RawNames1 \cup RawNames2 \cup RawNames3}
         stop == IF bad = {} THEN Len(gates) + 1 ELSE CHOOSE i \in bad : \A j \in bad : i <= j
         upd(gs) == TLCEval([i \in DOMAIN gs |-> IF i < stop THEN [gs[i] EXCEPT !.p = NextP(gates[i])] ELSE gs[i]])
     IN
     /\ (bad # {} => "upd-special" \in Deviations)
     /\ IF bad = {}
        THEN /\ gates' = upd(gates) /\ tn' = upd(tn) /\ rej' = FALSE
             /\ LET r1 == Run(N, upd(gates)) IN
                /\ reg' = IF Record THEN reg ELSE r1
                /\ tnv' = IF Record THEN tnv ELSE IF tn = gates THEN r1 ELSE Run(N, upd(tn))
             /\ store' = EmptyStore /\ sng' = Len(gates) /\ mss' = TRUE /\ ver' = ver + 1
        ELSE \* KeyError in the middle of the loop: earlier gates are already updated, clear_storage() is not reached
             /\ gates' = upd(gates) /\ tn' = upd(tn) /\ rej' = TRUE
             /\ tnv' = IF Record THEN tnv ELSE Run(N, upd(tn))
             /\ UNCHANGED <<reg, store, sng, mss>> /\ ver' = ver + 1
  /\ UNCHANGED <<perm, phys, ctr, cell, info, other, qok, fresh>>
  /\ Bump([op |-> "updp", ps |-> SelectSeq([i \in DOMAIN gates |-> <<i - 1, NextP(gates[i])>>], LAMBDA t : gates[t[1] + 1].par)])

\* ---- copy() and continuing on either object
Copy ==
  /\ other = <<>> /\ Len(gates) > 0
  \* before /repo b38acc9f copy() copied _storage, _sampled_conditionals and _sample_n_gates but not
  \* _marginal_storage_size (deviation "copy-mss", self-test MC_dev_copy); now it is set in __init__ and copied
  \* copy() rebuilds gate_opts with tree_map, so the copy gets its own info dict holding the same record; a shallow
  \* copy of gate_opts would share the dict (deviation "copy-shared-info", self-test MC_dev_sharedinfo)
  /\ LET shared == "copy-shared-info" \in Deviations
         nc == IF shared THEN cell ELSE 3 - cell IN
     /\ other' = <<[Me EXCEPT !.mss = IF "copy-mss" \in Deviations THEN FALSE ELSE mss, !.cell = nc]>>
     /\ info' = [info EXCEPT ![nc] = info[cell]]
  /\ rej' = FALSE
  /\ UNCHANGED <<gates, reg, tn, tnv, store, sng, mss, ver, perm, phys, ctr, cell, qok, fresh>>
  /\ Bump([op |-> "copy"])
Switch ==
  /\ other # <<>>
  /\ LET oth == other[1] IN
     /\ gates' = oth.gates /\ reg' = oth.reg /\ tn' = oth.tn /\ tnv' = oth.tnv /\ store' = oth.store /\ sng' = oth.sng /\ mss' = oth.mss /\ ver' = oth.ver
     /\ perm' = oth.perm /\ phys' = oth.phys /\ ctr' = oth.ctr /\ cell' = oth.cell
  /\ other' = <<Me>> /\ rej' = FALSE
  /\ UNCHANGED <<qok, fresh, info>>
  /\ Bump([op |-> "switch"])

\* ---- queries
QueryExact(q) ==
  /\ Exact
  /\ LET init   == sng # Len(gates)                        \* _maybe_init_storage
         store0 == IF init THEN EmptyStore ELSE store
         key    == QKey(q)
         cached == key[1] # "none" /\ key \in DOMAIN store0
         e      == IF cached THEN store0[key] ELSE [ver |-> ver, sv |-> tnv, tn |-> tn, gs |-> gates, q |-> q]
     IN
     /\ sng' = IF key[1] = "none" THEN sng ELSE Len(gates)
     /\ mss' = IF key[1] # "none" /\ init THEN TRUE ELSE mss
     /\ store' = IF key[1] = "none" THEN store ELSE IF cached THEN store0 ELSE (key :> e) @@ store0
     /\ fresh' = (e.ver = ver)
     /\ IF Record \/ ~cached THEN TRUE ELSE Tick("query-cached")
     /\ IF Record \/ ~(q.kind \in {"ptr", "expec", "marg"} /\ Region(q) # 0..N - 1 /\ ~ConeAll(e, Region(q))) THEN TRUE
        ELSE Tick("query-cone")
     \* (when the snapshot is the current history and no gate is dropped by the cone the two sides are the
     \*  same expression: not evaluated twice)
     /\ qok' = IF Record THEN TRUE
               ELSE IF q.kind = "sample" /\ ~(init \/ mss) THEN FALSE      \* AttributeError: the query does not return
               ELSE IF q.kind = "uni" THEN (e.tn = gates \/ Uni(N, e.tn) = Uni(N, gates))
               ELSE IF q.kind = "cond" THEN (e.sv = reg /\ e.q = q) \/ QImpl(q, e) = QRef(q, reg, gates)
               ELSE IF e.sv = reg /\ (q.kind \in {"amp", "dense", "sample"} \/ Region(q) = 0..N - 1 \/ ConeAll(e, Region(q))) THEN TRUE
               ELSE QImpl(q, e) = QRef(q, reg, gates)
  /\ UNCHANGED <<gates, reg, tn, tnv, ver, perm, phys, ctr, cell, info, other>> /\ rej' = FALSE
\* local_expectation_canonical(G, where, info=gate_opts['info']): trusts the recorded centre, moves the centre to
\* `where` and records it.  With dtype= / convert_eager=False it works on a COPY of the MPS but still writes the
\* shared record (q.viacopy; deviation "expec-copy-info", was KF-C07-9).
Sound == info[cell] = 0 - 1 \/ ctr = 0 - 1 \/ info[cell] = ctr
ViaCopy(q) == "viacopy" \in DOMAIN q /\ q.viacopy
QueryPerm(q) ==
  /\ PermC /\ q.kind \in {"dense", "expec", "amp", "sample"}
  /\ LET pw == IF q.kind = "expec" THEN [i \in 1..Len(q.where) |-> IndexOf(perm, q.where[i])] ELSE <<0>>
         w0 == IF Len(pw) = 1 THEN pw[1] ELSE Min(pw[1], pw[2]) IN
     /\ qok' = IF Record THEN TRUE
               ELSE IF q.kind = "dense" THEN Dense(Logical(phys, perm), N, q.rev) = QRef(q, reg, gates)
               ELSE IF q.kind = "amp" THEN Amp(Logical(phys, perm), q.b) = QRef(q, reg, gates)
               ELSE IF q.kind = "sample" THEN Support(Logical(phys, perm)) = QRef(q, reg, gates)
               ELSE Sound /\ Expec(phys, OpM(q.op), pw, N) = QRef(q, reg, gates)
     /\ ctr' = IF q.kind = "expec" /\ ~ViaCopy(q) THEN w0 ELSE ctr
     \* (fixed in /repo: a converted copy gets a private copy of the record; before, the object's record was
     \*  overwritten - deviation "expec-copy-info", self-test MC_dev_expeccopy)
     \* MatrixProductState.sample canonicalises a copy; handing it the object's info record would make the record
     \* say (0, 0) for a network whose centre did not move (deviation "sample-shared-info", self-test MC_dev_sampleinfo)
     /\ info' = IF q.kind = "expec" /\ (~ViaCopy(q) \/ "expec-copy-info" \in Deviations)
                THEN [info EXCEPT ![cell] = w0]
                ELSE IF q.kind = "sample" /\ "sample-shared-info" \in Deviations THEN [info EXCEPT ![cell] = 0]
                ELSE info
  /\ UNCHANGED <<gates, reg, tn, tnv, ver, perm, phys, cell, other, store, sng, mss, fresh>> /\ rej' = FALSE
Query(q) == (QueryExact(q) \/ QueryPerm(q)) /\ Bump([op |-> "query", q |-> q])

Init ==
  /\ gates = <<>> /\ tn = <<>> /\ store = EmptyStore /\ sng = 0 - 1 /\ mss = ("copy-mss" \notin Deviations) /\ ver = 0
  /\ reg = IF Record THEN <<>> ELSE Basis(N, 0)
  /\ tnv = IF Record \/ ~Exact THEN <<>> ELSE Basis(N, 0)
  /\ phys = IF Record \/ Exact THEN <<>> ELSE Basis(N, 0)
  /\ perm = [i \in 1..N |-> i - 1]
  /\ ctr = 0 - 1 /\ cell = 1 /\ info = <<0 - 1, 0 - 1>>
  /\ other = <<>> /\ rej = FALSE /\ qok = TRUE /\ fresh = TRUE
  /\ depth = 0 /\ fam = "none" /\ act = [op |-> "init"] /\ hist = <<>>

GateFam(g) == IF g.c # <<>> THEN "ctl" ELSE IF g.name \in RawNames1 \cup RawNames2 \cup RawNames3 THEN "raw"
              ELSE IF g.par THEN "par" ELSE IF ParamArity(g.name) > 0 THEN "ang"
              ELSE IF g.name \in {"SWAP", "IDEN"} THEN "spc" ELSE IF Len(g.q) = 1 THEN "c1"
              ELSE IF Len(g.q) = 2 THEN "c2" ELSE "c3"
QFam(q) == "q:" \o q.kind
Fams == {"c1", "c2", "c3", "ang", "par", "par2", "ctl", "raw", "spc", "setp", "setp2", "updp", "updp2", "copy", "switch", "switch2"}
        \cup {QFam(q) : q \in Queries}

ApplyGateA    == \E g \in Gates : (fam = "none" \/ fam = GateFam(g) \/ (fam = "par2" /\ GateFam(g) = "par")) /\ ApplyGate(g)
SetParamsA    == (fam \in {"none", "setp", "setp2"}) /\ \E i \in DOMAIN gates : gates[i].par /\ \E p \in NewParams[gates[i].name] : SetParams(i, p)
UpdateParamsA == (fam \in {"none", "updp", "updp2"}) /\ UpdateParams
CopyA         == (fam \in {"none", "copy"}) /\ Copy
SwitchA       == (fam \in {"none", "copy", "switch", "switch2"}) /\ Switch
QueryA        == \E q \in Queries : (fam = "none" \/ fam = QFam(q)) /\ Query(q)
Step == ApplyGateA \/ SetParamsA \/ UpdateParamsA \/ CopyA \/ SwitchA \/ QueryA
\* behaviour generation draws the kind of the next action first, so that the kinds are balanced
ChooseFam == /\ Record /\ fam = "none" /\ depth < MaxDepth /\ \E f \in Fams : fam' = f
             /\ UNCHANGED <<gates, reg, tn, tnv, store, sng, mss, ver, perm, phys, ctr, cell, info, other, rej, qok, fresh, depth, act, hist>>
GiveUp == /\ Record /\ fam \notin {"none", "done"} /\ ~ENABLED Step /\ fam' = "none"
          /\ UNCHANGED <<gates, reg, tn, tnv, store, sng, mss, ver, perm, phys, ctr, cell, info, other, rej, qok, fresh, depth, act, hist>>
\* (the simulator evaluates invariants on every candidate successor: the behaviour is emitted from the single
\*  successor of a state that was really reached at the depth bound)
Finish == /\ Record /\ depth = MaxDepth /\ fam = "none" /\ fam' = "done"
          /\ UNCHANGED <<gates, reg, tn, tnv, store, sng, mss, ver, perm, phys, ctr, cell, info, other, rej, qok, fresh, depth, act, hist>>
Next == IF Record THEN (ChooseFam \/ (fam \notin {"none", "done"} /\ Step) \/ GiveUp \/ Finish) ELSE Step
Spec == Init /\ [][Next]_vars

EmitJson == (Record /\ fam = "done") => PrintT(<<"QVJSON", ToJson(hist)>>)

(* ------------------------------ properties --------------------------------- *)
\* the alphabet is well formed (unitarity of the whole vocabulary is checked by C07_Vocab)
ASSUME AlphabetValid == \A g \in Gates : ValidGate(Plain(g), N)
\* property level
RegIsRun       == Record \/ reg = Run(N, gates)                     \* reg is U_n ... U_1 |0> of the accepted gates
NormOne        == Record \/ Norm2(reg) = One
QueriesAgree   == qok                                               \* every query equals its definition on reg
NoStaleRead    == fresh                                             \* ... and never reads another version's memo
RejectClean    == Record \/ (rej => /\ (Exact => tnv = reg)
                                    /\ (PermC => Logical(phys, perm) = reg))
RecordInStep   == Record \/ (Exact => tn = gates /\ tnv = (IF tn = gates THEN reg ELSE Run(N, tn)))   \* `_gates` describes the network
PermIsPerm     == SetOfSeq(perm) = 0..N - 1
PermSound      == Record \/ (PermC => Logical(phys, perm) = reg)
\* the canonical-form record the object will trust is true for ITS OWN network (both live objects)
InfoSound      == PermC => /\ Sound
                           /\ other # <<>> => LET o2 == other[1] IN
                                 info[o2.cell] = 0 - 1 \/ o2.ctr = 0 - 1 \/ info[o2.cell] = o2.ctr
\* every memo entry that a query could still be served from is current
StoreCurrent   == Exact => (sng = Len(gates) => \A k \in DOMAIN store : store[k].ver = ver)
=============================================================================
