SPECIFICATION Spec
CONSTANTS
  N = 2
  Cls = "exact"
  Gates <- GatesE2t
  NewParams <- NewParamsC
  Queries <- QueriesE2t
  MaxDepth = 4
  Record = FALSE
  Deviations <- NoDev
  ConeIgnoresSwap = FALSE
VIEW view
INVARIANT RejectClean
INVARIANT RegIsRun
INVARIANT NormOne
INVARIANT QueriesAgree
INVARIANT NoStaleRead
INVARIANT RecordInStep
INVARIANT StoreCurrent
CHECK_DEADLOCK FALSE
