SPECIFICATION Spec
CONSTANTS
  N = 3
  Cls = "exact"
  Gates <- GatesFull
  NewParams <- NewParamsC
  Queries <- QueriesFull
  MaxDepth = 12
  Record = TRUE
  Deviations <- DevAll
  ConeIgnoresSwap = FALSE
INVARIANT EmitJson
CHECK_DEADLOCK FALSE
