---- MODULE MC_C07sim_TTrace_1790387580 ----
EXTENDS MC_C07sim, Sequences, TLCExt, Toolbox, Naturals, TLC

_expression ==
    LET MC_C07sim_TEExpression == INSTANCE MC_C07sim_TEExpression
    IN MC_C07sim_TEExpression!expression
----

_trace ==
    LET MC_C07sim_TETrace == INSTANCE MC_C07sim_TETrace
    IN MC_C07sim_TETrace!trace
----

_inv ==
    ~(
        TLCGet("level") = Len(_TETrace)
        /\
        ver = (5)
        /\
        other = (<<>>)
        /\
        perm = (<<0, 1, 2>>)
        /\
        phys = (<<>>)
        /\
        store = (<<>>)
        /\
        qok = (TRUE)
        /\
        sng = (-1)
        /\
        gates = (<<[c |-> <<>>, p |-> <<>>, q |-> <<2>>, name |-> "IDEN", par |-> FALSE], [c |-> <<>>, p |-> <<1>>, q |-> <<1, 2>>, name |-> "CU1", par |-> TRUE], [c |-> <<>>, p |-> <<>>, q |-> <<1, 2>>, name |-> "CZ", par |-> FALSE], [c |-> <<>>, p |-> <<4>>, q |-> <<0>>, name |-> "RY", par |-> FALSE], [c |-> <<>>, p |-> <<>>, q |-> <<0, 2>>, name |-> "CNOT", par |-> FALSE]>>)
        /\
        hist = (<<[op |-> "gate", g |-> [c |-> <<>>, p |-> <<>>, q |-> <<2>>, name |-> "IDEN", par |-> FALSE]], [op |-> "gate", g |-> [c |-> <<>>, p |-> <<1>>, q |-> <<1, 2>>, name |-> "CU1", par |-> TRUE]], [op |-> "gate", g |-> [c |-> <<>>, p |-> <<>>, q |-> <<1, 2>>, name |-> "CZ", par |-> FALSE]], [op |-> "gate", g |-> [c |-> <<>>, p |-> <<4>>, q |-> <<0>>, name |-> "RY", par |-> FALSE]], [op |-> "gate", g |-> [c |-> <<>>, p |-> <<>>, q |-> <<0, 2>>, name |-> "CNOT", par |-> FALSE]]>>)
        /\
        act = ([op |-> "gate", g |-> [c |-> <<>>, p |-> <<>>, q |-> <<0, 2>>, name |-> "CNOT", par |-> FALSE]])
        /\
        fam = ("query")
        /\
        depth = (5)
        /\
        reg = (<<>>)
        /\
        rej = (FALSE)
        /\
        tn = (<<[c |-> <<>>, p |-> <<>>, q |-> <<2>>, name |-> "IDEN", par |-> FALSE], [c |-> <<>>, p |-> <<1>>, q |-> <<1, 2>>, name |-> "CU1", par |-> TRUE], [c |-> <<>>, p |-> <<>>, q |-> <<1, 2>>, name |-> "CZ", par |-> FALSE], [c |-> <<>>, p |-> <<4>>, q |-> <<0>>, name |-> "RY", par |-> FALSE], [c |-> <<>>, p |-> <<>>, q |-> <<0, 2>>, name |-> "CNOT", par |-> FALSE]>>)
        /\
        fresh = (TRUE)
        /\
        tnv = (<<>>)
    )
----

_init ==
    /\ reg = _TETrace[1].reg
    /\ rej = _TETrace[1].rej
    /\ ver = _TETrace[1].ver
    /\ qok = _TETrace[1].qok
    /\ fresh = _TETrace[1].fresh
    /\ gates = _TETrace[1].gates
    /\ store = _TETrace[1].store
    /\ perm = _TETrace[1].perm
    /\ phys = _TETrace[1].phys
    /\ sng = _TETrace[1].sng
    /\ act = _TETrace[1].act
    /\ other = _TETrace[1].other
    /\ hist = _TETrace[1].hist
    /\ tn = _TETrace[1].tn
    /\ fam = _TETrace[1].fam
    /\ tnv = _TETrace[1].tnv
    /\ depth = _TETrace[1].depth
----

_next ==
    /\ \E i,j \in DOMAIN _TETrace:
        /\ \/ /\ j = i + 1
              /\ i = TLCGet("level")
        /\ reg  = _TETrace[i].reg
        /\ reg' = _TETrace[j].reg
        /\ rej  = _TETrace[i].rej
        /\ rej' = _TETrace[j].rej
        /\ ver  = _TETrace[i].ver
        /\ ver' = _TETrace[j].ver
        /\ qok  = _TETrace[i].qok
        /\ qok' = _TETrace[j].qok
        /\ fresh  = _TETrace[i].fresh
        /\ fresh' = _TETrace[j].fresh
        /\ gates  = _TETrace[i].gates
        /\ gates' = _TETrace[j].gates
        /\ store  = _TETrace[i].store
        /\ store' = _TETrace[j].store
        /\ perm  = _TETrace[i].perm
        /\ perm' = _TETrace[j].perm
        /\ phys  = _TETrace[i].phys
        /\ phys' = _TETrace[j].phys
        /\ sng  = _TETrace[i].sng
        /\ sng' = _TETrace[j].sng
        /\ act  = _TETrace[i].act
        /\ act' = _TETrace[j].act
        /\ other  = _TETrace[i].other
        /\ other' = _TETrace[j].other
        /\ hist  = _TETrace[i].hist
        /\ hist' = _TETrace[j].hist
        /\ tn  = _TETrace[i].tn
        /\ tn' = _TETrace[j].tn
        /\ fam  = _TETrace[i].fam
        /\ fam' = _TETrace[j].fam
        /\ tnv  = _TETrace[i].tnv
        /\ tnv' = _TETrace[j].tnv
        /\ depth  = _TETrace[i].depth
        /\ depth' = _TETrace[j].depth

\* Uncomment the ASSUME below to write the states of the error trace
\* to the given file in Json format. Note that you can pass any tuple
\* to `JsonSerialize`. For example, a sub-sequence of _TETrace.
    \* ASSUME
    \*     LET J == INSTANCE Json
    \*         IN J!JsonSerialize("MC_C07sim_TTrace_1790387580.json", _TETrace)

=============================================================================

 Note that you can extract this module `MC_C07sim_TEExpression`
  to a dedicated file to reuse `expression` (the module in the 
  dedicated `MC_C07sim_TEExpression.tla` file takes precedence 
  over the module `MC_C07sim_TEExpression` below).

---- MODULE MC_C07sim_TEExpression ----
EXTENDS MC_C07sim, Sequences, TLCExt, Toolbox, Naturals, TLC

expression == 
    [
        \* To hide variables of the `MC_C07sim` spec from the error trace,
        \* remove the variables below.  The trace will be written in the order
        \* of the fields of this record.
        reg |-> reg
        ,rej |-> rej
        ,ver |-> ver
        ,qok |-> qok
        ,fresh |-> fresh
        ,gates |-> gates
        ,store |-> store
        ,perm |-> perm
        ,phys |-> phys
        ,sng |-> sng
        ,act |-> act
        ,other |-> other
        ,hist |-> hist
        ,tn |-> tn
        ,fam |-> fam
        ,tnv |-> tnv
        ,depth |-> depth
        
        \* Put additional constant-, state-, and action-level expressions here:
        \* ,_stateNumber |-> _TEPosition
        \* ,_regUnchanged |-> reg = reg'
        
        \* Format the `reg` variable as Json value.
        \* ,_regJson |->
        \*     LET J == INSTANCE Json
        \*     IN J!ToJson(reg)
        
        \* Lastly, you may build expressions over arbitrary sets of states by
        \* leveraging the _TETrace operator.  For example, this is how to
        \* count the number of times a spec variable changed up to the current
        \* state in the trace.
        \* ,_regModCount |->
        \*     LET F[s \in DOMAIN _TETrace] ==
        \*         IF s = 1 THEN 0
        \*         ELSE IF _TETrace[s].reg # _TETrace[s-1].reg
        \*             THEN 1 + F[s-1] ELSE F[s-1]
        \*     IN F[_TEPosition - 1]
    ]

=============================================================================



Parsing and semantic processing can take forever if the trace below is long.
 In this case, it is advised to uncomment the module below to deserialize the
 trace from a generated binary file.

\*
\*---- MODULE MC_C07sim_TETrace ----
\*EXTENDS MC_C07sim, IOUtils, TLC
\*
\*trace == IODeserialize("MC_C07sim_TTrace_1790387580.bin", TRUE)
\*
\*=============================================================================
\*

---- MODULE MC_C07sim_TETrace ----
EXTENDS MC_C07sim, TLC

trace == 
    <<
    ([ver |-> 0,other |-> <<>>,perm |-> <<0, 1, 2>>,phys |-> <<>>,store |-> <<>>,qok |-> TRUE,sng |-> -1,gates |-> <<>>,hist |-> <<>>,act |-> [op |-> "init"],fam |-> "none",depth |-> 0,reg |-> <<>>,rej |-> FALSE,tn |-> <<>>,fresh |-> TRUE,tnv |-> <<>>]),
    ([ver |-> 0,other |-> <<>>,perm |-> <<0, 1, 2>>,phys |-> <<>>,store |-> <<>>,qok |-> TRUE,sng |-> -1,gates |-> <<>>,hist |-> <<>>,act |-> [op |-> "init"],fam |-> "copy",depth |-> 0,reg |-> <<>>,rej |-> FALSE,tn |-> <<>>,fresh |-> TRUE,tnv |-> <<>>]),
    ([ver |-> 0,other |-> <<>>,perm |-> <<0, 1, 2>>,phys |-> <<>>,store |-> <<>>,qok |-> TRUE,sng |-> -1,gates |-> <<>>,hist |-> <<>>,act |-> [op |-> "init"],fam |-> "none",depth |-> 0,reg |-> <<>>,rej |-> FALSE,tn |-> <<>>,fresh |-> TRUE,tnv |-> <<>>]),
    ([ver |-> 0,other |-> <<>>,perm |-> <<0, 1, 2>>,phys |-> <<>>,store |-> <<>>,qok |-> TRUE,sng |-> -1,gates |-> <<>>,hist |-> <<>>,act |-> [op |-> "init"],fam |-> "spc",depth |-> 0,reg |-> <<>>,rej |-> FALSE,tn |-> <<>>,fresh |-> TRUE,tnv |-> <<>>]),
    ([ver |-> 1,other |-> <<>>,perm |-> <<0, 1, 2>>,phys |-> <<>>,store |-> <<>>,qok |-> TRUE,sng |-> -1,gates |-> <<[c |-> <<>>, p |-> <<>>, q |-> <<2>>, name |-> "IDEN", par |-> FALSE]>>,hist |-> <<[op |-> "gate", g |-> [c |-> <<>>, p |-> <<>>, q |-> <<2>>, name |-> "IDEN", par |-> FALSE]]>>,act |-> [op |-> "gate", g |-> [c |-> <<>>, p |-> <<>>, q |-> <<2>>, name |-> "IDEN", par |-> FALSE]],fam |-> "none",depth |-> 1,reg |-> <<>>,rej |-> FALSE,tn |-> <<[c |-> <<>>, p |-> <<>>, q |-> <<2>>, name |-> "IDEN", par |-> FALSE]>>,fresh |-> TRUE,tnv |-> <<>>]),
    ([ver |-> 1,other |-> <<>>,perm |-> <<0, 1, 2>>,phys |-> <<>>,store |-> <<>>,qok |-> TRUE,sng |-> -1,gates |-> <<[c |-> <<>>, p |-> <<>>, q |-> <<2>>, name |-> "IDEN", par |-> FALSE]>>,hist |-> <<[op |-> "gate", g |-> [c |-> <<>>, p |-> <<>>, q |-> <<2>>, name |-> "IDEN", par |-> FALSE]]>>,act |-> [op |-> "gate", g |-> [c |-> <<>>, p |-> <<>>, q |-> <<2>>, name |-> "IDEN", par |-> FALSE]],fam |-> "par",depth |-> 1,reg |-> <<>>,rej |-> FALSE,tn |-> <<[c |-> <<>>, p |-> <<>>, q |-> <<2>>, name |-> "IDEN", par |-> FALSE]>>,fresh |-> TRUE,tnv |-> <<>>]),
    ([ver |-> 2,other |-> <<>>,perm |-> <<0, 1, 2>>,phys |-> <<>>,store |-> <<>>,qok |-> TRUE,sng |-> -1,gates |-> <<[c |-> <<>>, p |-> <<>>, q |-> <<2>>, name |-> "IDEN", par |-> FALSE], [c |-> <<>>, p |-> <<1>>, q |-> <<1, 2>>, name |-> "CU1", par |-> TRUE]>>,hist |-> <<[op |-> "gate", g |-> [c |-> <<>>, p |-> <<>>, q |-> <<2>>, name |-> "IDEN", par |-> FALSE]], [op |-> "gate", g |-> [c |-> <<>>, p |-> <<1>>, q |-> <<1, 2>>, name |-> "CU1", par |-> TRUE]]>>,act |-> [op |-> "gate", g |-> [c |-> <<>>, p |-> <<1>>, q |-> <<1, 2>>, name |-> "CU1", par |-> TRUE]],fam |-> "none",depth |-> 2,reg |-> <<>>,rej |-> FALSE,tn |-> <<[c |-> <<>>, p |-> <<>>, q |-> <<2>>, name |-> "IDEN", par |-> FALSE], [c |-> <<>>, p |-> <<1>>, q |-> <<1, 2>>, name |-> "CU1", par |-> TRUE]>>,fresh |-> TRUE,tnv |-> <<>>]),
    ([ver |-> 2,other |-> <<>>,perm |-> <<0, 1, 2>>,phys |-> <<>>,store |-> <<>>,qok |-> TRUE,sng |-> -1,gates |-> <<[c |-> <<>>, p |-> <<>>, q |-> <<2>>, name |-> "IDEN", par |-> FALSE], [c |-> <<>>, p |-> <<1>>, q |-> <<1, 2>>, name |-> "CU1", par |-> TRUE]>>,hist |-> <<[op |-> "gate", g |-> [c |-> <<>>, p |-> <<>>, q |-> <<2>>, name |-> "IDEN", par |-> FALSE]], [op |-> "gate", g |-> [c |-> <<>>, p |-> <<1>>, q |-> <<1, 2>>, name |-> "CU1", par |-> TRUE]]>>,act |-> [op |-> "gate", g |-> [c |-> <<>>, p |-> <<1>>, q |-> <<1, 2>>, name |-> "CU1", par |-> TRUE]],fam |-> "c2",depth |-> 2,reg |-> <<>>,rej |-> FALSE,tn |-> <<[c |-> <<>>, p |-> <<>>, q |-> <<2>>, name |-> "IDEN", par |-> FALSE], [c |-> <<>>, p |-> <<1>>, q |-> <<1, 2>>, name |-> "CU1", par |-> TRUE]>>,fresh |-> TRUE,tnv |-> <<>>]),
    ([ver |-> 3,other |-> <<>>,perm |-> <<0, 1, 2>>,phys |-> <<>>,store |-> <<>>,qok |-> TRUE,sng |-> -1,gates |-> <<[c |-> <<>>, p |-> <<>>, q |-> <<2>>, name |-> "IDEN", par |-> FALSE], [c |-> <<>>, p |-> <<1>>, q |-> <<1, 2>>, name |-> "CU1", par |-> TRUE], [c |-> <<>>, p |-> <<>>, q |-> <<1, 2>>, name |-> "CZ", par |-> FALSE]>>,hist |-> <<[op |-> "gate", g |-> [c |-> <<>>, p |-> <<>>, q |-> <<2>>, name |-> "IDEN", par |-> FALSE]], [op |-> "gate", g |-> [c |-> <<>>, p |-> <<1>>, q |-> <<1, 2>>, name |-> "CU1", par |-> TRUE]], [op |-> "gate", g |-> [c |-> <<>>, p |-> <<>>, q |-> <<1, 2>>, name |-> "CZ", par |-> FALSE]]>>,act |-> [op |-> "gate", g |-> [c |-> <<>>, p |-> <<>>, q |-> <<1, 2>>, name |-> "CZ", par |-> FALSE]],fam |-> "none",depth |-> 3,reg |-> <<>>,rej |-> FALSE,tn |-> <<[c |-> <<>>, p |-> <<>>, q |-> <<2>>, name |-> "IDEN", par |-> FALSE], [c |-> <<>>, p |-> <<1>>, q |-> <<1, 2>>, name |-> "CU1", par |-> TRUE], [c |-> <<>>, p |-> <<>>, q |-> <<1, 2>>, name |-> "CZ", par |-> FALSE]>>,fresh |-> TRUE,tnv |-> <<>>]),
    ([ver |-> 3,other |-> <<>>,perm |-> <<0, 1, 2>>,phys |-> <<>>,store |-> <<>>,qok |-> TRUE,sng |-> -1,gates |-> <<[c |-> <<>>, p |-> <<>>, q |-> <<2>>, name |-> "IDEN", par |-> FALSE], [c |-> <<>>, p |-> <<1>>, q |-> <<1, 2>>, name |-> "CU1", par |-> TRUE], [c |-> <<>>, p |-> <<>>, q |-> <<1, 2>>, name |-> "CZ", par |-> FALSE]>>,hist |-> <<[op |-> "gate", g |-> [c |-> <<>>, p |-> <<>>, q |-> <<2>>, name |-> "IDEN", par |-> FALSE]], [op |-> "gate", g |-> [c |-> <<>>, p |-> <<1>>, q |-> <<1, 2>>, name |-> "CU1", par |-> TRUE]], [op |-> "gate", g |-> [c |-> <<>>, p |-> <<>>, q |-> <<1, 2>>, name |-> "CZ", par |-> FALSE]]>>,act |-> [op |-> "gate", g |-> [c |-> <<>>, p |-> <<>>, q |-> <<1, 2>>, name |-> "CZ", par |-> FALSE]],fam |-> "ang",depth |-> 3,reg |-> <<>>,rej |-> FALSE,tn |-> <<[c |-> <<>>, p |-> <<>>, q |-> <<2>>, name |-> "IDEN", par |-> FALSE], [c |-> <<>>, p |-> <<1>>, q |-> <<1, 2>>, name |-> "CU1", par |-> TRUE], [c |-> <<>>, p |-> <<>>, q |-> <<1, 2>>, name |-> "CZ", par |-> FALSE]>>,fresh |-> TRUE,tnv |-> <<>>]),
    ([ver |-> 4,other |-> <<>>,perm |-> <<0, 1, 2>>,phys |-> <<>>,store |-> <<>>,qok |-> TRUE,sng |-> -1,gates |-> <<[c |-> <<>>, p |-> <<>>, q |-> <<2>>, name |-> "IDEN", par |-> FALSE], [c |-> <<>>, p |-> <<1>>, q |-> <<1, 2>>, name |-> "CU1", par |-> TRUE], [c |-> <<>>, p |-> <<>>, q |-> <<1, 2>>, name |-> "CZ", par |-> FALSE], [c |-> <<>>, p |-> <<4>>, q |-> <<0>>, name |-> "RY", par |-> FALSE]>>,hist |-> <<[op |-> "gate", g |-> [c |-> <<>>, p |-> <<>>, q |-> <<2>>, name |-> "IDEN", par |-> FALSE]], [op |-> "gate", g |-> [c |-> <<>>, p |-> <<1>>, q |-> <<1, 2>>, name |-> "CU1", par |-> TRUE]], [op |-> "gate", g |-> [c |-> <<>>, p |-> <<>>, q |-> <<1, 2>>, name |-> "CZ", par |-> FALSE]], [op |-> "gate", g |-> [c |-> <<>>, p |-> <<4>>, q |-> <<0>>, name |-> "RY", par |-> FALSE]]>>,act |-> [op |-> "gate", g |-> [c |-> <<>>, p |-> <<4>>, q |-> <<0>>, name |-> "RY", par |-> FALSE]],fam |-> "none",depth |-> 4,reg |-> <<>>,rej |-> FALSE,tn |-> <<[c |-> <<>>, p |-> <<>>, q |-> <<2>>, name |-> "IDEN", par |-> FALSE], [c |-> <<>>, p |-> <<1>>, q |-> <<1, 2>>, name |-> "CU1", par |-> TRUE], [c |-> <<>>, p |-> <<>>, q |-> <<1, 2>>, name |-> "CZ", par |-> FALSE], [c |-> <<>>, p |-> <<4>>, q |-> <<0>>, name |-> "RY", par |-> FALSE]>>,fresh |-> TRUE,tnv |-> <<>>]),
    ([ver |-> 4,other |-> <<>>,perm |-> <<0, 1, 2>>,phys |-> <<>>,store |-> <<>>,qok |-> TRUE,sng |-> -1,gates |-> <<[c |-> <<>>, p |-> <<>>, q |-> <<2>>, name |-> "IDEN", par |-> FALSE], [c |-> <<>>, p |-> <<1>>, q |-> <<1, 2>>, name |-> "CU1", par |-> TRUE], [c |-> <<>>, p |-> <<>>, q |-> <<1, 2>>, name |-> "CZ", par |-> FALSE], [c |-> <<>>, p |-> <<4>>, q |-> <<0>>, name |-> "RY", par |-> FALSE]>>,hist |-> <<[op |-> "gate", g |-> [c |-> <<>>, p |-> <<>>, q |-> <<2>>, name |-> "IDEN", par |-> FALSE]], [op |-> "gate", g |-> [c |-> <<>>, p |-> <<1>>, q |-> <<1, 2>>, name |-> "CU1", par |-> TRUE]], [op |-> "gate", g |-> [c |-> <<>>, p |-> <<>>, q |-> <<1, 2>>, name |-> "CZ", par |-> FALSE]], [op |-> "gate", g |-> [c |-> <<>>, p |-> <<4>>, q |-> <<0>>, name |-> "RY", par |-> FALSE]]>>,act |-> [op |-> "gate", g |-> [c |-> <<>>, p |-> <<4>>, q |-> <<0>>, name |-> "RY", par |-> FALSE]],fam |-> "c2",depth |-> 4,reg |-> <<>>,rej |-> FALSE,tn |-> <<[c |-> <<>>, p |-> <<>>, q |-> <<2>>, name |-> "IDEN", par |-> FALSE], [c |-> <<>>, p |-> <<1>>, q |-> <<1, 2>>, name |-> "CU1", par |-> TRUE], [c |-> <<>>, p |-> <<>>, q |-> <<1, 2>>, name |-> "CZ", par |-> FALSE], [c |-> <<>>, p |-> <<4>>, q |-> <<0>>, name |-> "RY", par |-> FALSE]>>,fresh |-> TRUE,tnv |-> <<>>]),
    ([ver |-> 5,other |-> <<>>,perm |-> <<0, 1, 2>>,phys |-> <<>>,store |-> <<>>,qok |-> TRUE,sng |-> -1,gates |-> <<[c |-> <<>>, p |-> <<>>, q |-> <<2>>, name |-> "IDEN", par |-> FALSE], [c |-> <<>>, p |-> <<1>>, q |-> <<1, 2>>, name |-> "CU1", par |-> TRUE], [c |-> <<>>, p |-> <<>>, q |-> <<1, 2>>, name |-> "CZ", par |-> FALSE], [c |-> <<>>, p |-> <<4>>, q |-> <<0>>, name |-> "RY", par |-> FALSE], [c |-> <<>>, p |-> <<>>, q |-> <<0, 2>>, name |-> "CNOT", par |-> FALSE]>>,hist |-> <<[op |-> "gate", g |-> [c |-> <<>>, p |-> <<>>, q |-> <<2>>, name |-> "IDEN", par |-> FALSE]], [op |-> "gate", g |-> [c |-> <<>>, p |-> <<1>>, q |-> <<1, 2>>, name |-> "CU1", par |-> TRUE]], [op |-> "gate", g |-> [c |-> <<>>, p |-> <<>>, q |-> <<1, 2>>, name |-> "CZ", par |-> FALSE]], [op |-> "gate", g |-> [c |-> <<>>, p |-> <<4>>, q |-> <<0>>, name |-> "RY", par |-> FALSE]], [op |-> "gate", g |-> [c |-> <<>>, p |-> <<>>, q |-> <<0, 2>>, name |-> "CNOT", par |-> FALSE]]>>,act |-> [op |-> "gate", g |-> [c |-> <<>>, p |-> <<>>, q |-> <<0, 2>>, name |-> "CNOT", par |-> FALSE]],fam |-> "none",depth |-> 5,reg |-> <<>>,rej |-> FALSE,tn |-> <<[c |-> <<>>, p |-> <<>>, q |-> <<2>>, name |-> "IDEN", par |-> FALSE], [c |-> <<>>, p |-> <<1>>, q |-> <<1, 2>>, name |-> "CU1", par |-> TRUE], [c |-> <<>>, p |-> <<>>, q |-> <<1, 2>>, name |-> "CZ", par |-> FALSE], [c |-> <<>>, p |-> <<4>>, q |-> <<0>>, name |-> "RY", par |-> FALSE], [c |-> <<>>, p |-> <<>>, q |-> <<0, 2>>, name |-> "CNOT", par |-> FALSE]>>,fresh |-> TRUE,tnv |-> <<>>]),
    ([ver |-> 5,other |-> <<>>,perm |-> <<0, 1, 2>>,phys |-> <<>>,store |-> <<>>,qok |-> TRUE,sng |-> -1,gates |-> <<[c |-> <<>>, p |-> <<>>, q |-> <<2>>, name |-> "IDEN", par |-> FALSE], [c |-> <<>>, p |-> <<1>>, q |-> <<1, 2>>, name |-> "CU1", par |-> TRUE], [c |-> <<>>, p |-> <<>>, q |-> <<1, 2>>, name |-> "CZ", par |-> FALSE], [c |-> <<>>, p |-> <<4>>, q |-> <<0>>, name |-> "RY", par |-> FALSE], [c |-> <<>>, p |-> <<>>, q |-> <<0, 2>>, name |-> "CNOT", par |-> FALSE]>>,hist |-> <<[op |-> "gate", g |-> [c |-> <<>>, p |-> <<>>, q |-> <<2>>, name |-> "IDEN", par |-> FALSE]], [op |-> "gate", g |-> [c |-> <<>>, p |-> <<1>>, q |-> <<1, 2>>, name |-> "CU1", par |-> TRUE]], [op |-> "gate", g |-> [c |-> <<>>, p |-> <<>>, q |-> <<1, 2>>, name |-> "CZ", par |-> FALSE]], [op |-> "gate", g |-> [c |-> <<>>, p |-> <<4>>, q |-> <<0>>, name |-> "RY", par |-> FALSE]], [op |-> "gate", g |-> [c |-> <<>>, p |-> <<>>, q |-> <<0, 2>>, name |-> "CNOT", par |-> FALSE]]>>,act |-> [op |-> "gate", g |-> [c |-> <<>>, p |-> <<>>, q |-> <<0, 2>>, name |-> "CNOT", par |-> FALSE]],fam |-> "query",depth |-> 5,reg |-> <<>>,rej |-> FALSE,tn |-> <<[c |-> <<>>, p |-> <<>>, q |-> <<2>>, name |-> "IDEN", par |-> FALSE], [c |-> <<>>, p |-> <<1>>, q |-> <<1, 2>>, name |-> "CU1", par |-> TRUE], [c |-> <<>>, p |-> <<>>, q |-> <<1, 2>>, name |-> "CZ", par |-> FALSE], [c |-> <<>>, p |-> <<4>>, q |-> <<0>>, name |-> "RY", par |-> FALSE], [c |-> <<>>, p |-> <<>>, q |-> <<0, 2>>, name |-> "CNOT", par |-> FALSE]>>,fresh |-> TRUE,tnv |-> <<>>])
    >>
----


=============================================================================

---- CONFIG MC_C07sim_TTrace_1790387580 ----
CONSTANTS
    N = 3
    Cls = "exact"
    Gates <- GatesFull
    NewParams <- NewParamsC
    Queries <- QueriesFull
    MaxDepth = 12
    Record = TRUE
    Deviations <- NoDev
    ConeIgnoresSwap = FALSE

INVARIANT
    _inv

CHECK_DEADLOCK
    \* CHECK_DEADLOCK off because of PROPERTY or INVARIANT above.
    FALSE

INIT
    _init

NEXT
    _next

CONSTANT
    _TETrace <- _trace

ALIAS
    _expression
=============================================================================
\* Generated on Sat Sep 26 01:53:04 UTC 2026