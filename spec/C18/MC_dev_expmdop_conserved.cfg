SPECIFICATION Spec
CONSTANTS
  Times <- TimesQuick
  T0s <- T0sOne
  Dims = {3}
  Kinds <- AllKinds
  Methods <- AllMethods
  HReps <- AllHReps
  Cbs <- NoCb
  Budget = 2
  MaxAt = 2
  ExpmDopModes <- Pinned
  Solve2Modes <- Solve2OK
  Progbars <- PbOff
  Progbar0Modes <- PbOK
  IntRepeatModes <- IrOK
  PrintCases = FALSE
INVARIANT ConservedInv
CHECK_DEADLOCK FALSE
