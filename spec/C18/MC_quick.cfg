SPECIFICATION Spec
CONSTANTS
  Times <- TimesQuick
  T0s <- T0sShift
  Dims = {2, 3}
  Kinds <- AllKinds
  Methods <- AllMethods
  HReps <- AllHReps
  Cbs <- QuickCbs
  Budget = 3
  MaxAt = 2
  ExpmDopModes <- Repaired
  Solve2Modes <- Solve2OK
  Progbars <- PbOff
  Progbar0Modes <- PbOK
  IntRepeatModes <- IrOK
  PrintCases = FALSE
INVARIANT TypeOK
INVARIANT Schrodinger
INVARIANT SchrodingerExact
INVARIANT RejectedNotMisEvolved
INVARIANT SupportedAccepted
INVARIANT ReachesRequestedTime
INVARIANT AcceptsAllowedTimes
INVARIANT ConservedInv
INVARIANT CallbacksSeeState
INVARIANT CallbackCount
CHECK_DEADLOCK FALSE
