SPECIFICATION Spec
INVARIANT Small
CHECK_DEADLOCK FALSE
