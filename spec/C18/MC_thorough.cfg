SPECIFICATION Spec
CONSTANTS
  Times <- TimesThorough
  T0s <- T0sTwo
  Dims = {2, 3}
  Kinds <- AllKinds
  Methods <- AllMethods
  HReps <- AllHReps
  Cbs <- AllCbs
  Budget = 3
  MaxAt = 3
  ExpmDopModes <- Repaired
  Solve2Modes <- Solve2OK
  Progbars <- PbBoth
  Progbar0Modes <- PbOK
  IntRepeatModes <- IrOK
  PrintCases = FALSE
INVARIANT TypeOK
INVARIANT Schrodinger
INVARIANT SchrodingerExact
INVARIANT RejectedNotMisEvolved
INVARIANT SupportedAccepted
INVARIANT ReachesRequestedTime
INVARIANT AcceptsAllowedTimes
INVARIANT ConservedInv
INVARIANT CallbacksSeeState
INVARIANT CallbackCount
CHECK_DEADLOCK FALSE
