----------------------------- MODULE C18_Defs -----------------------------
(***************************************************************************)
(* C18 - exact time evolution follows the Schroedinger / von Neumann        *)
(* equation.                                                                *)
(*                                                                         *)
(* Part 1 (reference, written from the property statement): exact          *)
(*   arithmetic on the finite-evolution-group domain.  Hamiltonians are     *)
(*   H = W (+)_k (a_k 1 + s_k P_k) W^dagger with integers a_k, s_k, P_k a   *)
(*   Pauli string on one or two qubits (a Hermitian involution) or a 1x1   *)
(*   block, and W a phase-permutation matrix.  H has an integer spectrum,  *)
(*   so U = exp(-i H pi/2) has Gaussian-integer entries, U^4 = 1, and the   *)
(*   state after q quarter periods is U^q psi0 (U^q rho0 U^-q).  TLC, not   *)
(*   numpy, computes these reference states, the norm / trace, the purity  *)
(*   and the energy.                                                       *)
(* Part 2 (reference): which (method, kind, representation) combinations   *)
(*   must be accepted and which time sequences a method must allow.        *)
(* Part 3 (I-model): transcription of the book-keeping of                  *)
(*   quimb.evo.Evolution at the pinned commit: the constructor's support   *)
(*   matrix and the three update methods, as functions on a record.        *)
(***************************************************************************)
EXTENDS Integers, Sequences, FiniteSets, TLC

(* ======================= Part 1: exact arithmetic ====================== *)
\* Gaussian integers are pairs <<re, im>>
GZero == <<0, 0>>
GOne  == <<1, 0>>
GAdd(x, y) == <<x[1] + y[1], x[2] + y[2]>>
GSub(x, y) == <<x[1] - y[1], x[2] - y[2]>>
GMul(x, y) == <<x[1] * y[1] - x[2] * y[2], x[1] * y[2] + x[2] * y[1]>>
GConj(x)   == <<x[1], -x[2]>>
GInt(k)    == <<k, 0>>

\* i^k and (-i)^k for any integer k (TLC's % is the non-negative modulus)
IPow(k) == CASE k % 4 = 0 -> <<1, 0>>
             [] k % 4 = 1 -> <<0, 1>>
             [] k % 4 = 2 -> <<-1, 0>>
             [] OTHER     -> <<0, -1>>
MIPow(k) == IPow(-k)

\* sum of a sequence of Gaussian integers
GSum(seq) ==
  LET s[k \in 0..Len(seq)] == IF k = 0 THEN GZero ELSE GAdd(s[k - 1], seq[k])
  IN  s[Len(seq)]

\* matrices are sequences of rows; kets are sequences of entries.  TLC evaluates function
\* constructors lazily (every application would recompute the entry), so each constructor is
\* forced with TLCEval: matrices are explicit values.
Vec(n, F(_))       == TLCEval([r \in 1..n |-> F(r)])
Mat(n, m, F(_, _)) == TLCEval([r \in 1..n |-> TLCEval([c \in 1..m |-> F(r, c)])])
Dim(M)       == Len(M)
Ident(n)     == Mat(n, n, LAMBDA r, c : IF r = c THEN GOne ELSE GZero)
MatAdd(A, B) == Mat(Len(A), Len(A[1]), LAMBDA r, c : GAdd(A[r][c], B[r][c]))
MatSub(A, B) == Mat(Len(A), Len(A[1]), LAMBDA r, c : GSub(A[r][c], B[r][c]))
MatScale(g, A) == Mat(Len(A), Len(A[1]), LAMBDA r, c : GMul(g, A[r][c]))
MatMul(A, B) == Mat(Len(A), Len(B[1]), LAMBDA r, c : GSum([k \in 1..Len(B) |-> GMul(A[r][k], B[k][c])]))
MatVec(A, v) == Vec(Len(A), LAMBDA r : GSum([k \in 1..Len(v) |-> GMul(A[r][k], v[k])]))
Dag(A)       == Mat(Len(A[1]), Len(A), LAMBDA r, c : GConj(A[c][r]))
\* exact halving (only ever applied to matrices with even entries)
MatHalf(A)   == Mat(Len(A), Len(A[1]), LAMBDA r, c : <<A[r][c][1] \div 2, A[r][c][2] \div 2>>)
AllEven(A)   == \A r \in 1..Len(A) : \A c \in 1..Len(A[r]) : A[r][c][1] % 2 = 0 /\ A[r][c][2] % 2 = 0

PauliX == << <<GZero, GOne>>, <<GOne, GZero>> >>
PauliY == << <<GZero, <<0, -1>> >>, << <<0, 1>>, GZero>> >>
PauliZ == << <<GOne, GZero>>, <<GZero, <<-1, 0>> >> >>
Pauli(c) == CASE c = "X" -> PauliX [] c = "Y" -> PauliY [] c = "Z" -> PauliZ [] OTHER -> Ident(2)
Kron2(A, B) == Mat(4, 4, LAMBDA r, c :
                  GMul(A[((r - 1) \div 2) + 1][((c - 1) \div 2) + 1], B[((r - 1) % 2) + 1][((c - 1) % 2) + 1]))

\* a block is a record [p |-> sequence of 0, 1 or 2 Pauli letters, a |-> int, s |-> int]
Invol(p) == IF Len(p) = 1 THEN Pauli(p[1]) ELSE Kron2(Pauli(p[1]), Pauli(p[2]))
BlockDim(b) == IF Len(b.p) = 0 THEN 1 ELSE IF Len(b.p) = 1 THEN 2 ELSE 4

\* H_k = a 1 + s P
BlockH(b) ==
  IF Len(b.p) = 0 THEN << <<GInt(b.a)>> >>
  ELSE MatAdd(MatScale(GInt(b.a), Ident(BlockDim(b))), MatScale(GInt(b.s), Invol(b.p)))

\* spectral theorem: P = P+ - P-, P+- = (1 +- P)/2, H_k = (a+s) P+ + (a-s) P-, hence
\* exp(-i H_k pi/2) = (-i)^(a+s) P+ + (-i)^(a-s) P-
BlockU2(b) ==
  LET n == BlockDim(b)
      P == Invol(b.p)
  IN  MatAdd(MatScale(MIPow(b.a + b.s), MatAdd(Ident(n), P)),
             MatScale(MIPow(b.a - b.s), MatSub(Ident(n), P)))        \* = 2 U_k
BlockU(b) == IF Len(b.p) = 0 THEN << <<MIPow(b.a)>> >> ELSE MatHalf(BlockU2(b))

\* direct sum of a sequence of square matrices
DirectSum(Bs) ==
  LET oo[k \in 0..Len(Bs)] == IF k = 0 THEN 0 ELSE oo[k - 1] + Len(Bs[k])
      o == TLCEval([k \in 0..Len(Bs) |-> oo[k]])                       \* offsets
      D == o[Len(Bs)]
      blk == TLCEval([r \in 1..D |-> CHOOSE k \in 1..Len(Bs) : o[k - 1] < r /\ r <= o[k]])
  IN  Mat(D, D, LAMBDA r, c :
         IF blk[r] = blk[c] THEN Bs[blk[r]][r - o[blk[r] - 1]][c - o[blk[r] - 1]] ELSE GZero)

\* W M W^dagger for the phase permutation W[r, perm[r]] = i^ph[r]
ConjW(M, perm, ph) ==
  Mat(Len(M), Len(M), LAMBDA r, c : GMul(IPow(ph[r] - ph[c]), M[perm[r]][perm[c]]))

\* desc = [blocks, perm, ph]
HOf(desc) == ConjW(DirectSum(Vec(Len(desc.blocks), LAMBDA k : BlockH(desc.blocks[k]))), desc.perm, desc.ph)
UOf(desc) == ConjW(DirectSum(Vec(Len(desc.blocks), LAMBDA k : BlockU(desc.blocks[k]))), desc.perm, desc.ph)

\* U^q for q in 0..3 (the evolution group is cyclic of order 4)
MatPow(U, q) ==
  LET U2 == MatMul(U, U) IN
  CASE q % 4 = 0 -> Ident(Len(U)) [] q % 4 = 1 -> U [] q % 4 = 2 -> U2 [] OTHER -> MatMul(U, U2)

\* the state after qL quarter periods applied on the left and qR on the right
EvolveKet(U, psi, q)      == MatVec(MatPow(U, q), psi)
EvolveDop(U, rho, qL, qR) == MatMul(MatMul(MatPow(U, qL), rho), Dag(MatPow(U, qR)))
Evolve(kind, U, p0, qL, qR) == IF kind = "ket" THEN EvolveKet(U, p0, qL) ELSE EvolveDop(U, p0, qL, qR)

\* the four reference states U^q p0 U^-q, q = 0..3 (index q+1)
\* (computed incrementally: p_{k+1} = U p_k (U^dagger))
Orbit(kind, U, p0) ==
  LET Ud == Dag(U)
      step(p) == IF kind = "ket" THEN MatVec(U, p) ELSE MatMul(MatMul(U, p), Ud)
      p1 == step(p0)
      p2 == step(p1)
      p3 == step(p2)
  IN  <<p0, p1, p2, p3>>
RefState(orbit, q) == orbit[(q % 4) + 1]

\* conserved quantities (exact)
Norm2(psi)   == GSum([k \in 1..Len(psi) |-> GMul(GConj(psi[k]), psi[k])])
Trace(M)     == GSum([k \in 1..Len(M) |-> M[k][k]])
TraceProd(A, B) == GSum([k \in 1..Len(A) |-> GSum([j \in 1..Len(B) |-> GMul(A[k][j], B[j][k])])])   \* Tr(A B)
Purity(M)    == TraceProd(M, M)
EnergyKet(H, psi) == LET hp == MatVec(H, psi) IN GSum([k \in 1..Len(psi) |-> GMul(GConj(psi[k]), hp[k])])
EnergyDop(H, rho) == TraceProd(H, rho)
\* <<norm^2 or trace, purity (dop only), energy>>
Conserved(kind, H, p) ==
  IF kind = "ket" THEN <<Norm2(p), GZero, EnergyKet(H, p)>>
  ELSE <<Trace(p), Purity(p), EnergyDop(H, p)>>

\* shape check of an observed state before it is used in arithmetic
IsGInt(x)  == x \in Seq(Int) /\ Len(x) = 2
WellShaped(kind, d, p) ==
  /\ Len(p) = d
  /\ IF kind = "ket" THEN \A k \in 1..d : IsGInt(p[k])
     ELSE \A r \in 1..d : Len(p[r]) = d /\ \A c \in 1..d : IsGInt(p[r][c])

IsHermitian(M) == M = Dag(M)
IsUnitary(U)   == MatMul(U, Dag(U)) = Ident(Len(U))

(* =============== Part 2: what must be accepted (reference) ============= *)
\* "must": documented as supported, has to work.  "may": not promised; the constructor or the
\* update may reject it, but if it is accepted it has to evolve correctly.
Support(method, kind, hrep) ==
  IF hrep = "tuple" THEN "must"                                    \* pre-diagonalised system, any method
  ELSE IF hrep = "lazy" THEN "may"
  ELSE IF method = "solve" THEN (IF hrep \in {"dense", "sparse"} THEN "must" ELSE "may")
  ELSE IF method = "integrate" THEN
         (IF hrep \in {"dense", "sparse", "callable"} THEN "must"
          ELSE IF hrep = "linop" /\ kind = "ket" THEN "must" ELSE "may")
  ELSE IF method = "expm" THEN (IF hrep \in {"dense", "sparse"} THEN "must" ELSE "may")   \* kets and density operators
  ELSE "may"

\* the method that actually evolves: a pre-diagonalised Hamiltonian is always evolved by 'solve'
EffMethod(method, hrep) == IF hrep = "tuple" THEN "solve" ELSE method

\* requested times a method has to allow: anything for the diagonalisation method,
\* non-decreasing (repeats allowed) for the others.  prev / next in any common unit.
MustAllowStep(eff, prev, next) == eff = "solve" \/ next >= prev

(* ======================= Part 3: the I-model =========================== *)
(* Transcription of quimb/evo.py (Evolution.__init__, _setup_solved_ham,    *)
(* _start_integrator, the _update_to methods, update_to / at_times).        *)
(* tauL, tauR = evolution time that has been applied on the left, right of  *)
(* the initial state.  Behaviours that break (or broke) the property are     *)
(* switches, so that TLC can show the break (MC_dev_* self-test             *)
(* configurations, which must fail); the main configurations and the Trace  *)
(* spec's PinnedModes describe the code as it is now:                       *)
(*  modes.expm_dop : "left"   - before fix 255363ee: density operators got  *)
(*                              expm_multiply on the left only              *)
(*                   "both"   - now: two sided                              *)
(*                   "reject" - (alternative repair: constructor refuses)   *)
(*  modes.solve2   : "crash"  - before fix 24ddc1de: `evals, evecs = ham`   *)
(*                              succeeded for a                             *)
(*                              2x2 matrix (two rows): a sparse matrix dies *)
(*                              in the constructor, a dense one in every    *)
(*                              update, after self._t was already moved     *)
(*                   "ok"     - now: isinstance test                        *)
(*  modes.progbar0 : "crash"  - before fix 3d8811e9: with progbar=True the  *)
(*                              integrator's                                *)
(*                              solout divides by the requested time span;  *)
(*                              update_to(t) with t = evo.t raises, and the  *)
(*                              solout stays installed for later at_times   *)
(*                   "ok"     - repaired                                    *)
(*  modes.int_repeat: "drift" - now (KF-C18-4), abstracted: the stepper may  *)
(*                              land                                        *)
(*                              one ulp above a request; repeating the      *)
(*                              request is then a backward request, which   *)
(*                              dop853 answers with a forward step of       *)
(*                              ||H||/50 (modelled as one time unit).  In   *)
(*                              the real code this happens for about 2% of  *)
(*                              the request times, so the Trace spec's      *)
(*                              drift note uses "ok".                       *)
(*                   "ok"     - repaired / the usual case                   *)

ImplNew(kind, method, hrep, dim, t0, pb, modes) ==
  LET timedep == hrep = "callable"    \* callable and not LinearOperator / Lazy
      base == [status |-> "live", kind |-> kind, method |-> method, hrep |-> hrep, dim |-> dim,
               t0 |-> t0, pb |-> pb, eff |-> method, upd |-> "none", tpy |-> t0, tst |-> t0,
               tauL |-> 0, tauR |-> 0, req |-> t0, exc |-> "", span0 |-> FALSE]
      rej(e)  == [base EXCEPT !.status = "rejected", !.exc = e]
      solved  == [base EXCEPT !.eff = "solve", !.upd = IF kind = "dop" THEN "solved_dop" ELSE "solved_ket"]
  IN  IF method = "solve" \/ hrep = "tuple"
      THEN IF hrep = "linop" THEN rej("TypeError")
           ELSE IF timedep THEN rej("TypeError")
           ELSE IF hrep = "tuple" THEN solved
           ELSE IF hrep = "lazy" THEN rej("AttributeError")           \* no .toarray()
           ELSE IF dim = 2 /\ modes.solve2 = "crash"                   \* rows unpack as (evals, evecs)
                THEN IF hrep = "sparse" THEN rej("ValueError")
                     ELSE [base EXCEPT !.eff = "solve", !.upd = "solved_broken"]
           ELSE solved
      ELSE IF method = "integrate"
      THEN IF hrep = "lazy" THEN rej("AttributeError")
           ELSE [base EXCEPT !.upd = "integrate"]
      ELSE IF method = "expm"
      THEN IF hrep = "linop" THEN rej("TypeError")
           ELSE IF timedep THEN rej("TypeError")
           ELSE IF hrep = "lazy" THEN [base EXCEPT !.upd = "expm_fail"]   \* accepted, every update raises
           ELSE IF kind = "dop" /\ modes.expm_dop = "reject" THEN rej("NotImplementedError")
           ELSE IF kind = "dop" /\ modes.expm_dop = "both" THEN [base EXCEPT !.upd = "expm_both"]
           ELSE [base EXCEPT !.upd = "expm_ket"]
      ELSE rej("ValueError")

\* Evolution.t
ImplT(st) == IF st.eff = "integrate" THEN st.tst ELSE st.tpy

\* via = "update_to" (goes through the progress-bar wrapper) or "at_times" (calls _update_method directly)
ImplUpdate(st, t, via, modes) ==
  LET s == [st EXCEPT !.req = t, !.exc = ""]
      \* progress bar of an integrating evolution: a new bar per update_to, the old solout for at_times
      bar   == st.upd = "integrate" /\ st.pb /\ modes.progbar0 = "crash"
      span0 == IF bar /\ via = "update_to" THEN t = ImplT(st) ELSE st.span0
  IN
  CASE st.upd = "solved_ket" -> [s EXCEPT !.tpy = t, !.tauL = t - st.t0]
    [] st.upd = "solved_dop" -> [s EXCEPT !.tpy = t, !.tauL = t - st.t0, !.tauR = t - st.t0]
    [] st.upd = "solved_broken" -> [s EXCEPT !.tpy = t, !.exc = "TypingError"]    \* time moved, state not
    [] st.upd = "integrate"  ->
         IF bar /\ span0 THEN [s EXCEPT !.exc = "ZeroDivisionError", !.span0 = span0]
         ELSE IF modes.int_repeat = "drift" /\ t = st.tst /\ t # st.t0
         THEN [s EXCEPT !.tst = t + 1, !.tauL = @ + 1, !.span0 = span0,
                        !.tauR = IF st.kind = "dop" THEN @ + 1 ELSE @]
         ELSE [s EXCEPT !.tst = t, !.tauL = @ + (t - st.tst), !.span0 = span0,
                        !.tauR = IF st.kind = "dop" THEN @ + (t - st.tst) ELSE @]
    [] st.upd = "expm_ket"   -> [s EXCEPT !.tpy = t, !.tauL = @ + (t - ImplT(st))]
    [] st.upd = "expm_both"  -> [s EXCEPT !.tpy = t, !.tauL = @ + (t - ImplT(st)),
                                          !.tauR = IF st.kind = "dop" THEN @ + (t - ImplT(st)) ELSE @]
    [] OTHER                 -> [s EXCEPT !.exc = "AttributeError"]      \* expm_fail: state untouched

\* the book-keeping says "evolved by exactly t - t0, on both sides"
ImplTimeOK(s) == s.tauL = ImplT(s) - s.t0 /\ (s.kind = "dop" => s.tauR = ImplT(s) - s.t0)

\* the code as it is now (after the fix: commits for expm + density operator and for the 2x2 unpack test;
\* and for the empty progress-bar window; the repeated-time drift is rare, see above)
PinnedModes   == [expm_dop |-> "both", solve2 |-> "ok", progbar0 |-> "ok", int_repeat |-> "ok"]
=============================================================================
