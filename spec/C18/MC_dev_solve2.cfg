SPECIFICATION Spec
CONSTANTS
  Times <- TimesQuick
  T0s <- T0sOne
  Dims = {2, 3}
  Kinds <- AllKinds
  Methods <- AllMethods
  HReps <- AllHReps
  Cbs <- NoCb
  Budget = 1
  MaxAt = 1
  ExpmDopModes <- Repaired
  Solve2Modes <- Solve2Pinned
  Progbars <- PbOff
  Progbar0Modes <- PbOK
  IntRepeatModes <- IrOK
  PrintCases = FALSE
INVARIANT SupportedAccepted
CHECK_DEADLOCK FALSE
