----------------------------- MODULE C18_Trace -----------------------------
(* Trace spec for C18: judges what real quimb.Evolution objects reported.    *)
(* One trace (tid) = one Evolution object: a "new" line, then one line per    *)
(* requested time.  On the exact domain TLC recomputes the reference state   *)
(* U^q p0 (U^q)^dagger from the description of the Hamiltonian and compares   *)
(* it with the snapped observation; on the float domain it judges quantised  *)
(* relations measured with plain numpy.  The I-model record is threaded      *)
(* through the trace with the same ImplNew / ImplUpdate as the model; a       *)
(* disagreement with it is a NOTE, never a violation.                        *)
EXTENDS C18_Defs, TraceIO

VARIABLES l, fails, cur
tvars == <<l, fails, cur>>

NoCur == [on |-> FALSE]

Exact(ln) == ln.dom = "exact"

(* ------------------------------- "new" ---------------------------------- *)
CurOfNew(ln) ==
  LET ex == Exact(ln)
      U  == IF ex THEN UOf(ln.desc) ELSE <<>>
      H  == IF ex THEN HOf(ln.desc) ELSE <<>>
  IN  [on |-> ln.exc = "", kind |-> ln.kind, method |-> ln.method, hrep |-> ln.hrep, d |-> ln.d,
       dom |-> ln.dom, sup |-> Support(ln.method, ln.kind, ln.hrep), eff |-> EffMethod(ln.method, ln.hrep),
       cb |-> ln.cb, nkeys |-> ln.nkeys, timedep |-> ln.timedep,
       im |-> ImplNew(ln.kind, ln.method, ln.hrep, ln.d, 0, ln.progbar, PinnedModes), imok |-> TRUE,
       U |-> U, H |-> H,
       p0 |-> IF ex THEN ln.p0 ELSE <<>>,
       orbit |-> IF ex THEN Orbit(ln.kind, U, ln.p0) ELSE <<>>,
       cons |-> IF ex THEN Conserved(ln.kind, H, ln.p0) ELSE <<>>,
       qlast |-> 0]

NewClauses(ln, c) ==
  LET accepted == ln.exc = ""
      init == IF Exact(ln)
              THEN ln.tok /\ ln.tq = 0 /\ ln.ptok /\ ln.pt = ln.p0
              ELSE ln.dq_t = 0 /\ ln.dq_ref = 0
  IN  << <<"SupportedAccepted", c.sup = "must" => accepted>>,
         <<"InitialState", accepted => init>>,
         <<"HarnessDomainSane", Exact(ln) => (c.H = ln.h /\ WellShaped(ln.kind, ln.d, ln.p0))>>,
         <<"NOTE:ModelDrift", accepted <=> c.im.status = "live">> >>

(* ------------------------------- "step" --------------------------------- *)
CallbackOK(ln, c, sameT, sameP) ==
  (c.cb # "none" /\ ln.exc = "") =>
     /\ Len(ln.cbn) = c.nkeys
     /\ \A k \in 1..Len(ln.cbn) : ln.cbn[k] >= 1 /\ (c.eff # "integrate" => ln.cbn[k] = 1)
     /\ sameT /\ sameP

StepName(c) == IF c.sup = "must" THEN "Schrodinger" ELSE "RejectedNotMisEvolved"

ExactStepClauses(ln, c) ==
  LET shaped == ln.ptok /\ WellShaped(c.kind, c.d, ln.pt)
      right  == ln.tok /\ shaped /\ ln.pt = RefState(c.orbit, ln.tq)
      obs    == Conserved(c.kind, c.H, ln.pt)
      cons   == shaped /\ obs[1] = c.cons[1] /\ obs[2] = c.cons[2] /\ (c.timedep \/ obs[3] = c.cons[3])
      im2    == ImplUpdate(c.im, ln.q, ln.call, PinnedModes)
      drift  == ~c.imok \/
                IF ln.exc # "" THEN im2.exc # ""
                ELSE /\ im2.exc = ""
                     /\ (ImplTimeOK(im2) \/ (shaped /\ ln.pt = Evolve(c.kind, c.U, c.p0, im2.tauL, im2.tauR)))
  IN  << <<StepName(c), right>>,
         <<"ReachesRequestedTime", ln.exc = "" => (ln.tok /\ ln.tq = ln.q)>>,
         <<"AcceptsAllowedTimes", (c.sup = "must" /\ MustAllowStep(c.eff, c.qlast, ln.q)) => ln.exc = "">>,
         <<"Conserved", cons>>,
         <<"CallbacksSeeState", CallbackOK(ln, c, ln.cbtok /\ \A k \in 1..Len(ln.cbt) : ln.cbt[k] = ln.tq,
                                                  ln.cbpok /\ \A k \in 1..Len(ln.cbp) : ln.cbp[k] = ln.pt)>>,
         <<"YieldIsState", (ln.call = "at_times" /\ ln.exc = "") => (ln.yok /\ ln.y = ln.pt)>>,
         <<"NOTE:ModelDrift", drift>> >>

FloatStepClauses(ln, c) ==
  << <<StepName(c), ln.dq_ref = 0>>,
     <<"ReachesRequestedTime", (ln.exc = "" /\ ~ln.stopped) => ln.dq_t = 0>>,
     <<"AcceptsAllowedTimes", (c.sup = "must" /\ (c.eff = "solve" \/ ln.mono)) => ln.exc = "">>,
     <<"Conserved", ln.dq_norm = 0 /\ ln.dq_pur = 0 /\ (c.timedep \/ ln.dq_en = 0)>>,
     <<"CallbacksSeeState", CallbackOK(ln, c, ln.dq_cbt = 0, ln.dq_cbp = 0)>>,
     <<"YieldIsState", (ln.call = "at_times" /\ ln.exc = "") => ln.dq_y = 0>> >>

StepClauses(ln, c) ==
  IF ~c.on THEN << <<"StepWithoutObject", FALSE>> >>
  ELSE IF c.dom = "exact" THEN ExactStepClauses(ln, c) ELSE FloatStepClauses(ln, c)

CurAfterStep(ln, c) ==
  IF ~c.on THEN c
  ELSE IF c.dom # "exact" THEN c
  ELSE LET im2 == ImplUpdate(c.im, ln.q, ln.call, PinnedModes) IN
       [c EXCEPT !.qlast = IF ln.exc = "" THEN ln.q ELSE @,
                 !.imok  = @ /\ ((ln.exc = "") <=> (im2.exc = "")),
                 !.im    = IF (ln.exc = "") <=> (im2.exc = "") THEN im2 ELSE @]

(* ------------------------------ dispatch -------------------------------- *)
Clauses(ln, c, nc) ==
  CASE ln.ev = "new"    -> NewClauses(ln, nc)
    [] ln.ev = "step"   -> StepClauses(ln, c)
    \* two methods (or two representations) driven through the same requests report the same states
    [] ln.ev = "agree"  -> << <<"MethodsAgree", ln.dq = 0>> >>
    \* every (t_i, p_i) shown to a callback during integration lies on the exact trajectory
    [] ln.ev = "cbtraj" -> << <<"CallbackTrajectory", ln.dq = 0 /\ ln.mono>> >>
    [] OTHER            -> << <<"UnknownEvent", FALSE>> >>

NextCur(ln, c) ==
  CASE ln.ev = "new"  -> CurOfNew(ln)
    [] ln.ev = "step" -> CurAfterStep(ln, c)
    [] OTHER          -> c

TInit == l = 1 /\ fails = <<>> /\ cur = NoCur
TNext == /\ l <= NLines
         /\ l' = l + 1
         /\ LET nc == NextCur(TraceLog[l], cur) IN
              /\ fails' = AddFails(fails, l, Clauses(TraceLog[l], cur, nc))
              /\ cur' = nc
TSpec == TInit /\ [][TNext]_tvars

Done == l = NLines + 1 => WriteVerdict(l - 1, fails)
=============================================================================
