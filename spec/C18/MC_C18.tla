------------------------------ MODULE MC_C18 ------------------------------
EXTENDS C18_Evolution
\* times in quarter periods: -pi/2 .. 3pi/2 (quick), -pi/2 .. 2pi (thorough)
TimesCases    == -1..1
TimesCasesThorough == -1..2
TimesQuick    == -1..2
TimesThorough == -1..4
T0sOne        == {0}
T0sShift      == {1}
T0sTwo        == {0, 1}
AllKinds      == {"ket", "dop"}
AllMethods    == {"solve", "integrate", "expm"}
AllHReps      == {"dense", "sparse", "tuple", "callable", "linop", "lazy"}
AllCbs        == {"none", "single", "dict"}
NoCb          == {"none"}
QuickCbs      == {"none", "dict"}
\* the code after the fix: commits (two-sided expm for density operators, isinstance test for solved tuples)
Repaired      == {"both"}
\* the code before them: used by the MC_dev_* configurations, which must fail
Pinned        == {"left"}
Solve2OK      == {"ok"}
Solve2Pinned  == {"crash"}
PbOK          == {"ok"}
PbPinned      == {"crash"}
IrOK          == {"ok"}
IrPinned      == {"drift"}
PbOff         == {FALSE}
PbOn          == {TRUE}
PbBoth        == {FALSE, TRUE}
=============================================================================
