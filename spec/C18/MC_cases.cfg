SPECIFICATION Spec
CONSTANTS
  Times <- TimesCases
  T0s <- T0sOne
  Dims = {3}
  Kinds <- AllKinds
  Methods <- AllMethods
  HReps <- AllHReps
  Cbs <- NoCb
  Budget = 2
  MaxAt = 2
  ExpmDopModes <- Repaired
  Solve2Modes <- Solve2OK
  Progbars <- PbOff
  Progbar0Modes <- PbOK
  IntRepeatModes <- IrOK
  PrintCases = TRUE
INVARIANT CaseOut
CHECK_DEADLOCK FALSE
