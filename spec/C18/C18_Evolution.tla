--------------------------- MODULE C18_Evolution ---------------------------
(* One behaviour = the life of one quimb.Evolution object: New (or Reject),  *)
(* then update_to(t) / at_times(ts) calls.  The book-keeping is the I-model  *)
(* of C18_Defs (transcribed from quimb/evo.py); the invariants are the       *)
(* property-level statements.  Times are integers in units of a quarter      *)
(* period pi/2 of a concrete Hamiltonian with integer spectrum, so that the  *)
(* exact state can be carried along (SchrodingerExact, Conserved).           *)
EXTENDS C18_Defs, Json

CONSTANTS Times,          \* requested times (ints, may be negative)
          T0s,            \* initial times
          Dims,           \* Hilbert space dimensions (2 is special: see solve2)
          Kinds, Methods, HReps, Cbs,
          Budget,         \* total number of requested times in one behaviour
          MaxAt,          \* longest at_times list
          ExpmDopModes,   \* what the modelled code does for expm + density operator
          Solve2Modes,    \* what the modelled code does for solve + unsolved 2x2 matrix
          Progbars,       \* values of the progbar option
          Progbar0Modes,  \* what the modelled code does for progbar + integrate + zero time span
          IntRepeatModes, \* what the modelled code does for integrate + repeated time
          PrintCases      \* TRUE: print every complete behaviour for replay (run with one worker)

VARIABLES st,             \* I-model record (C18_Defs!ImplNew / ImplUpdate), or [status |-> "none"]
          cb,             \* kind of compute callback: "none", "single", "dict"
          cblog,          \* what the callbacks were shown: sequence of [t, L, R]
          pending,        \* times of a running at_times generator
          budget,
          hist            \* the calls made so far (for replay)

vars == <<st, cb, cblog, pending, budget, hist>>

(* ---------- a concrete exact system per dimension (reference states) ---- *)
SysDesc(dim) ==
  IF dim = 2
  THEN [blocks |-> << [p |-> <<"Y">>, a |-> 2, s |-> 1] >>, perm |-> <<2, 1>>, ph |-> <<0, 1>>]
  ELSE [blocks |-> << [p |-> <<>>, a |-> 1, s |-> 0], [p |-> <<"Y">>, a |-> 0, s |-> 1] >>,
        perm |-> <<2, 3, 1>>, ph |-> <<0, 1, 3>>]
SysKet(dim) == IF dim = 2 THEN << <<1, 1>>, <<2, 0>> >> ELSE << <<1, 1>>, <<2, 0>>, <<0, -1>> >>
SysDop(dim) ==
  IF dim = 2 THEN << << <<2, 0>>, <<1, 1>> >>, << <<1, -1>>, <<1, 0>> >> >>
  ELSE << << <<2, 0>>, <<1, 1>>, <<0, 0>> >>, << <<1, -1>>, <<1, 0>>, <<0, 1>> >>, << <<0, 0>>, <<0, -1>>, <<3, 0>> >> >>
SysP0(kind, dim) == IF kind = "ket" THEN SysKet(dim) ELSE SysDop(dim)

\* the chosen systems are genuinely dynamical: order of U is exactly 4 and H is not diagonal
ASSUME \A dim \in {2, 3} :
         LET U == UOf(SysDesc(dim)) H == HOf(SysDesc(dim)) IN
         /\ IsHermitian(H) /\ IsUnitary(U) /\ MatMul(U, H) = MatMul(H, U)
         /\ MatPow(U, 2) # Ident(dim) /\ MatPow(U, 1) # Ident(dim)
         /\ IsHermitian(SysDop(dim))
         /\ \A q \in 1..3 : EvolveKet(U, SysKet(dim), q) # SysKet(dim)
         /\ \A qL \in 0..3, qR \in 0..3 : qL # qR => EvolveDop(U, SysDop(dim), qL, qR) # EvolveDop(U, SysDop(dim), qL, qL)

Live     == st.status = "live"
Rejected == st.status = "rejected"
T        == ImplT(st)

(* ------------------------------- actions -------------------------------- *)
Init ==
  /\ st = [status |-> "none"]
  /\ cb = "none" /\ cblog = <<>> /\ pending = <<>> /\ budget = Budget /\ hist = <<>>

\* the constructor may behave in any of the configured ways (identical outcomes collapse); the
\* updates depend on the progress-bar switch only, which is a single value per configuration
ASSUME Cardinality(Progbar0Modes) = 1 /\ Cardinality(IntRepeatModes) = 1
Pb0 == CHOOSE p \in Progbar0Modes : TRUE
Ir0 == CHOOSE p \in IntRepeatModes : TRUE
ModeSet == {[expm_dop |-> e, solve2 |-> s, progbar0 |-> Pb0, int_repeat |-> Ir0] : e \in ExpmDopModes, s \in Solve2Modes}
UpdModes == CHOOSE m \in ModeSet : TRUE
Candidates(kind, method, hrep, dim, t0) ==
  {ImplNew(kind, method, hrep, dim, t0, pb, m) : pb \in Progbars, m \in ModeSet}

New ==
  /\ st.status = "none"
  /\ \E kind \in Kinds, method \in Methods, hrep \in HReps, dim \in Dims, t0 \in T0s, c \in Cbs :
       \E s \in Candidates(kind, method, hrep, dim, t0) :
         /\ s.status = "live"
         /\ st' = s /\ cb' = c
  /\ UNCHANGED <<cblog, pending, budget, hist>>

Reject ==
  /\ st.status = "none"
  /\ \E kind \in Kinds, method \in Methods, hrep \in HReps, dim \in Dims, t0 \in T0s :
       \E s \in Candidates(kind, method, hrep, dim, t0) :
         /\ s.status = "rejected"
         /\ st' = s
  /\ UNCHANGED <<cb, cblog, pending, budget, hist>>

\* requests the driver is allowed to make: the integrator only moves forward in time
Requestable(s, t) == s.eff = "integrate" => t >= ImplT(s)

\* one elementary update (what Evolution._update_method(t) does, plus the callback)
Apply(t, via) ==
  LET s == ImplUpdate(st, t, via, UpdModes) IN
  /\ st' = s
  /\ cblog' = IF cb # "none" /\ s.exc = ""
              THEN Append(cblog, [t |-> ImplT(s), L |-> s.tauL, R |-> s.tauR]) ELSE cblog

UpdateTo ==
  /\ Live /\ pending = <<>> /\ budget > 0
  /\ \E t \in Times :
       /\ Requestable(st, t)
       /\ Apply(t, "update_to")
       /\ hist' = Append(hist, <<"u", t>>)
  /\ budget' = budget - 1
  /\ UNCHANGED <<cb, pending>>

Sorted(ts) == \A i \in 1..Len(ts) - 1 : ts[i] <= ts[i + 1]

\* at_times is a generator: the call only stores the list ...
AtTimes ==
  /\ Live /\ pending = <<>> /\ budget > 0
  /\ \E n \in 1..MaxAt : n <= budget /\
       \E ts \in [1..n -> Times] :
         /\ st.eff = "integrate" => (Sorted(ts) /\ ts[1] >= T)
         /\ pending' = ts
         /\ budget' = budget - n
         /\ hist' = Append(hist, <<"a", ts>>)
  /\ UNCHANGED <<st, cb, cblog>>

\* ... and each next() performs one update and yields the state
AtTimesStep ==
  /\ Live /\ pending # <<>>
  /\ Apply(Head(pending), "at_times")
  /\ pending' = Tail(pending)
  /\ UNCHANGED <<cb, budget, hist>>

Next == New \/ Reject \/ UpdateTo \/ AtTimes \/ AtTimesStep
Spec == Init /\ [][Next]_vars

(* ------------------------------ properties ------------------------------ *)
Sup == Support(st.method, st.kind, st.hrep)

\* book-keeping form: the evolution time applied equals the reported time minus t0, on both sides
TimeOK(s) == ImplTimeOK(s)

\* exact form on the concrete system: the state is U(t-t0) p0 (U(t-t0)^dagger).  The tables are
\* constant-level definitions: TLC evaluates them once (exact Gaussian-integer matrix products).
ExactTable ==
  TLCEval([k \in {"ket", "dop"}, dim \in {2, 3}, qL \in 0..3, qR \in 0..3 |->
             Evolve(k, UOf(SysDesc(dim)), SysP0(k, dim), qL, qR)])
ConsTable ==
  TLCEval([k \in {"ket", "dop"}, dim \in {2, 3}, qL \in 0..3, qR \in 0..3 |->
             Conserved(k, HOf(SysDesc(dim)), ExactTable[k, dim, qL, qR])])
ExactState(s) == ExactTable[s.kind, s.dim, s.tauL % 4, s.tauR % 4]
RefAt(s, tau) == ExactTable[s.kind, s.dim, tau % 4, tau % 4]

Schrodinger      == Live => TimeOK(st)
SchrodingerExact == Live => ExactState(st) = RefAt(st, T - st.t0)
\* an unsupported combination is rejected, or evolved correctly - never evolved incorrectly
RejectedNotMisEvolved == (Live /\ Sup = "may") => (TimeOK(st) /\ ExactState(st) = RefAt(st, T - st.t0))
\* a documented combination is never refused
SupportedAccepted == Rejected => Sup = "may"
\* an accepted request is reached; a refused one leaves the object where it was (TimeOK still holds)
ReachesRequestedTime == (Live /\ st.exc = "") => T = st.req
AcceptsAllowedTimes  == (Live /\ Sup = "must") => st.exc = ""
\* norm / trace, purity and energy of the exact state never change
ConservedInv ==
  Live => ConsTable[st.kind, st.dim, st.tauL % 4, st.tauR % 4] = ConsTable[st.kind, st.dim, 0, 0]
\* every state shown to a callback is the state of the time shown with it, and it is the reported one
CallbacksSeeState ==
  /\ \A k \in 1..Len(cblog) : cblog[k].L = cblog[k].t - st.t0 /\ (st.kind = "dop" => cblog[k].R = cblog[k].t - st.t0)
  /\ (Live /\ cb # "none" /\ st.exc = "" /\ Len(cblog) > 0) =>
        cblog[Len(cblog)] = [t |-> T, L |-> st.tauL, R |-> st.tauR]
  /\ (cb = "none" \/ ~Live) => cblog = <<>>
\* one callback per requested time
CallbackCount ==
  (Live /\ cb # "none" /\ Sup = "must") => Len(cblog) = (Budget - budget) - Len(pending)

TypeOK ==
  /\ budget \in 0..Budget
  /\ st.status \in {"none", "live", "rejected"}
  /\ Live => st.upd \in {"solved_ket", "solved_dop", "solved_broken", "integrate", "expm_ket", "expm_both", "expm_fail"}

(* ------------------------- behaviours for replay ------------------------ *)
Terminal == Rejected \/ (Live /\ budget = 0 /\ pending = <<>>)
Case == [kind |-> st.kind, method |-> st.method, hrep |-> st.hrep, dim |-> st.dim, t0 |-> st.t0, pb |-> st.pb,
         cb |-> cb, rejected |-> Rejected, calls |-> hist]
CaseOut == (PrintCases /\ Terminal) => PrintT(<<"QVJSON", ToJson(Case)>>)
=============================================================================
