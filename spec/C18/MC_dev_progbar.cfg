SPECIFICATION Spec
CONSTANTS
  Times <- TimesQuick
  T0s <- T0sOne
  Dims = {2, 3}
  Kinds <- AllKinds
  Methods <- AllMethods
  HReps <- AllHReps
  Cbs <- NoCb
  Budget = 2
  MaxAt = 1
  ExpmDopModes <- Repaired
  Solve2Modes <- Solve2OK
  Progbars <- PbOn
  Progbar0Modes <- PbPinned
  IntRepeatModes <- IrOK
  PrintCases = FALSE
INVARIANT AcceptsAllowedTimes
CHECK_DEADLOCK FALSE
