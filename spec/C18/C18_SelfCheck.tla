--------------------------- MODULE C18_SelfCheck ---------------------------
(* Self-check of the reference definitions of C18_Defs, evaluated by TLC once  *)
(* per run of the check (the ASSUME is evaluated before the trivial behaviour). *)
EXTENDS C18_Defs
VARIABLE x
\* ---- self-check of the reference definitions (evaluated by TLC at start-up) ----
\* every block propagator is exact (even numerators), unitary, of order 4, commutes with its
\* Hamiltonian and reduces to the textbook closed forms exp(-i(a + P)pi/2) = (-i)^(a+1) P and
\* exp(-i(a + 2P)pi/2) = -(-i)^a 1
ASSUME \A a \in -2..3, s \in -3..3, p \in {<<"X">>, <<"Y">>, <<"Z">>, <<"X", "Y">>, <<"Y", "Z">>, <<"Z", "Z">>, <<"Y", "Y">>} :
         LET b == [p |-> p, a |-> a, s |-> s]
             H == BlockH(b)
             U == BlockU(b)
         IN  /\ AllEven(BlockU2(b))
             /\ IsHermitian(H) /\ IsUnitary(U)
             /\ MatMul(U, H) = MatMul(H, U)
             /\ MatPow(U, 3) = Dag(U) /\ MatMul(U, MatPow(U, 3)) = Ident(Len(U))
             /\ (s = 1 => U = MatScale(MIPow(a + 1), Invol(p)))
             /\ (s = 2 => U = MatScale(MIPow(a + 2), Ident(Len(U))))
             /\ (s = 0 => U = MatScale(MIPow(a), Ident(Len(U))))


\* the incremental orbit is the same as the explicit powers, and U^q agrees with q-fold application
ASSUME LET desc == [blocks |-> << [p |-> <<>>, a |-> 3, s |-> 0], [p |-> <<"Y">>, a |-> -1, s |-> 3], [p |-> <<"X", "Z">>, a |-> 2, s |-> 1] >>,
                    perm |-> <<3, 1, 7, 2, 5, 4, 6>>, ph |-> <<0, 1, 3, 2, 2, 1, 0>>]
           U == UOf(desc) H == HOf(desc)
           psi == << <<1, 1>>, <<0, 2>>, <<-1, 0>>, <<2, -1>>, <<0, 0>>, <<1, 0>>, <<0, -2>> >>
           rho == Mat(7, 7, LAMBDA r, c : GMul(psi[r], GConj(psi[c])))
       IN  /\ IsHermitian(H) /\ IsUnitary(U) /\ MatMul(U, H) = MatMul(H, U) /\ IsHermitian(rho)
           /\ MatPow(U, 2) # Ident(7)
           /\ \A q \in 0..3 : /\ Orbit("ket", U, psi)[q + 1] = Evolve("ket", U, psi, q, q)
                              /\ Orbit("dop", U, rho)[q + 1] = Evolve("dop", U, rho, q, q)
                              /\ Conserved("ket", H, Orbit("ket", U, psi)[q + 1]) = Conserved("ket", H, psi)
                              /\ Conserved("dop", H, Orbit("dop", U, rho)[q + 1]) = Conserved("dop", H, rho)
           /\ Purity(rho) = Trace(MatMul(rho, rho)) /\ EnergyDop(H, rho) = Trace(MatMul(H, rho))
           /\ EnergyDop(H, rho) = EnergyKet(H, psi) /\ Trace(rho) = Norm2(psi)
           /\ Evolve("dop", U, rho, 1, 0) # Evolve("dop", U, rho, 1, 1)

Init == x = 0
Next == x < 3 /\ x' = x + 1
Spec == Init /\ [][Next]_x
Small == x <= 3
=============================================================================
