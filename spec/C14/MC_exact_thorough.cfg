SPECIFICATION Spec
CONSTANTS
  Shapes <- ShapesT
  Vals <- ValsQ
INVARIANT InScope
INVARIANT BetheExact
INVARIANT BeliefsExact
INVARIANT DefsAgree
CHECK_DEADLOCK FALSE
