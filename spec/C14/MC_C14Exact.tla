---------------------------- MODULE MC_C14Exact ----------------------------
EXTENDS C14_Exact
\* a chain, a hyper label on three tensors with a tail, a tensor with three legs (one dangling)
ShapesQ == << << <<"a">>, <<"a", "b">>, <<"b">> >>,
              << <<"a">>, <<"a">>, <<"a", "b">> >> >>
ShapesT == ShapesQ \o << << <<"a">>, <<"a">>, <<"a", "b">>, <<"b">> >>,
                         << <<"a", "b", "c">>, <<"a">>, <<"b">> >> >>
ShapesS == << << <<"a">>, <<"a", "b">>, <<"b">> >> >>
ValsQ == {1, 2}
ValsT == {-1, 1, 2}
=============================================================================
