---------------------------- MODULE MC_C14Exact ----------------------------
EXTENDS C14_Exact
\* a chain; a label on three tensors, one with a dangling label; the same with a tail
ShapesQ == << << <<"a">>, <<"a", "b">>, <<"b">> >>,
              << <<"a">>, <<"a">>, <<"a", "b">> >> >>
ShapesT == ShapesQ \o << << <<"a">>, <<"a">>, <<"a", "b">>, <<"b">> >> >>
ShapesS == ShapesQ
ValsQ == {1, 2}
ValsT == {-1, 2}
=============================================================================
