------------------------------- MODULE C14_BP -------------------------------
(***************************************************************************)
(* C14 - implementation-shaped model of the message scheduling of quimb's  *)
(* belief propagation classes at the pinned commit, on a tree:             *)
(*                                                                         *)
(*  flav "key"   D2BP / L1BP / L2BP : `touched` is a set of message keys,  *)
(*               a changed message marks touch_map[key] for the next round *)
(*  flav "tid"   D1BP : `touched` is a set of tensors; popping a tensor    *)
(*               recomputes all its outgoing messages, a changed message   *)
(*               marks its destination tensor                              *)
(*  flav "hyper" HD1BP / HV1BP : no touched set, two phases per iterate()  *)
(*               (index->tensor then tensor->index for HD1BP, the other    *)
(*               way round for HV1BP); HD1BP's 'sequential' and 'parallel' *)
(*               coincide because each phase only reads the other kind     *)
(*                                                                         *)
(*  iterate():   if (not local_convergence) or (not touched): touch all    *)
(*               sequential: pop, compute from the CURRENT messages, insert*)
(*               parallel:   compute all from the OLD messages, insert all *)
(*               touched = new_touched                                     *)
(*  run():       iterate until an iteration changes nothing                *)
(*                                                                         *)
(* A message is abstracted by the set inc[m] of upstream messages whose    *)
(* tensors it has absorbed (generic data: two values are equal iff these   *)
(* sets are equal); it is exact iff inc[m] = up[m].  `oset.pop()` order is *)
(* left open: TLC explores every pop order.                                *)
(*                                                                         *)
(* Damping (Lag > 1): an update moves a message only part of the way to    *)
(* its target f(inputs); it needs Lag updates with an unchanged target to  *)
(* be there (within tol).  tgt[m] is the target of the last update, lag[m] *)
(* the number of updates still missing, inc[m] what m certainly contains.  *)
(* mdiff > tol ("moved") iff the message was not at the new target.  Since *)
(* "fix: damped messages stay marked for update until they stop moving"    *)
(* (64891667, KF-C14-4) a moved damped message is marked itself, next to   *)
(* its readers: Repair = TRUE is the shipped behaviour                     *)
(* (MC_damped_repaired.cfg must pass).  Repair = FALSE is the code before  *)
(* that commit, which marked the readers only and left a damped message    *)
(* part of the way under local convergence: MC_damped.cfg must fail        *)
(* (self-test of the model, ConvergedExact).                               *)
(* Lag = 1 is the undamped algorithm: tgt = inc and lag = 0 throughout.    *)
(***************************************************************************)
EXTENDS C14_Defs, Json

CONSTANTS Trees,      \* sequence of [n |-> k, E |-> set of 2-sets over 1..k, hyper |-> BOOLEAN, kind |-> <<"T" | "I", ...>>]
          Flavs,      \* subset of {"key", "tid", "hyper"}
          MaxIter,
          SeqMaxUnits,\* sequential sweeps are explored for at most this many scheduling units (pop orders grow fast)
          Lag,        \* 1: no damping; 2: a damped message needs one more update with the same inputs
          Repair,     \* TRUE (shipped since 64891667): a moved damped message is marked for the next round itself
          Record,     \* TRUE: keep a history for replay (simulation only)
          Bug         \* "none"; self-tests of the model (must violate an invariant):
                      \* "marksrc"   a changed message marks its sender instead of its receiver (tid flavour)
                      \* "noretouch" iterate() does not refill an empty touched set

VARIABLES G,        \* GraphInfo of the chosen tree (constant along a behaviour)
          opt,      \* [tree, flav, mode, lc, init, first]
          inc, tgt, lag, touched, newt, phase, iter, conv, chg, skipped, obs, pops, hist
vars == <<G, opt, inc, tgt, lag, touched, newt, phase, iter, conv, chg, skipped, obs, pops, hist>>
view == <<opt, inc, tgt, lag, touched, newt, phase, iter, conv, chg, skipped, obs>>

Tree == Trees[opt.tree]
Kind(a) == Tree.kind[a]
Exact(m) == inc[m] = G.up[m] /\ lag[m] = 0
AllExact == \A m \in G.msgs : Exact(m)
OutOf(a) == {m \in G.msgs : m[1] = a}
Into(a) == {m \in G.msgs : m[2] = a}

\* scheduling units: message keys, or tensors
AllUnits == IF opt.flav = "tid" THEN G.nodes ELSE G.msgs
MsgsOfUnit(u) == IF opt.flav = "tid" THEN OutOf(u) ELSE {u}
\* what a changed message marks for the next round
Marks(m) == (IF opt.flav = "tid" THEN (IF Bug = "marksrc" THEN {m[1]} ELSE {m[2]}) ELSE TouchMap(G, m))
            \cup (IF Repair /\ Lag > 1 THEN (IF opt.flav = "tid" THEN {m[1]} ELSE {m}) ELSE {})

\* one update of m reading the messages src: <<inc, tgt, lag, moved>>
Upd(src, m) ==
  LET t == StepInc(G, src, m)
      l == IF t # tgt[m] THEN Lag - 1 ELSE Max2(lag[m] - 1, 0)
  IN  [inc |-> IF l = 0 THEN t ELSE inc[m], tgt |-> t, lag |-> l, moved |-> (t # tgt[m] \/ lag[m] > 0)]
Scheduled(m, T) == IF opt.flav = "tid" THEN m[1] \in T ELSE m \in T

\* initial messages.  default: the tensor with all other legs summed (one layer); custom / ones: nothing.
\* HD1BP default: tensor->index as above, index->tensor computed from them.
L0 == IF opt.init = "default" THEN 1 ELSE 0
InitInc(g, o) ==
  LET base == [m \in g.msgs |-> IF o.init = "default" /\ (o.flav # "hyper" \/ Trees[o.tree].kind[m[1]] = "T")
                                THEN {m} ELSE {}]
  IN  \* initialize_hyper_messages: index->tensor messages are computed from the tensor->index ones
      \* (HV1BP's default is all-ones messages: nothing absorbed anywhere)
      IF o.flav = "hyper" /\ (o.init = "default" \/ o.first = "IT")
      THEN [m \in g.msgs |-> IF Trees[o.tree].kind[m[1]] = "I" THEN StepInc(g, base, m) ELSE base[m]]
      ELSE base

Opts == [tree : DOMAIN Trees, flav : Flavs, mode : {"seq", "par"}, lc : BOOLEAN,
         init : {"default", "custom"}, first : {"IT", "TI"}]
\* only meaningful combinations (keeps the state graph free of duplicates)
GoodOpt(o) ==
  /\ (o.flav = "hyper") <=> Trees[o.tree].hyper
  /\ o.flav = "hyper" => o.mode = "par" /\ o.lc = FALSE
                         /\ \A e \in Trees[o.tree].E : {Trees[o.tree].kind[a] : a \in e} = {"T", "I"}
  /\ o.flav # "hyper" => o.first = "IT"
  /\ o.mode = "seq" => (IF o.flav = "tid" THEN Trees[o.tree].n ELSE 2 * Cardinality(Trees[o.tree].E)) <= SeqMaxUnits

HistRec == [pops |-> pops, exact |-> {m \in G.msgs : Exact(m)}, touched |-> touched, iter |-> iter, conv |-> conv]

Init ==
  /\ opt \in {o \in Opts : GoodOpt(o)}
  /\ G = GraphInfo(1..Trees[opt.tree].n, Trees[opt.tree].E)
  /\ inc = InitInc(G, opt) /\ tgt = inc /\ lag = [m \in G.msgs |-> 0]
  /\ touched = {} /\ newt = {} /\ phase = "idle" /\ iter = 0 /\ conv = FALSE /\ chg = FALSE
  /\ skipped = FALSE /\ obs = [k |-> "none"] /\ pops = <<>>
  /\ hist = IF Record THEN <<[pops |-> <<>>, exact |-> {m \in G.msgs : inc[m] = G.up[m]}, touched |-> {}, iter |-> 0, conv |-> FALSE]>>
            ELSE <<>>

(* ------------------------------ iterate() -------------------------------- *)
BeginIter ==
  /\ opt.flav # "hyper" /\ phase = "idle" /\ ~conv /\ iter < MaxIter
  /\ LET all == (~opt.lc) \/ (touched = {} /\ Bug # "noretouch") IN
     /\ touched' = IF all THEN AllUnits ELSE touched
     /\ skipped' = (~all /\ touched # AllUnits)
  /\ phase' = IF opt.mode = "seq" THEN "sweep" ELSE "par"
  /\ newt' = {} /\ chg' = FALSE /\ obs' = [k |-> "none"] /\ pops' = <<>>
  /\ UNCHANGED <<G, opt, inc, tgt, lag, iter, conv, hist>>

\* sequential: one pop.  All outgoing messages of a tensor read only incoming ones, so for "tid"
\* computing them together from the current state is what _compute_ms does.
UpdateSequential(u) ==
  /\ phase = "sweep" /\ u \in touched
  \* (bound through singleton sets: TLC re-evaluates LET definitions at every use inside an action)
  /\ \E ms \in {MsgsOfUnit(u)} : \E new \in {[m \in ms |-> Upd(inc, m)]} : \E moved \in {{m \in ms : new[m].moved}} :
        /\ inc' = [m \in G.msgs |-> IF m \in ms THEN new[m].inc ELSE inc[m]]
        /\ tgt' = [m \in G.msgs |-> IF m \in ms THEN new[m].tgt ELSE tgt[m]]
        /\ lag' = [m \in G.msgs |-> IF m \in ms THEN new[m].lag ELSE lag[m]]
        /\ newt' = newt \cup UNION {Marks(m) : m \in moved}
        /\ chg' = (chg \/ moved # {})
  /\ touched' = touched \ {u}
  /\ pops' = IF Record THEN Append(pops, u) ELSE pops
  /\ UNCHANGED <<G, opt, phase, iter, conv, skipped, obs, hist>>

\* parallel: everything touched is computed from the old messages, then inserted
UpdateParallel ==
  /\ phase = "par"
  /\ \E ms \in {UNION {MsgsOfUnit(u) : u \in touched}} : \E new \in {[m \in ms |-> Upd(inc, m)]} :
     \E moved \in {{m \in ms : new[m].moved}} :
        /\ inc' = [m \in G.msgs |-> IF m \in ms THEN new[m].inc ELSE inc[m]]
        /\ tgt' = [m \in G.msgs |-> IF m \in ms THEN new[m].tgt ELSE tgt[m]]
        /\ lag' = [m \in G.msgs |-> IF m \in ms THEN new[m].lag ELSE lag[m]]
        /\ newt' = UNION {Marks(m) : m \in moved}
        /\ chg' = (moved # {})
  /\ touched' = {} /\ phase' = "sweep"
  /\ UNCHANGED <<G, opt, iter, conv, skipped, obs, pops, hist>>

\* end of iterate() as seen by run(): touched = new_touched, converged iff nothing moved
Finish ==
  /\ phase = "sweep" /\ touched = {}
  /\ touched' = newt /\ newt' = {} /\ iter' = iter + 1 /\ conv' = ~chg /\ phase' = "idle"
  /\ hist' = IF Record THEN Append(hist, [pops |-> pops, exact |-> {m \in G.msgs : Exact(m)},
                                          touched |-> newt, iter |-> iter + 1, conv |-> ~chg]) ELSE hist
  /\ UNCHANGED <<G, opt, inc, tgt, lag, chg, obs, pops>>
EndIter == Finish /\ ~skipped /\ skipped' = FALSE
\* the same, for an iteration in which local convergence left some messages alone
LocalConvergenceSkip == Finish /\ skipped /\ skipped' = FALSE

\* hyper flavours: one iterate() = two phases, each computed from the current messages
PhaseMsgs(k) == {m \in G.msgs : Kind(m[1]) = k}
HyperIterate ==
  /\ opt.flav = "hyper" /\ phase = "idle" /\ ~conv /\ iter < MaxIter
  /\ \E k1 \in {IF opt.first = "IT" THEN "I" ELSE "T"} : \E k2 \in {IF opt.first = "IT" THEN "T" ELSE "I"} :
     \E u1 \in {[m \in PhaseMsgs(k1) |-> Upd(inc, m)]} :
     \E inc1 \in {[m \in G.msgs |-> IF m \in PhaseMsgs(k1) THEN u1[m].inc ELSE inc[m]]} :
     \E u2 \in {[m \in PhaseMsgs(k2) |-> Upd(inc1, m)]} :
     \E u \in {[m \in G.msgs |-> IF m \in PhaseMsgs(k1) THEN u1[m] ELSE u2[m]]} :
     \E moved \in {\E m \in G.msgs : u[m].moved} :
        /\ inc' = [m \in G.msgs |-> u[m].inc] /\ tgt' = [m \in G.msgs |-> u[m].tgt]
        /\ lag' = [m \in G.msgs |-> u[m].lag]
        /\ chg' = moved /\ conv' = ~moved
  /\ iter' = iter + 1 /\ obs' = [k |-> "none"]
  /\ hist' = IF Record THEN Append(hist, [pops |-> <<>>, exact |-> {m \in G.msgs : inc'[m] = G.up[m]},
                                          touched |-> {}, iter |-> iter + 1, conv |-> conv']) ELSE hist
  /\ UNCHANGED <<G, opt, touched, newt, phase, skipped, pops>>

(* ------------------------------ reading results -------------------------- *)
\* contract(): reads every message
Contract ==
  /\ phase = "idle" /\ obs.k = "none"
  /\ obs' = [k |-> "Z", exact |-> AllExact]
  /\ UNCHANGED <<G, opt, inc, tgt, lag, touched, newt, phase, iter, conv, chg, skipped, pops, hist>>
\* index / tensor marginal at node a: reads the messages into a
Marginal(a) ==
  /\ phase = "idle" /\ obs.k = "none"
  /\ obs' = [k |-> "marg", node |-> a, exact |-> \A m \in Into(a) : Exact(m)]
  /\ UNCHANGED <<G, opt, inc, tgt, lag, touched, newt, phase, iter, conv, chg, skipped, pops, hist>>

UpdateSequentialA == \E u \in touched : UpdateSequential(u)
MarginalA == \E a \in G.nodes : Marginal(a)
Next == BeginIter \/ UpdateSequentialA \/ UpdateParallel \/ EndIter \/ LocalConvergenceSkip
        \/ HyperIterate \/ Contract \/ MarginalA
Spec == Init /\ [][Next]_vars

(* ------------------------------ properties ------------------------------- *)
DownClosed == \A m \in G.msgs : inc[m] \subseteq G.up[m]
\* Wave: updating m now makes it exact iff every message it reads is exact now; leaves are exact at once
Wave == \A m \in G.msgs :
          /\ (StepInc(G, inc, m) = G.up[m]) <=> (\A k \in G.deps[m] : Exact(k))
          /\ G.deps[m] = {} => StepInc(G, inc, m) = G.up[m]
\* Stable: messages only ever absorb more; an exact message stays exact under any further update
Stable == [][\A m \in G.msgs : inc[m] \subseteq inc'[m] /\ (Exact(m) => inc'[m] = G.up[m] /\ lag'[m] = 0)]_vars
\* between iterations every message is either scheduled or consistent with the messages it reads
Consistent ==
  (phase = "idle" /\ iter > 0 /\ opt.flav # "hyper") =>
     \A m \in G.msgs : Scheduled(m, touched) \/ (inc[m] = StepInc(G, inc, m) /\ lag[m] = 0)
\* after n iterations every message has n more exact layers than initially, whatever the schedule
WaveBound ==
  phase = "idle" => \A m \in G.msgs : LevelOfInc(G, m, inc[m]) >= Min2(G.h[m], L0 + iter)
\* when nothing changes any more everything is exact
ExactAtFixpoint ==
  /\ conv => AllExact
  /\ (phase = "idle" /\ iter > 0 /\ opt.flav # "hyper" /\ touched = {}) => AllExact
\* what run() promises when it reports convergence
ConvergedExact == conv => AllExact
\* the fixpoint (all exact) and the number of iterations needed do not depend on the order
ScheduleIndependent ==
  /\ iter <= IterBound(G, L0)
  /\ (phase = "idle" /\ iter = IterBound(G, L0)) => conv
\* results read after convergence are exact; a marginal is exact as soon as the messages into the node are
ReadExact == (obs.k # "none" /\ conv) => obs.exact

\* a complete behaviour (printed at convergence, simulation only)
EmitJson == (Record /\ conv /\ obs.k = "none") =>
              PrintT(<<"QVJSON", ToJson([opt |-> opt, n |-> Tree.n, edges |-> Tree.E, hist |-> hist])>>)
=============================================================================
