SPECIFICATION Spec
CONSTANTS
  Trees <- TreesB
  Flavs <- AllFlavs
  MaxIter = 30
  SeqMaxUnits = 6
  Record = FALSE
  Lag = 2
  Repair = FALSE
  Bug = "none"
VIEW view
INVARIANT ConvergedExact
CHECK_DEADLOCK FALSE
