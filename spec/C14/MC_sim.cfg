SPECIFICATION Spec
CONSTANTS
  Trees <- TreesS
  Flavs <- SimFlavs
  MaxIter = 12
  SeqMaxUnits = 10
  Record = TRUE
  Lag = 1
  Repair = FALSE
  Bug = "none"
INVARIANT ExactAtFixpoint
INVARIANT EmitJson
CHECK_DEADLOCK FALSE
