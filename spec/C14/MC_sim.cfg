SPECIFICATION Spec
CONSTANTS
  Trees <- TreesS
  Flavs <- SimFlavs
  MaxIter = 12
  SeqMaxUnits = 10
  Record = TRUE
  Bug = "none"
INVARIANT ExactAtFixpoint
INVARIANT EmitJson
CHECK_DEADLOCK FALSE
