----------------------------- MODULE C14_Trace -----------------------------
(***************************************************************************)
(* Trace spec for C14.  A trace (records with one `tid`) is either          *)
(*  * the life of one BP object:  init, iter*, end  - the spec carries the  *)
(*    wave bookkeeping (levels, C14_Defs!StepLevels, the schedule-free      *)
(*    lower bound proved for every schedule by the model C14_BP) and the    *)
(*    network, and judges the observed exactness of every message after     *)
(*    every iteration, the number of iterations, the final value, the       *)
(*    marginals and the final messages against values TLC recomputes from   *)
(*    the integer data of the network (sum over assignments);               *)
(*  * or single-record observations of the functional entry points:         *)
(*    entry (contract_Xbp), gauge (gauge_X, compress_X, no truncation),    *)
(*    sample (sample_Xbp), group (same network, different schedules).       *)
(* Observed numbers: scalars [off, v = <<re, im>>], rational vectors        *)
(* [off, p = << <<num, den>>, ... >>], dense tensors [off, a = <<..>>];     *)
(* `off` = the float was not on the lattice.  dq fields are quantised       *)
(* distances to a numpy reference (float networks): they must be 0.         *)
(***************************************************************************)
EXTENDS C14_Defs, TraceIO

VARIABLES l, fails, st
tvars == <<l, fails, st>>

NoState == [tid |-> -1, ok |-> FALSE]

(* ---------------------------- graph of a record -------------------------- *)
HasNet(ln) == Has(ln, "net")
NodesOfRec(ln) ==
  IF HasNet(ln)
  THEN IF ln.gk = "hyper" THEN HyperNodes(ln.net, ln.name) ELSE SiteNodes(ln.net, ln.name)
  ELSE SeqToSet(ln.graph.nodes)
EdgesOfRec(ln) ==
  IF HasNet(ln)
  THEN IF ln.gk = "hyper" THEN HyperEdges(ln.net, ln.name) ELSE SiteEdges(ln.net, ln.name)
  ELSE {{ln.graph.edges[k][1], ln.graph.edges[k][2]} : k \in DOMAIN ln.graph.edges}
InDomain(ln) ==
  IF HasNet(ln)
  THEN CASE ln.gk = "hyper" -> HyperDomain(ln.net, ln.name)
         [] ln.gk = "dense" -> DenseDomain(ln.net, ln.name)
         [] OTHER           -> LazyDomain(ln.net, ln.name)
  ELSE IsForest(NodesOfRec(ln), EdgesOfRec(ln))

L0Of(ln) == IF ln.opts.init = "default" THEN 1 ELSE 0
\* the label nodes of a hyper graph
INodes(ln) == IF HasNet(ln) THEN NetLabels(ln.net) ELSE SeqToSet(ln.graph.inodes)
\* initial levels.  initialize_hyper_messages computes the index->tensor messages from the initial
\* tensor->index ones: they are one update ahead.
InitLvl(ln, G) ==
  LET base == InitLevels(G, L0Of(ln)) IN
  IF ln.opts.hyperinit
  THEN [m \in G.msgs |-> IF m[1] \in INodes(ln) THEN StepLevel(G, base, m) ELSE base[m]]
  ELSE base
\* 2-norm flavours trace over the outer labels: `out` lists them once each
OutOK(ln) == (HasNet(ln) /\ ln.norm = 2) =>
                /\ SeqToSet(ln.out) = OuterLabels(ln.net)
                /\ \A a, b \in DOMAIN ln.out : ln.out[a] = ln.out[b] => a = b

(* ---------------------------- numeric clauses ---------------------------- *)
\* value of a 1-norm flavour / squared norm of a 2-norm flavour, recomputed by TLC
ExpectedValue(net, norm, out) == IF norm = 1 THEN ZOf(net) ELSE <<Norm2Of(net, out), 0>>
ValueIs(ln, z) ==
  /\ Has(ln, "value") => (~ln.value.off /\ <<ln.value.v[1], ln.value.v[2]>> = z)
  /\ Has(ln, "dqvalue") => ln.dqvalue = 0
ValueOK(ln, net, norm, out) ==
  /\ Has(ln, "value") => ValueIs(ln, ExpectedValue(net, norm, out))
  /\ Has(ln, "dqvalue") => ln.dqvalue = 0
\* index marginals: 1-norm: of any label (from the joint table J over labs); 2-norm: of an outer label
IMargOK(ln, net, norm, out, J, labs, A) ==
  /\ Has(ln, "imarg") =>
       \A k \in DOMAIN ln.imarg :
          LET q == ln.imarg[k] IN
          /\ ~q.off
          /\ IF norm = 1 THEN RatVecMatches(q.p, MargFromJoint(J, DimsOf(net, labs), <<PosIn(labs, q.x)>>))
             ELSE RatVecMatchesI(q.p, ProbMargFromAmp(A, DimsOf(net, out), PosIn(out, q.x)))
  /\ Has(ln, "dqimarg") => ln.dqimarg = 0
\* final messages (1-norm dense / hyper): proportional to the contraction of everything behind the sender
FMsgOK(ln, net, name, E) ==
  Has(ln, "fmsg") =>
     \A k \in DOMAIN ln.fmsg :
        LET q == ln.fmsg[k] IN
        ~q.off /\ RatVecMatches(q.p, ExactMsg(net, name, E, q.src, q.dst, q.x))

SetOfPairs(s) == PairsToSet(s)

(* ---------------------------- one record --------------------------------- *)
\* returns <<clauses, new state>>
OnInit(ln) ==
  LET dom == InDomain(ln) /\ OutOK(ln)
      N == NodesOfRec(ln)
      E == EdgesOfRec(ln)
      G == IF dom THEN GraphInfo(N, E) ELSE EmptyGraph
      lvl == InitLvl(ln, G)
      ex == SetOfPairs(ln.exact)
      s == [tid |-> ln.tid, ok |-> dom /\ ln.exc = "", G |-> G, lvl |-> lvl, prevEx |-> ex, rec |-> ln, n |-> 0,
            J |-> <<>>, labs |-> <<>>]
  IN << << <<"InDomain", dom>>,
           <<"Returns", ln.exc = "">>,
           <<"MessagesMatchGraph", dom /\ ln.exc = "" => SetOfPairs(ln.msgs) = G.msgs>>,
           <<"Wave", dom /\ ln.exc = "" /\ ~ln.opts.damped => ExactByLevel(G, lvl) \subseteq ex>> >>,
        s >>

\* messages whose whole upstream was observed exact stay exact
StableOK(s, ex) == {m \in s.G.msgs : s.G.up[m] \subseteq s.prevEx} \subseteq ex

OnIter(ln, s) ==
  LET ex == SetOfPairs(ln.exact)
      lvl == IF s.rec.opts.damped THEN s.lvl ELSE StepLevels(s.G, s.lvl)
  IN << << <<"Returns", ln.exc = "">>,
           <<"Wave", ln.exc = "" /\ ~s.rec.opts.damped => ExactByLevel(s.G, lvl) \subseteq ex>>,
           <<"Stable", ln.exc = "" => StableOK(s, ex)>>,
           \* S->C replays carry the model's prediction for the imposed schedule: generic data makes the
           \* observed exact set equal to it; falling short of it is a drift of the model, not a violation
           <<"NOTE:ModelDrift", (ln.exc = "" /\ Has(ln, "model")) => SetOfPairs(ln.model.exact) \subseteq ex>> >>,
        [s EXCEPT !.lvl = lvl, !.prevEx = ex, !.n = s.n + 1, !.ok = s.ok /\ ln.exc = ""] >>

\* TLC evaluates LET definitions and operator arguments lazily and may evaluate them again at every
\* use; binding through a singleton set gives the body a computed value.
ForceLet(e, Body(_)) == CHOOSE res \in {Body(v) : v \in {e}} : TRUE

\* what TLC recomputes from the integer data of the network: 1-norm: the table J of all products over
\* all labels (value and marginals are sums over it); 2-norm: the amplitudes A over the outer labels
Recomputed(ln, s) ==
  LET r == s.rec
      exactnet == HasNet(r) /\ ln.exc = ""
      labs == IF exactnet /\ r.norm = 1 THEN AllLabels(r.net) ELSE <<>>
  IN  [labs |-> labs,
       J |-> IF exactnet /\ r.norm = 1 THEN JointOf(r.net, labs) ELSE <<>>,
       A |-> IF exactnet /\ r.norm = 2 THEN AmpOf(r.net, r.out) ELSE <<>>]

OnEndBody(ln, s, c) ==
  LET ex == SetOfPairs(ln.exact)
      r == s.rec
      exactnet == HasNet(r)
      net == IF exactnet THEN r.net ELSE <<>>
      name == IF exactnet THEN r.name ELSE <<>>
      out == IF exactnet THEN r.out ELSE <<>>
      z == IF exactnet /\ ln.exc = "" THEN (IF r.norm = 1 THEN GSum(c.J) ELSE <<Norm2OfAmp(c.A), 0>>) ELSE GZero
  IN << << <<"Returns", ln.exc = "">>,
           <<"Converges", ln.exc = "" => ln.converged>>,
           <<"ExactAtFixpoint", ln.exc = "" /\ ln.converged => ex = s.G.msgs>>,
           <<"Stable", ln.exc = "" => StableOK(s, ex)>>,
           \* iterations counted by run(): schedule independent bound (no damping).  Level 0 is used for
           \* every initialisation: initial messages may be normalised differently from updated ones
           \* (D1BP: not at all, HD1BP: by their sum), which costs one more sweep.
           <<"IterBound", ln.exc = "" /\ ~r.opts.damped /\ Has(ln, "iterations") =>
                             ln.iterations <= IterBound(s.G, 0)>>,
           <<"ValueExact", ln.exc = "" => ValueIs(ln, z)>>,
           <<"IndexMarginalExact", ln.exc = "" => IMargOK(ln, net, r.norm, out, c.J, c.labs, c.A)>>,
           <<"TensorMarginalExact", ln.exc = "" => (Has(ln, "dqtmarg") => ln.dqtmarg = 0)>>,
           <<"MessagesExact", ln.exc = "" => FMsgOK(ln, net, name, s.G.E)>> >>,
        [s EXCEPT !.prevEx = ex, !.J = c.J, !.labs = c.labs] >>
OnEnd(ln, s) == ForceLet(Recomputed(ln, s), LAMBDA c : OnEndBody(ln, s, c))

\* one tensor marginal read from the converged messages (records following the end record)
OnTMarg(ln, s) ==
  << << <<"Returns", ln.exc = "">>,
        <<"TensorMarginalExact", (ln.exc = "" /\ Has(ln, "p")) =>
              (~ln.off /\ RatVecMatches(ln.p, MargFromJoint(s.J, DimsOf(s.rec.net, s.labs),
                                     [k \in DOMAIN s.rec.net[ln.t].inds |-> PosIn(s.labs, s.rec.net[ln.t].inds[k])])))>> >>,
     s >>

\* functional entry points: contract_*bp
OnEntry(ln) ==
  LET dom == InDomain(ln) /\ OutOK(ln) IN
  << << <<"InDomain", dom>>,
        <<"Returns", ln.exc = "">>,
        <<"ValueExact", dom /\ ln.exc = "" => ValueOK(ln, IF HasNet(ln) THEN ln.net ELSE <<>>, ln.norm,
                                                      IF HasNet(ln) THEN ln.out ELSE <<>>)>> >>,
     NoState >>

\* gauge_* / compress_* with converged messages and no truncation: the denoted tensor is unchanged
OnGauge(ln) ==
  LET dom == InDomain(ln) /\ OutOK(ln) IN
  << << <<"InDomain", dom>>,
        <<"Returns", ln.exc = "">>,
        <<"DenotationPreserved", dom /\ ln.exc = "" =>
              /\ ln.dq = 0
              /\ (HasNet(ln) /\ Has(ln, "after")) =>
                    (~ln.after.off /\ [k \in DOMAIN ln.after.a |-> <<ln.after.a[k][1], ln.after.a[k][2]>>]
                                       = AmpOf(ln.net, ln.out))>>,
        <<"NoTruncation", dom /\ ln.exc = "" /\ Has(ln, "bonds_ok") => ln.bonds_ok>> >>,
     NoState >>

\* sample_*: the reported probability of the sampled configuration is the exact one
OnSample(ln) ==
  LET dom == InDomain(ln)
      labs == ln.labs                                   \* the sampled labels, in a fixed order
      cfg  == [k \in DOMAIN labs |-> ln.config[k]]
      ds   == [k \in DOMAIN labs |-> DimOf(ln.net, labs[k])]
      pos  == Flat(cfg, ds) + 1
  IN
  << << <<"InDomain", dom>>,
        <<"Returns", ln.exc = "">>,
        <<"SampleProbExact", dom /\ ln.exc = "" =>
              /\ ~ln.omega.off
              /\ IF ln.norm = 1
                 THEN \E w \in {MargOf(ln.net, labs)} : \E tot \in {GSum(w)} :
                      /\ tot[1] # 0 /\ tot[2] = 0 /\ w[pos][2] = 0
                      /\ <<ln.omega.p[1], ln.omega.p[2]>> = RedRat(w[pos][1], tot[1])
                 ELSE \E a \in {AmpOf(ln.net, labs)} : \E tot \in {Norm2OfAmp(a)} :
                      tot # 0 /\ <<ln.omega.p[1], ln.omega.p[2]>> = RedRat(GAbs2(a[pos]), tot)>> >>,
     NoState >>

\* region graphs on a tree: counting numbers of gen_region_counts / RegionGraph, cluster expansion value
FamOf(js) == [k \in DOMAIN js |-> [r |-> SeqToSet(js[k].r), c |-> js[k].c]]
OnRegions(ln) ==
  LET N == SeqToSet(ln.graph.nodes)
      E == {{ln.graph.edges[k][1], ln.graph.edges[k][2]} : k \in DOMAIN ln.graph.edges}
      dom == IsForest(N, E)
      f1 == FamOf(ln.counts)
      f2 == FamOf(ln.rgcounts)
  IN
  << << <<"InDomain", dom>>,
        <<"Returns", ln.exc = "">>,
        <<"CountsBalanced", dom /\ ln.exc = "" =>
              /\ RegionsDistinct(f1) /\ CountsRecursive(f1) /\ NodeBalanced(f1) /\ RegionNodes(f1) = N
              /\ RegionsDistinct(f2) /\ CountsRecursive(f2) /\ NodeBalanced(f2)>>,
        <<"ValueExact", dom /\ ln.exc = "" => ln.dqvalue = 0>> >>,
     NoState >>

\* the same network run under different schedules / options gave the same results
OnGroup(ln) ==
  << << <<"ScheduleIndependent", \A k \in DOMAIN ln.dq : ln.dq[k] = 0>> >>, NoState >>

Step(ln, s) ==
  CASE ln.ev = "init"   -> OnInit(ln)
    \* after a failed init / iteration (already reported) the rest of that trace is not judged
    [] ln.ev = "iter"   -> IF s.tid = ln.tid /\ s.ok THEN OnIter(ln, s)
                           ELSE << << <<"TraceShape", s.tid = ln.tid>> >>, s >>
    [] ln.ev = "end"    -> IF s.tid = ln.tid /\ s.ok THEN OnEnd(ln, s)
                           ELSE << << <<"TraceShape", s.tid = ln.tid>> >>, NoState >>
    [] ln.ev = "tmarg"  -> IF s.tid = ln.tid /\ s.ok /\ HasNet(s.rec) THEN OnTMarg(ln, s)
                           ELSE << << <<"TraceShape", s.tid = ln.tid>> >>, s >>
    [] ln.ev = "entry"  -> OnEntry(ln)
    [] ln.ev = "gauge"  -> OnGauge(ln)
    [] ln.ev = "sample" -> OnSample(ln)
    [] ln.ev = "group"  -> OnGroup(ln)
    [] ln.ev = "regions" -> OnRegions(ln)
    [] OTHER            -> << << <<"UnknownEvent", FALSE>> >>, s >>

TInit == l = 1 /\ fails = <<>> /\ st = NoState
TNext == /\ l <= NLines
         /\ \E r \in {Step(TraceLog[l], st)} :
               /\ fails' = AddFails(fails, l, r[1])
               /\ st' = r[2]
         /\ l' = l + 1
TSpec == TInit /\ [][TNext]_tvars
Done == l = NLines + 1 => WriteVerdict(l - 1, fails)
=============================================================================
