------------------------------ MODULE C14_Defs ------------------------------
(***************************************************************************)
(* C14 - reference definitions (no variables).                             *)
(*                                                                         *)
(* Written from the property statement and from the textbook definition of *)
(* belief propagation, not from the code:                                  *)
(*  * the value of a network is the sum over all assignments of all its    *)
(*    labels of the product of the entries (LTensor!Denote);               *)
(*  * the marginal of a label / of a tensor is the same sum restricted to  *)
(*    one value of the label / of the tensor's labels, divided by the value;*)
(*  * the graph of a flavour: hyper flavours run on the incidence graph    *)
(*    (tensors and labels are nodes), dense flavours on the tensor graph   *)
(*    (bonds are edges), lazy flavours on the graph of sites;              *)
(*  * a directed message a->b depends on the messages c->a, c # b; the     *)
(*    exact message a->b is the contraction of everything behind a.        *)
(* Graph nodes are strings in traces and integers in the model.            *)
(***************************************************************************)
EXTENDS LTensor

SetMax(S) == CHOOSE x \in S : \A y \in S : y <= x
SetMin(S) == CHOOSE x \in S : \A y \in S : x <= y
Min2(a, b) == IF a <= b THEN a ELSE b
Max2(a, b) == IF a >= b THEN a ELSE b

(* ------------------------------ graphs ---------------------------------- *)
\* an undirected graph is a set N of nodes and a set E of two-element subsets of N
Nbr(E, a) == {b \in UNION E : b # a /\ {a, b} \in E}
Msgs(E) == {m \in (UNION E) \X (UNION E) : m[1] # m[2] /\ {m[1], m[2]} \in E}
Deps(E, m) == {<<c, m[1]>> : c \in Nbr(E, m[1]) \ {m[2]}}

RECURSIVE Closure(_, _)
Closure(E, S) == LET S2 == S \cup UNION {Nbr(E, a) : a \in S}
                 IN  IF S2 = S THEN S ELSE Closure(E, S2)
RECURSIVE NComp(_, _)
NComp(E, N) == IF N = {} THEN 0
               ELSE LET a == CHOOSE x \in N : TRUE IN 1 + NComp(E, N \ Closure(E, {a}))
\* no cycles: every component is a tree
IsForest(N, E) == /\ \A e \in E : Cardinality(e) = 2 /\ e \subseteq N
                  /\ Cardinality(E) + NComp(E, N) = Cardinality(N)

\* the messages upstream of m (m included), and the number of layers behind m; only defined on forests
RECURSIVE UpOf(_, _)
UpOf(E, m) == {m} \cup UNION {UpOf(E, k) : k \in Deps(E, m)}
RECURSIVE HeightOf(_, _)
HeightOf(E, m) == 1 + SetMax({HeightOf(E, k) : k \in Deps(E, m)} \cup {0})

GraphInfo(N, E) ==
  LET M == Msgs(E) IN
  [nodes |-> N, E |-> E, msgs |-> M,
   deps  |-> [m \in M |-> Deps(E, m)],
   up    |-> [m \in M |-> UpOf(E, m)],
   h     |-> [m \in M |-> HeightOf(E, m)]]
EmptyGraph == [nodes |-> {}, E |-> {}, msgs |-> {}, deps |-> <<>>, up |-> <<>>, h |-> <<>>]
HMax(G) == SetMax({G.h[m] : m \in G.msgs} \cup {0})
\* which messages read message k
TouchMap(G, k) == {m \in G.msgs : k \in G.deps[m]}

(* --------------------------- the wave, by levels ------------------------ *)
\* lvl[m] = number of exact layers behind m (capped at the height of m: then m is exact).
\* One update of m from messages with levels lvl:
StepLevel(G, lvl, m) ==
  IF G.deps[m] = {} THEN G.h[m]
  ELSE Min2(G.h[m], 1 + SetMin({lvl[k] : k \in G.deps[m]}))
\* a lower bound valid for ANY schedule that recomputes every message whose inputs changed
\* (checked for every schedule by the model C14_BP, invariant WaveBound)
StepLevels(G, lvl) == [m \in G.msgs |-> Max2(lvl[m], StepLevel(G, lvl, m))]
ExactByLevel(G, lvl) == {m \in G.msgs : lvl[m] >= G.h[m]}
InitLevels(G, l0) == [m \in G.msgs |-> Min2(G.h[m], l0)]
\* number of iterate() calls after which run() must have stopped (no damping, any schedule):
\* everything is exact after HMax - l0 iterations, the next one sees no change
IterBound(G, l0) == Max2(1, HMax(G) - l0 + 1)

(* --------------------------- the wave, by absorbed sets ----------------- *)
\* inc[m] = the set of upstream messages whose tensors m has absorbed; m is exact iff inc[m] = up[m]
StepInc(G, inc, m) == {m} \cup UNION {inc[k] : k \in G.deps[m]}
RECURSIVE Lv(_, _, _)
Lv(G, m, S) == IF m \notin S THEN 0
               ELSE IF G.deps[m] = {} THEN 99
               ELSE 1 + SetMin({Lv(G, k, S) : k \in G.deps[m]})
LevelOfInc(G, m, S) == Min2(G.h[m], Lv(G, m, S))

(* --------------------------- networks -> graphs ------------------------- *)
\* net : sequence of LTensor tensors; name[i] : the node name of tensor i (dense/hyper) or its site (lazy)
NoRepeat(net) == \A i \in DOMAIN net : \A a, b \in DOMAIN net[i].inds : net[i].inds[a] = net[i].inds[b] => a = b
Holders(net, x) == {i \in DOMAIN net : x \in SeqRange(net[i].inds)}
\* hyper flavours: incidence graph
HyperNodes(net, name) == {name[i] : i \in DOMAIN net} \cup NetLabels(net)
HyperEdges(net, name) == UNION {{{name[i], net[i].inds[k]} : k \in DOMAIN net[i].inds} : i \in DOMAIN net}
HyperDomain(net, name) ==
  /\ NoRepeat(net) /\ SizesConsistent(net)
  /\ \A i, j \in DOMAIN net : name[i] = name[j] => i = j
  /\ {name[i] : i \in DOMAIN net} \cap NetLabels(net) = {}
  /\ IsForest(HyperNodes(net, name), HyperEdges(net, name))
\* dense / lazy flavours: graph of sites; a bond joins exactly two sites
SiteNodes(net, name) == {name[i] : i \in DOMAIN net}
SitesOf(net, name, x) == {name[i] : i \in Holders(net, x)}
SiteEdges(net, name) == {SitesOf(net, name, x) : x \in {y \in NetLabels(net) : Cardinality(SitesOf(net, name, y)) = 2}}
BondsBetween(net, name, a, b) == {x \in NetLabels(net) : SitesOf(net, name, x) = {a, b}}
\* lazy: any structure inside a site, any number of bonds between two sites, sites form a forest
LazyDomain(net, name) ==
  /\ SizesConsistent(net)
  /\ \A x \in NetLabels(net) : Cardinality(SitesOf(net, name, x)) <= 2
  /\ IsForest(SiteNodes(net, name), SiteEdges(net, name))
\* dense: one tensor per site, one bond per pair, no hyper labels
DenseDomain(net, name) ==
  /\ NoRepeat(net) /\ LazyDomain(net, name)
  /\ \A i, j \in DOMAIN net : name[i] = name[j] => i = j
  /\ \A x \in NetLabels(net) : Cardinality(Holders(net, x)) <= 2
  /\ \A e \in SiteEdges(net, name) :
        LET a == CHOOSE u \in e : TRUE
            b == CHOOSE u \in e : u # a
        IN  Cardinality(BondsBetween(net, name, a, b)) = 1

(* --------------------------- exact values ------------------------------- *)
\* The statement's value: the sum over all assignments of all labels of the product of the entries.
\* JointOf is the table of those products over the labels `labs` (every label of the network, flat,
\* C order); it is LTensor!Denote(net, labs) with the index arithmetic hoisted out of the loop
\* (the model C14_Exact checks JointOf = Denote on every small case).
DimsOf(net, labs) == [k \in DOMAIN labs |-> DimOf(net, labs[k])]
JointOf(net, labs) ==
  LET L  == Len(labs)
      ds == DimsOf(net, labs)
      st == [k \in 1..L |-> ProdI(ds, k + 1, L)]
      pm == [i \in DOMAIN net |-> [k \in DOMAIN net[i].inds |-> PosIn(labs, net[i].inds[k])]]
      ts == [i \in DOMAIN net |-> [k \in DOMAIN net[i].inds |-> ProdI(net[i].shape, k + 1, Len(net[i].shape))]]
  IN  [n \in 1..Size(ds) |->
         LET dg == [k \in 1..L |-> ((n - 1) \div st[k]) % ds[k]] IN
         ProdG(LAMBDA i : net[i].data[1 + SumI(LAMBDA k : dg[pm[i][k]] * ts[i][k], 1, Len(net[i].inds))],
               1, Len(net))]
GSum(v) == SumG(LAMBDA k : v[k], 1, Len(v))
AllLabels(net) == SetToSeqL(NetLabels(net))
ZOf(net) == GSum(JointOf(net, AllLabels(net)))
\* marginal over the labels at positions pos (a sequence) of labs: flat, C order over those labels.
\* Entry f of the result is the sum of the joint entries whose digits at pos are those of f: the joint
\* offset splits into the part of the kept labels and the part of the summed ones.
MargFromJoint(J, ds, pos) ==
  LET L    == Len(ds)
      kept == {pos[k] : k \in DOMAIN pos}
      rest == SelectSeq([k \in 1..L |-> k], LAMBDA k : k \notin kept)
      st   == [k \in 1..L |-> ProdI(ds, k + 1, L)]
      sd   == [k \in DOMAIN pos  |-> ds[pos[k]]]
      rd   == [k \in DOMAIN rest |-> ds[rest[k]]]
      offF == [f \in 1..Size(sd) |-> SumI(LAMBDA k : Digit(f - 1, sd, k) * st[pos[k]], 1, Len(pos))]
      offR == [r \in 1..Size(rd) |-> SumI(LAMBDA k : Digit(r - 1, rd, k) * st[rest[k]], 1, Len(rest))]
  IN  [f \in 1..Size(sd) |-> SumG(LAMBDA r : J[1 + offF[f] + offR[r]], 1, Size(rd))]
\* unnormalised marginal over the labels `out`
MargOf(net, out) ==
  LET labs == AllLabels(net) IN
  MargFromJoint(JointOf(net, labs), DimsOf(net, labs), [k \in DOMAIN out |-> PosIn(labs, out[k])])
\* rationals: reduced, positive denominator
RECURSIVE Gcd(_, _)
Gcd(a, b) == IF b = 0 THEN a ELSE Gcd(b, a % b)
Abs(a) == IF a < 0 THEN -a ELSE a
RedRat(n, d) == LET g == Gcd(Abs(n), Abs(d))
                    sg == IF d < 0 THEN -1 ELSE 1
                IN  <<sg * (n \div g), sg * (d \div g)>>
\* observed p[k] = <<num, den>> (a reduced real rational) equals v[k] / sum(v) for real Gaussian-integer v
\* (binding through singleton sets: TLC would otherwise re-evaluate the lazy argument at every use)
RatVecMatches(p, v0) ==
  \E v \in {v0} : \E s \in {GSum(v)} :
  /\ Len(p) = Len(v)
  /\ s[1] # 0 /\ s[2] = 0
  /\ \A k \in DOMAIN v : v[k][2] = 0 /\ <<p[k][1], p[k][2]>> = RedRat(v[k][1], s[1])
\* two vectors are proportional (cross products agree)
Proportional(u, v) ==
  /\ Len(u) = Len(v)
  /\ \A a, b \in DOMAIN u : GMul(u[a], v[b]) = GMul(u[b], v[a])
  /\ (\A a \in DOMAIN u : u[a] = GZero) <=> (\A a \in DOMAIN v : v[a] = GZero)

\* 2-norm flavours: amplitudes over the outer labels `out`, norm, marginal of one outer label
AmpOf(net, out) == MargOf(net, out)
Norm2OfAmp(a) == SumI(LAMBDA k : GAbs2(a[k]), 1, Len(a))
Norm2Of(net, out) == Norm2OfAmp(AmpOf(net, out))
\* probabilities of the values of the outer label at position p of out (unnormalised)
ProbMargFromAmp(a, ds, p) ==
  LET st == ProdI(ds, p + 1, Len(ds)) IN
  [v \in 1..ds[p] |-> SumI(LAMBDA n : IF (((n - 1) \div st) % ds[p]) = v - 1 THEN GAbs2(a[n]) ELSE 0, 1, Len(a))]
ProbMargOf(net, out, p) == ProbMargFromAmp(AmpOf(net, out), DimsOf(net, out), p)
\* p[k] = <<num, den>> equals w[k] / sum(w) for integer weights w
RatVecMatchesI(p, w0) ==
  \E w \in {w0} : \E s \in {SumI(LAMBDA k : w[k], 1, Len(w))} :
  /\ Len(p) = Len(w) /\ s # 0
  /\ \A k \in DOMAIN w : <<p[k][1], p[k][2]>> = RedRat(w[k], s)

\* exact message a -> b (dense / hyper 1-norm): contract every tensor behind a, keep label x open
SubNet(net, keep) == SelectSeq([i \in DOMAIN net |-> [t |-> net[i], k |-> i \in keep]], LAMBDA r : r.k)
TensorsOf(net, name, S) == {i \in DOMAIN net : name[i] \in S}
ExactMsg(net, name, E, a, b, x) ==
  LET behind == Closure(E \ {{a, b}}, {a})
      sub == SubNet(net, TensorsOf(net, name, behind))
  IN  IF Len(sub) = 0 THEN [v \in 1..DimOf(net, x) |-> GOne]
      ELSE MargOf([i \in DOMAIN sub |-> sub[i].t], <<x>>)

(* --------------------------- region counting numbers -------------------- *)
\* fam : sequence of [r |-> set of nodes, c |-> counting number]
RegionNodes(fam) == UNION {fam[k].r : k \in DOMAIN fam}
\* every node is counted once over all regions that contain it
NodeBalanced(fam) ==
  \A v \in RegionNodes(fam) : SumI(LAMBDA k : IF v \in fam[k].r THEN fam[k].c ELSE 0, 1, Len(fam)) = 1
\* the counting number of a region is 1 minus the counting numbers of the regions that strictly contain it
CountsRecursive(fam) ==
  \A k \in DOMAIN fam :
     fam[k].c = 1 - SumI(LAMBDA j : IF fam[k].r \subseteq fam[j].r /\ fam[k].r # fam[j].r THEN fam[j].c ELSE 0, 1, Len(fam))
\* no region twice
RegionsDistinct(fam) == \A j, k \in DOMAIN fam : fam[j].r = fam[k].r => j = k

\* JSON helpers
SeqToSet(s) == {s[k] : k \in DOMAIN s}
PairsToSet(s) == {<<s[k][1], s[k][2]>> : k \in DOMAIN s}
=============================================================================
