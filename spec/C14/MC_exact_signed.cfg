SPECIFICATION Spec
CONSTANTS
  Shapes <- ShapesS
  Vals <- ValsT
INVARIANT InScope
INVARIANT BetheExact
INVARIANT BeliefsExact
INVARIANT DefsAgree
CHECK_DEADLOCK FALSE
