SPECIFICATION Spec
CONSTANTS
  Shapes <- ShapesS
  Vals <- ValsT
INVARIANT InScope
INVARIANT BetheExact
INVARIANT BeliefsExact
INVARIANT DefsAgree
INVARIANT FastAgrees
CHECK_DEADLOCK FALSE
