SPECIFICATION Spec
CONSTANTS
  Shapes <- ShapesQ
  Vals <- ValsQ
INVARIANT InScope
INVARIANT BetheExact
INVARIANT BeliefsExact
INVARIANT DefsAgree
CHECK_DEADLOCK FALSE
