SPECIFICATION Spec
CONSTANTS
  Shapes <- ShapesQ
  Vals <- ValsQ
INVARIANT InScope
INVARIANT BetheExact
INVARIANT BeliefsExact
INVARIANT DefsAgree
INVARIANT FastAgrees
CHECK_DEADLOCK FALSE
