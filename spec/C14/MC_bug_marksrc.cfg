SPECIFICATION Spec
CONSTANTS
  Trees <- TreesB
  Flavs <- AllFlavs
  MaxIter = 12
  SeqMaxUnits = 6
  Record = FALSE
  Lag = 1
  Repair = FALSE
  Bug = "marksrc"
VIEW view
INVARIANT DownClosed
INVARIANT Wave
INVARIANT Consistent
INVARIANT WaveBound
INVARIANT ExactAtFixpoint
INVARIANT ScheduleIndependent
INVARIANT ReadExact
PROPERTY Stable
CHECK_DEADLOCK FALSE
