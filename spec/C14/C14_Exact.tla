------------------------------ MODULE C14_Exact ------------------------------
(***************************************************************************)
(* C14 - the reference definitions agree with each other: for every small  *)
(* integer data on a few acyclic networks, the fixed point of belief       *)
(* propagation (exact messages = contraction of everything behind the      *)
(* sender, C14_Defs!ExactMsg) reproduces the statement's value and         *)
(* marginals (sums over all assignments, LTensor!Denote):                  *)
(*   every local tensor / label / message-pair contraction equals Z        *)
(*   (so the Bethe product  prod_t Z_t prod_x Z_x / prod_(t,x) Z_tx  is    *)
(*   Z^(#T + #I - #incidences) = Z on a tree), the product of the messages *)
(*   into a label is its unnormalised marginal, tensor times incoming      *)
(*   messages is the tensor's unnormalised marginal.                       *)
(* These are polynomial identities: no division, valid for signed data.    *)
(***************************************************************************)
EXTENDS C14_Defs

CONSTANTS Shapes,   \* sequence of sequences of label-sequences, e.g. << <<"a">>, <<"a","b">>, <<"b">> >>
          Vals      \* the entries
VARIABLES shape, Net, Z, done     \* Net and Z are computed once, in Init (TLC re-evaluates definitions)
vars == <<shape, Net, Z, done>>

NEntries(sh) == SumI(LAMBDA i : Size([k \in DOMAIN sh[i] |-> 2]), 1, Len(sh))
Offset(sh, i) == SumI(LAMBDA j : Size([k \in DOMAIN sh[j] |-> 2]), 1, i - 1)
NetOf(sh, d) ==
  [i \in DOMAIN sh |->
     [inds |-> sh[i], shape |-> [k \in DOMAIN sh[i] |-> 2],
      data |-> [n \in 1..Size([k \in DOMAIN sh[i] |-> 2]) |-> <<d[Offset(sh, i) + n], 0>>]]]
Names(sh) == [i \in DOMAIN sh |-> <<"t1", "t2", "t3", "t4", "t5", "t6">>[i]]

Init == /\ shape \in DOMAIN Shapes
        /\ \E data \in [1..NEntries(Shapes[shape]) -> Vals] : Net = NetOf(Shapes[shape], data)
        /\ Z = ZOf(Net)
        /\ done = FALSE
Check == ~done /\ done' = TRUE /\ UNCHANGED <<shape, Net, Z>>
Spec == Init /\ [][Check]_vars

Nm == Names(Shapes[shape])
E == HyperEdges(Net, Nm)

\* message tensor -> label and label -> tensor
MTI(i, x) == ExactMsg(Net, Nm, E, Nm[i], x, x)
MIT(x, i) == ExactMsg(Net, Nm, E, x, Nm[i], x)
VecProd(vs, d) == [v \in 1..d |-> ProdG(LAMBDA k : vs[k][v], 1, Len(vs))]
HolderSeq(x) == LET S == Holders(Net, x) IN
                SelectSeq([i \in DOMAIN Net |-> i], LAMBDA i : i \in S)

\* tensor i with the message from every label attached, as a network: its unnormalised marginal
Local(i) ==
  LET t == Net[i]
      ms == [k \in DOMAIN t.inds |-> [inds |-> <<t.inds[k]>>, shape |-> <<2>>, data |-> MIT(t.inds[k], i)]]
  IN  <<t>> \o ms

InScope == done => HyperDomain(Net, Nm)
\* the local contractions of the Bethe formula all equal Z
BetheExact == done =>
  /\ \A i \in DOMAIN Net : DenoteScalar(Local(i)) = Z
  /\ \A x \in NetLabels(Net) :
        LET hs == HolderSeq(x) IN
        GSum(VecProd([k \in DOMAIN hs |-> MTI(hs[k], x)], 2)) = Z
  /\ \A i \in DOMAIN Net : \A k \in DOMAIN Net[i].inds :
        LET x == Net[i].inds[k] IN
        GSum(VecProd(<<MTI(i, x), MIT(x, i)>>, 2)) = Z
  \* a tree: #T + #I - #incidences = 1
  /\ Len(Net) + Cardinality(NetLabels(Net)) - Cardinality(E) = 1
\* beliefs are the marginals
BeliefsExact == done =>
  /\ \A x \in NetLabels(Net) :
        LET hs == HolderSeq(x) IN
        VecProd([k \in DOMAIN hs |-> MTI(hs[k], x)], 2) = MargOf(Net, <<x>>)
  /\ \A i \in DOMAIN Net : Denote(Local(i), Net[i].inds) = MargOf(Net, Net[i].inds)
\* the hoisted table of products is LTensor!Denote, and its sums are Denote's sums
FastAgrees == done =>
  /\ JointOf(Net, AllLabels(Net)) = Denote(Net, AllLabels(Net))
  /\ ZOf(Net) = DenoteScalar(Net)
  /\ \A x \in NetLabels(Net) : MargOf(Net, <<x>>) = Denote(Net, <<x>>)
  /\ \A i \in DOMAIN Net : MargOf(Net, Net[i].inds) = Denote(Net, Net[i].inds)
\* index -> tensor messages are the products of the other tensor -> index messages
DefsAgree == done =>
  \A i \in DOMAIN Net : \A k \in DOMAIN Net[i].inds :
     LET x == Net[i].inds[k]
         hs == SelectSeq(HolderSeq(x), LAMBDA j : j # i) IN
     MIT(x, i) = VecProd([q \in DOMAIN hs |-> MTI(hs[q], x)], 2)
=============================================================================
