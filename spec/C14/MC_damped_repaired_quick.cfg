SPECIFICATION Spec
CONSTANTS
  Trees <- TreesR
  Flavs <- AllFlavs
  MaxIter = 30
  SeqMaxUnits = 6
  Record = FALSE
  Lag = 2
  Repair = TRUE
  Bug = "none"
VIEW view
INVARIANT DownClosed
INVARIANT Consistent
INVARIANT ExactAtFixpoint
INVARIANT ConvergedExact
INVARIANT ReadExact
PROPERTY Stable
CHECK_DEADLOCK FALSE
