SPECIFICATION Spec
CONSTANTS
  LL = 2
  MGens <- MGensTiny
  OGens <- OGensTiny
  Scalars <- ScalarsQuick
  MaxDepth = 1
  MaxBond = 4
  OutFree = FALSE
  Mutant = "sub-negate-all"
  Emit = FALSE
VIEW View
INVARIANT Denotes
INVARIANT QueryExact
INVARIANT BondBook

CHECK_DEADLOCK FALSE
