---------------------------- MODULE MC_C09Algebra ----------------------------
EXTENDS C09_MPSAlgebra
MGensTiny == {"Pv", "w"}
OGensTiny == {"Gm"}
MGensQuick == {"Pv", "ghz", "w", "c10"}
OGensQuick == {"Gm", "id"}
MGensAll == {"Pv", "Qv", "ghz", "w", "c01", "c100", "neel1", "zero"}
OGensAll == {"Gm", "Hm", "id", "zeros"}
MGensSim == {"Pv", "Qv", "ghz", "w", "neel1", "zero"}
OGensSim == {"Gm", "Hm", "id"}
ScalarsQuick == {<<1, -1>>}
ScalarsAll == {<<2, 0>>, <<1, -1>>, <<0, 1>>}
NoMutant == ""
=============================================================================
