----------------------------- MODULE C09_Trace -----------------------------
(***************************************************************************)
(* Trace spec for C09.  A trace is a history of public MPS / MPO calls on  *)
(* named objects.  TLC keeps the abstract store  name -> (kind, physical   *)
(* dimensions, exact dense value)  and judges every record:                *)
(*   new / gen / from_dense : an object enters the store (a generator's    *)
(*        value is recomputed from its arguments, a dense round trip must  *)
(*        return the array it was given);                                  *)
(*   op      : the dense value of the result (numpy einsum over the public *)
(*        tensor data, snapped to Gaussian integers) must equal the dense  *)
(*        linear algebra of C09_Defs applied to the stored operands;       *)
(*   query   : a scalar returned by quimb must equal the dense scalar;     *)
(*   to_dense: quimb's own densification must equal the stored value;      *)
(*   compress: bond cap, untruncated reproduction, promised canonical      *)
(*        centre (measured isometry defects), error bound of the canonical *)
(*        method.                                                          *)
(* The stored value of a result is the *observed* one when it is on the    *)
(* lattice (so that one wrong result is reported once and the following    *)
(* records are judged relative to their actual operands).                  *)
(***************************************************************************)
EXTENDS C09_Defs, TraceIO

VARIABLES l, fails, store, tid
tvars == <<l, fails, store, tid>>

Empty == [x \in {} |-> 0]
Put(st, name, obj) == [n \in (DOMAIN st) \cup {name} |-> IF n = name THEN obj ELSE st[n]]
Obj(kind, dims, val, bonds) == [kind |-> kind, dims |-> dims, val |-> val, bonds |-> bonds]
DimOfObj(o) == Size(o.dims)
AsMat(o) == Mat(DimOfObj(o), o.val)
Len2(kind, dims) == IF kind = "mps" THEN Size(dims) ELSE Size(dims) * Size(dims)
Known(st, names) == \A k \in DOMAIN names : names[k] \in DOMAIN st
Set(s) == {s[k] : k \in DOMAIN s}
\* positions (1-based) of 0-based sites
Pos(s) == [k \in DOMAIN s |-> s[k] + 1]

(* ----------------------------- generators ------------------------------- *)
GenValue(ln) ==
  CASE ln.gen = "computational" -> ProductVec(ln.dims, [k \in DOMAIN ln.digits |-> CompChar(ln.digits[k])])
    [] ln.gen = "product"       -> ProductVec(ln.dims, ln.vs)
    [] ln.gen = "ghz"           -> GHZVec(Len(ln.dims))
    [] ln.gen = "w"             -> WVec(Len(ln.dims))
    [] ln.gen = "neel"          -> NeelVec(Len(ln.dims), ln.downfirst)
    [] ln.gen = "zero"          -> VZero(Size(ln.dims))
    [] ln.gen = "identity"      -> IdMat(Size(ln.dims)).data
    [] ln.gen = "zeros"         -> VZero(Size(ln.dims) * Size(ln.dims))
    [] ln.gen = "product_op"    -> ProductOp(ln.dims, ln.ms).data
    [] OTHER                    -> <<>>

\* a dense array given on `sites` (factor k on sites[k], 0-based) is returned on the sorted sites
RankIn(sites, k) == Cardinality({j \in DOMAIN sites : sites[j] < sites[k]}) + 1
FromDenseValue(ln) ==
  IF ln.kind = "mps" THEN ln.input
  ELSE EmbedMat(Mat(Size(ln.dims), ln.input),
                \* ln.dims are the sizes in the order of the factors; the result lives on the sorted sites
                [p \in DOMAIN ln.sites |-> ln.dims[CHOOSE k \in DOMAIN ln.sites : RankIn(ln.sites, k) = p]],
                [k \in DOMAIN ln.sites |-> RankIn(ln.sites, k)]).data
FromDenseDims(ln) ==
  IF ln.kind = "mps" THEN ln.dims
  ELSE [p \in DOMAIN ln.sites |-> ln.dims[CHOOSE k \in DOMAIN ln.sites : RankIn(ln.sites, k) = p]]

(* ----------------------------- operations ------------------------------- *)
\* expected [kind, dims, val] of the result of an operation on the stored operands
Expected(ln, st) ==
  LET a == st[ln.args[1]]
      b == IF Len(ln.args) >= 2 THEN st[ln.args[2]] ELSE a
  IN
  CASE ln.op = "add"   -> [kind |-> a.kind, dims |-> a.dims, val |-> VAdd(a.val, b.val)]
    [] ln.op = "sub"   -> [kind |-> a.kind, dims |-> a.dims, val |-> VSub(a.val, b.val)]
    [] ln.op = "scale" -> [kind |-> a.kind, dims |-> a.dims, val |-> VScale(ln.c, a.val)]
    [] ln.op = "neg"   -> [kind |-> a.kind, dims |-> a.dims, val |-> VNeg(a.val)]
    [] ln.op = "conj"  -> [kind |-> a.kind, dims |-> a.dims, val |-> VConj(a.val)]
    [] ln.op = "same"  -> [kind |-> a.kind, dims |-> a.dims, val |-> a.val]
    [] ln.op = "apply" ->
         IF b.kind = "mps" THEN [kind |-> "mps", dims |-> b.dims, val |-> MatVec(AsMat(a), b.val)]
         ELSE [kind |-> "mpo", dims |-> b.dims, val |-> MatMul(AsMat(a), AsMat(b)).data]
    [] ln.op = "apply_sub" ->
         LET G == EmbedMat(AsMat(a), b.dims, Pos(ln.sites)) IN
         IF b.kind = "mps" THEN [kind |-> "mps", dims |-> b.dims, val |-> MatVec(G, b.val)]
         ELSE [kind |-> "mpo", dims |-> b.dims, val |-> MatMul(G, AsMat(b)).data]
    [] ln.op = "ptranspose" ->
         [kind |-> "mpo", dims |-> a.dims, val |-> PartialTranspose(AsMat(a), a.dims, Set(Pos(ln.sysa))).data]
    [] ln.op = "ptrace" ->
         [kind |-> "mpo", dims |-> SubDims(a.dims, Pos(ln.keep)), val |-> PTrace(a.val, a.dims, Pos(ln.keep)).data]
    [] ln.op = "fill" ->
         [kind |-> "mpo", dims |-> ln.fulldims, val |-> EmbedMat(AsMat(a), ln.fulldims, Pos(ln.sites)).data]
    [] ln.op = "normalize" -> [kind |-> a.kind, dims |-> a.dims, val |-> a.val]
    [] OTHER -> [kind |-> "?", dims |-> <<>>, val |-> <<>>]

\* the operands have the kinds and sizes the operation needs (otherwise the record is malformed: the reference
\* value is not evaluated)
WellTypedOp(ln, st) ==
  LET a == st[ln.args[1]]
      b == IF Len(ln.args) >= 2 THEN st[ln.args[2]] ELSE a IN
  CASE ln.op \in {"add", "sub"} -> Len(ln.args) = 2 /\ a.kind = b.kind /\ a.dims = b.dims
    [] ln.op \in {"scale", "neg", "conj", "same"} -> TRUE
    [] ln.op = "normalize" -> a.kind = "mps"
    [] ln.op = "apply" -> Len(ln.args) = 2 /\ a.kind = "mpo" /\ a.dims = b.dims
    [] ln.op = "apply_sub" -> /\ Len(ln.args) = 2 /\ a.kind = "mpo"
                              /\ \A k \in DOMAIN ln.sites : ln.sites[k] + 1 \in DOMAIN b.dims
                              /\ Cardinality(Set(ln.sites)) = Len(ln.sites)
                              /\ SubDims(b.dims, Pos(ln.sites)) = a.dims
    [] ln.op = "ptranspose" -> a.kind = "mpo" /\ \A k \in DOMAIN ln.sysa : ln.sysa[k] + 1 \in DOMAIN a.dims
    [] ln.op = "ptrace" -> /\ a.kind = "mps" /\ Len(ln.keep) >= 1
                           /\ \A k \in DOMAIN ln.keep : ln.keep[k] + 1 \in DOMAIN a.dims
                           /\ \A k \in 1..(Len(ln.keep) - 1) : ln.keep[k] < ln.keep[k + 1]
    [] ln.op = "fill" -> /\ a.kind = "mpo"
                         /\ \A k \in DOMAIN ln.sites : ln.sites[k] + 1 \in DOMAIN ln.fulldims
                         /\ Cardinality(Set(ln.sites)) = Len(ln.sites)
                         /\ SubDims(ln.fulldims, Pos(ln.sites)) = a.dims
    [] OTHER -> FALSE

ValueClause(ln) ==
  CASE ln.op \in {"add", "sub"}          -> "SumExact"
    [] ln.op \in {"scale", "neg"}        -> "ScaleExact"
    [] ln.op = "conj"                    -> "ConjExact"
    [] ln.op = "same"                    -> "ValueUnchanged"
    [] ln.op \in {"apply", "apply_sub"}  -> "ApplyExact"
    [] ln.op = "ptranspose"              -> "TransposeExact"
    [] ln.op = "ptrace"                  -> "PartialTraceExact"
    [] ln.op = "fill"                    -> "FillExact"
    [] ln.op = "normalize"               -> "NormalizeExact"
    [] OTHER                             -> "UnknownOp"

SeqAdd(s, t) == [k \in DOMAIN s |-> s[k] + t[k]]
SeqMul(s, t) == [k \in DOMAIN s |-> s[k] * t[k]]
\* bookkeeping of the implementation-shaped model (C09_MPSAlgebra): a sum carries the direct sum of the
\* bonds, a contracted application the product of the bonds.  A mismatch is model drift, not a violation.
ModelBondsOK(ln, st) ==
  LET a == st[ln.args[1]]
      b == IF Len(ln.args) >= 2 THEN st[ln.args[2]] ELSE a IN
  CASE ln.op \in {"add", "sub"} /\ Len(a.bonds) = Len(b.bonds) /\ Len(a.bonds) = Len(ln.bonds)
         -> ln.bonds = SeqAdd(a.bonds, b.bonds)
    [] ln.op = "apply" /\ ln.how \in {"apply", "dot"} /\ Len(a.bonds) = Len(b.bonds) /\ Len(a.bonds) = Len(ln.bonds)
         -> ln.bonds = SeqMul(a.bonds, b.bonds)
    [] ln.op \in {"scale", "neg", "conj"} -> ln.bonds = a.bonds
    [] OTHER -> TRUE

OpClauses(ln, st) ==
  IF ~Known(st, ln.args) THEN << <<"UnknownOperand", FALSE>> >>
  ELSE IF ~WellTypedOp(ln, st) THEN << <<"WellTyped", FALSE>> >>
  ELSE
  LET e == Expected(ln, st)
      ok == ln.exc = "" /\ ln.ongrid IN
  << <<"Returns", ln.exc = "">>,
     <<"OnGrid", ln.exc = "" => ln.ongrid>>,
     <<"ShapeExact", ok => ln.odims = e.dims /\ Len(ln.val) = Len2(e.kind, e.dims)>>,
     \* (a reduced density operator that comes back as exactly the transpose of the reference is reported under
     \*  its own name; any other wrong value under the plain clause)
     <<ValueClause(ln), ok => (ln.val = e.val \/ (ln.op = "ptrace" /\ ln.val = Transpose(Mat(Size(e.dims), e.val)).data))>>,
     <<"PartialTraceExact.Transposed", (ok /\ ln.op = "ptrace" /\ ln.val # e.val) =>
                                          ln.val # Transpose(Mat(Size(e.dims), e.val)).data>>,
     <<"NormReturned", (ok /\ ln.op = "normalize") => ln.ret = Norm2(st[ln.args[1]].val)>>,
     <<"NOTE:ModelBonds", ok => ModelBondsOK(ln, st)>>,
     \* S->C replays carry the prediction of C09_MPSAlgebra
     <<"NOTE:AlgebraModel", (ok /\ Has(ln, "model_bonds")) => ln.bonds = ln.model_bonds>> >>

OpStore(ln, st) ==
  IF ~Known(st, ln.args) \/ ln.out = "" THEN st
  ELSE IF ~WellTypedOp(ln, st) THEN st
  ELSE LET e == Expected(ln, st)
           good == ln.exc = "" /\ ln.ongrid /\ Len(ln.val) = Len2(e.kind, e.dims) IN
       Put(st, ln.out, Obj(e.kind, e.dims, IF good THEN ln.val ELSE e.val, IF ln.exc = "" THEN ln.bonds ELSE <<>>))

(* ----------------------------- queries ---------------------------------- *)
QueryValue(ln, st) ==
  LET a == st[ln.args[1]]
      b == IF Len(ln.args) >= 2 THEN st[ln.args[2]] ELSE a
      c == IF Len(ln.args) >= 3 THEN st[ln.args[3]] ELSE a
      d == IF Len(ln.args) >= 4 THEN st[ln.args[4]] ELSE a IN
  CASE ln.q = "overlap"   -> Inner(b.val, a.val)                     \* a.overlap(b) = <b|a>
    [] ln.q = "hdot"      -> Inner(a.val, b.val)                     \* a.H @ b     = <a|b>
    [] ln.q = "norm2"     -> <<Norm2(a.val), 0>>
    [] ln.q = "expec"     -> Expec(a.val, AsMat(b), c.val)           \* <a| B |c>
    [] ln.q = "expec2"    -> Expec(a.val, MatMul(AsMat(b), AsMat(c)), d.val)   \* <a| B C |d>
    [] ln.q = "trace"     -> MTrace(AsMat(a))
    [] ln.q = "amplitude" -> a.val[Flat(ln.digits, a.dims) + 1]
    [] OTHER -> <<0, 0>>

WellTypedQuery(ln, st) ==
  LET a == st[ln.args[1]]
      b == IF Len(ln.args) >= 2 THEN st[ln.args[2]] ELSE a
      c == IF Len(ln.args) >= 3 THEN st[ln.args[3]] ELSE a
      d == IF Len(ln.args) >= 4 THEN st[ln.args[4]] ELSE a IN
  CASE ln.q \in {"overlap", "hdot"} -> Len(ln.args) = 2 /\ a.kind = b.kind /\ a.dims = b.dims
    [] ln.q = "norm2" -> TRUE
    [] ln.q = "expec" -> Len(ln.args) = 3 /\ a.kind = "mps" /\ b.kind = "mpo" /\ c.kind = "mps" /\ a.dims = b.dims /\ b.dims = c.dims
    [] ln.q = "expec2" -> /\ Len(ln.args) = 4 /\ a.kind = "mps" /\ b.kind = "mpo" /\ c.kind = "mpo" /\ d.kind = "mps"
                          /\ a.dims = b.dims /\ b.dims = c.dims /\ c.dims = d.dims
    [] ln.q = "trace" -> a.kind = "mpo"
    [] ln.q = "amplitude" -> a.kind = "mps" /\ Len(ln.digits) = Len(a.dims) /\ \A k \in DOMAIN a.dims : ln.digits[k] \in 0..(a.dims[k] - 1)
    [] OTHER -> FALSE

QueryClause(ln) ==
  CASE ln.q \in {"overlap", "hdot"}  -> "OverlapExact"
    [] ln.q = "norm2"                -> "NormExact"
    [] ln.q \in {"expec", "expec2"}  -> "ExpecExact"
    [] ln.q = "trace"                -> "TraceExact"
    [] ln.q = "amplitude"            -> "AmplitudeExact"
    [] OTHER                         -> "UnknownQuery"

QueryClauses(ln, st) ==
  IF ~Known(st, ln.args) THEN << <<"UnknownOperand", FALSE>> >>
  ELSE IF ~WellTypedQuery(ln, st) THEN << <<"WellTyped", FALSE>> >>
  ELSE
  << <<"Returns", ln.exc = "">>,
     <<"OnGrid", ln.exc = "" => ln.ongrid>>,
     <<QueryClause(ln), (ln.exc = "" /\ ln.ongrid) => ln.res = QueryValue(ln, st)>>,
     <<"NOTE:AlgebraModel", (ln.exc = "" /\ ln.ongrid /\ Has(ln, "model_res")) => ln.res = ln.model_res>> >>

(* ----------------------------- compression ------------------------------ *)
CompressClauses(ln, st) ==
  IF ~Known(st, <<ln.src>>) THEN << <<"UnknownOperand", FALSE>> >>
  ELSE
  LET a  == st[ln.src]
      L  == Len(a.dims)
      ok == ln.exc = ""
      pc == PromisedCentre(ln, L)
      nothing == NothingToTruncate(ln.method, ln.cap, ln.cutoff0, ln.ranks, a.bonds) IN
  << \* a method that documents that it needs a cap may reject max_bond=None; nothing else may raise
     <<"Returns", ok \/ (ln.cap = 0 /\ ln.method \in NeedsCap) \/ NumericalRefusal(ln.method, ln.exc)>>,
     <<"NOTE:NumericalRefusal", ~NumericalRefusal(ln.method, ln.exc)>>,
     \* (ln.capped: the positions of the bonds the call compresses - all of them except for compress_site)
     <<"BondCap", (ok /\ ln.cap > 0) => /\ (Len(ln.capped) = Len(ln.bonds)) => ln.maxbond <= ln.cap
                                        /\ \A k \in DOMAIN ln.capped : ln.bonds[ln.capped[k]] <= ln.cap>>,
     <<"BondSizesHonest", ok => /\ ln.qbonds = ln.bonds
                                /\ ln.maxbond = MaxOf(ln.bonds)
                                /\ Len(ln.bonds) = L - 1>>,
     <<"Untruncated", (ok /\ nothing) => (ln.same = 0 /\ (ln.ongrid => ln.val = a.val))>>,
     \* (equalize_norms rescales every tensor: isometries are then only isometries up to a factor - not judged)
     <<"CentreWherePromised", (ok /\ pc > 0 /\ ~ln.eqn) => CanonicalAround(pc, ln.liso, ln.riso)>>,
     \* normalize=True: the result has norm 1 (truncated or not); `val` / `same` above are then taken relative to
     \* input / ||input||
     <<"NormIsOne", (ok /\ ln.normalize) => ln.normq = 0>>,
     \* the plain spelling leaves its operand alone
     <<"InputUntouched", (ok /\ ~ln.inplace) => ln.inputsame = 0>>,
     <<"ErrorBound", (ok /\ ln.method \in Canonical /\ ln.form # "flat" /\ ~ln.normalize) => ln.err2q <= ln.disc2q>>,
     \* S->C replays carry the prediction of C09_Compress: final bonds, centre, losslessness
     <<"NOTE:SweepModel", (ok /\ Has(ln, "model")) =>
           /\ ln.bonds = ln.model.bonds
           /\ ((ln.model.centre > 0 /\ ~ln.eqn) => CanonicalAround(ln.model.centre, ln.liso, ln.riso))
           /\ ((~ln.model.lossy /\ ln.cutoff0) => ln.same = 0)>>,
     <<"NOTE:SweepModelRejects", (~ok /\ Has(ln, "model") /\ ~NumericalRefusal(ln.method, ln.exc)) => ln.model.rejected>> >>

CompressStore(ln, st) ==
  IF ~Known(st, <<ln.src>>) \/ ln.out = "" \/ ln.exc # "" THEN st
  ELSE LET a == st[ln.src] IN
       Put(st, ln.out, Obj(a.kind, a.dims, IF ln.ongrid /\ Len(ln.val) = Len(a.val) THEN ln.val ELSE a.val, ln.bonds))

(* ----------------------------- dispatch --------------------------------- *)
Clauses(ln, st) ==
  CASE ln.ev = "new" ->
         << <<"Returns", ln.exc = "">>,
            <<"OnGrid", ln.exc = "" => ln.ongrid>>,
            <<"WellFormed", (ln.exc = "" /\ ln.ongrid) => Len(ln.val) = Len2(ln.kind, ln.dims)>>,
            <<"ShapeExact", ln.exc = "" => ln.odims = ln.dims>> >>
    [] ln.ev = "gen" ->
         << <<"Returns", ln.exc = "">>,
            <<"OnGrid", ln.exc = "" => ln.ongrid>>,
            <<"ShapeExact", ln.exc = "" => ln.odims = ln.dims>>,
            <<"GeneratorExact", (ln.exc = "" /\ ln.ongrid) => ln.val = GenValue(ln)>> >>
    [] ln.ev = "from_dense" ->
         << <<"Returns", ln.exc = "">>,
            <<"OnGrid", ln.exc = "" => ln.ongrid>>,
            <<"ShapeExact", ln.exc = "" => ln.odims = FromDenseDims(ln)>>,
            <<"RoundTrip", (ln.exc = "" /\ ln.ongrid) => ln.val = FromDenseValue(ln)>> >>
    [] ln.ev = "to_dense" ->
         IF ~Known(st, <<ln.src>>) THEN << <<"UnknownOperand", FALSE>> >>
         ELSE << <<"Returns", ln.exc = "">>,
                 <<"OnGrid", ln.exc = "" => ln.ongrid>>,
                 <<"ToDenseExact", (ln.exc = "" /\ ln.ongrid) => ln.val = st[ln.src].val>> >>
    [] ln.ev = "op"       -> OpClauses(ln, st)
    [] ln.ev = "query"    -> QueryClauses(ln, st)
    [] ln.ev = "compress" -> CompressClauses(ln, st)
    [] OTHER              -> << <<"UnknownEvent", FALSE>> >>

NextStore(ln, st) ==
  CASE ln.ev = "new" ->
         IF ln.exc = "" /\ ln.ongrid /\ Len(ln.val) = Len2(ln.kind, ln.dims) /\ ln.odims = ln.dims
         THEN Put(st, ln.name, Obj(ln.kind, ln.dims, ln.val, ln.bonds)) ELSE st
    [] ln.ev = "gen" ->
         Put(st, ln.name, Obj(ln.kind, ln.dims,
                              IF ln.exc = "" /\ ln.ongrid /\ Len(ln.val) = Len2(ln.kind, ln.dims) THEN ln.val ELSE GenValue(ln),
                              IF ln.exc = "" THEN ln.bonds ELSE <<>>))
    [] ln.ev = "from_dense" ->
         Put(st, ln.name, Obj(ln.kind, FromDenseDims(ln),
                              IF ln.exc = "" /\ ln.ongrid /\ Len(ln.val) = Len(ln.input) THEN ln.val ELSE FromDenseValue(ln),
                              IF ln.exc = "" THEN ln.bonds ELSE <<>>))
    [] ln.ev = "op"       -> OpStore(ln, st)
    [] ln.ev = "compress" -> CompressStore(ln, st)
    [] OTHER              -> st

TInit == l = 1 /\ fails = <<>> /\ store = Empty /\ tid = -1
TNext == /\ l <= NLines
         /\ LET ln == TraceLog[l]
                st == IF ln.tid = tid THEN store ELSE Empty IN
            /\ fails' = AddFails(fails, l, Clauses(ln, st))
            /\ store' = NextStore(ln, st)
            /\ tid' = ln.tid
         /\ l' = l + 1
TSpec == TInit /\ [][TNext]_tvars
Done == l = NLines + 1 => WriteVerdict(l - 1, fails)
=============================================================================
