SPECIFICATION Spec
CONSTANTS
  LL = 3
  MGens <- MGensQuick
  OGens <- OGensQuick
  Scalars <- ScalarsQuick
  MaxDepth = 1
  MaxBond = 4
  OutFree = FALSE
  Mutant <- NoMutant
  Emit = FALSE
VIEW View
INVARIANT Denotes
INVARIANT QueryExact
INVARIANT BondBook

CHECK_DEADLOCK FALSE
