SPECIFICATION Spec
CONSTANTS
  LL = 3
  MGens <- MGensAll
  OGens <- OGensAll
  Scalars <- ScalarsAll
  MaxDepth = 4
  MaxBond = 6
  OutFree = TRUE
  Mutant <- NoMutant
  Emit = TRUE

INVARIANT Denotes
INVARIANT QueryExact
INVARIANT BondBook
INVARIANT EmitJson
CHECK_DEADLOCK FALSE
