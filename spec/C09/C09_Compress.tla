---------------------------- MODULE C09_Compress ----------------------------
(***************************************************************************)
(* C09 - implementation-shaped model of the sweeps of the registered 1D    *)
(* compression methods (quimb/tensor/tn1d/compress.py at the pinned        *)
(* commit), reduced to their bookkeeping:                                  *)
(*    b[k]    size of the bond between physical sites k and k+1            *)
(*    vr[k]   Schmidt rank of the value the working network denotes        *)
(*    iso[s]  "L": site s is an isometry towards its right bond,           *)
(*            "R": towards its left bond, "N": neither (a centre)          *)
(*    lossy   some truncation may have cut below the rank of the value     *)
(* Every method is a little program over the *logical* order of the sites  *)
(* (site_tags, reversed when sweep_reverse; reversed once more inside the  *)
(* first phase of the oversampling methods).  One action = one split /     *)
(* canonization / projection of the code.  A truncating SVD of a single    *)
(* tensor is only known to cut the Schmidt spectrum if every other site is *)
(* an isometry pointing at it; environment based truncations (density      *)
(* matrix, sketches, variational fit) are gauge independent.               *)
(* Inputs: the sum of r product states on L sites of physical size d,      *)
(* optionally carried by redundant bonds (b = r + x).                      *)
(* TLC checks for all L, r, x, methods, caps in {r-1, r, r+1, None} and    *)
(* both directions:  BondCap, CentreWherePromised, ValueKept.              *)
(***************************************************************************)
EXTENDS C09_Defs, Json

CONSTANTS Ls,        \* chain lengths
          Rs,        \* numbers of product states summed
          Xs,        \* redundant bond dimensions added to the input
          Ds,        \* physical size per site (2: state, 4: operator seen as a state)
          Norms,     \* values of the option normalize
          MethodsC,  \* methods explored
          Mutant,    \* "" or the name of a deliberate deviation (self-tests of the model)
          Emit       \* print every finished case as JSON (S->C replay)

VARIABLES cfg, b, vr, iso, lossy, pc, env,
          normed     \* the physical site whose tensor normalize=True rescales (0: none)
vars == <<cfg, b, vr, iso, lossy, pc, env, normed>>

Min(x, y) == IF x <= y THEN x ELSE y
Max(x, y) == IF x >= y THEN x ELSE y
RECURSIVE Pow(_, _)
Pow(d, k) == IF k <= 0 THEN 1 ELSE IF k >= 6 THEN 4096 ELSE d * Pow(d, k - 1)
\* round(1.5 * c) of Python (banker's rounding only matters at .5: 1.5c is x.5 for odd c -> round half to even)
Round15(c) == IF c % 2 = 0 THEN (3 * c) \div 2
              ELSE LET lo == (3 * c - 1) \div 2 IN IF lo % 2 = 0 THEN lo ELSE lo + 1
Over(c) == Max(Round15(c), c + 10)
Cap(c, x) == IF c = 0 THEN x ELSE Min(c, x)

RankOf(r, dd, LL, k) == Min(r, Min(Pow(dd, k), Pow(dd, LL - k)))

L == cfg.L
d == cfg.d
\* Schmidt ranks of the input value
Rank0(k) == RankOf(cfg.r, cfg.d, cfg.L, k)

(* ---- logical order ---- *)
\* physical site of logical position k under the current orientation
S(k, flip) == IF flip THEN L + 1 - k ELSE k
\* physical bond between logical positions k and k+1
PB(k, flip) == IF flip THEN L - k ELSE k
Up(flip)   == IF flip THEN "R" ELSE "L"     \* isometry towards the higher logical neighbour
Down(flip) == IF flip THEN "L" ELSE "R"
\* size of the bond above / below logical position k (1 at the ends)
Above(bb, k, flip) == IF k >= L THEN 1 ELSE bb[PB(k, flip)]
Below(bb, k, flip) == IF k <= 1 THEN 1 ELSE bb[PB(k - 1, flip)]
\* every other site is an isometry pointing at logical position k
CanonAt(k, flip) == /\ \A j \in 1..(k - 1) : iso[S(j, flip)] = Up(flip)
                    /\ \A j \in (k + 1)..L : iso[S(j, flip)] = Down(flip)
\* only the lower part is known isometric (zip-up: the upper part was built from isometric factors)
LowerIso(k, flip) == \A j \in 1..(k - 1) : iso[S(j, flip)] = Up(flip)

Family(m) ==
  CASE m = "direct" -> "direct"
    [] m = "dm" -> "dm"
    [] m = "zipup" -> "zipup"
    [] m \in {"zipup-first", "zipup-oversample"} -> "zipup2"
    [] m = "sdc" -> "sdc"
    [] m = "sdc-oversample" -> "sdc2"
    [] m \in {"src", "srcmps"} -> "src"
    [] m \in {"src-first", "src-oversample", "srcmps-first", "srcmps-oversample"} -> "src2"
    [] m = "fit" -> "fit"
    [] m \in {"fit-zipup", "fit-projector"} -> "fitguess"
    [] m = "fit-oversample" -> "fit2"
Iters(m) == IF m = "fit" THEN 10 ELSE IF m \in {"fit-zipup", "fit-projector"} THEN 8 ELSE 1

Init ==
  \E LL \in Ls, r \in Rs, x \in Xs, dd \in Ds, m \in MethodsC, rev \in BOOLEAN, cq \in {-1, 0, 1, 99}, nz \in Norms :
    LET cap == IF cq = 99 THEN 0 ELSE r + cq IN
    /\ (cq = 99 \/ cap >= 1)
    \* (normalize is explored on the inputs without redundant bonds: it does not interact with them)
    /\ (nz => x = 0)
    /\ cfg = [L |-> LL, d |-> dd, r |-> r, x |-> x, method |-> m, cap |-> cap, rev |-> rev,
              sweeps |-> <<"R", "L">>, iters |-> Iters(m), normalize |-> nz]
    /\ normed = 0
    /\ b = [k \in 1..(LL - 1) |-> r + x]
    /\ vr = [k \in 1..(LL - 1) |-> RankOf(r, dd, LL, k)]
    /\ iso = [s \in 1..LL |-> "N"]
    /\ lossy = FALSE
    /\ env = [k \in 1..LL |-> 0]
    /\ pc = [ph |-> "start", k |-> 0, flip |-> rev, cap |-> cap, it |-> 0]

Goto(ph, k) == pc' = [pc EXCEPT !.ph = ph, !.k = k]

Centre == IF \E s \in 1..L : CanonicalAround(s, [t \in 1..L |-> iso[t] = "L"], [t \in 1..L |-> iso[t] = "R"])
          THEN CHOOSE s \in 1..L : CanonicalAround(s, [t \in 1..L |-> iso[t] = "L"], [t \in 1..L |-> iso[t] = "R"])
          ELSE 0

Case(rej) == [L |-> L, kind |-> IF d = 2 THEN "mps" ELSE "mpo", r |-> cfg.r, x |-> cfg.x, method |-> cfg.method,
              cap |-> cfg.cap, rev |-> cfg.rev, normalize |-> cfg.normalize, bonds |-> b, centre |-> Centre, lossy |-> lossy, rejected |-> rej]

(* ---- start: dispatch, rejection of a missing cap ---- *)
Start ==
  /\ pc.ph = "start"
  /\ LET f == Family(cfg.method) IN
     IF cfg.cap = 0 /\ cfg.method \in NeedsCap
       THEN /\ Goto("rejected", 0) /\ UNCHANGED <<cfg, b, vr, iso, lossy, env, normed>>
            /\ (Emit => PrintT(<<"QVJSON", ToJson(Case(TRUE))>>))
     ELSE
     /\ UNCHANGED <<cfg, b, vr, iso, lossy, env, normed>>
     /\ CASE f = "direct"   -> pc' = [pc EXCEPT !.ph = "canon", !.k = 1]
          [] f = "dm"       -> pc' = [pc EXCEPT !.ph = "dm", !.k = L]
          [] f = "zipup"    -> pc' = [pc EXCEPT !.ph = "pseudo", !.k = 0]
          \* oversampling: first phase with the larger cap in the *opposite* direction
          [] f = "zipup2"   -> pc' = [pc EXCEPT !.ph = "pseudo", !.k = 0,
                                                !.flip = IF Mutant = "oversample-sameflip" THEN pc.flip ELSE ~pc.flip,
                                                !.cap = IF cfg.cap = 0 THEN 0 ELSE 2 * cfg.cap]
          [] f = "sdc"      -> pc' = [pc EXCEPT !.ph = "sketch", !.k = 1]
          [] f = "sdc2"     -> pc' = [pc EXCEPT !.ph = "sketch", !.k = 1, !.flip = ~pc.flip, !.cap = Over(cfg.cap)]
          [] f = "src"      -> pc' = [pc EXCEPT !.ph = "sketch", !.k = 1]
          [] f = "src2"     -> pc' = [pc EXCEPT !.ph = "sketch", !.k = 1, !.flip = ~pc.flip, !.cap = Over(cfg.cap)]
          [] f = "fit"      -> pc' = [pc EXCEPT !.ph = "fitprep", !.k = 0]
          [] f = "fitguess" -> pc' = [pc EXCEPT !.ph = "pseudo", !.k = 0]   \* the guess: a zip-up with the same cap
          [] f = "fit2"     -> pc' = [pc EXCEPT !.ph = "fitprep", !.k = 0, !.cap = Over(cfg.cap)]

(* ---- canonize_between(tags[k], tags[k+1]): QR of position k ---- *)
CanonizeStep ==
  /\ pc.ph = "canon"
  /\ LET k == pc.k
         f == pc.flip
         nb == Min(Above(b, k, f), Below(b, k, f) * d) IN
     /\ b' = [b EXCEPT ![PB(k, f)] = nb]
     /\ iso' = [iso EXCEPT ![S(k, f)] = Up(f), ![S(k + 1, f)] = "N"]
     /\ IF k + 1 < L THEN Goto("canon", k + 1) ELSE Goto("compress", L)
  /\ UNCHANGED <<cfg, vr, lossy, env, normed>>

(* ---- compress_between(tags[k-1], tags[k], reduced='right', absorb='left'): SVD of position k ---- *)
CompressStep ==
  /\ pc.ph = "compress"
  /\ LET k == pc.k
         f == pc.flip
         pb == PB(k - 1, f)
         full == Min(b[pb], d * Above(b, k, f))
         cap == IF Mutant = "cap-skip-last" /\ k = 2 THEN 0 ELSE cfg.cap
         nb == Cap(cap, full)
         rank == IF CanonAt(k, f) THEN Min(vr[pb], full) ELSE full IN
     /\ b' = [b EXCEPT ![pb] = nb]
     /\ vr' = [vr EXCEPT ![pb] = Min(@, nb)]
     /\ lossy' = (lossy \/ nb < rank)
     /\ iso' = [iso EXCEPT ![S(k, f)] = Down(f), ![S(k - 1, f)] = "N"]
     /\ IF k > 2 THEN Goto("compress", k - 1) ELSE Goto("finish", 0)
  /\ UNCHANGED <<cfg, env, normed>>

(* ---- density matrix method: eigen-decomposition of the exact reduced density operator of position k.. ---- *)
DMStep ==
  /\ pc.ph = "dm"
  /\ LET k == pc.k
         f == pc.flip
         pb == PB(k - 1, f)
         nb == Cap(cfg.cap, d * Above(b, k, f)) IN      \* every eigenvector is kept when there is no cap
     /\ b' = [b EXCEPT ![pb] = nb]
     /\ vr' = [vr EXCEPT ![pb] = Min(@, nb)]
     /\ lossy' = (lossy \/ nb < vr[pb])
     /\ iso' = [iso EXCEPT ![S(k, f)] = Down(f), ![S(k - 1, f)] = "N"]
     /\ IF k > 2 THEN Goto("dm", k - 1) ELSE Goto("finish", 0)
  /\ UNCHANGED <<cfg, env, normed>>

(* ---- zip-up: canonize_around_(tags[-1]) then zip down ---- *)
RECURSIVE CanonUp(_, _, _)
CanonUp(bb, k, f) ==   \* bonds after QR sweeps of positions 1..L-1
  IF k >= L THEN bb
  ELSE CanonUp([bb EXCEPT ![PB(k, f)] = Min(bb[PB(k, f)], Below(bb, k, f) * d)], k + 1, f)
RECURSIVE CanonDown(_, _, _)
CanonDown(bb, k, f) == \* bonds after LQ sweeps of positions L..2
  IF k <= 1 THEN bb
  ELSE CanonDown([bb EXCEPT ![PB(k - 1, f)] = Min(bb[PB(k - 1, f)], Above(bb, k, f) * d)], k - 1, f)

PseudoCanonize ==
  /\ pc.ph = "pseudo"
  /\ LET f == pc.flip IN
     IF Mutant = "zipup-nocanon"
       THEN UNCHANGED <<b, iso>>
       ELSE /\ b' = CanonUp(b, 1, f)
            /\ iso' = [s \in 1..L |-> IF s = S(L, f) THEN "N" ELSE Up(f)]
  /\ Goto("zip", L)
  /\ UNCHANGED <<cfg, vr, lossy, env, normed>>

ZipStep ==
  /\ pc.ph = "zip"
  /\ LET k == pc.k
         f == pc.flip
         pb == PB(k - 1, f)
         full == Min(b[pb], d * Above(b, k, f))
         nb == Cap(pc.cap, full)
         rank == IF LowerIso(k, f) THEN Min(vr[pb], full) ELSE full IN
     /\ b' = [b EXCEPT ![pb] = nb]
     /\ vr' = [vr EXCEPT ![pb] = Min(@, nb)]
     /\ lossy' = (lossy \/ nb < rank)
     /\ iso' = [iso EXCEPT ![S(k, f)] = Down(f), ![S(k - 1, f)] = "N"]
     /\ IF k > 2 THEN Goto("zip", k - 1) ELSE Goto("second", 0)
  /\ UNCHANGED <<cfg, env, normed>>

(* ---- sdc / src: low rank left environments, then QR projectors from the top ---- *)
\* env[k], k = 2..L: number of rows of the environment used for position k
SketchStep ==
  /\ pc.ph = "sketch"
  /\ LET k == pc.k                \* builds env[k+1] from position k
         f == pc.flip
         det == Family(cfg.method) \in {"sdc", "sdc2"}
         prev == IF k = 1 THEN 1 ELSE env[k]
         full == Min(prev * d, Above(b, k, f))
         ne == IF det THEN Cap(pc.cap, full) ELSE pc.cap IN
     /\ env' = [env EXCEPT ![k + 1] = ne]
     \* the deterministic sketch is a truncated SVD of the left block as the input's gauge presents it; a random
     \* sketch with at least rank-many rows keeps the row space (general position)
     /\ lossy' = (lossy \/ (det /\ ne < full))
     /\ IF k + 1 < L THEN Goto("sketch", k + 1) ELSE Goto("project", L)
  /\ UNCHANGED <<cfg, b, vr, iso, normed>>

ProjectStep ==
  /\ pc.ph = "project"
  /\ LET k == pc.k
         f == pc.flip
         pb == PB(k - 1, f)
         nb == Min(env[k], d * Above(b, k, f)) IN
     /\ b' = [b EXCEPT ![pb] = nb]
     /\ vr' = [vr EXCEPT ![pb] = Min(@, nb)]
     /\ lossy' = (lossy \/ nb < vr[pb])
     /\ iso' = [iso EXCEPT ![S(k, f)] = Down(f), ![S(k - 1, f)] = "N"]
     /\ IF k > 2 THEN Goto("project", k - 1) ELSE Goto("second", 0)
  /\ UNCHANGED <<cfg, env, normed>>

(* ---- variational fit (1-site, cutoff 0) ---- *)
\* the guess is random (or the zip-up result): its bonds are expanded to the cap
FitPrepare ==
  /\ pc.ph = "fitprep"
  /\ b' = [k \in DOMAIN b |-> IF MaxOf(b) < pc.cap \/ Family(cfg.method) # "fitguess" THEN pc.cap ELSE b[k]]
  /\ iso' = [s \in 1..L |-> "N"]
  /\ pc' = [pc EXCEPT !.ph = "fitsweep", !.it = 1]
  /\ UNCHANGED <<cfg, vr, lossy, env, normed>>

\* sweep number pc.it: "R" runs up the logical order (centre ends at the top), "L" runs down;
\* the fit does not reverse site_tags, it flips the direction instead
FitSweep ==
  /\ pc.ph = "fitsweep"
  /\ LET f2 == Family(cfg.method) = "fit2"
         seq == IF f2 THEN <<"R">> ELSE cfg.sweeps
         n == IF f2 THEN 1 ELSE cfg.iters
         letter == LastSweep(seq, pc.it)
         \* fit2 runs on the (possibly reversed) site_tags without sweep_reverse
         down == IF f2 THEN FALSE ELSE ((letter = "L") # cfg.rev)
         f == IF f2 THEN pc.flip ELSE FALSE
         nb == CanonDown(CanonUp(b, 1, f), L, f)
         top == IF down THEN S(1, f) ELSE S(L, f) IN
     /\ b' = nb
     /\ iso' = [s \in 1..L |-> IF s = top THEN "N" ELSE IF down THEN Down(f) ELSE Up(f)]
     /\ IF pc.it < n
          THEN pc' = [pc EXCEPT !.it = pc.it + 1] /\ UNCHANGED <<vr, lossy>>
          ELSE \* the fitted tensors are recomputed from the target: only the final bonds matter
               /\ vr' = [k \in DOMAIN vr |-> Min(Rank0(k), nb[k])]
               /\ lossy' = (\E k \in DOMAIN vr : nb[k] < Rank0(k))
               /\ Goto("second", 0)
  /\ UNCHANGED <<cfg, env, normed>>

(* ---- second phase ---- *)
SecondPhase ==
  /\ pc.ph = "second"
  /\ LET fam == Family(cfg.method) IN
     CASE fam \in {"zipup2", "sdc2", "src2", "fit2"} ->
            \* _do_direct_sweep over the site_tags (orientation of the call), with the requested cap
            pc' = [pc EXCEPT !.ph = "compress", !.k = L, !.flip = cfg.rev, !.cap = cfg.cap]
       [] fam = "fitguess" /\ pc.it = 0 -> pc' = [pc EXCEPT !.ph = "fitprep"]
       [] OTHER -> Goto("finish", 0)
  /\ UNCHANGED <<cfg, b, vr, iso, lossy, env, normed>>

\* normalize=True "makes use of the fact that the output is in canonical form": one tensor is rescaled
\*  - direct and every _do_direct_sweep: new[site_tags[0]] of the (possibly reversed) site_tags;
\*  - the shared finaliser of dm / zipup / sdc / src / srcmps: ts[0] of the tensor sequence of the *sweep*, before
\*    the cosmetic ts.reverse() that only orders the tensor_map for sweep_reverse;
\*  - the variational fit: the end its last sweep ran to.
NormalizedSite ==
  LET fam == Family(cfg.method) IN
  IF fam \in {"fit", "fitguess"}
    THEN (IF (LastSweep(cfg.sweeps, cfg.iters) = "L") # cfg.rev THEN 1 ELSE L)
  ELSE IF fam \in {"dm", "zipup", "sdc", "src"} /\ Mutant = "normalize-after-reverse" /\ cfg.rev
    THEN S(L, cfg.rev)      \* ts[0] after the reversal is the far end of the sweep
  ELSE S(1, cfg.rev)

Finish ==
  /\ pc.ph = "finish"
  /\ Goto("done", 0)
  /\ normed' = IF cfg.normalize THEN NormalizedSite ELSE 0
  /\ (Emit => PrintT(<<"QVJSON", ToJson(Case(FALSE))>>))
  /\ UNCHANGED <<cfg, b, vr, iso, lossy, env>>

Next == Start \/ CanonizeStep \/ CompressStep \/ DMStep \/ PseudoCanonize \/ ZipStep \/ SketchStep \/ ProjectStep
        \/ FitPrepare \/ FitSweep \/ SecondPhase \/ Finish
Spec == Init /\ [][Next]_vars

(* ----------------------------- properties ------------------------------- *)
Done == pc.ph = "done"
BondCap == (Done /\ cfg.cap > 0) => \A k \in DOMAIN b : b[k] <= cfg.cap
CentreWherePromised ==
  Done => LET c == PromisedCentre(cfg, L) IN
          c > 0 => CanonicalAround(c, [t \in 1..L |-> iso[t] = "L"], [t \in 1..L |-> iso[t] = "R"])
ValueKept == (Done /\ NothingToTruncate(cfg.method, cfg.cap, TRUE, [k \in DOMAIN vr |-> Rank0(k)],
                                        [k \in DOMAIN vr |-> cfg.r + cfg.x])) => ~lossy
\* the tensor that normalize=True rescales is the one non-isometric tensor: then the norm of the result is the
\* norm of that tensor, 1, and the result is input / ||input|| when nothing was truncated
NormalizedAtCentre ==
  (Done /\ cfg.normalize) => /\ normed \in 1..L
                              /\ \A s \in 1..L : (iso[s] = "N") => s = normed
\* a rejection only where the documentation demands a cap
RejectOnlyDocumented == pc.ph = "rejected" => (cfg.cap = 0 /\ cfg.method \in NeedsCap)
=============================================================================
