SPECIFICATION Spec
CONSTANTS
  Ls = {2, 3, 4, 5}
  Rs = {1, 2, 3, 4}
  Xs = {0, 1, 2}
  Ds = {2, 4}
  Norms = {FALSE, TRUE}
  MethodsC <- AllMethods
  Mutant <- NoMutant
  Emit = FALSE
INVARIANT BondCap
INVARIANT CentreWherePromised
INVARIANT ValueKept
INVARIANT NormalizedAtCentre
INVARIANT RejectOnlyDocumented
CHECK_DEADLOCK FALSE
