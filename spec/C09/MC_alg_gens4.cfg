SPECIFICATION Spec
CONSTANTS
  LL = 4
  MGens <- MGensAll
  OGens <- OGensAll
  Scalars <- ScalarsQuick
  MaxDepth = 0
  MaxBond = 4
  OutFree = TRUE
  Mutant <- NoMutant
  Emit = FALSE
VIEW View
INVARIANT Denotes
INVARIANT QueryExact
INVARIANT BondBook

CHECK_DEADLOCK FALSE
