--------------------------- MODULE C09_MPSAlgebra ---------------------------
(***************************************************************************)
(* C09 - implementation-shaped model of MPS / MPO arithmetic at the level  *)
(* of the site tensors (exact Gaussian-integer data), transcribed from     *)
(*   tensor_builder.py   : the tensors of the named generators             *)
(*   tnag/core.py        : tensor_network_ag_sum (direct sum of the bonds, *)
(*                         boundary tensors concatenated, one tensor       *)
(*                         negated for a difference), apply_op_vec /       *)
(*                         apply_op_op (site-wise contraction, bonds       *)
(*                         fused: products), tensor_network_align (which   *)
(*                         physical index of the operator meets the bra)   *)
(* A store of four named objects (states x, y; operators A, B) carries for *)
(* each object its site tensors, the dense value obtained with the *dense* *)
(* algebra of C09_Defs, and the bond sizes predicted by the bookkeeping    *)
(* (sum: D_A + D_B, application: D_A * D_B).  TLC checks for every history *)
(* of operations that the tensors denote the dense value (LTensor!Denote), *)
(* that scalar queries evaluated on the stacked network equal the dense    *)
(* scalars, and that the predicted bonds are the actual ones.              *)
(* Site tensors: [dl, dr, data], data flat in C order over (l, r, p) for a *)
(* state and (l, r, up, down) for an operator; physical size 2; dl = 1 on  *)
(* the first and dr = 1 on the last site (no bond there).                  *)
(***************************************************************************)
EXTENDS C09_Defs, Json

CONSTANTS LL,        \* number of sites
          MGens,     \* generators a state slot may start from
          OGens,     \* generators an operator slot may start from
          Scalars,   \* Gaussian-integer scalars for Scale
          MaxDepth, MaxBond,
          OutFree,   \* TRUE: a result may be stored in any slot of its kind; FALSE: it replaces the operand
          Mutant,    \* "" or a deliberate deviation (self-tests)
          Emit       \* print complete behaviours as JSON (S->C replay)

VARIABLES store, last, depth, hist
vars == <<store, last, depth, hist>>
View == <<store, last, depth>>

MSlots == {"x", "y"}
OSlots == {"A", "B"}
Sites == 1..LL
P == 2

(* ----------------------------- site tensors ----------------------------- *)
\* entry of a state tensor / an operator tensor (0-based indices)
VE(t, l, r, p)    == t.data[(l * t.dr + r) * P + p + 1]
OE(t, l, r, u, w) == t.data[((l * t.dr + r) * P + u) * P + w + 1]
\* (TLCEval forces the otherwise lazily re-evaluated function constructors)
VT(dl, dr, F(_, _, _)) ==
  [dl |-> dl, dr |-> dr,
   data |-> TLCEval([n \in 1..(dl * dr * P) |-> F(((n - 1) \div P) \div dr, ((n - 1) \div P) % dr, (n - 1) % P)])]
OT(dl, dr, F(_, _, _, _)) ==
  [dl |-> dl, dr |-> dr,
   data |-> TLCEval([n \in 1..(dl * dr * P * P) |->
               F(((n - 1) \div (P * P)) \div dr, ((n - 1) \div (P * P)) % dr, ((n - 1) \div P) % P, (n - 1) % P)])]
G(bool) == IF bool THEN GOne ELSE GZero
BondL(i, k) == IF i = 1 THEN 1 ELSE k      \* size of a left bond of size k (none on the first site)
BondR(i, k) == IF i = LL THEN 1 ELSE k

(* ----------------------------- generators ------------------------------- *)
\* single-site data of the two product states / operators
PV == [Pv |-> << <<<<1, 0>>, <<2, 1>>>>, <<<<0, 1>>, <<1, -1>>>>, <<<<2, 0>>, <<-1, 1>>>>, <<<<1, 1>>, <<0, 2>>>> >>,
       Qv |-> << <<<<1, 1>>, <<0, -1>>>>, <<<<2, 0>>, <<1, 0>>>>, <<<<-1, 0>>, <<1, 2>>>>, <<<<0, 1>>, <<1, 0>>>> >>]
PM == [Gm |-> << <<<<1, 0>>, <<0, 1>>, <<2, 0>>, <<1, -1>>>>, <<<<0, 0>>, <<1, 0>>, <<0, -1>>, <<2, 0>>>>,
                 <<<<1, 1>>, <<-1, 0>>, <<0, 0>>, <<1, 0>>>>, <<<<2, 0>>, <<0, 1>>, <<1, 0>>, <<0, 0>>>> >>,
       Hm |-> << <<<<0, 1>>, <<1, 0>>, <<1, 0>>, <<0, 0>>>>, <<<<1, 0>>, <<2, 1>>, <<0, 0>>, <<-1, 0>>>>,
                 <<<<1, 0>>, <<0, 0>>, <<1, 1>>, <<1, 0>>>>, <<<<0, 0>>, <<1, 0>>, <<1, 0>>, <<0, -1>>>> >>]
Bits(g) == IF g = "c01" THEN [i \in Sites |-> (i + 1) % 2]           \* 0101..
           ELSE IF g = "c10" THEN [i \in Sites |-> i % 2]            \* 1010..
           ELSE [i \in Sites |-> IF i = 1 THEN 1 ELSE 0]             \* c100: 100..

GenTensors(g) ==
  CASE g \in {"c01", "c10", "c100", "neel0", "neel1"} ->
         LET bits == IF g = "neel0" THEN Bits("c01") ELSE IF g = "neel1" THEN Bits("c10") ELSE Bits(g) IN
         [i \in Sites |-> VT(1, 1, LAMBDA l, r, p : G(p = bits[i]))]
    [] g \in {"Pv", "Qv"} -> [i \in Sites |-> VT(1, 1, LAMBDA l, r, p : PV[g][i][p + 1])]
    \* MPS_COPY: delta tensors (the normalisation 1/sqrt2 is left out: integer multiple)
    [] g = "ghz" -> [i \in Sites |-> VT(BondL(i, 2), BondR(i, 2),
                                        LAMBDA l, r, p : G((i = 1 \/ l = p) /\ (i = LL \/ r = p)))]
    \* MPS_w_state: first [[1,0],[0,1]] (r,p); middle [[[1,0],[0,1]],[[0,0],[1,0]]] (l,r,p); last [[0,1],[1,0]] (l,p)
    [] g = "w" -> [i \in Sites |->
                    IF i = 1 THEN VT(1, 2, LAMBDA l, r, p : G(r = p))
                    ELSE IF i = LL THEN VT(2, 1, LAMBDA l, r, p : G(l # p))
                    ELSE VT(2, 2, LAMBDA l, r, p : G((l = 0 /\ r = p) \/ (l = 1 /\ r = 1 /\ p = 0)))]
    [] g = "zero" -> [i \in Sites |-> VT(1, 1, LAMBDA l, r, p : GZero)]
    [] g = "id"    -> [i \in Sites |-> OT(1, 1, LAMBDA l, r, u, w : G(u = w))]
    [] g = "zeros" -> [i \in Sites |-> OT(1, 1, LAMBDA l, r, u, w : GZero)]
    [] g \in {"Gm", "Hm"} -> [i \in Sites |-> OT(1, 1, LAMBDA l, r, u, w : PM[g][i][u * P + w + 1])]

\* the documented dense value of each generator (C09_Defs)
GenValue(g) ==
  LET dims == Qubits(LL) IN
  CASE g \in {"c01", "c10", "c100"} -> BasisVec(dims, Bits(g))
    [] g = "neel0" -> NeelVec(LL, FALSE)
    [] g = "neel1" -> NeelVec(LL, TRUE)
    [] g \in {"Pv", "Qv"} -> ProductVec(dims, [i \in Sites |-> PV[g][i]])
    [] g = "ghz" -> GHZVec(LL)
    [] g = "w" -> WVec(LL)
    [] g = "zero" -> VZero(Size(dims))
    [] g = "id" -> IdMat(Size(dims)).data
    [] g = "zeros" -> VZero(Size(dims) * Size(dims))
    [] g \in {"Gm", "Hm"} -> ProductOp(dims, [i \in Sites |-> PM[g][i]]).data
GenBonds(g) == [k \in 1..(LL - 1) |-> IF g \in {"ghz", "w"} THEN 2 ELSE 1]
\* how the replay driver builds the same object
GenCall(g) ==
  CASE g \in {"c01", "c10", "c100"} -> [gen |-> "computational", digits |-> Bits(g)]
    [] g = "neel0" -> [gen |-> "neel", downfirst |-> FALSE]
    [] g = "neel1" -> [gen |-> "neel", downfirst |-> TRUE]
    [] g \in {"Pv", "Qv"} -> [gen |-> "product", vs |-> [i \in Sites |-> PV[g][i]]]
    [] g = "id" -> [gen |-> "identity"]
    [] g \in {"Gm", "Hm"} -> [gen |-> "product_op", ms |-> [i \in Sites |-> PM[g][i]]]
    [] OTHER -> [gen |-> g]

Obj(kind, ts, val, bonds) == [kind |-> kind, ts |-> ts, val |-> val, bonds |-> bonds]
GenObj(g) == Obj(IF g \in OGens THEN "mpo" ELSE "mps", GenTensors(g), GenValue(g), GenBonds(g))

(* ----------------------------- networks --------------------------------- *)
BLab == <<"b0", "b1", "b2", "b3", "b4", "b5">>
CLab == <<"c0", "c1", "c2", "c3", "c4", "c5">>
ELab == <<"e0", "e1", "e2", "e3", "e4", "e5">>
KLab == <<"k1", "k2", "k3", "k4", "k5">>
QLab == <<"q1", "q2", "q3", "q4", "q5">>
\* labelled network of an object: bond labels from `bl`, physical labels from `kl` (and `ql` for the lower side)
VNet(ts, bl, kl) == [i \in Sites |-> [inds |-> <<bl[i], bl[i + 1], kl[i]>>, shape |-> <<ts[i].dl, ts[i].dr, P>>, data |-> ts[i].data]]
ONet(ts, bl, kl, ql) == [i \in Sites |-> [inds |-> <<bl[i], bl[i + 1], kl[i], ql[i]>>, shape |-> <<ts[i].dl, ts[i].dr, P, P>>,
                                           data |-> ts[i].data]]
ConjTs(ts) == [i \in Sites |-> [ts[i] EXCEPT !.data = TLCEval([n \in DOMAIN ts[i].data |-> GConj(ts[i].data[n])])]]
KOut == [i \in Sites |-> KLab[i]]
KQOut == KOut \o [i \in Sites |-> QLab[i]]
DenoteObj(o) == IF o.kind = "mps" THEN Denote(VNet(o.ts, BLab, KLab), KOut)
                ELSE Denote(ONet(o.ts, BLab, KLab, QLab), KQOut)
\* the same value by contracting the chain site by site from the left (what DenoteObj means for a chain; the
\* two are compared by the invariant ChainIsDenote in a small configuration)
RECURSIVE VChain(_, _, _)
VChain(ts, i, e) ==      \* e: flat over (physical prefix, bond)
  IF i > LL THEN e
  ELSE LET t == ts[i]
           npf == Len(e) \div t.dl
           new == TLCEval([n \in 1..(npf * P * t.dr) |->
                    LET pf == (n - 1) \div (P * t.dr)
                        p == ((n - 1) \div t.dr) % P
                        r == (n - 1) % t.dr
                    IN  SumG(LAMBDA l : GMul(e[pf * t.dl + l], VE(t, l - 1, r, p)), 1, t.dl)])
       IN  VChain(ts, i + 1, new)
RECURSIVE OChain(_, _, _)
OChain(ts, i, e) ==      \* physical prefix over the pairs (up, down) of the sites so far
  IF i > LL THEN e
  ELSE LET t == ts[i]
           npf == Len(e) \div t.dl
           new == TLCEval([n \in 1..(npf * P * P * t.dr) |->
                    LET pf == (n - 1) \div (P * P * t.dr)
                        u == ((n - 1) \div (P * t.dr)) % P
                        w == ((n - 1) \div t.dr) % P
                        r == (n - 1) % t.dr
                    IN  SumG(LAMBDA l : GMul(e[pf * t.dl + l], OE(t, l - 1, r, u, w)), 1, t.dl)])
       IN  OChain(ts, i + 1, new)
\* (u1,w1,u2,w2,...) -> row major (u1..uL ; w1..wL)
Interleaved(row, col) == SumI(LAMBDA i : (Digit(row, Qubits(LL), i) * P + Digit(col, Qubits(LL), i)) * ProdI([k \in 1..LL |-> P * P], i + 1, LL), 1, LL)
DenseOf(o) ==
  IF o.kind = "mps" THEN VChain(o.ts, 1, <<GOne>>)
  ELSE LET il == OChain(o.ts, 1, <<GOne>>)
           D == Size(Qubits(LL)) IN
       [n \in 1..(D * D) |-> il[Interleaved((n - 1) \div D, (n - 1) % D) + 1]]
ActualBonds(o) == [k \in 1..(LL - 1) |-> o.ts[k].dr]

(* ----------------------------- tensor-level operations ------------------ *)
\* tensor_direct_product: blocks along every bond axis, physical axes summed
DirectSumV(a, c, i) ==
  LET dl == IF i = 1 THEN 1 ELSE a.dl + c.dl
      dr == IF i = LL THEN 1 ELSE a.dr + c.dr IN
  VT(dl, dr, LAMBDA l, r, p :
       GAdd(IF (i = 1 \/ l < a.dl) /\ (i = LL \/ r < a.dr) THEN VE(a, l, r, p) ELSE GZero,
            IF (i = 1 \/ l >= a.dl) /\ (i = LL \/ r >= a.dr)
              THEN VE(c, IF i = 1 THEN 0 ELSE l - a.dl, IF i = LL THEN 0 ELSE r - a.dr, p) ELSE GZero))
DirectSumO(a, c, i) ==
  LET dl == IF i = 1 THEN 1 ELSE a.dl + c.dl
      dr == IF i = LL THEN 1 ELSE a.dr + c.dr IN
  OT(dl, dr, LAMBDA l, r, u, w :
       GAdd(IF (i = 1 \/ l < a.dl) /\ (i = LL \/ r < a.dr) THEN OE(a, l, r, u, w) ELSE GZero,
            IF (i = 1 \/ l >= a.dl) /\ (i = LL \/ r >= a.dr)
              THEN OE(c, IF i = 1 THEN 0 ELSE l - a.dl, IF i = LL THEN 0 ELSE r - a.dr, u, w) ELSE GZero))
ScaleT(t, c) == [t EXCEPT !.data = TLCEval([n \in DOMAIN t.data |-> GMul(c, t.data[n])])]
\* a difference negates one tensor of the second operand (the first site's)
NegTs(ts) == [i \in Sites |-> IF i = 1 \/ Mutant = "sub-negate-all" THEN ScaleT(ts[i], <<-1, 0>>) ELSE ts[i]]
SumTs(kind, ta, tb) == [i \in Sites |-> IF kind = "mps" THEN DirectSumV(ta[i], tb[i], i) ELSE DirectSumO(ta[i], tb[i], i)]
\* A.apply(x): lower index of A meets the site index of x; bonds fused (A's bond is the slow one)
ApplyVT(a, x) ==
  VT(a.dl * x.dl, a.dr * x.dr, LAMBDA l, r, p :
       SumG(LAMBDA m : GMul(OE(a, l \div x.dl, r \div x.dr, p, m - 1), VE(x, l % x.dl, r % x.dr, m - 1)), 1, P))
\* A.apply(B): lower index of A meets the upper index of B
ApplyOT(a, c) ==
  OT(a.dl * c.dl, a.dr * c.dr, LAMBDA l, r, u, w :
       SumG(LAMBDA m : GMul(OE(a, l \div c.dl, r \div c.dr, u, m - 1), OE(c, l % c.dl, r % c.dr, m - 1, w)), 1, P))

(* ----------------------------- tensor-level queries --------------------- *)
\* scalars are obtained as the code does: the stack is contracted site by site, carrying an environment over
\* the bonds of the layers
\* x.overlap(y) = <y|x>: x stacked on the conjugate of y;  env over (bond of x, bond of y)
RECURSIVE EnvOverlap(_, _, _, _)
EnvOverlap(xs, ys, i, e) ==
  IF i > LL THEN e[1]
  ELSE LET a == xs[i]
           c == ys[i]
           new == TLCEval([n \in 1..(a.dr * c.dr) |->
                    LET ra == (n - 1) \div c.dr
                        rc == (n - 1) % c.dr
                    IN  SumG(LAMBDA m :
                          LET la == ((m - 1) \div P) \div c.dl
                              lc == ((m - 1) \div P) % c.dl
                              p == (m - 1) % P
                          IN  GMul(e[la * c.dl + lc + 1], GMul(VE(a, la, ra, p), GConj(VE(c, lc, rc, p)))),
                          1, a.dl * c.dl * P)])
       IN  EnvOverlap(xs, ys, i + 1, new)
TOverlap(x, y) == EnvOverlap(x.ts, y.ts, 1, <<GOne>>)
\* expec_TN_1D(x.H, A, y): tensor_network_align gives the first vector and the operator's *upper* side the first
\* physical label, the operator's lower side and the last vector the second one;  env over (x, A, y) bonds
RECURSIVE EnvExpec(_, _, _, _, _)
EnvExpec(xs, As, ys, i, e) ==
  IF i > LL THEN e[1]
  ELSE LET a == xs[i]
           o == As[i]
           c == ys[i]
           new == TLCEval([n \in 1..(a.dr * o.dr * c.dr) |->
                    LET ra == (n - 1) \div (o.dr * c.dr)
                        ro == ((n - 1) \div c.dr) % o.dr
                        rc == (n - 1) % c.dr
                    IN  SumG(LAMBDA m :
                          LET lm == (m - 1) \div (P * P)
                              la == lm \div (o.dl * c.dl)
                              lo == (lm \div c.dl) % o.dl
                              lc == lm % c.dl
                              u == ((m - 1) \div P) % P      \* physical index of the bra
                              w == (m - 1) % P                \* physical index of the ket
                              oe == IF Mutant = "expec-swapped" THEN OE(o, lo, ro, w, u) ELSE OE(o, lo, ro, u, w)
                          IN  GMul(e[(la * o.dl + lo) * c.dl + lc + 1],
                                   GMul(GConj(VE(a, la, ra, u)), GMul(oe, VE(c, lc, rc, w)))),
                          1, a.dl * o.dl * c.dl * P * P)])
       IN  EnvExpec(xs, As, ys, i + 1, new)
TExpec(x, A, y) == EnvExpec(x.ts, A.ts, y.ts, 1, <<GOne>>)
\* A.trace(): upper and lower index of every site identified
RECURSIVE EnvTrace(_, _, _)
EnvTrace(As, i, e) ==
  IF i > LL THEN e[1]
  ELSE LET o == As[i]
           new == TLCEval([r \in 1..o.dr |->
                    SumG(LAMBDA m : GMul(e[((m - 1) \div P) + 1], OE(o, (m - 1) \div P, r - 1, (m - 1) % P, (m - 1) % P)),
                         1, o.dl * P)])
       IN  EnvTrace(As, i + 1, new)
TTrace(A) == EnvTrace(A.ts, 1, <<GOne>>)

(* ----------------------------- the state machine ------------------------ *)
NoQ == [q |-> "none"]
Init ==
  /\ \E gx \in MGens, gy \in MGens, gA \in OGens, gB \in OGens :
       /\ store = [n \in MSlots \cup OSlots |->
                     GenObj(CASE n = "x" -> gx [] n = "y" -> gy [] n = "A" -> gA [] n = "B" -> gB)]
       /\ hist = << [op |-> "gen", out |-> "x", L |-> LL, call |-> GenCall(gx), bonds |-> GenBonds(gx)],
                    [op |-> "gen", out |-> "y", L |-> LL, call |-> GenCall(gy), bonds |-> GenBonds(gy)],
                    [op |-> "gen", out |-> "A", L |-> LL, call |-> GenCall(gA), bonds |-> GenBonds(gA)],
                    [op |-> "gen", out |-> "B", L |-> LL, call |-> GenCall(gB), bonds |-> GenBonds(gB)] >>
  /\ last = NoQ /\ depth = 0

Step == depth < MaxDepth /\ depth' = depth + 1
SameKind(a, c) == (a \in MSlots) = (c \in MSlots)
Fits(bonds) == \A k \in DOMAIN bonds : bonds[k] <= MaxBond
Update(out, o, h) == /\ store' = [store EXCEPT ![out] = o]
                     /\ hist' = Append(hist, h @@ [out |-> out, bonds |-> o.bonds])
                     /\ last' = NoQ
Ask(h, tn, dense) == /\ last' = [q |-> h.op, tn |-> tn, dense |-> dense]
                     /\ hist' = Append(hist, h @@ [res |-> dense])
                     /\ UNCHANGED store

SeqAdd(s, t) == [k \in DOMAIN s |-> s[k] + t[k]]
SeqMul(s, t) == [k \in DOMAIN s |-> s[k] * t[k]]

\* out = a + b
Add(a, c, out) ==
  /\ Step /\ SameKind(a, c) /\ SameKind(a, out) /\ (OutFree \/ out = a)
  /\ Fits(SeqAdd(store[a].bonds, store[c].bonds))
  /\ Update(out, Obj(store[a].kind, SumTs(store[a].kind, store[a].ts, store[c].ts),
                     VAdd(store[a].val, store[c].val), SeqAdd(store[a].bonds, store[c].bonds)),
            [op |-> "add", args |-> <<a, c>>])
Sub(a, c, out) ==
  /\ Step /\ SameKind(a, c) /\ SameKind(a, out) /\ (OutFree \/ out = a)
  /\ Fits(SeqAdd(store[a].bonds, store[c].bonds))
  /\ Update(out, Obj(store[a].kind, SumTs(store[a].kind, store[a].ts, NegTs(store[c].ts)),
                     VSub(store[a].val, store[c].val), SeqAdd(store[a].bonds, store[c].bonds)),
            [op |-> "sub", args |-> <<a, c>>])
Scale(a, s) ==
  /\ Step
  /\ Update(a, Obj(store[a].kind, [i \in Sites |-> IF i = LL THEN ScaleT(store[a].ts[i], s) ELSE store[a].ts[i]],
                   VScale(s, store[a].val), store[a].bonds),
            [op |-> "scale", args |-> <<a>>, c |-> s])
Neg(a) ==
  /\ Step
  /\ Update(a, Obj(store[a].kind, [i \in Sites |-> IF i = LL THEN ScaleT(store[a].ts[i], <<-1, 0>>) ELSE store[a].ts[i]],
                   VNeg(store[a].val), store[a].bonds),
            [op |-> "neg", args |-> <<a>>])
Conj(a) ==
  /\ Step
  /\ Update(a, Obj(store[a].kind, ConjTs(store[a].ts), VConj(store[a].val), store[a].bonds),
            [op |-> "conj", args |-> <<a>>])
ApplyVec(A, x, out) ==
  /\ Step /\ A \in OSlots /\ x \in MSlots /\ out \in MSlots /\ (OutFree \/ out = x)
  /\ Fits(SeqMul(store[A].bonds, store[x].bonds))
  /\ Update(out, Obj("mps", [i \in Sites |-> ApplyVT(store[A].ts[i], store[x].ts[i])],
                     MatVec(Mat(Size(Qubits(LL)), store[A].val), store[x].val), SeqMul(store[A].bonds, store[x].bonds)),
            [op |-> "apply", args |-> <<A, x>>])
ApplyOp(A, C, out) ==
  /\ Step /\ A \in OSlots /\ C \in OSlots /\ out \in OSlots /\ (OutFree \/ out = C)
  /\ Fits(SeqMul(store[A].bonds, store[C].bonds))
  /\ Update(out, Obj("mpo", [i \in Sites |-> ApplyOT(store[A].ts[i], store[C].ts[i])],
                     MatMul(Mat(Size(Qubits(LL)), store[A].val), Mat(Size(Qubits(LL)), store[C].val)).data,
                     SeqMul(store[A].bonds, store[C].bonds)),
            [op |-> "apply", args |-> <<A, C>>])
QOverlap(x, y) ==
  /\ Step /\ x \in MSlots /\ y \in MSlots
  /\ Ask([op |-> "overlap", args |-> <<x, y>>], TOverlap(store[x], store[y]), Inner(store[y].val, store[x].val))
QNorm2(x) ==
  /\ Step /\ x \in MSlots
  /\ Ask([op |-> "norm2", args |-> <<x>>], TOverlap(store[x], store[x]), <<Norm2(store[x].val), 0>>)
QExpec(x, A, y) ==
  /\ Step /\ x \in MSlots /\ y \in MSlots /\ A \in OSlots
  /\ Ask([op |-> "expec", args |-> <<x, A, y>>], TExpec(store[x], store[A], store[y]),
         Expec(store[x].val, Mat(Size(Qubits(LL)), store[A].val), store[y].val))
QTrace(A) ==
  /\ Step /\ A \in OSlots
  /\ Ask([op |-> "trace", args |-> <<A>>], TTrace(store[A]), MTrace(Mat(Size(Qubits(LL)), store[A].val)))

All == MSlots \cup OSlots
Next ==
  \/ \E a, c, out \in All : Add(a, c, out) \/ Sub(a, c, out)
  \/ \E a \in All, s \in Scalars : Scale(a, s)
  \/ \E a \in All : Neg(a) \/ Conj(a)
  \/ \E A, x, out \in All : ApplyVec(A, x, out) \/ ApplyOp(A, x, out)
  \/ \E x, y \in MSlots : QOverlap(x, y)
  \/ \E x \in MSlots : QNorm2(x)
  \/ \E x, y \in MSlots, A \in OSlots : QExpec(x, A, y)
  \/ \E A \in OSlots : QTrace(A)
Spec == Init /\ [][Next]_vars

(* ----------------------------- properties ------------------------------- *)
\* the site tensors denote the value of the dense algebra
Denotes == \A n \in DOMAIN store : DenseOf(store[n]) = store[n].val
\* the chain contraction is LTensor!Denote of the labelled network (checked in a small configuration)
ChainIsDenote == \A n \in DOMAIN store : DenoteObj(store[n]) = DenseOf(store[n])
\* a scalar evaluated on the stacked network is the dense scalar
QueryExact == last.q # "none" => last.tn = last.dense
\* bookkeeping of the bonds: sums add them, applications multiply them
BondBook == \A n \in DOMAIN store : ActualBonds(store[n]) = store[n].bonds
\* complete behaviours for the replay driver
EmitJson == (Emit /\ depth = MaxDepth) => PrintT(<<"QVJSON", ToJson(hist)>>)
=============================================================================
