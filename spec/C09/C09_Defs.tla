------------------------------ MODULE C09_Defs ------------------------------
(***************************************************************************)
(* C09 - reference definitions (property level).                           *)
(*                                                                         *)
(* The statement of C09 is "the MPS / MPO routines equal dense linear      *)
(* algebra".  The dense side is defined here, exactly, over Gaussian       *)
(* integers (LTensor): a state on sites with physical sizes dims is the    *)
(* flat (C order, site 1 slowest) sequence of its amplitudes; an operator  *)
(* is the matrix [rows, cols, data] whose rows are the upper (ket-like)    *)
(* indices and whose columns are the lower (bra-like) indices - the        *)
(* documented convention of TensorNetworkGenOperator.to_dense / trace.     *)
(* The second half states what the 1D compression routines promise in      *)
(* their docstrings: who must be given a bond cap, and where the canonical *)
(* centre is left.  Nothing here is transcribed from the code.             *)
(***************************************************************************)
EXTENDS LTensor

(* ----------------------------- vectors ---------------------------------- *)
VAdd(u, v)   == [k \in DOMAIN u |-> GAdd(u[k], v[k])]
VSub(u, v)   == [k \in DOMAIN u |-> GSub(u[k], v[k])]
VScale(c, u) == [k \in DOMAIN u |-> GMul(c, u[k])]
VNeg(u)      == [k \in DOMAIN u |-> GNeg(u[k])]
VConj(u)     == [k \in DOMAIN u |-> GConj(u[k])]
VZero(n)     == [k \in 1..n |-> GZero]
IsGSeq(u, n) == /\ DOMAIN u = 1..n
                /\ \A k \in 1..n : DOMAIN u[k] = 1..2

(* ----------------------------- operators -------------------------------- *)
Mat(d, data) == [rows |-> d, cols |-> d, data |-> data]
IdMat(d)     == Mat(d, [n \in 1..(d * d) |-> IF (n - 1) \div d = (n - 1) % d THEN GOne ELSE GZero])
MTrace(M)    == SumG(LAMBDA i : MatEntry(M, i, i), 1, M.rows)
\* <x| A |y>
Expec(x, A, y) == Inner(x, MatVec(A, y))

\* positions of 1..n that are not in the (duplicate free) sequence s, increasing
RECURSIVE RestOf(_, _, _)
RestOf(n, s, k) == IF k > n THEN <<>>
                   ELSE IF k \in SeqRange(s) THEN RestOf(n, s, k + 1) ELSE <<k>> \o RestOf(n, s, k + 1)
SubDims(dims, s) == [k \in DOMAIN s |-> dims[s[k]]]

\* flat offset in `dims` of the multi-index whose digits on `keep` are those of i (radix SubDims(dims, keep))
\* and whose digits on `rest` are those of m
Merge(dims, keep, i, rest, m) ==
  LET kd == SubDims(dims, keep)
      rd == SubDims(dims, rest)
      dg == [s \in DOMAIN dims |->
               IF PosIn(keep, s) > 0 THEN Digit(i, kd, PosIn(keep, s)) ELSE Digit(m, rd, PosIn(rest, s))]
  IN  Flat(dg, dims)

\* reduced density operator  Tr_rest |v><v|  of the (unnormalised) state v on the sites `keep`
\* (1-based, increasing):  rho[i, j] = sum_m v[i, m] conj(v[j, m])
PTrace(v, dims, keep) ==
  LET rest == RestOf(Len(dims), keep, 1)
      dk == Size(SubDims(dims, keep))
      dr == Size(SubDims(dims, rest))
  IN  Mat(dk, [n \in 1..(dk * dk) |->
                 LET i == (n - 1) \div dk
                     j == (n - 1) % dk
                 IN  SumG(LAMBDA m : GMul(v[Merge(dims, keep, i, rest, m) + 1],
                                          GConj(v[Merge(dims, keep, j, rest, m) + 1])), 0, dr - 1)])

\* transpose of the operator on the subsystems in the set `sysa` (1-based) only
PartialTranspose(M, dims, sysa) ==
  LET D == Size(dims)
      sw(row, col) ==  \* row index after exchanging the digits of row and col on sysa
        Flat([s \in DOMAIN dims |-> IF s \in sysa THEN Digit(col, dims, s) ELSE Digit(row, dims, s)], dims)
  IN  Mat(D, [n \in 1..(D * D) |->
                LET r == (n - 1) \div D
                    c == (n - 1) % D
                IN  MatEntry(M, sw(r, c) + 1, sw(c, r) + 1)])

\* the operator G given on the sites `sites` (any order: factor k of G acts on sites[k]) as an operator on
\* the whole chain is LTensor!EmbedMat(G, dims, sites)

(* ----------------------------- named generators ------------------------- *)
BasisVec(dims, digits) == [n \in 1..Size(dims) |-> IF n - 1 = Flat(digits, dims) THEN GOne ELSE GZero]
\* MPS_computational_state of a string over  0 1 + -  (coded 0 1 2 3), each + / - taken times sqrt(2)
CompChar(c) == CASE c = 0 -> <<GOne, GZero>> [] c = 1 -> <<GZero, GOne>> [] c = 2 -> <<GOne, GOne>> [] OTHER -> <<GOne, GNeg(GOne)>>
\* tensor product of the single-site vectors vs[1], ..., vs[L]
ProductVec(dims, vs) ==
  [n \in 1..Size(dims) |-> ProdG(LAMBDA k : vs[k][Digit(n - 1, dims, k) + 1], 1, Len(dims))]
\* tensor product of the single-site operators ms[1], ..., ms[L]  (ms[k] flat, C order, dims[k] x dims[k])
ProductOp(dims, ms) ==
  LET D == Size(dims) IN
  Mat(D, [n \in 1..(D * D) |->
            LET r == (n - 1) \div D
                c == (n - 1) % D
            IN  ProdG(LAMBDA k : ms[k][Digit(r, dims, k) * dims[k] + Digit(c, dims, k) + 1], 1, Len(dims))])
Qubits(L) == [k \in 1..L |-> 2]
PopCount(n, L) == SumI(LAMBDA k : Digit(n, Qubits(L), k), 1, L)
\* sqrt(2) * GHZ_L   and   sqrt(L) * W_L   (integer amplitudes)
GHZVec(L) == [n \in 1..Size(Qubits(L)) |-> IF n = 1 \/ n = Size(Qubits(L)) THEN GOne ELSE GZero]
WVec(L)   == [n \in 1..Size(Qubits(L)) |-> IF PopCount(n - 1, L) = 1 THEN GOne ELSE GZero]
\* 0101... (up first) or 1010... (down first)
NeelVec(L, downfirst) ==
  BasisVec(Qubits(L), [k \in 1..L |-> IF downfirst THEN k % 2 ELSE (k + 1) % 2])

(* ----------------------------- 1D compression: what is promised --------- *)
Methods1D == {"direct", "dm", "zipup", "zipup-first", "zipup-oversample", "sdc", "sdc-oversample",
              "src", "src-first", "src-oversample", "srcmps", "srcmps-first", "srcmps-oversample",
              "fit", "fit-zipup", "fit-projector", "fit-oversample"}
\* methods whose documentation demands an explicit bond cap (max_bond = None is rejected)
NeedsCap == {"sdc-oversample", "src", "src-first", "src-oversample", "srcmps", "srcmps-first",
             "srcmps-oversample", "fit", "fit-zipup", "fit-projector", "fit-oversample"}
FitSweeping == {"fit", "fit-zipup", "fit-projector"}
\* methods that are only claimed to reproduce the input to the tolerance of an iteration
FitType == FitSweeping \cup {"fit-oversample"}
\* the canonical (optimal truncation) routes for which the error bound is claimed
Canonical == {"direct", "mps.compress", "mps.compress_site"}

\* a loud numerical refusal that the statement does not exclude: the 'projector' guess of fit-projector gauges the
\* bonds by their singular values and raises LinAlgError when a bond carries exactly zero singular values
\* (e.g. (a + b) - b).  It is a refusal, not a wrong value: accepted by `Returns`, recorded as a NOTE.
NumericalRefusal(method, exc) == method = "fit-projector" /\ exc = "LinAlgError"

\* last letter of the sweep sequence that is cycled `iters` times
LastSweep(seq, iters) == seq[((iters - 1) % Len(seq)) + 1]

\* site (1-based, physical order) of the canonical centre promised by the docstrings:
\*  - every sweep method: site_tags[0] (right canonical), or site_tags[-1] if sweep_reverse;
\*  - the variational fit: the end its last sweep ran to ("L": site_tags[0], "R": site_tags[-1]),
\*    the opposite if sweep_reverse;
\*  - MatrixProductState.compress(form): 'right' -> site 0, 'left' -> site L-1, an integer -> that site;
\*  - MatrixProductState.compress_site(i): site i (only the two bonds next to it are compressed).
\* 0 = no promise.
PromisedCentre(c, L) ==
  IF c.method \in FitSweeping
    THEN IF (LastSweep(c.sweeps, c.iters) = "L") # c.rev THEN 1 ELSE L
  ELSE IF c.method \in Methods1D THEN (IF c.rev THEN L ELSE 1)
  ELSE IF c.method = "mps.compress"
    THEN (CASE c.form = "right" -> 1 [] c.form = "left" -> L [] c.form = "flat" -> 0 [] OTHER -> c.site + 1)
  \* compress_site(i): "by default first setting the orthogonality center to that site"
  ELSE IF c.method = "mps.compress_site" THEN c.site + 1
  ELSE 0

\* centre at c: everything left of it is a left isometry, everything right of it a right isometry
CanonicalAround(c, liso, riso) ==
  /\ \A i \in 1..(c - 1) : liso[i]
  /\ \A i \in (c + 1)..Len(riso) : riso[i]

MaxOf(s) == IF Len(s) = 0 THEN 0 ELSE CHOOSE m \in SeqRange(s) : \A x \in SeqRange(s) : x <= m

\* "nothing needs truncating": no cutoff, and no cap or a cap that is not below any exact Schmidt rank of the
\* input.  The successive deterministic compression truncates SVD sketches of the *left blocks in the gauge of
\* the input* (it documents itself as an approximate sketching method): there the cap must also not be below
\* the bond sizes of the input.
GaugeDependent == {"sdc"}
NothingToTruncate(method, cap, cutoff0, ranks, inbonds) ==
  /\ cutoff0
  /\ \/ cap = 0
     \/ /\ cap >= MaxOf(ranks)
        /\ method \in GaugeDependent => cap >= MaxOf(inbonds)
=============================================================================
