SPECIFICATION Spec
CONSTANTS
  LL = 2
  MGens <- MGensAll
  OGens <- OGensAll
  Scalars <- ScalarsAll
  MaxDepth = 1
  MaxBond = 4
  OutFree = TRUE
  Mutant <- NoMutant
  Emit = FALSE
VIEW View
INVARIANT Denotes
INVARIANT QueryExact
INVARIANT BondBook
INVARIANT ChainIsDenote
CHECK_DEADLOCK FALSE
