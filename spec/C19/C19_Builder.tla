----------------------------- MODULE C19_Builder -----------------------------
(***************************************************************************)
(* State machine of one SparseOperatorBuilder: a raw term list is picked,  *)
(* then the processing stages of _get_terms_final and the matrix build run *)
(* one action each.  TLC checks, for EVERY term list of the small scope,   *)
(* that the implementation-shaped stages (C19_BuilderImpl) preserve the    *)
(* property-level meaning Matrix(raw) (C19_Defs): the Jordan-Wigner stage  *)
(* against the occupation-basis definition of the fermionic operators, the *)
(* simplification and Pauli-decomposition stages against the same matrix,  *)
(* and the coupling kernel against the dense matrix.                       *)
(***************************************************************************)
EXTENDS C19_BuilderImpl, Json

CONSTANTS NSites,     \* number of registers
          Ops,        \* operator vocabulary of the run (subset of OpNames)
          MaxOps,     \* operators per term 0..MaxOps
          Coefs,      \* Gaussian-integer coefficients
          MaxTerms,   \* terms per list 1..MaxTerms
          JWs, PDs,   \* sets of flag values: jordan_wigner in BOOLEAN, pauli_decompose in {0, 1, 2}
          PrintCases  \* TRUE: print every case with the model's prediction (S->C replay source)

VARIABLES raw, jw, pd, stage, cur, ref, mat
vars == <<raw, jw, pd, stage, cur, ref, mat>>

HB == 4   \* bound on half-integer operators per term in this scope (MaxOps <= 4)

OpsSeqs  == UNION {[1..m -> Ops \X (0..NSites - 1)] : m \in 0..MaxOps}
TermSpace == {[c |-> c, ops |-> o] : c \in Coefs, o \in OpsSeqs}
TermLists == UNION {[1..k -> TermSpace] : k \in 1..MaxTerms}

ScaleUp(terms) == [t \in 1..Len(terms) |-> [c |-> GScale(Pow2(FS), terms[t].c), ops |-> terms[t].ops]]

Init ==
  /\ raw \in TermLists
  /\ jw \in JWs
  /\ pd \in PDs
  /\ stage = "raw"
  /\ cur = ScaleUp(raw)
  /\ ref = MatrixFlat(raw, NSites, FS + HB, jw)     \* 2^(FS+HB) * Matrix(raw), fermionic iff jw
  /\ mat = <<>>

DoJW ==
  /\ stage = "raw" /\ stage' = "jw"
  /\ cur' = IF jw THEN JWI(cur) ELSE cur
  /\ UNCHANGED <<raw, jw, pd, ref, mat>>
DoSimplify1 ==
  /\ stage = "jw" /\ stage' = "s1"
  /\ cur' = SimplifyI(cur, NSites)
  /\ UNCHANGED <<raw, jw, pd, ref, mat>>
DoPauli ==
  /\ stage = "s1" /\ stage' = "pd"
  /\ cur' = PauliI(cur, pd, NSites)
  /\ UNCHANGED <<raw, jw, pd, ref, mat>>
DoSimplify2 ==
  /\ stage = "pd" /\ stage' = "final"
  /\ cur' = SimplifyI(cur, NSites)
  /\ UNCHANGED <<raw, jw, pd, ref, mat>>
DoBuild ==
  /\ stage = "final" /\ stage' = "built"
  /\ mat' = BuildI(cur, NSites, HB)
  /\ PrintCases => PrintT(<<"QVJSON", ToJson([terms |-> raw, jw |-> jw, pd |-> pd, n |-> NSites,
                                               fterms |-> cur, mat |-> mat'])>>)
  /\ UNCHANGED <<raw, jw, pd, cur, ref>>

Next == DoJW \/ DoSimplify1 \/ DoPauli \/ DoSimplify2 \/ DoBuild
Spec == Init /\ [][Next]_vars

(* ---- property-level invariants ----------------------------------------- *)
\* the meaning of the current term list: fermionic ladder operators only before the JW stage
DenoteCur == MatrixFlat(cur, NSites, HB, jw /\ stage = "raw")

\* every stage preserves the operator ("has one meaning ... before and after the rewrites")
Denotes == stage # "built" => DenoteCur = ref
\* the matrix produced by the coupling kernel is the matrix of the term list
BuiltEqualsMatrix == stage = "built" => mat = ref
\* simplify never hits an unmatched product (the ValueError branch is dead for this vocabulary)
NoUnmatched == \A t \in 1..Len(cur) : \A k \in 1..Len(cur[t].ops) : cur[t].ops[k][1] \in OpNames
\* strict form of the final terms: one operator per register, registers ascending, no identities,
\* no repeated operator string, no null coefficient; only Pauli operators after a decomposition
FinalCanonical ==
  stage \in {"final", "built"} =>
    /\ \A t \in 1..Len(cur) :
         /\ cur[t].c # G0
         /\ \A k \in 1..Len(cur[t].ops) : cur[t].ops[k][1] # "I"
         /\ \A k \in 1..Len(cur[t].ops) - 1 : cur[t].ops[k][2] < cur[t].ops[k + 1][2]
         /\ pd = 1 => \A k \in 1..Len(cur[t].ops) : cur[t].ops[k][1] \in {"x", "y", "z"}
         /\ pd = 2 => \A k \in 1..Len(cur[t].ops) : cur[t].ops[k][1] \in {"x", "zx", "z"}
    /\ \A t, u \in 1..Len(cur) : t # u => cur[t].ops # cur[u].ops
=============================================================================
