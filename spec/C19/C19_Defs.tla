------------------------------ MODULE C19_Defs ------------------------------
(***************************************************************************)
(* C19 - all representations of one Hamiltonian denote the same operator.  *)
(*                                                                         *)
(* Reference (property level) definitions, written from the statement and  *)
(* the documentation of quimb.operator, NOT from the code:                 *)
(*   - the meaning Matrix(terms, n) of "a sum of products of named         *)
(*     single-site operators" on n two-level sites (register 0 is the most *)
(*     significant digit of a basis index, operators of one term multiply  *)
(*     left to right in the order listed, '+' is the raising matrix        *)
(*     |1><0|), with Gaussian-integer coefficients;                        *)
(*   - the fermionic meaning of the ladder operators, defined directly in  *)
(*     the occupation basis (independently of Jordan-Wigner strings);      *)
(*   - symmetry sectors, their combinatorial sizes, the sector sub-matrix; *)
(*   - what a ranking of a sector must be (a bijection with [0, size)).    *)
(* Everything is exact: entries are Gaussian integers <<re, im>>; the      *)
(* half-integer operators (sx, sy, sz, sn) are handled by computing        *)
(* 2^F * Matrix for an exponent F >= the number of halves in any term.     *)
(***************************************************************************)
EXTENDS Integers, Sequences, FiniteSets, TLC

(* ------------------------- Gaussian integers --------------------------- *)
G0 == <<0, 0>>
G1 == <<1, 0>>
GI == <<0, 1>>
GAdd(a, b)   == <<a[1] + b[1], a[2] + b[2]>>
GMul(a, b)   == <<a[1] * b[1] - a[2] * b[2], a[1] * b[2] + a[2] * b[1]>>
GScale(k, a) == <<k * a[1], k * a[2]>>
GNeg(a)      == <<0 - a[1], 0 - a[2]>>
GConj(a)     == <<a[1], 0 - a[2]>>
GNorm2(a)    == a[1] * a[1] + a[2] * a[2]

RECURSIVE Pow2(_)
Pow2(k) == IF k <= 0 THEN 1 ELSE 2 * Pow2(k - 1)

RECURSIVE GSumSeq(_, _)
GSumSeq(s, k) == IF k = 0 THEN G0 ELSE GAdd(GSumSeq(s, k - 1), s[k])
GSum(s) == GSumSeq(s, Len(s))

RECURSIVE ConcatAll(_, _)
ConcatAll(ss, k) == IF k = 0 THEN <<>> ELSE ConcatAll(ss, k - 1) \o ss[k]
Flatten(ss) == ConcatAll(ss, Len(ss))

Max2(a, b) == IF a > b THEN a ELSE b
RECURSIVE MaxOver(_, _)
MaxOver(s, k) == IF k = 0 THEN 0 ELSE Max2(MaxOver(s, k - 1), s[k])

(* --------------------- the named single-site operators ----------------- *)
(* Tab(op)[out + 1][in + 1] is the entry <out| op |in> of 2^Half(op) * op.  *)
OpNames == {"I", "x", "y", "z", "zx", "sx", "sy", "sz", "+", "-", "n", "sn", "h"}

Half(op) == IF op \in {"sx", "sy", "sz", "sn"} THEN 1 ELSE 0

PauliX == << <<G0, G1>>, <<G1, G0>> >>
PauliY == << <<G0, <<0, -1>> >>, << <<0, 1>>, G0>> >>
PauliZ == << <<G1, G0>>, <<G0, <<-1, 0>> >> >>

Tab(op) ==
  CASE op = "I"  -> << <<G1, G0>>, <<G0, G1>> >>
    [] op = "x"  -> PauliX
    [] op = "y"  -> PauliY
    [] op = "z"  -> PauliZ
    [] op = "zx" -> << <<G0, G1>>, << <<-1, 0>>, G0>> >>     \* Z.X = iY, the "real Y"
    [] op = "sx" -> PauliX                                    \* X / 2
    [] op = "sy" -> PauliY                                    \* Y / 2
    [] op = "sz" -> PauliZ                                    \* Z / 2
    [] op = "+"  -> << <<G0, G0>>, <<G1, G0>> >>              \* raising |1><0|
    [] op = "-"  -> << <<G0, G1>>, <<G0, G0>> >>              \* lowering |0><1|
    [] op = "n"  -> << <<G0, G0>>, <<G0, G1>> >>              \* number |1><1|
    [] op = "sn" -> << << <<-1, 0>>, G0>>, <<G0, G1>> >>      \* n - 1/2
    [] op = "h"  -> << <<G1, G0>>, <<G0, G0>> >>              \* hole |0><0|

(* ------------------------- basis configurations ------------------------ *)
(* A configuration of n registers is the integer whose binary digits are   *)
(* the occupations, register 0 most significant.                           *)
Bit(cfg, s, n)       == (cfg \div Pow2(n - 1 - s)) % 2
SetBit(cfg, s, n, b) == cfg + (b - Bit(cfg, s, n)) * Pow2(n - 1 - s)

RECURSIVE PopRange(_, _, _, _)
\* number of occupied registers among lo..hi-1
PopRange(cfg, lo, hi, n) == IF lo >= hi THEN 0 ELSE Bit(cfg, lo, n) + PopRange(cfg, lo + 1, hi, n)
Pop(cfg, n) == PopRange(cfg, 0, n, n)
RECURSIVE PopOnSeq(_, _, _, _)
PopOnSeq(cfg, regs, k, n) == IF k = 0 THEN 0 ELSE Bit(cfg, regs[k], n) + PopOnSeq(cfg, regs, k - 1, n)
PopOn(cfg, regs, n) == PopOnSeq(cfg, regs, Len(regs), n)

(* ----------------- the meaning of a term list (sparse form) ------------ *)
(* A term is [c |-> <<re, im>>, ops |-> << <<opname, register>>, ... >>].   *)
(* A sparse vector is a sequence of <<configuration, amplitude>> pairs     *)
(* (repetitions add).  Applying the operator `op` placed on register s     *)
(* (identity on every other register: Kronecker placement) to |cfg> gives  *)
(* sum_b <b|op|cfg_s> |cfg with s := b>.  With fermi = TRUE the ladder     *)
(* operators are fermionic: c+_s and c_s carry the sign                    *)
(* (-1)^(number of occupied registers below s) of the state they act on.   *)
HalfCount(ops) == LET h == [k \in 1..Len(ops) |-> Half(ops[k][1])]
                      RECURSIVE S(_)
                      S(k) == IF k = 0 THEN 0 ELSE S(k - 1) + h[k]
                  IN  S(Len(ops))

MaxHalf(terms) == MaxOver([t \in 1..Len(terms) |-> HalfCount(terms[t].ops)], Len(terms))

ApplyOp(vec, op, s, n, fermi) ==
  LET T == Tab(op)
      one(e) ==
        LET cfg == e[1]
            b0  == Bit(cfg, s, n)
            sgn == IF fermi /\ op \in {"+", "-"} /\ PopRange(cfg, 0, s, n) % 2 = 1 THEN -1 ELSE 1
            outs == SelectSeq(<<0, 1>>, LAMBDA b : T[b + 1][b0 + 1] # G0)
        IN  [k \in 1..Len(outs) |->
               <<SetBit(cfg, s, n, outs[k]), GScale(sgn, GMul(T[outs[k] + 1][b0 + 1], e[2]))>>]
  IN  Flatten([k \in 1..Len(vec) |-> one(vec[k])])

\* O_1 O_2 ... O_m |cfg> : the last listed operator acts first
RECURSIVE ApplyOps(_, _, _, _, _)
ApplyOps(vec, ops, k, n, fermi) ==
  IF k = 0 THEN vec
  ELSE ApplyOps(ApplyOp(vec, ops[k][1], ops[k][2], n, fermi), ops, k - 1, n, fermi)

\* column `cfg` of 2^F * sum_t c_t * (product of the operators of t)
Column(terms, cfg, n, F, fermi) ==
  Flatten([t \in 1..Len(terms) |->
     ApplyOps(<< <<cfg, GScale(Pow2(F - HalfCount(terms[t].ops)), terms[t].c)>> >>,
              terms[t].ops, Len(terms[t].ops), n, fermi)])

EntryOf(r, col) == LET hit == SelectSeq(col, LAMBDA e : e[1] = r)
                   IN  GSum([k \in 1..Len(hit) |-> hit[k][2]])

\* 2^F * Matrix(terms) as a flat sequence in row-major order (row = output configuration)
MatrixFlat(terms, n, F, fermi) ==
  LET D    == Pow2(n)
      cols == TLCEval([c \in 0..D - 1 |-> TLCEval(Column(terms, c, n, F, fermi))])
  IN  TLCEval([k \in 1..D * D |-> EntryOf((k - 1) \div D, cols[(k - 1) % D])])

FlatScale(k, flat) == TLCEval([i \in 1..Len(flat) |-> GScale(k, flat[i])])

(* ------------- the same meaning, as plain dense linear algebra --------- *)
(* Embed = I (x) ... (x) op (x) ... (x) I, products of dense matrices.     *)
(* Only used on tiny instances to cross-check the sparse form (ASSUME).    *)
Embed(op, s, n, fermi) ==
  LET D == Pow2(n)
      w == Pow2(n - 1 - s)
  IN  TLCEval([r \in 1..D |-> TLCEval([c \in 1..D |->
        IF (r - 1) - Bit(r - 1, s, n) * w = (c - 1) - Bit(c - 1, s, n) * w
        THEN GScale(IF fermi /\ op \in {"+", "-"} /\ PopRange(c - 1, 0, s, n) % 2 = 1 THEN -1 ELSE 1,
                    Tab(op)[Bit(r - 1, s, n) + 1][Bit(c - 1, s, n) + 1])
        ELSE G0])])

\* (TLCEval: TLC's function constructors are lazy; force each matrix to be computed once)
MatMul(A, B, D) ==
  LET AA == TLCEval(A)
      BB == TLCEval(B)
  IN  TLCEval([r \in 1..D |-> TLCEval([c \in 1..D |-> GSum([k \in 1..D |-> GMul(AA[r][k], BB[k][c])])])])
MatAdd(A, B, D) ==
  LET AA == TLCEval(A)
      BB == TLCEval(B)
  IN  TLCEval([r \in 1..D |-> TLCEval([c \in 1..D |-> GAdd(AA[r][c], BB[r][c])])])
MatScale(g, A, D) ==
  LET AA == TLCEval(A)
  IN  TLCEval([r \in 1..D |-> TLCEval([c \in 1..D |-> GMul(g, AA[r][c])])])
MatId(D)   == [r \in 1..D |-> [c \in 1..D |-> IF r = c THEN G1 ELSE G0]]
MatZero(D) == [r \in 1..D |-> [c \in 1..D |-> G0]]

RECURSIVE TermProd(_, _, _, _)
TermProd(ops, k, n, fermi) ==
  IF k = 0 THEN MatId(Pow2(n))
  ELSE MatMul(TermProd(ops, k - 1, n, fermi), Embed(ops[k][1], ops[k][2], n, fermi), Pow2(n))

RECURSIVE DenseSum(_, _, _, _, _)
DenseSum(terms, t, n, F, fermi) ==
  IF t = 0 THEN MatZero(Pow2(n))
  ELSE MatAdd(DenseSum(terms, t - 1, n, F, fermi),
              MatScale(GScale(Pow2(F - HalfCount(terms[t].ops)), terms[t].c),
                       TermProd(terms[t].ops, Len(terms[t].ops), n, fermi), Pow2(n)),
              Pow2(n))

DenseFlat(terms, n, F, fermi) ==
  LET D == Pow2(n)
      M == TLCEval(DenseSum(terms, Len(terms), n, F, fermi))
  IN  [k \in 1..D * D |-> M[((k - 1) \div D) + 1][((k - 1) % D) + 1]]

\* start-up self check of the two formulations on a few genuinely non-commuting / fermionic lists
SelfCheckTerms ==
  << << [c |-> <<1, 2>>, ops |-> << <<"x", 0>>, <<"y", 0>>, <<"+", 1>> >>],
        [c |-> <<0, 1>>, ops |-> << <<"sx", 1>>, <<"-", 0>>, <<"sn", 1>> >>] >>,
     << [c |-> <<2, 0>>, ops |-> << <<"+", 1>>, <<"-", 0>> >>],
        [c |-> <<1, -1>>, ops |-> << <<"-", 0>>, <<"+", 1>>, <<"n", 0>> >>],
        [c |-> <<3, 0>>, ops |-> <<>>] >>,
     << [c |-> <<1, 0>>, ops |-> << <<"zx", 0>>, <<"h", 1>>, <<"sz", 0>>, <<"sy", 1>> >>] >> >>

ASSUME \A i \in 1..Len(SelfCheckTerms) : \A f \in BOOLEAN :
         MatrixFlat(SelfCheckTerms[i], 2, 2, f) = DenseFlat(SelfCheckTerms[i], 2, 2, f)

(* ------------------------------ sectors -------------------------------- *)
(* sym in {"none", "Z2", "U1", "U1U1"}; sec is <<>>, <<p>>, <<k>>,         *)
(* <<na, ka, nb, kb>>; regsA = the registers of the first species (U1U1).  *)
RECURSIVE Fact(_)
Fact(k) == IF k <= 1 THEN 1 ELSE k * Fact(k - 1)
Binom(n, k) == IF k < 0 \/ k > n THEN 0 ELSE Fact(n) \div (Fact(k) * Fact(n - k))

SeqToSet(s) == {s[i] : i \in 1..Len(s)}
OtherRegs(regsA, n) == SelectSeq([i \in 1..n |-> i - 1], LAMBDA r : r \notin SeqToSet(regsA))

InSector(cfg, sym, sec, regsA, n) ==
  /\ cfg \in 0..Pow2(n) - 1
  /\ CASE sym = "none" -> TRUE
       [] sym = "Z2"   -> Pop(cfg, n) % 2 = sec[1]
       [] sym = "U1"   -> Pop(cfg, n) = sec[1]
       [] sym = "U1U1" -> /\ PopOn(cfg, regsA, n) = sec[2]
                          /\ PopOn(cfg, OtherRegs(regsA, n), n) = sec[4]

SectorSize(sym, sec, n) ==
  CASE sym = "none" -> Pow2(n)
    [] sym = "Z2"   -> Pow2(n - 1)
    [] sym = "U1"   -> Binom(n, sec[1])
    [] sym = "U1U1" -> Binom(sec[1], sec[2]) * Binom(sec[3], sec[4])

SectorWellFormed(sym, sec, regsA, n) ==
  CASE sym = "none" -> TRUE
    [] sym = "Z2"   -> n >= 1 /\ sec[1] \in {0, 1}
    [] sym = "U1"   -> sec[1] \in 0..n
    [] sym = "U1U1" -> /\ sec[1] + sec[3] = n /\ Len(regsA) = sec[1]
                       /\ Cardinality(SeqToSet(regsA)) = sec[1] /\ SeqToSet(regsA) \subseteq 0..n - 1
                       /\ sec[2] \in 0..sec[1] /\ sec[4] \in 0..sec[3]

\* the conserved charge of a configuration
Charge(cfg, sym, regsA, n) ==
  CASE sym = "none" -> 0
    [] sym = "Z2"   -> Pop(cfg, n) % 2
    [] sym = "U1"   -> Pop(cfg, n)
    [] sym = "U1U1" -> <<PopOn(cfg, regsA, n), PopOn(cfg, OtherRegs(regsA, n), n)>>

\* a table tab[rank + 1] = configuration is a ranking of the sector:
\* a bijection between [0, size) and the sector's configurations
TableInSector(tab, sym, sec, regsA, n) == \A i \in 1..Len(tab) : InSector(tab[i], sym, sec, regsA, n)
TableInjective(tab)                   == Cardinality({tab[i] : i \in 1..Len(tab)}) = Len(tab)
TableSize(tab, sym, sec, n)           == Len(tab) = SectorSize(sym, sec, n)
\* in-sector + injective + right size = bijection (the sector has exactly SectorSize members, checked
\* by TLC in the model run: invariant SizeIsCount)
IsRanking(tab, sym, sec, regsA, n) ==
  /\ TableSize(tab, sym, sec, n) /\ TableInSector(tab, sym, sec, regsA, n) /\ TableInjective(tab)

\* the matrix "between the sector's basis states": basis[i] is the configuration of rank i - 1
SubFlat(flat, D, basis) ==
  LET m == Len(basis)
  IN  [k \in 1..m * m |-> flat[basis[((k - 1) \div m) + 1] * D + basis[((k - 1) % m) + 1] + 1]]

TransposeFlat(flat, D) == [k \in 1..D * D |-> flat[((k - 1) % D) * D + ((k - 1) \div D) + 1]]

\* the operator has the symmetry: no matrix element between different charges
Conserves(flat, n, sym, regsA) ==
  LET D  == Pow2(n)
      ch == [c \in 0..D - 1 |-> Charge(c, sym, regsA, n)]
  IN  \A k \in 1..D * D : flat[k] # G0 => ch[(k - 1) \div D] = ch[(k - 1) % D]

\* one product of operators on distinct registers changes no charge (used only to decide whether
\* an exception is an acceptable rejection of a term that individually leaves the sector)
FlipBoth == {"x", "y", "zx", "sx", "sy"}
TermKeepsCharge(ops, sym, regsA) ==
  LET raise(S) == Cardinality({k \in 1..Len(ops) : ops[k][1] = "+" /\ ops[k][2] \in S})
      lower(S) == Cardinality({k \in 1..Len(ops) : ops[k][1] = "-" /\ ops[k][2] \in S})
      mixed    == Cardinality({k \in 1..Len(ops) : ops[k][1] \in FlipBoth})
      all      == {ops[k][2] : k \in 1..Len(ops)}
  IN  CASE sym = "none" -> TRUE
        [] sym = "Z2"   -> (raise(all) + lower(all) + mixed) % 2 = 0
        [] sym = "U1"   -> mixed = 0 /\ raise(all) = lower(all)
        [] sym = "U1U1" -> /\ mixed = 0
                           /\ raise(SeqToSet(regsA)) = lower(SeqToSet(regsA))
                           /\ raise(all \ SeqToSet(regsA)) = lower(all \ SeqToSet(regsA))
=============================================================================
