------------------------------ MODULE C19_Rank ------------------------------
(***************************************************************************)
(* State machine that walks through every rank of every sector with the    *)
(* transcribed kernels (C19_RankImpl) and checks the property-level        *)
(* statement of C19_Defs: ranking is a bijection between [0, size) and the *)
(* sector's configurations and size is the combinatorial formula.          *)
(***************************************************************************)
EXTENDS C19_RankImpl

CONSTANTS MaxN,         \* registers 1..MaxN (no symmetry, Z2, U1, U1U1 with contiguous species)
          MaxNSpecies   \* every interleaving of the two species for n <= MaxNSpecies

VARIABLES sym, n, sec, regsA, pt, r, seen, last, prev
vars == <<sym, n, sec, regsA, pt, r, seen, last, prev>>

SortedSeq(S, nn) == SelectSeq([i \in 1..nn |-> i - 1], LAMBDA x : x \in S)

LayoutsOf(sy, se, nn) ==
  IF sy # "U1U1" THEN {<<>>}
  ELSE {SortedSeq(S, nn) : S \in {T \in SUBSET (0..nn - 1) :
            Cardinality(T) = se[1] /\ (nn <= MaxNSpecies \/ T = 0..se[1] - 1)}}

Init ==
  \E nn \in 1..MaxN : \E sy \in {"none", "Z2", "U1", "U1U1"} :
    \E se \in {<<>>} \cup {<<a>> : a \in 0..nn} \cup
              {<<na, ka, nn - na, kb>> : na \in 0..nn, ka \in 0..nn, kb \in 0..nn} :
      /\ CASE sy = "none" -> se = <<>>
           [] sy = "Z2"   -> Len(se) = 1 /\ se[1] \in {0, 1}
           [] sy = "U1"   -> Len(se) = 1
           [] sy = "U1U1" -> Len(se) = 4 /\ se[2] <= se[1] /\ se[4] <= se[3]
      /\ \E ra \in LayoutsOf(sy, se, nn) :
           /\ sym = sy /\ n = nn /\ sec = se /\ regsA = ra
           /\ pt = PascalFor(sy, se, nn)
           /\ r = 0 /\ seen = {} /\ last = <<>> /\ prev = -1

Advance ==
  /\ r < SizeI(pt, sym, sec, n)
  /\ LET fc == UnrankI(pt, r, sym, sec, regsA, n)
     IN  /\ last' = fc
         /\ seen' = seen \cup {ToCfg(fc)}
  /\ prev' = IF last = <<>> THEN -1 ELSE ToCfg(last)
  /\ r' = r + 1
  /\ UNCHANGED <<sym, n, sec, regsA, pt>>

StepNone == sym = "none" /\ Advance
StepZ2   == sym = "Z2"   /\ Advance
StepU1   == sym = "U1"   /\ Advance
StepU1U1 == sym = "U1U1" /\ Advance
Next == StepNone \/ StepZ2 \/ StepU1 \/ StepU1U1
Spec == Init /\ [][Next]_vars

SectorSet == {c \in 0..Pow2(n) - 1 : InSector(c, sym, sec, regsA, n)}

(* ---- property-level invariants ----------------------------------------- *)
WellFormed     == SectorWellFormed(sym, sec, regsA, n)
\* the size used by the kernels is the combinatorial formula ...
SizeIsFormula  == SizeI(pt, sym, sec, n) = SectorSize(sym, sec, n)
\* ... and the formula counts the sector (evaluated once per sector)
SizeIsCount    == r = 0 => SectorSize(sym, sec, n) = Cardinality(SectorSet)
\* every unranked configuration is a configuration of the sector
UnrankInSector == last # <<>> => /\ Len(last) = n
                                 /\ \A i \in 1..n : last[i] \in {0, 1}
                                 /\ InSector(ToCfg(last), sym, sec, regsA, n)
\* rank(unrank(r)) = r
RoundTrip      == last # <<>> => RankI(pt, last, sym, sec, regsA, n) = r - 1
\* no configuration is produced twice
Injective      == Cardinality(seen) = r
\* all of the sector is produced
Onto           == r = SizeI(pt, sym, sec, n) => seen = SectorSet

(* ---- I-model fact (documented, but not demanded by the statement) ------ *)
\* with contiguous species the enumeration is lexicographic in register order
Contiguous == sym # "U1U1" \/ regsA = [i \in 1..Len(regsA) |-> i - 1]
LexOrder   == (Contiguous /\ last # <<>>) => prev < ToCfg(last)
=============================================================================
