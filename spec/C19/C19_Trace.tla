----------------------------- MODULE C19_Trace -----------------------------
(***************************************************************************)
(* Trace spec for C19: judges observations of the real quimb.operator      *)
(* classes (and of the 1D spin-chain builders) with the property-level     *)
(* definitions of C19_Defs.                                                *)
(*                                                                         *)
(* events                                                                  *)
(*  "case"      one term list (register-indexed, Gaussian-integer          *)
(*              coefficients) with flags jw / pd, the final terms reported *)
(*              by the builder, the dense form of every representation     *)
(*              (including the table of the VMC coupling function),        *)
(*              (entries scaled by 2^F and snapped to Gaussian integers),  *)
(*              and the same for symmetry sectors together with the rank   *)
(*              -> configuration table of the sector;                      *)
(*  "ranktable" the complete rank -> configuration table of one sector as  *)
(*              returned by the real kernels / HilbertSpace, and the ranks *)
(*              returned for those configurations;                         *)
(*  "mixedtable" the same for an unconstrained space of arbitrary local    *)
(*              dimensions (digit strings);                                *)
(*  "rel"       quantised distance between one representation and a        *)
(*              reference for inputs outside the exact domain (floats);    *)
(*  "model1d"   quantised distance between a spin-chain builder and the    *)
(*              matrix-side generator of the same model.                   *)
(***************************************************************************)
EXTENDS C19_Defs, TraceIO

\* the two I-models, only used to classify / annotate (never for a verdict of their own)
RankM   == INSTANCE C19_RankImpl WITH PascalShift <- 0
AsFound == INSTANCE C19_BuilderImpl WITH InverseScalar <- TRUE

VARIABLES l, fails
tvars == <<l, fails>>

(* ------------------------------ "case" ---------------------------------- *)
ClauseOfKind(kind) ==
  CASE kind = "dense"  -> "DenseEq"
    [] kind = "sparse" -> "SparseEq"
    [] kind = "matvec" -> "MatvecEq"
    [] kind = "linop"  -> "LinopEq"
    [] kind = "local"  -> "LocalTermsEq"
    [] kind = "ikron"  -> "IkronEq"
    [] kind = "mpo"    -> "MpoEq"
    [] kind = "coupling" -> "CouplingEq"
    [] OTHER           -> "UnknownRepresentation"

PauliSet(pd) == IF pd = 1 THEN {"x", "y", "z"} ELSE {"x", "zx", "z"}

\* the prediction of the I-model with the as-found scalar of simplify_single_site_ops, scaled by 2^(FS + F)
AsFoundFlat(ln) ==
  AsFound!BuildI(AsFound!FinalTermsI(
                   [t \in 1..Len(ln.terms) |-> [c |-> GScale(Pow2(AsFound!FS), ln.terms[t].c), ops |-> ln.terms[t].ops]],
                   ln.jw, ln.pd, ln.n), ln.n, ln.F)

CaseClauses(ln) ==
  LET n        == ln.n
      D        == Pow2(n)
      expected == MatrixFlat(ln.terms, n, ln.F, ln.jw)      \* 2^F * Matrix(terms); fermionic ladder ops iff jw
      asfound  == AsFoundFlat(ln)
      hasconst == ln.fok /\ \E t \in 1..Len(ln.fterms) : Len(ln.fterms[t].ops) = 0
      \* the operator before the last add_term call (which cancelled an existing raw term exactly)
      stale    == MatrixFlat(SubSeq(ln.terms, 1, Len(ln.terms) - 1), n, ln.F, ln.jw)
      \* a failing observation that is exactly a known deviation is attributed to the specific clause
      Blame(kind, obs, want, known, old) ==
        IF obs.exc = "" /\ obs.grid /\ obs.mat = want THEN <<ClauseOfKind(kind), TRUE>>
        ELSE IF ln.samesite /\ obs.exc = "" /\ obs.grid /\ FlatScale(Pow2(AsFound!FS), obs.mat) = known
             THEN <<"SameSiteProductScalar", FALSE>>
        ELSE IF ln.cancel_last /\ obs.exc = "" /\ obs.grid /\ obs.mat = old
             THEN <<"StaleAfterCancellingTerm", FALSE>>
             ELSE <<ClauseOfKind(kind), FALSE>>
      emptyop  == ln.fok /\ Len(ln.fterms) = 0
      \* coupling function (not in the statement's list of representations: judged leniently): the
      \* documentation defines the coefficient returned for the pair (x -> y) as <x|H|y>, i.e. the table
      \* indexed [x][y] is the matrix itself; the transposed table (<y|H|x>, what the kernels produce) is
      \* accepted and only recorded as a NOTE; anything else is wrong under either convention.
      Coupling(rep) ==
        IF rep.exc = "" /\ rep.grid /\ rep.mat = expected THEN <<"CouplingEq", TRUE>>
        ELSE IF rep.exc = "" /\ rep.grid /\ rep.mat = TransposeFlat(expected, D)
             THEN <<"NOTE:CouplingRowConvention", FALSE>>
        ELSE IF ln.samesite /\ rep.exc = "" /\ rep.grid
                /\ (\/ FlatScale(Pow2(AsFound!FS), rep.mat) = asfound
                    \/ FlatScale(Pow2(AsFound!FS), rep.mat) = TransposeFlat(asfound, D))
             THEN <<"SameSiteProductScalar", FALSE>>
        ELSE IF ln.cancel_last /\ rep.exc = "" /\ rep.grid
                /\ (rep.mat = stale \/ rep.mat = TransposeFlat(stale, D))
             THEN <<"StaleAfterCancellingTerm", FALSE>>
             ELSE <<"CouplingEq", FALSE>>
      RepClause(rep) ==
        IF rep.kind = "local" /\ rep.exc # "" /\ hasconst
        THEN <<"LocalTermsEq", TRUE>>      \* a constant term has no local-term form: rejection, not a wrong value
        ELSE IF rep.kind \in {"ikron", "mpo"} /\ rep.exc # "" /\ emptyop
        THEN <<ClauseOfKind(rep.kind), TRUE>>   \* the zero operator has no term to build from: rejection
        ELSE IF rep.kind = "coupling" THEN Coupling(rep)
        ELSE Blame(rep.kind, rep, expected, asfound, stale)
      fh  == MaxHalf(ln.fterms)
      fmat == MatrixFlat(ln.fterms, n, fh, FALSE)           \* final terms are plain (spin) operators
      FinalDenote ==
        IF ln.fok /\ fmat = FlatScale(Pow2(fh), expected) THEN <<"FinalTermsDenote", TRUE>>
        ELSE IF ln.fok /\ ln.samesite /\ FlatScale(Pow2(AsFound!FS), fmat) = FlatScale(Pow2(fh), asfound)
             THEN <<"SameSiteProductScalar", FALSE>>
        ELSE IF ln.fok /\ ln.cancel_last /\ fmat = FlatScale(Pow2(fh), stale)
             THEN <<"StaleAfterCancellingTerm", FALSE>>
             ELSE <<"FinalTermsDenote", FALSE>>
      PauliOnly == ln.pd # 0 =>
                     /\ ln.fok
                     /\ \A t \in 1..Len(ln.fterms) : \A k \in 1..Len(ln.fterms[t].ops) :
                          ln.fterms[t].ops[k][1] \in PauliSet(ln.pd)
      \* ---- sectors
      SecClauses(sc) ==
        LET wf      == SectorWellFormed(sc.sym, sc.sec, sc.regsA, n)
            ranking == wf /\ IsRanking(sc.basis, sc.sym, sc.sec, sc.regsA, n)
            applies == wf /\ Conserves(expected, n, sc.sym, sc.regsA)
            want    == SubFlat(expected, D, sc.basis)
            known   == SubFlat(asfound, D, sc.basis)
            old     == SubFlat(stale, D, sc.basis)
            \* a term that individually leaves the sector may be rejected with an exception
            leaky   == ln.fok /\ \E t \in 1..Len(ln.fterms) : ~TermKeepsCharge(ln.fterms[t].ops, sc.sym, sc.regsA)
            One(rep) ==
              IF ~(applies /\ ranking) THEN <<"Sector" \o ClauseOfKind(rep.kind), TRUE>>   \* out of the statement's domain
              ELSE IF rep.exc # "" /\ leaky THEN <<"Sector" \o ClauseOfKind(rep.kind), TRUE>>
              ELSE LET b == Blame(rep.kind, rep, want, known, old)
                   IN  <<IF b[1] \in {"SameSiteProductScalar", "StaleAfterCancellingTerm"} THEN b[1] ELSE "Sector" \o b[1], b[2]>>
        IN  << <<"SectorBasisIsRanking", ranking>> >> \o [i \in 1..Len(sc.reps) |-> One(sc.reps[i])]
  IN  << <<"BuilderAccepts", ln.bexc = "">>,
         <<"OrderingHonoured", ln.order_ok>>,
         FinalDenote,
         <<"PauliOnly", PauliOnly>> >>
      \o [i \in 1..Len(ln.reps) |-> RepClause(ln.reps[i])]
      \o Flatten([i \in 1..Len(ln.sectors) |-> SecClauses(ln.sectors[i])])
      \o (IF ln.hasmodel
          THEN << <<"NOTE:ModelDrift", ln.fok /\ ln.fterms = ln.model_fterms>> >>
          ELSE <<>>)

(* ---------------------------- "ranktable" ------------------------------- *)
RankClauses(ln) ==
  LET n   == ln.n
      wf  == SectorWellFormed(ln.sym, ln.sec, ln.regsA, n)
      pt  == TLCEval(RankM!PascalFor(ln.sym, ln.sec, n))
      model == [i \in 1..Len(ln.tab) |-> RankM!ToCfg(RankM!UnrankI(pt, i - 1, ln.sym, ln.sec, ln.regsA, n))]
  IN  << <<"UnrankReturns", ln.exc = "" /\ wf>>,
         <<"RankReturns", ln.iexc = "">>,
         <<"RankSize", ln.exc = "" /\ wf /\ TableSize(ln.tab, ln.sym, ln.sec, n)
                       /\ ln.size = SectorSize(ln.sym, ln.sec, n)>>,
         <<"RankInSector", ln.exc = "" /\ wf /\ TableInSector(ln.tab, ln.sym, ln.sec, ln.regsA, n)>>,
         <<"RankInjective", ln.exc = "" /\ TableInjective(ln.tab)>>,
         \* (a failing rank call is reported by RankReturns)
         <<"RankRoundTrip", ln.iexc # "" \/ (ln.exc = "" /\ Len(ln.inv) = Len(ln.tab)
                                              /\ \A i \in 1..Len(ln.inv) : ln.inv[i] = i - 1)>>,
         <<"OrderingHonoured", ln.order_ok>>,
         <<"NOTE:ModelDrift", ln.exc = "" /\ wf /\ \A i \in 1..Len(ln.tab) : ln.tab[i] = model[i]>> >>

(* ---------------------------- "mixedtable" ------------------------------ *)
(* unconstrained space with arbitrary local dimensions: the ranking is a    *)
(* bijection between [0, prod dims) and the digit strings below dims        *)
RECURSIVE ProdSeq(_, _)
ProdSeq(s, k) == IF k = 0 THEN 1 ELSE s[k] * ProdSeq(s, k - 1)
MixedClauses(ln) ==
  LET size == ProdSeq(ln.dims, Len(ln.dims))
  IN  << <<"UnrankReturns", ln.exc = "">>,
         <<"RankReturns", ln.iexc = "">>,
         <<"RankSize", ln.exc = "" /\ Len(ln.tab) = size /\ ln.size = size>>,
         <<"RankInSector", ln.exc = "" /\ \A i \in 1..Len(ln.tab) :
                              /\ Len(ln.tab[i]) = Len(ln.dims)
                              /\ \A k \in 1..Len(ln.dims) : ln.tab[i][k] \in 0..ln.dims[k] - 1>>,
         <<"RankInjective", ln.exc = "" /\ Cardinality({ln.tab[i] : i \in 1..Len(ln.tab)}) = Len(ln.tab)>>,
         <<"RankRoundTrip", ln.iexc # "" \/ (ln.exc = "" /\ Len(ln.inv) = Len(ln.tab)
                                              /\ \A i \in 1..Len(ln.inv) : ln.inv[i] = i - 1)>>,
         <<"OrderingHonoured", ln.order_ok>> >>

(* ------------------------- "rel" and "model1d" -------------------------- *)
RelClauses(ln) ==
  IF ln.allowed_exc /\ ln.exc # "" THEN << <<"Rel" \o ClauseOfKind(ln.kind), TRUE>> >>
  ELSE << <<(IF ln.sector THEN "RelSector" ELSE "Rel") \o ClauseOfKind(ln.kind), ln.exc = "" /\ ln.q = 0>> >>

ModelClauses(ln) == << <<"ModelsAgree", ln.exc = "" /\ ln.q = 0>> >>

Clauses(ln) ==
  CASE ln.ev = "case"      -> CaseClauses(ln)
    [] ln.ev = "ranktable" -> RankClauses(ln)
    [] ln.ev = "mixedtable" -> MixedClauses(ln)
    [] ln.ev = "rel"       -> RelClauses(ln)
    [] ln.ev = "model1d"   -> ModelClauses(ln)
    [] OTHER               -> << <<"UnknownEvent", FALSE>> >>

TInit == l = 1 /\ fails = <<>>
TNext == /\ l <= NLines
         /\ l' = l + 1
         /\ fails' = AddFails(fails, l, Clauses(TraceLog[l]))
TSpec == TInit /\ [][TNext]_tvars

Done == l = NLines + 1 => WriteVerdict(l - 1, fails)
=============================================================================
