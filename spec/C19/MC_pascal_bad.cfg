SPECIFICATION Spec
CONSTANTS
  MaxN = 4
  MaxNSpecies = 3
  PascalShift = 1
INVARIANT UnrankInSector
INVARIANT RoundTrip
INVARIANT Injective
INVARIANT Onto
CHECK_DEADLOCK FALSE
