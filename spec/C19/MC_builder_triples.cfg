SPECIFICATION Spec
CONSTANTS
  NSites = 2
  Ops <- TripleOps
  MaxOps = 3
  Coefs <- CoefOne
  MaxTerms = 1
  JWs <- BoolBoth
  PDs <- PDSome
  PrintCases = TRUE
  InverseScalar = FALSE
INVARIANT Denotes
INVARIANT BuiltEqualsMatrix
INVARIANT NoUnmatched
INVARIANT FinalCanonical
CHECK_DEADLOCK FALSE
