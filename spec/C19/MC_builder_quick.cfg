SPECIFICATION Spec
CONSTANTS
  NSites = 2
  Ops <- QuickOps
  MaxOps = 2
  Coefs <- CoefOne
  MaxTerms = 1
  JWs <- BoolBoth
  PDs <- PDSome
  PrintCases = TRUE
  InverseScalar = FALSE
INVARIANT Denotes
INVARIANT BuiltEqualsMatrix
INVARIANT NoUnmatched
INVARIANT FinalCanonical
CHECK_DEADLOCK FALSE
