------------------------------ MODULE MC_C19B ------------------------------
EXTENDS C19_Builder
AllOps      == OpNames
QuickOps    == {"I", "x", "y", "sx", "+", "-", "sn"}
PairOps     == {"x", "y", "+", "-", "sz"}
TripleOps   == {"y", "sx", "+", "-", "n", "zx"}
CoefOne     == {<<1, 2>>}
CoefTwo     == {<<1, 0>>, <<-1, 2>>}
BoolBoth    == {TRUE, FALSE}
OnlyFalse   == {FALSE}
PDAll       == {0, 1, 2}
PDSome      == {0, 1}
PDNone      == {0}
=============================================================================
