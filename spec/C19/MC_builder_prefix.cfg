SPECIFICATION Spec
CONSTANTS
  NSites = 2
  Ops <- QuickOps
  MaxOps = 2
  Coefs <- CoefOne
  MaxTerms = 1
  JWs <- OnlyFalse
  PDs <- PDNone
  PrintCases = FALSE
  InverseScalar = TRUE
INVARIANT Denotes



CHECK_DEADLOCK FALSE
