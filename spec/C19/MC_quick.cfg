SPECIFICATION Spec
CONSTANTS
  MaxN = 7
  MaxNSpecies = 5
  PascalShift = 0
INVARIANT WellFormed
INVARIANT SizeIsFormula
INVARIANT SizeIsCount
INVARIANT UnrankInSector
INVARIANT RoundTrip
INVARIANT Injective
INVARIANT Onto
INVARIANT LexOrder
CHECK_DEADLOCK FALSE
