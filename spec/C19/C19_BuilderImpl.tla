--------------------------- MODULE C19_BuilderImpl ---------------------------
(***************************************************************************)
(* I-model: transcription of the term pipeline of                          *)
(* quimb/operator/builder.py at the pinned commit                          *)
(*   jordan_wigner_transform -> simplify -> pauli_decompose -> simplify    *)
(*   -> build_coupling_numba + configcore._check_next_coupled_term         *)
(* over exact arithmetic.  A coefficient is stored as the Gaussian integer *)
(* g = coeff * 2^FS; a term list is a sequence (the dict of the code in    *)
(* insertion order) of [c |-> g, ops |-> << <<op, reg>>, ... >>].          *)
(*                                                                         *)
(* InverseScalar is the named deviation of simplify_single_site_ops:       *)
(*   TRUE  : `coeff *= ref_coeff / combo_coeff` (the code as found)        *)
(*   FALSE : `coeff *= combo_coeff / ref_coeff` (what the product denotes) *)
(***************************************************************************)
EXTENDS C19_Defs

CONSTANT InverseScalar

FS == 8          \* coefficients are scaled by 2^FS (every operator costs at most one halving)

\* iteration order of _OPMAP: the reference operator is the first match in this order
OpOrder == <<"I", "x", "y", "z", "zx", "sx", "sy", "sz", "+", "-", "n", "sn", "h">>

\* the sparse-structure precondition of the builder: one entry per input value
ASSUME \A op \in OpNames : \A xi \in 1..2 : Cardinality({xj \in 1..2 : Tab(op)[xj][xi] # G0}) <= 1

(* ---- exact helpers ---------------------------------------------------- *)
GDivInt(a, d) ==
  IF a[1] % d = 0 /\ a[2] % d = 0 THEN <<a[1] \div d, a[2] \div d>>
  ELSE Assert(FALSE, <<"C19_BuilderImpl: inexact division, raise FS", a, d>>)
\* a * 2^k for an integer k of either sign
GShift(a, k) == IF k >= 0 THEN GScale(Pow2(k), a) ELSE GDivInt(a, Pow2(0 - k))
\* a / b for Gaussian integers (b # 0, result must be a Gaussian integer)
GDiv(a, b) == GDivInt(GMul(a, GConj(b)), GNorm2(b))

Mat2Mul(A, B) ==
  LET AA == TLCEval(A)
      BB == TLCEval(B)
  IN  TLCEval([i \in 1..2 |-> TLCEval([j \in 1..2 |->
         GAdd(GMul(AA[i][1], BB[1][j]), GMul(AA[i][2], BB[2][j]))])])
RECURSIVE Prod2(_, _)
Prod2(names, k) == IF k = 1 THEN Tab(names[1]) ELSE Mat2Mul(Prod2(names, k - 1), Tab(names[k]))
FlatOf(M) == <<M[1][1], M[1][2], M[2][1], M[2][2]>>
\* mat.flat[np.argmax(np.abs(mat))] : the first entry of maximal modulus
ArgMaxFirst(f) ==
  CHOOSE i \in 1..4 : /\ \A j \in 1..4 : GNorm2(f[j]) <= GNorm2(f[i])
                      /\ \A j \in 1..i - 1 : GNorm2(f[j]) < GNorm2(f[i])
RECURSIVE HalfNames(_, _)
HalfNames(names, k) == IF k = 0 THEN 0 ELSE HalfNames(names, k - 1) + Half(names[k])

(* ---- simplify_single_site_ops(coeff, ops) ----------------------------- *)
\* returns [c |-> new coefficient, op |-> name]; op = "null" for a vanishing product,
\* op = "nomatch" where the code raises ValueError
SimplifySite(g, names) ==
  IF Len(names) = 1 THEN [c |-> g, op |-> names[1]]
  ELSE
    LET pf == FlatOf(Prod2(names, Len(names)))     \* 2^e * (product of the matrices)
        e  == HalfNames(names, Len(names))
        pc == pf[ArgMaxFirst(pf)]
        Ref(R)   == FlatOf(Tab(R))
        RefC(R)  == Ref(R)[ArgMaxFirst(Ref(R))]
        \* (combo / combo_coeff).round(12) == (ref / ref_coeff).round(12), cross-multiplied
        match(R) == \A i \in 1..4 : GMul(pf[i], RefC(R)) = GMul(Ref(R)[i], pc)
    IN  IF pc = G0 THEN [c |-> G0, op |-> "null"]
        ELSE IF ~ \E i \in 1..Len(OpOrder) : match(OpOrder[i]) THEN [c |-> g, op |-> "nomatch"]
        ELSE
          LET idx == CHOOSE i \in 1..Len(OpOrder) :
                        match(OpOrder[i]) /\ \A j \in 1..i - 1 : ~match(OpOrder[j])
              R   == OpOrder[idx]
              rc  == RefC(R)
              hR  == Half(R)
          IN  [op |-> R,
               c  |-> IF InverseScalar
                      THEN GShift(GDiv(GMul(g, rc), pc), e - hR)      \* coeff * (rc / 2^hR) / (pc / 2^e)
                      ELSE GShift(GDiv(GMul(g, pc), rc), hR - e)]     \* coeff * (pc / 2^e) / (rc / 2^hR)

(* ---- dict with insertion order: pop(key, 0) + coeff, re-insert at the end unless null ---- *)
IndexOfKey(acc, key) == IF \E i \in 1..Len(acc) : acc[i].ops = key
                        THEN CHOOSE i \in 1..Len(acc) : acc[i].ops = key ELSE 0
Put(acc, key, g) ==
  LET i    == IndexOfKey(acc, key)
      old  == IF i = 0 THEN G0 ELSE acc[i].c
      rest == IF i = 0 THEN acc ELSE SubSeq(acc, 1, i - 1) \o SubSeq(acc, i + 1, Len(acc))
      new  == GAdd(old, g)
  IN  IF new = G0 THEN rest ELSE Append(rest, [c |-> new, ops |-> key])

(* ---- simplify(terms) -------------------------------------------------- *)
\* sites of a term in order of first appearance (dict `collected`)
RECURSIVE SitesInOrder(_, _)
SitesInOrder(ops, k) ==
  IF k = 0 THEN <<>>
  ELSE LET prev == SitesInOrder(ops, k - 1)
       IN  IF \E i \in 1..Len(prev) : prev[i] = ops[k][2] THEN prev ELSE Append(prev, ops[k][2])
NamesAt(ops, site) == LET sel == SelectSeq(ops, LAMBDA o : o[2] = site)
                      IN  [i \in 1..Len(sel) |-> sel[i][1]]

\* fold over the sites: st = [c, ops, dead]
RECURSIVE SimplifySites(_, _, _, _)
SimplifySites(ops, sites, k, st) ==
  IF k > Len(sites) \/ st.dead THEN st
  ELSE LET r == SimplifySite(st.c, NamesAt(ops, sites[k]))
       IN  IF r.op = "null" THEN [st EXCEPT !.dead = TRUE, !.c = G0]
           ELSE SimplifySites(ops, sites, k + 1,
                  [c |-> r.c, dead |-> FALSE,
                   ops |-> IF r.op = "I" THEN st.ops ELSE Append(st.ops, <<r.op, sites[k]>>)])

\* simplified_ops.sort(key=(reg, op)) : at most one operator per register here
SortByReg(ops, n) ==
  LET at(r) == SelectSeq(ops, LAMBDA o : o[2] = r)
  IN  Flatten([r1 \in 1..n |-> at(r1 - 1)])

RECURSIVE SimplifyLoop(_, _, _, _)
SimplifyLoop(terms, t, acc, n) ==
  IF t > Len(terms) THEN acc
  ELSE LET ops == terms[t].ops
           st  == SimplifySites(ops, SitesInOrder(ops, Len(ops)), 1,
                                [c |-> terms[t].c, ops |-> <<>>, dead |-> FALSE])
       IN  IF st.dead \/ st.c = G0 THEN SimplifyLoop(terms, t + 1, acc, n)
           ELSE SimplifyLoop(terms, t + 1, Put(acc, SortByReg(st.ops, n), st.c), n)
SimplifyI(terms, n) == SimplifyLoop(terms, 1, <<>>, n)

(* ---- jordan_wigner_transform(terms) ----------------------------------- *)
ZString(reg) == [r1 \in 1..reg |-> <<"z", r1 - 1>>]
JWOps(ops) ==
  IF \E k \in 1..Len(ops) : ops[k][1] \in {"+", "-"}
  THEN Flatten([k \in 1..Len(ops) |->
          IF ops[k][1] \in {"+", "-"} THEN ZString(ops[k][2]) \o <<ops[k]>> ELSE <<ops[k]>>])
  ELSE ops
\* (the code stores by key without adding; the map is injective so nothing is overwritten)
JWI(terms) == TLCEval([t \in 1..Len(terms) |-> [c |-> terms[t].c, ops |-> TLCEval(JWOps(terms[t].ops))]])

(* ---- get_pauli_decomp / pauli_decompose ------------------------------- *)
\* pd = 1: Pauli basis I x y z; pd = 2: use_zx (y -> -i zx)
Trace2(M) == GAdd(M[1][1], M[2][2])
\* list of [c |-> 2^(1 + Half(op)) * cb, op |-> basis operator] for op not in the basis
DecompRaw(op) ==
  LET bops == <<"I", "x", "y", "z">>
      cb(b) == Trace2(Mat2Mul(Tab(b), Tab(op)))
  IN  SelectSeq([i \in 1..4 |-> [c |-> cb(bops[i]), op |-> bops[i]]], LAMBDA e : e.c # G0)
\* multiply the scaled coefficient g by the decomposition of op
DecompApply(g, op, pd) ==
  LET base == IF op \in {"I", "x", "y", "z"} THEN << [c |-> g, op |-> op] >>
              ELSE LET d == DecompRaw(op)
                   IN  [i \in 1..Len(d) |-> [c |-> GShift(GMul(g, d[i].c), 0 - (1 + Half(op))), op |-> d[i].op]]
  IN  IF pd = 2
      THEN [i \in 1..Len(base) |-> IF base[i].op = "y"
                                   THEN [c |-> GMul(<<0, -1>>, base[i].c), op |-> "zx"] ELSE base[i]]
      ELSE base

\* new_ts = [(coeff_t * dcoeff, ops_t + (dop, reg)) for dcoeff, dop in decomp for coeff_t, ops_t in new_ts]
RECURSIVE Expand(_, _, _, _)
Expand(ops, k, ts, pd) ==
  IF k > Len(ops) THEN ts
  ELSE LET outer == TLCEval(DecompApply(<<Pow2(FS), 0>>, ops[k][1], pd))   \* dcoeff * 2^FS
           new   == Flatten([d \in 1..Len(outer) |->
                      [i \in 1..Len(ts) |->
                         [c   |-> GShift(GMul(ts[i].c, outer[d].c), 0 - FS),
                          ops |-> Append(ts[i].ops, <<outer[d].op, ops[k][2]>>)]]])
       IN  Expand(ops, k + 1, new, pd)

StripI(ops) == SelectSeq(ops, LAMBDA o : o[1] # "I")

RECURSIVE PutAll(_, _, _, _)
PutAll(acc, ts, i, n) ==
  IF i > Len(ts) THEN acc
  ELSE PutAll(Put(acc, StripI(SortByReg(ts[i].ops, n)), ts[i].c), ts, i + 1, n)

RECURSIVE PauliLoop(_, _, _, _, _)
PauliLoop(terms, t, acc, pd, n) ==
  IF t > Len(terms) THEN acc
  ELSE PauliLoop(terms, t + 1,
                 PutAll(acc, Expand(terms[t].ops, 1, << [c |-> terms[t].c, ops |-> <<>>] >>, pd), 1, n),
                 pd, n)
PauliI(terms, pd, n) == IF pd = 0 THEN terms ELSE PauliLoop(terms, 1, <<>>, pd, n)

(* ---- the whole _get_terms_final --------------------------------------- *)
FinalTermsI(raw, jw, pd, n) ==
  LET t0 == IF jw THEN JWI(raw) ELSE raw
      t1 == SimplifyI(t0, n)
      t2 == PauliI(t1, pd, n)
  IN  SimplifyI(t2, n)

(* ---- build_coupling_numba + _check_next_coupled_term ------------------ *)
\* entries of _OPMAP[op] in dict order: <<xi, xj, cij>> for xi = 0, 1 where present
Entries(op) ==
  LET T == Tab(op)
      ent(xi) == LET outs == SelectSeq(<<0, 1>>, LAMBDA xj : T[xj + 1][xi + 1] # G0)
                 IN  [k \in 1..Len(outs) |-> <<xi, outs[k], T[outs[k] + 1][xi + 1]>>]
  IN  ent(0) \o ent(1)

\* one term applied to the configuration bi: [valid, bj, h] with h = hij * 2^(FS + halves)
RECURSIVE CoupleLoop(_, _, _, _, _)
CoupleLoop(ops, k, bi, n, st) ==
  IF k > Len(ops) \/ ~st.valid THEN st
  ELSE LET reg == ops[k][2]
           xi  == Bit(bi, reg, n)                 \* read from bi, not from bj
           es  == Entries(ops[k][1])
       IN  IF Len(es) = 1
           THEN IF xi = es[1][1]
                THEN CoupleLoop(ops, k + 1, bi, n,
                       [valid |-> TRUE, bj |-> SetBit(st.bj, reg, n, es[1][2]), h |-> GMul(st.h, es[1][3])])
                ELSE [st EXCEPT !.valid = FALSE]
           ELSE CoupleLoop(ops, k + 1, bi, n,          \* ib = b + xi
                       [valid |-> TRUE, bj |-> SetBit(st.bj, reg, n, es[xi + 1][2]), h |-> GMul(st.h, es[xi + 1][3])])

CoupleTerm(term, bi, n) ==
  LET ops == IF Len(term.ops) = 0 THEN << <<"I", 0>> >> ELSE term.ops   \* all-identity term: "I" on register 0
  IN  CoupleLoop(ops, 1, bi, n, [valid |-> TRUE, bj |-> bi, h |-> term.c])

\* flat row-major matrix, entries scaled by 2^(FS + HB) where HB >= halves of any term
BuildI(terms, n, HB) ==
  LET D    == Pow2(n)
      cols == TLCEval([ci \in 0..D - 1 |->
                 TLCEval([t \in 1..Len(terms) |->
                    LET st == CoupleTerm(terms[t], ci, n)
                    IN  [valid |-> st.valid, bj |-> st.bj,
                         h |-> GScale(Pow2(HB - HalfCount(terms[t].ops)), st.h)]])])
      entry(r, c) == LET hit == SelectSeq(cols[c], LAMBDA e : e.valid /\ e.bj = r)
                     IN  GSum([k \in 1..Len(hit) |-> hit[k].h])
  IN  TLCEval([k \in 1..D * D |-> entry((k - 1) \div D, (k - 1) % D)])
=============================================================================
