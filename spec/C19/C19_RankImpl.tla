---------------------------- MODULE C19_RankImpl ----------------------------
(***************************************************************************)
(* I-model: transcription of the rank <-> flat configuration kernels of    *)
(* quimb/operator/configcore.py at the pinned commit (nosymm, z2, u1 with  *)
(* Pascal table, u1u1) and of the blocked permutation that HilbertSpace    *)
(* puts around the u1u1 kernels when species are interleaved.              *)
(* A flat configuration is a sequence of bits indexed 1..n (register       *)
(* i - 1 at position i).  Loop nests of the code are written as recursive  *)
(* operators carrying the loop variables.                                  *)
(* PascalShift is the deviation knob of the model's self test: 0 is the    *)
(* code, 1 reads the table one row too high (a typical off-by-one).        *)
(***************************************************************************)
EXTENDS C19_Defs

CONSTANT PascalShift

\* bits -> configuration number of the reference definitions (register 0 most significant)
RECURSIVE ToCfgK(_, _)
ToCfgK(fc, k) == IF k = 0 THEN 0 ELSE 2 * ToCfgK(fc, k - 1) + fc[k]
ToCfg(fc) == ToCfgK(fc, Len(fc))

(* ---- no symmetry ------------------------------------------------------ *)
\* flatconfig_to_rank_nosymm:  for xi in flatconfig: r = (r << 1) | xi
RankNosymm(fc) == ToCfgK(fc, Len(fc))
\* rank_into_flatconfig_nosymm: for i in n-1..0: fc[i] = r & 1; r >>= 1
UnrankNosymm(r, n) == [i \in 1..n |-> (r \div Pow2(n - i)) % 2]

(* ---- Z2 --------------------------------------------------------------- *)
\* flatconfig_to_rank_z2: the nosymm rank of the first n - 1 bits
RankZ2(fc) == ToCfgK(fc, Len(fc) - 1)
\* rank_into_flatconfig_z2: the first n-1 bits are the bits of r (mask m = 1 << (n-2) shifted down),
\* the last bit is (parity of those) xor p
RECURSIVE ParityK(_, _)
ParityK(fc, k) == IF k = 0 THEN 0 ELSE (ParityK(fc, k - 1) + fc[k]) % 2
UnrankZ2(r, n, p) ==
  LET head == [i \in 1..n - 1 |-> (r \div Pow2(n - 1 - i)) % 2]
  IN  [i \in 1..n |-> IF i < n THEN head[i] ELSE (ParityK(head, n - 1) + p) % 2]

(* ---- U1 (Pascal table) ------------------------------------------------ *)
\* build_pascal_table(nmax): pt[n, 0] = 1; pt[n, k] = pt[n-1, k-1] + pt[n-1, k] for 1 <= k <= n; else 0.
\* Here the table is a sequence of rows: row j is pt[j + 1], a function on 0..nmax.
RECURSIVE PascalRows(_, _, _)
PascalRows(acc, j, nmax) ==
  IF j > nmax THEN acc
  ELSE PascalRows(Append(acc, TLCEval([k \in 0..nmax |->
                     IF k = 0 THEN 1 ELSE IF k > j THEN 0 ELSE acc[j][k - 1] + acc[j][k]])),
                  j + 1, nmax)
BuildPascal(nmax) == PascalRows(<<>>, 0, nmax)
\* HilbertSpace.get_pascal_table: nmax = max(na, nb) for U1U1, else nsites
PascalFor(sym, sec, n) == BuildPascal(IF sym = "U1U1" THEN Max2(sec[1], sec[3]) ELSE n)
\* table look-up as the kernels do it (row j, column krem); the deviation shifts the row
PT(pt, j, k) == IF k < 0 \/ k > Len(pt) - 1 \/ j + PascalShift > Len(pt) - 1 \/ j + PascalShift < 0 THEN 0
                ELSE pt[j + PascalShift + 1][k]

\* flatconfig_to_rank_u1_pascal: r = 0; krem = k; j = n
\*   for xi in fc: j -= 1; r += xi * pt[j, krem]; krem -= xi
RECURSIVE RankU1Loop(_, _, _, _, _, _, _)
RankU1Loop(pt, fc, i, n, j, krem, r) ==
  IF i > n THEN r
  ELSE RankU1Loop(pt, fc, i + 1, n, j - 1, krem - fc[i], r + fc[i] * PT(pt, j - 1, krem))
RankU1(pt, fc, n, k) == RankU1Loop(pt, fc, 1, n, n, k, 0)

\* rank_into_flatconfig_u1_pascal: krem = k; j = n
\*   for i: j -= 1; if r >= pt[j, krem]: fc[i] = 1; r -= pt[j, krem]; krem -= 1 else fc[i] = 0
RECURSIVE UnrankU1Loop(_, _, _, _, _, _, _)
UnrankU1Loop(pt, acc, i, n, j, krem, r) ==
  IF i > n THEN acc
  ELSE LET one == PT(pt, j - 1, krem)
       IN  IF r >= one
           THEN UnrankU1Loop(pt, Append(acc, 1), i + 1, n, j - 1, krem - 1, r - one)
           ELSE UnrankU1Loop(pt, Append(acc, 0), i + 1, n, j - 1, krem, r)
UnrankU1(pt, r, n, k) == UnrankU1Loop(pt, <<>>, 1, n, n, k, r)

(* ---- U1 x U1 ---------------------------------------------------------- *)
\* blocked order: the first na positions are species a, the last nb species b
RankU1U1(pt, fc, na, ka, nb, kb) ==
  RankU1(pt, SubSeq(fc, 1, na), na, ka) * PT(pt, nb, kb) + RankU1(pt, SubSeq(fc, na + 1, na + nb), nb, kb)
UnrankU1U1(pt, r, na, ka, nb, kb) ==
  LET Db == PT(pt, nb, kb)
  IN  UnrankU1(pt, r \div Db, na, ka) \o UnrankU1(pt, r % Db, nb, kb)

\* HilbertSpace._build_blocked_perm: blocked index i holds register perm[i], perm = regs of species a
\* followed by the regs of species b; rank_to_flatconfig returns fc_blocked[perm_inv] (register order),
\* flatconfig_to_rank ranks fc[perm].  regsA, regsB: 0-based registers in increasing order.
BlockedPerm(regsA, regsB) == regsA \o regsB
PosIn(seq, x) == CHOOSE i \in 1..Len(seq) : seq[i] = x
FromBlocked(fcb, regsA, regsB) ==
  LET perm == BlockedPerm(regsA, regsB)
  IN  [reg1 \in 1..Len(fcb) |-> fcb[PosIn(perm, reg1 - 1)]]
ToBlocked(fc, regsA, regsB) ==
  LET perm == BlockedPerm(regsA, regsB)
  IN  [i \in 1..Len(fc) |-> fc[perm[i] + 1]]

(* ---- dispatch (sym, sec as in C19_Defs; regsA only for U1U1) ----------- *)
UnrankI(pt, r, sym, sec, regsA, n) ==
  CASE sym = "none" -> UnrankNosymm(r, n)
    [] sym = "Z2"   -> UnrankZ2(r, n, sec[1])
    [] sym = "U1"   -> UnrankU1(pt, r, n, sec[1])
    [] sym = "U1U1" -> FromBlocked(UnrankU1U1(pt, r, sec[1], sec[2], sec[3], sec[4]), regsA, OtherRegs(regsA, n))

RankI(pt, fc, sym, sec, regsA, n) ==
  CASE sym = "none" -> RankNosymm(fc)
    [] sym = "Z2"   -> RankZ2(fc)
    [] sym = "U1"   -> RankU1(pt, fc, n, sec[1])
    [] sym = "U1U1" -> RankU1U1(pt, ToBlocked(fc, regsA, OtherRegs(regsA, n)), sec[1], sec[2], sec[3], sec[4])

\* the size the kernels iterate over (D = pt[n, k], pt[na, ka] * pt[nb, kb])
SizeI(pt, sym, sec, n) ==
  CASE sym = "none" -> Pow2(n)
    [] sym = "Z2"   -> Pow2(n - 1)
    [] sym = "U1"   -> PT(pt, n, sec[1])
    [] sym = "U1U1" -> PT(pt, sec[1], sec[2]) * PT(pt, sec[3], sec[4])
=============================================================================
