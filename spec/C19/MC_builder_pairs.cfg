SPECIFICATION Spec
CONSTANTS
  NSites = 2
  Ops <- PairOps
  MaxOps = 1
  Coefs <- CoefTwo
  MaxTerms = 2
  JWs <- BoolBoth
  PDs <- PDSome
  PrintCases = TRUE
  InverseScalar = FALSE
INVARIANT Denotes
INVARIANT BuiltEqualsMatrix
INVARIANT NoUnmatched
INVARIANT FinalCanonical
CHECK_DEADLOCK FALSE
