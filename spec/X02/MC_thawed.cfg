\* one generator caches a writeable object (must FAIL CacheSound)
SPECIFICATION Spec
CONSTANTS
  Keys = {"k1", "k2"}
  Frozen <- OneThawed
  MaxObjs = 3
  Fresh0 = "fresh"
  Dirty = "dirty"
INVARIANT CacheSound
CHECK_DEADLOCK FALSE
