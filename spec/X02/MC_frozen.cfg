SPECIFICATION Spec
CONSTANTS
  Keys = {"k1", "k2"}
  Frozen <- AllFrozen
  MaxObjs = 3
  Fresh0 = "fresh"
  Dirty = "dirty"
INVARIANT CacheSound
CHECK_DEADLOCK FALSE
