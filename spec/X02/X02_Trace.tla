----------------------------- MODULE X02_Trace -----------------------------
(* one line per (generator, arguments): the driver called f(k), tried to write through the returned object by every *)
(* route it knows (`writes`: how many were applied rather than refused), called f(k) again and compared fingerprints  *)
(* of the second result (`later`) with a fresh computation that bypasses the memo table (`fresh`).                    *)
EXTENDS Naturals, Sequences, TLC, TraceIO

VARIABLES l, fails
tvars == <<l, fails>>

Clauses(ln) ==
  << <<"Returns", ln.exc = "">>,
     <<"CacheSound", ln.exc = "" => ln.later = ln.fresh>>,
     <<"FirstCallFresh", ln.exc = "" => ln.first = ln.fresh>>,
     \* the table of the model: a generator whose result could be written through is not frozen
     <<"NOTE:FrozenTable", ln.exc = "" => (ln.frozen <=> ln.writes = 0)>> >>

TInit == l = 1 /\ fails = <<>>
TNext == l <= NLines /\ fails' = AddFails(fails, l, Clauses(TraceLog[l])) /\ l' = l + 1
TSpec == TInit /\ [][TNext]_tvars
Done == l = NLines + 1 => WriteVerdict(l - 1, fails)
=============================================================================
