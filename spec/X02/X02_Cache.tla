----------------------------- MODULE X02_Cache -----------------------------
(***************************************************************************)
(* EXTENSION (not one of the listed properties): memoised generators.      *)
(* ~70 functions of quimb (operators, states, gates, classical-model       *)
(* tensors, option parsers) are wrapped in functools.lru_cache, so every   *)
(* caller of f(k) receives the *same object*.  What a user relies on:       *)
(*   a call f(k) returns the value a fresh computation of f(k) gives,       *)
(*   whatever earlier callers did with the objects they received.           *)
(* State: the memo table (key -> object), the heap (object -> value,        *)
(* frozen?), and which objects callers hold.  A caller may try to write     *)
(* through any object it holds; the write is refused iff the object was     *)
(* frozen (quimb.core.make_immutable) when it was produced.  Frozen[k] is   *)
(* the per-generator table transcribed from the code (TRUE = the result is  *)
(* made immutable before it is cached).                                     *)
(***************************************************************************)
EXTENDS Naturals, FiniteSets, TLC

CONSTANTS Keys, Frozen, MaxObjs, Fresh0, Dirty

VARIABLES memo, heap, held
vars == <<memo, heap, held>>

Objs == 1..MaxObjs
Fresh(k) == Fresh0          \* the value a fresh computation gives (one abstract value per key suffices)

Init == memo = [k \in {} |-> 0] /\ heap = [o \in {} |-> 0] /\ held = {}

CallMiss(k) ==
  /\ k \notin DOMAIN memo
  /\ \E o \in Objs \ DOMAIN heap :
       /\ heap' = [x \in DOMAIN heap \cup {o} |-> IF x = o THEN [val |-> Fresh(k), frozen |-> Frozen[k]] ELSE heap[x]]
       /\ memo' = [x \in DOMAIN memo \cup {k} |-> IF x = k THEN o ELSE memo[x]]
       /\ held' = held \cup {o}

CallHit(k) == k \in DOMAIN memo /\ held' = held \cup {memo[k]} /\ UNCHANGED <<memo, heap>>

\* a holder writes through the object: refused (stutter) when frozen
Write(o) ==
  /\ o \in held /\ ~heap[o].frozen
  /\ heap' = [heap EXCEPT ![o].val = Dirty]
  /\ UNCHANGED <<memo, held>>

Evict(k) == k \in DOMAIN memo /\ memo' = [x \in DOMAIN memo \ {k} |-> memo[x]] /\ UNCHANGED <<heap, held>>

Next == \/ \E k \in Keys : CallMiss(k) \/ CallHit(k) \/ Evict(k)
        \/ \E o \in Objs : Write(o)
Spec == Init /\ [][Next]_vars

\* whatever a call would hand out now has the fresh value
CacheSound == \A k \in DOMAIN memo : heap[memo[k]].val = Fresh(k)
=============================================================================
