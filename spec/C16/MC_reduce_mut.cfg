SPECIFICATION Spec
CONSTANTS
  MaxLen = 9
  CarryFirst = TRUE
INVARIANT OrderKept
INVARIANT EqualsSerial
CHECK_DEADLOCK FALSE
