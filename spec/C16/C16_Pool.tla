------------------------------ MODULE C16_Pool ------------------------------
(***************************************************************************)
(* C16, "for every thread count": a threaded kernel must *return*.         *)
(* quimb has ONE cached ThreadPoolExecutor (get_thread_pool).  par_reduce   *)
(* submits the pair products of one level as tasks and waits for them; a    *)
(* pair product of dense operands with more than 128 rows (kron_dense ->    *)
(* maybe_multithread) in turn submits one block task per worker TO THE SAME *)
(* POOL and waits for them inside the worker thread.                        *)
(*                                                                          *)
(* State: the executor's FIFO queue, what every worker is doing, which     *)
(* tasks are finished.  Tasks: Outer(i) for the pair products of one level, *)
(* Inner(i, b) for the blocks of product i.  Constant Nested selects the    *)
(* pinned behaviour (blocks go to the pool) or the repaired one (the pair   *)
(* products of a parallel reduction compute their blocks in the calling     *)
(* thread).                                                                 *)
(***************************************************************************)
EXTENDS Naturals, Sequences, FiniteSets, TLC

CONSTANTS Workers, NOuter, NBlocks, Nested

VARIABLES queue, doing, done, submitted
vars == <<queue, doing, done, submitted>>

Outer == [kind : {"outer"}, i : 1..NOuter, b : {0}]
Inner == [kind : {"inner"}, i : 1..NOuter, b : 1..NBlocks]
Idle  == [kind |-> "idle", i |-> 0, b |-> 0]
O(i)     == [kind |-> "outer", i |-> i, b |-> 0]
I(i, b)  == [kind |-> "inner", i |-> i, b |-> b]
Wait(i)  == [kind |-> "wait", i |-> i, b |-> 0]      \* worker blocked in cf.wait on the blocks of product i

RECURSIVE SeqOf(_, _)
SeqOf(f, n) == IF n = 0 THEN <<>> ELSE Append(SeqOf(f, n - 1), f[n])

Init == /\ queue = SeqOf([i \in 1..NOuter |-> O(i)], NOuter)      \* pool.map submits every pair product at once
        /\ doing = [w \in Workers |-> Idle]
        /\ done = {}
        /\ submitted = {}

\* an idle worker takes the head of the queue
Take(w) == /\ doing[w] = Idle /\ queue # <<>>
           /\ doing' = [doing EXCEPT ![w] = Head(queue)]
           /\ queue' = Tail(queue)
           /\ UNCHANGED <<done, submitted>>

\* a worker running a pair product: pinned = submit the blocks to the same pool and wait; repaired = compute them here
RunOuter(w) ==
  /\ doing[w].kind = "outer"
  /\ LET i == doing[w].i IN
       IF Nested
       THEN /\ queue' = queue \o SeqOf([b \in 1..NBlocks |-> I(i, b)], NBlocks)
            /\ submitted' = submitted \cup {i}
            /\ doing' = [doing EXCEPT ![w] = Wait(i)]
            /\ UNCHANGED done
       ELSE /\ done' = done \cup {O(i)} \cup {I(i, b) : b \in 1..NBlocks}
            /\ doing' = [doing EXCEPT ![w] = Idle]
            /\ UNCHANGED <<queue, submitted>>

RunInner(w) == /\ doing[w].kind = "inner"
               /\ done' = done \cup {doing[w]}
               /\ doing' = [doing EXCEPT ![w] = Idle]
               /\ UNCHANGED <<queue, submitted>>

\* cf.wait returns once every block of the product is finished
Wake(w) == /\ doing[w].kind = "wait"
           /\ \A b \in 1..NBlocks : I(doing[w].i, b) \in done
           /\ done' = done \cup {O(doing[w].i)}
           /\ doing' = [doing EXCEPT ![w] = Idle]
           /\ UNCHANGED <<queue, submitted>>

Next == \E w \in Workers : Take(w) \/ RunOuter(w) \/ RunInner(w) \/ Wake(w)
Spec == Init /\ [][Next]_vars /\ WF_vars(Next)

AllDone == \A i \in 1..NOuter : O(i) \in done
\* the reduction level returns: from every reachable state some step is possible until everything is done
NoHang == (~ENABLED Next) => AllDone
Returns == <>AllDone
\* every block is computed exactly for the product that asked for it, once
BlocksOnce == \A i \in 1..NOuter : O(i) \in done => \A b \in 1..NBlocks : I(i, b) \in done
=============================================================================
