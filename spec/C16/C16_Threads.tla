--------------------------- MODULE C16_Threads ---------------------------
(* State machine of one call of a threaded kernel (see C16_Defs for the     *)
(* property-level definitions and the transcription of the arithmetic).    *)
EXTENDS C16_Defs

CONSTANTS MaxSize,      \* problem sizes 1..MaxSize
          MaxThreads,   \* thread counts 1..MaxThreads
          Targets,      \* set of target block sizes (non-zero ints)
          PreFix        \* TRUE: model the arithmetic before the "fix:" commit (self-test only)

(* ---------------- state machine: workers writing the output ----------- *)
(* One behaviour = one call of a threaded kernel.  Init picks the call;    *)
(* each worker walks its blocks and writes one element per step, so TLC    *)
(* explores every interleaving of the element writes.                      *)

VARIABLES size, target, nt,       \* the call
          plan,                   \* <<nb, base, rem>> as computed (by every worker identically)
          pc,                     \* pc[w] \in {"start", "run", "done", "failed"}
          blk, cur,               \* current block / next element of worker w
          writes                  \* writes[i] = number of times out[i] was written

vars == <<size, target, nt, plan, pc, blk, cur, writes>>

Workers == 0..nt-1

Init ==
  /\ size \in 1..MaxSize
  /\ nt \in 1..MaxThreads
  /\ target \in Targets
  /\ plan = IF PreFix THEN ChoosePreFix(size, target, nt) ELSE Choose(size, target, nt)
  /\ pc = [w \in 0..nt-1 |-> "start"]
  /\ blk = [w \in 0..nt-1 |-> w]
  /\ cur = [w \in 0..nt-1 |-> 0]
  /\ writes = [i \in 0..size-1 |-> 0]

\* a worker computes the plan; a zero block count is the division by zero that the pool swallows
Start(w) ==
  /\ pc[w] = "start"
  /\ IF plan[1] < 1
     THEN pc' = [pc EXCEPT ![w] = "failed"] /\ UNCHANGED <<blk, cur>>
     ELSE IF w < plan[1]
          THEN /\ pc' = [pc EXCEPT ![w] = "run"]
               /\ cur' = [cur EXCEPT ![w] = BlockRange(w, plan[2], plan[3])[1]]
               /\ UNCHANGED blk
          ELSE pc' = [pc EXCEPT ![w] = "done"] /\ UNCHANGED <<blk, cur>>
  /\ UNCHANGED <<size, target, nt, plan, writes>>

WriteElem(w) ==
  /\ pc[w] = "run"
  /\ cur[w] < BlockRange(blk[w], plan[2], plan[3])[2]
  /\ cur[w] \in DOMAIN writes
  /\ writes' = [writes EXCEPT ![cur[w]] = @ + 1]
  /\ cur' = [cur EXCEPT ![w] = @ + 1]
  /\ UNCHANGED <<size, target, nt, plan, pc, blk>>

NextBlock(w) ==
  /\ pc[w] = "run"
  /\ cur[w] >= BlockRange(blk[w], plan[2], plan[3])[2]
  /\ IF blk[w] + nt < plan[1]
     THEN /\ blk' = [blk EXCEPT ![w] = @ + nt]
          /\ cur' = [cur EXCEPT ![w] = BlockRange(blk[w] + nt, plan[2], plan[3])[1]]
          /\ UNCHANGED pc
     ELSE pc' = [pc EXCEPT ![w] = "done"] /\ UNCHANGED <<blk, cur>>
  /\ UNCHANGED <<size, target, nt, plan, writes>>

StartAny     == \E w \in Workers : Start(w)
WriteAny     == \E w \in Workers : WriteElem(w)
NextBlockAny == \E w \in Workers : NextBlock(w)
Next == StartAny \/ WriteAny \/ NextBlockAny

Spec == Init /\ [][Next]_vars

AllReturned == \A w \in Workers : pc[w] \in {"done", "failed"}

(* ---- properties ---- *)
PlanCovers      == ExactCover(size, plan[1], plan[2], plan[3])
NoDoubleWrite   == \A i \in DOMAIN writes : writes[i] <= 1
\* when cf.wait returns, the output equals the serial output: every element written once
SerialAtReturn  == AllReturned => \A i \in DOMAIN writes : writes[i] = 1
NoSwallowedFail == \A w \in Workers : pc[w] # "failed"
ArithEquiv      == ExactCover(size, plan[1], plan[2], plan[3]) <=> ExactCoverArith(size, plan[1], plan[2], plan[3])
=============================================================================
