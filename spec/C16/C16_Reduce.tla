----------------------------- MODULE C16_Reduce -----------------------------
(***************************************************************************)
(* C16 - par_reduce: the parallel pairwise tree reduction of quimb.core     *)
(* (transcription of _inner_preduce / _sfn: split into pairs and possibly   *)
(* one singlet, reduce each pair in the pool, recurse) must return what the *)
(* serial left fold returns for every ASSOCIATIVE fn, commutative or not.   *)
(* fn is modelled by the free monoid (concatenation of sequences), for which*)
(* two bracketings agree iff the operand ORDER is preserved; the pool may   *)
(* finish the pairs of one level in any order (one step per finished pair). *)
(***************************************************************************)
EXTENDS Integers, Sequences, FiniteSets, TLC

CONSTANTS MaxLen,       \* sequences of 1..MaxLen operands
          CarryFirst    \* TRUE: a (seeded) variant that carries the odd item to the FRONT - must fail

VARIABLES level,    \* current list of partial results (each a sequence of operand ids)
          pending,  \* pairs of the current level not yet reduced: set of positions k (pair k = items 2k-1, 2k)
          next,     \* results of the current level, by pair position
          n         \* number of operands
vars == <<level, pending, next, n>>

Pairs(x) == 1..((Len(x) + 1) \div 2)
PairOf(x, k) == IF 2 * k <= Len(x) THEN x[2 * k - 1] \o x[2 * k] ELSE x[2 * k - 1]     \* _sfn: singlet passes through

Init == /\ n \in 1..MaxLen
        /\ level = [i \in 1..n |-> <<i>>]
        /\ pending = Pairs(level) /\ next = [k \in {} |-> <<>>]

\* one worker finishes the reduction of one pair (any order)
FinishPair(k) ==
  /\ Len(level) > 2 /\ k \in pending
  /\ next' = (k :> PairOf(level, k)) @@ next
  /\ pending' = pending \ {k}
  /\ UNCHANGED <<level, n>>

\* pool.map returned: the results, in pair order, form the next level
NextLevel ==
  /\ Len(level) > 2 /\ pending = {}
  /\ LET m == Cardinality(DOMAIN next)
         lst == [k \in 1..m |-> next[k]]
         odd == Len(level) % 2 = 1 IN
     level' = IF CarryFirst /\ odd THEN <<lst[m]>> \o SubSeq(lst, 1, m - 1) ELSE lst
  /\ pending' = Pairs(level') /\ next' = [k \in {} |-> <<>>]
  /\ UNCHANGED n

Next == (\E k \in pending : FinishPair(k)) \/ NextLevel
Spec == Init /\ [][Next]_vars

\* len(x) <= 2 -> _sfn(x): the final value
Result == IF Len(level) = 2 THEN level[1] \o level[2] ELSE level[1]
Serial == [i \in 1..n |-> i]
\* every partial result is a contiguous, ordered run; when the recursion bottoms out the value is the serial fold
OrderKept == \A i \in 1..Len(level) : \A a \in 1..Len(level[i]) - 1 : level[i][a] + 1 = level[i][a + 1]
EqualsSerial == Len(level) <= 2 => Result = Serial
=============================================================================
