SPECIFICATION Spec
CONSTANTS
  MaxSize = 4
  MaxThreads = 3
  Targets <- TargetsQuick
  PreFix = TRUE
INVARIANT SerialAtReturn
CHECK_DEADLOCK FALSE
