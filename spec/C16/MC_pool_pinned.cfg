\* pinned: as many pair products as workers, blocks submitted to the same pool -> every worker waits (must FAIL NoHang)
SPECIFICATION Spec
CONSTANTS
  Workers = {w1, w2}
  NOuter = 2
  NBlocks = 2
  Nested = TRUE
INVARIANT NoHang
INVARIANT BlocksOnce
CHECK_DEADLOCK FALSE
