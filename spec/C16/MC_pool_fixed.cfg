\* repaired: the pair products of a parallel reduction compute their blocks in the calling thread
SPECIFICATION Spec
CONSTANTS
  Workers = {w1, w2}
  NOuter = 4
  NBlocks = 2
  Nested = FALSE
INVARIANT NoHang
INVARIANT BlocksOnce
PROPERTY Returns
CHECK_DEADLOCK FALSE
