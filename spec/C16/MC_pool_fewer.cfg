\* pinned, fewer pair products than workers: one worker stays free and serves the blocks (passes)
SPECIFICATION Spec
CONSTANTS
  Workers = {w1, w2, w3}
  NOuter = 2
  NBlocks = 3
  Nested = TRUE
INVARIANT NoHang
INVARIANT BlocksOnce
PROPERTY Returns
CHECK_DEADLOCK FALSE
