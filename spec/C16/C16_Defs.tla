---------------------------- MODULE C16_Defs ----------------------------
(***************************************************************************)
(* C16 - threaded kernels give the serial answer for every schedule.       *)
(*                                                                         *)
(* R-spec part: what a work partition must satisfy (ExactCover) and what a *)
(* threaded kernel must deliver (every element written exactly once with   *)
(* the serial value), whatever the interleaving of the workers.            *)
(* I-model part: a transcription of quimb.core.threading_choose_num_blocks *)
(* / threading_get_block_range / maybe_multithread at the pinned commit    *)
(* (after the "fix:" commit that keeps the block count >= 1).              *)
(***************************************************************************)
EXTENDS Integers, Sequences, FiniteSets, TLC

Min2(a, b) == IF a < b THEN a ELSE b
Max2(a, b) == IF a > b THEN a ELSE b
Abs(x)     == IF x < 0 THEN -x ELSE x

(* ---------------- reference: the property-level statement ------------- *)

\* start/stop of block b when `size = nb*base + rem`, remainder spread on the first blocks
BlockRange(b, base, rem) ==
  LET s == b * base + Min2(b, rem)
  IN  <<s, s + base + (IF b < rem THEN 1 ELSE 0)>>

\* number of blocks that contain index i
Holders(i, nb, base, rem) ==
  {b \in 0..nb-1 : BlockRange(b, base, rem)[1] <= i /\ i < BlockRange(b, base, rem)[2]}

\* "assigns every row or element to exactly one block, for all sizes"
ExactCover(size, nb, base, rem) ==
  /\ nb >= 1
  /\ \A i \in 0..size-1 : Cardinality(Holders(i, nb, base, rem)) = 1
  /\ \A b \in 0..nb-1 : /\ BlockRange(b, base, rem)[1] >= 0
                        /\ BlockRange(b, base, rem)[2] <= size
                        /\ BlockRange(b, base, rem)[1] <= BlockRange(b, base, rem)[2]

\* cheaper equivalent used on large recorded grids (TLC checks the equivalence below)
ExactCoverArith(size, nb, base, rem) ==
  /\ nb >= 1 /\ base >= 0 /\ rem >= 0
  /\ nb * base + Min2(nb, rem) = size

\* the two forms agree on every (size, nb, base, rem) of a small box: checked by TLC at start-up
ASSUME \A s \in 0..7, n \in 0..4, b \in 0..3, r \in 0..5 :
         ExactCover(s, n, b, r) <=> ExactCoverArith(s, n, b, r)

\* workers stride over blocks: block b belongs to worker (b % nt)
OwnerOfBlock(b, nt) == b % nt
WorkerBlocks(w, nb, nt) == {b \in 0..nb-1 : b % nt = w}

\* world-rank striding of the operator builders: range(rank, D, world)
StrideSet(rank, D, world) == {c \in 0..D-1 : c % world = rank}
StrideExactCover(D, world) ==
  /\ \A c \in 0..D-1 : Cardinality({r \in 0..world-1 : c \in StrideSet(r, D, world)}) = 1

(* ---------------- I-model: transcription of the implementation -------- *)

\* Python round() on the rational n/d (d > 0): round half to even
RoundHalfEven(n, d) ==
  LET q == n \div d
      r2 == 2 * (n % d)
  IN  IF r2 < d THEN q
      ELSE IF r2 > d THEN q + 1
      ELSE IF q % 2 = 0 THEN q ELSE q + 1

CeilDiv(n, d) == (n + d - 1) \div d

\* threading_choose_num_blocks(size_total, target_block_size, num_threads)
ChooseNumBlocks(size, target, nt) ==
  IF nt = 1 THEN 1
  ELSE IF target < 0
       THEN LET nb0 == CeilDiv(size, -target)
            IN  Max2(1, IF nb0 > nt THEN nt * RoundHalfEven(nb0, nt) ELSE nb0)
       ELSE Max2(1, Min2(nt, RoundHalfEven(size, nt)))

Choose(size, target, nt) ==
  LET nb == ChooseNumBlocks(size, target, nt)
  IN  <<nb, size \div nb, size % nb>>

\* the pre-fix arithmetic (kept as a named deviation: TLC shows it breaks ExactCover)
ChooseNumBlocksPreFix(size, target, nt) ==
  IF nt = 1 THEN 1
  ELSE IF target < 0
       THEN LET nb0 == CeilDiv(size, -target)
            IN  IF nb0 > nt THEN nt * RoundHalfEven(nb0, nt) ELSE nb0
       ELSE Min2(nt, RoundHalfEven(size, nt))

\* divmod by a zero block count raises inside the worker: modelled as the plan <<0, 0, 0>>
ChoosePreFix(size, target, nt) ==
  LET nb == ChooseNumBlocksPreFix(size, target, nt)
  IN  IF nb < 1 THEN <<0, 0, 0>> ELSE <<nb, size \div nb, size % nb>>

\* maybe_multithread: serial call iff size_total <= target_block_size
GoesThreaded(sizeTotal, target) == ~(sizeTotal <= target)
=============================================================================
