SPECIFICATION Spec
CONSTANTS
  MaxLen = 9
  CarryFirst = FALSE
INVARIANT OrderKept
INVARIANT EqualsSerial
CHECK_DEADLOCK FALSE
