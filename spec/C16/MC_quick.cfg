SPECIFICATION Spec
CONSTANTS
  MaxSize = 7
  MaxThreads = 4
  Targets <- TargetsQuick
  PreFix = FALSE
INVARIANT PlanCovers
INVARIANT NoDoubleWrite
INVARIANT SerialAtReturn
INVARIANT NoSwallowedFail
INVARIANT ArithEquiv
CHECK_DEADLOCK FALSE
