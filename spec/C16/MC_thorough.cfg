SPECIFICATION Spec
CONSTANTS
  MaxSize = 10
  MaxThreads = 4
  Targets <- TargetsThorough
  PreFix = FALSE
INVARIANT PlanCovers
INVARIANT NoDoubleWrite
INVARIANT SerialAtReturn
INVARIANT NoSwallowedFail
INVARIANT ArithEquiv
CHECK_DEADLOCK FALSE
