----------------------------- MODULE C16_Trace -----------------------------
(* Trace spec for C16: judges observations of the real partition functions  *)
(* and threaded kernels of quimb against the clauses of C16_Threads.        *)
EXTENDS C16_Defs, TraceIO

VARIABLES l, fails
tvars == <<l, fails>>

\* ---- clauses on one recorded line ----

\* the real (nb, base, rem) is an exact cover
PartitionOK(ln) ==
  /\ ln.exc = ""
  /\ ln.intlike
  /\ IF ln.size <= 12
     THEN ExactCover(ln.size, ln.nb, ln.base, ln.rem)
     ELSE ExactCoverArith(ln.size, ln.nb, ln.base, ln.rem)

\* the real block ranges (as returned by threading_get_block_range) tile [0, size)
RangesTile(ln) ==
  LET r == ln.ranges IN
  /\ Len(r) = ln.nb
  /\ \A i \in 0..ln.size-1 :
        Cardinality({b \in 1..Len(r) : r[b][1] <= i /\ i < r[b][2]}) = 1
  /\ \A b \in 1..Len(r) : 0 <= r[b][1] /\ r[b][1] <= r[b][2] /\ r[b][2] <= ln.size

\* the implementation still computes what the I-model says (a drift is a NOTE, not a violation)
ModelAgrees(ln) ==
  ln.exc = "" /\ ln.intlike => <<ln.nb, ln.base, ln.rem>> = Choose(ln.size, ln.target, ln.nt)

\* a threaded kernel returned, and returned the serial answer
KernelOK(ln) == ln.exc = "" /\ ln.dq = 0

\* world-rank striding of the operator builders covers each configuration once
StrideOK(ln) == ln.exc = "" /\ ln.dq = 0 /\ StrideExactCover(ln.D, ln.world)

Clauses(ln) ==
  CASE ln.ev = "partition" -> << <<"ExactCover", PartitionOK(ln)>>, <<"NOTE:ModelDrift", ModelAgrees(ln)>> >>
    [] ln.ev = "ranges"    -> << <<"RangesTile", RangesTile(ln)>> >>
    [] ln.ev = "kernel"    -> << <<"KernelEqualsSerial", KernelOK(ln)>> >>
    [] ln.ev = "reduce"    -> << <<"ReduceEqualsSerial", KernelOK(ln)>> >>
    [] ln.ev = "builder"   -> << <<"BuilderEqualsSerial", StrideOK(ln)>> >>
    \* quimb.gen.operators Hamiltonians assembled from terms in worker threads (pool.map + par_reduce)
    [] ln.ev = "genbuilder" -> << <<"GenBuilderEqualsSerial", KernelOK(ln)>> >>
    [] OTHER               -> << <<"UnknownEvent", FALSE>> >>

TInit == l = 1 /\ fails = <<>>
TNext == /\ l <= NLines
         /\ l' = l + 1
         /\ fails' = AddFails(fails, l, Clauses(TraceLog[l]))
TSpec == TInit /\ [][TNext]_tvars

Done == l = NLines + 1 => WriteVerdict(l - 1, fails)
=============================================================================
