---- MODULE MC_C20_TTrace_1790384957 ----
EXTENDS Sequences, TLCExt, Toolbox, MC_C20, Naturals, TLC

_expression ==
    LET MC_C20_TEExpression == INSTANCE MC_C20_TEExpression
    IN MC_C20_TEExpression!expression
----

_trace ==
    LET MC_C20_TETrace == INSTANCE MC_C20_TETrace
    IN MC_C20_TETrace!trace
----

_inv ==
    ~(
        TLCGet("level") = Len(_TETrace)
        /\
        hist = (<<<<"H", 2>>, <<"CX", 2, 1>>>>)
        /\
        grp = ({[s |-> 0, l |-> <<0, 0, 0, 0>>], [s |-> 0, l |-> <<0, 0, 0, 3>>], [s |-> 0, l |-> <<0, 0, 3, 0>>], [s |-> 0, l |-> <<0, 0, 3, 3>>], [s |-> 0, l |-> <<1, 1, 0, 0>>], [s |-> 0, l |-> <<1, 1, 0, 3>>], [s |-> 0, l |-> <<1, 1, 3, 0>>], [s |-> 0, l |-> <<1, 1, 3, 3>>], [s |-> 0, l |-> <<3, 3, 0, 0>>], [s |-> 0, l |-> <<3, 3, 0, 3>>], [s |-> 0, l |-> <<3, 3, 3, 0>>], [s |-> 0, l |-> <<3, 3, 3, 3>>], [s |-> 1, l |-> <<2, 2, 0, 0>>], [s |-> 1, l |-> <<2, 2, 0, 3>>], [s |-> 1, l |-> <<2, 2, 3, 0>>], [s |-> 1, l |-> <<2, 2, 3, 3>>]})
        /\
        qry = ([m |-> "none"])
    )
----

_init ==
    /\ qry = _TETrace[1].qry
    /\ hist = _TETrace[1].hist
    /\ grp = _TETrace[1].grp
----

_next ==
    /\ \E i,j \in DOMAIN _TETrace:
        /\ \/ /\ j = i + 1
              /\ i = TLCGet("level")
        /\ qry  = _TETrace[i].qry
        /\ qry' = _TETrace[j].qry
        /\ hist  = _TETrace[i].hist
        /\ hist' = _TETrace[j].hist
        /\ grp  = _TETrace[i].grp
        /\ grp' = _TETrace[j].grp

\* Uncomment the ASSUME below to write the states of the error trace
\* to the given file in Json format. Note that you can pass any tuple
\* to `JsonSerialize`. For example, a sub-sequence of _TETrace.
    \* ASSUME
    \*     LET J == INSTANCE Json
    \*         IN J!JsonSerialize("MC_C20_TTrace_1790384957.json", _TETrace)

=============================================================================

 Note that you can extract this module `MC_C20_TEExpression`
  to a dedicated file to reuse `expression` (the module in the 
  dedicated `MC_C20_TEExpression.tla` file takes precedence 
  over the module `MC_C20_TEExpression` below).

---- MODULE MC_C20_TEExpression ----
EXTENDS Sequences, TLCExt, Toolbox, MC_C20, Naturals, TLC

expression == 
    [
        \* To hide variables of the `MC_C20` spec from the error trace,
        \* remove the variables below.  The trace will be written in the order
        \* of the fields of this record.
        qry |-> qry
        ,hist |-> hist
        ,grp |-> grp
        
        \* Put additional constant-, state-, and action-level expressions here:
        \* ,_stateNumber |-> _TEPosition
        \* ,_qryUnchanged |-> qry = qry'
        
        \* Format the `qry` variable as Json value.
        \* ,_qryJson |->
        \*     LET J == INSTANCE Json
        \*     IN J!ToJson(qry)
        
        \* Lastly, you may build expressions over arbitrary sets of states by
        \* leveraging the _TETrace operator.  For example, this is how to
        \* count the number of times a spec variable changed up to the current
        \* state in the trace.
        \* ,_qryModCount |->
        \*     LET F[s \in DOMAIN _TETrace] ==
        \*         IF s = 1 THEN 0
        \*         ELSE IF _TETrace[s].qry # _TETrace[s-1].qry
        \*             THEN 1 + F[s-1] ELSE F[s-1]
        \*     IN F[_TEPosition - 1]
    ]

=============================================================================



Parsing and semantic processing can take forever if the trace below is long.
 In this case, it is advised to uncomment the module below to deserialize the
 trace from a generated binary file.

\*
\*---- MODULE MC_C20_TETrace ----
\*EXTENDS IOUtils, MC_C20, TLC
\*
\*trace == IODeserialize("MC_C20_TTrace_1790384957.bin", TRUE)
\*
\*=============================================================================
\*

---- MODULE MC_C20_TETrace ----
EXTENDS MC_C20, TLC

trace == 
    <<
    ([hist |-> <<>>,grp |-> {[s |-> 0, l |-> <<0, 0, 0, 0>>], [s |-> 0, l |-> <<0, 0, 0, 3>>], [s |-> 0, l |-> <<0, 0, 3, 0>>], [s |-> 0, l |-> <<0, 0, 3, 3>>], [s |-> 0, l |-> <<0, 3, 0, 0>>], [s |-> 0, l |-> <<0, 3, 0, 3>>], [s |-> 0, l |-> <<0, 3, 3, 0>>], [s |-> 0, l |-> <<0, 3, 3, 3>>], [s |-> 0, l |-> <<3, 0, 0, 0>>], [s |-> 0, l |-> <<3, 0, 0, 3>>], [s |-> 0, l |-> <<3, 0, 3, 0>>], [s |-> 0, l |-> <<3, 0, 3, 3>>], [s |-> 0, l |-> <<3, 3, 0, 0>>], [s |-> 0, l |-> <<3, 3, 0, 3>>], [s |-> 0, l |-> <<3, 3, 3, 0>>], [s |-> 0, l |-> <<3, 3, 3, 3>>]},qry |-> [m |-> "none"]]),
    ([hist |-> <<<<"H", 2>>>>,grp |-> {[s |-> 0, l |-> <<0, 0, 0, 0>>], [s |-> 0, l |-> <<0, 0, 0, 3>>], [s |-> 0, l |-> <<0, 0, 3, 0>>], [s |-> 0, l |-> <<0, 0, 3, 3>>], [s |-> 0, l |-> <<0, 1, 0, 0>>], [s |-> 0, l |-> <<0, 1, 0, 3>>], [s |-> 0, l |-> <<0, 1, 3, 0>>], [s |-> 0, l |-> <<0, 1, 3, 3>>], [s |-> 0, l |-> <<3, 0, 0, 0>>], [s |-> 0, l |-> <<3, 0, 0, 3>>], [s |-> 0, l |-> <<3, 0, 3, 0>>], [s |-> 0, l |-> <<3, 0, 3, 3>>], [s |-> 0, l |-> <<3, 1, 0, 0>>], [s |-> 0, l |-> <<3, 1, 0, 3>>], [s |-> 0, l |-> <<3, 1, 3, 0>>], [s |-> 0, l |-> <<3, 1, 3, 3>>]},qry |-> [m |-> "none"]]),
    ([hist |-> <<<<"H", 2>>, <<"CX", 2, 1>>>>,grp |-> {[s |-> 0, l |-> <<0, 0, 0, 0>>], [s |-> 0, l |-> <<0, 0, 0, 3>>], [s |-> 0, l |-> <<0, 0, 3, 0>>], [s |-> 0, l |-> <<0, 0, 3, 3>>], [s |-> 0, l |-> <<1, 1, 0, 0>>], [s |-> 0, l |-> <<1, 1, 0, 3>>], [s |-> 0, l |-> <<1, 1, 3, 0>>], [s |-> 0, l |-> <<1, 1, 3, 3>>], [s |-> 0, l |-> <<3, 3, 0, 0>>], [s |-> 0, l |-> <<3, 3, 0, 3>>], [s |-> 0, l |-> <<3, 3, 3, 0>>], [s |-> 0, l |-> <<3, 3, 3, 3>>], [s |-> 1, l |-> <<2, 2, 0, 0>>], [s |-> 1, l |-> <<2, 2, 0, 3>>], [s |-> 1, l |-> <<2, 2, 3, 0>>], [s |-> 1, l |-> <<2, 2, 3, 3>>]},qry |-> [m |-> "none"]])
    >>
----


=============================================================================

---- CONFIG MC_C20_TTrace_1790384957 ----
CONSTANTS
    N = 4
    WithQueries = FALSE
    WithMixed = FALSE
    HeavyLaws = FALSE
    SlimGates = TRUE
    Mutant <- MutNewSysA

INVARIANT
    _inv

CHECK_DEADLOCK
    \* CHECK_DEADLOCK off because of PROPERTY or INVARIANT above.
    FALSE

INIT
    _init

NEXT
    _next

CONSTANT
    _TETrace <- _trace

ALIAS
    _expression
=============================================================================
\* Generated on Sat Sep 26 01:09:19 UTC 2026