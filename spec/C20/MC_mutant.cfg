SPECIFICATION Spec
CONSTANTS
  N = 4
  WithQueries = FALSE
  WithMixed = FALSE
  HeavyLaws = FALSE
  SlimGates = TRUE
  Mutant <- MutNewSysA
VIEW View
INVARIANT ImplRoutes4
CHECK_DEADLOCK FALSE
