SPECIFICATION Spec
CONSTANTS
  N = 4
  WithQueries = FALSE
  WithMixed = FALSE
  HeavyLaws = FALSE
  Mutant <- MutNewSysA
VIEW View
INVARIANT ImplRoutes
CHECK_DEADLOCK FALSE
