SPECIFICATION Spec
CONSTANTS
  N = 4
  WithQueries = FALSE
  WithMixed = FALSE
  HeavyLaws = FALSE
  Mutant <- NoMutant
VIEW View
INVARIANT ImplRoutes
INVARIANT PureIdentities
CHECK_DEADLOCK FALSE
