SPECIFICATION Spec
CONSTANTS
  N = 3
  WithQueries = FALSE
  WithMixed = TRUE
  HeavyLaws = FALSE
  SlimGates = FALSE
  Mutant <- NoMutant
VIEW View
INVARIANT Emit
CHECK_DEADLOCK FALSE
