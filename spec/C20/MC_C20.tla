------------------------------ MODULE MC_C20 ------------------------------
EXTENDS C20_Measures, Json

NoMutant == ""
MutNewSysA == "newsysa"

\* S -> C: one line per distinct state with a circuit that prepares it (used as an always-true invariant)
Emit == PrintT(<<"QVJSON", ToJson([n |-> N, rank |-> Rank(grp), circ |-> hist])>>)
=============================================================================
