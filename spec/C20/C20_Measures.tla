--------------------------- MODULE C20_Measures ---------------------------
(***************************************************************************)
(* State machine for C20.  The state is the stabilizer group of a register *)
(* of N qubits (pure stabilizer states and stabilizer mixtures).  Actions  *)
(* are the operations under which the property quantifies (local and       *)
(* entangling Cliffords, subsystem relabelling, Pauli measurement, Pauli   *)
(* and reset channels) and the measure queries.                            *)
(*                                                                         *)
(* Property level (checked on every reachable state): the reference        *)
(* measures of C20_Defs obey the identities the property names -           *)
(* invariance under local Cliffords, covariance under relabelling,         *)
(* symmetry, bounds, sub-additivity, pure-state identities, fidelity and   *)
(* trace-distance laws, measurement and channel laws.                      *)
(*                                                                         *)
(* Implementation-shaped part: the index arithmetic of the shortcut code   *)
(* paths of quimb/calc.py at the pinned commit (swap to the smaller        *)
(* subsystem, pure defaults, re-indexing after the partial trace in        *)
(* logneg_subsys / concurrence) transcribed as Impl* operators; every      *)
(* query action records <<reference, shortcut route>> and the invariant    *)
(* ImplMatchesRef demands they agree for every state and subsystem choice. *)
(***************************************************************************)
EXTENDS C20_Defs

CONSTANTS N,            \* number of qubits
          WithQueries,  \* query actions enabled (they multiply the state count)
          WithMixed,    \* measurement / dephasing / reset actions enabled (stabilizer mixtures)
          HeavyLaws,    \* evaluate the quantified laws (SSA, relabelling over all permutations)
          SlimGates,    \* only H, S and CX with control < target move the register (same reachable states,
                        \* CX(t,c) = (H x H) CX(c,t) (H x H); fewer transitions)
          Mutant        \* "" or the name of a deliberately wrong shortcut route (model self-test)

VARIABLES grp,   \* the stabilizer group
          hist,  \* a circuit that prepares grp from |0..0> (hidden by the VIEW)
          qry    \* the last query: [m, A, B, ref, impl] or NoQuery

vars == <<grp, hist, qry>>
View == <<grp, qry>>

Q        == 1..N
NoQuery  == [m |-> "none"]
Subsets  == SUBSET Q
Proper   == {A \in Subsets : A # {} /\ A # Q}
DisjPairs == {<<A, B>> \in Subsets \X Subsets : A # {} /\ B # {} /\ A \cap B = {}}
Perms    == {p \in [Q -> Q] : \A i, j \in Q : i # j => p[i] # p[j]}
Image(perm, A) == {i \in Q : perm[i] \in A}     \* new positions of the old qubits in A

(* ------------- implementation-shaped shortcut routes ---------------- *)
Compl(A) == Q \ A

\* gen_bipartite_spectral_fn(entropy, ..., 0.0): pure default, swap to the smaller side, ptr + entropy
ImplEntropySubsys(G, A) ==
  IF Cardinality(Compl(A)) = 0 THEN 0
  ELSE IF Cardinality(Compl(A)) < Cardinality(A) THEN Ent(G, Compl(A))
  ELSE Ent(G, A)

\* mutinf: ket -> 2 * entropy_subsys ; operator -> H(A) + H(B) - H(AB), B the complement
ImplMutinfKet(G, A) == 2 * ImplEntropySubsys(G, A)
ImplMutinfDop(G, A) == Ent(G, A) + Ent(G, Compl(A)) - Ent(G, Q)

\* mutinf_subsys: bipartition -> 2 * entropy_subsys(A), else three subsystem entropies
ImplMutinfSubsys(G, A, B) ==
  IF Compl(A \cup B) = {} THEN 2 * ImplEntropySubsys(G, A)
  ELSE ImplEntropySubsys(G, B) + ImplEntropySubsys(G, A) - ImplEntropySubsys(G, A \cup B)

\* partial_transpose_norm on a ket: (Tr sqrt rho_smaller)^2, its log2 on a flat spectrum is the entropy
ImplLognegKet(G, A) ==
  IF Cardinality(Compl(A)) < Cardinality(A) THEN Ent(G, Compl(A)) ELSE Ent(G, A)

\* positions after the partial trace: rank of the qubit among the kept ones
RankIn(x, keep) == Cardinality({y \in keep : y < x}) + 1
RECURSIVE SortedSeq(_)
SortedSeq(S) == IF S = {} THEN <<>> ELSE LET m == CHOOSE x \in S : \A y \in S : x <= y IN <<m>> \o SortedSeq(S \ {m})
Compress(G, keep) ==
  LET ks == SortedSeq(keep) IN
  {[s |-> p.s, l |-> [i \in 1..Len(ks) |-> p.l[ks[i]]]] : p \in Sub(G, keep)}

\* the re-indexing loop of logneg_subsys (a deliberately wrong variant is kept for the self-test)
NewSysA(A, B) ==
  IF Mutant = "newsysa" THEN {Cardinality({y \in A : y < x}) + 1 : x \in A}    \* forgets to skip sysb
  ELSE {RankIn(x, A \cup B) : x \in A}

\* logneg_subsys: bipartition -> tr_sqrt_subsys ** 2 ; else ptr to A u B, re-index, logneg
ImplLognegSubsys(G, A, B) ==
  IF Compl(A \cup B) = {} THEN ImplLognegKet(G, A)
  ELSE LET keep == A \cup B
           Gk   == Compress(G, keep)
           nA   == NewSysA(A, B)
       IN  LogNeg(Gk, nA, (1..Cardinality(keep)) \ nA)

\* concurrence / quantum_discord: ptr to the two sites (sorted), then the two-qubit quantity
ImplTwoQubit(G, a, b) ==
  IF N > 2 THEN LogNeg(Compress(G, {a, b}), {1}, {2}) ELSE LogNeg(G, {1}, {2})

\* schmidt_gap: pure default, swap to the smaller side, two largest eigenvalues of a flat spectrum
ImplSchmidtGap(G, A) ==
  IF Compl(A) = {} THEN 1
  ELSE LET X == IF Cardinality(Compl(A)) < Cardinality(A) THEN Compl(A) ELSE A
       IN  IF Ent(G, X) = 0 THEN 1 ELSE 0

(* ------------- actions --------------------------------------------- *)
Init ==
  /\ grp = InitGroup(N, N)
  /\ hist = <<>>
  /\ qry = NoQuery

Step(G, h) == qry = NoQuery /\ grp' = G /\ hist' = Append(hist, h) /\ qry' = NoQuery

ActH  == \E q \in Q : qry = NoQuery /\ Step(ApplyGate(grp, "H", <<q>>), <<"H", q>>)
ActS  == \E q \in Q : qry = NoQuery /\ Step(ApplyGate(grp, "S", <<q>>), <<"S", q>>)
ActCX == \E c, t \in Q : c # t /\ (SlimGates => c < t) /\ Step(ApplyGate(grp, "CX", <<c, t>>), <<"CX", c, t>>)
ActCZ == ~SlimGates /\ \E c, t \in Q : c < t /\ Step(ApplyGate(grp, "CZ", <<c, t>>), <<"CZ", c, t>>)
Transpositions == {x \in Perms : \E i \in Q : x[i] # i /\ x[x[i]] = i /\ \A j \in Q \ {i, x[i]} : x[j] = j}
RelabelSet == IF HeavyLaws THEN Perms ELSE Transpositions
ActRelabel == ~SlimGates /\ \E p \in RelabelSet : qry = NoQuery /\ Step(Relabel(grp, p), <<"PERM">> \o [i \in Q |-> p[i]])
ActMeasure ==
  /\ WithMixed
  /\ \E q \in Q, m \in 0..1 :
       LET P == [s |-> m, l |-> OneL(N, q, 3)] IN
       /\ MeasProb2(grp, P) > 0
       /\ Step(PostMeas(grp, P), <<"MZ", q, m>>)
ActDephase == WithMixed /\ \E q \in Q : Step(Dephase(grp, ZOn(N, q)), <<"DZ", q>>)
ActReset   == WithMixed /\ \E q \in Q : Step(ResetQ(grp, N, q), <<"RESET", q>>)

Ask(m, A, B, ref, impl) ==
  /\ WithQueries /\ qry = NoQuery
  /\ qry' = [m |-> m, A |-> A, B |-> B, ref |-> ref, impl |-> impl]
  /\ UNCHANGED <<grp, hist>>

QEntropySubsys == IsPure(grp, N) /\ \E A \in Subsets \ {{}} :
                    Ask("entropy_subsys", A, {}, Ent(grp, A), ImplEntropySubsys(grp, A))
QMutinf        == WithQueries /\ \E A \in Proper :
                    Ask("mutinf", A, Compl(A), MutInf(grp, A, Compl(A)),
                        IF IsPure(grp, N) THEN ImplMutinfKet(grp, A) ELSE ImplMutinfDop(grp, A))
QMutinfSubsys  == IsPure(grp, N) /\ \E ab \in DisjPairs :
                    Ask("mutinf_subsys", ab[1], ab[2], MutInf(grp, ab[1], ab[2]), ImplMutinfSubsys(grp, ab[1], ab[2]))
QLogneg        == IsPure(grp, N) /\ \E A \in Proper :
                    Ask("logneg", A, Compl(A), LogNeg(grp, A, Compl(A)), ImplLognegKet(grp, A))
QLognegSubsys  == IsPure(grp, N) /\ \E ab \in DisjPairs :
                    Ask("logneg_subsys", ab[1], ab[2], LogNeg(grp, ab[1], ab[2]), ImplLognegSubsys(grp, ab[1], ab[2]))
QTwoQubit      == N >= 2 /\ \E a, b \in Q : a # b /\
                    Ask("concurrence", {a}, {b}, LogNeg(grp, {a}, {b}), ImplTwoQubit(grp, a, b))
QSchmidtGap    == IsPure(grp, N) /\ \E A \in Subsets \ {{}} :
                    Ask("schmidt_gap", A, {}, SchmidtGap(grp, A), ImplSchmidtGap(grp, A))

Next == \/ ActH \/ ActS \/ ActCX \/ ActCZ \/ ActRelabel
        \/ ActMeasure \/ ActDephase \/ ActReset
        \/ QEntropySubsys \/ QMutinf \/ QMutinfSubsys \/ QLogneg \/ QLognegSubsys \/ QTwoQubit \/ QSchmidtGap

Spec == Init /\ [][Next]_vars

(* ------------- invariants ------------------------------------------ *)
\* the model itself stays inside the domain of the reference definitions
GroupInv == qry = NoQuery => GroupOK(grp, N)

\* shortcut routes of the implementation give the reference value
ImplMatchesRef == qry.m # "none" => qry.impl = qry.ref

\* bounds: 0 <= S(A) <= |A|, S of everything = N - rank, I >= 0, 0 <= E_N <= min(|A|, |B|), E_N <= I/2
L_Bounds ==
  /\ \A A \in Subsets : 0 <= Ent(grp, A) /\ Ent(grp, A) <= Cardinality(A)
  /\ Ent(grp, {}) = 0 /\ Ent(grp, Q) = N - Rank(grp)
  /\ \A ab \in DisjPairs :
        /\ MutInf(grp, ab[1], ab[2]) >= 0
        /\ MutInf(grp, ab[1], ab[2]) <= 2 * Min2(Cardinality(ab[1]), Cardinality(ab[2]))
        /\ LogNeg(grp, ab[1], ab[2]) >= 0
        /\ LogNeg(grp, ab[1], ab[2]) <= Min2(Cardinality(ab[1]), Cardinality(ab[2]))
        /\ 2 * LogNeg(grp, ab[1], ab[2]) <= MutInf(grp, ab[1], ab[2])

\* symmetry of the two-party quantities (the formula for E_N is not symmetric in form)
L_Symmetry ==
  \A ab \in DisjPairs : /\ LogNeg(grp, ab[1], ab[2]) = LogNeg(grp, ab[2], ab[1])
                        /\ MutInf(grp, ab[1], ab[2]) = MutInf(grp, ab[2], ab[1])

\* sub-additivity, Araki-Lieb, and (HeavyLaws) strong sub-additivity
L_SubAdditivity ==
  /\ \A ab \in DisjPairs :
        /\ Ent(grp, ab[1] \cup ab[2]) <= Ent(grp, ab[1]) + Ent(grp, ab[2])
        /\ Abs(Ent(grp, ab[1]) - Ent(grp, ab[2])) <= Ent(grp, ab[1] \cup ab[2])
  /\ HeavyLaws =>
       \A A, B, C \in Subsets : (A \cap B = {} /\ A \cap C = {} /\ B \cap C = {}) =>
           Ent(grp, A \cup B \cup C) + Ent(grp, B) <= Ent(grp, A \cup B) + Ent(grp, B \cup C)

\* pure-state identities: S(A) = S(B), I = 2S, E_N = S (flat Schmidt spectrum), separable <=> S = 0
L_PureIdentities ==
  IsPure(grp, N) =>
    \A A \in Proper :
       /\ Ent(grp, A) = Ent(grp, Compl(A))
       /\ MutInf(grp, A, Compl(A)) = 2 * Ent(grp, A)
       /\ LogNeg(grp, A, Compl(A)) = Ent(grp, A)
       /\ (SchmidtGap(grp, A) = 1) <=> (LogNeg(grp, A, Compl(A)) = 0)

\* the measures of a state, as one value that local unitaries must not change
Measures(G) ==
  [ab \in DisjPairs |-> <<Ent(G, ab[1]), MutInf(G, ab[1], ab[2]), LogNeg(G, ab[1], ab[2])>>]

\* invariance under local Cliffords, and under entangling gates that act inside one party
L_LocalInvariance ==
  /\ \A q \in Q : /\ Measures(ApplyGate(grp, "H", <<q>>)) = Measures(grp)
                  /\ Measures(ApplyGate(grp, "S", <<q>>)) = Measures(grp)
  /\ \A c, t \in Q : c # t =>
       LET G2 == ApplyGate(grp, "CX", <<c, t>>) IN
       \A ab \in DisjPairs :
          (({c, t} \subseteq ab[1]) \/ ({c, t} \subseteq ab[2]) \/ ({c, t} \cap (ab[1] \cup ab[2]) = {})) =>
             /\ Ent(G2, ab[1]) = Ent(grp, ab[1])
             /\ MutInf(G2, ab[1], ab[2]) = MutInf(grp, ab[1], ab[2])
             /\ LogNeg(G2, ab[1], ab[2]) = LogNeg(grp, ab[1], ab[2])

\* covariance under relabelling of the subsystems
L_RelabelCovariance ==
  \A p \in RelabelSet :
    LET G2 == Relabel(grp, p) IN
    \A ab \in DisjPairs :
       /\ Ent(G2, Image(p, ab[1])) = Ent(grp, ab[1])
       /\ MutInf(G2, Image(p, ab[1]), Image(p, ab[2])) = MutInf(grp, ab[1], ab[2])
       /\ LogNeg(G2, Image(p, ab[1]), Image(p, ab[2])) = LogNeg(grp, ab[1], ab[2])

\* partial transposition: a sign pattern on the Pauli vector; transposing everything keeps the spectrum,
\* transposing A or its complement differ by a full transposition
Bell12 == ApplyGate(ApplyGate(InitGroup(N, N), "H", <<1>>), "CX", <<1, 2>>)
Refs   == {InitGroup(N, k) : k \in 0..N} \cup (IF N >= 2 THEN {Bell12, ApplyGate(Bell12, "S", <<1>>)} ELSE {})

RatEq(a, b)  == a[1] * b[2] = b[1] * a[2]
RatLeq(a, b) == a[1] * b[2] <= b[1] * a[2]

\* fidelity: symmetric, in [0, 1], 1 iff equal, invariant under a common unitary
L_FidelityLaws ==
  \A T \in Refs :
    LET f == FidSq(grp, T) IN
    /\ RatEq(f, FidSq(T, grp))
    /\ 0 <= f[1] /\ f[1] <= f[2] /\ f[2] > 0
    /\ (f[1] = f[2]) <=> (grp = T)
    /\ \A q \in Q : /\ RatEq(FidSq(ApplyGate(grp, "H", <<q>>), ApplyGate(T, "H", <<q>>)), f)
                    /\ RatEq(FidSq(ApplyGate(grp, "S", <<q>>), ApplyGate(T, "S", <<q>>)), f)
    /\ N >= 2 => RatEq(FidSq(ApplyGate(grp, "CX", <<2, 1>>), ApplyGate(T, "CX", <<2, 1>>)), f)
    \* pure-pure: |<a|b>|^2 = |S cap T| / 2^N
    /\ (IsPure(grp, N) /\ IsPure(T, N) /\ ~Clash(grp, T)) => RatEq(f, <<Cardinality(grp \cap T), 2^N>>)

\* trace distance on simultaneously diagonal pairs: symmetric, 0 iff equal, Fuchs - van de Graaf
L_TraceDistanceLaws ==
  \A T \in Refs : AllCommute(grp, T) =>
    LET d == TraceDistCommuting(grp, T)
        f == FidSq(grp, T) IN
    /\ RatEq(d, TraceDistCommuting(T, grp))
    /\ 0 <= d[1] /\ d[1] <= d[2]
    /\ (d[1] = 0) <=> (grp = T)
    \* T^2 <= 1 - F^2   and   (1 - T)^2 <= F^2
    /\ d[1] * d[1] * f[2] <= (f[2] - f[1]) * d[2] * d[2]
    /\ (d[2] - d[1]) * (d[2] - d[1]) * f[2] <= f[1] * d[2] * d[2]

TestPaulis == {[s |-> 0, l |-> OneL(N, q, a)] : q \in Q, a \in {1, 3}}
                 \cup (IF N >= 2 THEN {[s |-> 0, l |-> [i \in Q |-> IF i <= 2 THEN 3 ELSE 0]],
                                       [s |-> 0, l |-> [i \in Q |-> IF i <= 2 THEN 2 ELSE 0]]} ELSE {})

\* measurement: probabilities add up, the post-measurement state is a state, it contains the outcome,
\* repeating the measurement repeats the outcome, a certain outcome does not disturb
L_MeasurementLaws ==
  \A P0 \in TestPaulis :
    /\ MeasProb2(grp, P0) + MeasProb2(grp, Neg(P0)) = 2
    /\ \A P \in {P0, Neg(P0)} : MeasProb2(grp, P) > 0 =>
         LET G2 == PostMeas(grp, P) IN
         /\ GroupOK(G2, N) /\ P \in G2
         /\ MeasProb2(G2, P) = 2
         /\ Cardinality(G2) \in {Cardinality(grp), 2 * Cardinality(grp)}
         /\ (MeasProb2(grp, P) = 2) => G2 = grp

\* channels: outputs are states; a unital channel does not lower the entropy; reset leaves a pure qubit
L_ChannelLaws ==
  \A q \in Q :
    /\ GroupOK(Dephase(grp, ZOn(N, q)), N)
    /\ Ent(Dephase(grp, ZOn(N, q)), Q) >= Ent(grp, Q)
    /\ GroupOK(ResetQ(grp, N, q), N)
    /\ Ent(ResetQ(grp, N, q), {q}) = 0
    /\ Ent(ResetQ(grp, N, q), Q \ {q}) = Ent(grp, Q \ {q})

\* the Pauli vector determines the state: it has |G| non-zero entries and partial transposition on
\* everything only flips signs
L_PauliVectorLaws ==
  LET pv == PVec(grp, N) IN
  /\ Cardinality({k \in 1..(4^N) : pv[k] # 0}) = Cardinality(grp)
  /\ pv[1] = 1
  /\ \A A \in Subsets : \A k \in 1..(4^N) : Abs(PVecPT(grp, N, A)[k]) = Abs(pv[k])

\* the shortcut routes agree with the reference for every subsystem choice (same content as the query
\* actions, as a state invariant: used where the query states would be too many)
L_ImplRoutes ==
  /\ N >= 2 => \A a, b \in Q : a # b => ImplTwoQubit(grp, a, b) = LogNeg(grp, {a}, {b})
  /\ \A A \in Proper : ImplMutinfDop(grp, A) = MutInf(grp, A, Compl(A))
  /\ IsPure(grp, N) =>
       /\ \A A \in Subsets \ {{}} : /\ ImplEntropySubsys(grp, A) = Ent(grp, A)
                                    /\ ImplSchmidtGap(grp, A) = SchmidtGap(grp, A)
       /\ \A A \in Proper : /\ ImplMutinfKet(grp, A) = MutInf(grp, A, Compl(A))
                            /\ ImplLognegKet(grp, A) = LogNeg(grp, A, Compl(A))
       /\ \A ab \in DisjPairs : /\ ImplMutinfSubsys(grp, ab[1], ab[2]) = MutInf(grp, ab[1], ab[2])
                                /\ ImplLognegSubsys(grp, ab[1], ab[2]) = LogNeg(grp, ab[1], ab[2])

\* the part of ImplRoutes that three qubits cannot exercise: re-indexing with three kept subsystems
L_ImplRoutes4 ==
  IsPure(grp, N) =>
    \A ab \in DisjPairs : (Cardinality(ab[1] \cup ab[2]) = N - 1) =>
        /\ ImplLognegSubsys(grp, ab[1], ab[2]) = LogNeg(grp, ab[1], ab[2])
        /\ ImplMutinfSubsys(grp, ab[1], ab[2]) = MutInf(grp, ab[1], ab[2])

(* the laws are evaluated once per register state (not again on the query states) *)
AtState == qry = NoQuery
Bounds == AtState => L_Bounds
Symmetry == AtState => L_Symmetry
SubAdditivity == AtState => L_SubAdditivity
PureIdentities == AtState => L_PureIdentities
LocalInvariance == AtState => L_LocalInvariance
RelabelCovariance == AtState => L_RelabelCovariance
FidelityLaws == AtState => L_FidelityLaws
TraceDistanceLaws == AtState => L_TraceDistanceLaws
MeasurementLaws == AtState => L_MeasurementLaws
ChannelLaws == AtState => L_ChannelLaws
PauliVectorLaws == AtState => L_PauliVectorLaws
ImplRoutes == AtState => L_ImplRoutes
ImplRoutes4 == AtState => L_ImplRoutes4
=============================================================================
