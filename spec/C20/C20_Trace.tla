----------------------------- MODULE C20_Trace -----------------------------
(***************************************************************************)
(* Trace spec for C20: judges observations of quimb.calc against the       *)
(* reference definitions of C20_Defs.                                      *)
(*                                                                         *)
(* The trace carries up to two registers of qubits.  "init", "gate",       *)
(* "perm", "meas" and "kraus" lines move a register exactly as the         *)
(* corresponding actions of C20_Measures move the stabilizer group (the    *)
(* driver applies the same operation to a dense state with plain numpy);   *)
(* every other line is an observation of a quimb routine on the current    *)
(* register(s), or a self-contained observation ("shift", "rel", "bound"). *)
(* All fields are integers: values are snapped by the driver with the      *)
(* scale stated next to each clause; "grid" = FALSE means quimb returned a *)
(* value off the lattice, which no clause accepts.                         *)
(***************************************************************************)
EXTENDS C20_Defs, TraceIO

VARIABLES l, fails, reg
tvars == <<l, fails, reg>>

NoReg == [n |-> 0, G |-> {}]

Plus1(s)  == [i \in 1..Len(s) |-> s[i] + 1]
Sparse(ln) == ln.rep \in {"sket", "sdop"}

\* ---------------------------------------------------------------- registers
\* embed the letters L acting on the (0-based, ordered) qubits qs into a full string
Embed(n, qs, L) ==
  [q \in 1..n |-> IF \E i \in 1..Len(qs) : qs[i] + 1 = q
                  THEN L[CHOOSE i \in 1..Len(qs) : qs[i] + 1 = q] ELSE 0]

SignedP(ln, sgn) == [s |-> sgn, l |-> ln.P]
SignOf(out)      == IF out = 1 THEN 0 ELSE 1

\* the sign bit of the outcome that the measurement line reports / was asked for
MeasOutcome(ln) == IF ln.mode = "forced" THEN ln.s ELSE SignOf(ln.out)

KrausTarget(R, ln) ==
  CASE ln.kind = "gate"    -> ApplyGate(R.G, ln.g, Plus1(ln.qs))
    [] ln.kind = "dephase" -> Dephase(R.G, [s |-> 0, l |-> Embed(R.n, ln.qs, ln.L)])
    [] ln.kind = "reset"   -> ResetQ(R.G, R.n, ln.qs[1] + 1)

NextReg(ln) ==
  CASE ln.ev = "init" -> [reg EXCEPT ![ln.reg] = [n |-> ln.n, G |-> InitGroup(ln.n, ln.k)]]
    [] ln.ev = "gate" -> [reg EXCEPT ![ln.reg].G = ApplyGate(@, ln.g, Plus1(ln.q))]
    [] ln.ev = "perm" -> [reg EXCEPT ![ln.reg].G = Relabel(@, Plus1(ln.perm))]
    [] ln.ev = "meas" /\ ln.upd -> [reg EXCEPT ![ln.reg].G = PostMeas(@, SignedP(ln, MeasOutcome(ln)))]
    [] ln.ev = "kraus" /\ ln.upd -> [reg EXCEPT ![ln.reg].G = KrausTarget(reg[ln.reg], ln)]
    [] OTHER -> reg

\* ---------------------------------------------------------------- single-register observations
\* reference value of measure m on register R for the subsystem lists A, B over dims (scales: see driver)
ObsRef(R, ln) ==
  LET G  == R.G
      QA == QSet(ln.dims, ln.A)
      QB == QSet(ln.dims, ln.B)
      QC == (1..R.n) \ QA
  IN
  CASE ln.m \in {"entropy", "entropy_rank", "entropy_subsys"} -> Ent(G, QA)
    [] ln.m = "mutinf"          -> MutInf(G, QA, QC)
    [] ln.m = "mutinf_subsys"   -> MutInf(G, QA, QB)
    [] ln.m = "logneg"          -> LogNeg(G, QA, QC)
    [] ln.m = "negativity"      -> TwiceNeg(G, QA, QC)           \* v = 2 * negativity
    [] ln.m = "logneg_subsys"   -> LogNeg(G, QA, QB)
    [] ln.m = "schmidt_gap"     -> SchmidtGap(G, QA)
    [] ln.m \in {"tr_sqrt", "tr_sqrt_subsys"} -> TrSqrtSq(G, QA)  \* v = value squared
    [] ln.m \in {"concurrence", "quantum_discord"} -> LogNeg(G, QA, QB)

ObsClauseName(m) ==
  CASE m = "entropy" -> "EntropyValue"
    [] m = "entropy_rank" -> "EntropyValue"
    [] m = "entropy_subsys" -> "EntropySubsysValue"
    [] m = "mutinf" -> "MutinfValue"
    [] m = "mutinf_subsys" -> "MutinfSubsysValue"
    [] m = "logneg" -> "LognegValue"
    [] m = "negativity" -> "NegativityValue"
    [] m = "logneg_subsys" -> "LognegSubsysValue"
    [] m = "schmidt_gap" -> "SchmidtGapValue"
    [] m = "tr_sqrt" -> "TrSqrtValue"
    [] m = "tr_sqrt_subsys" -> "TrSqrtSubsysValue"
    [] m = "concurrence" -> "ConcurrenceValue"
    [] m = "quantum_discord" -> "DiscordValue"
    [] OTHER -> "UnknownMeasure"

ObsWellFormed(R, ln) ==
  /\ R.n > 0 /\ DimsOK(ln.dims, R.n) /\ IdxOK(ln.dims, ln.A) /\ IdxOK(ln.dims, ln.B)
  /\ ObsClauseName(ln.m) # "UnknownMeasure"

\* a value observation: dense input must return the reference; a sparse input may be rejected (noted)
ValueClauses(name, ln, holds) ==
  IF ln.exc # "" /\ Sparse(ln)
  THEN << <<"NOTE:SparseRejected", FALSE>> >>
  ELSE << <<"Returns", ln.exc = "">>, <<name, ln.exc # "" \/ (ln.grid /\ holds)>> >>

\* no exact reference on this input: the call must return (sparse inputs may be rejected)
ReturnsOnly(ln) ==
  IF ln.exc # "" /\ Sparse(ln) THEN << <<"NOTE:SparseRejected", FALSE>> >> ELSE << <<"Returns", ln.exc = "">> >>

ObsClauses(ln) ==
  LET R == reg[ln.reg] IN
  IF ~ObsWellFormed(R, ln) THEN << <<"MalformedRecord", FALSE>> >>
  ELSE ValueClauses(ObsClauseName(ln.m), ln, ln.v = ObsRef(R, ln))

\* Pauli vectors (Tr(P X) for all Pauli strings P, base-4 order) of matrices returned by quimb
PVecRef(R, ln) ==
  CASE ln.m = "pauli_decomp"      -> PVec(R.G, R.n)                    \* coefficient * 2^n
    [] ln.m = "purify"            -> PVec(R.G, R.n)                    \* of the reduced purification
    [] ln.m = "partial_transpose" -> PVecPT(R.G, R.n, QSet(ln.dims, ln.A))
    [] ln.m = "dephase"           -> LET pv == PVec(R.G, R.n) IN
                                     [k \in 1..(4^R.n) |-> 3 * pv[k] + (IF k = 1 THEN 1 ELSE 0)]     \* p = 1/4, * 4

PVecName(m) ==
  CASE m = "pauli_decomp" -> "PauliDecompValue"
    [] m = "purify" -> "PurifyRoundTrip"
    [] m = "partial_transpose" -> "PartialTransposeValue"
    [] m = "dephase" -> "DephaseValue"
    [] OTHER -> "UnknownMeasure"

PVecClauses(ln) ==
  LET R == reg[ln.reg] IN
  IF PVecName(ln.m) = "UnknownMeasure" \/ R.n = 0 THEN << <<"MalformedRecord", FALSE>> >>
  ELSE ValueClauses(PVecName(ln.m), ln,
          /\ ln.aux = 1
          /\ \/ ln.pv = PVecRef(R, ln)
             \/ (ln.m = "purify" /\ ln.pv2 = PVecRef(R, ln)))   \* either factor may carry the state

\* measurement of a Pauli observable: admissible outcome, returned eigenvalue, collapsed state
MeasClauses(ln) ==
  LET R  == reg[ln.reg]
      P  == SignedP(ln, MeasOutcome(ln))
  IN
  IF ln.exc # "" THEN ValueClauses("MeasureCollapse", ln, FALSE)
  ELSE IF ln.mode = "forced" /\ MeasProb2(R.G, P) = 0 THEN << >>      \* impossible outcome demanded: nothing to judge
  ELSE ValueClauses("MeasureCollapse", ln,
         /\ ln.out \in {1, -1}
         /\ MeasProb2(R.G, P) > 0                                   \* free mode: outcome has probability > 0
         /\ (ln.mode = "forced" => ln.out = (IF ln.s = 0 THEN 1 ELSE -1))
         /\ ln.pv = PVec(PostMeas(R.G, P), R.n))

KrausClauses(ln) ==
  LET R == reg[ln.reg] IN
  ValueClauses("KrausMap", ln, ln.pv = PVec(KrausTarget(R, ln), R.n))

CountsClauses(ln) ==
  LET R == reg[ln.reg] IN
  IF ln.exc # "" /\ ln.negdiag THEN << <<"NOTE:InputRoundingRejected", FALSE>> >>
  ELSE ValueClauses("CountsSupport", ln,
     /\ ln.tot = ln.C
     /\ \A i \in 1..Len(ln.keys) : Len(ln.keys[i]) = R.n /\ BitOK(R.G, ln.keys[i]))

CorrClauses(ln) ==
  LET R == reg[ln.reg] IN
  ValueClauses("CorrelationValue", ln, ln.v = Corr(R.G, R.n, ln.i + 1, ln.a, ln.j + 1, ln.b))

\* ent_cross_matrix with logneg: entries (times the block size) for blocks of blk qubits
EcmRef(R, blk, I, J) ==
  LET BI == ((I - 1) * blk + 1)..(I * blk)
      BJ == ((J - 1) * blk + 1)..(J * blk)
  IN  IF I = J THEN Ent(R.G, BI) ELSE LogNeg(R.G, BI, BJ)

EcmClauses(ln) ==
  LET R  == reg[ln.reg]
      nb == R.n \div ln.blk
  IN  ValueClauses("EntCrossMatrixValue", ln,
        /\ Len(ln.v) = nb
        /\ \A I \in 1..nb : Len(ln.v[I]) = nb /\ \A J \in 1..nb : ln.v[I][J] = EcmRef(R, ln.blk, I, J))

\* one-way classical information J of a two-qubit register for a POVM on the second qubit (definition:
\* p_k = Tr[(1 x M_k) rho], rho_A|k = Tr_B[(1 x M_k) rho]/p_k, J = S(A) - SUM p_k S(rho_A|k)):
\*   no correlations (I(A:B) = 0)          -> J = 0 for every POVM;
\*   Bell-like pair and rank-one elements  -> every conditional state is pure, J = S(A) = 1;
\*   otherwise the value depends on the POVM (judged on the "rel" lines against numpy), it must return.
OwciClauses(ln) ==
  LET R == reg[ln.reg] IN
  IF R.n # 2 THEN << <<"MalformedRecord", FALSE>> >>
  ELSE IF MutInf(R.G, {1}, {2}) = 0 THEN ValueClauses("OneWayInfoValue", ln, ln.v = 0)
  ELSE IF LogNeg(R.G, {1}, {2}) = 1 /\ ln.rank1 THEN ValueClauses("OneWayInfoValue", ln, ln.v = 1)
  ELSE ReturnsOnly(ln)

\* ---------------------------------------------------------------- two registers
Pow4(n) == 4^n

\* fidelity: v = F^2 * 4^n ;  trace distance: v1 = T * 2^n, v2 = T^2 * 2^n
PairClauses(ln) ==
  LET S == reg[ln.r1].G
      T == reg[ln.r2].G
      n == reg[ln.r1].n
  IN
  IF n = 0 \/ reg[ln.r2].n # n THEN << <<"MalformedRecord", FALSE>> >>
  ELSE IF ln.m = "fidelity"
  THEN LET f == FidSq(S, T) IN
       IF ln.dd /\ ln.exc = ""
       \* operator-operator route: the value on the coarse snap, the double-precision accuracy separately
       THEN << <<"FidelityValue", ln.gc /\ ln.vc * f[2] = f[1] * Pow4(n)>>,
               <<"NOTE:FidelityAccuracy", ln.grid /\ ln.v * f[2] = f[1] * Pow4(n)>> >>
       ELSE ValueClauses("FidelityValue", ln, ln.v * f[2] = f[1] * Pow4(n))
  ELSE IF ln.m = "trace_distance"
  THEN IF IsPure(S, n) /\ IsPure(T, n)
       THEN ValueClauses("TraceDistanceValue", ln,
               ln.g2 /\ ln.v2 = (IF Clash(S, T) THEN 2^n ELSE 2^n - Cardinality(S \cap T)))
       ELSE IF AllCommute(S, T)
       THEN LET d == TraceDistCommuting(S, T) IN
            ValueClauses("TraceDistanceValue", ln, ln.g1 /\ ln.v1 * d[2] = d[1] * 2^n)
       ELSE ValueClauses("TraceDistanceValue", ln, TRUE)        \* no closed form here: must return
  ELSE << <<"MalformedRecord", FALSE>> >>

\* ---------------------------------------------------------------- shift states over qudit dims
ShiftRef(ln) ==
  LET A == IdxSet(ln.A)
      B == IdxSet(ln.B)
      C == Sites(ln.sh) \ A
      e == ShiftEnt(ln.kind, ln.sh, ln.r, A)
  IN
  CASE ln.m \in {"entropy", "entropy_subsys"} -> e
    [] ln.m = "mutinf"         -> ShiftMI(ln.kind, ln.sh, ln.r, A, C)
    [] ln.m = "mutinf_subsys"  -> ShiftMI(ln.kind, ln.sh, ln.r, A, B)
    [] ln.m = "logneg"         -> IF ln.kind = "mix" THEN 0 ELSE e
    [] ln.m = "negativity"     -> IF ln.kind = "mix" THEN 0 ELSE 2^e - 1
    [] ln.m = "logneg_subsys"  -> ShiftLogNeg(ln.kind, ln.sh, ln.r, A, B)
    [] ln.m = "schmidt_gap"    -> IF e = 0 THEN 1 ELSE 0
    [] ln.m \in {"tr_sqrt", "tr_sqrt_subsys"} -> 2^e

ShiftWellFormed(ln) ==
  /\ ObsClauseName(ln.m) # "UnknownMeasure"
  /\ Len(ln.sh) = Len(ln.dims)
  /\ \A i \in 1..Len(ln.sh) : ln.sh[i] \in 0..ln.r /\ 2^(ln.r - ln.sh[i]) <= ln.dims[i]
  /\ (ln.kind = "pure" => \E i \in 1..Len(ln.sh) : ln.sh[i] = 0)
  /\ IdxSet(ln.A) \subseteq Sites(ln.sh) /\ IdxSet(ln.B) \subseteq Sites(ln.sh)

ShiftClauses(ln) ==
  IF ~ShiftWellFormed(ln) THEN << <<"MalformedRecord", FALSE>> >>
  ELSE LET ref == ShiftRef(ln) IN
       IF ref < 0 THEN ReturnsOnly(ln)
       ELSE ValueClauses(ObsClauseName(ln.m), ln, ln.v = ref)

\* ---------------------------------------------------------------- relations on generic (random) states
RelNames == {"TextbookValue", "KetEqualsProjector", "DenseEqualsSparse", "ShortcutEqualsExact",
             "LocalUnitaryInvariant", "RelabelInvariant", "ArgumentSymmetry", "KrausTextbook",
             "MeasureTextbook", "PurifyTextbook", "FidelityAccuracy"}

RelClauses(ln) ==
  IF ln.cl \notin RelNames THEN << <<"MalformedRecord", FALSE>> >>
  ELSE IF ln.exc # "" /\ Sparse(ln) THEN << <<"NOTE:SparseRejected", FALSE>> >>
  ELSE IF ln.cl = "FidelityAccuracy"       \* double-precision accuracy of the operator-operator route: a note
       THEN << <<"Returns", ln.exc = "">>, <<"NOTE:FidelityAccuracy", ln.exc # "" \/ ln.dq = 0>> >>
  ELSE << <<"Returns", ln.exc = "">>, <<ln.cl, ln.exc # "" \/ ln.dq = 0>> >>

\* bounds, on values quantised to 1e-6 with a slack of Eps
Eps == 20
BoundHolds(ln) ==
  LET t == ln.t IN
  CASE ln.form = "ge0"        -> t[1] >= -Eps
    [] ln.form = "le"         -> t[1] <= t[2] + Eps
    [] ln.form = "le_sum"     -> t[1] <= t[2] + t[3] + Eps
    [] ln.form = "absdiff_le" -> Abs(t[1] - t[2]) <= t[3] + Eps
    [] ln.form = "eq"         -> Abs(t[1] - t[2]) <= Eps
    [] OTHER -> FALSE

BoundNames == {"NonNegativity", "UpperBound", "SubAdditivity", "ArakiLieb", "PureStateIdentity",
               "FuchsVanDeGraaf", "NegativityLogneg"}
BoundClauses(ln) ==
  IF ln.name \notin BoundNames THEN << <<"MalformedRecord", FALSE>> >>
  ELSE << <<"Returns", ln.exc = "">>, <<ln.name, ln.exc # "" \/ BoundHolds(ln)>> >>

\* ---------------------------------------------------------------- dispatch
Clauses(ln) ==
  CASE ln.ev \in {"init", "gate", "perm"} -> << >>
    [] ln.ev = "obs"    -> ObsClauses(ln)
    [] ln.ev = "pvec"   -> PVecClauses(ln)
    [] ln.ev = "meas"   -> MeasClauses(ln)
    [] ln.ev = "kraus"  -> KrausClauses(ln)
    [] ln.ev = "counts" -> CountsClauses(ln)
    [] ln.ev = "corr"   -> CorrClauses(ln)
    [] ln.ev = "ecm"    -> EcmClauses(ln)
    [] ln.ev = "owci"   -> OwciClauses(ln)
    [] ln.ev = "pair"   -> PairClauses(ln)
    [] ln.ev = "shift"  -> ShiftClauses(ln)
    [] ln.ev = "rel"    -> RelClauses(ln)
    [] ln.ev = "bound"  -> BoundClauses(ln)
    [] OTHER            -> << <<"UnknownEvent", FALSE>> >>

TInit == l = 1 /\ fails = <<>> /\ reg = [r \in 1..2 |-> NoReg]
TNext == /\ l <= NLines
         /\ l' = l + 1
         /\ fails' = AddFails(fails, l, Clauses(TraceLog[l]))
         /\ reg' = NextReg(TraceLog[l])
TSpec == TInit /\ [][TNext]_tvars

Done == l = NLines + 1 => WriteVerdict(l - 1, fails)
=============================================================================
