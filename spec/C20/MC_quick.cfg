SPECIFICATION Spec
CONSTANTS
  N = 3
  WithQueries = FALSE
  WithMixed = FALSE
  HeavyLaws = FALSE
  SlimGates = FALSE
  Mutant <- NoMutant
VIEW View
INVARIANT GroupInv
INVARIANT ImplMatchesRef
INVARIANT ImplRoutes
INVARIANT Bounds
INVARIANT Symmetry
INVARIANT SubAdditivity
INVARIANT PureIdentities
INVARIANT LocalInvariance
INVARIANT RelabelCovariance
CHECK_DEADLOCK FALSE
