"""Running TLC and reading back what it did.

Everything that touches the model checker goes through this module so that each
check reports the same numbers (states, transitions, per-action coverage) and so
that a TLC failure is never mistaken for a verdict about quimb.
"""

import json
import os
import re
import shutil
import subprocess
import tempfile
import time

JAR = "/opt/veriftools/tla/tla2tools.jar"
DEPS = "/opt/veriftools/tla/CommunityModules-deps.jar"
VERIF = os.path.dirname(os.path.dirname(os.path.dirname(os.path.abspath(__file__))))
SPEC = os.path.join(VERIF, "spec")
LIB = os.path.join(SPEC, "lib")


class TLCError(RuntimeError):
    """TLC itself failed (parse error, crash, timeout): machinery failure, exit 2."""


class TLCResult:
    def __init__(self):
        self.generated = 0
        self.distinct = 0
        self.depth = 0
        self.ok = False
        self.violated = None  # name of violated invariant/property, if any
        self.output = ""
        self.wall = 0.0
        self.coverage = {}  # action name -> (distinct, total)
        self.cmd = ""

    def as_dict(self):
        return {
            "generated": self.generated,
            "distinct": self.distinct,
            "depth": self.depth,
            "ok": self.ok,
            "violated": self.violated,
            "wall_s": round(self.wall, 2),
            "coverage": self.coverage,
        }


_RE_STATES = re.compile(r"(\d+) states generated, (\d+) distinct states found")
_RE_DEPTH = re.compile(r"The depth of the complete state graph search is (\d+)")
_RE_INV = re.compile(r"Error: Invariant (\S+) is violated")
_RE_PROP = re.compile(r"Error: Action property (\S+) is violated|Error: Temporal properties were violated")
_RE_COV = re.compile(r"^<(\w+) line \d+, col \d+ to line \d+, col \d+ of module (\w+)(?: \([\d ]+\))?>: (\d+):(\d+)", re.M)


def run_tlc(
    module,
    cfg,
    spec_dir,
    workers=8,
    env=None,
    timeout=900,
    coverage=False,
    simulate=None,
    depth=None,
    seed=None,
    extra=(),
    scratch=None,
    dfs=False,
    heap="4g",
    allow_violation=False,
):
    """Run TLC on spec_dir/module.tla with spec_dir/cfg.  Returns a TLCResult.

    A violated invariant is returned (res.violated) rather than raised, because a
    few callers (self tests) expect one; any other failure raises TLCError.
    """
    own = scratch is None
    scratch = scratch or tempfile.mkdtemp(prefix="qv-tlc-")
    meta = tempfile.mkdtemp(prefix="meta-", dir=scratch)
    jopts = ["-XX:+UseParallelGC", "-Xmx" + heap, "-DTLA-Library=" + LIB]
    if dfs:
        jopts.append("-Dtlc2.tool.queue.IStateQueue=StateDeque")
    cmd = ["java"] + jopts + ["-cp", JAR + ":" + DEPS, "tlc2.TLC"]
    cmd += ["-workers", str(workers), "-metadir", meta, "-noGenerateSpecTE"]
    if coverage:
        cmd += ["-coverage", "1"]
    if simulate:
        cmd += ["-simulate", simulate]
    if depth is not None:
        cmd += ["-depth", str(depth)]
    if seed is not None:
        cmd += ["-seed", str(seed)]
    cmd += list(extra)
    cmd += ["-config", cfg, module + ".tla"]
    e = dict(os.environ)
    e.pop("JAVA_TOOL_OPTIONS", None)
    if env:
        e.update({k: str(v) for k, v in env.items()})
    res = TLCResult()
    res.cmd = " ".join(cmd)
    t0 = time.time()
    try:
        for attempt in range(3):
            p = subprocess.run(cmd, cwd=spec_dir, env=e, capture_output=True, text=True, timeout=timeout)
            # 143 / 137: the JVM was killed from outside (not a verdict, not a TLC error): run it again
            if p.returncode not in (143, 137, -15, -9):
                break
            shutil.rmtree(meta, ignore_errors=True)
            os.makedirs(meta, exist_ok=True)
    except subprocess.TimeoutExpired as ex:
        raise TLCError("TLC timed out after %ss: %s" % (timeout, res.cmd)) from ex
    finally:
        shutil.rmtree(meta, ignore_errors=True)
        if own:
            shutil.rmtree(scratch, ignore_errors=True)
    res.wall = time.time() - t0
    out = p.stdout + p.stderr
    res.output = out
    for m in _RE_STATES.finditer(out):
        res.generated, res.distinct = int(m.group(1)), int(m.group(2))
    m = _RE_DEPTH.search(out)
    if m:
        res.depth = int(m.group(1))
    # with -coverage TLC prints the statistics periodically: only the last block counts
    cov_text = out
    k = out.rfind("The coverage statistics at")
    if k >= 0:
        cov_text = out[k:]
    for m in _RE_COV.finditer(cov_text):
        name = m.group(1)
        d, t = int(m.group(3)), int(m.group(4))
        od, ot = res.coverage.get(name, (0, 0))
        res.coverage[name] = (od + d, ot + t)
    m = _RE_INV.search(out)
    if m:
        res.violated = m.group(1)
    elif _RE_PROP.search(out):
        mm = _RE_PROP.search(out)
        res.violated = mm.group(1) or "temporal"
    finished = "Model checking completed. No error has been found." in out or (
        simulate and "Progress" in out
    )
    if res.violated:
        res.ok = False
        if not allow_violation:
            raise TLCError(
                "model-level property %s violated in %s/%s (%s): the specification itself is inconsistent\n%s"
                % (res.violated, spec_dir, module, cfg, out[-3000:])
            )
    elif finished and "Error:" not in out:
        res.ok = True
    elif simulate and p.returncode == 0:
        res.ok = True
    else:
        raise TLCError("TLC failed (rc=%s) on %s/%s %s\n%s" % (p.returncode, spec_dir, module, cfg, out[-4000:]))
    return res


def validate_trace(module, cfg, spec_dir, trace_file, out_file=None, env=None, timeout=1800, scratch=None, heap="6g"):
    """Run a Trace spec over an ndjson trace.  The spec writes its verdict
    (JSON: {"n": lines consumed, "fails": [{line, clause, ...}]}) to OUT_FILE.

    Returns (verdict_dict, TLCResult).  Raises TLCError if TLC did not consume
    the whole trace (that is a machinery failure: trace specs are total).
    """
    out_file = out_file or trace_file + ".verdict.json"
    if os.path.exists(out_file):
        os.remove(out_file)
    e = {"TRACE_FILE": trace_file, "OUT_FILE": out_file}
    if env:
        e.update(env)
    res = run_tlc(module, cfg, spec_dir, workers=1, env=e, timeout=timeout, scratch=scratch, heap=heap)
    if not os.path.exists(out_file):
        raise TLCError("trace spec %s wrote no verdict for %s\n%s" % (module, trace_file, res.output[-3000:]))
    with open(out_file) as f:
        verdict = json.load(f)
    with open(trace_file) as f:
        nlines = sum(1 for ln in f if ln.strip())
    if verdict.get("n") != nlines:
        raise TLCError("trace spec %s consumed %s of %s lines" % (module, verdict.get("n"), nlines))
    if not isinstance(verdict.get("fails"), list):
        verdict["fails"] = list(verdict.get("fails") or [])
    return verdict, res


# --------------------------------------------------------------------------
# behaviours out of TLC

def parse_printed_json(output, marker="QVJSON"):
    """TLC `PrintT(<<"QVJSON", ToJson(x)>>)` lines -> list of python values."""
    vals = []
    for ln in output.splitlines():
        i = ln.find('<<"%s", "' % marker)
        if i < 0:
            continue
        s = ln[i + len(marker) + 7 :]
        j = s.rfind('">>')
        if j < 0:
            continue
        body = s[:j]
        # TLC prints the TLA+ string with escaped quotes and backslashes
        body = body.replace('\\"', '"').replace("\\\\", "\\")
        try:
            vals.append(json.loads(body))
        except Exception:
            pass
    return vals


def sany(path):
    cmd = ["java", "-DTLA-Library=" + LIB, "-cp", JAR + ":" + DEPS, "tla2sany.SANY", os.path.basename(path)]
    p = subprocess.run(cmd, cwd=os.path.dirname(path), capture_output=True, text=True, timeout=120)
    out = p.stdout + p.stderr
    ok = p.returncode == 0 and "Semantic errors" not in out and "***Parse Error***" not in out and "Fatal" not in out and "Could not" not in out
    return ok, out
