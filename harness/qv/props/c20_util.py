"""C20 helpers: a plain-numpy register simulator (independent of quimb) and the textbook
definitions of the measures "evaluated with plain linear algebra" (numpy only).

Nothing in this file imports quimb: it is the observation side of the check.  The exact
reference values (stabilizer states, shift states) live in spec/C20/C20_Defs.tla.
"""

import itertools
import math

import numpy as np

SQ2 = 1.0 / math.sqrt(2.0)
GATES = {
    "H": np.array([[SQ2, SQ2], [SQ2, -SQ2]], dtype=complex),
    "S": np.array([[1, 0], [0, 1j]], dtype=complex),
    "CX": np.array([[1, 0, 0, 0], [0, 1, 0, 0], [0, 0, 0, 1], [0, 0, 1, 0]], dtype=complex),
    "CZ": np.diag([1, 1, 1, -1]).astype(complex),
}
PAULI = [
    np.eye(2, dtype=complex),
    np.array([[0, 1], [1, 0]], dtype=complex),
    np.array([[0, -1j], [1j, 0]], dtype=complex),
    np.array([[1, 0], [0, -1]], dtype=complex),
]


def apply_ket(psi, U, qs, dims):
    """U (acting on the ordered subsystems qs, first factor = qs[0]) applied to a ket."""
    n = len(dims)
    k = len(qs)
    sub = [dims[q] for q in qs]
    t = np.asarray(psi, dtype=complex).reshape(dims)
    u = np.asarray(U, dtype=complex).reshape(sub + sub)
    out = np.tensordot(u, t, axes=(list(range(k, 2 * k)), list(qs)))
    out = np.moveaxis(out, list(range(k)), list(qs))
    return out.reshape(-1)


def full_op(U, qs, dims):
    """dense matrix of U acting on subsystems qs of a register with dimensions dims"""
    d = int(np.prod(dims))
    cols = []
    for j in range(d):
        e = np.zeros(d, dtype=complex)
        e[j] = 1.0
        cols.append(apply_ket(e, U, qs, dims))
    return np.stack(cols, axis=1)


def perm_op(perm, dims):
    """matrix of the relabelling: new subsystem i carries old subsystem perm[i]"""
    d = int(np.prod(dims))
    cols = []
    for j in range(d):
        e = np.zeros(d, dtype=complex)
        e[j] = 1.0
        cols.append(e.reshape(dims).transpose(perm).reshape(-1))
    return np.stack(cols, axis=1)


_PB = {}


def pauli_basis(n):
    """all 4^n Pauli strings in base-4 order (qubit 0 most significant), shape (4^n, 2^n, 2^n)"""
    if n not in _PB:
        mats = []
        for letters in itertools.product(range(4), repeat=n):
            m = np.array([[1.0 + 0j]])
            for a in letters:
                m = np.kron(m, PAULI[a])
            mats.append(m)
        _PB[n] = np.stack(mats, axis=0)
    return _PB[n]


def pauli_string(letters):
    m = np.array([[1.0 + 0j]])
    for a in letters:
        m = np.kron(m, PAULI[a])
    return m


def pvec(M, n):
    """Tr(P M) for all Pauli strings P (complex array of length 4^n)"""
    return np.einsum("kij,ji->k", pauli_basis(n), np.asarray(M, dtype=complex))


class Reg:
    """A register of n qubits simulated with plain numpy; rho always, psi while the state is pure
    and was only moved by maps that keep a ket."""

    def __init__(self, n, k):
        self.n = n
        self.k = k
        self.dims = [2] * n
        d = 2 ** n
        diag = np.zeros(d)
        # |0><0| on the first k qubits, identity/2 on the rest
        for idx in range(d):
            bits = [(idx >> (n - 1 - q)) & 1 for q in range(n)]
            if all(b == 0 for b in bits[:k]):
                diag[idx] = 1.0 / 2 ** (n - k)
        self.rho = np.diag(diag).astype(complex)
        self.psi = None
        if k == n:
            self.psi = np.zeros(d, dtype=complex)
            self.psi[0] = 1.0

    def copy(self):
        r = Reg.__new__(Reg)
        r.n, r.k, r.dims = self.n, self.k, list(self.dims)
        r.rho = self.rho.copy()
        r.psi = None if self.psi is None else self.psi.copy()
        return r

    @property
    def pure(self):
        return self.psi is not None

    def gate(self, g, qs):
        F = full_op(GATES[g], list(qs), self.dims)
        self.rho = F @ self.rho @ F.conj().T
        if self.psi is not None:
            self.psi = F @ self.psi

    def perm(self, perm):
        P = perm_op(list(perm), self.dims)
        self.rho = P @ self.rho @ P.conj().T
        if self.psi is not None:
            self.psi = P @ self.psi

    def prob(self, letters, sgn):
        P = pauli_string(letters)
        proj = (np.eye(2 ** self.n) + (-1) ** sgn * P) / 2
        return float(np.real(np.trace(proj @ self.rho)))

    def collapse(self, letters, sgn):
        P = pauli_string(letters)
        proj = (np.eye(2 ** self.n) + (-1) ** sgn * P) / 2
        p = float(np.real(np.trace(proj @ self.rho)))
        self.rho = proj @ self.rho @ proj / p
        if self.psi is not None:
            self.psi = proj @ self.psi / math.sqrt(p)

    def channel(self, kraus_full):
        self.rho = sum(E @ self.rho @ E.conj().T for E in kraus_full)
        self.psi = None
        # a channel output that is still pure gets its ket back (needed for the ket-only routines)
        w, v = np.linalg.eigh(self.rho)
        if abs(w[-1] - 1.0) < 1e-12:
            self.psi = v[:, -1].copy()


# ----------------------------------------------------------------------------
# textbook definitions with plain linear algebra (for generic states over any dims)

def np_dop(x):
    x = np.asarray(x, dtype=complex)
    if x.ndim == 1 or 1 in x.shape:
        v = x.reshape(-1)
        return np.outer(v, v.conj())
    return x


def np_ptr(rho, dims, keep):
    """reduced density matrix on the subsystems in `keep` (kept in increasing order)"""
    rho = np_dop(rho)
    n = len(dims)
    keep = sorted(set(int(k) for k in keep))
    t = rho.reshape(list(dims) + list(dims))
    letters = "abcdefghijklmnopqrstuvwxyzABCDEFGHIJKLMNOPQRSTUVWXYZ"
    ket = [letters[i] for i in range(n)]
    bra = [letters[n + i] if i in keep else letters[i] for i in range(n)]
    out = [letters[i] for i in keep] + [letters[n + i] for i in keep]
    t = np.einsum("".join(ket) + "".join(bra) + "->" + "".join(out), t)
    d = int(np.prod([dims[i] for i in keep])) if keep else 1
    return t.reshape(d, d)


def np_entropy(rho):
    w = np.linalg.eigvalsh(np_dop(rho))
    w = w[w > 1e-300]
    return float(-np.sum(w * np.log2(w)))


def np_pt(rho, dims, sysa):
    rho = np_dop(rho)
    n = len(dims)
    t = rho.reshape(list(dims) + list(dims))
    perm = list(range(2 * n))
    for a in set(int(x) for x in sysa):
        perm[a], perm[n + a] = perm[n + a], perm[a]
    d = int(np.prod(dims))
    return t.transpose(perm).reshape(d, d)


def np_trnorm(M):
    return float(np.sum(np.linalg.svd(M, compute_uv=False)))


def np_negativity(rho, dims, sysa):
    return max(0.0, (np_trnorm(np_pt(rho, dims, sysa)) - 1) / 2)


def np_logneg(rho, dims, sysa):
    return max(0.0, math.log2(np_trnorm(np_pt(rho, dims, sysa))))


def np_mutinf(rho, dims, A, B):
    return np_entropy(np_ptr(rho, dims, A)) + np_entropy(np_ptr(rho, dims, B)) - np_entropy(np_ptr(rho, dims, list(A) + list(B)))


def np_sqrtm(rho):
    w, v = np.linalg.eigh(rho)
    w = np.clip(w, 0, None)
    return (v * np.sqrt(w)) @ v.conj().T


def np_fidelity(rho, sigma):
    """unsquared Uhlmann fidelity Tr sqrt( sqrt(rho) sigma sqrt(rho) )"""
    s = np_sqrtm(np_dop(rho))
    return np_trnorm(s @ np_sqrtm(np_dop(sigma)))


def np_trace_distance(rho, sigma):
    w = np.linalg.eigvalsh(np_dop(rho) - np_dop(sigma))
    return 0.5 * float(np.sum(np.abs(w)))


def np_concurrence(rho):
    """Wootters concurrence of a two-qubit state"""
    rho = np_dop(rho)
    YY = np.kron(PAULI[2], PAULI[2])
    s = np_sqrtm(rho)
    R = s @ YY @ rho.conj() @ YY @ s
    w = np.sqrt(np.clip(np.linalg.eigvalsh((R + R.conj().T) / 2), 0, None))
    w = np.sort(w)[::-1]
    return max(0.0, float(w[0] - w[1] - w[2] - w[3]))


def np_schmidt_gap(psi, dims, sysa):
    w = np.sort(np.linalg.eigvalsh(np_ptr(psi, dims, sysa)))[::-1]
    return float(w[0] - (w[1] if len(w) > 1 else 0.0))


def np_tr_sqrt(rho):
    w = np.linalg.eigvalsh(np_dop(rho))
    return float(np.sum(np.sqrt(w[w > 0])))


def rand_unitary(rng, d):
    z = rng.standard_normal((d, d)) + 1j * rng.standard_normal((d, d))
    q, r = np.linalg.qr(z)
    ph = np.diag(r) / np.abs(np.diag(r))
    return q * ph


def rand_ket(rng, d):
    v = rng.standard_normal(d) + 1j * rng.standard_normal(d)
    return v / np.linalg.norm(v)


def rand_rho(rng, d, rank):
    g = rng.standard_normal((d, rank)) + 1j * rng.standard_normal((d, rank))
    r = g @ g.conj().T
    return r / np.real(np.trace(r))


def local_unitary(rng, dims):
    U = np.array([[1.0 + 0j]])
    for d in dims:
        U = np.kron(U, rand_unitary(rng, d))
    return U


# ----------------------------------------------------------------------------
# qubit POVMs (sum_k M_k = 1) and the Henderson-Vedral one-way classical information

def _bloch_proj(n):
    n = np.asarray(n, dtype=float)
    return 0.5 * (PAULI[0] + n[0] * PAULI[1] + n[1] * PAULI[2] + n[2] * PAULI[3])


def povm_projective(rng):
    v = rng.standard_normal(3)
    v = v / np.linalg.norm(v)
    return [_bloch_proj(v), _bloch_proj(-v)]


def povm_trine(rng=None, rot=None):
    """rank-one, non-orthogonal: M_k = (2/3)|t_k><t_k| with coplanar Bloch vectors 120 degrees apart"""
    vs = [np.array([math.sin(a), 0.0, math.cos(a)]) for a in (0.0, 2 * math.pi / 3, 4 * math.pi / 3)]
    if rot is not None:
        vs = [rot @ v for v in vs]
    return [(2.0 / 3.0) * _bloch_proj(v) for v in vs]


def povm_tetra(rot=None):
    """rank-one SIC POVM: M_k = (1/2)|s_k><s_k| with tetrahedral Bloch vectors"""
    c = 1.0 / math.sqrt(3.0)
    vs = [np.array(v) * c for v in ((1, 1, 1), (1, -1, -1), (-1, 1, -1), (-1, -1, 1))]
    if rot is not None:
        vs = [rot @ v for v in vs]
    return [0.5 * _bloch_proj(v) for v in vs]


def povm_unsharp(eta, axis=3):
    """noisy two-outcome POVM (1 +- eta P)/2, not projective for |eta| < 1"""
    return [0.5 * (PAULI[0] + eta * PAULI[axis]), 0.5 * (PAULI[0] - eta * PAULI[axis])]


def povm_random(rng, k):
    """generic k-outcome POVM with full-rank complex elements: S^-1/2 A_k^dag A_k S^-1/2"""
    As = [rng.standard_normal((2, 2)) + 1j * rng.standard_normal((2, 2)) for _ in range(k)]
    Es = [a.conj().T @ a for a in As]
    S = sum(Es)
    w, v = np.linalg.eigh(S)
    Si = (v / np.sqrt(w)) @ v.conj().T
    return [Si @ e @ Si for e in Es]


def rand_rotation(rng):
    q, r = np.linalg.qr(rng.standard_normal((3, 3)))
    q = q * np.sign(np.diag(r))
    if np.linalg.det(q) < 0:
        q[:, 0] = -q[:, 0]
    return q


def np_owci(rho, povm):
    """J = S(rho_A) - sum_k p_k S(rho_A|k), p_k = Tr[(1 x M_k) rho], rho_A|k = Tr_B[(1 x M_k) rho]/p_k
    for a two-qubit rho, the second qubit being measured"""
    rho = np_dop(rho)
    s = np_entropy(np_ptr(rho, [2, 2], [0]))
    for M in povm:
        x = np.kron(np.eye(2), M) @ rho
        pk = float(np.real(np.trace(x)))
        if pk < 1e-15:
            continue
        ra = np.einsum("ibjb->ij", x.reshape(2, 2, 2, 2)) / pk
        ra = (ra + ra.conj().T) / 2
        s -= pk * np_entropy(ra)
    return s
